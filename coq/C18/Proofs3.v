(* C18 -- proofs, third part: Wedderburn rank reduction of the cross approximation over a field. *)
From Coq Require Import List Arith Bool Lia Ring Field.
From Verif.C18 Require Import Model Proofs.
Import ListNotations.

Section FieldProofs.
Variable F : Type.
Variables (rO rI : F) (radd rmul rsub : F -> F -> F) (ropp : F -> F) (rdiv : F -> F -> F) (rinv : F -> F).
Variable Fth : field_theory rO rI radd rmul rsub ropp rdiv rinv (@eq F).
Let Rth := F_R Fth.
Add Field Ffield : Fth.
(* deciding whether an entry is zero (the code compares with 1e-15) *)
Variable feq_dec : forall x y : F, {x = y} + {x <> y}.

Local Notation "0" := rO.
Local Notation "1" := rI.
Local Infix "+" := radd.
Local Infix "*" := rmul.
Local Infix "-" := rsub.
Local Infix "/" := rdiv.
Local Notation "- x" := (ropp x).
Local Notation sumn := (Model.sumn F rO radd).
Local Notation mat := (Model.mat F).
Local Notation me := (Model.me F).
Local Notation sumn_ext := (Proofs.sumn_ext F rO radd).
Local Notation sumn_add := (Proofs.sumn_add F rO rI radd rmul rsub ropp Rth).
Local Notation sumn_mul_l := (Proofs.sumn_mul_l F rO rI radd rmul rsub ropp Rth).
Local Notation sumn_delta := (Proofs.sumn_delta F rO rI radd rmul rsub ropp Rth).
Local Notation sumn_zero := (Proofs.sumn_zero F rO rI radd rmul rsub ropp Rth).
Local Notation sumn_split := (Proofs.sumn_split F rO rI radd rmul rsub ropp Rth).

(* a residual as an entry function; one cross at pivot (i, j0):  R' = R - R[:,j0] R[i,:] / R[i,j0] *)
Definition wstep (Rm : nat -> nat -> F) (i j0 : nat) : nat -> nat -> F :=
  fun a b => Rm a b - Rm a j0 * Rm i b / Rm i j0.

(* Rm is a sum of r outer products u_k v_k^T *)
Definition outer_sum (r : nat) (u v : nat -> nat -> F) (Rm : nat -> nat -> F) : Prop :=
  forall a b, Rm a b = sumn r (fun k => u k a * v k b).
Definition has_rank (r : nat) (Rm : nat -> nat -> F) : Prop := exists u v, outer_sum r u v Rm.

Lemma sumn_except n m (g : nat -> F) : m < n ->
  sumn n (fun k => if (k =? m)%nat then 0 else g k) = sumn n g - g m.
Proof.
  intros Hm.
  assert (E : sumn n g = sumn n (fun k => (if (m =? k)%nat then g k else 0) + (if (k =? m)%nat then 0 else g k))).
  { apply sumn_ext. intros k _. rewrite (Nat.eqb_sym m k). destruct (k =? m)%nat; ring. }
  rewrite E, sumn_add, sumn_delta by exact Hm. ring.
Qed.

(* dropping the m-th of n+1 terms: a sum of n terms *)
Definition skip (m k : nat) : nat := if (k <? m)%nat then k else S k.

Lemma sumn_skip n m (g : nat -> F) : m <= n ->
  sumn n (fun k => g (skip m k)) = sumn (S n) (fun k => if (k =? m)%nat then 0 else g k).
Proof.
  intros Hm. replace n with (m + (n - m))%nat at 1 by lia.
  replace (S n) with (m + (1 + (n - m)))%nat by lia.
  rewrite (sumn_split m (n - m)%nat), (sumn_split m (1 + (n - m))%nat).
  f_equal; [|rewrite (sumn_split 1 (n - m)%nat); unfold Model.sumn at 2; simpl].
  - apply sumn_ext. intros k Hk. unfold skip. destruct (Nat.ltb_spec k m); [|lia].
    destruct (Nat.eqb_spec k m); [lia|reflexivity].
  - rewrite Nat.add_0_r, Nat.eqb_refl.
    assert (E : sumn (n - m) (fun j => if (m + S j =? m)%nat then 0 else g (m + S j)%nat)
                = sumn (n - m) (fun j => g (skip m (m + j)%nat))).
    { apply sumn_ext. intros j Hj. unfold skip. destruct (Nat.eqb_spec (m + S j) m); [lia|].
      destruct (Nat.ltb_spec (m + j) m); [lia|]. f_equal. lia. }
    rewrite E. ring.
Qed.

(* Wedderburn: if R = sum_{k<r+1} u_k v_k^T, the pivot R[i,j0] is non-zero and v_m[j0] <> 0, then the
   residual after the cross is the sum of the r outer products u'_k v'_k^T, k <> m, with
     u'_k = u_k - (u_k[i] / p) R[:,j0],   v'_k = v_k - (v_k[j0] / v_m[j0]) v_m *)
Definition wu (u : nat -> nat -> F) (Rm : nat -> nat -> F) (i j0 : nat) : nat -> nat -> F :=
  fun k a => u k a - u k i / Rm i j0 * Rm a j0.
Definition wv (v : nat -> nat -> F) (j0 m : nat) : nat -> nat -> F :=
  fun k b => v k b - v k j0 / v m j0 * v m b.

Lemma wedderburn_explicit r u v Rm i j0 m :
  outer_sum (S r) u v Rm -> Rm i j0 <> 0 -> m <= r -> v m j0 <> 0 ->
  outer_sum r (fun k => wu u Rm i j0 (skip m k)) (fun k => wv v j0 m (skip m k)) (wstep Rm i j0).
Proof.
  intros HR Hp Hm Hv a b. unfold wstep.
  rewrite (sumn_skip r m (fun k => wu u Rm i j0 k a * wv v j0 m k b)) by exact Hm.
  rewrite sumn_except by lia.
  unfold wu, wv.
  set (p := Rm i j0) in *. set (ca := Rm a j0). set (t1 := v m b / v m j0). set (t2 := ca / p).
  rewrite (sumn_ext _ _ (fun k => u k a * v k b + (- t1) * (u k a * v k j0) + (- t2) * (u k i * v k b)
                                    + (t1 * t2) * (u k i * v k j0))).
  2:{ intros k _. unfold t1, t2. field. split; assumption. }
  rewrite !sumn_add, !sumn_mul_l.
  rewrite <- (HR a b), <- (HR a j0), <- (HR i b), <- (HR i j0).
  fold p. fold ca. unfold t1, t2. field. split; assumption.
Qed.

(* a non-zero pivot needs a term with v_m[j0] <> 0 *)
Lemma pivot_term r u v Rm i j0 :
  outer_sum r u v Rm -> Rm i j0 <> 0 -> exists m, m < r /\ v m j0 <> 0.
Proof.
  intros HR Hp. rewrite (HR i j0) in Hp. clear HR.
  induction r as [|r IH].
  - exfalso. apply Hp. reflexivity.
  - destruct (feq_dec (v r j0) 0) as [E|E].
    + destruct IH as [m [Hm Hv]].
      * intros H0. apply Hp. replace (S r) with (r + 1)%nat by lia. rewrite sumn_split, H0.
        unfold Model.sumn; simpl. rewrite Nat.add_0_r, E. ring.
      * exists m. split; [lia|exact Hv].
    + exists r. split; [lia|exact E].
Qed.

(* one accepted cross reduces the rank by one *)
Lemma wedderburn_step r Rm i j0 :
  has_rank (S r) Rm -> Rm i j0 <> 0 -> has_rank r (wstep Rm i j0).
Proof.
  intros [u [v HR]] Hp. destruct (pivot_term _ _ _ _ _ _ HR Hp) as [m [Hm Hv]].
  exists (fun k => wu u Rm i j0 (skip m k)), (fun k => wv v j0 m (skip m k)).
  apply wedderburn_explicit; [exact HR|exact Hp|lia|exact Hv].
Qed.

(* the residuals of a sequence of crosses, and the requirement that every pivot is non-zero *)
Fixpoint resid (pivots : list (nat * nat)) (Rm : nat -> nat -> F) : nat -> nat -> F :=
  match pivots with
  | [] => Rm
  | (i, j0) :: ps => resid ps (wstep Rm i j0)
  end.
Fixpoint pivots_ok (pivots : list (nat * nat)) (Rm : nat -> nat -> F) : Prop :=
  match pivots with
  | [] => True
  | (i, j0) :: ps => Rm i j0 <> 0 /\ pivots_ok ps (wstep Rm i j0)
  end.

(* an exact rank-r matrix is reproduced after r accepted crosses *)
Lemma rank_reduction : forall pivots r Rm,
  has_rank r Rm -> length pivots = r -> pivots_ok pivots Rm ->
  forall a b, resid pivots Rm a b = 0.
Proof.
  induction pivots as [|[i j0] ps IH]; intros r Rm HR HL HP a b; simpl in *.
  - subst r. destruct HR as [u [v HR]]. rewrite (HR a b). reflexivity.
  - destruct r as [|r]; [discriminate|]. destruct HP as [Hp HP].
    apply (IH r); [apply wedderburn_step; assumption|lia|exact HP].
Qed.

(* the cross step of lowrank.aca (Model.aca_step) acts on the residual A - X as wstep *)
Lemma aca_step_is_wstep (A X : mat) i j0 alpha a b :
  alpha * Model.aca_E_row F rsub A X i j0 = 1 ->
  me A a b - me (Model.aca_step F radd rmul rsub A X i j0 alpha) a b
  = wstep (fun p q => me A p q - me X p q) i j0 a b.
Proof.
  unfold Model.aca_step, Model.aca_E_row, Model.aca_col, wstep; simpl. intros H.
  assert (Hp : me A i j0 - me X i j0 <> 0).
  { intros E. assert (Z : me X i j0 - me A i j0 = 0).
    { transitivity (- (me A i j0 - me X i j0)); [ring|]. rewrite E. ring. }
    rewrite Z in H. apply (F_1_neq_0 Fth). rewrite <- H. ring. }
  assert (Ha : alpha = - (1 / (me A i j0 - me X i j0))).
  { transitivity (alpha * (me X i j0 - me A i j0) * (- (1 / (me A i j0 - me X i j0)))).
    - field. exact Hp.
    - rewrite H. ring. }
  rewrite Ha. field. exact Hp.
Qed.

Lemma pivot_nonzero (A X : mat) i j0 alpha :
  alpha * Model.aca_E_row F rsub A X i j0 = 1 -> me A i j0 - me X i j0 <> 0.
Proof.
  unfold Model.aca_E_row. intros H E.
  assert (Z : me X i j0 - me A i j0 = 0).
  { transitivity (- (me A i j0 - me X i j0)); [ring|]. rewrite E. ring. }
  rewrite Z in H. apply (F_1_neq_0 Fth). rewrite <- H. ring.
Qed.

Lemma has_rank_ext r (R1 R2 : nat -> nat -> F) :
  (forall a b, R1 a b = R2 a b) -> has_rank r R1 -> has_rank r R2.
Proof. intros E [u [v H]]. exists u, v. intros a b. rewrite <- E. apply H. Qed.

(* the iteration of lowrank.aca in exact arithmetic: accepted crosses (i, j0, alpha = 1/E_row[j0]) *)
Fixpoint aca_run (A X : mat) (steps : list (nat * nat * F)) : mat :=
  match steps with
  | [] => X
  | (i, j0, alpha) :: st => aca_run A (Model.aca_step F radd rmul rsub A X i j0 alpha) st
  end.
Fixpoint steps_ok (A X : mat) (steps : list (nat * nat * F)) : Prop :=
  match steps with
  | [] => True
  | (i, j0, alpha) :: st =>
      alpha * Model.aca_E_row F rsub A X i j0 = 1 /\ steps_ok A (Model.aca_step F radd rmul rsub A X i j0 alpha) st
  end.

(* if the residual A - X is a sum of r outer products, r accepted crosses (each with a non-zero pivot,
   which is what alpha * E_row[j0] = 1 says) reproduce A exactly *)
Lemma aca_exact_after_r : forall steps r (A X : mat),
  has_rank r (fun a b => me A a b - me X a b) -> length steps = r -> steps_ok A X steps ->
  forall a b, me (aca_run A X steps) a b = me A a b.
Proof.
  induction steps as [|[[i j0] alpha] st IH]; intros r A X HR HL HS a b; simpl in *.
  - subst r. destruct HR as [u [v HR]]. specialize (HR a b). unfold Model.sumn in HR; simpl in HR.
    transitivity (me A a b - (me A a b - me X a b)); [ring|]. rewrite HR. ring.
  - destruct r as [|r]; [discriminate|]. destruct HS as [Ha HS].
    apply (IH r); [|lia|exact HS].
    apply (has_rank_ext r (wstep (fun p q => me A p q - me X p q) i j0)).
    + intros p q. symmetry. apply aca_step_is_wstep. exact Ha.
    + apply wedderburn_step; [exact HR|]. apply (pivot_nonzero A X i j0 alpha Ha).
Qed.

End FieldProofs.
