(* C07 -- the NURBS branches of the geometry operations: NurbsFunc.apply_matrix / rotate_2d
   (geometry.py:250-271), outer_sum / outer_product / tensor_product with NurbsFunc operands
   (geometry.py:705-712, 742-749, 783-807), and rotate_2d of BSplineFunc (bspline.py:1081-1089).
   No partition of unity is needed: the weight functions cancel; only non-zero weights. *)
From Coq Require Import QArith Qcanon ZArith List Arith Bool Lia.
From Verif.lib Require Import Bsp.
From Verif.C07 Require Import Model Proofs.
Import ListNotations.
Open Scope Qc_scope.

Lemma rdot_scal_r : forall r off a f, rdot off r (fun i => f i * a) = rdot off r f * a.
Proof. induction r; intros; simpl; [ring|]. rewrite IHr. ring. Qed.

Lemma rdot_div : forall r off a f, rdot off r (fun i => f i / a) = rdot off r f / a.
Proof. intros. unfold Qcdiv. apply rdot_scal_r. Qed.

(* ---- apply_matrix --------------------------------------------------------------------- *)

Lemma n_matrix_spec_l : forall f A rows us c,
  (c < rows)%nat -> (forall idx, co f idx (wcomp f) <> 0) -> g_val f us (wcomp f) <> 0 ->
  n_val (n_matrix f A rows) us c = rdot 0 (map (A c) (seq 0 (wcomp f))) (fun k => n_val f us k).
Proof.
  intros f A rows us c Hc Hw HW. unfold n_matrix. rewrite n_val_mk_nurbs by exact Hc. unfold n_C, n_W.
  rewrite (tp_eval_ext _ _ (fun idx => rdot 0 (map (A c) (seq 0 (wcomp f))) (co f idx))).
  2:{ intros idx. rewrite rdot_div. field. apply Hw. }
  rewrite tp_eval_rdot. unfold n_val. rewrite rdot_div. reflexivity.
Qed.

(* rotate_2d(angle): R = [[c, -s], [s, c]] with (c, s) = (cos, sin)(angle), applied by apply_matrix *)
Definition rot_mat (c s : Qc) : nat -> nat -> Qc :=
  fun i j => match i, j with
             | O, O => c | O, S O => - s
             | S O, O => s | S O, S O => c
             | _, _ => 0 end.
Definition b_rotate (f : bsp) (c s : Qc) : bsp := b_matrix f (rot_mat c s) 2.
Definition n_rotate (f : bsp) (c s : Qc) : bsp := n_matrix f (rot_mat c s) 2.

Lemma rotate_spec_l : forall f c s us, nc f = 2%nat ->
  g_val (b_rotate f c s) us 0 = c * g_val f us 0 - s * g_val f us 1
  /\ g_val (b_rotate f c s) us 1 = s * g_val f us 0 + c * g_val f us 1.
Proof.
  intros f c s us H. unfold b_rotate. rewrite !matrix_spec_l, H. cbn [seq map rdot rot_mat]. split; ring.
Qed.

Lemma n_rotate_spec_l : forall f c s us, wcomp f = 2%nat ->
  (forall idx, co f idx (wcomp f) <> 0) -> g_val f us (wcomp f) <> 0 ->
  n_val (n_rotate f c s) us 0 = c * n_val f us 0 - s * n_val f us 1
  /\ n_val (n_rotate f c s) us 1 = s * n_val f us 0 + c * n_val f us 1.
Proof.
  intros f c s us H Hw HW. unfold n_rotate.
  rewrite !n_matrix_spec_l by (assumption || lia). rewrite H. cbn [seq map rdot rot_mat]. split; ring.
Qed.

(* a rotation preserves the distance from the origin: x'^2 + y'^2 = x^2 + y^2 when c^2 + s^2 = 1 *)
Lemma rotate_isometry_l : forall f c s us, nc f = 2%nat -> c * c + s * s = 1 ->
  g_val (b_rotate f c s) us 0 * g_val (b_rotate f c s) us 0 + g_val (b_rotate f c s) us 1 * g_val (b_rotate f c s) us 1
  = g_val f us 0 * g_val f us 0 + g_val f us 1 * g_val f us 1.
Proof.
  intros f c s us H Hcs. destruct (rotate_spec_l f c s us H) as [E0 E1]. rewrite E0, E1.
  set (x := g_val f us 0). set (y := g_val f us 1).
  transitivity ((c * c + s * s) * (x * x + y * y)); [ring|]. rewrite Hcs. ring.
Qed.

(* ---- outer sum / outer product / tensor product of two NURBS functions --------------------- *)

Section NOuter.
Variables (f1 f2 : bsp) (u1 u2 : list Qc).
Hypothesis L1 : length u1 = sdim f1.
Hypothesis L2 : length u2 = sdim f2.
Hypothesis Hw1 : forall idx, co f1 idx (wcomp f1) <> 0.
Hypothesis Hw2 : forall idx, co f2 idx (wcomp f2) <> 0.
Hypothesis HW1 : g_val f1 u1 (wcomp f1) <> 0.
Hypothesis HW2 : g_val f2 u2 (wcomp f2) <> 0.

Let R1 := grid_rows (kvs f1) u1 0 (zerov (sdim f1)).
Let R2 := grid_rows (kvs f2) u2 0 (zerov (sdim f2)).

Lemma n_rows : grid_rows (kvs f1 ++ kvs f2) (u1 ++ u2) 0 (zerov (length (kvs f1 ++ kvs f2))) = R1 ++ R2.
Proof. apply outer_rows. exact L1. Qed.

Lemma n_R1_len : length R1 = sdim f1.
Proof. apply R1_len. exact L1. Qed.

(* the common weight function: W1(y) W2(x) *)
Lemma n_outer_weight :
  tp_eval (R1 ++ R2) (fun idx => n_W f1 (split1 f1 idx) * n_W f2 (split2 f1 idx))
  = g_val f1 u1 (wcomp f1) * g_val f2 u2 (wcomp f2).
Proof.
  unfold split1, split2, n_W. rewrite <- n_R1_len.
  apply (tp_eval_app_mul R1 R2 (fun idx => co f1 idx (wcomp f1)) (fun idx => co f2 idx (wcomp f2))).
Qed.

Lemma n_outer_sum_spec_l : forall c, (c < wcomp f1)%nat ->
  n_val (n_outer_sum f1 f2) (u1 ++ u2) c = n_val f1 u1 c + n_val f2 u2 c.
Proof.
  intros c Hc. unfold n_outer_sum. rewrite n_val_mk_nurbs by exact Hc.
  rewrite n_rows, n_outer_weight.
  rewrite (tp_eval_ext _ _ (fun idx => co f1 (split1 f1 idx) c * co f2 (split2 f1 idx) (wcomp f2)
                                       + co f1 (split1 f1 idx) (wcomp f1) * co f2 (split2 f1 idx) c)).
  2:{ intros idx. unfold n_C, n_W. field. split; [apply Hw2|apply Hw1]. }
  rewrite tp_eval_add. unfold split1, split2. rewrite <- n_R1_len.
  rewrite (tp_eval_app_mul R1 R2 (fun idx => co f1 idx c) (fun idx => co f2 idx (wcomp f2))).
  rewrite (tp_eval_app_mul R1 R2 (fun idx => co f1 idx (wcomp f1)) (fun idx => co f2 idx c)).
  pose proof HW1 as A1. pose proof HW2 as A2. unfold g_val in A1, A2. unfold n_val, g_val, R1, R2. field. split; assumption.
Qed.

Lemma n_outer_product_spec_l : forall c, (c < wcomp f1)%nat ->
  n_val (n_outer_product f1 f2) (u1 ++ u2) c = n_val f1 u1 c * n_val f2 u2 c.
Proof.
  intros c Hc. unfold n_outer_product. rewrite n_val_mk_nurbs by exact Hc.
  rewrite n_rows, n_outer_weight.
  rewrite (tp_eval_ext _ _ (fun idx => co f1 (split1 f1 idx) c * co f2 (split2 f1 idx) c)).
  2:{ intros idx. unfold n_C, n_W. field. split; [apply Hw2|apply Hw1]. }
  unfold split1, split2. rewrite <- n_R1_len.
  rewrite (tp_eval_app_mul R1 R2 (fun idx => co f1 idx c) (fun idx => co f2 idx c)).
  pose proof HW1 as A1. pose proof HW2 as A2. unfold g_val in A1, A2. unfold n_val, g_val, R1, R2. field. split; assumption.
Qed.

Lemma n_tensor_product_spec_l : forall c, (c < wcomp f2 + wcomp f1)%nat ->
  n_val (n_tensor_product f1 f2) (u1 ++ u2) c
  = if (c <? wcomp f2)%nat then n_val f2 u2 c else n_val f1 u1 (c - wcomp f2).
Proof.
  intros c Hc. unfold n_tensor_product. rewrite n_val_mk_nurbs by exact Hc.
  rewrite n_rows, n_outer_weight.
  destruct (c <? wcomp f2)%nat.
  - rewrite (tp_eval_ext _ _ (fun idx => co f1 (split1 f1 idx) (wcomp f1) * co f2 (split2 f1 idx) c)).
    2:{ intros idx. unfold n_C, n_W. field. apply Hw2. }
    unfold split1, split2. rewrite <- n_R1_len.
    rewrite (tp_eval_app_mul R1 R2 (fun idx => co f1 idx (wcomp f1)) (fun idx => co f2 idx c)).
    pose proof HW1 as A1. pose proof HW2 as A2. unfold g_val in A1, A2. unfold n_val, g_val, R1, R2. field. split; assumption.
  - rewrite (tp_eval_ext _ _ (fun idx => co f1 (split1 f1 idx) (c - wcomp f2) * co f2 (split2 f1 idx) (wcomp f2))).
    2:{ intros idx. unfold n_C, n_W. field. apply Hw1. }
    unfold split1, split2. rewrite <- n_R1_len.
    rewrite (tp_eval_app_mul R1 R2 (fun idx => co f1 idx (c - wcomp f2)) (fun idx => co f2 idx (wcomp f2))).
    pose proof HW1 as A1. pose proof HW2 as A2. unfold g_val in A1, A2. unfold n_val, g_val, R1, R2. field. split; assumption.
Qed.
End NOuter.

(* ---- mixed operands: a BSplineFunc is first converted by as_nurbs() (weights 1) ---------------- *)

Lemma as_nurbs_facts : forall f us c, (c < nc f)%nat -> pou_at (kvs f) us ->
  wcomp (b_as_nurbs f) = nc f /\ (forall idx, co (b_as_nurbs f) idx (wcomp (b_as_nurbs f)) <> 0)
  /\ g_val (b_as_nurbs f) us (wcomp (b_as_nurbs f)) <> 0 /\ n_val (b_as_nurbs f) us c = g_val f us c
  /\ sdim (b_as_nurbs f) = sdim f.
Proof.
  intros f us c Hc Hp.
  assert (Ew : wcomp (b_as_nurbs f) = nc f) by (unfold b_as_nurbs; apply wcomp_mk_nurbs).
  split; [exact Ew|]. rewrite Ew. unfold b_as_nurbs at 1 2.
  assert (One : (1:Qc) <> 0) by (intro E; discriminate E).
  split; [|split; [|split; [apply as_nurbs_spec_l; assumption|reflexivity]]].
  - intros idx. unfold mk_nurbs. cbn [co]. rewrite Nat.ltb_irrefl. exact One.
  - rewrite g_val_mk_nurbs_w. rewrite (tp_eval_const _ 1 Hp). exact One.
Qed.

(* outer_sum / outer_product of a BSplineFunc G1 and a NurbsFunc G2 (the NURBS branch is taken) *)
Lemma mixed_outer_spec_l : forall f1 f2 u1 u2 c,
  length u1 = sdim f1 -> length u2 = sdim f2 -> (c < nc f1)%nat -> pou_at (kvs f1) u1 ->
  (forall idx, co f2 idx (wcomp f2) <> 0) -> g_val f2 u2 (wcomp f2) <> 0 ->
  n_val (n_outer_sum (b_as_nurbs f1) f2) (u1 ++ u2) c = g_val f1 u1 c + n_val f2 u2 c
  /\ n_val (n_outer_product (b_as_nurbs f1) f2) (u1 ++ u2) c = g_val f1 u1 c * n_val f2 u2 c.
Proof.
  intros f1 f2 u1 u2 c L1 L2 Hc Hp Hw2 HW2.
  destruct (as_nurbs_facts f1 u1 c Hc Hp) as [Ew [Hw1 [HW1 [Ev Es]]]].
  split.
  - rewrite (n_outer_sum_spec_l (b_as_nurbs f1) f2 u1 u2) by (assumption || (rewrite Ew; exact Hc) || (rewrite Es; exact L1)).
    rewrite Ev. reflexivity.
  - rewrite (n_outer_product_spec_l (b_as_nurbs f1) f2 u1 u2) by (assumption || (rewrite Ew; exact Hc) || (rewrite Es; exact L1)).
    rewrite Ev. reflexivity.
Qed.
