(* C04 -- the rational-matrix conjuncts, proved over the abstract multilevel basis of C05
   (coq/C05/Hier.v section Multilevel: n k = mesh(k).numbf, B k i = tensor-product B-spline i of
   level k, P k = tp_prolongation(k), two-scale relation B k i = sum_j P k j i * B (k+1) j;
   C05.tp_two_scale instantiates it with tensor-product B-splines of any dimension).

   Source: pyiga/hierarchical.py:1059-1146 represent_fine, :1148-1173 truncate_one_level,
           :1175-1186 thb_to_hb, :1188-1204 hb_to_thb.

   Coefficient arrays are functions level -> raveled index -> Qc that vanish outside the active
   functions (split_coeffs + _reindex); actb l i = true iff function i of level l is active,
   deactb l i = true iff it is deactivated.
     RF n P Z T m J i           represent_fine(lv=T) block of level T-m (C05); Z = noZ for HB, Z = actb for THB
     fine_coeff n P Z T u J     (represent_fine(lv=T, truncate) @ u)[J]
     t2h n P actb T u           thb_to_hb @ u  = (I - A_{T-1}) ... (I - A_0) u           (C05/HierThb.v)
     h2t T u                    hb_to_thb @ u  = (I + A_0) (I + A_1) ... (I + A_{T-1}) u (here)       *)
From Coq Require Import QArith Qcanon List Bool Arith Lia.
From Verif.lib Require Import Bsp.
From Verif.C05 Require Import Model Proofs Hier HierThb.
Import ListNotations.
Open Scope Qc_scope.

Section Thb.
  Variable n : nat -> nat.
  Variable P : nat -> nat -> nat -> Qc.
  Variable actb : nat -> nat -> bool.

  (* the block A of truncate_one_level(k) applied to w: non-zero rows = the active functions of level
     k+1, entries = represent_fine(lv=k+1, rows=actidx[k+1], truncate=False) restricted to the levels <= k *)
  Definition Acorr (k : nat) (w : nat -> nat -> Qc) (j : nat) : Qc :=
    if actb (S k) j
    then bigsum (S k) (fun l' => bigsum (n l') (fun i => RF n P noZ (S k) (S k - l') j i * w l' i))
    else 0.
  (* truncate_one_level(k) = I - A,  truncate_one_level(k, inverse=True) = I + A *)
  Definition minusA (k : nat) (w : nat -> nat -> Qc) : nat -> nat -> Qc :=
    fun l j => if Nat.eqb l (S k) then w (S k) j - Acorr k w j else w l j.
  Definition plusA (k : nat) (w : nat -> nat -> Qc) : nat -> nat -> Qc :=
    fun l j => if Nat.eqb l (S k) then w (S k) j + Acorr k w j else w l j.

  (* hb_to_thb: T = truncate_one_level(0, inverse=True); for k in 1..L-2: T = T @ truncate_one_level(k, inverse=True) *)
  Fixpoint h2t (T : nat) (u : nat -> nat -> Qc) : nat -> nat -> Qc :=
    match T with O => u | S T' => h2t T' (plusA T' u) end.

  Lemma t2h_S T u : t2h n P actb (S T) u = minusA T (t2h n P actb T u).
  Proof. reflexivity. Qed.

  Lemma Acorr_ext k u v j : (forall l i, (l <= k)%nat -> u l i = v l i) -> Acorr k u j = Acorr k v j.
  Proof.
    intros H. unfold Acorr. destruct (actb (S k) j); [|reflexivity].
    apply bigsum_ext. intros l Hl. apply bigsum_ext. intros i _. rewrite H by lia. reflexivity.
  Qed.

  Lemma minusA_ext k u v : (forall l i, u l i = v l i) -> forall l j, minusA k u l j = minusA k v l j.
  Proof.
    intros H l j. unfold minusA. rewrite (Acorr_ext k u v j) by (intros; apply H). rewrite !H. reflexivity.
  Qed.
  Lemma plusA_ext k u v : (forall l i, u l i = v l i) -> forall l j, plusA k u l j = plusA k v l j.
  Proof.
    intros H l j. unfold plusA. rewrite (Acorr_ext k u v j) by (intros; apply H). rewrite !H. reflexivity.
  Qed.

  (* A is strictly level-raising (rows on level k+1, columns on levels <= k), hence A*A = 0 and
     (I - A)(I + A) = (I + A)(I - A) = I *)
  Lemma minusA_plusA k w l j : minusA k (plusA k w) l j = w l j.
  Proof.
    unfold minusA. rewrite (Acorr_ext k (plusA k w) w j).
    2:{ intros l0 i Hl0. unfold plusA. destruct (Nat.eqb_spec l0 (S k)); [lia|reflexivity]. }
    unfold plusA. rewrite Nat.eqb_refl. destruct (Nat.eqb_spec l (S k)) as [->|]; [ring|reflexivity].
  Qed.
  Lemma plusA_minusA k w l j : plusA k (minusA k w) l j = w l j.
  Proof.
    unfold plusA. rewrite (Acorr_ext k (minusA k w) w j).
    2:{ intros l0 i Hl0. unfold minusA. destruct (Nat.eqb_spec l0 (S k)); [lia|reflexivity]. }
    unfold minusA. rewrite Nat.eqb_refl. destruct (Nat.eqb_spec l (S k)) as [->|]; [ring|reflexivity].
  Qed.

  Lemma h2t_ext : forall T u v, (forall l i, u l i = v l i) -> forall l j, h2t T u l j = h2t T v l j.
  Proof.
    induction T as [|T IH]; intros u v H l j; [apply H|].
    cbn [h2t]. apply IH. intros l0 i. apply plusA_ext. exact H.
  Qed.
  Lemma t2h_ext : forall T u v, (forall l i, u l i = v l i) -> forall l j, t2h n P actb T u l j = t2h n P actb T v l j.
  Proof.
    induction T as [|T IH]; intros u v H l j; [apply H|].
    rewrite !t2h_S. apply minusA_ext. intros l0 i. apply IH. exact H.
  Qed.

  (* hb_to_thb @ thb_to_hb = I and thb_to_hb @ hb_to_thb = I, any number of levels *)
  Lemma h2t_t2h_l : forall T u l j, h2t T (t2h n P actb T u) l j = u l j.
  Proof.
    induction T as [|T IH]; intros u l j; [reflexivity|].
    rewrite t2h_S. cbn [h2t].
    rewrite (h2t_ext T _ (t2h n P actb T u)) by (intros; apply plusA_minusA). apply IH.
  Qed.
  Lemma t2h_h2t_l : forall T u l j, t2h n P actb T (h2t T u) l j = u l j.
  Proof.
    induction T as [|T IH]; intros u l j; [reflexivity|].
    rewrite t2h_S. cbn [h2t].
    rewrite (minusA_ext T _ (plusA T u)) by (intros; apply IH). apply minusA_plusA.
  Qed.

  (* both transforms keep coefficient arrays supported on the active functions *)
  Definition act_supp (u : nat -> nat -> Qc) : Prop := forall l i, actb l i = false -> u l i = 0.
  Lemma minusA_supp k u : act_supp u -> act_supp (minusA k u).
  Proof.
    intros H l i Hi. unfold minusA, Acorr. destruct (Nat.eqb_spec l (S k)) as [->|]; [|apply H; exact Hi].
    rewrite Hi. rewrite (H _ _ Hi). ring.
  Qed.
  Lemma plusA_supp k u : act_supp u -> act_supp (plusA k u).
  Proof.
    intros H l i Hi. unfold plusA, Acorr. destruct (Nat.eqb_spec l (S k)) as [->|]; [|apply H; exact Hi].
    rewrite Hi. rewrite (H _ _ Hi). ring.
  Qed.
  Lemma t2h_supp : forall T u, act_supp u -> act_supp (t2h n P actb T u).
  Proof. induction T as [|T IH]; intros u H; [exact H|]. rewrite t2h_S. apply minusA_supp. apply IH. exact H. Qed.
  Lemma h2t_supp : forall T u, act_supp u -> act_supp (h2t T u).
  Proof. induction T as [|T IH]; intros u H; [exact H|]. cbn [h2t]. apply IH. apply plusA_supp. exact H. Qed.

  (* representation matrices: R_hb @ thb_to_hb = R_thb (C05.thb_coeffs_l) and R_thb @ hb_to_thb = R_hb *)
  Lemma rthb_h2t_l T u J : (J < n T)%nat ->
    fine_coeff n P actb T (h2t T u) J = fine_coeff n P noZ T u J.
  Proof.
    intros HJ. rewrite <- (thb_coeffs_l n P actb T (h2t T u) J HJ).
    apply fine_coeff_ext. intros l i _. apply t2h_h2t_l.
  Qed.

  (* ---- partition of unity, coefficient form ------------------------------------------- *)
  Variable deactb : nat -> nat -> bool.
  Variable Lmax : nat.
  (* rows of the prolongators sum to one *)
  Hypothesis P_rowsum : forall k j, (k < Lmax)%nat -> (j < n (S k))%nat -> bigsum (n k) (fun i => P k j i) = 1.
  (* every function of level 0 is active or deactivated (Omega_0 is the whole domain) *)
  Hypothesis level0_all : forall i, (i < n 0)%nat -> actb 0 i = true \/ deactb 0 i = true.
  (* children of a deactivated function lie in the refined region of the next level
     (C04.children_closed on reachable states; the hypothesis C05.index_hyp also carries) *)
  Hypothesis children_closed : forall k i j, (k < Lmax)%nat -> (i < n k)%nat -> (j < n (S k))%nat ->
    deactb k i = true -> P k j i <> 0 -> actb (S k) j = true \/ deactb (S k) j = true.

  Definition ind : nat -> nat -> Qc := fun l i => if actb l i then 1 else 0.

  (* the level-T coefficients of the sum of all truncated active functions of levels <= T are 1 on
     every function that is not deactivated on level T *)
  Lemma thb_pou_coeff_l : forall T J, (T <= Lmax)%nat -> (J < n T)%nat -> deactb T J = false ->
    fine_coeff n P actb T ind J = 1.
  Proof.
    induction T as [|T IH]; intros J HT HJ HD.
    - unfold fine_coeff. cbn [bigsum]. replace (0 - 0)%nat with 0%nat by lia. cbn [RF].
      rewrite (bigsum_one _ _ J HJ).
      2:{ intros j Hj Nj. destruct (Nat.eqb_spec J j); [lia|ring]. }
      rewrite Nat.eqb_refl. unfold ind. destruct (level0_all J HJ) as [E|E]; [rewrite E; ring|congruence].
    - rewrite fine_coeff_step by exact HJ. unfold ind at 1. destruct (actb (S T) J) eqn:EA.
      + rewrite bigsum_zero; [ring|]. intros; ring.
      + rewrite (bigsum_ext (n T) _ (fun l => P T J l)).
        * rewrite P_rowsum by (try exact HJ; lia). ring.
        * intros l Hl. destruct (deactb T l) eqn:ED.
          -- destruct (Qc_eq_dec (P T J l) 0) as [E0|E0]; [rewrite E0; ring|].
             exfalso. destruct (children_closed T l J ltac:(lia) Hl HJ ED E0); congruence.
          -- rewrite (IH l ltac:(lia) Hl ED). ring.
  Qed.
End Thb.

(* ---- non-negativity ------------------------------------------------------------------ *)
Lemma RF_nonneg n (P : nat -> nat -> nat -> Qc) Z T : (forall k j i, 0 <= P k j i) ->
  forall m J i, 0 <= RF n P Z T m J i.
Proof.
  intros P_nonneg. induction m as [|m IH]; intros J i.
  - cbn [RF]. destruct (Nat.eqb J i); [discriminate|apply Qcle_refl].
  - cbn [RF]. apply bigsum_nonneg. intros l _. apply Qcmult_nonneg; [apply IH|].
    destruct (Z (T - m)%nat l); [apply Qcle_refl|apply P_nonneg].
Qed.

(* ---------------------------------------------------------------------------------------- *)
(* function level *)
Section ThbFunctions.
  Variable X : Type.
  Variable n : nat -> nat.
  Variable B : nat -> nat -> X -> Qc.
  Variable P : nat -> nat -> nat -> Qc.
  Variable Lmax : nat.
  Variable actb : nat -> nat -> bool.

  (* the (truncated for Z = actb, plain for Z = noZ) basis function i of level l, on the finest level T *)
  Definition hfun (Z : nat -> nat -> bool) (T l i : nat) (x : X) : Qc :=
    bigsum (n T) (fun J => RF n P Z T (T - l) J i * B T J x).
  (* evaluation of a coefficient array in the THB basis *)
  Definition thb_eval (T : nat) (u : nat -> nat -> Qc) (x : X) : Qc :=
    bigsum (S T) (fun l => bigsum (n l) (fun i => u l i * hfun actb T l i x)).

  Lemma eval_fine Z T u x :
    bigsum (S T) (fun l => bigsum (n l) (fun i => u l i * hfun Z T l i x))
    = bigsum (n T) (fun J => fine_coeff n P Z T u J * B T J x).
  Proof.
    unfold hfun, fine_coeff. symmetry.
    rewrite (bigsum_ext (n T) _ (fun J => bigsum (S T) (fun l => bigsum (n l) (fun i => RF n P Z T (T - l)%nat J i * u l i * B T J x)))).
    2:{ intros J _. rewrite <- bigsum_scale_r. apply bigsum_ext. intros l _. rewrite <- bigsum_scale_r. reflexivity. }
    rewrite bigsum_swap. apply bigsum_ext. intros l Hl.
    rewrite bigsum_swap. apply bigsum_ext. intros i Hi.
    rewrite <- bigsum_scale. apply bigsum_ext. intros J _. ring.
  Qed.

  Lemma levelwise_ext T u v x : (forall l i, u l i = v l i) -> levelwise X n B T u x = levelwise X n B T v x.
  Proof. intros H. unfold levelwise. apply bigsum_ext. intros l _. apply bigsum_ext. intros i _. rewrite H. reflexivity. Qed.

  (* non-negativity of every (truncated or not) basis function where the finest B-splines are *)
  Lemma hfun_nonneg_l Z T l i x : (forall k j i, 0 <= P k j i) -> (forall J, (J < n T)%nat -> 0 <= B T J x) ->
    0 <= hfun Z T l i x.
  Proof.
    intros HP HB. unfold hfun. apply bigsum_nonneg. intros J HJ. apply Qcmult_nonneg; [apply RF_nonneg; exact HP|apply HB; exact HJ].
  Qed.

  (* the truncated basis sums to one wherever the finest level does *)
  Lemma thb_pou_l (deactb : nat -> nat -> bool) T x :
    (T <= Lmax)%nat ->
    (forall k j, (k < Lmax)%nat -> (j < n (S k))%nat -> bigsum (n k) (fun i => P k j i) = 1) ->
    (forall i, (i < n 0)%nat -> actb 0 i = true \/ deactb 0%nat i = true) ->
    (forall k i j, (k < Lmax)%nat -> (i < n k)%nat -> (j < n (S k))%nat ->
       deactb k i = true -> P k j i <> 0 -> actb (S k) j = true \/ deactb (S k) j = true) ->
    (forall J, (J < n T)%nat -> deactb T J = false) ->           (* T is the finest level *)
    bigsum (n T) (fun J => B T J x) = 1 ->
    bigsum (S T) (fun l => bigsum (n l) (fun i => if actb l i then hfun actb T l i x else 0)) = 1.
  Proof.
    intros HT Hrow H0 Hcc Hfin HB.
    rewrite (bigsum_ext (S T) _ (fun l => bigsum (n l) (fun i => ind actb l i * hfun actb T l i x))).
    2:{ intros l _. apply bigsum_ext. intros i _. unfold ind. destruct (actb l i); ring. }
    rewrite eval_fine. rewrite <- HB. apply bigsum_ext. intros J HJ.
    rewrite (thb_pou_coeff_l n P actb deactb Lmax Hrow H0 Hcc T J HT HJ (Hfin J HJ)). ring.
  Qed.

  Hypothesis two_scale : two_scale_hyp n B P Lmax.

  (* same space: every THB combination is the HB combination with coefficients thb_to_hb @ u
     (C05.levelwise_thb_l), every HB combination is the THB combination with coefficients hb_to_thb @ u *)
  Lemma thb_is_hb_l T u x : (T <= Lmax)%nat ->
    thb_eval T u x = levelwise X n B T (t2h n P actb T u) x.
  Proof.
    intros HT. unfold thb_eval. rewrite eval_fine. symmetry. apply (levelwise_thb_l n B P Lmax actb two_scale T u x HT).
  Qed.
  Lemma hb_is_thb_l T u x : (T <= Lmax)%nat ->
    levelwise X n B T u x = thb_eval T (h2t n P actb T u) x.
  Proof.
    intros HT. rewrite thb_is_hb_l by exact HT. apply levelwise_ext. intros l i. symmetry. apply t2h_h2t_l.
  Qed.

  (* the row sums of the prolongators follow from level-wise partition of unity and linear
     independence of the finer level on the domain *)
  Lemma rowsum_from_pou_l (Dom : X -> Prop) k :
    (k < Lmax)%nat ->
    (forall x, Dom x -> bigsum (n k) (fun i => B k i x) = 1) ->
    (forall x, Dom x -> bigsum (n (S k)) (fun j => B (S k) j x) = 1) ->
    (forall a : nat -> Qc, (forall x, Dom x -> bigsum (n (S k)) (fun j => a j * B (S k) j x) = 0) ->
       forall j, (j < n (S k))%nat -> a j = 0) ->
    forall j, (j < n (S k))%nat -> bigsum (n k) (fun i => P k j i) = 1.
  Proof.
    intros Hk H1 H2 Hind j Hj.
    assert (E : bigsum (n k) (fun i => P k j i) - 1 = 0).
    { apply (Hind (fun j => bigsum (n k) (fun i => P k j i) - 1)); [|exact Hj].
      intros x Hx.
      rewrite (bigsum_ext _ _ (fun j0 => bigsum (n k) (fun i => P k j0 i * B (S k) j0 x) + (- (1)) * B (S k) j0 x)).
      2:{ intros j0 _. cbv beta. rewrite (bigsum_scale_r (n k) (B (S k) j0 x) (fun i => P k j0 i)). ring. }
      rewrite bigsum_plus, bigsum_scale, (H2 x Hx). rewrite bigsum_swap.
      rewrite <- (bigsum_ext (n k) (fun i => B k i x)).
      - rewrite (H1 x Hx). ring.
      - intros i Hi. apply (two_scale k i x Hk Hi). }
    replace (bigsum (n k) (fun i => P k j i)) with (bigsum (n k) (fun i => P k j i) - 1 + 1) by ring. rewrite E. ring.
  Qed.

  (* ---- linear independence of the active HB functions -------------------------------------
     cellpts l c = the points of cell c of level l, nz l i c = true iff function i of level l does not
     vanish on that cell. *)
  Variable cellpts : nat -> nat -> X -> Prop.
  Variable nz : nat -> nat -> nat -> bool.
  (* local linear independence of the level-l B-splines on a cell of level l (a B-spline fact: the
     (p+1)^d functions that do not vanish on a cell are polynomials forming a basis there) *)
  Definition local_lin_indep (l c : nat) : Prop :=
    forall a : nat -> Qc, (forall x, cellpts l c x -> bigsum (n l) (fun i => a i * B l i x) = 0) ->
      forall i, (i < n l)%nat -> nz l i c = true -> a i = 0.
  (* every active function has an ACTIVE cell of its own level in its support (C04
     activity_characterisation: supp not contained in Omega_{l+1}), on which all active functions of
     finer levels vanish (their supports lie in Omega_{l+1}) *)
  Definition active_cell_witness (Dom : X -> Prop) (T : nat) : Prop :=
    forall l i, (l <= T)%nat -> (i < n l)%nat -> actb l i = true ->
      exists c, nz l i c = true /\ (forall x, cellpts l c x -> Dom x) /\
        (forall l' i' x, (l < l' <= T)%nat -> (i' < n l')%nat -> actb l' i' = true -> cellpts l c x -> B l' i' x = 0).

  Lemma hb_independent_l (Dom : X -> Prop) T u :
    (forall l c, (l <= T)%nat -> local_lin_indep l c) ->
    active_cell_witness Dom T ->
    act_supp actb u ->
    (forall x, Dom x -> levelwise X n B T u x = 0) ->
    forall l i, (l <= T)%nat -> (i < n l)%nat -> u l i = 0.
  Proof.
    intros Hloc Hwit Hsupp Hzero.
    assert (Main : forall m l i, (l < m)%nat -> (l <= T)%nat -> (i < n l)%nat -> u l i = 0).
    { induction m as [|m IH]; intros l i Hl HlT Hi; [lia|].
      destruct (Nat.eq_dec l m) as [->|Nl]; [|apply IH; [lia|exact HlT|exact Hi]].
      destruct (actb m i) eqn:EA; [|apply Hsupp; exact EA].
      destruct (Hwit m i HlT Hi EA) as [c [Hnz [Hdom Hfiner]]].
      apply (Hloc m c HlT (u m)); [|exact Hi|exact Hnz].
      intros x Hx. rewrite <- (Hzero x (Hdom x Hx)). unfold levelwise. symmetry.
      apply (bigsum_one (S T) (fun l0 => bigsum (n l0) (fun i0 => u l0 i0 * B l0 i0 x)) m); [lia|].
      intros l' Hl' Nl'. apply bigsum_zero. intros i' Hi'.
      destruct (Nat.lt_ge_cases l' m) as [Hlt|Hge].
      - rewrite (IH l' i' Hlt ltac:(lia) Hi'). ring.
      - destruct (actb l' i') eqn:EA'.
        + rewrite (Hfiner l' i' x ltac:(lia) Hi' EA' Hx). ring.
        + rewrite (Hsupp l' i' EA'). ring. }
    intros l i HlT Hi. apply (Main (S l) l i); [lia|exact HlT|exact Hi].
  Qed.
End ThbFunctions.
