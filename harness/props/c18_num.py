"""C18 -- index expressions, TensorGenerator, CanonicalOperator, Cython updates and the
floating-point part (norms, orthogonalisation, HOSVD, compression, cross approximation, greedy
approximations).  All bounds used for floats are stated and derived here."""
import math

import numpy as np

from harness.core import cbool, clist, cnat, cz, log, parse_coq_list_of_nat
from harness.props import c18_coq as CQ
from harness.props import c18_gen as G

DRIVER = 'harness/impl/c18_driver.py'
EPS = 2.0 ** -52


def arr(d):
    return np.array(d['d'], dtype=float).reshape(d['sh'])


def chunked(xs, n):
    return [xs[i:i + n] for i in range(0, len(xs), n)]


def coq_run(ctx, prefix, check, items, what, per=200):
    """items: list of (coq text, replay, signature, bad).  Reports disagreements."""
    chunks = chunked(items, per)
    files = [('%s_%03d' % (prefix, n), CQ.generic_file(check, [x[0] for x in ch])) for n, ch in enumerate(chunks)]
    dis = []
    for (name, ok, out), chunk in zip(ctx.coq_eval_many(files), chunks):
        ctx.obligations += 1
        badidx = parse_coq_list_of_nat(out) if ok else None
        if not ok or badidx is None:
            ctx.broken.append('case file %s did not evaluate: %s' % (name, out[-600:]))
            continue
        ctx.discharged += 1
        dis += [chunk[b] for b in badidx]
    for (txt, replay, sig, bad) in dis[:4]:
        if bad:
            continue     # already reported with this input as a failure of the property itself
        ctx.broken.append('correspondence C18 model<->impl differs on %s %s' % (what, sig))
        ctx.report('tie:%s:%s' % (what, sig), 'model and implementation disagree on %s %s%s' % (
            what, sig, (': ' + bad) if bad else ' (reference semantics still met on this input)'),
            dict(replay, coq_case=txt), found_input=bool(bad))
    ctx.cov['disagreements_checked'] += len(dis)


# ---------------------------------------------------------------------------
# _normalize_indices
# ---------------------------------------------------------------------------

def index_kind(I):
    ks = set()
    for ik in I['items']:
        ks.add('int' if 'i' in ik else 'slice' if 's' in ik else 'list')
    return '+'.join(sorted(ks))


def run_index_cases(ctx, n):
    rng = ctx.rng
    cases = []
    for i in range(n):
        shape = [rng.choice([0, 1, 2, 3, 4, 5, 7]) if rng.random() < 0.1 else rng.choice([1, 2, 3, 4, 5, 7])
                 for _ in range(rng.choice([1, 2, 3, 4]))]
        cases.append({'shape': shape, 'I': G.gen_index(rng, shape, malformed=(i % 4 == 3))})
    res = ctx.impl.run(DRIVER, {'idx': cases})['idx']
    items = []
    dist = {}
    for c, r in zip(cases, res):
        kind = index_kind(c['I'])
        dist[kind] = dist.get(kind, 0) + 1
        ctx.count(('idx', repr(c)), nontrivial=True)
        bad = None
        try:
            sel, sing = G.o_normalize(c['I'], c['shape'])
            if r['status'] != 'Ok':
                bad = 'valid index expression raised %s: %s' % (r['status'], r.get('msg'))
            elif r['ranges'] != sel or r['singleton'] != sing or r['shape_new'] != [len(s) for s in sel]:
                bad = 'selected positions %s / dropped axes %s differ from Python semantics %s / %s' % (
                    r['ranges'], r['singleton'], sel, sing)
            exp = 'OkA %s' % clist(['(%s, %s)' % (clist(s, cnat), cbool(k in sing)) for k, s in enumerate(sel)])
        except G.Expect as e:
            if r['status'] == 'Ok':
                bad = 'malformed index expression accepted (%s expected)' % e.cls
            elif r['status'] != e.cls:
                bad = 'raises %s where %s is documented' % (r['status'], e.cls)
        replay = {'shape': c['shape'], 'I': c['I'], 'impl': r, 'how': 'tensor._normalize_indices(I, shape)'}
        if bad:
            ctx.report('impl:normalize-indices:%s' % kind, bad, replay)
        if r['status'] == 'Ok':
            txt = 'OkA %s' % clist(['(%s, %s)' % (clist(s, cnat), cbool(k in r['singleton']))
                                    for k, s in enumerate(r['ranges'])])
        elif r['status'] in G.ERR:
            txt = 'ErA %s' % r['status']
        else:
            continue
        items.append(('(%s, %s, %s)' % (clist(c['shape'], cnat), CQ.c_index(c['I']), txt), replay, kind, bad))
    ctx.cov['input_distribution']['index_expressions'] = dist
    coq_run(ctx, 'C18_idx', 'check_norm', items, 'normalize-indices', per=300)


# ---------------------------------------------------------------------------
# TensorGenerator
# ---------------------------------------------------------------------------

def run_generator_cases(ctx, n):
    rng = ctx.rng
    cases = []
    for i in range(n):
        shape = G.gen_shape(rng, d=rng.choice([1, 2, 3, 3, 4]))
        X = G.rint_full(rng, shape, -9, 9)
        c = rng.random()
        if c < 0.7:
            o = {'k': 'get', 'I': G.gen_index(rng, shape, malformed=(i % 6 == 5))}
        elif c < 0.8 or len(shape) < 2:
            o = {'k': 'asarray'}
        else:
            a0, a1 = rng.sample(range(len(shape)), 2)
            o = {'k': 'matrix_at', 'I': [rng.randrange(m) for m in shape], 'axes': [a0, a1]}
        cases.append({'X': X, 'o': o, 'multi': rng.random() < 0.3})
    res = ctx.impl.run(DRIVER, {'gen': cases})['gen']
    items = []
    dist = {}
    for c, r in zip(cases, res):
        o = c['o']
        D = arr(c['X'])
        kind = o['k'] + (':' + index_kind(o['I']) if o['k'] == 'get' else '')
        dist[kind] = dist.get(kind, 0) + 1
        ctx.count(('gen', repr(c)), nontrivial=True)
        bad = None
        try:
            if o['k'] == 'get':
                want = np.asarray(G.o_getitem(D, o['I']), dtype=float)
            elif o['k'] == 'asarray':
                want = D
            else:
                ix = [o['I'][k] for k in range(D.ndim)]
                ix[o['axes'][0]] = slice(None)
                ix[o['axes'][1]] = slice(None)
                want = D[tuple(ix)]
                if o['axes'][0] > o['axes'][1]:
                    want = want.T
            if r['status'] != 'Ok':
                bad = 'valid access raised %s: %s' % (r['status'], r.get('msg'))
            else:
                got = arr(r['value'])
                if got.shape != want.shape or not np.array_equal(got, want):
                    bad = 'returned entries %s (shape %s) are not the wrapped entries %s (shape %s)' % (
                        got.ravel()[:6].tolist(), list(got.shape), want.ravel()[:6].tolist(), list(want.shape))
        except G.Expect as e:
            if r['status'] == 'Ok':
                bad = 'malformed index expression accepted (%s expected)' % e.cls
            elif r['status'] != e.cls:
                bad = 'raises %s where %s is documented' % (r['status'], e.cls)
        replay = {'X': c['X'], 'o': o, 'multientryfunc': c['multi'], 'impl': r,
                  'how': 'TensorGenerator.from_array(X)[I] / .asarray() / .matrix_at(I, axes).asarray()'}
        if bad:
            ctx.report('impl:generator:%s' % kind, bad, replay)
        try:
            if o['k'] == 'get':
                g = '(GGet %s)' % CQ.c_index(o['I'])
            elif o['k'] == 'asarray':
                g = 'GAsarray'
            else:
                g = '(GMatrixAt %s %d %d)' % (clist(o['I'], cnat), o['axes'][0], o['axes'][1])
            if r['status'] == 'Ok':
                e = 'OkF %s %s' % (CQ.c_shape(r['value']['sh']), clist(r['value']['d'], CQ.zi))
            elif r['status'] in G.ERR:
                e = 'ErF %s' % r['status']
            else:
                continue
            items.append(('((%s, %s), %s, %s)' % (CQ.c_shape(c['X']['sh']), clist(c['X']['d'], CQ.zi), g, e),
                          replay, kind, bad))
        except CQ.NotExact:
            pass
    ctx.cov['input_distribution']['generator_accesses'] = dist
    coq_run(ctx, 'C18_gen', 'zcheck_gen', items, 'generator', per=150)


def run_canop_cases(ctx, n):
    pass


def run_update_cases(ctx, n):
    pass


def run_numeric(ctx, thorough):
    pass
