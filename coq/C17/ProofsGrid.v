(* C17 -- data that are only known ON the node grid, tensor-grid unisolvence from per-axis
   unisolvence (Kronecker inverse), and component selection through grid_eval. *)
From Coq Require Import QArith Qcanon ZArith List Arith Bool Lia.
From Verif.lib Require Import Bsp.
From Verif.C17 Require Import Model Spec Proofs.
Import ListNotations.
Open Scope Qc_scope.

(* the operators have the stated numbers of columns (= lengths of the contracted axes) *)
Definition cols_are (nshape : list nat) (Ss : list op) : Prop := Forall2 (fun n S => oc S = n) nshape Ss.

(* (x)S_k only reads its argument at indices inside the column ranges *)
Lemma tprod_ext_range nshape Ss : cols_are nshape Ss -> forall f g idx,
  (forall j, inrange nshape j -> length j = length idx -> f j = g j) ->
  tprod Ss f idx = tprod Ss g idx.
Proof.
  induction 1 as [|n S nshape Ss Hc _ IH]; intros f g idx H.
  - simpl. apply H; [exact I | reflexivity].
  - destruct idx as [|i idx]; [reflexivity|]. simpl. rewrite Hc.
    apply sumn_ext. intros j Hj. f_equal. apply IH.
    intros r Hr Hl. apply H; [split; assumption | simpl; congruence].
Qed.

Lemma tprod_zero Ss : forall idx, tprod Ss (fun _ => 0) idx = 0.
Proof.
  induction Ss as [|S Ss IH]; intros idx; [reflexivity|].
  destruct idx as [|i idx]; [reflexivity|]. simpl.
  rewrite (sumn_ext (oc S) _ (fun _ => 0)); [apply sumn_zero|].
  intros j _. rewrite IH. ring.
Qed.

(* interpolation reproduces a function of the space from data that agree with it ON THE NODE GRID
   only (what approx.interpolate is given: an array of nodal values, or f evaluated at the nodes) *)
Lemma interp_reproduces_on_grid_l shape nshape Ss Cs c rhs idx :
  length Ss = length Cs -> Forall2 is_id shape (mul_list Ss Cs) -> cols_are nshape Ss ->
  (forall j, inrange nshape j -> length j = length idx -> rhs j = tprod Cs c j) ->
  inrange shape idx -> (length Ss <= length idx)%nat ->
  tprod_loop Ss rhs idx = c idx.
Proof.
  intros HL Hid Hcols Hdata Hr Hlen.
  rewrite tprod_loop_spec_l by exact Hlen.
  rewrite (tprod_ext_range nshape Ss Hcols rhs (tprod Cs c) idx Hdata).
  rewrite tprod_compose_l by exact HL.
  apply (tprod_id_l shape); assumption.
Qed.

(* tensor-grid unisolvence from per-axis unisolvence: if every axis has a left inverse S_k C_k = I,
   two splines with the same values on the tensor node grid have the same coefficients
   (the Kronecker product of the S_k is a left inverse of the Kronecker product of the C_k) *)
Lemma tensor_grid_unisolvent_l shape nshape Ss Cs c c' idx :
  length Ss = length Cs -> Forall2 is_id shape (mul_list Ss Cs) -> cols_are nshape Ss ->
  (forall j, inrange nshape j -> length j = length idx -> tprod Cs c j = tprod Cs c' j) ->
  inrange shape idx -> (length Ss <= length idx)%nat ->
  c idx = c' idx.
Proof.
  intros HL Hid Hcols Hv Hr Hlen.
  rewrite <- (interp_reproduces_on_grid_l shape nshape Ss Cs c (tprod Cs c) idx) by
    (try assumption; intros; reflexivity).
  apply (interp_reproduces_on_grid_l shape nshape Ss Cs c' (tprod Cs c) idx); try assumption.
Qed.

Lemma tensor_grid_kernel_trivial_l shape nshape Ss Cs c idx :
  length Ss = length Cs -> Forall2 is_id shape (mul_list Ss Cs) -> cols_are nshape Ss ->
  (forall j, inrange nshape j -> length j = length idx -> tprod Cs c j = 0) ->
  inrange shape idx -> (length Ss <= length idx)%nat ->
  c idx = 0.
Proof.
  intros HL Hid Hcols Hv Hr Hlen.
  rewrite (tensor_grid_unisolvent_l shape nshape Ss Cs c (fun _ => 0) idx); try assumption; [reflexivity|].
  intros j Hj Hl. rewrite Hv by assumption.
  clear. revert j. induction Cs as [|C Cs IH]; intros j; [reflexivity|].
  destruct j as [|i j]; [reflexivity|]. simpl.
  rewrite (sumn_ext (oc C) _ (fun _ => 0)); [symmetry; apply sumn_zero|].
  intros k _. rewrite <- (IH j). ring.
Qed.

(* ---- component selection commutes with the whole pipeline (function data) ---- *)

Definition select (f : func) (t : list nat) : func := fun x s => f x (t ++ s).

Lemma pick_app grid : forall i t, length i = length grid -> pick grid (i ++ t) = pick grid i.
Proof.
  induction grid as [|g grid IH]; intros i t HL; destruct i as [|a i]; try discriminate; [reflexivity|].
  simpl. f_equal. apply IH. simpl in HL. lia.
Qed.

Lemma grid_eval_component f grid i t : length i = length grid ->
  grid_eval f grid (i ++ t) = grid_eval (select f t) grid i.
Proof.
  intros HL. unfold grid_eval, select.
  rewrite pick_app by exact HL. rewrite <- HL.
  rewrite skipn_app, Nat.sub_diag, skipn_all. simpl. rewrite app_nil_r. reflexivity.
Qed.

Lemma grid_eval_transformed_component f grid geo i t : length i = length grid ->
  grid_eval_transformed f grid geo (i ++ t) = grid_eval_transformed (select f t) grid geo i.
Proof.
  intros HL. unfold grid_eval_transformed, select.
  rewrite pick_app by exact HL. rewrite <- HL.
  rewrite skipn_app, Nat.sub_diag, skipn_all. simpl. rewrite app_nil_r. reflexivity.
Qed.

(* interpolate(kvs, f)[i, t] = interpolate(kvs, f_t)[i] for the component function f_t, any shape t,
   parametric or physical data *)
Lemma interp_component_selection_l Ss f grid i t :
  length i = length Ss -> length grid = length Ss ->
  tprod_loop Ss (grid_eval f grid) (i ++ t) = tprod_loop Ss (grid_eval (select f t) grid) i.
Proof.
  intros Hi Hg. rewrite interp_componentwise_l by exact Hi.
  rewrite !tprod_loop_spec_l by lia.
  apply tprod_ext_len; [lia|]. intros j Hj. apply grid_eval_component. lia.
Qed.

Lemma interp_component_selection_physical_l Ss f grid geo i t :
  length i = length Ss -> length grid = length Ss ->
  tprod_loop Ss (grid_eval_transformed f grid geo) (i ++ t)
  = tprod_loop Ss (grid_eval (compose (select f t) geo) grid) i.
Proof.
  intros Hi Hg. rewrite interp_componentwise_l by exact Hi.
  rewrite !tprod_loop_spec_l by lia.
  apply tprod_ext_len; [lia|]. intros j Hj.
  rewrite grid_eval_transformed_component by lia. reflexivity.
Qed.

(* ---- the Kronecker L2 path is component-wise too ---- *)

Lemma loop_ext_len Ss f g idx : (length Ss <= length idx)%nat ->
  (forall j, length j = length idx -> f j = g j) -> tprod_loop Ss f idx = tprod_loop Ss g idx.
Proof. intros HL H. rewrite !tprod_loop_spec_l by exact HL. apply tprod_ext_len; assumption. Qed.

(* project_L2(kvs, f)[i, t] (no geometry: apply_tprod(Minvs, apply_tprod(C^T, apply_tprod(diag w, F))))
   is the projection of component t of the sampled data F, any trailing shape *)
Lemma l2_kron_componentwise_l Ss Cts Ds F i t :
  length i = length Ss -> length i = length Cts -> length i = length Ds ->
  tprod_loop Ss (tprod_loop Cts (tprod_loop Ds F)) (i ++ t)
  = tprod_loop Ss (tprod_loop Cts (tprod_loop Ds (fun i' => F (i' ++ t)))) i.
Proof.
  intros H1 H2 H3. rewrite interp_componentwise_l by exact H1.
  apply loop_ext_len; [lia|]. intros j Hj.
  rewrite interp_componentwise_l by lia.
  apply loop_ext_len; [lia|]. intros k Hk.
  apply interp_componentwise_l. lia.
Qed.

(* ---- one axis: bspline.interpolate / bspline.project_L2 (a single sparse solve) are the
   one-operator instance of apply_tprod: a plain matrix-vector product along axis 0 ---- *)
Lemma apply_tprod_1d_l S f i t :
  tprod_loop [S] f (i :: t) = sumn (oc S) (fun j => oe S i j * f (j :: t)).
Proof. rewrite tprod_loop_spec_l by (simpl; lia). reflexivity. Qed.
