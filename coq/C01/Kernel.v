(* C01 -- a model of the EMITTED kernel program and its soundness with respect to the C06
   evaluator (coq/C06/Model.v: expr, eval, bind, eval_defs).

   Emitted program (pyiga/codegen/cython.py):
     gencode_*      60-103   an expression becomes C arithmetic over
                             constants, array reads fields[k] / constants[k] / local names (var_ref, 196-213),
                             basis-function jets (gen_pderiv, 168-182), Gauss weights _gw<a>[i<a>]
     gen_assign     215-237  one assignment per scalar entry of a variable, in row-major entry order
     start_loop_with_fields / generate_kernel 291-387
                             per Gauss node: the assignments of the kernel's local variables in dependency
                             order (vform.linear_deps), then  r += <code of every integrand expression>
   Fail-closed deviations of the model from the generator, all on inputs finalize never produces:
   a VarRefExpr with a non-zero derivative tuple, a physical or vector-component PartialDerivExpr and the
   measure symbols dx/ds have no code here ([compile] = None); the generator would print a reference that
   ignores D (gencode_varref), trip an assertion, or raise KeyError.
   Symmetric variables (upper triangle stored once) are outside this model: [lay] is injective on
   (variable, flat row-major entry index).                                                           *)
From Coq Require Import List String Bool Arith Lia.
From Verif.C06 Require Import Model.
From Verif.C01 Require Import Model Proofs.
Import ListNotations.
Open Scope nat_scope.

Inductive loc := LField (s : nat) | LConst (s : nat) | LLocal (name : string) (k : nat).

Definition loc_eqb (a b : loc) : bool :=
  match a, b with
  | LField s, LField s' => Nat.eqb s s'
  | LConst s, LConst s' => Nat.eqb s s'
  | LLocal n k, LLocal n' k' => String.eqb n n' && Nat.eqb k k'
  | _, _ => false
  end.

Lemma loc_eqb_spec a b : reflect (a = b) (loc_eqb a b).
Proof.
  destruct a as [s|s|n k], b as [s'|s'|n' k']; simpl; try (constructor; discriminate).
  - destruct (Nat.eqb_spec s s'); constructor; congruence.
  - destruct (Nat.eqb_spec s s'); constructor; congruence.
  - destruct (String.eqb_spec n n'); destruct (Nat.eqb_spec k k'); simpl; constructor; congruence.
Qed.

Section Kernel.
Variable F : Type.
Variables (f0 : F) (fadd fmul fsub fdiv : F -> F -> F) (fopp : F -> F).

Notation expr := (expr F).
Notation texpr := (texpr F).
Notation env := (env F).
Notation eval := (eval F fadd fmul fsub fdiv fopp).
Notation eval_defs := (eval_defs F f0 fadd fmul fsub fdiv fopp).
Notation bind := (bind F f0).
Notation tentries := (tentries F).
Notation tshape := (tshape F).
Notation opf := (opf F fadd fmul fsub fdiv).

(* ---- the emitted arithmetic ------------------------------------------------------------ *)
Inductive cexpr :=
| CConst (c : F)                       (* repr(value) *)
| CRead (l : loc)                      (* fields[k] / constants[k] / name / name[k] *)
| CPD (name : string) (D : list nat)   (* (VD<u>0[..] * VD<u>1[..] * ..): gen_pderiv, see pderiv_lookup_spec *)
| CGW (axis : nat)                     (* _gw<a>[i<a>] *)
| CNeg (x : cexpr)
| CFn (f : string) (x : cexpr)
| COp (o : oper) (x y : cexpr).

Definition store := loc -> F.
Definition upd (st : store) (l : loc) (v : F) : store := fun l' => if loc_eqb l' l then v else st l'.

(* what the kernel sees at one Gauss node besides the stores *)
Record nctx := mkN { pdv : string -> list nat -> F; gwv : nat -> F; fnv : string -> F -> F }.

Fixpoint ceval (nc : nctx) (st : store) (c : cexpr) : F :=
  match c with
  | CConst v => v
  | CRead l => st l
  | CPD n D => pdv nc n D
  | CGW a => gwv nc a
  | CNeg x => fopp (ceval nc st x)
  | CFn f x => fnv nc f (ceval nc st x)
  | COp o x y => opf o (ceval nc st x) (ceval nc st y)
  end.

(* ---- code generation ------------------------------------------------------------------------- *)
Variable lay : string -> nat -> loc.       (* var_ref(var, I) = lay var (row-major index of I) *)
Variable shp : string -> list nat.         (* declared shape of a variable *)
Variable sz : string -> nat.               (* number of stored scalar entries *)

Definition zeroD (D : list nat) : bool := forallb (Nat.eqb 0) D.

Fixpoint compile (e : expr) : option cexpr :=
  match e with
  | Const c => Some (CConst c)                                            (* gencode_const *)
  | VR n Ix D p => if zeroD D then Some (CRead (lay n (flat_index (shp n) Ix))) else None   (* gencode_varref *)
  | PD n None D false => Some (CPD n D)                                   (* gencode_partialderiv *)
  | PD _ _ _ _ => None
  | GW a => Some (CGW a)                                                  (* gencode_gaussweight *)
  | MDx | MDs => None
  | Neg x => option_map CNeg (compile x)                                  (* gencode_neg *)
  | Fn f x => option_map (CFn f) (compile x)                              (* gencode_builtinfunc *)
  | Op o x y => match compile x, compile y with                           (* gencode_scalaroper *)
                  | Some a, Some b => Some (COp o a b) | _, _ => None end
  end.

(* gen_assign: entry k of variable [name] <- code of the k-th entry, one after the other *)
Fixpoint assign_from (nc : nctx) (st : store) (name : string) (k : nat) (cs : list cexpr) : store :=
  match cs with
  | [] => st
  | c :: r => assign_from nc (upd st (lay name k) (ceval nc st c)) name (S k) r
  end.

(* the assignments of a list of variable definitions in the emitted order; a definition without code
   stops the program (the generator raises) *)
Fixpoint run_defs (nc : nctx) (st : store) (ds : list (def F)) : store :=
  match ds with
  | [] => st
  | (name, t) :: r =>
      match tentries t with
      | Some es => match omap compile es with
                   | Some cs => run_defs nc (assign_from nc st name 0 cs) r
                   | None => st end
      | None => st
      end
  end.

(* `r += code(e)` for every integrand expression *)
Definition kernel_body (nc : nctx) (st : store) (cs : list cexpr) (acc : F) : F :=
  fold_left (fun a c => fadd a (ceval nc st c)) cs acc.
Definition sumF (l : list F) : F := fold_right fadd f0 l.

(* ---- well-formedness ---------------------------------------------------------------------------- *)
Fixpoint wfe (known : list string) (e : expr) : Prop :=
  match e with
  | VR n Ix _ _ => In n known /\ flat_index (shp n) Ix < sz n
  | Neg x | Fn _ x => wfe known x
  | Op _ x y => wfe known x /\ wfe known y
  | _ => True
  end.

Fixpoint wf_prog (known : list string) (ds : list (def F)) : Prop :=
  match ds with
  | [] => True
  | (name, t) :: r =>
      (exists es cs, tentries t = Some es /\ omap compile es = Some cs /\ Forall (wfe known) es
                     /\ shp name = tshape t /\ sz name = List.length es)
      /\ ~ In name known /\ wf_prog (name :: known) r
  end.

Definition names_after (known : list string) (ds : list (def F)) : list string :=
  fold_left (fun k d => fst d :: k) ds known.

(* the stores agree with the environment on the listed variables (references without derivatives) *)
Definition Agree (st : store) (en : env) (known : list string) : Prop :=
  forall n Ix D p, In n known -> flat_index (shp n) Ix < sz n -> zeroD D = true ->
    st (lay n (flat_index (shp n) Ix)) = e_vr en n Ix D p.
Definition Ctx (nc : nctx) (en : env) : Prop :=
  (forall n D, e_pd en n None D false = pdv nc n D) /\ (forall a, e_gw en a = gwv nc a) /\
  (forall f x, e_fn en f x = fnv nc f x).

Hypothesis lay_inj : forall n k n' k', lay n k = lay n' k' -> n = n' /\ k = k'.

(* ---- expressions ------------------------------------------------------------------------------------ *)
Lemma compile_sound nc st en known : Agree st en known -> Ctx nc en ->
  forall e c, compile e = Some c -> wfe known e -> ceval nc st c = eval en e.
Proof.
  intros HA (Hpd & Hgw & Hfn). induction e as [v|n cmp D ph|n Ix D p|a| | |x IH|f x IH|o x IHx y IHy];
    intros c Hc Hw; simpl in Hc.
  - inversion Hc; subst. reflexivity.
  - destruct cmp; [discriminate|]. destruct ph; [discriminate|]. inversion Hc; subst. simpl. symmetry. apply Hpd.
  - destruct (zeroD D) eqn:Z; [|discriminate]. inversion Hc; subst. simpl. destruct Hw as [Hin Hlt].
    apply HA; assumption.
  - inversion Hc; subst. simpl. symmetry. apply Hgw.
  - discriminate.
  - discriminate.
  - destruct (compile x) as [cx|]; [|discriminate]. inversion Hc; subst. simpl. f_equal. apply IH; [reflexivity | exact Hw].
  - destruct (compile x) as [cx|]; [|discriminate]. inversion Hc; subst. simpl. rewrite Hfn. f_equal.
    apply IH; [reflexivity | exact Hw].
  - destruct (compile x) as [cx|]; [|discriminate]. destruct (compile y) as [cy|]; [|discriminate].
    inversion Hc; subst. destruct Hw as [Hx Hy]. simpl. f_equal; [apply IHx | apply IHy]; auto.
Qed.

Lemma omap_Forall2 {A B} (f : A -> option B) : forall l l', omap f l = Some l' ->
  Forall2 (fun x y => f x = Some y) l l'.
Proof.
  induction l as [|x r IH]; intros l' H; simpl in H.
  - inversion H. constructor.
  - destruct (f x) eqn:E; [|discriminate]. destruct (omap f r) eqn:E'; [|discriminate].
    inversion H; subst. constructor; [exact E | apply IH; reflexivity].
Qed.

(* ---- one definition ----------------------------------------------------------------------------------- *)
Lemma agree_upd_other st en known name k v : ~ In name known -> Agree st en known ->
  Agree (upd st (lay name k) v) en known.
Proof.
  intros Hn HA n Ix D p Hin Hlt Z. unfold upd.
  destruct (loc_eqb_spec (lay n (flat_index (shp n) Ix)) (lay name k)) as [E|E].
  - apply lay_inj in E. destruct E as [E _]. subst. contradiction.
  - apply HA; assumption.
Qed.

Lemma assign_from_spec nc en known name : ~ In name known -> Ctx nc en ->
  forall es cs, Forall2 (fun e c => compile e = Some c) es cs -> Forall (wfe known) es ->
  forall k0 st, Agree st en known ->
  let st' := assign_from nc st name k0 cs in
  (forall j, j < List.length es -> st' (lay name (k0 + j)) = eval en (nth j es (@Const F f0))) /\
  (forall l, (forall j, j < List.length es -> l <> lay name (k0 + j)) -> st' l = st l).
Proof.
  intros Hn HC. induction 1 as [|e c es cs Hc H2 IH]; intros Hw k0 st HA; simpl.
  - split; [intros; lia | reflexivity].
  - inversion Hw as [|? ? Hwe Hwr]; subst.
    set (st1 := upd st (lay name k0) (ceval nc st c)).
    assert (HA1 : Agree st1 en known) by (apply agree_upd_other; assumption).
    destruct (IH Hwr (S k0) st1 HA1) as [A B].
    split.
    + intros j Hj. destruct j.
      * rewrite Nat.add_0_r. rewrite B.
        -- unfold st1, upd. destruct (loc_eqb_spec (lay name k0) (lay name k0)); [|congruence].
           apply (compile_sound nc st en known); assumption.
        -- intros j _ E. apply lay_inj in E. lia.
      * replace (k0 + S j) with (S k0 + j) by lia. simpl. apply A. simpl in Hj. lia.
    + intros l Hl. rewrite B.
      * unfold st1, upd. destruct (loc_eqb_spec l (lay name k0)) as [E|E]; [|reflexivity].
        exfalso. apply (Hl 0); [simpl; lia | rewrite Nat.add_0_r; exact E].
      * intros j Hj E. apply (Hl (S j)); [simpl; lia|]. rewrite E. f_equal. lia.
Qed.

Lemma agree_after_def nc st en known name t es cs :
  ~ In name known -> Ctx nc en -> Agree st en known ->
  tentries t = Some es -> omap compile es = Some cs -> Forall (wfe known) es ->
  shp name = tshape t -> sz name = List.length es ->
  Agree (assign_from nc st name 0 cs) (bind en name (tshape t) (map (eval en) es)) (name :: known).
Proof.
  intros Hn HC HA Ht Hc Hw Hs Hz.
  destruct (assign_from_spec nc en known name Hn HC es cs (omap_Forall2 _ _ _ Hc) Hw 0 st HA) as [A B].
  intros n Ix D p Hin Hlt Z. simpl.
  destruct (String.eqb_spec n name) as [E|E].
  - subst n. rewrite Hz in Hlt. pose proof (A _ Hlt) as A1. simpl in A1. rewrite <- Hs. rewrite A1.
    rewrite nth_indep with (d' := eval en (@Const F f0)) by (rewrite map_length; exact Hlt).
    now rewrite map_nth.
  - destruct Hin as [Hin|Hin]; [congruence|].
    rewrite B; [apply HA; assumption|].
    intros j _ E'. apply lay_inj in E'. destruct E' as [E' _]. congruence.
Qed.

Lemma ctx_bind nc en name shape vals : Ctx nc en -> Ctx nc (bind en name shape vals).
Proof. intros (A & B & C). repeat split; assumption. Qed.

(* ---- all definitions ------------------------------------------------------------------------------------ *)
Lemma run_defs_sound nc : forall ds known st en, wf_prog known ds -> Agree st en known -> Ctx nc en ->
  Agree (run_defs nc st ds) (eval_defs en ds) (names_after known ds) /\ Ctx nc (eval_defs en ds).
Proof.
  induction ds as [|[name t] r IH]; intros known st en Hwf HA HC; simpl.
  - split; assumption.
  - destruct Hwf as ((es & cs & Ht & Hc & Hw & Hs & Hz) & Hn & Hr).
    rewrite Ht, Hc.
    apply (IH (name :: known)); [exact Hr | | apply ctx_bind; exact HC].
    apply (agree_after_def nc st en known name t es cs); assumption.
Qed.

Lemma kernel_body_as_add (add_0_r : forall x, fadd x f0 = x)
  (add_assoc : forall x y z, fadd x (fadd y z) = fadd (fadd x y) z) nc st :
  forall cs acc, kernel_body nc st cs acc = fadd acc (sumF (map (ceval nc st) cs)).
Proof.
  unfold kernel_body. induction cs as [|c r IH]; intros acc; simpl.
  - now rewrite add_0_r.
  - rewrite IH. now rewrite add_assoc.
Qed.

(* the value the kernel adds at one Gauss node = the C06 value of the scheduled forest's integrands *)
Theorem kernel_node_sound nc st en known ds es cs :
  wf_prog known ds -> Agree st en known -> Ctx nc en ->
  omap compile es = Some cs -> Forall (wfe (names_after known ds)) es ->
  map (ceval nc (run_defs nc st ds)) cs = map (eval (eval_defs en ds)) es.
Proof.
  intros Hwf HA HC Hc Hw.
  destruct (run_defs_sound nc ds known st en Hwf HA HC) as [HA' HC'].
  apply omap_Forall2 in Hc. revert Hw. induction Hc as [|e c es' cs' H1 H2 IH]; intros Hw; [reflexivity|].
  inversion Hw; subst. simpl. f_equal; [|apply IH; assumption].
  apply (compile_sound nc _ _ (names_after known ds)); assumption.
Qed.

(* ---- the entry: Gauss sum of the C06 value ---------------------------------------------------------------- *)
Hypothesis add_0_l : forall x, fadd f0 x = x.
Hypothesis add_0_r : forall x, fadd x f0 = x.
Hypothesis add_assoc : forall x y z, fadd x (fadd y z) = fadd (fadd x y) z.

Theorem entry_denotes_gauss_sum_l :
  forall (s1 s2 : list (nat * nat)) (nc : list nat -> nctx) (st : list nat -> store) (en : list nat -> env)
         known ds es cs,
  wf_prog known ds -> omap compile es = Some cs -> Forall (wfe (names_after known ds)) es ->
  (forall idx, Agree (st idx) (en idx) known /\ Ctx (nc idx) (en idx)) ->
  entry_impl F f0 fadd s1 s2 (fun idx => sumF (map (ceval (nc idx) (run_defs (nc idx) (st idx) ds)) cs))
  = match entry_ranges s1 s2 with
    | None => f0
    | Some rs => sum_box F f0 fadd rs (fun idx => sumF (map (eval (eval_defs (en idx) ds)) es))
    end.
Proof.
  intros s1 s2 nc st en known ds es cs Hwf Hc Hw Hnode.
  rewrite (entry_impl_as_sum F f0 fadd add_0_l add_0_r add_assoc). unfold entry_spec.
  destruct (entry_ranges s1 s2) as [rs|]; [|reflexivity].
  apply (sum_box_ext F f0 fadd). intros idx. destruct (Hnode idx) as [HA HC].
  f_equal. apply (kernel_node_sound (nc idx) (st idx) (en idx) known ds es cs); assumption.
Qed.

(* ... and, when the integrand value vanishes outside either support, the sum over ALL Gauss nodes *)
Theorem entry_denotes_full_gauss_sum_l :
  forall (s1 s2 : list (nat * nat)) Ns (nc : list nat -> nctx) (st : list nat -> store) (en : list nat -> env)
         known ds es cs,
  wf_prog known ds -> omap compile es = Some cs -> Forall (wfe (names_after known ds)) es ->
  (forall idx, Agree (st idx) (en idx) known /\ Ctx (nc idx) (en idx)) ->
  Forall2 (fun s N => snd s <= N) s1 Ns -> Forall2 (fun s N => snd s <= N) s2 Ns ->
  (forall idx, in_box s1 idx = false \/ in_box s2 idx = false ->
     sumF (map (eval (eval_defs (en idx) ds)) es) = f0) ->
  entry_impl F f0 fadd s1 s2 (fun idx => sumF (map (ceval (nc idx) (run_defs (nc idx) (st idx) ds)) cs))
  = sum_box F f0 fadd (full_box Ns) (fun idx => sumF (map (eval (eval_defs (en idx) ds)) es)).
Proof.
  intros s1 s2 Ns nc st en known ds es cs Hwf Hc Hw Hnode F1 F2 Hloc.
  rewrite (entry_denotes_gauss_sum_l s1 s2 nc st en known ds es cs Hwf Hc Hw Hnode).
  apply (entry_spec_full F f0 fadd add_0_l add_0_r add_assoc); assumption.
Qed.

End Kernel.
