"""S-expression dump of pyiga.vform expression forests (reusable: C06, C01, C08).

Runs INSIDE the implementation interpreter (the caller hands in the imported
`pyiga.vform` module), never imports pyiga itself.  Fail-closed: an expression
class or attribute value that is not known here raises `UnknownNode`.

Node format (nested lists, JSON-able; `to_sexp` renders them as text):

  scalar nodes
    ["C", num, den]                 ConstExpr, the float as an exact fraction num/den
    ["Cx", "inf"|"-inf"|"nan"]      non-finite ConstExpr
    ["PD", name, comp, [D..], phys] PartialDerivExpr (comp = None or int)
    ["VR", name, [I..], [D..], par] VarRefExpr
    ["GW", axis] ["DX"] ["DS"]      GaussWeightExpr, VolumeMeasureExpr, SurfaceMeasureExpr
    ["N", x]                        NegExpr
    ["F", funcname, x]              BuiltinFuncExpr
    ["O", op, x, y]                 ScalarOperExpr
  tensor nodes
    ["LV", [e..]]                   LiteralVectorExpr
    ["LM", rows, cols, [e..]]       LiteralMatrixExpr (row major)
    ["TO", op, x, y]                TensorOperExpr
    ["X", x, y] ["OU", x, y] ["MV", A, x] ["MM", A, B]   cross, outer, MatVec, MatMat

A forest snapshot is
  {"vars": [ {name, kind: "expr"|"input"|"param"|"other", shape, symmetric, deriv,
              src, physical, tree}, .. ]   (insertion order of VForm.vars)
   "exprs": [tree, ..]}
"""
from fractions import Fraction
import math


class UnknownNode(Exception):
    pass


class TooBig(Exception):
    pass


def _ints(t):
    return [int(x) for x in t]


def dump_expr(vfm, e, budget=None, memo=None):
    """Expression tree -> nested list.  `budget` = [remaining tree nodes]."""
    if memo is not None and id(e) in memo:
        d, size = memo[id(e)]
        if budget is not None:
            budget[0] -= size
            if budget[0] < 0:
                raise TooBig()
        return d
    b0 = budget[0] if budget is not None else 0
    if budget is not None:
        budget[0] -= 1
        if budget[0] < 0:
            raise TooBig()
    t = type(e)
    rec = lambda c: dump_expr(vfm, c, budget, memo)
    if t is vfm.ConstExpr:
        v = e.value
        if not isinstance(v, float):
            raise UnknownNode('ConstExpr value of type %s' % type(v).__name__)
        if math.isnan(v):
            d = ['Cx', 'nan']
        elif math.isinf(v):
            d = ['Cx', 'inf' if v > 0 else '-inf']
        else:
            fr = Fraction(v)
            d = ['C', fr.numerator, fr.denominator]
    elif t is vfm.PartialDerivExpr:
        bf = e.basisfun
        comp = None if bf.component is None else int(bf.component)
        d = ['PD', str(bf.name), comp, _ints(e.D), bool(e.physical)]
    elif t is vfm.VarRefExpr:
        d = ['VR', str(e.var.name), _ints(e.I), _ints(e.D), bool(e.parametric)]
    elif t is vfm.GaussWeightExpr:
        d = ['GW', int(e.axis)]
    elif t is vfm.VolumeMeasureExpr:
        d = ['DX']
    elif t is vfm.SurfaceMeasureExpr:
        d = ['DS']
    elif t is vfm.NegExpr:
        d = ['N', rec(e.children[0])]
    elif t is vfm.BuiltinFuncExpr:
        d = ['F', str(e.funcname), rec(e.children[0])]
    elif t is vfm.ScalarOperExpr:
        if e.oper not in ('+', '-', '*', '/'):
            raise UnknownNode('operator %r' % (e.oper,))
        d = ['O', e.oper, rec(e.children[0]), rec(e.children[1])]
    elif t is vfm.LiteralVectorExpr:
        d = ['LV', [rec(c) for c in e.children]]
    elif t is vfm.LiteralMatrixExpr:
        d = ['LM', int(e.shape[0]), int(e.shape[1]), [rec(c) for c in e.children]]
    elif t is vfm.TensorOperExpr:
        if e.oper not in ('+', '-', '*', '/'):
            raise UnknownNode('operator %r' % (e.oper,))
        d = ['TO', e.oper, rec(e.children[0]), rec(e.children[1])]
    elif t is vfm.VectorCrossExpr:
        d = ['X', rec(e.children[0]), rec(e.children[1])]
    elif t is vfm.OuterProdExpr:
        d = ['OU', rec(e.children[0]), rec(e.children[1])]
    elif t is vfm.MatVecExpr:
        d = ['MV', rec(e.children[0]), rec(e.children[1])]
    elif t is vfm.MatMatExpr:
        d = ['MM', rec(e.children[0]), rec(e.children[1])]
    else:
        raise UnknownNode('expression class %s' % t.__name__)
    if memo is not None and budget is not None:
        memo[id(e)] = (d, b0 - budget[0])
        memo.setdefault('_keep', []).append(e)     # keep the object alive: ids stay unique
    return d


def dump_var(vfm, var, budget=None, memo=None):
    d = {'name': str(var.name), 'shape': _ints(var.shape), 'symmetric': bool(var.symmetric),
         'deriv': None if var.deriv is None else int(var.deriv), 'src': None, 'physical': None, 'tree': None}
    if var.expr is not None:
        d['kind'] = 'expr'
        d['tree'] = dump_expr(vfm, var.expr, budget, memo)
    elif isinstance(var.src, vfm.InputField):
        d['kind'] = 'input'
        d['src'] = str(var.src.name)
        d['physical'] = bool(var.src.physical)
        d['srcshape'] = _ints(var.src.shape)
    elif isinstance(var.src, vfm.Parameter):
        d['kind'] = 'param'
        d['src'] = str(var.src.name)
    else:
        d['kind'] = 'other'
    return d


def dump_forest(vfm, vf, max_nodes=20000):
    """Snapshot of the whole form (all variables in vf.vars and all exprs)."""
    budget = [max_nodes]
    memo = {}
    return {'vars': [dump_var(vfm, v, budget, memo) for v in vf.vars.values()],
            'exprs': [dump_expr(vfm, e, budget, memo) for e in vf.exprs],
            'size': max_nodes - budget[0]}


def form_header(vf):
    bfs = []
    for bf in (vf.basis_funs or ()):
        bfs.append({'name': str(bf.name), 'numcomp': None if bf.numcomp is None else int(bf.numcomp),
                    'space': int(bf.space)})
    return {'dim': int(vf.dim), 'geo_dim': int(vf.geo_dim), 'arity': int(vf.arity),
            'boundary': bool(vf.is_boundary), 'spacetime': bool(vf.spacetime),
            'vec': int(vf.vec) if vf.vec else 0, 'bfuns': bfs,
            'inputs': [{'name': str(i.name), 'shape': _ints(i.shape), 'physical': bool(i.physical)} for i in vf.inputs],
            'params': [{'name': str(p.name), 'shape': _ints(p.shape)} for p in vf.params]}


def schedule(vfm, vf):
    """The emitted order after dependency_analysis (names; basis functions as 'bf:<name>')."""
    def nm(v):
        return 'bf:' + str(v.name) if isinstance(v, vfm.BasisFun) else str(v.name)
    return {'linear_deps': [nm(v) for v in vf.linear_deps],
            'precomp': [nm(v) for v in vf.precomp],
            'kernel_deps': [nm(v) for v in vf.kernel_deps],
            'globals': sorted(str(v.name) for v in vf.vars.values() if v.is_global),
            'scopes': {str(v.name): int(v.scope) for v in vf.vars.values()}}


class Tracer:
    """Wraps the passes of one VForm from the outside and records a forest
    snapshot before finalize() and after every pass (`VForm.transform` call,
    `extract_common_expressions`, `dependency_analysis`)."""

    def __init__(self, vfm, vf, max_nodes=20000):
        self.vfm, self.vf, self.max_nodes = vfm, vf, max_nodes
        self.snaps = []          # list of (label, forest)
        self._depth = 0
        self._in_cse = False
        self.cse_records = []    # [variable reference, replaced occurrence] per replacement
        self.max_cse_records = 200

    def snap(self, label):
        self.snaps.append((label, dump_forest(self.vfm, self.vf, self.max_nodes)))

    def install(self):
        vf = self.vf
        cls = type(vf)
        tr = self

        def transform(fun, type=None, deep=True):
            label = 'transform:%s:%s:%s' % (getattr(fun, '__name__', '?'), type.__name__ if type else 'None',
                                            'deep' if deep else 'shallow')
            if tr._in_cse:
                # a replacement round of extract_common_expressions: record which occurrences the
                # implementation replaces by which variable (observed on the hashes it really uses)
                fun0 = fun

                def fun(e):
                    out = fun0(e)
                    if out is not None and len(tr.cse_records) < tr.max_cse_records:
                        try:
                            tr.cse_records.append([dump_expr(tr.vfm, out, [50]), dump_expr(tr.vfm, e, [3000])])
                        except TooBig:
                            pass
                    return out
            tr._depth += 1
            try:
                r = cls.transform(vf, fun, type=type, deep=deep)
            finally:
                tr._depth -= 1
            if tr._depth == 0:
                tr.snap(label)
            return r

        def extract_common_expressions():
            tr._depth += 1
            tr._in_cse = True
            try:
                r = cls.extract_common_expressions(vf)
            finally:
                tr._depth -= 1
                tr._in_cse = False
            tr.snap('cse')
            return r

        def dependency_analysis(do_precompute=True):
            r = cls.dependency_analysis(vf, do_precompute=do_precompute)
            tr.snap('dependency_analysis')
            return r

        vf.transform = transform
        vf.extract_common_expressions = extract_common_expressions
        vf.dependency_analysis = dependency_analysis

    def run_finalize(self, **kw):
        self.snap('initial')
        self.install()
        self.vf.finalize(**kw)
        return self.snaps


def to_sexp(d):
    """Nested-list node -> S-expression text."""
    if isinstance(d, list):
        return '(' + ' '.join(to_sexp(x) for x in d) + ')'
    if d is None:
        return '-'
    if d is True:
        return '#t'
    if d is False:
        return '#f'
    return str(d)


class RuleRecorder:
    """Records (input, output) pairs of the per-node rewriting rules by wrapping
    the rule functions from outside: ScalarOperExpr.fold_constants,
    vform._to_literal_vec_mat, and every class's _dx_impl."""

    def __init__(self, vfm, max_nodes=400, max_records=400):
        self.vfm, self.max_nodes, self.max_records = vfm, max_nodes, max_records
        self.fold = {}
        self.lit = {}
        self.dx = {}
        self.vec = []
        self.rpd = {}
        self.iifd = {}
        self._orig = []

    def _dump(self, e):
        return dump_expr(self.vfm, e, [self.max_nodes])

    def _rec(self, table, key_parts, out_thunk):
        import json
        if len(table) >= self.max_records:
            return
        try:
            k = json.dumps(key_parts)
            if k in table:
                return
            table[k] = out_thunk()
        except TooBig:
            pass

    def install(self):
        vfm = self.vfm
        rr = self
        orig_fold = vfm.ScalarOperExpr.fold_constants

        def fold_constants(self_):
            try:
                din = rr._dump(self_)
            except TooBig:
                din = None
            try:
                out = orig_fold(self_)
            except ZeroDivisionError:
                if din is not None:
                    rr._rec(rr.fold, din, lambda: 'ZeroDivisionError')
                raise
            if din is not None:
                rr._rec(rr.fold, din, lambda: rr._dump(out))
            return out
        vfm.ScalarOperExpr.fold_constants = fold_constants
        self._orig.append((vfm.ScalarOperExpr, 'fold_constants', orig_fold))

        orig_lit = vfm._to_literal_vec_mat

        def _to_literal_vec_mat(e):
            out = orig_lit(e)
            if out is not None:
                try:
                    din = rr._dump(e)
                    rr._rec(rr.lit, din, lambda: rr._dump(out))
                except TooBig:
                    pass
            return out
        vfm._to_literal_vec_mat = _to_literal_vec_mat
        self._orig.append((vfm, '_to_literal_vec_mat', orig_lit))

        for cname in ('ConstExpr', 'VarRefExpr', 'ScalarOperExpr', 'PartialDerivExpr'):
            cls = getattr(vfm, cname)
            orig = cls._dx_impl

            def mk(orig):
                def _dx_impl(self_, k, times, parametric):
                    try:
                        out = orig(self_, k, times, parametric)
                    except Exception as ex:
                        try:
                            rr._rec(rr.dx, [rr._dump(self_), int(k), int(times), bool(parametric)],
                                    lambda: 'raise:' + type(ex).__name__)
                        except TooBig:
                            pass
                        raise
                    try:
                        rr._rec(rr.dx, [rr._dump(self_), int(k), int(times), bool(parametric)],
                                lambda: rr._dump(out))
                    except TooBig:
                        pass
                    return out
                return _dx_impl
            cls._dx_impl = mk(orig)
            self._orig.append((cls, '_dx_impl', orig))

    def install_vec(self):
        """VForm.substitute_vec_components(expr) -> (expr, result, variables at that time)"""
        vfm = self.vfm
        rr = self
        orig = vfm.VForm.substitute_vec_components

        def substitute_vec_components(self_, expr):
            try:
                din = dump_expr(vfm, expr, [4000])
            except TooBig:
                din = None
            out = orig(self_, expr)
            if din is not None and len(rr.vec) < 4:
                try:
                    budget = [8000]
                    rr.vec.append([din, dump_expr(vfm, out, budget),
                                   [dump_var(vfm, v, budget) for v in self_.vars.values()]])
                except TooBig:
                    pass
            return out
        vfm.VForm.substitute_vec_components = substitute_vec_components
        self._orig.append((vfm.VForm, 'substitute_vec_components', orig))

    def install_rpd(self):
        """VForm.replace_physical_derivs(e) for basis-function derivatives: (dim, spacetime, e) ->
        (result, definitions of the helper variables the result refers to, as they are right after the call)"""
        vfm = self.vfm
        rr = self
        orig = vfm.VForm.replace_physical_derivs

        def replace_physical_derivs(self_, e):
            out = orig(self_, e)
            isfield = type(e) is vfm.VarRefExpr and e.is_input_var_expr()
            if out is not None and (type(e) is vfm.PartialDerivExpr or isfield) and len(rr.rpd) < 90:
                import json
                try:
                    din = dump_expr(vfm, e, [50])
                    key = json.dumps([int(self_.dim), bool(self_.spacetime), din] +
                                     ([bool(e.var.src.physical)] if isfield else []))
                    if key not in rr.rpd:
                        dout = dump_expr(vfm, out, [4000])
                        names = []

                        def walk(d):
                            if isinstance(d, list) and d:
                                if d[0] == 'VR' and d[1].startswith('_') and d[1] not in names:
                                    names.append(d[1])
                                for x in d[1:]:
                                    if isinstance(x, list):
                                        walk(x)
                        walk(dout)
                        defs = [[n, dump_expr(vfm, self_.vars[n].expr, [4000])] for n in names]
                        rr.rpd[key] = [dout, defs]
                except TooBig:
                    pass
            return out
        vfm.VForm.replace_physical_derivs = replace_physical_derivs
        self._orig.append((vfm.VForm, 'replace_physical_derivs', orig))

    def install_iifd(self):
        """VForm.insert_input_field_derivs(e): (dim, e, field name) -> result"""
        vfm = self.vfm
        rr = self
        orig = vfm.VForm.insert_input_field_derivs

        def insert_input_field_derivs(self_, e):
            out = orig(self_, e)
            if out is not None and len(rr.iifd) < 60:
                import json
                try:
                    din = dump_expr(vfm, e, [50])
                    key = json.dumps([int(self_.dim), din, str(e.var.src.name)])
                    if key not in rr.iifd:
                        rr.iifd[key] = dump_expr(vfm, out, [200])
                except TooBig:
                    pass
            return out
        vfm.VForm.insert_input_field_derivs = insert_input_field_derivs
        self._orig.append((vfm.VForm, 'insert_input_field_derivs', orig))

    def uninstall(self):
        for (obj, name, orig) in reversed(self._orig):
            setattr(obj, name, orig)
        self._orig = []

    def take(self):
        import json
        out = {'fold': [[json.loads(k), v] for k, v in self.fold.items()],
               'lit': [[json.loads(k), v] for k, v in self.lit.items()],
               'dx': [[json.loads(k), v] for k, v in self.dx.items()],
               'vec': self.vec,
               'rpd': [[json.loads(k), v] for k, v in self.rpd.items()],
               'iifd': [[json.loads(k), v] for k, v in self.iifd.items()]}
        self.fold, self.lit, self.dx, self.vec, self.rpd, self.iifd = {}, {}, {}, [], {}, {}
        return out
