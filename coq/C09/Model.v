(* C09 -- executable model (exact rationals, Qc) of the 1D Galerkin routines, the
   quadrature construction, the Kronecker fast paths and the closed-form
   determinants/inverses.  Definitions only, no proofs.

   Source (all in /repo/pyiga):
     quadrature.py:3-21        gauss_rule, make_iterated_quadrature, make_tensor_quadrature
     bspline.py:112-158        KnotVector._ensure_mesh (np.unique), mesh, mesh_span_indices,
                               first_active, first_active_at
     assemble.py:125-136       _assemble_element_matrices
     assemble.py:138-163       _create_coo_1d_from_kv, _create_coo_1d_custom, _assemble_matrix_custom
     assemble.py:179-222       bsp_mixed_deriv_biform_1d, bsp_mixed_deriv_biform_1d_asym
     assemble.py:236-282       bsp_mass_2d/3d, bsp_stiffness_2d/3d (geo is None branches)
     assemble.py:288-340,658-697  inner_products / integrate (parameter domain, weights)
     bspline.py:674-681        load_vector
     assemble_tools_cy.pyx:209-375  determinants, det_and_inv, inverses (2x2, 3x3)
   The B-spline kernels (active_deriv, findspan, colloc_row) are those of coq/lib/Bsp.v.
   The reference Gauss-Legendre rule (np.polynomial.legendre.leggauss) is an argument of
   every definition: a list of (node, weight); the table numpy produces is dumped at run
   time by translate/leggauss.py.  Arrays are lists, numpy index arithmetic is nat. *)
From Coq Require Import QArith Qabs Qcanon Qcabs ZArith List Bool Arith.
From Verif.lib Require Import Bsp.
Import ListNotations.
Open Scope Qc_scope.

Definition rule := list (Qc * Qc).           (* (node, weight) *)
Definition half : Qc := Q2Qc (1 # 2).

Definition sumf {A} (f : A -> Qc) (l : list A) : Qc := fold_right (fun a s => f a + s) 0 l.
Definition sumq (l : list Qc) : Qc := sumf (fun x => x) l.

(* ---- quadrature.py ------------------------------------------------------ *)

(* gauss_rule (quadrature.py:7-11) for ONE interval (a,b):
   m = 0.5*(a+b); h = 0.5*(b-a); nodes = h*x + m; weights = h*w *)
Definition gauss_cell (ref : rule) (a b : Qc) : list (Qc * Qc) :=
  let m := half * (a + b) in
  let h := half * (b - a) in
  map (fun xw => (h * fst xw + m, h * snd xw)) ref.

(* the pairs (intervals[:-1][k], intervals[1:][k]) *)
Fixpoint cells (mesh : list Qc) : list (Qc * Qc) :=
  match mesh with
  | a :: ((b :: _) as t) => (a, b) :: cells t
  | _ => []
  end.

(* make_iterated_quadrature: np.outer(h,x)+m[:,newaxis], .ravel() is row-major = cell after cell *)
Definition iterated (ref : rule) (mesh : list Qc) : list (Qc * Qc) :=
  concat (map (fun ab => gauss_cell ref (fst ab) (snd ab)) (cells mesh)).

(* ---- KnotVector: mesh, mesh_span_indices (bspline.py:112-144) ------------ *)

(* np.unique of a non-decreasing array (the constructor asserts monotonicity, bspline.py:66):
   remove adjacent repetitions *)
Fixpoint mesh (kv : list Qc) : list Qc :=
  match kv with
  | a :: ((b :: _) as t) => if qeqb a b then mesh t else a :: mesh t
  | _ => kv
  end.

(* np.where(k2m[1:] != k2m[:-1])[0]: the indices i (counted from off) with kv[i] != kv[i+1] *)
Fixpoint span_indices_from (off : nat) (kv : list Qc) : list nat :=
  match kv with
  | a :: ((b :: _) as t) =>
      if qeqb a b then span_indices_from (S off) t else off :: span_indices_from (S off) t
  | _ => []
  end.
Definition span_indices (kv : list Qc) : list nat := span_indices_from 0 kv.
Definition numspans (kv : list Qc) : nat := (length (mesh kv) - 1)%nat.

(* first_active(k) = k - p   (bspline.py:156-158); k >= p for the spans of an open knot vector *)
Definition first_active (p k : nat) : nat := (k - p)%nat.

(* ---- element matrices and COO assembly (assemble.py:125-163) ------------- *)

Definition slice {A} (l : list A) (a b : nat) : list A := firstn (b - a) (skipn a l).

(* np.dot(f1, (f2*w).T)[i,j] = sum_q f1[i,q] * (f2[j,q]*w[q]) *)
Fixpoint dot3 (f1 f2 w : list Qc) : Qc :=
  match f1, f2, w with
  | a :: f1', b :: f2', c :: w' => a * (b * c) + dot3 f1' f2' w'
  | _, _, _ => 0
  end.

(* vals : n_act x (nspans*nqp); elMats[k,i,j] *)
Definition elmats (nspans nqp : nat) (vals1 vals2 : list (list Qc)) (qw : list Qc)
  : list (list (list Qc)) :=
  map (fun k =>
         let f1 := map (fun row => slice row (nqp * k) (nqp * (k + 1))) vals1 in
         let f2 := map (fun row => slice row (nqp * k) (nqp * (k + 1))) vals2 in
         let w := slice qw (nqp * k) (nqp * (k + 1)) in
         map (fun r1 => map (fun r2 => dot3 r1 r2 w) f2) f1)
      (seq 0 nspans).

(* _create_coo_1d_custom: I = repeat(first_act1, n1*n2) + tile(I_ref, nspans), the same for J;
   listed in the order of elMats.ravel() (k slowest, then i, then j) *)
Definition coo_custom (nspans n1 n2 : nat) (fa1 fa2 : list nat) : list (nat * nat) :=
  flat_map (fun k =>
     flat_map (fun i => map (fun j => (nth k fa1 0 + i, nth k fa2 0 + j)%nat) (seq 0 n2)) (seq 0 n1))
     (seq 0 nspans).

Definition ravel3 (M : list (list (list Qc))) : list Qc := concat (map (@concat Qc) M).

(* scipy.sparse.coo_matrix((data,(I,J))).tocsr(): shape = (max I + 1, max J + 1), duplicate
   entries are summed.  Dense result. *)
Definition coo_get (IJ : list (nat * nat)) (data : list Qc) (i j : nat) : Qc :=
  sumf (fun e => if (Nat.eqb (fst (fst e)) i && Nat.eqb (snd (fst e)) j) then snd e else 0)
       (combine IJ data).
Definition coo_shape (IJ : list (nat * nat)) : nat * nat :=
  (S (fold_right Nat.max 0 (map fst IJ)), S (fold_right Nat.max 0 (map snd IJ)))%nat.
Definition coo_dense (IJ : list (nat * nat)) (data : list Qc) : list (list Qc) :=
  let '(nr, nc) := coo_shape IJ in
  map (fun i => map (fun j => coo_get IJ data i j) (seq 0 nc)) (seq 0 nr).
(* the stored pattern (for the exact structural comparison) *)
Definition coo_pattern (IJ : list (nat * nat)) : list (list bool) :=
  let '(nr, nc) := coo_shape IJ in
  map (fun i => map (fun j => existsb (fun e => Nat.eqb (fst e) i && Nat.eqb (snd e) j) IJ) (seq 0 nc))
      (seq 0 nr).

(* ---- bsp_mixed_deriv_biform_1d (assemble.py:179-190) --------------------- *)

(* int(math.ceil((2p - du - dv + 1) / 2.0)) *)
Definition nqp_default (psum du dv : nat) : Z :=
  ((Z.of_nat psum - Z.of_nat du - Z.of_nat dv + 1 + 1) / 2)%Z.

(* derivs[d,:,:] : (p+1) x npts from bspline.active_deriv(kv, nodes, nd) *)
Definition vals_at (kv : list Qc) (p nd d : nat) (nodes : list Qc) : list (list Qc) :=
  let AD := map (fun x => nth d (active_deriv kv p x nd) []) nodes in
  map (fun r => map (fun row => nth r row 0) AD) (seq 0 (S p)).

Definition apply_weightfunc (wf : option (Qc -> Qc)) (q : list (Qc * Qc)) : list Qc :=
  match wf with
  | None => map snd q
  | Some f => map (fun xw => snd xw * f (fst xw)) q        (* qweights *= weightfunc(nodes) *)
  end.

(* the COO index arrays and data of bsp_mixed_deriv_biform_1d; ref must be leggauss(nqp) *)
Definition biform_1d_coo (kv : list Qc) (p du dv : nat) (ref : rule) (wf : option (Qc -> Qc))
  : list (nat * nat) * list Qc :=
  let nqp := length ref in
  let nspans := numspans kv in
  let q := iterated ref (mesh kv) in
  let nodes := map fst q in
  let nd := Nat.max du dv in
  let qw := apply_weightfunc wf q in
  let fa := map (first_active p) (span_indices kv) in
  let IJ := coo_custom nspans (S p) (S p) fa fa in
  (IJ, ravel3 (elmats nspans nqp (vals_at kv p nd dv nodes) (vals_at kv p nd du nodes) qw)).

Definition biform_1d kv p du dv ref wf : list (list Qc) :=
  let '(IJ, data) := biform_1d_coo kv p du dv ref wf in coo_dense IJ data.

(* ---- bsp_mixed_deriv_biform_1d_asym (assemble.py:192-222) ---------------- *)
(* kv1,p1: trial space (du derivatives, columns); kv2,p2: test space (dv, rows). *)
Definition biform_asym_coo (kv1 : list Qc) (p1 : nat) (kv2 : list Qc) (p2 : nat) (du dv : nat)
  (quadgrid : list Qc) (ref : rule) : list (nat * nat) * list Qc :=
  let nqp := length ref in
  let nspans := (length quadgrid - 1)%nat in
  let q := iterated ref quadgrid in
  let nodes := map fst q in
  let first_points := map (fun k => nth (nqp * k) nodes 0) (seq 0 nspans) in     (* q[0][::nqp] *)
  let fa1 := map (first_active_at kv1 p1) first_points in
  let fa2 := map (first_active_at kv2 p2) first_points in
  let IJ := coo_custom nspans (S p2) (S p1) fa2 fa1 in
  (IJ, ravel3 (elmats nspans nqp (vals_at kv2 p2 dv dv nodes) (vals_at kv1 p1 du du nodes) (map snd q))).

Definition biform_asym kv1 p1 kv2 p2 du dv quadgrid ref : list (list Qc) :=
  let '(IJ, data) := biform_asym_coo kv1 p1 kv2 p2 du dv quadgrid ref in coo_dense IJ data.

(* ---- Kronecker paths (assemble.py:236-282, geo is None) ------------------ *)

Definition mget (M : list (list Qc)) (i j : nat) : Qc := nth j (nth i M []) 0.

(* scipy.sparse.kron(A,B)[i1*nB+i2, j1*mB+j2] = A[i1,j1]*B[i2,j2] *)
Definition kron (A B : list (list Qc)) : list (list Qc) :=
  flat_map (fun ra => map (fun rb => flat_map (fun a => map (fun b => a * b) rb) ra) B) A.
Definition madd (A B : list (list Qc)) : list (list Qc) :=
  map (fun rr => map (fun ab => fst ab + snd ab) (combine (fst rr) (snd rr))) (combine A B).

Definition mass_2d (M1 M2 : list (list Qc)) := kron M1 M2.
Definition stiffness_2d (M1 K1 M2 K2 : list (list Qc)) := madd (kron K1 M2) (kron M1 K2).
Definition mass_3d (M0 M1 M2 : list (list Qc)) := kron M0 (kron M1 M2).
Definition stiffness_3d (M0 K0 M1 K1 M2 K2 : list (list Qc)) :=
  let M12 := kron M1 M2 in
  let K12 := madd (kron K1 M2) (kron M1 K2) in
  madd (kron K0 M12) (kron M0 K12).

(* ---- load vectors and integrals in the parameter domain ------------------ *)

(* bspline.load_vector (bspline.py:674-681): C.T.dot(w * f(x)), C the collocation matrix *)
Definition load_vector_1d (kv : list Qc) (p : nat) (ref : rule) (f : Qc -> Qc) : list Qc :=
  let q := iterated ref (mesh kv) in
  map (fun i => sumf (fun xw => nth i (colloc_row kv p 0 (fst xw)) 0 * (snd xw * f (fst xw))) q)
      (seq 0 (numdofs kv p)).

(* assemble.integrate, one axis (assemble.py:658-697 with geo=None): sum of w*f(x) *)
Definition integrate_1d (msh : list Qc) (ref : rule) (f : Qc -> Qc) : Qc :=
  sumf (fun xw => snd xw * f (fst xw)) (iterated ref msh).

(* ---- closed-form determinants and inverses (assemble_tools_cy.pyx:209-375) *)

Definition det2 (a b c d : Qc) : Qc := a * d - b * c.
Definition inv2 (a b c d : Qc) : list (list Qc) :=
  let det := a * d - b * c in [[d / det; - b / det]; [- c / det; a / det]].

Definition det3 (x00 x01 x02 x10 x11 x12 x20 x21 x22 : Qc) : Qc :=
  x00 * (x11 * x22 - x21 * x12) - x01 * (x10 * x22 - x12 * x20) + x02 * (x10 * x21 - x11 * x20).
Definition inv3 (x00 x01 x02 x10 x11 x12 x20 x21 x22 : Qc) : list (list Qc) :=
  let invdet := 1 / det3 x00 x01 x02 x10 x11 x12 x20 x21 x22 in
  [[(x11 * x22 - x21 * x12) * invdet; (x02 * x21 - x01 * x22) * invdet; (x01 * x12 - x02 * x11) * invdet];
   [(x12 * x20 - x10 * x22) * invdet; (x00 * x22 - x02 * x20) * invdet; (x10 * x02 - x00 * x12) * invdet];
   [(x10 * x21 - x20 * x11) * invdet; (x20 * x01 - x00 * x21) * invdet; (x00 * x11 - x10 * x01) * invdet]].

(* ---- reference (Spec side, executable): the Gram form of a rule ---------- *)

(* sum over quadrature points of w * wf(x) * N_i^(dv)(x) * N_j^(du)(x), basis functions
   given by the dense collocation rows *)
Definition gram_ref (kv1 : list Qc) (p1 : nat) (kv2 : list Qc) (p2 : nat) (du dv : nat)
  (q : list (Qc * Qc)) (i j : nat) : Qc :=
  sumf (fun xw => snd xw * (nth i (colloc_row kv2 p2 dv (fst xw)) 0 * nth j (colloc_row kv1 p1 du (fst xw)) 0)) q.

(* ---- helpers for the correspondence run ---------------------------------- *)

Definition close (bound a b : Qc) : bool := qleb (Qcabs (a - b)) bound.
Fixpoint all2 {A B} (f : A -> B -> bool) (l1 : list A) (l2 : list B) : bool :=
  match l1, l2 with
  | [], [] => true
  | a :: l1', b :: l2' => f a b && all2 f l1' l2'
  | _, _ => false
  end.
Definition mat_close (bnd impl model : list (list Qc)) : bool :=
  all2 (fun rb ri => all2 (fun (bi : Qc * Qc) m => close (fst bi) (snd bi) m) (combine (fst rb) (snd rb)) ri)
       (combine bnd impl) model.
Definition nat_list_eqb (a b : list nat) : bool := all2 Nat.eqb a b.
Definition qc_list_eqb (a b : list Qc) : bool := all2 qeqb a b.
Definition pattern_eqb (a b : list (list bool)) : bool := all2 (all2 Bool.eqb) a b.
Fixpoint bad_cases (k : nat) (rs : list bool) : list nat :=
  match rs with
  | [] => []
  | true :: rs' => bad_cases (S k) rs'
  | false :: rs' => k :: bad_cases (S k) rs'
  end.

(* ---- the check applied to the regenerated Gauss-Legendre tables ---------- *)

Fixpoint qpow (x : Qc) (k : nat) : Qc := match k with O => 1 | S k' => x * qpow x k' end.
(* int_{-1}^{1} x^k dx *)
Definition moment_exact (k : nat) : Qc := if Nat.even k then Q2Qc (2 # Pos.of_nat (S k)) else 0.
Fixpoint increasing (l : list Qc) : bool :=
  match l with
  | a :: ((b :: _) as t) => qltb a b && increasing t
  | _ => true
  end.
Definition rule_moment (r : rule) (k : nat) : Qc := sumf (fun xw => snd xw * qpow (fst xw) k) r.
(* all moments 0..n-1 at once: per node the list w, w x, w x^2, ... (one product per entry) *)
Fixpoint wpows (x acc : Qc) (n : nat) : list Qc :=
  match n with O => [] | S n' => acc :: wpows x (acc * x) n' end.
Fixpoint vadd (a b : list Qc) : list Qc :=
  match a, b with x :: a', y :: b' => (x + y) :: vadd a' b' | _, _ => [] end.
Definition moments (r : rule) (n : nat) : list Qc :=
  fold_right (fun xw acc => vadd (wpows (fst xw) (snd xw) n) acc) (repeat 0 n) r.
Definition rule_ok (defect : Qc) (n : nat) (r : rule) : bool :=
  Nat.eqb (length r) n
  && forallb (fun xw => qltb (- (1)) (fst xw) && qltb (fst xw) 1 && qltb 0 (snd xw)) r
  && increasing (map fst r)
  && forallb (fun km => close defect (snd km) (moment_exact (fst km)))
             (combine (seq 0 (2 * n)) (moments r (2 * n))).

(* ---- polynomials (weight functions / right-hand sides of the correspondence run) *)
Fixpoint peval (c : list Qc) (x : Qc) : Qc :=
  match c with [] => 0 | a :: c' => a + x * peval c' x end.
Fixpoint pint (k : nat) (c : list Qc) : Qc :=      (* sum_i c_i * int_{-1}^{1} x^(k+i) *)
  match c with [] => 0 | a :: c' => a * moment_exact k + pint (S k) c' end.
Fixpoint l1norm (c : list Qc) : Qc := match c with [] => 0 | a :: c' => Qcabs a + l1norm c' end.

(* the Gram form as a matrix, one evaluation of each collocation row per quadrature point *)
Definition gram_ref_mat (kv1 : list Qc) (p1 : nat) (kv2 : list Qc) (p2 : nat) (du dv : nat)
  (q : list (Qc * Qc)) : list (list Qc) :=
  let rows := map (fun xw => (snd xw, colloc_row kv2 p2 dv (fst xw), colloc_row kv1 p1 du (fst xw))) q in
  map (fun i => map (fun j =>
        sumf (fun r => fst (fst r) * (nth i (snd (fst r)) 0 * nth j (snd r) 0)) rows)
        (seq 0 (numdofs kv1 p1))) (seq 0 (numdofs kv2 p2)).
Definition mat_eqb (A B : list (list Qc)) : bool := all2 (all2 qeqb) A B.
Definition weighted (wf : Qc -> Qc) (q : list (Qc * Qc)) : list (Qc * Qc) :=
  map (fun xw => (fst xw, snd xw * wf (fst xw))) q.

(* ---- the same check in scaled integer arithmetic (fast for q up to 13) ---
   a table with common denominator D: node X/D, weight W/D *)
Definition zrule := (positive * list (Z * Z))%type.
Definition rule_of_z (t : zrule) : rule :=
  map (fun XW => (Q2Qc (fst XW # fst t), Q2Qc (snd XW # fst t))) (snd t).
Fixpoint zwpows (x acc : Z) (n : nat) : list Z :=
  match n with O => [] | S n' => acc :: zwpows x (acc * x)%Z n' end.
Fixpoint zvadd (a b : list Z) : list Z :=
  match a, b with x :: a', y :: b' => (x + y)%Z :: zvadd a' b' | _, _ => [] end.
(* M_k = sum_i W_i X_i^k, so that the k-th moment is M_k / D^(k+1) *)
Definition zmoments (t : zrule) (n : nat) : list Z :=
  fold_right (fun XW acc => zvadd (zwpows (fst XW) (snd XW) n) acc) (repeat 0%Z n) (snd t).
Fixpoint zincreasing (l : list Z) : bool :=
  match l with a :: ((b :: _) as t) => (a <? b)%Z && zincreasing t | _ => true end.
Fixpoint ppow (d : positive) (k : nat) : positive := match k with O => 1%positive | S k' => (d * ppow d k')%positive end.
Definition zrule_ok (defect : Q) (n : nat) (t : zrule) : bool :=
  let D := fst t in
  Nat.eqb (length (snd t)) n
  && forallb (fun XW => (- Zpos D <? fst XW)%Z && (fst XW <? Zpos D)%Z && (0 <? snd XW)%Z) (snd t)
  && zincreasing (map fst (snd t))
  && forallb (fun kM =>
       Qle_bool (Qabs ((snd kM # ppow D (S (fst kM))) - (if Nat.even (fst kM) then 2 # Pos.of_nat (S (fst kM)) else 0))%Q) defect)
       (combine (seq 0 (2 * n)) (zmoments t (2 * n))).
