(* C07 -- documented argument forms of the geometry operations: apply_matrix with
   "an array of matrices, one for each control point" (bspline.py:1074-1083 BSplineFunc.apply_matrix,
   geometry.py:251-262 NurbsFunc.apply_matrix:  C = np.matmul(A, coeffs[..., None]) with numpy broadcasting
   of the leading axes of A against the control net).  The single matrix is the constant family. *)
From Coq Require Import QArith Qcanon ZArith List Arith Bool Lia.
From Verif.lib Require Import Bsp.
From Verif.C07 Require Import Model Proofs NurbsOps.
Import ListNotations.
Open Scope Qc_scope.

(* control point idx is mapped by its own matrix A idx (rows x nc f) *)
Definition b_matrix_pc (f : bsp) (A : list nat -> nat -> nat -> Qc) (rows : nat) : bsp :=
  mk_bsp (kvs f) (fun idx c => rdot 0 (map (A idx c) (seq 0 (nc f))) (co f idx)) rows.
(* NurbsFunc: the matrices act on the non-premultiplied control points, the weights are unchanged *)
Definition n_matrix_pc (f : bsp) (A : list nat -> nat -> nat -> Qc) (rows : nat) : bsp :=
  mk_nurbs (kvs f) (fun idx c => rdot 0 (map (A idx c) (seq 0 (wcomp f))) (n_C f idx)) (n_W f) rows.

(* numpy broadcasting of the leading shape ash of A (A.shape = ash ++ [rows; cols]) against the control
   net index idx: the axes are aligned at the right, missing leading axes are dropped, axes of size 1
   are read at position 0 *)
Definition bc_idx (ash idx : list nat) : list nat :=
  map (fun p => if Nat.eqb (fst p) 1 then 0%nat else snd p) (combine ash (skipn (length idx - length ash) idx)).
Definition arrA (ash : list nat) (rows cols : nat) (flat : list Qc) : list nat -> nat -> nat -> Qc :=
  fun idx r c => nth (ravel (ash ++ [rows; cols]) (bc_idx ash idx ++ [r; c]) 0) flat 0.

(* ---- lemmas ----------------------------------------------------------------------- *)

Lemma matrix_pc_control_points_l : forall f A rows idx c,
  kvs (b_matrix_pc f A rows) = kvs f /\ nc (b_matrix_pc f A rows) = rows
  /\ co (b_matrix_pc f A rows) idx c = rdot 0 (map (A idx c) (seq 0 (nc f))) (co f idx).
Proof. intros. repeat split. Qed.

Lemma matrix_pc_value_l : forall f A rows us c,
  g_val (b_matrix_pc f A rows) us c
  = tp_eval (grid_rows (kvs f) us 0 (zerov (sdim f)))
            (fun idx => rdot 0 (map (A idx c) (seq 0 (nc f))) (co f idx)).
Proof. intros. reflexivity. Qed.

Lemma matrix_pc_const_l : forall f A rows us c,
  b_matrix_pc f (fun _ => A) rows = b_matrix f A rows
  /\ g_val (b_matrix_pc f (fun _ => A) rows) us c = rdot 0 (map (A c) (seq 0 (nc f))) (fun k => g_val f us k).
Proof. intros. split; [reflexivity|]. exact (matrix_spec_l f A rows us c). Qed.

(* the result depends on the family only through the matrices of the control points *)
Lemma matrix_pc_ext_l : forall f A B rows us c,
  (forall idx k, A idx c k = B idx c k) ->
  g_val (b_matrix_pc f A rows) us c = g_val (b_matrix_pc f B rows) us c.
Proof.
  intros. rewrite !matrix_pc_value_l. apply tp_eval_ext. intros idx.
  f_equal. apply map_ext. intros k. apply H.
Qed.

Lemma n_matrix_pc_control_points_l : forall f A rows idx c, (c < rows)%nat ->
  kvs (n_matrix_pc f A rows) = kvs f /\ wcomp (n_matrix_pc f A rows) = rows
  /\ co (n_matrix_pc f A rows) idx rows = co f idx (wcomp f)
  /\ co (n_matrix_pc f A rows) idx c
     = rdot 0 (map (A idx c) (seq 0 (wcomp f))) (n_C f idx) * co f idx (wcomp f).
Proof.
  intros f A rows idx c H. unfold n_matrix_pc, mk_nurbs, wcomp, n_W. simpl.
  rewrite Nat.sub_0_r, Nat.ltb_irrefl.
  destruct (Nat.ltb_spec c rows) as [_|?]; [|lia]. repeat split.
Qed.

Lemma n_matrix_pc_const_l : forall f A rows us c,
  (c < rows)%nat -> (forall idx, co f idx (wcomp f) <> 0) -> g_val f us (wcomp f) <> 0 ->
  n_matrix_pc f (fun _ => A) rows = n_matrix f A rows
  /\ n_val (n_matrix_pc f (fun _ => A) rows) us c = rdot 0 (map (A c) (seq 0 (wcomp f))) (fun k => n_val f us k).
Proof. intros. split; [reflexivity|]. exact (n_matrix_spec_l f A rows us c H H0 H1). Qed.

(* the weight function of the result is the weight function of the operand *)
Lemma n_matrix_pc_weight_l : forall f A rows us,
  g_val (n_matrix_pc f A rows) us (wcomp (n_matrix_pc f A rows)) = g_val f us (wcomp f).
Proof.
  intros. unfold g_val, n_matrix_pc, mk_nurbs, wcomp, sdim, n_W. simpl. rewrite Nat.sub_0_r.
  apply tp_eval_ext. intros idx. rewrite Nat.ltb_irrefl. reflexivity.
Qed.

(* a single matrix (A.shape = (rows, cols)) is the constant family; A.shape = ash ++ (rows, cols) with
   ash the control-net shape reads the matrix of control point idx *)
Lemma arrA_single_l : forall rows cols flat idx r c,
  arrA [] rows cols flat idx r c = nth (r * cols + c) flat 0.
Proof. intros. unfold arrA, bc_idx. simpl. reflexivity. Qed.

Lemma bc_idx_full_l : forall ash idx, length idx = length ash ->
  Forall2 (fun n i => (i < n)%nat) ash idx -> bc_idx ash idx = idx.
Proof.
  intros ash idx Hl H. unfold bc_idx. rewrite Hl, Nat.sub_diag. simpl. clear Hl.
  induction H as [|n i ash idx Hi _ IH]; [reflexivity|]. simpl. rewrite IH.
  destruct (Nat.eqb_spec n 1) as [->|_]; [|reflexivity]. f_equal. lia.
Qed.
