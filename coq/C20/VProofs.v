(* C20 -- lemmas about the verified-import protocol (Verify.v). *)
From Coq Require Import List Arith Bool Lia.
From Verif.C20 Require Import Model Proofs Verify.
Import ListNotations.

Lemma vrole_eqb_eq a b : vrole_eqb a b = true <-> a = b.
Proof. destruct a, b; simpl; split; congruence. Qed.

Lemma vpath_eqb_eq x y : vpath_eqb x y = true <-> x = y.
Proof.
  destruct x as [r n|p r|], y as [r' n'|p' r'|]; simpl; try (split; congruence).
  - rewrite andb_true_iff, vrole_eqb_eq, Nat.eqb_eq. split; [intros [-> ->]; auto | intros H; inversion H; auto].
  - rewrite andb_true_iff, vrole_eqb_eq, Nat.eqb_eq. split; [intros [-> ->]; auto | intros H; inversion H; auto].
Qed.

Lemma vupd_same {A} (f : vpath -> A) x v : vupd f x v x = v.
Proof. unfold vupd. destruct (vpath_eqb x x) eqn:E; auto. assert (x = x) by auto. apply vpath_eqb_eq in H. congruence. Qed.

Lemma vupd_other {A} (f : vpath -> A) x v y : y <> x -> vupd f x v y = f y.
Proof. unfold vupd. intros H. destruct (vpath_eqb y x) eqn:E; auto. apply vpath_eqb_eq in E. contradiction. Qed.

Lemma cont_eqb_eq a b : cont_eqb a b = true <-> a = b.
Proof.
  destruct a as [a1 a2], b as [b1 b2]. unfold cont_eqb; simpl.
  rewrite andb_true_iff, !Nat.eqb_eq. split; [intros [-> ->]; auto | intros H; inversion H; auto].
Qed.

Lemma intact_spec ok so : intact ok so = true <-> exists c, ok = VComplete c /\ so = VComplete c.
Proof.
  destruct ok as [|k a|a], so as [|k' b|b]; simpl; try (split; [discriminate | intros (c & H1 & H2); discriminate]).
  rewrite cont_eqb_eq. split.
  - intros ->. eauto.
  - intros (c & H1 & H2). congruence.
Qed.

Ltac vfs := repeat (rewrite vupd_same || (rewrite vupd_other by congruence)).

Lemma vprocs_setproc st p q p' :
  vprocs (vsetproc st p q) p' = if Nat.eqb p' p then Some q else vprocs st p'.
Proof. reflexivity. Qed.

(* ------------------------------------------------------------------------- *)
(* what a step does to the process table; termination                        *)
(* ------------------------------------------------------------------------- *)

Ltac five := split; [|split; [|split; [|split]]].

Lemma vstep_proc_procs orc st p q :
  exists q', vform q' = vform q /\
             (vppc q' = VDone Killed -> vppc q = VDone Killed) /\
             vrank (vppc q') <= vrank (vppc q) /\
             (vis_done (vppc q) = false -> vrank (vppc q') < vrank (vppc q)) /\
             (vprocs st p = Some q ->
              forall p', vprocs (vstep_proc orc st p q) p' = if Nat.eqb p' p then Some q' else vprocs st p').
Proof.
  destruct q as [n c g]. unfold vstep_proc; simpl.
  destruct c as [| | | |r w| | | | |o].
  - eexists; five; try (intros; reflexivity); simpl; try discriminate; try lia; auto.
  - destruct (intact _ _); eexists; five; try (intros; reflexivity); simpl; try discriminate; try lia; auto.
  - destruct (vload orc _); eexists; five; try (intros; reflexivity); simpl; try discriminate; try lia; auto.
  - destruct (vexists _); eexists; five; try (intros; reflexivity); simpl; try discriminate; try lia; auto.
  - unfold vstage, vbegin, vgoto; simpl.
    destruct r, w; simpl;
      repeat match goal with
             | |- context [match vfiles ?s ?x with _ => _ end] => destruct (vfiles s x)
             end;
      eexists; five; try (intros; reflexivity); simpl; try discriminate; try lia; auto.
  - eexists; five; try (intros; reflexivity); simpl; try discriminate; try lia; auto.
  - eexists; five; try (intros; reflexivity); simpl; try discriminate; try lia; auto.
  - eexists; five; try (intros; reflexivity); simpl; try discriminate; try lia; auto.
  - destruct (vload orc _); eexists; five; try (intros; reflexivity); simpl; try discriminate; try lia; auto.
  - exists (mkvproc n (VDone o) g). simpl. repeat split; auto; try discriminate.
    intros H p'. destruct (Nat.eqb p' p) eqn:E; auto. apply Nat.eqb_eq in E. subst. auto.
Qed.

Lemma vstep_keeps_proc orc st l p q :
  vprocs st p = Some q ->
  exists q', vprocs (vstep orc st l) p = Some q' /\ vform q' = vform q /\
             vrank (vppc q') <= vrank (vppc q) /\
             (l = Step p -> vis_done (vppc q) = false -> vrank (vppc q') < vrank (vppc q)) /\
             (vppc q' = VDone Killed -> vppc q = VDone Killed \/ l = Kill p).
Proof.
  intros H. destruct l as [p0 n|p0|p0]; simpl.
  - destruct (vprocs st p0) eqn:E.
    + exists q. repeat split; auto; try discriminate.
    + exists q. rewrite vprocs_setproc. destruct (Nat.eqb p p0) eqn:E2.
      * apply Nat.eqb_eq in E2. subst. congruence.
      * repeat split; auto; try discriminate.
  - destruct (vprocs st p0) as [q0|] eqn:E.
    + destruct (vstep_proc_procs orc st p0 q0) as (q' & Hf & Hk & Hle & Hlt & Hp).
      rewrite (Hp E). destruct (Nat.eqb p p0) eqn:E2.
      * apply Nat.eqb_eq in E2. subst p0. assert (q0 = q) by congruence. subst q0.
        exists q'. repeat split; auto.
      * exists q. repeat split; auto.
        intros HH. inversion HH. subst. rewrite Nat.eqb_refl in E2. discriminate.
    + exists q. repeat split; auto. intros HH. inversion HH. subst. congruence.
  - destruct (vprocs st p0) as [q0|] eqn:E.
    + destruct (vis_done (vppc q0)) eqn:D.
      * exists q. repeat split; auto; try discriminate.
      * unfold vgoto. rewrite vprocs_setproc. destruct (Nat.eqb p p0) eqn:E2.
        -- apply Nat.eqb_eq in E2. subst p0. assert (q0 = q) by congruence. subst q0.
           eexists. split; [reflexivity|]. simpl. repeat split; auto; try lia; try discriminate.
        -- exists q. repeat split; auto; try discriminate.
    + exists q. repeat split; auto; try discriminate.
Qed.

Lemma vrank_zero_done c : vrank c = 0 -> vis_done c = true.
Proof. destruct c as [| | | |r w| | | | |o]; simpl; try discriminate; auto. destruct r, w; simpl; discriminate. Qed.

Lemma vliveness_l orc : forall tr st p q,
  vprocs st p = Some q ->
  vrank (vppc q) <= steps_of p tr ->
  exists q', vprocs (vrun orc tr st) p = Some q' /\ vform q' = vform q /\ vis_done (vppc q') = true.
Proof.
  induction tr as [|l tr IH]; intros st p q H Hc.
  - simpl in *. exists q. repeat split; auto. apply vrank_zero_done. unfold steps_of in Hc; simpl in Hc. lia.
  - simpl. destruct (vstep_keeps_proc orc st l p q H) as (q' & Hq' & Hf & Hle & Hlt & _).
    unfold steps_of in Hc. simpl in Hc.
    destruct (IH _ p q' Hq') as (q'' & A & B & C).
    + unfold steps_of. destruct (is_step_of p l) eqn:E; simpl in Hc; [|lia].
      destruct l as [p0 n|p0|p0]; simpl in E; try discriminate. apply Nat.eqb_eq in E. subst p0.
      destruct (vis_done (vppc q)) eqn:D.
      * assert (vrank (vppc q) = 0) by (destruct (vppc q); simpl in *; try discriminate; auto). lia.
      * specialize (Hlt eq_refl eq_refl). lia.
    + exists q''. repeat split; auto. congruence.
Qed.

Lemma vkilled_only_by_kill_l orc : forall tr st p q,
  vprocs st p = Some q -> vppc q <> VDone Killed -> ~ In (Kill p) tr ->
  forall q', vprocs (vrun orc tr st) p = Some q' -> vppc q' <> VDone Killed.
Proof.
  induction tr as [|l tr IH]; simpl; intros st p q HP HK HN q' H.
  - congruence.
  - destruct (vstep_keeps_proc orc st l p q HP) as (q1 & Hq1 & _ & _ & _ & Hk).
    apply (IH _ p q1 Hq1); auto.
    intros HH. destruct (Hk HH) as [A|A]; [contradiction|]. apply HN. left. auto.
Qed.

(* ------------------------------------------------------------------------- *)
(* the invariant                                                             *)
(* ------------------------------------------------------------------------- *)

(* the final .so of form n is a finished artefact (of whichever builder) *)
Definition published (st : vstate) (n : form) : Prop := exists c, vfiles st (VFinal RSo n) = VComplete c.

Definition vproc_inv (st : vstate) (p : pid) (q : vproc) : Prop :=
  let n := vform q in
  let me := VComplete (n, p) in
  let T r := vfiles st (VTmp p r) in
  match vppc q with
  | VMkdir | VVerify | VMkdtemp => True
  | VImport => published st n                 (* dlopen is only reached on an entry that verify found intact *)
  | VWrite r W0 => match vinput r with None => True | Some i => T i = me end
  | VWrite ROk _ => vreg q = (n, p) /\ T RSo = me
  | VWrite _ _ => vreg q = (n, p)
  | VReplaceSo => T RSo = me /\ T ROk = me
  | VReplaceOk => T ROk = me /\ published st n
  | VCleanup | VReimport => published st n
  | VDone o => o = Ok n \/ o = Killed
  end.

Definition vdir_inv (st : vstate) (c : vpc) : Prop :=
  match c with
  | VMkdir | VDone _ => True
  | _ => vfiles st VCacheDir = VComplete (0, 0)
  end.

Record VInv (st : vstate) : Prop := {
  vinv_dir : forall p q, vprocs st p = Some q -> vdir_inv st (vppc q);
  (* the content of a finished entry is determined by its name *)
  vinv_named : forall n c, vfiles st (VFinal RSo n) = VComplete c -> fst c = n;
  vinv_procs : forall p q, vprocs st p = Some q -> vproc_inv st p q }.

Lemma vinv_init : VInv vinit.
Proof. split; simpl; intros; discriminate. Qed.

Section Ver.
Variable orc : oracle.

(* what a step of p touches: its private files, the cache directory (created), and the two final
   names of its own form -- where the .so only ever becomes p's finished artefact *)
Lemma vstep_proc_frame st p q :
  vproc_inv st p q ->
  let st' := vstep_proc orc st p q in
  (forall p' r, p' <> p -> vfiles st' (VTmp p' r) = vfiles st (VTmp p' r)) /\
  (forall n, vfiles st' (VFinal RSo n) = vfiles st (VFinal RSo n) \/
             (n = vform q /\ vfiles st' (VFinal RSo n) = VComplete (n, p))) /\
  (forall r n, r <> RSo -> r <> ROk -> vfiles st' (VFinal r n) = vfiles st (VFinal r n)) /\
  (forall r n, n <> vform q -> vfiles st' (VFinal r n) = vfiles st (VFinal r n)) /\
  (vfiles st VCacheDir = VComplete (0, 0) -> vfiles st' VCacheDir = VComplete (0, 0)).
Proof.
  destruct q as [n c g]. unfold vproc_inv, vstep_proc; simpl. intros HI.
  destruct c as [| | | |r w| | | | |o].
  - simpl. five; intros; auto; vfs; auto.
  - destruct (intact _ _); simpl; five; auto.
  - destruct (vload orc _); simpl; five; auto.
  - destruct (vexists _); simpl; five; auto.
  - unfold vstage, vbegin, vgoto; simpl.
    destruct r, w; simpl;
      repeat match goal with
             | |- context [match vfiles ?s ?x with _ => _ end] => destruct (vfiles s x)
             end; simpl; five; intros; auto; vfs; auto.
  - destruct HI as [HS HO]. simpl. five; intros; vfs; auto.
    destruct (Nat.eq_dec n0 n).
    + subst n0. right. split; auto. vfs. auto.
    + left. vfs. auto.
  - simpl. five; intros; vfs; auto.
  - simpl. five; intros; auto.
    destruct (Nat.eqb p' p) eqn:E; auto. apply Nat.eqb_eq in E. contradiction.
  - destruct (vload orc _); simpl; five; auto.
  - simpl; five; auto.
Qed.

Lemma published_frame st st' n :
  (vfiles st' (VFinal RSo n) = vfiles st (VFinal RSo n) \/ exists c, vfiles st' (VFinal RSo n) = VComplete c) ->
  published st n -> published st' n.
Proof. unfold published. intros [E|H]; [rewrite E|]; auto. Qed.

Lemma vproc_inv_frame st st' p q :
  (forall r, vfiles st' (VTmp p r) = vfiles st (VTmp p r)) ->
  (published st (vform q) -> published st' (vform q)) ->
  vproc_inv st p q -> vproc_inv st' p q.
Proof.
  intros HT HF. unfold vproc_inv.
  destruct (vppc q) as [| | | |r w| | | | |o]; auto.
  - destruct r, w; simpl; rewrite ?HT; auto.
  - rewrite !HT. auto.
  - rewrite !HT. intros [A B]; auto.
Qed.

Lemma vload_complete c : vload orc (VComplete c) = LOk (fst c).
Proof. reflexivity. Qed.

Lemma vstep_proc_own st p q :
  vprocs st p = Some q ->
  (forall c, vfiles st (VFinal RSo (vform q)) = VComplete c -> fst c = vform q) ->
  vproc_inv st p q ->
  vdir_inv st (vppc q) ->
  forall q', vprocs (vstep_proc orc st p q) p = Some q' ->
  vproc_inv (vstep_proc orc st p q) p q' /\ vdir_inv (vstep_proc orc st p q) (vppc q').
Proof.
  destruct q as [n c g]. unfold vstep_proc; simpl. intros HP HN HI HD q'.
  destruct c as [| | | |r w| | | | |o].
  - unfold vgoto, vsetproc; simpl; rewrite Nat.eqb_refl. intros H; inversion H; subst; clear H.
    unfold vproc_inv; simpl. split; auto.
  - simpl in HD. destruct (intact _ _) eqn:EI;
      unfold vgoto, vsetproc; simpl; rewrite Nat.eqb_refl; intros H; inversion H; subst; clear H;
      unfold vproc_inv; simpl; split; auto.
    apply intact_spec in EI. destruct EI as (c & _ & E). exists c. auto.
  - simpl in HD. unfold vproc_inv in HI; simpl in HI. destruct HI as (c & E). rewrite E, vload_complete.
    unfold vgoto, vsetproc; simpl; rewrite Nat.eqb_refl. intros H; inversion H; subst; clear H.
    unfold vproc_inv; simpl. split; auto; left; f_equal; apply HN; auto.
  - simpl in HD. rewrite HD. simpl.
    unfold vgoto, vsetproc; simpl; rewrite Nat.eqb_refl. intros H; inversion H; subst; clear H.
    unfold vproc_inv; simpl. split; auto.
  - assert (HD' : vfiles st VCacheDir = VComplete (0, 0)) by (destruct r, w; exact HD). clear HD.
    unfold vproc_inv in HI; simpl in HI.
    destruct r, w; unfold vstage, vbegin, vgoto; simpl; simpl in HI;
      repeat match goal with
             | H : _ /\ _ |- _ => destruct H
             end;
      repeat match goal with
             | H : vfiles st ?x = _ |- context [vfiles st ?x] => rewrite H
             end;
      unfold vsetproc; simpl; rewrite Nat.eqb_refl; intros H'; inversion H'; subst; clear H';
      unfold vproc_inv; simpl; vfs; auto.
  - simpl in HD. unfold vproc_inv in HI; simpl in HI. destruct HI as [HS HO].
    unfold vgoto, vsetproc; simpl; rewrite Nat.eqb_refl. intros H; inversion H; subst; clear H.
    unfold vproc_inv, published; simpl. vfs. split; [split; auto; eauto | auto].
  - simpl in HD. unfold vproc_inv in HI; simpl in HI. destruct HI as [HO (c & E)].
    unfold vgoto, vsetproc; simpl; rewrite Nat.eqb_refl. intros H; inversion H; subst; clear H.
    unfold vproc_inv, published; simpl. vfs. split; eauto.
  - simpl in HD. unfold vproc_inv in HI; simpl in HI.
    unfold vgoto, vsetproc; simpl; rewrite Nat.eqb_refl. intros H; inversion H; subst; clear H.
    unfold vproc_inv; simpl. split; auto.
  - simpl in HD. unfold vproc_inv in HI; simpl in HI. destruct HI as (c & E). rewrite E, vload_complete.
    unfold vgoto, vsetproc; simpl; rewrite Nat.eqb_refl. intros H; inversion H; subst; clear H.
    unfold vproc_inv; simpl. split; auto; left; f_equal; apply HN; auto.
  - intros H. unfold vproc_inv in *; simpl in *.
    assert (q' = mkvproc n (VDone o) g) by congruence. subst q'. simpl. auto.
Qed.

Lemma vinv_step st l : VInv st -> VInv (vstep orc st l).
Proof.
  intros [I0 I1 I3]. destruct l as [p n|p|p]; simpl.
  - destruct (vprocs st p) eqn:E; [split; auto|].
    split; simpl; auto.
    + intros p' q H. destruct (Nat.eqb p' p) eqn:E2.
      * inversion H; subst. simpl. auto.
      * apply (I0 _ _ H).
    + intros p' q H. destruct (Nat.eqb p' p) eqn:E2.
      * inversion H; subst. unfold vproc_inv; simpl. auto.
      * apply (I3 _ _ H).
  - destruct (vprocs st p) as [q|] eqn:E; [|split; auto].
    pose proof (I3 _ _ E) as Hq. pose proof (I0 _ _ E) as Hd.
    destruct (vstep_proc_frame st p q Hq) as (F1 & F2 & F3 & F5 & F4).
    destruct (vstep_proc_procs orc st p q) as (q' & Hf & _ & _ & _ & Hp). specialize (Hp E).
    assert (Hown : vproc_inv (vstep_proc orc st p q) p q' /\ vdir_inv (vstep_proc orc st p q) (vppc q')).
    { apply vstep_proc_own; auto. rewrite Hp, Nat.eqb_refl. auto. }
    split.
    + intros p' q0 H. rewrite Hp in H. destruct (Nat.eqb p' p) eqn:E2.
      * inversion H; subst. apply Hown.
      * pose proof (I0 _ _ H) as H0. unfold vdir_inv in *.
        destruct (vppc q0) as [| | | |r w| | | | |o]; auto.
    + intros n c H. destruct (F2 n) as [F|[F F']].
      * rewrite F in H. auto.
      * rewrite F' in H. inversion H. auto.
    + intros p' q0 H. rewrite Hp in H. destruct (Nat.eqb p' p) eqn:E2.
      * apply Nat.eqb_eq in E2. subst p'. inversion H; subst. apply Hown.
      * apply Nat.eqb_neq in E2.
        apply vproc_inv_frame with (st := st);
          [intros r; apply F1; auto
          |apply published_frame; destruct (F2 (vform q0)) as [F|[_ F]]; eauto
          |apply (I3 _ _ H)].
  - destruct (vprocs st p) as [q|] eqn:E; [|split; auto].
    destruct (vis_done (vppc q)); [split; auto|].
    split; simpl; auto.
    + intros p' q0 H. destruct (Nat.eqb p' p) eqn:E2.
      * inversion H; subst. simpl. auto.
      * apply (I0 _ _ H).
    + intros p' q0 H. destruct (Nat.eqb p' p) eqn:E2.
      * inversion H; subst. unfold vproc_inv; simpl. auto.
      * apply (I3 _ _ H).
Qed.

Lemma vinv_run tr : forall st, VInv st -> VInv (vrun orc tr st).
Proof. induction tr; simpl; intros; auto. apply IHtr. apply vinv_step. auto. Qed.

(* ---- race safety, no interpreter death ---- *)
Lemma vrace_safety_l st tr p q o :
  VInv st -> vprocs (vrun orc tr st) p = Some q -> vppc q = VDone o -> o = Ok (vform q) \/ o = Killed.
Proof.
  intros HI HP HD. pose proof (vinv_procs _ (vinv_run tr st HI) _ _ HP) as H.
  unfold vproc_inv in H. rewrite HD in H. auto.
Qed.

(* ---- completed entries ---- *)
Lemma vstep_final_so st l n :
  VInv st -> vfiles (vstep orc st l) (VFinal RSo n) = vfiles st (VFinal RSo n) \/
             exists b, vfiles (vstep orc st l) (VFinal RSo n) = VComplete (n, b).
Proof.
  intros HI. destruct l as [p m|p|p]; simpl.
  - destruct (vprocs st p); simpl; auto.
  - destruct (vprocs st p) as [q|] eqn:E; auto.
    destruct (vstep_proc_frame st p q (vinv_procs _ HI _ _ E)) as (_ & F2 & _).
    destruct (F2 n) as [->|[_ ->]]; eauto.
  - destruct (vprocs st p) as [q|]; auto. destruct (vis_done (vppc q)); simpl; auto.
Qed.

Lemma vcompleted_stays_run_l tr : forall st n c,
  VInv st -> vfiles st (VFinal RSo n) = VComplete c ->
  exists b, vfiles (vrun orc tr st) (VFinal RSo n) = VComplete (fst c, b).
Proof.
  induction tr as [|l tr IH]; simpl; intros st n c HI H.
  - exists (snd c). rewrite H. destruct c; reflexivity.
  - pose proof (vinv_named _ HI _ _ H) as Hn.
    destruct (vstep_final_so st l n HI) as [E|(b & E)].
    + apply IH; [apply vinv_step; auto | congruence].
    + destruct (IH (vstep orc st l) n (n, b) (vinv_step st l HI) E) as (b' & E'). simpl in E'.
      exists b'. rewrite Hn. auto.
Qed.

(* nothing but the finished .so and its stamp is ever written under a final name *)
Lemma vno_inplace_writes_l tr : forall st r n,
  VInv st -> r <> RSo -> r <> ROk -> vfiles (vrun orc tr st) (VFinal r n) = vfiles st (VFinal r n).
Proof.
  induction tr as [|l tr IH]; simpl; intros st r n HI Hr Hr'; auto.
  rewrite IH by (auto; apply vinv_step; auto).
  destruct l as [p m|p|p]; simpl.
  - destruct (vprocs st p); simpl; auto.
  - destruct (vprocs st p) as [q|] eqn:E; auto.
    destruct (vstep_proc_frame st p q (vinv_procs _ HI _ _ E)) as (_ & _ & F3 & _). auto.
  - destruct (vprocs st p) as [q|]; auto. destruct (vis_done (vppc q)); simpl; auto.
Qed.

(* ---- recovery ---- *)
Lemma vsolo_is_run fuel : forall st p, vsolo orc fuel st p = vrun orc (repeat (Step p) fuel) st.
Proof. induction fuel; simpl; intros; auto. Qed.

Lemma vrecovery_l st p n :
  VInv st -> vprocs st p = None ->
  voutcome_of (vsolo orc VFUEL (vstep orc st (Spawn p n)) p) p = Some (Ok n).
Proof.
  intros HI HN.
  assert (HIs : VInv (vstep orc st (Spawn p n))) by (apply vinv_step; auto).
  assert (HP : vprocs (vstep orc st (Spawn p n)) p = Some (mkvproc n VMkdir (n, p))).
  { simpl. rewrite HN. rewrite vprocs_setproc, Nat.eqb_refl. auto. }
  set (st1 := vstep orc st (Spawn p n)) in *.
  rewrite vsolo_is_run.
  destruct (vliveness_l orc (repeat (Step p) VFUEL) st1 p _ HP) as (q' & A & B & C).
  { rewrite steps_of_repeat. simpl. unfold VFUEL. lia. }
  unfold voutcome_of. rewrite A. destruct (vppc q') as [| | | |r w| | | | |o] eqn:E; try discriminate.
  destruct (vrace_safety_l st1 _ p q' o HIs A E) as [->| ->].
  - simpl in B. rewrite B. auto.
  - exfalso. eapply (vkilled_only_by_kill_l orc (repeat (Step p) VFUEL) st1 p _ HP); eauto.
    + simpl. discriminate.
    + apply not_in_repeat.
Qed.

(* ------------------------------------------------------------------------- *)
(* faults: EVERY external damage keeps the invariant (no class is excluded)  *)
(* ------------------------------------------------------------------------- *)

Definition vquiescent (st : vstate) : Prop :=
  forall p q, vprocs st p = Some q -> vis_done (vppc q) = true.

Inductive vfault :=
| VFDmg (r : vrole) (k : option sizeclass)     (* every file of the role *)
| VFOne (x : vpath) (k : option sizeclass)     (* one single file *)
| VFClear.                                     (* clear-cache.py *)

Definition vapply_fault (st : vstate) (f : vfault) : vstate :=
  match f with VFDmg r k => vdamage_all st r k | VFOne x k => vdamage_one st x k | VFClear => vclear_cache st end.

Lemma vdamage_complete k f c : vdamage k f = VComplete c -> f = VComplete c.
Proof. destruct k, f; simpl; congruence. Qed.

Lemma vquiescent_keeps st st' :
  vprocs st' = vprocs st -> vquiescent st ->
  (forall p q, vprocs st p = Some q -> vproc_inv st p q) ->
  (forall p q, vprocs st' p = Some q -> vdir_inv st' (vppc q)) /\
  (forall p q, vprocs st' p = Some q -> vproc_inv st' p q).
Proof.
  intros HE HQ HI. rewrite HE. split; intros p q HP; specialize (HQ _ _ HP).
  - destruct (vppc q); try discriminate. exact I.
  - specialize (HI _ _ HP). unfold vproc_inv in *. destruct (vppc q); try discriminate. exact HI.
Qed.

Lemma vfault_preserves_inv st f : VInv st -> vquiescent st -> VInv (vapply_fault st f).
Proof.
  intros [I0 I1 I3] HQ.
  destruct (vquiescent_keeps st (vapply_fault st f)) as [A B]; auto.
  { destruct f; reflexivity. }
  split; auto.
  intros n c. destruct f as [r k|x k|]; unfold vapply_fault, vdamage_all, vdamage_one, vclear_cache; cbn [vfiles].
  - destruct r; simpl; auto. intros H. apply vdamage_complete in H. auto.
  - destruct (vpath_eqb (VFinal RSo n) x) eqn:E; auto. apply vpath_eqb_eq in E. subst x.
    intros H. apply vdamage_complete in H. auto.
  - discriminate.
Qed.

Inductive vhitem := VHRun (tr : list label) | VHFault (f : vfault).

Inductive vhist : vstate -> list vhitem -> vstate -> Prop :=
| vh_nil : forall st, vhist st [] st
| vh_run : forall st tr h st', vhist (vrun orc tr st) h st' -> vhist st (VHRun tr :: h) st'
| vh_fault : forall st f h st', vquiescent st ->
             vhist (vapply_fault st f) h st' -> vhist st (VHFault f :: h) st'.

Lemma vinv_hist h : forall st st', VInv st -> vhist st h st' -> VInv st'.
Proof.
  induction h as [|i h IH]; intros st st' HI HH.
  - inversion HH; subst; auto.
  - inversion HH as [|s0 tr h0 s1 HR|s0 f h0 s1 HQ HR]; subst.
    + apply (IH _ _ (vinv_run tr st HI) HR).
    + apply (IH _ _ (vfault_preserves_inv st f HI HQ) HR).
Qed.

Lemma vrecovery_after_faults_l h st p n :
  vhist vinit h st -> vprocs st p = None ->
  voutcome_of (vsolo orc VFUEL (vstep orc st (Spawn p n)) p) p = Some (Ok n).
Proof. intros HH HN. apply vrecovery_l; auto. apply (vinv_hist h vinit st vinv_init HH). Qed.

Lemma vrace_safety_faults_l h st p q o :
  vhist vinit h st -> vprocs st p = Some q -> vppc q = VDone o -> o = Ok (vform q) \/ o = Killed.
Proof.
  intros HH HP HD. apply (vrace_safety_l st [] p q o); auto.
  apply (vinv_hist h vinit st vinv_init HH).
Qed.

Lemma vno_death_l h st p :
  vhist vinit h st -> voutcome_of st p <> Some Death /\ voutcome_of st p <> Some Exn.
Proof.
  intros HH. unfold voutcome_of. destruct (vprocs st p) as [q|] eqn:E; [|split; discriminate].
  destruct (vppc q) as [| | | |r w| | | | |o] eqn:E2; try (split; discriminate).
  destruct (vrace_safety_faults_l h st p q o HH E E2) as [->| ->]; split; discriminate.
Qed.

(* every directory whatsoever in which finished entries are named correctly *)
Definition vsettled (st : vstate) : Prop :=
  forall p q, vprocs st p = Some q -> vppc q = VDone Killed \/ vppc q = VDone (Ok (vform q)).

Lemma vinv_of_directory st :
  vsettled st -> (forall n c, vfiles st (VFinal RSo n) = VComplete c -> fst c = n) -> VInv st.
Proof.
  intros HS HF. split; auto.
  - intros p q HP. destruct (HS _ _ HP) as [-> | ->]; exact I.
  - intros p q HP. unfold vproc_inv. destruct (HS _ _ HP) as [-> | ->]; auto.
Qed.

Lemma vrecovery_every_directory_l st p n :
  vsettled st -> (forall n c, vfiles st (VFinal RSo n) = VComplete c -> fst c = n) ->
  vprocs st p = None ->
  voutcome_of (vsolo orc VFUEL (vstep orc st (Spawn p n)) p) p = Some (Ok n).
Proof. intros HS HF HN. apply vrecovery_l; auto. apply vinv_of_directory; auto. Qed.

(* ---- a cache hit is a hit: an intact entry is imported, nothing is built or written ---- *)
Lemma vsolo_done fuel : forall st p q o,
  vprocs st p = Some q -> vppc q = VDone o -> vsolo orc fuel st p = st.
Proof.
  induction fuel; simpl; intros st p q o HP HD; auto.
  rewrite HP. unfold vstep_proc. rewrite HD. eapply IHfuel; eauto.
Qed.

Lemma vsolo_S f st p : vsolo orc (S f) st p = vsolo orc f (vstep orc st (Step p)) p.
Proof. reflexivity. Qed.

Lemma vcache_hit_l st p n c :
  vprocs st p = None ->
  vfiles st (VFinal ROk n) = VComplete c -> vfiles st (VFinal RSo n) = VComplete c ->
  let st' := vsolo orc VFUEL (vstep orc st (Spawn p n)) p in
  voutcome_of st' p = Some (Ok (fst c)) /\
  (forall x, x <> VCacheDir -> vfiles st' x = vfiles st x).
Proof.
  intros HN HO HS.
  set (q0 := mkvproc n VMkdir (n, p)).
  set (st1 := vsetproc st p q0).
  assert (E1 : vstep orc st (Spawn p n) = st1) by (unfold vstep; rewrite HN; reflexivity).
  assert (H1 : vprocs st1 p = Some q0) by (unfold st1; rewrite vprocs_setproc, Nat.eqb_refl; reflexivity).
  set (st2 := vgoto (vwrite st1 VCacheDir (VComplete (0, 0))) p q0 VVerify).
  assert (E2 : vstep orc st1 (Step p) = st2) by (unfold vstep; rewrite H1; reflexivity).
  assert (H2 : vprocs st2 p = Some (mkvproc n VVerify (n, p))).
  { unfold st2, vgoto. rewrite vprocs_setproc, Nat.eqb_refl. reflexivity. }
  assert (F2 : forall x, x <> VCacheDir -> vfiles st2 x = vfiles st x).
  { intros x Hx. unfold st2, vgoto, vwrite, vsetproc; simpl. rewrite vupd_other by auto. reflexivity. }
  set (st3 := vgoto st2 p (mkvproc n VVerify (n, p)) VImport).
  assert (E3 : vstep orc st2 (Step p) = st3).
  { unfold vstep. rewrite H2. unfold vstep_proc. simpl vppc. simpl vform. cbv beta iota.
    rewrite !F2 by congruence. rewrite HO, HS. simpl.
    assert (cont_eqb c c = true) by (apply cont_eqb_eq; auto). rewrite H. reflexivity. }
  assert (H3 : vprocs st3 p = Some (mkvproc n VImport (n, p))).
  { unfold st3, vgoto. rewrite vprocs_setproc, Nat.eqb_refl. reflexivity. }
  set (st4 := vgoto st3 p (mkvproc n VImport (n, p)) (VDone (Ok (fst c)))).
  assert (E4 : vstep orc st3 (Step p) = st4).
  { unfold vstep. rewrite H3. unfold vstep_proc. simpl vppc. simpl vform. cbv beta iota.
    change (vfiles st3 (VFinal RSo n)) with (vfiles st2 (VFinal RSo n)).
    rewrite F2 by congruence. rewrite HS. reflexivity. }
  assert (H4 : vprocs st4 p = Some (mkvproc n (VDone (Ok (fst c))) (n, p))).
  { unfold st4, vgoto. rewrite vprocs_setproc, Nat.eqb_refl. reflexivity. }
  cbv zeta. rewrite E1. change VFUEL with (S (S (S 31))).
  rewrite vsolo_S, E2. rewrite vsolo_S, E3. rewrite vsolo_S, E4.
  rewrite (vsolo_done 31 st4 p _ _ H4 eq_refl).
  split.
  - unfold voutcome_of. rewrite H4. reflexivity.
  - intros x Hx. change (vfiles st4 x) with (vfiles st2 x). auto.
Qed.
End Ver.
