(* C03 -- lemmas, part 8: entry semantics of the sparse Kronecker product kron2. *)
From Coq Require Import List Arith Bool Lia NArith Ring.
From Verif.C03 Require Import Model Proofs Proofs3 Proofs5 Proofs6.
Import ListNotations.

Section Kron.
Variable R : Type.
Variables (r0 r1 : R) (radd rmul rsub : R -> R -> R) (ropp : R -> R).
Hypothesis Rth : ring_theory r0 r1 radd rmul rsub ropp eq.
Add Ring Rring8 : Rth.

Notation svec := (svec R).
Notation get := (sv_get R r0).
Notation keys := (keys R).

Lemma get_app_in : forall (s t : svec) k, In k (keys s) -> get (s ++ t) k = get s k.
Proof.
  induction s as [|[k' v] s IH]; intros t k H; simpl in H; [destruct H|].
  simpl. rewrite !(get_cons R r0). destruct (N.eqb k k') eqn:E; auto.
  apply IH. destruct H as [H|H]; auto. subst. rewrite N.eqb_refl in E. discriminate.
Qed.

(* one block of a Kronecker row: entry a of A times the row rb of B, columns shifted by c * mB *)
Definition block (mB : N) (ea : N * R) (rb : svec) : svec :=
  map (fun eb => ((fst ea * mB + fst eb)%N, rmul (snd ea) (snd eb))) rb.

Lemma block_get : forall mB ea rb j2, get (block mB ea rb) (fst ea * mB + j2)%N = rmul (snd ea) (get rb j2).
Proof.
  intros mB ea rb j2. induction rb as [|[k v] rb IH]; simpl.
  - unfold sv_get. simpl. ring.
  - rewrite !(get_cons R r0). simpl fst. simpl snd.
    destruct (N.eqb j2 k) eqn:E.
    + apply N.eqb_eq in E. subst. rewrite N.eqb_refl. reflexivity.
    + replace (N.eqb (fst ea * mB + j2) (fst ea * mB + k)) with false; auto.
      symmetry. apply N.eqb_neq. apply N.eqb_neq in E. lia.
Qed.

Lemma block_keys : forall mB ea rb k, In k (keys (block mB ea rb)) -> exists x, In x (keys rb) /\ k = (fst ea * mB + x)%N.
Proof.
  intros mB ea rb k H. unfold block, Proofs5.keys in H. rewrite map_map in H. simpl in H.
  apply in_map_iff in H. destruct H as [eb [<- He]]. exists (fst eb). split; auto. apply in_map; auto.
Qed.

Lemma euclid_unique : forall (m a b x y : N), (x < m)%N -> (y < m)%N -> (a * m + x = b * m + y)%N -> a = b /\ x = y.
Proof.
  intros m a b x y Hx Hy H.
  assert (Ha : ((a * m + x) / m = a)%N) by (rewrite N.div_add_l by lia; rewrite N.div_small by lia; lia).
  assert (Hb : ((b * m + y) / m = b)%N) by (rewrite N.div_add_l by lia; rewrite N.div_small by lia; lia).
  rewrite H in Ha. rewrite Hb in Ha. subst. split; auto. lia.
Qed.

(* a row of the Kronecker product: entry (j1 * mB + j2) = ra[j1] * rb[j2] *)
Lemma kron_row_get : forall mB (rb : svec) j1 j2, (j2 < mB)%N -> (forall x, In x (keys rb) -> (x < mB)%N) ->
  forall ra : svec,
  get (flat_map (fun ea => block mB ea rb) ra) (j1 * mB + j2)%N = rmul (get ra j1) (get rb j2).
Proof.
  intros mB rb j1 j2 Hj Hrb. induction ra as [|[ka va] ra IH]; simpl.
  - unfold sv_get. simpl. ring.
  - rewrite (get_cons R r0 ka va). destruct (N.eqb j1 ka) eqn:E.
    + apply N.eqb_eq in E. subst ka.
      destruct (in_dec N.eq_dec j2 (keys rb)) as [Hin|Hnin].
      * rewrite get_app_in.
        -- exact (block_get mB (j1, va) rb j2).
        -- unfold block, Proofs5.keys. rewrite map_map. simpl.
           apply in_map_iff in Hin. destruct Hin as [eb [<- He]]. apply in_map_iff. exists eb. auto.
      * rewrite (get_app_l R r0).
        -- rewrite IH. rewrite (get_absent_keys R r0 rb j2 Hnin). ring.
        -- intros Hk. apply block_keys in Hk. destruct Hk as [x [Hx Hk]]. simpl in Hk.
           apply Hnin. replace j2 with x; auto. lia.
    + rewrite (get_app_l R r0); auto.
      intros Hk. apply block_keys in Hk. destruct Hk as [x [Hx Hk]]. simpl in Hk.
      destruct (euclid_unique mB j1 ka j2 x Hj (Hrb x Hx) Hk) as [H1 _]. subst. rewrite N.eqb_refl in E. discriminate.
Qed.

Lemma nth_flat_map_blocks : forall (A B C : Type) (g : A -> B -> C) (lb : list B) (la : list A) i1 i2 dA dB dC,
  i1 < length la -> i2 < length lb ->
  nth (i1 * length lb + i2) (flat_map (fun a => map (g a) lb) la) dC = g (nth i1 la dA) (nth i2 lb dB).
Proof.
  intros A B C g lb. induction la as [|a la IH]; intros i1 i2 dA dB dC H1 H2; simpl in H1; [lia|].
  simpl. destruct i1 as [|i1].
  - simpl. rewrite app_nth1 by (rewrite map_length; auto).
    rewrite (nth_indep _ dC (g a dB)) by (rewrite map_length; auto). apply map_nth.
  - replace (S i1 * length lb + i2) with (length (map (g a) lb) + (i1 * length lb + i2)) by (rewrite map_length; simpl; lia).
    rewrite app_nth2_plus. apply IH; auto. lia.
Qed.

(* scipy.sparse.kron(A, B): entry (i1 * nB + i2, j1 * mB + j2) = A[i1, j1] * B[i2, j2], for all sparse matrices
   (rows in any order, duplicates allowed) with the columns of B below mB *)
Lemma kron2_entry_l : forall (A B : smat R) mB i1 i2 j1 j2,
  i1 < length A -> i2 < length B -> (j2 < mB)%N ->
  (forall rb x, In rb B -> In x (keys rb) -> (x < mB)%N) ->
  sm_get R r0 (kron2 R rmul A B mB) (N.of_nat (i1 * length B + i2)) (j1 * mB + j2)%N
  = rmul (sm_get R r0 A (N.of_nat i1) j1) (sm_get R r0 B (N.of_nat i2) j2).
Proof.
  intros A B mB i1 i2 j1 j2 H1 H2 Hj HB. unfold sm_get, sm_row. rewrite !Nnat.Nat2N.id.
  match goal with |- sv_get R r0 ?X _ = _ =>
    replace X with (flat_map (fun ea => block mB ea (nth i2 B [])) (nth i1 A [])) end.
  - apply (kron_row_get mB (nth i2 B []) j1 j2 Hj).
    intros x Hx. apply (HB (nth i2 B [])); auto. apply nth_In; auto.
  - symmetry.
    exact (nth_flat_map_blocks _ _ _ (fun (ra rb : svec) => flat_map (fun ea => block mB ea rb) ra) B A i1 i2 [] [] [] H1 H2).
Qed.

End Kron.
