(* C01 -- lemmas about the layout functions and the quadrature-loop structure. *)
From Coq Require Import List Arith Bool Lia ZArith QArith.
From Verif.C01 Require Import Model.
Import ListNotations.
Close Scope Q_scope. Open Scope nat_scope.

(* ------------------------------------------------------------------------- *)
(* sym_index_to_seq                                                             *)
(* ------------------------------------------------------------------------- *)

Lemma diag_start_mono n i i' : i <= i' -> diag_start n i <= diag_start n i'.
Proof. induction 1; simpl; lia. Qed.

Lemma diag_start_closed n i : i <= n -> 2 * diag_start n i + i * i = 2 * i * n + i.
Proof.
  induction i; intros H; simpl diag_start; [lia|].
  assert (IH := IHi ltac:(lia)).
  remember (n - i) as m. assert (m + i = n) by lia. subst n. nia.
Qed.

Lemma diag_total n : diag_start n n = n * (n + 1) / 2.
Proof.
  assert (H := diag_start_closed n n (le_n n)).
  replace (n * (n + 1)) with (diag_start n n * 2) by nia.
  now rewrite Nat.div_mul.
Qed.

Lemma sym_symmetric n i j : sym_index_to_seq n i j = sym_index_to_seq n j i.
Proof.
  unfold sym_index_to_seq.
  destruct (Nat.ltb_spec j i) as [A|A]; destruct (Nat.ltb_spec i j) as [B|B]; try lia; try reflexivity.
  assert (i = j) by lia. subst. reflexivity.
Qed.

Lemma sym_upper n i j : i <= j -> sym_index_to_seq n i j = diag_start n i + (j - i).
Proof.
  intros H. unfold sym_index_to_seq.
  destruct (Nat.ltb_spec j i) as [A|A]; [lia | reflexivity].
Qed.

Lemma sym_row_bounds n i j : i <= j -> j < n ->
  diag_start n i <= sym_index_to_seq n i j /\ sym_index_to_seq n i j < diag_start n (S i).
Proof. intros. rewrite sym_upper by assumption. simpl. lia. Qed.

Lemma sym_range_l n i j : i <= j -> j < n -> sym_index_to_seq n i j < n * (n + 1) / 2.
Proof.
  intros H1 H2. rewrite <- diag_total.
  destruct (sym_row_bounds n i j H1 H2) as [_ B].
  assert (diag_start n (S i) <= diag_start n n) by (apply diag_start_mono; lia). lia.
Qed.

Lemma sym_inj_l n i j i' j' : i <= j -> j < n -> i' <= j' -> j' < n ->
  sym_index_to_seq n i j = sym_index_to_seq n i' j' -> i = i' /\ j = j'.
Proof.
  intros H1 H2 H3 H4 E.
  destruct (sym_row_bounds n i j H1 H2) as [A1 A2].
  destruct (sym_row_bounds n i' j' H3 H4) as [B1 B2].
  destruct (lt_eq_lt_dec i i') as [[L|L]|L].
  - assert (diag_start n (S i) <= diag_start n i') by (apply diag_start_mono; lia). lia.
  - subst i'. rewrite !sym_upper in E by assumption. lia.
  - assert (diag_start n (S i') <= diag_start n i) by (apply diag_start_mono; lia). lia.
Qed.

Lemma sym_surj_aux n s : forall m, m <= n -> s < diag_start n m ->
  exists i j, i <= j /\ j < n /\ sym_index_to_seq n i j = s.
Proof.
  induction m; intros Hm Hs; simpl in Hs; [lia|].
  destruct (lt_dec s (diag_start n m)) as [L|L].
  - apply IHm; [lia | assumption].
  - exists m, (m + (s - diag_start n m)). repeat split; try lia.
    rewrite sym_upper by lia. lia.
Qed.

Lemma sym_surj_l n s : s < n * (n + 1) / 2 ->
  exists i j, i <= j /\ j < n /\ sym_index_to_seq n i j = s.
Proof. rewrite <- diag_total. apply sym_surj_aux. lia. Qed.

(* gen_assign writes exactly the upper triangle when symmetric *)
Lemma assigned_entries_spec m n sym i j :
  In (i, j) (assigned_entries m n sym) <-> i < m /\ j < n /\ (sym = true -> i <= j).
Proof.
  unfold assigned_entries. rewrite filter_In, in_prod_iff, !in_seq. simpl.
  destruct sym; simpl.
  - destruct (j <? i) eqn:A; simpl.
    + apply Nat.ltb_lt in A. split; [intros [_ X]; discriminate | intros (?&?&X); specialize (X eq_refl); lia].
    + apply Nat.ltb_ge in A. split; [intros [[? ?] _]; repeat split; lia | intros (?&?&_); repeat split; lia].
  - split; [intros [[? ?] _]; repeat split; try lia; discriminate | intros (?&?&_); repeat split; lia].
Qed.

(* ------------------------------------------------------------------------- *)
(* row-major ravel / from_seq                                                    *)
(* ------------------------------------------------------------------------- *)

Lemma ravelr_lt rs rI : Forall2 lt rI rs -> ravelr rs rI < prodl rs.
Proof. induction 1; simpl; [lia | nia]. Qed.

Lemma from_seq_r_cons2 n n' ns s :
  from_seq_r (n :: n' :: ns) s = (s mod n) :: from_seq_r (n' :: ns) (s / n).
Proof. reflexivity. Qed.

Lemma from_seq_ravelr rs rI : Forall2 lt rI rs -> from_seq_r rs (ravelr rs rI) = rI.
Proof.
  induction 1 as [| i n is_ ns Hin H IH]; [reflexivity|].
  destruct H as [| i' n' is' ns' Hin' H'].
  - simpl. now rewrite Nat.mul_0_r, Nat.add_0_r.
  - rewrite from_seq_r_cons2.
    change (ravelr (n :: n' :: ns') (i :: i' :: is'))
      with (i + n * ravelr (n' :: ns') (i' :: is')).
    set (r := ravelr (n' :: ns') (i' :: is')) in *.
    rewrite (Nat.mul_comm n r).
    rewrite Nat.mod_add by lia. rewrite Nat.div_add by lia.
    rewrite Nat.mod_small, Nat.div_small by assumption. simpl. f_equal. exact IH.
Qed.

Lemma ravelr_from_seq : forall rs s, rs <> [] -> s < prodl rs ->
  Forall2 lt (from_seq_r rs s) rs /\ ravelr rs (from_seq_r rs s) = s.
Proof.
  induction rs as [|n rest IH]; intros s Hne Hs; [congruence|].
  destruct rest as [|n' rest'].
  - simpl in *. split; [constructor; [lia | constructor] | lia].
  - rewrite from_seq_r_cons2.
    assert (Hn : n <> 0) by (intro; subst; simpl in Hs; lia).
    assert (Hq : s / n < prodl (n' :: rest')).
    { apply Nat.div_lt_upper_bound; [assumption|]. exact Hs. }
    destruct (IH (s / n) ltac:(discriminate) Hq) as [F R].
    split.
    + constructor; [apply Nat.mod_upper_bound; assumption | exact F].
    + change (s mod n + n * ravelr (n' :: rest') (from_seq_r (n' :: rest') (s / n)) = s).
      rewrite R. rewrite (Nat.div_mod s n) at 3 by assumption. lia.
Qed.

Lemma Forall2_rev {A B} (R : A -> B -> Prop) l1 l2 :
  Forall2 R l1 l2 -> Forall2 R (rev l1) (rev l2).
Proof.
  induction 1; simpl; [constructor|].
  apply Forall2_app; [assumption | repeat constructor; assumption].
Qed.

Lemma prodl_app a b : prodl (a ++ b) = prodl a * prodl b.
Proof. induction a; simpl; [lia | rewrite IHa; lia]. Qed.

Lemma prodl_rev l : prodl (rev l) = prodl l.
Proof. induction l; simpl; [reflexivity | rewrite prodl_app, IHl; simpl; lia]. Qed.

Lemma ravel_lt I shape : Forall2 lt I shape -> ravel_multi_index I shape < prodl shape.
Proof.
  intros H. unfold ravel_multi_index. rewrite <- (prodl_rev shape).
  apply ravelr_lt, Forall2_rev, H.
Qed.

Lemma from_seq_ravel I shape : Forall2 lt I shape -> from_seq shape (ravel_multi_index I shape) = I.
Proof.
  intros H. unfold from_seq, ravel_multi_index.
  rewrite from_seq_ravelr by (apply Forall2_rev, H). apply rev_involutive.
Qed.

Lemma ravel_from_seq shape s : shape <> [] -> s < prodl shape ->
  Forall2 lt (from_seq shape s) shape /\ ravel_multi_index (from_seq shape s) shape = s.
Proof.
  intros Hne Hs. unfold from_seq, ravel_multi_index. rewrite rev_involutive.
  assert (Hne' : rev shape <> []).
  { intro E. apply Hne. rewrite <- (rev_involutive shape), E. reflexivity. }
  rewrite <- (prodl_rev shape) in Hs.
  destruct (ravelr_from_seq (rev shape) s Hne' Hs) as [F R]. split; [|exact R].
  apply Forall2_rev in F. now rewrite rev_involutive in F.
Qed.

Lemma ravel_inj I I' shape : Forall2 lt I shape -> Forall2 lt I' shape ->
  ravel_multi_index I shape = ravel_multi_index I' shape -> I = I'.
Proof.
  intros H H' E. rewrite <- (from_seq_ravel I shape H), <- (from_seq_ravel I' shape H'), E. reflexivity.
Qed.

(* ------------------------------------------------------------------------- *)
(* storage_index stays inside storage_size                                       *)
(* ------------------------------------------------------------------------- *)

Definition valid_index (v : var) (I : list nat) : Prop :=
  match v with mkVar shp _ => Forall2 lt I shp end.
Definition wf_var (v : var) : Prop :=
  match v with mkVar [m; n] true => m = n | mkVar _ true => False | mkVar _ false => True end.

Lemma storage_index_lt v I : wf_var v -> valid_index v I -> storage_index v I < storage_size v.
Proof.
  destruct v as [shp sym]. intros W H. simpl in H.
  destruct sym.
  - destruct shp as [|m [|n [|? ?]]]; simpl in W; try contradiction. subst n.
    inversion H as [|i ? I' ? Hi H']; subst. inversion H' as [|j ? I'' ? Hj H'']; subst.
    inversion H''; subst. simpl.
    destruct (le_lt_dec i j).
    + apply sym_range_l; assumption.
    + rewrite sym_symmetric. apply sym_range_l; lia.
  - assert (X : storage_size (mkVar shp false) = prodl shp) by (destruct shp as [|? [|? [|? ?]]]; reflexivity).
    rewrite X. destruct shp as [|n ns].
    + inversion H; subst. simpl. lia.
    + assert (Y : storage_index (mkVar (n :: ns) false) I = ravel_multi_index I (n :: ns))
        by (destruct ns as [|? [|? ?]]; destruct I as [|? [|? [|? ?]]]; reflexivity).
      rewrite Y. apply ravel_lt, H.
Qed.

(* ------------------------------------------------------------------------- *)
(* allocate_array                                                                *)
(* ------------------------------------------------------------------------- *)

Definition tsz (l : list var) : nat := fold_right (fun v a => storage_size v + a) 0 l.
Definition dvar := mkVar [] false.

Lemma allocate_from_spec : forall vars ofs,
  length (fst (allocate_from ofs vars)) = length vars /\
  snd (allocate_from ofs vars) = ofs + tsz vars /\
  forall k, k < length vars ->
    nth k (fst (allocate_from ofs vars)) (0, 0) = (storage_size (nth k vars dvar), ofs + tsz (firstn k vars)).
Proof.
  induction vars as [|v r IH]; intros ofs; simpl.
  - repeat split; try lia.
  - destruct (allocate_from (ofs + storage_size v) r) as [info tot] eqn:E.
    destruct (IH (ofs + storage_size v)) as (L & HS & N). rewrite E in L, HS, N. simpl in *.
    repeat split; try lia.
    intros k Hk. destruct k; simpl; [f_equal; lia|].
    rewrite N by lia. f_equal. lia.
Qed.

Lemma tsz_firstn_S l k : k < length l -> tsz (firstn (S k) l) = tsz (firstn k l) + storage_size (nth k l dvar).
Proof.
  revert k. induction l as [|v r IH]; intros k Hk; simpl in Hk; [lia|].
  destruct k; [simpl; lia|].
  change (firstn (S (S k)) (v :: r)) with (v :: firstn (S k) r).
  change (firstn (S k) (v :: r)) with (v :: firstn k r).
  assert (C : forall x l', tsz (x :: l') = storage_size x + tsz l') by reflexivity.
  rewrite !C. rewrite IH by lia. simpl nth. lia.
Qed.

Lemma tsz_firstn_mono l k k' : k <= k' -> k' <= length l -> tsz (firstn k l) <= tsz (firstn k' l).
Proof.
  induction 1; intros; [lia|]. rewrite tsz_firstn_S by lia.
  assert (tsz (firstn k l) <= tsz (firstn m l)) by (apply IHle; lia). lia.
Qed.

Lemma tsz_firstn_all l : tsz (firstn (length l) l) = tsz l.
Proof. now rewrite firstn_all. Qed.

Definition slot_ofs (vars : list var) (k : nat) : nat := snd (nth k (fst (allocate_array vars)) (0, 0)).

Lemma slot_ofs_eq vars k : k < length vars -> slot_ofs vars k = tsz (firstn k vars).
Proof.
  intros H. unfold slot_ofs, allocate_array.
  destruct (allocate_from_spec vars 0) as (_ & _ & N). rewrite N by assumption. reflexivity.
Qed.

Lemma layout_disjoint_l vars k1 k2 e1 e2 :
  k1 < length vars -> k2 < length vars ->
  e1 < storage_size (nth k1 vars dvar) -> e2 < storage_size (nth k2 vars dvar) ->
  slot_ofs vars k1 + e1 = slot_ofs vars k2 + e2 -> k1 = k2 /\ e1 = e2.
Proof.
  intros H1 H2 E1 E2 E. rewrite !slot_ofs_eq in E by assumption.
  destruct (lt_eq_lt_dec k1 k2) as [[L|L]|L].
  - assert (tsz (firstn (S k1) vars) <= tsz (firstn k2 vars)) by (apply tsz_firstn_mono; lia).
    rewrite tsz_firstn_S in H by assumption. lia.
  - subst. split; lia.
  - assert (tsz (firstn (S k2) vars) <= tsz (firstn k1 vars)) by (apply tsz_firstn_mono; lia).
    rewrite tsz_firstn_S in H by assumption. lia.
Qed.

Lemma layout_inside_l vars k e :
  k < length vars -> e < storage_size (nth k vars dvar) ->
  slot_ofs vars k + e < snd (allocate_array vars).
Proof.
  intros H E. rewrite slot_ofs_eq by assumption. unfold allocate_array.
  destruct (allocate_from_spec vars 0) as (_ & HS & _). rewrite HS. simpl.
  assert (tsz (firstn (S k) vars) <= tsz (firstn (length vars) vars)) by (apply tsz_firstn_mono; lia).
  rewrite tsz_firstn_S, tsz_firstn_all in H0 by assumption. lia.
Qed.

(* ------------------------------------------------------------------------- *)
(* gen_pderiv                                                                    *)
(* ------------------------------------------------------------------------- *)

Lemma gen_pderiv_spec dim nd D k : length D = dim -> k < dim ->
  nth k (gen_pderiv dim nd D) (0, 0, 0) = (k, nd + 1, nth (dim - 1 - k) D 0).
Proof.
  intros HL Hk. unfold gen_pderiv.
  set (f := fun k => (k, nd + 1, nth k (rev D) 0)).
  rewrite nth_indep with (d' := f 0)
    by (rewrite map_length, seq_length; assumption).
  rewrite map_nth, seq_nth by assumption. unfold f. simpl.
  rewrite rev_nth by lia. rewrite HL. f_equal. f_equal. lia.
Qed.

Lemma flat3_lookup ng nd1 i g_sta ik ofs :
  flat3 ng nd1 i (g_sta + ik) ofs = flat3 ng nd1 i g_sta 0 + nd1 * ik + ofs.
Proof. unfold flat3. ring. Qed.

Lemma flat3_inside nb ng nd1 i g d : i < nb -> g < ng -> d < nd1 -> flat3 ng nd1 i g d < nb * ng * nd1.
Proof.
  unfold flat3. intros.
  assert (A : i * ng + g + 1 <= nb * ng) by nia.
  remember (i * ng + g) as x. remember (nb * ng) as y. nia.
Qed.

(* ------------------------------------------------------------------------- *)
(* next_lexicographic / assemble_vector visit order                              *)
(* ------------------------------------------------------------------------- *)

Lemma next_lex_r_1 c s sr e er :
  next_lex_r [c] (s :: sr) (e :: er) = if S c =? e then None else Some [S c].
Proof. reflexivity. Qed.
Lemma next_lex_r_2 c c' cr s sr e er :
  next_lex_r (c :: c' :: cr) (s :: sr) (e :: er) =
  if S c =? e then option_map (cons s) (next_lex_r (c' :: cr) sr er) else Some (S c :: c' :: cr).
Proof. reflexivity. Qed.

Lemma next_lex_spec : forall cur end_, Forall2 lt cur end_ ->
  match next_lex_r cur (repeat 0 (length cur)) end_ with
  | Some nxt => Forall2 lt nxt end_ /\ ravelr end_ nxt = S (ravelr end_ cur)
  | None => S (ravelr end_ cur) = prodl end_
  end.
Proof.
  induction 1 as [| c e cr er Hc H IH]; [reflexivity|].
  destruct H as [| c' e' cr' er' Hc' H'].
  - change (repeat 0 (length [c])) with [0]. rewrite next_lex_r_1.
    destruct (Nat.eqb_spec (S c) e) as [Q|Q].
    + simpl. lia.
    + split; [constructor; [lia | constructor] | simpl; lia].
  - change (repeat 0 (length (c :: c' :: cr'))) with (0 :: repeat 0 (length (c' :: cr'))).
    rewrite next_lex_r_2.
    destruct (Nat.eqb_spec (S c) e) as [Q|Q].
    + destruct (next_lex_r (c' :: cr') (repeat 0 (length (c' :: cr'))) (e' :: er')) as [nxt|].
      * destruct IH as [F R]. simpl option_map. split; [constructor; [lia | exact F]|].
        change (0 + e * ravelr (e' :: er') nxt = S (c + e * ravelr (e' :: er') (c' :: cr'))).
        rewrite R. nia.
      * simpl option_map.
        change (S (c + e * ravelr (e' :: er') (c' :: cr')) = e * prodl (e' :: er')).
        rewrite <- IH. nia.
    + split; [constructor; [lia | constructor; assumption]|].
      change (S c + e * ravelr (e' :: er') (c' :: cr') = S (c + e * ravelr (e' :: er') (c' :: cr'))). lia.
Qed.

Lemma Forall2_length {A B} (R : A -> B -> Prop) l1 l2 : Forall2 R l1 l2 -> length l1 = length l2.
Proof. induction 1; simpl; congruence. Qed.

Lemma visit_spec end_ : forall fuel cur, Forall2 lt cur end_ ->
  ravelr end_ cur + fuel = prodl end_ ->
  let vis := visit_r fuel cur (repeat 0 (length end_)) end_ in
  length vis = fuel /\
  forall k, k < fuel -> Forall2 lt (nth k vis []) end_ /\ ravelr end_ (nth k vis []) = ravelr end_ cur + k.
Proof.
  induction fuel as [|f IH]; intros cur F E; simpl.
  - split; [reflexivity | intros; lia].
  - assert (NL := next_lex_spec cur end_ F).
    rewrite (Forall2_length _ _ _ F) in NL.
    destruct (next_lex_r cur (repeat 0 (length end_)) end_) as [nxt|].
    + destruct NL as [F' R'].
      destruct (IH nxt F' ltac:(lia)) as [L N]. split; [simpl; lia|].
      intros k Hk. destruct k; [split; [assumption | lia]|].
      simpl. destruct (N k ltac:(lia)) as [A B]. split; [assumption | lia].
    + assert (f = 0) by lia. subst f. split; [reflexivity|].
      intros k Hk. assert (k = 0) by lia. subst k. split; [assumption | simpl; lia].
Qed.

Lemma ravelr_zeros end_ : ravelr end_ (repeat 0 (length end_)) = 0.
Proof.
  induction end_ as [|e r IH]; [reflexivity|].
  change (0 + e * ravelr r (repeat 0 (length r)) = 0). rewrite IH. lia.
Qed.

Lemma assemble_vector_order_l : forall end_,
  Forall (fun e => 0 < e) end_ ->
  let zeros := repeat 0 (length end_) in
  let vis := visit_r (prodl end_) zeros zeros end_ in
  length vis = prodl end_ /\
  forall k, k < prodl end_ -> Forall2 lt (nth k vis []) end_ /\ ravelr end_ (nth k vis []) = k.
Proof.
  intros end_ Hpos zeros vis.
  assert (F : Forall2 lt zeros end_).
  { unfold zeros. clear vis zeros. induction Hpos; simpl; constructor; assumption. }
  assert (Z : ravelr end_ zeros = 0) by apply ravelr_zeros.
  assert (E : ravelr end_ zeros + prodl end_ = prodl end_) by (rewrite Z; reflexivity).
  destruct (visit_spec end_ (prodl end_) zeros F E) as [L N].
  split; [exact L|]. intros k Hk. destruct (N k Hk) as [A B]. split; [exact A|].
  unfold vis, zeros in *. rewrite B, Z. reflexivity.
Qed.

(* ------------------------------------------------------------------------- *)
(* nqp                                                                           *)
(* ------------------------------------------------------------------------- *)

Lemma nqp_ge ps : Forall (fun p => p + 1 <= nqp ps) ps.
Proof.
  unfold nqp. induction ps as [|p r IH]; constructor; simpl.
  - lia.
  - eapply Forall_impl; [|exact IH]. simpl. intros; lia.
Qed.

Lemma nqp_attained ps : ps <> [] -> exists p, In p ps /\ nqp ps = p + 1.
Proof.
  unfold nqp. induction ps as [|p r IH]; [congruence|]. intros _.
  destruct r as [|p' r'].
  - exists p. simpl. split; [auto | lia].
  - destruct (IH ltac:(discriminate)) as (q & Hq & E).
    destruct (le_lt_dec p (fold_right Nat.max 0 (p' :: r'))).
    + exists q. split; [right; exact Hq|]. simpl in *. lia.
    + exists p. split; [left; reflexivity|]. simpl in *. lia.
Qed.

Lemma sym_index_bijection_l : forall n,
  (forall i j, sym_index_to_seq n i j = sym_index_to_seq n j i) /\
  (forall i j, i <= j -> j < n -> sym_index_to_seq n i j < n * (n + 1) / 2) /\
  (forall i j i' j', i <= j -> j < n -> i' <= j' -> j' < n ->
     sym_index_to_seq n i j = sym_index_to_seq n i' j' -> i = i' /\ j = j') /\
  (forall s, s < n * (n + 1) / 2 -> exists i j, i <= j /\ j < n /\ sym_index_to_seq n i j = s).
Proof.
  intros n. split; [exact (sym_symmetric n)|]. split; [exact (sym_range_l n)|].
  split; [exact (sym_inj_l n) | exact (sym_surj_l n)].
Qed.

Lemma row_major_bijection_l : forall shape,
  (forall I, Forall2 lt I shape -> ravel_multi_index I shape < prodl shape) /\
  (forall I, Forall2 lt I shape -> from_seq shape (ravel_multi_index I shape) = I) /\
  (forall I I', Forall2 lt I shape -> Forall2 lt I' shape ->
     ravel_multi_index I shape = ravel_multi_index I' shape -> I = I') /\
  (forall s, shape <> [] -> s < prodl shape ->
     Forall2 lt (from_seq shape s) shape /\ ravel_multi_index (from_seq shape s) shape = s).
Proof.
  intros shape. split; [intros; now apply ravel_lt|]. split; [intros; now apply from_seq_ravel|].
  split; [intros; now apply (ravel_inj I I' shape) | intros; now apply ravel_from_seq].
Qed.

Lemma reader_writer_agree_l : forall vars k k' I I',
  k < length vars -> k' < length vars ->
  wf_var (nth k vars dvar) -> wf_var (nth k' vars dvar) ->
  valid_index (nth k vars dvar) I -> valid_index (nth k' vars dvar) I' ->
  var_ref_slot vars k I = var_ref_slot vars k' I' ->
  k = k' /\ storage_index (nth k vars dvar) I = storage_index (nth k' vars dvar) I'.
Proof.
  intros vars k k' I I' Hk Hk' W W' V V' E.
  unfold var_ref_slot in E. fold dvar in E. fold (slot_ofs vars k) in E. fold (slot_ofs vars k') in E.
  apply (layout_disjoint_l vars k k'); try assumption; now apply storage_index_lt.
Qed.

Lemma pderiv_lookup_spec_l : forall dim nd D k ng i g_sta ik,
  length D = dim -> k < dim ->
  let '(ax, stride, ofs) := nth k (gen_pderiv dim nd D) (0, 0, 0) in
  ax = k /\ ofs = nth (dim - 1 - k) D 0 /\
  flat3 ng (nd + 1) i g_sta 0 + stride * ik + ofs = flat3 ng (nd + 1) i (g_sta + ik) (nth (dim - 1 - k) D 0).
Proof.
  intros dim nd D k ng i g_sta ik HL Hk. rewrite gen_pderiv_spec by assumption.
  split; [reflexivity|]. split; [reflexivity|]. symmetry. apply flat3_lookup.
Qed.

Lemma nqp_spaces_l : forall ps0 ps1,
  Forall (fun p => p + 1 <= nqp_spaces ps0 ps1) ps0 /\
  Forall (fun p => p + 1 <= nqp_spaces ps0 ps1) ps1 /\
  (ps0 ++ ps1 <> [] -> exists p, (In p ps0 \/ In p ps1) /\ nqp_spaces ps0 ps1 = p + 1).
Proof.
  intros ps0 ps1. unfold nqp_spaces.
  assert (H := nqp_ge (ps0 ++ ps1)). apply Forall_app in H. destruct H as [H0 H1].
  split; [exact H0|]. split; [exact H1|].
  intros Hne. destruct (nqp_attained (ps0 ++ ps1) Hne) as (p & Hin & E).
  exists p. split; [apply in_app_or; exact Hin | exact E].
Qed.

Lemma nqp_l : forall ps,
  Forall (fun p => p + 1 <= nqp ps) ps /\ (ps <> [] -> exists p, In p ps /\ nqp ps = p + 1).
Proof. intros ps. split; [apply nqp_ge | apply nqp_attained]. Qed.

(* ------------------------------------------------------------------------- *)
(* the entry loop                                                                *)
(* ------------------------------------------------------------------------- *)

Lemma add_ofs_cons a los k idx : add_ofs (a :: los) (k :: idx) = (a + k) :: add_ofs los idx.
Proof. reflexivity. Qed.

Lemma add_ofs_shift : forall ofs los, Forall2 le ofs los -> forall idx,
  add_ofs ofs (add_ofs (map (fun p => fst p - snd p) (combine los ofs)) idx) = add_ofs los idx.
Proof.
  induction 1 as [| o l ofs' los' Hle H IH]; intros idx; [reflexivity|].
  destruct idx as [|k ks]; [reflexivity|].
  simpl combine. simpl map. rewrite !add_ofs_cons. rewrite IH. f_equal. simpl. lia.
Qed.

Lemma entry_ranges_none : forall s1 s2 k, k < length s1 -> k < length s2 ->
  snd (intersect (nth k s1 (0, 0)) (nth k s2 (0, 0))) <= fst (intersect (nth k s1 (0, 0)) (nth k s2 (0, 0))) ->
  entry_ranges s1 s2 = None.
Proof.
  induction s1 as [|a r1 IH]; intros s2 k H1 H2 E; simpl in H1; [lia|].
  destruct s2 as [|b r2]; simpl in H2; [lia|].
  simpl. unfold intersect in E.
  destruct (Nat.leb_spec (Nat.min (snd a) (snd b)) (Nat.max (fst a) (fst b))) as [Q|Q]; [reflexivity|].
  destruct k; simpl in E; [lia|].
  rewrite (IH r2 k); [reflexivity | lia | lia | exact E].
Qed.

Section LoopProofs.
Variable T : Type.
Variable zero : T.
Variable add : T -> T -> T.
Hypothesis add_0_l : forall x, add zero x = x.
Hypothesis add_0_r : forall x, add x zero = x.
Hypothesis add_assoc : forall x y z, add x (add y z) = add (add x y) z.

Notation loop_range := (loop_range T).
Notation loop_box := (loop_box T add).
Notation sum_n := (sum_n T zero add).
Notation sum_box := (sum_box T zero add).
Notation entry_impl := (entry_impl T zero add).
Notation entry_impl_od := (entry_impl_od T zero add).

Lemma loop_range_sum : forall n a body g acc,
  (forall k acc', body k acc' = add acc' (g k)) ->
  loop_range a n body acc = add acc (sum_n a n g).
Proof.
  induction n; intros a body g acc H; simpl.
  - now rewrite add_0_r.
  - rewrite (IHn (S a) body g) by assumption. rewrite H. now rewrite add_assoc.
Qed.

Lemma loop_box_sum : forall ns f acc,
  loop_box ns f acc = add acc (sum_box (map (fun n => (0, n)) ns) f).
Proof.
  induction ns as [|n r IH]; intros f acc; simpl; [reflexivity|].
  apply loop_range_sum. intros k acc'. apply IH.
Qed.

Lemma loop_range_ext : forall n a body body' acc,
  (forall k acc', body k acc' = body' k acc') -> loop_range a n body acc = loop_range a n body' acc.
Proof. induction n; intros; simpl; [reflexivity|]. rewrite H. now apply IHn. Qed.

Lemma loop_box_ext : forall ns f f' acc, (forall idx, f idx = f' idx) -> loop_box ns f acc = loop_box ns f' acc.
Proof.
  induction ns as [|n r IH]; intros f f' acc H; simpl; [now rewrite H|].
  apply loop_range_ext. intros k acc'. apply IH. intros idx. apply H.
Qed.

Lemma sum_n_ext : forall n a g g', (forall k, a <= k < a + n -> g k = g' k) -> sum_n a n g = sum_n a n g'.
Proof.
  induction n; intros a g g' H; simpl; [reflexivity|].
  rewrite (H a) by lia. f_equal. apply IHn. intros k Hk. apply H. lia.
Qed.

Lemma sum_n_zero : forall n a g, (forall k, a <= k < a + n -> g k = zero) -> sum_n a n g = zero.
Proof.
  induction n; intros a g H; simpl; [reflexivity|].
  rewrite (H a) by lia. rewrite add_0_l. apply IHn. intros k Hk. apply H. lia.
Qed.

Lemma sum_n_split : forall n m a g, sum_n a (n + m) g = add (sum_n a n g) (sum_n (a + n) m g).
Proof.
  induction n; intros m a g; simpl.
  - now rewrite add_0_l, Nat.add_0_r.
  - rewrite IHn. rewrite add_assoc. f_equal. f_equal. lia.
Qed.

Lemma sum_n_shift : forall n a o g, sum_n a n (fun k => g (o + k)) = sum_n (o + a) n g.
Proof.
  induction n; intros a o g; simpl; [reflexivity|].
  f_equal. rewrite IHn. f_equal. lia.
Qed.

Lemma sum_box_ext : forall rs f f', (forall idx, f idx = f' idx) -> sum_box rs f = sum_box rs f'.
Proof.
  induction rs as [|[a n] r IH]; intros f f' H; simpl; [apply H|].
  apply sum_n_ext. intros k _. apply IH. intros idx. apply H.
Qed.

Lemma sum_box_zero : forall rs f, (forall idx, f idx = zero) -> sum_box rs f = zero.
Proof.
  induction rs as [|[a n] r IH]; intros f H; simpl; [apply H|].
  apply sum_n_zero. intros k _. apply IH. intros idx. apply H.
Qed.

(* the kernel handed shifted arrays computes the sum over the absolute ranges *)
Lemma sum_box_shift : forall rs f,
  sum_box (map (fun n => (0, n)) (map snd rs)) (fun idx => f (add_ofs (map fst rs) idx)) = sum_box rs f.
Proof.
  induction rs as [|[a n] r IH]; intros f; simpl; [reflexivity|].
  transitivity (sum_n (a + 0) n (fun k => sum_box r (fun idx => f (k :: idx)))); [|now rewrite Nat.add_0_r].
  rewrite <- sum_n_shift.
  apply sum_n_ext. intros k _.
  rewrite <- (IH (fun idx => f ((a + k) :: idx))).
  apply sum_box_ext. intros idx. reflexivity.
Qed.

Definition entry_spec (s1 s2 : list (nat * nat)) (f : list nat -> T) : T :=
  match entry_ranges s1 s2 with None => zero | Some rs => sum_box rs f end.

Lemma entry_impl_as_sum s1 s2 f : entry_impl s1 s2 f = entry_spec s1 s2 f.
Proof.
  unfold Model.entry_impl, entry_spec. destruct (entry_ranges s1 s2) as [rs|]; [|reflexivity].
  rewrite loop_box_sum, add_0_l. apply sum_box_shift.
Qed.

Definition full_box (Ns : list nat) : list (nat * nat) := map (fun N => (0, N)) Ns.

Lemma entry_spec_full : forall s1 s2 Ns f,
  Forall2 (fun s N => snd s <= N) s1 Ns -> Forall2 (fun s N => snd s <= N) s2 Ns ->
  (forall idx, in_box s1 idx = false \/ in_box s2 idx = false -> f idx = zero) ->
  entry_spec s1 s2 f = sum_box (full_box Ns) f.
Proof.
  induction s1 as [|[lo1 hi1] r1 IH]; intros s2 Ns f F1 F2 Hloc.
  - inversion F1; subst. inversion F2; subst. reflexivity.
  - inversion F1 as [|? N ? Nr Hh1 F1']; subst.
    inversion F2 as [|[lo2 hi2] ? r2 ? Hh2 F2']; subst. simpl in Hh1, Hh2.
    set (lo := Nat.max lo1 lo2). set (hi := Nat.min hi1 hi2).
    set (E := fun k => entry_spec r1 r2 (fun idx => f (k :: idx))).
    (* every inner full sum is the inner entry *)
    assert (HG : forall k, sum_box (full_box Nr) (fun idx => f (k :: idx)) = E k).
    { intros k. symmetry. apply IH; try assumption.
      intros idx [H|H]; apply Hloc; [left|right]; simpl; rewrite H; apply andb_false_r. }
    (* outside [lo, hi) the inner entry vanishes *)
    assert (HZ : forall k, ~ (lo <= k < hi) -> E k = zero).
    { intros k Hk. unfold E, entry_spec. destruct (entry_ranges r1 r2); [|reflexivity].
      apply sum_box_zero. intros idx. apply Hloc.
      destruct (in_box ((lo1, hi1) :: r1) (k :: idx)) eqn:A; [|left; reflexivity].
      destruct (in_box ((lo2, hi2) :: r2) (k :: idx)) eqn:B; [|right; reflexivity].
      exfalso. apply Hk. simpl in A, B.
      apply andb_prop in A. destruct A as [A _]. apply andb_prop in A. destruct A as [A1 A2].
      apply andb_prop in B. destruct B as [B _]. apply andb_prop in B. destruct B as [B1 B2].
      apply Nat.leb_le in A1, B1. apply Nat.ltb_lt in A2, B2. unfold lo, hi. lia. }
    simpl sum_box. change (map (fun N0 => (0, N0)) Nr) with (full_box Nr).
    rewrite (sum_n_ext N 0 _ E) by (intros; apply HG).
    unfold entry_spec. simpl entry_ranges. fold lo hi.
    destruct (hi <=? lo) eqn:Q.
    + apply Nat.leb_le in Q. symmetry. apply sum_n_zero. intros k _. apply HZ. lia.
    + apply Nat.leb_gt in Q.
      assert (hi <= N) by (unfold hi; lia).
      replace N with (lo + ((hi - lo) + (N - hi))) by lia.
      rewrite sum_n_split, sum_n_split. simpl Nat.add.
      rewrite (sum_n_zero lo 0) by (intros; apply HZ; lia).
      rewrite (sum_n_zero (N - hi)) by (intros; apply HZ; lia).
      rewrite add_0_l, add_0_r.
      unfold E, entry_spec. destruct (entry_ranges r1 r2) as [rs|]; simpl.
      * reflexivity.
      * symmetry. apply sum_n_zero. reflexivity.
Qed.

Lemma entry_full_l s1 s2 Ns f :
  Forall2 (fun s N => snd s <= N) s1 Ns -> Forall2 (fun s N => snd s <= N) s2 Ns ->
  (forall idx, in_box s1 idx = false \/ in_box s2 idx = false -> f idx = zero) ->
  entry_impl s1 s2 f = sum_box (full_box Ns) f.
Proof. intros. rewrite entry_impl_as_sum. now apply entry_spec_full. Qed.

Lemma disjoint_zero_l s1 s2 f k : k < length s1 -> k < length s2 ->
  snd (intersect (nth k s1 (0, 0)) (nth k s2 (0, 0))) <= fst (intersect (nth k s1 (0, 0)) (nth k s2 (0, 0))) ->
  entry_impl s1 s2 f = zero.
Proof.
  intros H1 H2 E. unfold Model.entry_impl. now rewrite (entry_ranges_none s1 s2 k H1 H2 E).
Qed.

Lemma bbox_shift_l ofs s1 s2 f fbb rs :
  entry_ranges s1 s2 = Some rs -> Forall2 le ofs (map fst rs) ->
  (forall idx, fbb idx = f (add_ofs ofs idx)) ->
  entry_impl_od ofs s1 s2 fbb = entry_impl s1 s2 f.
Proof.
  intros E F H. unfold Model.entry_impl_od, Model.entry_impl. rewrite E.
  apply loop_box_ext. intros idx. rewrite H. f_equal. apply add_ofs_shift, F.
Qed.

End LoopProofs.

(* ------------------------------------------------------------------------- *)
(* gauss_rule: the mapped weights sum to (b - a)/2 * sum of reference weights     *)
(* ------------------------------------------------------------------------- *)
Open Scope Q_scope.
Lemma gauss_weights_l xw a b :
  qsum (map snd (gauss_interval xw a b)) == (1 # 2) * (b - a) * qsum (map snd xw).
Proof.
  unfold gauss_interval. induction xw as [|[x w] r IH]; simpl.
  - ring.
  - simpl in IH. rewrite IH. ring.
Qed.

Lemma gauss_weights_sum_l xw a b : qsum (map snd xw) == 2 -> qsum (map snd (gauss_interval xw a b)) == b - a.
Proof. intros H. rewrite gauss_weights_l, H. ring. Qed.
