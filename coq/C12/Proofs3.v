(* C12 -- proofs about Model3.v (controller on extended values). *)
From Coq Require Import QArith Qabs List Bool Lia Lqa.
From Verif.C12 Require Import Model Proofs Model3.
Import ListNotations.
Open Scope Q_scope.

Lemma qlt_true a b : qlt a b = true -> a < b.
Proof.
  unfold qlt. intros H. apply negb_true_iff in H. apply Qnot_le_lt. intros L.
  apply Qle_bool_iff in L. congruence.
Qed.
Lemma qlt_false a b : qlt a b = false -> b <= a.
Proof. unfold qlt. intros H. apply negb_false_iff in H. apply Qle_bool_iff; exact H. Qed.
Lemma qle_true a b : a <= b -> Qle_bool a b = true.
Proof. intros; apply Qle_bool_iff; assumption. Qed.
Lemma qle_false a b : b < a -> Qle_bool a b = false.
Proof.
  intros H. destruct (Qle_bool a b) eqn:E; [|reflexivity]. apply Qle_bool_iff in E. lra.
Qed.

(* the clamp: always a finite number in [1/5, 5]; and it is a fixed point of the finite clamp *)
Lemma xclip_total p :
  xclip p = XFin (xfac p) /\ (1#5) <= xfac p /\ xfac p <= 5 /\ clip_fac (xfac p) = xfac p.
Proof.
  destruct p as [q| | |].
  - unfold xfac, xclip, pymax, pymin; simpl.
    destruct (qlt (1#5) q) eqn:E1; simpl.
    + destruct (qlt q 5) eqn:E2; simpl.
      * apply qlt_true in E1. apply qlt_true in E2.
        split; [reflexivity|]. split; [lra|]. split; [lra|].
        unfold clip_fac, qmax, qmin.
        rewrite (qle_true (1#5) q) by lra. rewrite (qle_false 5 q) by lra. reflexivity.
      * split; [reflexivity|]. split; [lra|]. split; [lra|]. reflexivity.
    + split; [reflexivity|]. split; [lra|]. split; [lra|]. reflexivity.
  - vm_compute. repeat split; discriminate.
  - vm_compute. repeat split; discriminate.
  - vm_compute. repeat split; discriminate.
Qed.

Lemma xclip_bounds_l : forall p, exists f, xclip p = XFin f /\ (1#5) <= f /\ f <= 5.
Proof. intros p. destruct (xclip_total p) as (A & B & C & _). exists (xfac p). auto. Qed.

Lemma xclip_nonfinite_l :
  xclip XNaN = XFin (1#5) /\ xclip XPInf = XFin 5 /\ xclip XNInf = XFin (1#5).
Proof. repeat split. Qed.

Lemma xfac_finite_l : forall q, xfac (XFin q) == clip_fac q.
Proof.
  intros q. unfold xfac, xclip, pymax, pymin; simpl.
  unfold clip_fac, qmax, qmin.
  destruct (qlt (1#5) q) eqn:E1; simpl.
  - apply qlt_true in E1. rewrite (qle_true (1#5) q) by lra.
    destruct (qlt q 5) eqn:E2; simpl.
    + apply qlt_true in E2. rewrite (qle_false 5 q) by lra. reflexivity.
    + apply qlt_false in E2. rewrite (qle_true 5 q) by lra. reflexivity.
  - apply qlt_false in E1. destruct (Qle_bool (1#5) q) eqn:E3.
    + apply Qle_bool_iff in E3. assert (q == 1#5) by lra.
      rewrite (qle_false 5 q) by lra. symmetry; exact H.
    + reflexivity.
Qed.

(* acceptance: exactly the finite ratios that are 0 or <= 1 (and the impossible -inf) *)
Lemma xaccepts_iff_l : forall r,
  xaccepts r = true <-> ((exists q, r = XFin q /\ (q == 0 \/ q <= 1)) \/ r = XNInf).
Proof.
  intros r. unfold xaccepts, xfix_r. destruct r as [q| | |]; simpl.
  - destruct (Qeq_bool q 0) eqn:E; simpl.
    + apply Qeq_bool_iff in E. split; [|reflexivity]. intros _. left. exists q. auto.
    + split.
      * intros H. apply Qle_bool_iff in H. left; exists q; auto.
      * intros [(q' & Hq & [H|H])|H]; try discriminate; inversion Hq; subst.
        -- apply Qeq_bool_iff in H. congruence.
        -- apply Qle_bool_iff; exact H.
  - split; [discriminate|]. intros [(q & H & _)|H]; discriminate.
  - split; [intros _; right; reflexivity|reflexivity].
  - split; [discriminate|]. intros [(q & H & _)|H]; discriminate.
Qed.

Lemma nonfinite_rejected_l : forall st r praw,
  r = XNaN \/ r = XPInf ->
  xastep st (XStepped r praw) =
  {| a_t := a_t st; a_tau := a_tau st * xfac praw; a_times := a_times st; a_log := a_log st |}.
Proof. intros st r praw [H|H]; subst; reflexivity. Qed.

Lemma nan_step_l : forall st,
  xastep st (XStepped XNaN XNaN) =
  {| a_t := a_t st; a_tau := a_tau st * (1#5); a_times := a_times st; a_log := a_log st |}.
Proof. reflexivity. Qed.

(* the extended controller takes exactly the steps of the finite one on the lowered outcomes *)
Lemma xastep_lower : forall st e, xastep st e = astep st (lower e).
Proof.
  intros st [|r praw]; [reflexivity|].
  destruct (xclip_total praw) as (_ & _ & _ & FP).
  unfold xastep, astep, lower, xaccepts, xfix_r. rewrite FP.
  destruct r as [q| | |]; simpl; try reflexivity.
  destruct (Qeq_bool q 0); reflexivity.
Qed.

Lemma xloop_lower : forall evs t_end st,
  xadaptive_loop t_end st evs = adaptive_loop t_end st (map lower evs).
Proof.
  induction evs as [|e evs IH]; intros; simpl; [reflexivity|].
  destruct (Qle_bool t_end (a_t st)); [reflexivity|]. rewrite xastep_lower. apply IH.
Qed.

Lemma xtaus_lower : forall evs t_end st,
  xadaptive_taus t_end st evs = adaptive_taus t_end st (map lower evs).
Proof.
  induction evs as [|e evs IH]; intros; simpl; [reflexivity|].
  destruct (Qle_bool t_end (a_t st)); [reflexivity|]. rewrite xastep_lower. f_equal. apply IH.
Qed.

Lemma xtimes_lower : forall t0 tau0 t_end evs,
  xadaptive_times t0 tau0 t_end evs = adaptive_times t0 tau0 t_end (map lower evs).
Proof. intros. unfold xadaptive_times, adaptive_times. rewrite xloop_lower. reflexivity. Qed.

Lemma xrefines_l : forall (evs : list xevent) (t0 tau0 t_end : Q) (st : astate),
  xadaptive_loop t_end st evs = adaptive_loop t_end st (map lower evs) /\
  xadaptive_taus t_end st evs = adaptive_taus t_end st (map lower evs) /\
  xadaptive_times t0 tau0 t_end evs = adaptive_times t0 tau0 t_end (map lower evs).
Proof. intros. split; [apply xloop_lower|]. split; [apply xtaus_lower|apply xtimes_lower]. Qed.

Lemma xadaptive_times_l : forall t0 tau0 t_end evs ts,
  0 < tau0 -> xadaptive_times t0 tau0 t_end evs = Some ts ->
  increasing ts /\ hd 0 ts = t0 /\ t_end <= last ts 0.
Proof. intros t0 tau0 t_end evs ts H. rewrite xtimes_lower. apply adaptive_times_l; exact H. Qed.

Lemma xadaptive_taus_factor_l : forall evs t_end st k,
  (S k < length (xadaptive_taus t_end st evs))%nat ->
  exists f, nth (S k) (xadaptive_taus t_end st evs) 0 == nth k (xadaptive_taus t_end st evs) 0 * f
            /\ (1#5) <= f /\ f <= 5.
Proof. intros evs t_end st k. rewrite xtaus_lower. apply adaptive_taus_factor_l. Qed.

Lemma xadaptive_accept_full_l : forall t0 tau0 t_end evs st,
  0 < tau0 -> xadaptive_loop t_end (adaptive_init t0 tau0) evs = Some st ->
  Forall (fun p => snd p <= 1 /\ 0 < fst p) (a_log st) /\
  length (a_times st) = S (length (a_log st)) /\
  rev (a_times st) = psums t0 (rev (map fst (a_log st))).
Proof. intros t0 tau0 t_end evs st H. rewrite xloop_lower. apply adaptive_accept_full_l; exact H. Qed.

(* every step size handed to the stepper is a positive (finite) number *)
Lemma taus_positive_gen : forall evs t0 t_end st,
  ainv t0 st -> Forall (fun tau => 0 < tau) (adaptive_taus t_end st evs).
Proof.
  induction evs as [|e evs IH]; intros t0 t_end st Hinv; simpl.
  - destruct (Qle_bool t_end (a_t st)); constructor.
  - destruct (Qle_bool t_end (a_t st)); [constructor|].
    constructor; [destruct Hinv as (H & _); exact H|].
    apply (IH t0). apply astep_inv; exact Hinv.
Qed.

Lemma xadaptive_taus_positive_l : forall t0 tau0 t_end evs,
  0 < tau0 -> Forall (fun tau => 0 < tau) (xadaptive_taus t_end (adaptive_init t0 tau0) evs).
Proof.
  intros. rewrite xtaus_lower. apply (taus_positive_gen _ t0). apply adaptive_init_inv; assumption.
Qed.

(* the accepted/rejected flags line up with the step sizes, and a flagged-rejected attempt leaves t *)
Lemma xaccepts_length_l : forall evs t_end st,
  length (xadaptive_accepts t_end st evs) = length (xadaptive_taus t_end st evs).
Proof.
  induction evs as [|e evs IH]; intros; simpl.
  - destruct (Qle_bool t_end (a_t st)); reflexivity.
  - destruct (Qle_bool t_end (a_t st)); [reflexivity|]. simpl. f_equal. apply IH.
Qed.

(* number of returned times = 1 + number of accepted attempts *)
Fixpoint count_true (l : list bool) : nat :=
  match l with [] => 0%nat | b :: l' => ((if b then 1 else 0) + count_true l')%nat end.

Lemma xaccepts_count_gen : forall evs t_end st st',
  xadaptive_loop t_end st evs = Some st' ->
  length (a_times st') = (length (a_times st) + count_true (xadaptive_accepts t_end st evs))%nat.
Proof.
  induction evs as [|e evs IH]; intros t_end st st' H; simpl in *.
  - destruct (Qle_bool t_end (a_t st)); [|discriminate]. inversion H; subst. simpl. lia.
  - destruct (Qle_bool t_end (a_t st)).
    + inversion H; subst. simpl. lia.
    + rewrite (IH _ _ _ H). simpl. destruct e as [|r praw]; simpl; [lia|].
      destruct (xaccepts r); simpl; lia.
Qed.

Lemma xaccepts_count_l : forall t0 tau0 t_end evs ts,
  xadaptive_times t0 tau0 t_end evs = Some ts ->
  length ts = S (count_true (xadaptive_accepts t_end (adaptive_init t0 tau0) evs)).
Proof.
  unfold xadaptive_times. intros t0 tau0 t_end evs ts H.
  destruct (xadaptive_loop t_end (adaptive_init t0 tau0) evs) as [st|] eqn:E; [|discriminate].
  inversion H; subst. rewrite rev_length. rewrite (xaccepts_count_gen _ _ _ _ E). reflexivity.
Qed.

(* ---- newton with a norm that may be NaN / inf ---- *)
Lemma xlt_finite_left : forall a b, xlt a b = true -> a <> XNaN /\ a <> XPInf /\ b <> XNaN.
Proof. intros a b H. destruct a, b; simpl in H; try discriminate; repeat split; discriminate. Qed.

Lemma pymax_ge_first : forall a b, pymax (XFin a) b <> XNaN.
Proof.
  intros a b. unfold pymax. destruct (xlt (XFin a) b) eqn:E; [|discriminate].
  apply xlt_finite_left in E. tauto.
Qed.

Section XN.
  Variable V : Type.
  Variable Fn : V -> V.
  Variable Jsolve : V -> V -> V.
  Variable vsub : V -> V -> V.
  Variable xnorm : V -> xq.
  Variable scale : xq -> xq.
  Variables (atol : Q) (freeze : nat).

  Lemma xnewton_loop_result : forall fuel num_it target x res jp y r,
    res = Fn x ->
    xnewton_loop V Fn Jsolve vsub xnorm freeze fuel num_it target x res jp = Some (y, r) ->
    r = Fn y /\ xlt (xnorm (Fn y)) target = true.
  Proof.
    induction fuel as [|fuel IH]; intros num_it target x res jp y r Hres H; simpl in H; [discriminate|].
    destruct (xlt (xnorm res) target) eqn:E.
    - inversion H; subst. split; [reflexivity|exact E].
    - eapply IH; [|exact H]. reflexivity.
  Qed.

  Lemma xnewton_result_l : forall maxiter x0 y r,
    xnewton V Fn Jsolve vsub xnorm scale atol freeze maxiter x0 = Some (y, r) ->
    r = Fn y /\
    xlt (xnorm (Fn y)) (xnewton_target V Fn xnorm scale atol x0) = true /\
    xnorm (Fn y) <> XNaN /\ xnorm (Fn y) <> XPInf.
  Proof.
    unfold xnewton. intros maxiter x0 y r H.
    destruct (xnewton_loop_result _ _ _ _ _ _ _ _ eq_refl H) as [A B].
    split; [exact A|]. split; [exact B|]. apply xlt_finite_left in B. tauto.
  Qed.

  (* a NaN initial residual norm: the target is atol (max(atol, nan) = atol) *)
  Lemma xnewton_target_nan_l : forall x0,
    scale (xnorm (Fn x0)) = XNaN -> xnewton_target V Fn xnorm scale atol x0 = XFin atol.
  Proof. intros x0 H. unfold xnewton_target. rewrite H. reflexivity. Qed.

  (* if every residual norm along the iteration is NaN, newton raises (returns None) *)
  Lemma xnewton_loop_all_nan : forall fuel num_it target x res jp,
    (forall v, xnorm v = XNaN) ->
    xnewton_loop V Fn Jsolve vsub xnorm freeze fuel num_it target x res jp = None.
  Proof.
    induction fuel as [|fuel IH]; intros; simpl; [reflexivity|].
    rewrite H. simpl. apply IH; exact H.
  Qed.
End XN.
Close Scope Q_scope.
