(* C04 -- lemmas about the model (coq/C04/Model.v). *)
From Coq Require Import List Arith Bool Lia Sorted.
From Verif.lib Require Import FinSet.
From Verif.C04 Require Import Model.
Import ListNotations.

(* ------------------------------------------------------------------------- *)
(* marks may be given in any container, order, with repetitions               *)

(* the same dict keys, and per key the same cells as a set *)
Definition raw_equiv (r1 r2 : rawmarks) : Prop :=
  Forall2 (fun e1 e2 => fst e1 = fst e2 /\ (forall x, In x (snd (snd e1)) <-> In x (snd (snd e2)))) r1 r2.

Lemma same_elems_nil : forall (a b : list mi), (forall x, In x a <-> In x b) -> (a = [] <-> b = []).
Proof.
  intros a b H. destruct a as [|x a]; destruct b as [|y b]; split; intros E; try reflexivity; try discriminate.
  - exfalso. apply (H y). left; auto.
  - exfalso. apply (H x). left; auto.
Qed.

Lemma marks_get_equiv : forall r1 r2 k, raw_equiv r1 r2 ->
  forall x, In x (marks_get r1 k) <-> In x (marks_get r2 k).
Proof.
  intros r1 r2 k H. induction H as [|[k1 [c1 l1]] [k2 [c2 l2]] r1 r2 [Hk Hl] _ IH]; simpl; [tauto|].
  simpl in Hk, Hl. subst k2. destruct (k1 =? k); auto.
Qed.

Lemma max_marked_equiv : forall r1 r2, raw_equiv r1 r2 -> max_marked_level r1 = max_marked_level r2.
Proof.
  intros r1 r2 H. induction H as [|[k1 [c1 l1]] [k2 [c2 l2]] r1 r2 [Hk Hl] _ IH]; simpl; [reflexivity|].
  simpl in Hk, Hl. subst k2. rewrite IH.
  pose proof (same_elems_nil _ _ Hl) as Hn.
  destruct l1; destruct l2; auto.
  - exfalso. assert (m :: l2 = []) by (apply Hn; auto). discriminate.
  - exfalso. assert (m :: l1 = []) by (apply Hn; auto). discriminate.
Qed.

Lemma marks_any_container_l : forall st r1 r2 trunc,
  raw_equiv r1 r2 -> hs_refine st r1 trunc = hs_refine st r2 trunc.
Proof.
  intros st r1 r2 trunc H. unfold hs_refine. rewrite (max_marked_equiv _ _ H).
  destruct (max_marked_level r2) as [mx|]; auto.
  assert (E : forall L, map (fun k => of_list (marks_get r1 k)) (seq 0 L) = map (fun k => of_list (marks_get r2 k)) (seq 0 L)).
  { intros L. apply map_ext. intros k. apply of_list_ext. apply marks_get_equiv; auto. }
  rewrite E. reflexivity.
Qed.

(* ------------------------------------------------------------------------- *)
(* list plumbing                                                               *)

Lemma nth_app_same_default : forall (A : Type) (l : list A) (d : A) k, nth k (l ++ [d]) d = nth k l d.
Proof.
  induction l as [|x l IH]; intros d k; simpl.
  - destruct k as [|[|k]]; reflexivity.
  - destruct k; auto.
Qed.

Lemma nth_map_seq : forall (A : Type) (f : nat -> A) (d : A) n k, k < n -> nth k (map f (seq 0 n)) d = f k.
Proof.
  intros A f d n k H. rewrite (nth_indep _ d (f 0)) by (rewrite map_length, seq_length; auto).
  rewrite map_nth. rewrite seq_nth; auto.
Qed.

Lemma nth_map_seq_over : forall (A : Type) (f : nat -> A) (d : A) n k, n <= k -> nth k (map f (seq 0 n)) d = d.
Proof. intros. apply nth_overflow. rewrite map_length, seq_length; auto. Qed.

(* ------------------------------------------------------------------------- *)
(* products of ranges, children, parents                                       *)

Lemma In_prod_ranges : forall rs x,
  In x (prod_ranges rs) <-> Forall2 (fun r xi => fst r <= xi < snd r) rs x.
Proof.
  induction rs as [|[lo hi] rs IH]; intros x; simpl.
  - split.
    + intros [H|[]]; subst; constructor.
    + intros H; inversion H; auto.
  - rewrite in_flat_map. split.
    + intros [i [Hi Hx]]. apply in_map_iff in Hx. destruct Hx as [y [Hy Hin]]. subst x.
      apply in_seq in Hi. constructor; [simpl; lia | apply IH; auto].
    + intros H. inversion H as [|r xi rs' x' Hr Hrest]; subst. simpl in Hr.
      exists xi. split; [apply in_seq; lia|]. apply in_map. apply IH; auto.
Qed.

Lemma div2_range : forall a x, 2 * a <= x < 2 * a + 2 <-> a = Nat.div2 x.
Proof.
  intros a x. pose proof (Nat.div2_odd x) as H. destruct (Nat.odd x); simpl in H; lia.
Qed.

Lemma In_children1 : forall c0 c,
  In c (prod_ranges (map (fun ci => (2 * ci, 2 * ci + 2)) c0)) <-> c0 = parent1 c.
Proof.
  intros c0 c. rewrite In_prod_ranges. unfold parent1. revert c.
  induction c0 as [|a c0 IH]; intros c; simpl.
  - split; intros H.
    + inversion H; reflexivity.
    + destruct c; [constructor | discriminate].
  - split; intros H.
    + inversion H as [|r x rs c' Hr Hrest]; subst. simpl in Hr. simpl.
      apply div2_range in Hr. apply IH in Hrest. congruence.
    + destruct c as [|x c]; [discriminate|]. simpl in H. inversion H; subst.
      constructor; [simpl; apply div2_range; reflexivity | apply IH; reflexivity].
Qed.

(* c is a child of one of the cells  <->  its parent is one of the cells *)
Lemma In_cell_children : forall cells c, In c (cell_children cells) <-> In (parent1 c) cells.
Proof.
  intros cells c. unfold cell_children. rewrite in_flat_map. split.
  - intros [c0 [H0 Hc]]. apply In_children1 in Hc. subst; auto.
  - intros H. exists (parent1 c). split; auto. apply In_children1; reflexivity.
Qed.

(* ------------------------------------------------------------------------- *)
(* levels of the state after ensure_levels / refine                            *)

Definition A (st : hspace) (k : nat) : set := lv_active (lvl st k).
Definition D (st : hspace) (k : nat) : set := lv_deact (lvl st k).
Definition AF (st : hspace) (k : nat) : set := lv_actfun (lvl st k).
Definition DF (st : hspace) (k : nat) : set := lv_deactfun (lvl st k).

Lemma lvl_add_level : forall st k, lvl (add_level st) k = lvl st k.
Proof. intros; unfold lvl, add_level; simpl. apply nth_app_same_default. Qed.

Lemma numlevels_add_level : forall st, numlevels (add_level st) = S (numlevels st).
Proof. intros; unfold numlevels, add_level; simpl. rewrite app_length; simpl; lia. Qed.

Lemma lvl_iter_add : forall n st k, lvl (Nat.iter n add_level st) k = lvl st k.
Proof. induction n; intros; simpl; auto. rewrite lvl_add_level; auto. Qed.

Lemma numlevels_iter_add : forall n st, numlevels (Nat.iter n add_level st) = n + numlevels st.
Proof. induction n; intros; simpl; auto. rewrite numlevels_add_level, IHn; auto. Qed.

Lemma lvl_ensure : forall st L k, lvl (ensure_levels st L) k = lvl st k.
Proof. intros; apply lvl_iter_add. Qed.

Lemma numlevels_ensure : forall st L, numlevels (ensure_levels st L) = Nat.max (numlevels st) L.
Proof. intros; unfold ensure_levels. rewrite numlevels_iter_add. lia. Qed.

Lemma lvl_overflow : forall st k, numlevels st <= k -> lvl st k = empty_level.
Proof. intros; unfold lvl; apply nth_overflow; auto. Qed.

Lemma lvl_refined : forall ms st m disp k,
  lvl (mk_hspace ms (refine_levels st m) disp) k =
  if k <? numlevels st then refine_level st m k else empty_level.
Proof.
  intros. unfold lvl, refine_levels; simpl. destruct (k <? numlevels st) eqn:E.
  - apply Nat.ltb_lt in E. apply nth_map_seq; auto.
  - apply Nat.ltb_ge in E. apply nth_map_seq_over; auto.
Qed.

(* ------------------------------------------------------------------------- *)
(* the cell invariant and its preservation by HMesh.refine                     *)

(* marks (one set per level): currently active cells, none on the last level *)
Definition marks_valid (st : hspace) (m : list set) : Prop :=
  (forall k c, In c (mk m k) -> In c (A st k)) /\
  (forall k, numlevels st <= S k -> mk m k = []).

(* Omega_0 = all cells; Omega_{k+1} = children of the deactivated cells of level k;
   active and deactivated cells of a level partition Omega_k; nothing is deactivated on
   the last level *)
Record cells_inv (st : hspace) : Prop := {
  ci_disj : forall k c, In c (A st k) -> ~ In c (D st k);
  ci_root : forall c, (In c (A st 0) \/ In c (D st 0)) <-> In c (tp_cells (msh st 0));
  ci_nest : forall k c, (In c (A st (S k)) \/ In c (D st (S k))) <-> In (parent1 c) (D st k);
  ci_last : forall k c, numlevels st <= S k -> ~ In c (D st k);
  ci_pos : 1 <= numlevels st }.

Definition refined (st : hspace) (m : list set) : hspace :=
  mk_hspace (hs_meshes st) (refine_levels st m) (hs_disparity st).

Lemma numlevels_refined : forall st m, numlevels (refined st m) = numlevels st.
Proof. intros; unfold numlevels, refined, refine_levels; simpl. rewrite map_length, seq_length; auto. Qed.

Lemma msh_refined : forall st m k, msh (refined st m) k = msh st k.
Proof. reflexivity. Qed.

Lemma A_overflow : forall st k, numlevels st <= k -> A st k = [].
Proof. intros; unfold A; rewrite lvl_overflow; auto. Qed.
Lemma D_overflow : forall st k, numlevels st <= k -> D st k = [].
Proof. intros; unfold D; rewrite lvl_overflow; auto. Qed.

Lemma refined_A : forall st m, marks_valid st m -> 1 <= numlevels st -> forall k c,
  In c (A (refined st m) k) <->
  (In c (A st k) \/ (k <> 0 /\ In (parent1 c) (mk m (k - 1)))) /\ ~ In c (mk m k).
Proof.
  intros st m [Hact Hlast] Hpos k c. unfold A at 1, refined. rewrite lvl_refined.
  destruct (k <? numlevels st) eqn:E.
  - apply Nat.ltb_lt in E. unfold refine_level; simpl.
    fold (A st k).
    assert (Hnew : In c (of_list (if k =? 0 then [] else cell_children (mk m (k - 1)))) <->
                   (k <> 0 /\ In (parent1 c) (mk m (k - 1)))).
    { rewrite of_list_In. destruct (k =? 0) eqn:E0; [apply Nat.eqb_eq in E0 | apply Nat.eqb_neq in E0].
      { simpl. intuition. }
      { rewrite In_cell_children. tauto. } }
    destruct (numlevels st - 1 <=? k) eqn:El.
    + apply Nat.leb_le in El. rewrite union_In, Hnew. rewrite (Hlast k) by lia. simpl. tauto.
    + rewrite diff_In, union_In, Hnew. tauto.
  - apply Nat.ltb_ge in E. simpl. rewrite (A_overflow st k) by auto.
    rewrite (Hlast k) by lia. rewrite (Hlast (k - 1)) by lia. simpl. tauto.
Qed.

Lemma refined_D : forall st m, marks_valid st m -> forall k c,
  In c (D (refined st m) k) <-> In c (D st k) \/ In c (mk m k).
Proof.
  intros st m [Hact Hlast] k c. unfold D at 1, refined. rewrite lvl_refined.
  destruct (k <? numlevels st) eqn:E.
  - unfold refine_level; simpl. fold (D st k).
    destruct (numlevels st - 1 <=? k) eqn:El.
    + apply Nat.leb_le in El. rewrite (Hlast k) by lia. simpl. tauto.
    + rewrite union_In. tauto.
  - apply Nat.ltb_ge in E. simpl. rewrite (D_overflow st k) by auto. rewrite (Hlast k) by lia. simpl. tauto.
Qed.

Lemma cells_inv_refined : forall st m, cells_inv st -> marks_valid st m -> cells_inv (refined st m).
Proof.
  intros st m I V. pose proof V as [Hact Hlast].
  pose proof (refined_A st m V (ci_pos _ I)) as HA. pose proof (refined_D st m V) as HD.
  constructor.
  - (* disjoint *)
    intros k c Ha Hd. apply HA in Ha. apply HD in Hd. destruct Ha as [Ha Hnm].
    destruct Hd as [Hd|Hd]; [|tauto].
    destruct Ha as [Ha|[Hk Hp]].
    + apply (ci_disj _ I k c); auto.
    + destruct k as [|k]; [congruence|]. simpl in Hp. rewrite Nat.sub_0_r in Hp.
      assert (In (parent1 c) (D st k)) by (apply (ci_nest _ I); auto).
      apply (ci_disj _ I k (parent1 c)); auto.
  - (* root *)
    intros c. rewrite msh_refined. rewrite <- (ci_root _ I). rewrite HA, HD. simpl.
    destruct (In_dec_mi c (mk m 0)) as [Hm|Hm].
    + split; intros _; [left; apply Hact; auto | right; right; auto].
    + split; intros [H|H]; tauto.
  - (* nesting *)
    intros k c. rewrite HA, !HD. simpl. rewrite Nat.sub_0_r. rewrite <- (ci_nest _ I k c).
    destruct (In_dec_mi c (mk m (S k))) as [Hm|Hm].
    + split; intros _; [left; left; apply Hact; auto | right; right; auto].
    + split.
      * intros [[[H|[_ H]] _]|[H|H]]; tauto.
      * intros [[H|H]|H]; [left; split; auto | right; left; auto | left; split; auto].
  - (* last level *)
    intros k c Hk Hd. rewrite numlevels_refined in Hk. apply HD in Hd. destruct Hd as [Hd|Hd].
    + apply (ci_last _ I k c); auto.
    + rewrite (Hlast k) in Hd by auto. destruct Hd.
  - rewrite numlevels_refined. apply (ci_pos _ I).
Qed.

(* adding empty levels *)
Lemma msh0_add_level : forall st, 1 <= length (hs_meshes st) -> msh (add_level st) 0 = msh st 0.
Proof.
  intros st H. unfold msh, add_level; simpl. destruct (hs_meshes st); simpl in *; [lia | reflexivity].
Qed.

Definition meshes_ok (st : hspace) : Prop := length (hs_meshes st) = numlevels st.

Lemma meshes_ok_add : forall st, meshes_ok st -> meshes_ok (add_level st).
Proof. unfold meshes_ok, numlevels, add_level; intros; simpl. rewrite !app_length; simpl; lia. Qed.

Lemma cells_inv_add_level : forall st, meshes_ok st -> cells_inv st -> cells_inv (add_level st).
Proof.
  intros st M I. constructor; unfold A, D in *; intros.
  - rewrite lvl_add_level in *. eapply (ci_disj _ I); eauto.
  - rewrite !lvl_add_level. rewrite msh0_add_level. apply (ci_root _ I).
    rewrite M. apply (ci_pos _ I).
  - rewrite !lvl_add_level. apply (ci_nest _ I).
  - rewrite lvl_add_level. rewrite numlevels_add_level in H.
    destruct (Nat.eq_dec (numlevels st) (S k)) as [E|E].
    + fold (D st k). (* k is the old last level *)
      apply (ci_last _ I k c). lia.
    + apply (ci_last _ I k c). lia.
  - rewrite numlevels_add_level. pose proof (ci_pos _ I). lia.
Qed.

Lemma cells_inv_ensure : forall st L, meshes_ok st -> cells_inv st ->
  cells_inv (ensure_levels st L) /\ meshes_ok (ensure_levels st L).
Proof.
  intros st L M I. unfold ensure_levels. induction (L - numlevels st) as [|n [IH1 IH2]]; simpl; auto.
  split; [apply cells_inv_add_level; auto | apply meshes_ok_add; auto].
Qed.

(* ------------------------------------------------------------------------- *)
(* marks derived from the caller's dict are valid; so is their closure          *)

Definition raw_valid (st : hspace) (raw : rawmarks) : Prop :=
  forall k c, In c (marks_get raw k) -> In c (A st k).

Definition marks_of_raw (raw : rawmarks) (L : nat) : list set :=
  map (fun k => of_list (marks_get raw k)) (seq 0 L).

Lemma mk_marks_of_raw : forall raw L k,
  mk (marks_of_raw raw L) k = if k <? L then of_list (marks_get raw k) else [].
Proof.
  intros. unfold mk, marks_of_raw. destruct (k <? L) eqn:E.
  - apply Nat.ltb_lt in E. apply nth_map_seq; auto.
  - apply Nat.ltb_ge in E. apply nth_map_seq_over; auto.
Qed.

Lemma max_marked_bound : forall raw mx, max_marked_level raw = Some mx ->
  forall k, mx < k -> marks_get raw k = [].
Proof.
  induction raw as [|[k0 [c0 l0]] raw IH]; intros mx H k Hk; simpl in *; [reflexivity|].
  destruct l0 as [|x l0].
  - destruct (k0 =? k); auto. eapply IH; eauto.
  - destruct (max_marked_level raw) as [k'|] eqn:E.
    + injection H as <-. destruct (k0 =? k) eqn:E0; [apply Nat.eqb_eq in E0; lia|].
      apply (IH k'); auto. lia.
    + injection H as <-. destruct (k0 =? k) eqn:E0; [apply Nat.eqb_eq in E0; lia|].
      clear - E. revert k. induction raw as [|[k1 [c1 l1]] raw IH]; intros k; simpl in *; auto.
      destruct l1; [|destruct (max_marked_level raw); discriminate].
      destruct (k1 =? k); auto.
Qed.

Lemma marks_of_raw_valid : forall st raw mx,
  raw_valid st raw -> max_marked_level raw = Some mx -> mx + 2 <= numlevels st ->
  marks_valid st (marks_of_raw raw (numlevels st)).
Proof.
  intros st raw mx Hv Hmx HL. split.
  - intros k c. rewrite mk_marks_of_raw. destruct (k <? numlevels st); [|intros []].
    rewrite of_list_In. apply Hv.
  - intros k Hk. rewrite mk_marks_of_raw. destruct (k <? numlevels st); auto.
    rewrite (max_marked_bound raw mx Hmx k) by lia. reflexivity.
Qed.

Lemma length_set_nth : forall k x m, length (set_nth k x m) = length m.
Proof. intros k x m; revert k; induction m as [|y m IH]; intros [|k]; simpl; auto. Qed.

Lemma mk_set_nth : forall j x m k, j < length m ->
  mk (set_nth j x m) k = if k =? j then x else mk m k.
Proof.
  unfold mk. intros j x m; revert j; induction m as [|y m IH]; intros j k Hj; simpl in Hj; [lia|].
  destruct j as [|j]; destruct k as [|k]; simpl; auto.
  rewrite IH by lia. reflexivity.
Qed.

Lemma neighborhood_active : forall st d l cells trunc c,
  In c (cell_neighborhood st d l cells trunc) -> d <= l /\ In c (A st (l - d)).
Proof.
  intros st d l cells trunc c. unfold cell_neighborhood.
  destruct (l <? d) eqn:E; [intros []|]. apply Nat.ltb_ge in E.
  destruct trunc; rewrite inter_In; intros [H _]; auto.
Qed.

Lemma mark_recursive_valid : forall fuel st d l trunc m,
  1 <= d -> l < numlevels st -> length m = numlevels st -> marks_valid st m ->
  let m' := mark_recursive fuel st d l trunc m in
  length m' = numlevels st /\ marks_valid st m' /\ (forall k c, In c (mk m k) -> In c (mk m' k)).
Proof.
  induction fuel as [|fuel IH]; intros st d l trunc m Hd Hl Hlen V; simpl; [tauto|].
  destruct (is_empty (cell_neighborhood st d l (mk m l) trunc)) eqn:E; [tauto|].
  set (nb := cell_neighborhood st d l (mk m l) trunc) in *.
  assert (Hnb : d <= l).
  { destruct nb as [|c nb'] eqn:En; [discriminate|].
    apply (neighborhood_active st d l (mk m l) trunc c). fold nb. rewrite En. left; auto. }
  set (m1 := set_nth (l - d) (union (mk m (l - d)) nb) m).
  assert (Hlen1 : length m1 = numlevels st) by (unfold m1; rewrite length_set_nth; auto).
  assert (Hmk1 : forall k, mk m1 k = if k =? l - d then union (mk m (l - d)) nb else mk m k).
  { intros k. unfold m1. apply mk_set_nth. lia. }
  assert (V1 : marks_valid st m1).
  { destruct V as [Va Vl]. split.
    - intros k c. rewrite Hmk1. destruct (k =? l - d) eqn:Ek; auto.
      apply Nat.eqb_eq in Ek; subst k. rewrite union_In. intros [H|H]; auto.
      apply (neighborhood_active st d l (mk m l) trunc c). auto.
    - intros k Hk. rewrite Hmk1. destruct (k =? l - d) eqn:Ek; auto.
      apply Nat.eqb_eq in Ek. lia. }
  destruct (IH st d (l - d) trunc m1 Hd ltac:(lia) Hlen1 V1) as [H1 [H2 H3]].
  split; [auto|]. split; [auto|].
  intros k c Hc. apply H3. rewrite Hmk1. destruct (k =? l - d) eqn:Ek; auto.
  apply Nat.eqb_eq in Ek; subst k. apply union_In; auto.
Qed.

Lemma mark_closure_valid : forall st d trunc m,
  1 <= d -> length m = numlevels st -> marks_valid st m ->
  marks_valid st (mark_closure st d trunc m) /\
  (forall k c, In c (mk m k) -> In c (mk (mark_closure st d trunc m) k)).
Proof.
  intros st d trunc m Hd Hlen V. unfold mark_closure.
  assert (G : forall ls m0, (forall l, In l ls -> l < numlevels st) -> length m0 = numlevels st -> marks_valid st m0 ->
     let r := fold_left (fun m l => mark_recursive (S l) st d l trunc m) ls m0 in
     length r = numlevels st /\ marks_valid st r /\ (forall k c, In c (mk m0 k) -> In c (mk r k))).
  { induction ls as [|l ls IH]; intros m0 Hls Hl0 V0; simpl; [tauto|].
    destruct (mark_recursive_valid (S l) st d l trunc m0 Hd (Hls l (or_introl eq_refl)) Hl0 V0) as [H1 [H2 H3]].
    destruct (IH _ (fun l' H => Hls l' (or_intror H)) H1 H2) as [H4 [H5 H6]].
    split; [auto|]. split; [auto|]. intros; apply H6, H3; auto. }
  destruct (G (seq 0 (numlevels st)) m (fun l H => proj2 (proj1 (in_seq _ _ _) H)) Hlen V) as [_ [H2 H3]].
  auto.
Qed.

(* ------------------------------------------------------------------------- *)
(* every reachable state satisfies the cell invariant                          *)

Definition disp_ok (st : hspace) : Prop := forall d, hs_disparity st = Some d -> 1 <= d.

Record good (st : hspace) : Prop := {
  g_cells : cells_inv st;
  g_meshes : meshes_ok st;
  g_disp : disp_ok st }.

Lemma disparity_ensure : forall st L, hs_disparity (ensure_levels st L) = hs_disparity st.
Proof.
  intros; unfold ensure_levels. induction (L - numlevels st); simpl; auto.
Qed.

Lemma good_ensure : forall st L, good st -> good (ensure_levels st L).
Proof.
  intros st L [I M Dp]. destruct (cells_inv_ensure st L M I). constructor; auto.
  unfold disp_ok. rewrite disparity_ensure. auto.
Qed.

Lemma good_init : forall axes disp, (forall d, disp = Some d -> 1 <= d) -> good (hs_init axes disp).
Proof.
  intros axes disp Hd. constructor; [constructor| |]; unfold A, D, lvl, hs_init; simpl.
  - intros [|[|k]] c; simpl; auto.
  - intros c. tauto.
  - intros [|k] c; simpl; [tauto|]. destruct k; simpl; tauto.
  - intros [|[|k]] c _; simpl; auto.
  - unfold numlevels; simpl; lia.
  - reflexivity.
  - exact Hd.
Qed.

(* the marks actually refined by hs_refine *)
Lemma hs_refine_spec : forall st raw trunc st' m,
  good st -> raw_valid st raw -> hs_refine st raw trunc = Ok (st', m) ->
  exists mx, max_marked_level raw = Some mx /\
    let st1 := ensure_levels st (mx + 2) in
    st' = refined st1 m /\ marks_valid st1 m /\
    (forall k c, In c (marks_get raw k) -> In c (mk m k)).
Proof.
  intros st raw trunc st' m G Hv H. unfold hs_refine in H.
  destruct (max_marked_level raw) as [mx|] eqn:Emx; [|discriminate].
  exists mx. split; auto. simpl.
  set (st1 := ensure_levels st (mx + 2)) in *.
  assert (HL : mx + 2 <= numlevels st1) by (unfold st1; rewrite numlevels_ensure; lia).
  assert (Hv1 : raw_valid st1 raw).
  { intros k c Hc. unfold A, st1. rewrite lvl_ensure. apply Hv; auto. }
  pose proof (marks_of_raw_valid st1 raw mx Hv1 Emx HL) as V0.
  fold (marks_of_raw raw (numlevels st1)) in H.
  assert (Hin0 : forall k c, In c (marks_get raw k) -> In c (mk (marks_of_raw raw (numlevels st1)) k)).
  { intros k c Hc. rewrite mk_marks_of_raw. destruct (k <? numlevels st1) eqn:E.
    - apply of_list_In; auto.
    - apply Nat.ltb_ge in E. rewrite (max_marked_bound raw mx Emx k) in Hc by lia. destruct Hc. }
  destruct (hs_disparity st1) as [d|] eqn:Ed.
  - assert (Hd : 1 <= d).
    { apply (g_disp _ G). unfold st1 in Ed. rewrite disparity_ensure in Ed. auto. }
    assert (Hlen : length (marks_of_raw raw (numlevels st1)) = numlevels st1).
    { unfold marks_of_raw. rewrite map_length, seq_length; auto. }
    destruct (mark_closure_valid st1 d trunc _ Hd Hlen V0) as [V1 Hsup].
    inversion H; subst. unfold refined. rewrite Ed. split; [reflexivity|]. split; auto.
  - inversion H; subst. unfold refined. rewrite Ed. split; [reflexivity|]. split; auto.
Qed.

Lemma good_refined : forall st m, good st -> marks_valid st m -> good (refined st m).
Proof.
  intros st m [I M Dp] V. constructor.
  - apply cells_inv_refined; auto.
  - unfold meshes_ok in *. rewrite numlevels_refined. exact M.
  - exact Dp.
Qed.

Lemma good_hs_refine : forall st raw trunc st' m,
  good st -> raw_valid st raw -> hs_refine st raw trunc = Ok (st', m) -> good st'.
Proof.
  intros st raw trunc st' m G Hv H.
  destruct (hs_refine_spec _ _ _ _ _ G Hv H) as [mx [_ [E [V _]]]]. subst st'.
  apply good_refined; auto. apply good_ensure; auto.
Qed.

(* a call is admissible when its marks are currently active cells (refine_region
   selects among the active cells by construction) *)
Definition op_valid (st : hspace) (o : op) : Prop :=
  match o with
  | Refine raw _ => raw_valid st raw
  | RefineRegion _ _ => True
  end.

Fixpoint ops_valid (st : hspace) (ops : list op) : Prop :=
  match ops with
  | [] => True
  | o :: r => op_valid st o /\ ops_valid (fst (step st o)) r
  end.

Lemma good_step : forall st o, good st -> op_valid st o -> good (fst (step st o)).
Proof.
  intros st [raw trunc|lv sel] G V; simpl.
  - destruct (hs_refine st raw trunc) as [[st' m]| |] eqn:E; simpl; auto.
    eapply good_hs_refine; eauto.
  - unfold hs_refine_region.
    set (st1 := ensure_levels st (lv + 2)).
    assert (G1 : good st1) by (apply good_ensure; auto).
    destruct (hs_refine st1 _ false) as [[st' m]| |] eqn:E; simpl; auto.
    eapply good_hs_refine; [exact G1 | | exact E].
    intros k c. simpl. destruct (lv =? k) eqn:Ek; [|intros []].
    apply Nat.eqb_eq in Ek; subst k. rewrite filter_In. tauto.
Qed.

Lemma good_run : forall ops st, good st -> ops_valid st ops -> good (run st ops).
Proof.
  induction ops as [|o ops IH]; intros st G V; simpl; auto.
  destruct V as [V1 V2]. apply IH; auto. apply good_step; auto.
Qed.

Lemma reachable_cells_inv_l : forall axes disp ops,
  (forall d, disp = Some d -> 1 <= d) ->
  ops_valid (hs_init axes disp) ops ->
  cells_inv (run (hs_init axes disp) ops).
Proof. intros. apply g_cells. apply good_run; auto. apply good_init; auto. Qed.

(* ------------------------------------------------------------------------- *)
(* tiling: every cell of the finest level has exactly one active ancestor-or-self *)

Lemma anc_S : forall j c, anc (S j) c = parent1 (anc j c).
Proof. reflexivity. Qed.

Section Tiling.
  Variable st : hspace.
  Variable n : nat.
  Variable c : mi.
  Hypothesis I : cells_inv st.
  Hypothesis HL : S n = numlevels st.

  Let a (k : nat) : mi := anc (n - k) c.

  Lemma a_parent : forall k, S k <= n -> parent1 (a (S k)) = a k.
  Proof. intros k H. unfold a. rewrite <- anc_S. f_equal. lia. Qed.

  Lemma tile_down : forall k, k <= n -> (In (a k) (A st k) \/ In (a k) (D st k)) ->
    forall j, j < k -> In (a j) (D st j).
  Proof.
    induction k as [|k IH]; intros Hk Hom j Hj; [lia|].
    assert (Hp : In (a k) (D st k)).
    { rewrite <- a_parent by lia. apply (ci_nest _ I). auto. }
    destruct (Nat.eq_dec j k) as [->|Hne]; auto.
    apply IH; auto; lia.
  Qed.

  Lemma tile_up : In (a 0) (tp_cells (msh st 0)) -> forall k, k <= n ->
    (In (a k) (A st k) \/ In (a k) (D st k)) \/ exists j, j < k /\ In (a j) (A st j).
  Proof.
    intros H0. induction k as [|k IH]; intros Hk.
    - left. apply (ci_root _ I). auto.
    - destruct (IH ltac:(lia)) as [[Ha|Hd]|[j [Hj Ha]]].
      + right. exists k. split; auto.
      + left. apply (ci_nest _ I). rewrite a_parent by lia. auto.
      + right. exists j. split; auto.
  Qed.

  Lemma tiling_l : In (anc n c) (tp_cells (msh st 0)) ->
    exists k, k <= n /\ In (anc (n - k) c) (A st k) /\
      forall k', k' <= n -> In (anc (n - k') c) (A st k') -> k' = k.
  Proof.
    intros H0. assert (H0' : In (a 0) (tp_cells (msh st 0))) by (unfold a; rewrite Nat.sub_0_r; auto).
    assert (Hex : exists k, k <= n /\ In (a k) (A st k)).
    { destruct (tile_up H0' n (le_n _)) as [[Ha|Hd]|[j [Hj Ha]]].
      - exists n; auto.
      - exfalso. apply (ci_last _ I n (a n)); auto. lia.
      - exists j; split; auto; lia. }
    destruct Hex as [k [Hk Ha]]. exists k. split; auto. split; auto.
    intros k' Hk' Ha'. fold (a k') in Ha'.
    destruct (Nat.lt_trichotomy k' k) as [Hlt|[->|Hlt]]; auto; exfalso.
    - apply (ci_disj _ I k' (a k')); auto. apply (tile_down k Hk (or_introl Ha)); auto.
    - apply (ci_disj _ I k (a k)); auto. apply (tile_down k' Hk' (or_introl Ha')); auto.
  Qed.
End Tiling.

(* ------------------------------------------------------------------------- *)
(* canonical order: every set of a reachable state is strictly sorted, so the flat lists
   are strictly increasing in (level, lexicographic multi-index)                        *)

Record level_sorted (l : level) : Prop := {
  ls_a : sorted (lv_active l); ls_d : sorted (lv_deact l);
  ls_af : sorted (lv_actfun l); ls_df : sorted (lv_deactfun l) }.

Definition all_sorted (st : hspace) : Prop := forall k, level_sorted (lvl st k).
Definition marks_sorted (m : list set) : Prop := forall k, sorted (mk m k).

Lemma empty_level_sorted : level_sorted empty_level.
Proof. constructor; apply sorted_nil. Qed.

Lemma refine_level_sorted : forall st m k, all_sorted st -> marks_sorted m -> level_sorted (refine_level st m k).
Proof.
  intros st m k S M. destruct (S k) as [Sa Sd Saf Sdf]. unfold refine_level.
  constructor; simpl.
  - destruct (numlevels st - 1 <=? k); [|apply diff_sorted]; apply union_sorted; auto; apply of_list_sorted.
  - destruct (numlevels st - 1 <=? k); auto. apply union_sorted; auto.
  - destruct (numlevels st - 1 <=? k); [|apply diff_sorted]; apply union_sorted; auto;
      apply filter_sorted; apply diff_sorted.
    + clear. generalize (if k =? 0 then [] else cell_children (mk m (k - 1))). intros l.
      unfold supported_in. assert (G : forall acc, sorted acc -> sorted (fold_left (fun acc c => union acc (supported_in1 (msh st k) c)) l acc)).
      { induction l; simpl; auto. intros; apply IHl. apply union_sorted; auto. apply of_list_sorted. }
      apply G. apply sorted_nil.
    + clear. generalize (if k =? 0 then [] else cell_children (mk m (k - 1))). intros l.
      unfold supported_in. assert (G : forall acc, sorted acc -> sorted (fold_left (fun acc c => union acc (supported_in1 (msh st k) c)) l acc)).
      { induction l; simpl; auto. intros; apply IHl. apply union_sorted; auto. apply of_list_sorted. }
      apply G. apply sorted_nil.
  - destruct (numlevels st - 1 <=? k); auto. apply union_sorted; auto.
    destruct (is_empty (mk m k)); [apply sorted_nil|]. apply filter_sorted. apply inter_sorted.
    unfold supported_in. generalize (mk m k). intros l.
    assert (G : forall acc, sorted acc -> sorted (fold_left (fun acc c => union acc (supported_in1 (msh st k) c)) l acc)).
    { induction l; simpl; auto. intros; apply IHl. apply union_sorted; auto. apply of_list_sorted. }
    apply G. apply sorted_nil.
Qed.

Lemma all_sorted_refined : forall st m, all_sorted st -> marks_sorted m -> all_sorted (refined st m).
Proof.
  intros st m S M k. unfold refined. rewrite lvl_refined.
  destruct (k <? numlevels st); [apply refine_level_sorted; auto | apply empty_level_sorted].
Qed.

Lemma all_sorted_ensure : forall st L, all_sorted st -> all_sorted (ensure_levels st L).
Proof. intros st L S k. rewrite lvl_ensure. apply S. Qed.

Lemma marks_of_raw_sorted : forall raw L, marks_sorted (marks_of_raw raw L).
Proof.
  intros raw L k. rewrite mk_marks_of_raw. destruct (k <? L); [apply of_list_sorted | apply sorted_nil].
Qed.

Lemma mk_set_nth_sorted : forall j x m, marks_sorted m -> sorted x -> marks_sorted (set_nth j x m).
Proof.
  intros j x m M Sx k. destruct (Nat.lt_ge_cases j (length m)) as [H|H].
  - rewrite mk_set_nth by auto. destruct (k =? j); auto.
  - assert (E : set_nth j x m = m).
    { clear - H. revert j H. induction m as [|y m IH]; intros [|j] H; simpl in *; auto; try lia.
      f_equal. apply IH. lia. }
    rewrite E. apply M.
Qed.

Lemma mark_recursive_sorted : forall fuel st d l trunc m,
  all_sorted st -> marks_sorted m -> marks_sorted (mark_recursive fuel st d l trunc m).
Proof.
  induction fuel as [|fuel IH]; intros st d l trunc m S M; simpl; auto.
  destruct (is_empty (cell_neighborhood st d l (mk m l) trunc)); auto.
  apply IH; auto. apply mk_set_nth_sorted; auto. apply union_sorted; auto.
  unfold cell_neighborhood. destruct (l <? d); [apply sorted_nil|].
  destruct trunc; apply inter_sorted; apply (ls_a _ (S (l - d))).
Qed.

Lemma mark_closure_sorted : forall st d trunc m, all_sorted st -> marks_sorted m -> marks_sorted (mark_closure st d trunc m).
Proof.
  intros st d trunc m S M. unfold mark_closure. revert m M.
  induction (seq 0 (numlevels st)) as [|l ls IH]; intros m M; [exact M|].
  cbn [fold_left]. apply IH. apply mark_recursive_sorted; auto.
Qed.

Lemma all_sorted_hs_refine : forall st raw trunc st' m,
  all_sorted st -> hs_refine st raw trunc = Ok (st', m) -> all_sorted st'.
Proof.
  intros st raw trunc st' m S H. unfold hs_refine in H.
  destruct (max_marked_level raw) as [mx|]; [|discriminate].
  set (st1 := ensure_levels st (mx + 2)) in *.
  assert (S1 : all_sorted st1) by (apply all_sorted_ensure; auto).
  fold (marks_of_raw raw (numlevels st1)) in H.
  destruct (hs_disparity st1) as [d|]; inversion H; subst.
  - apply (all_sorted_refined st1); auto. apply mark_closure_sorted; auto. apply marks_of_raw_sorted.
  - apply (all_sorted_refined st1); auto. apply marks_of_raw_sorted.
Qed.

Lemma all_sorted_step : forall st o, all_sorted st -> all_sorted (fst (step st o)).
Proof.
  intros st [raw trunc|lv sel] S; simpl.
  - destruct (hs_refine st raw trunc) as [[st' m]| |] eqn:E; simpl; auto.
    eapply all_sorted_hs_refine; eauto.
  - unfold hs_refine_region. set (st1 := ensure_levels st (lv + 2)).
    assert (S1 : all_sorted st1) by (apply all_sorted_ensure; auto).
    destruct (hs_refine st1 _ false) as [[st' m]| |] eqn:E; simpl; auto.
    eapply all_sorted_hs_refine; eauto.
Qed.

Lemma all_sorted_init : forall axes disp, all_sorted (hs_init axes disp).
Proof.
  intros axes disp [|k]; unfold lvl, hs_init; simpl.
  - constructor; simpl; try apply sorted_nil; apply of_list_sorted.
  - destruct k; apply empty_level_sorted.
Qed.

Lemma all_sorted_run : forall ops st, all_sorted st -> all_sorted (run st ops).
Proof.
  induction ops as [|o ops IH]; intros st S; simpl; auto. apply IH. apply all_sorted_step; auto.
Qed.

(* the order of the flat lists *)
Definition flat_lt (x y : nat * mi) : Prop := fst x < fst y \/ (fst x = fst y /\ mi_lt (snd x) (snd y)).

Lemma StronglySorted_app : forall (T : Type) (R : T -> T -> Prop) l1 l2,
  StronglySorted R l1 -> StronglySorted R l2 ->
  (forall x y, In x l1 -> In y l2 -> R x y) -> StronglySorted R (l1 ++ l2).
Proof.
  intros T R l1 l2 H1 H2 H12. induction H1 as [|x l1 Hs IH Hall]; simpl; auto.
  constructor.
  - apply IH. intros; apply H12; auto. right; auto.
  - apply Forall_app; split; auto. rewrite Forall_forall. intros y Hy. apply H12; auto. left; auto.
Qed.

Lemma flat_sorted_gen : forall (f : nat -> set) n lo,
  (forall k, sorted (f k)) ->
  StronglySorted flat_lt (flat_map (fun k => map (pair k) (f k)) (seq lo n)) /\
  (forall x, In x (flat_map (fun k => map (pair k) (f k)) (seq lo n)) -> lo <= fst x).
Proof.
  intros f n. induction n as [|n IH]; intros lo HS; simpl; [split; [constructor | intros x []]|].
  destruct (IH (Datatypes.S lo) HS) as [IH1 IH2].
  assert (Hhd : StronglySorted flat_lt (map (pair lo) (f lo))).
  { specialize (HS lo). apply sorted_strong in HS. induction HS as [|x s Hs IHs Hall]; simpl; constructor; auto.
    rewrite Forall_forall in *. intros y Hy. apply in_map_iff in Hy. destruct Hy as [z [<- Hz]].
    right; simpl; split; auto. }
  split.
  - apply StronglySorted_app; auto.
    intros x y Hx Hy. apply in_map_iff in Hx. destruct Hx as [z [<- _]].
    left. simpl. specialize (IH2 y Hy). lia.
  - intros x Hx. apply in_app_or in Hx. destruct Hx as [Hx|Hx].
    + apply in_map_iff in Hx. destruct Hx as [z [<- _]]. simpl; lia.
    + specialize (IH2 x Hx). lia.
Qed.

Lemma canonical_cells_l : forall st, all_sorted st -> StronglySorted flat_lt (active_cells_flat st).
Proof.
  intros st HS. unfold active_cells_flat.
  apply (flat_sorted_gen (fun k => lv_active (lvl st k)) (numlevels st) 0). intros k; apply (ls_a _ (HS k)).
Qed.

Lemma canonical_functions_l : forall st, all_sorted st -> StronglySorted flat_lt (active_functions_flat st).
Proof.
  intros st HS. unfold active_functions_flat.
  apply (flat_sorted_gen (fun k => lv_actfun (lvl st k)) (numlevels st) 0). intros k; apply (ls_af _ (HS k)).
Qed.

Lemma canonical_order_l : forall axes disp ops,
  let st := run (hs_init axes disp) ops in
  StronglySorted flat_lt (active_cells_flat st) /\ StronglySorted flat_lt (active_functions_flat st).
Proof.
  intros. assert (all_sorted st) by (apply all_sorted_run; apply all_sorted_init).
  split; [apply canonical_cells_l | apply canonical_functions_l]; auto.
Qed.

(* the flat lists enumerate exactly the active cells / functions *)
Lemma flat_cells_In : forall st k c, In (k, c) (active_cells_flat st) <-> k < numlevels st /\ In c (A st k).
Proof.
  intros. unfold active_cells_flat. rewrite in_flat_map. split.
  - intros [j [Hj Hc]]. apply in_map_iff in Hc. destruct Hc as [z [E Hz]]. inversion E; subst.
    apply in_seq in Hj. split; [lia | auto].
  - intros [Hk Hc]. exists k. split; [apply in_seq; lia | apply in_map; auto].
Qed.

Lemma flat_functions_In : forall st k f, In (k, f) (active_functions_flat st) <-> k < numlevels st /\ In f (AF st k).
Proof.
  intros. unfold active_functions_flat. rewrite in_flat_map. split.
  - intros [j [Hj Hc]]. apply in_map_iff in Hc. destruct Hc as [z [E Hz]]. inversion E; subst.
    apply in_seq in Hj. split; [lia | auto].
  - intros [Hk Hc]. exists k. split; [apply in_seq; lia | apply in_map; auto].
Qed.

Lemma active_cells_tile_l : forall axes disp ops n c,
  (forall d, disp = Some d -> 1 <= d) ->
  ops_valid (hs_init axes disp) ops ->
  let st := run (hs_init axes disp) ops in
  S n = numlevels st ->
  In (anc n c) (tp_cells (msh st 0)) ->
  exists k, k <= n /\ In (anc (n - k) c) (A st k) /\
    forall k', k' <= n -> In (anc (n - k') c) (A st k') -> k' = k.
Proof.
  intros axes disp ops n c Hd Hv st HL. apply tiling_l; auto.
  apply reachable_cells_inv_l; auto.
Qed.

Lemma flat_lists_complete_l : forall st k x,
  (In (k, x) (active_cells_flat st) <-> k < numlevels st /\ In x (A st k)) /\
  (In (k, x) (active_functions_flat st) <-> k < numlevels st /\ In x (AF st k)).
Proof. intros; split; [apply flat_cells_In | apply flat_functions_In]. Qed.
