(* C18 -- proofs, fifth part: the energy identity behind the error history of the greedy Tucker
   approximation: for an orthonormal family q_0..q_{m-1} (the products of the columns of the bases U_j
   that gta keeps orthonormal) the error of the orthogonal projection satisfies
   ||a - P_m a||^2 = ||a||^2 - sum_k <q_k,a>^2, and extending the family by one vector lowers the
   squared error by exactly the square <q_m,a>^2. *)
From Coq Require Import List Arith Bool Lia Ring.
From Verif.C18 Require Import Model Proofs.
Import ListNotations.

Section Energy.
Variable R : Type.
Variables (rO rI : R) (radd rmul rsub : R -> R -> R) (ropp : R -> R).
Variable Rth : ring_theory rO rI radd rmul rsub ropp (@eq R).
Add Ring Rring5 : Rth.

Local Notation "0" := rO.
Local Notation "1" := rI.
Local Infix "+" := radd.
Local Infix "*" := rmul.
Local Infix "-" := rsub.
Local Notation sumn := (Model.sumn R rO radd).
Local Notation sumn_ext := (Proofs.sumn_ext R rO radd).
Local Notation sumn_add := (Proofs.sumn_add R rO rI radd rmul rsub ropp Rth).
Local Notation sumn_mul_l := (Proofs.sumn_mul_l R rO rI radd rmul rsub ropp Rth).
Local Notation sumn_mul_r := (Proofs.sumn_mul_r R rO rI radd rmul rsub ropp Rth).
Local Notation sumn_swap := (Proofs.sumn_swap R rO rI radd rmul rsub ropp Rth).
Local Notation sumn_zero := (Proofs.sumn_zero R rO rI radd rmul rsub ropp Rth).
Local Notation sumn_split := (Proofs.sumn_split R rO rI radd rmul rsub ropp Rth).

Variable n : nat.                                  (* number of entries of the (vectorised) tensor *)
Definition dot (x y : nat -> R) : R := sumn n (fun i => x i * y i).
Variable q : nat -> nat -> R.                      (* q k = k-th basis vector *)
Definition orthonormal (m : nat) : Prop :=
  forall k l, k < m -> l < m -> dot (q k) (q l) = if (k =? l)%nat then 1 else 0.
Definition coef (a : nat -> R) (k : nat) : R := dot (q k) a.
Definition proj (m : nat) (a : nat -> R) : nat -> R := fun i => sumn m (fun k => coef a k * q k i).
Definition resid (m : nat) (a : nat -> R) : nat -> R := fun i => a i - proj m a i.

Lemma sumn_last m (f : nat -> R) : sumn (S m) f = sumn m f + f m.
Proof.
  replace (S m) with (m + 1)%nat by lia. rewrite (sumn_split m 1%nat).
  unfold Model.sumn at 2. simpl. rewrite Nat.add_0_r. ring.
Qed.

Lemma dot_ext x x' y : (forall i, x i = x' i) -> dot x y = dot x' y.
Proof. intros H. apply sumn_ext. intros i _. rewrite H. reflexivity. Qed.

Lemma dot_sub_scale e qv c :
  dot (fun i => e i - c * qv i) (fun i => e i - c * qv i)
  = dot e e - (c + c) * dot e qv + c * c * dot qv qv.
Proof.
  unfold dot.
  rewrite (sumn_ext _ _ (fun i => e i * e i + ((0 - (c + c)) * (e i * qv i) + (c * c) * (qv i * qv i))))
    by (intros; ring).
  rewrite !sumn_add, !sumn_mul_l. ring.
Qed.

Lemma resid_S m a i : resid (S m) a i = resid m a i - coef a m * q m i.
Proof. unfold resid, proj. rewrite sumn_last. ring. Qed.

(* the residual is orthogonal to the next basis vector up to <a, q_m> *)
Lemma resid_dot_next m a : orthonormal (S m) -> dot (resid m a) (q m) = coef a m.
Proof.
  intros HO. unfold resid, proj, dot.
  rewrite (sumn_ext _ _ (fun i => q m i * a i + (0 - 1) * sumn m (fun k => coef a k * (q k i * q m i)))).
  2:{ intros i _.
      rewrite (sumn_ext m (fun k => coef a k * (q k i * q m i)) (fun k => (coef a k * q k i) * q m i)) by (intros; ring).
      rewrite (sumn_mul_r m (q m i) (fun k => coef a k * q k i)). ring. }
  rewrite sumn_add, sumn_mul_l, sumn_swap.
  rewrite (sumn_zero m).
  - unfold coef, dot. ring.
  - intros k Hk. rewrite sumn_mul_l.
    change (sumn n (fun i => q k i * q m i)) with (dot (q k) (q m)).
    rewrite HO by lia. destruct (Nat.eqb_spec k m); [lia|ring].
Qed.

(* extending the orthonormal family by one vector lowers the squared error by the square <q_m,a>^2 *)
Lemma energy_step m a : orthonormal (S m) ->
  dot (resid (S m) a) (resid (S m) a) = dot (resid m a) (resid m a) - coef a m * coef a m.
Proof.
  intros HO.
  rewrite (dot_ext _ (fun i => resid m a i - coef a m * q m i)) by (intros; apply resid_S).
  unfold dot at 1.
  rewrite (sumn_ext _ _ (fun i => (resid m a i - coef a m * q m i) * (resid m a i - coef a m * q m i)))
    by (intros i _; rewrite resid_S; reflexivity).
  change (sumn n (fun i => (resid m a i - coef a m * q m i) * (resid m a i - coef a m * q m i)))
    with (dot (fun i => resid m a i - coef a m * q m i) (fun i => resid m a i - coef a m * q m i)).
  rewrite dot_sub_scale, resid_dot_next by exact HO.
  rewrite (HO m m) by lia. rewrite Nat.eqb_refl. ring.
Qed.

(* ||a - P_m a||^2 = ||a||^2 - sum_{k<m} <q_k,a>^2 *)
Lemma energy_identity m a : orthonormal m ->
  dot (resid m a) (resid m a) = dot a a - sumn m (fun k => coef a k * coef a k).
Proof.
  induction m as [|m IH]; intros HO.
  - assert (E : dot (resid 0 a) (resid 0 a) = dot a a).
    { apply sumn_ext. intros i _. unfold resid, proj, Model.sumn. simpl. ring. }
    rewrite E. unfold Model.sumn at 1. simpl. ring.
  - rewrite energy_step by exact HO. rewrite IH.
    + rewrite sumn_last. ring.
    + intros k l Hk Hl. apply HO; lia.
Qed.

End Energy.
