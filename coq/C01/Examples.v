(* C01 -- non-vacuity: concrete inputs meet the hypotheses of each theorem, and the model
   computes what the code is known to compute on small cases. *)
From Coq Require Import List Arith Bool Lia ZArith QArith.
From Verif.C01 Require Import Model Proofs.
Import ListNotations.
Close Scope Q_scope. Open Scope nat_scope.

(* sym_index_to_seq for n = 3 enumerates the upper triangle row by row *)
Example ex_sym3 : map (fun ij => sym_index_to_seq 3 (fst ij) (snd ij))
                      [(0,0);(0,1);(0,2);(1,1);(1,2);(2,2);(2,0);(1,0)] = [0;1;2;3;4;5;2;1].
Proof. vm_compute. reflexivity. Qed.

(* a symmetric 3x3 variable after a vector and a scalar: offsets 0, 3, 4, total 10 *)
Definition ex_vars := [mkVar [3] false; mkVar [] false; mkVar [3;3] true; mkVar [2;3] false].
Example ex_alloc : allocate_array ex_vars = ([(3,0);(1,3);(6,4);(6,10)], 16).
Proof. vm_compute. reflexivity. Qed.
Example ex_wf : Forall wf_var ex_vars.
Proof. repeat constructor. Qed.
Example ex_valid : valid_index (nth 2 ex_vars dvar) [2;1] /\ valid_index (nth 3 ex_vars dvar) [1;2].
Proof. split; repeat constructor. Qed.
Example ex_slot : var_ref_slot ex_vars 2 [2;1] = 8 /\ var_ref_slot ex_vars 2 [1;2] = 8
                  /\ var_ref_slot ex_vars 3 [1;2] = 15.
Proof. vm_compute. auto. Qed.
Example ex_assigned : assigned_entries 3 3 true = [(0,0);(0,1);(0,2);(1,1);(1,2);(2,2)].
Proof. vm_compute. reflexivity. Qed.

(* gen_pderiv for D = (Dx,Dy,Dz) = (2,0,1), numderiv 2: axis 0 (z) reads offset 1, axis 2 (x) offset 2 *)
Example ex_pderiv : gen_pderiv 3 2 [2;0;1] = [(0,3,1);(1,3,0);(2,3,2)].
Proof. vm_compute. reflexivity. Qed.

(* from_seq3 / ravel on shape (2,3,4) *)
Example ex_from_seq : from_seq [2;3;4] 17 = [1;1;1] /\ ravel_multi_index [1;1;1] [2;3;4] = 17.
Proof. vm_compute. auto. Qed.
Example ex_in_range : Forall2 lt [1;1;1] [2;3;4].
Proof. repeat constructor. Qed.

(* next_lexicographic2 on ndofs (2,3): visits (0,0),(0,1),(0,2),(1,0),(1,1),(1,2); lists are last-axis-first *)
Example ex_visit : visit_r 6 [0;0] [0;0] [3;2] = [[0;0];[1;0];[2;0];[0;1];[1;1];[2;1]].
Proof. vm_compute. reflexivity. Qed.
Example ex_pos : Forall (fun e => 0 < e) [3;2].
Proof. repeat constructor. Qed.

(* knot vector (0,0,0,1/2,1/2,1,1,1)*2, p = 2, nqp = 3: supports in Gauss-node units *)
Example ex_meshsupp : meshsupp 3 2 [0;0;0;1;1;2;2;2]%Z = [(0,3);(0,3);(0,6);(3,6);(3,6)].
Proof. vm_compute. reflexivity. Qed.
Example ex_nqp_spaces : nqp_spaces [1;1] [1;3] = 4 /\ nqp_spaces [3;1] [1;2] = 4 /\ nqp_spaces [2] [2] = 3.
Proof. vm_compute. auto. Qed.
Example ex_nqp : nqp [2;3;1] = 4.
Proof. vm_compute. reflexivity. Qed.

(* the entry loop over (nat, 0, +): supports [0,6) x [3,9) and [3,9) x [0,6) on a 9 x 9 grid of
   nodes; the integrand is the indicator of the joint support times a weight: hypotheses of
   entry_is_full_gauss_sum hold and both sides are 9 * 7 = 63 *)
Definition ex_s1 := [(0,6);(3,9)].
Definition ex_s2 := [(3,9);(0,6)].
Definition ex_f (idx : list nat) : nat := if in_box ex_s1 idx && in_box ex_s2 idx then 7 else 0.
Example ex_entry : entry_impl nat 0 Nat.add ex_s1 ex_s2 ex_f = 63
  /\ sum_box nat 0 Nat.add (full_box [9;9]) ex_f = 63.
Proof. vm_compute. auto. Qed.
Example ex_local : forall idx, in_box ex_s1 idx = false \/ in_box ex_s2 idx = false -> ex_f idx = 0.
Proof. intros idx [H|H]; unfold ex_f; rewrite H; [reflexivity | rewrite andb_false_r; reflexivity]. Qed.
Example ex_bounds : Forall2 (fun s N => snd s <= N) ex_s1 [9;9] /\ Forall2 (fun s N => snd s <= N) ex_s2 [9;9].
Proof. split; repeat constructor; simpl; lia. Qed.
(* without locality the two sides differ: the hypothesis is necessary *)
Example ex_nonlocal : entry_impl nat 0 Nat.add ex_s1 ex_s2 (fun _ => 1) = 9
  /\ sum_box nat 0 Nat.add (full_box [9;9]) (fun _ => 1) = 81.
Proof. vm_compute. auto. Qed.
(* disjoint supports along axis 1 *)
Example ex_disjoint : entry_impl nat 0 Nat.add [(0,6);(0,3)] [(3,9);(3,6)] (fun _ => 1) = 0.
Proof. vm_compute. reflexivity. Qed.
(* on-demand: bounding box starting at node (3,0) *)
Example ex_bbox : entry_ranges ex_s1 ex_s2 = Some [(3,3);(3,3)] /\ Forall2 le [3;0] (map fst [(3,3);(3,3)])
  /\ entry_impl_od nat 0 Nat.add [3;0] ex_s1 ex_s2 (fun idx => ex_f (add_ofs [3;0] idx)) = 63.
Proof. split; [vm_compute; reflexivity|]. split; [repeat constructor|vm_compute; reflexivity]. Qed.

(* gauss_rule with the 2-point reference rule (exact rational stand-in nodes +-1/2, weights 1) on (1, 4) *)
Example ex_gauss : Qeq (qsum (map snd (gauss_interval [((-1 # 2)%Q, (1 # 1)%Q); ((1 # 2)%Q, (1 # 1)%Q)] (1 # 1) (4 # 1)))) (3 # 1).
Proof. vm_compute. reflexivity. Qed.
