(* C01 -- property theorems only (layers 2 and 3 of DESIGN.md section 4 / C01).
   Layer 1 (finalize preserves the integrand's value) is C06/Props.v.
   Layer 4 (Cython, gcc -O3 -ffast-math, libm, dlopen) is not a theorem: it is
   exercised by the oracle comparison of harness/props/c01.py.  C01 is PARTIAL. *)
From Coq Require Import List Arith Bool Lia ZArith QArith.
From Verif.C06 Require Import Model.
From Verif.C01 Require Import Model Proofs Kernel Kernel2 Printer.
Import ListNotations.
Close Scope Q_scope. Open Scope nat_scope.

(* ---------------- layer 2: code generation storage layout ------------------ *)

(* sym_index_to_seq is symmetric in (i,j) and maps the upper triangle i<=j<n
   one-to-one ONTO range(n(n+1)/2): the entry gen_assign skips (i>j) is read from
   the slot of (j,i), every slot is written exactly once. *)
Theorem sym_index_bijection : forall n,
  (forall i j, sym_index_to_seq n i j = sym_index_to_seq n j i) /\
  (forall i j, i <= j -> j < n -> sym_index_to_seq n i j < n * (n + 1) / 2) /\
  (forall i j i' j', i <= j -> j < n -> i' <= j' -> j' < n ->
     sym_index_to_seq n i j = sym_index_to_seq n i' j' -> i = i' /\ j = j') /\
  (forall s, s < n * (n + 1) / 2 -> exists i j, i <= j /\ j < n /\ sym_index_to_seq n i j = s).
Proof. exact sym_index_bijection_l. Qed.
Print Assumptions sym_index_bijection.

(* gen_assign writes exactly the entries (i,j) with i<=j of a symmetric matrix variable
   and all entries otherwise. *)
Theorem gen_assign_entries : forall m n sym i j,
  In (i, j) (assigned_entries m n sym) <-> i < m /\ j < n /\ (sym = true -> i <= j).
Proof. exact assigned_entries_spec. Qed.
Print Assumptions gen_assign_entries.

(* Row-major storage_index is injective on in-range multi-indices and stays below the
   product of the shape; from_seq (the C helper of BaseAssembler.entry) is its inverse. *)
Theorem row_major_bijection : forall shape,
  (forall I, Forall2 lt I shape -> ravel_multi_index I shape < prodl shape) /\
  (forall I, Forall2 lt I shape -> from_seq shape (ravel_multi_index I shape) = I) /\
  (forall I I', Forall2 lt I shape -> Forall2 lt I' shape ->
     ravel_multi_index I shape = ravel_multi_index I' shape -> I = I') /\
  (forall s, shape <> [] -> s < prodl shape ->
     Forall2 lt (from_seq shape s) shape /\ ravel_multi_index (from_seq shape s) shape = s).
Proof. exact row_major_bijection_l. Qed.
Print Assumptions row_major_bijection.

(* every entry of every variable gets a slot inside its variable's block *)
Theorem storage_index_in_block : forall v I,
  wf_var v -> valid_index v I -> storage_index v I < storage_size v.
Proof. exact storage_index_lt. Qed.
Print Assumptions storage_index_in_block.

(* allocate_array: blocks of distinct variables are disjoint and inside the array *)
Theorem layout_disjoint : forall vars k1 k2 e1 e2,
  k1 < length vars -> k2 < length vars ->
  e1 < storage_size (nth k1 vars dvar) -> e2 < storage_size (nth k2 vars dvar) ->
  slot_ofs vars k1 + e1 = slot_ofs vars k2 + e2 -> k1 = k2 /\ e1 = e2.
Proof. exact layout_disjoint_l. Qed.
Print Assumptions layout_disjoint.

Theorem layout_inside : forall vars k e,
  k < length vars -> e < storage_size (nth k vars dvar) ->
  slot_ofs vars k + e < snd (allocate_array vars).
Proof. exact layout_inside_l. Qed.
Print Assumptions layout_inside.

(* reader = writer: two references (var k, I) and (var k', I') produced by var_ref hit the same
   slot of fields/constants only if they are the same variable and -- for a row-major variable --
   the same entry, for a symmetric one the same entry up to transposition. *)
Theorem reader_writer_agree : forall vars k k' I I',
  k < length vars -> k' < length vars ->
  wf_var (nth k vars dvar) -> wf_var (nth k' vars dvar) ->
  valid_index (nth k vars dvar) I -> valid_index (nth k' vars dvar) I' ->
  var_ref_slot vars k I = var_ref_slot vars k' I' ->
  k = k' /\ storage_index (nth k vars dvar) I = storage_index (nth k' vars dvar) I'.
Proof. exact reader_writer_agree_l. Qed.
Print Assumptions reader_writer_agree.

(* gen_pderiv: the k-th factor reads VD<u>k[(nd+1)*i_k + D[dim-1-k]], and with the pointer
   values_u[k] = &C_k[i, g_sta, 0] of entry_impl that is C_k[i, g_sta + i_k, D[dim-1-k]]:
   the D[dim-1-k]-th derivative along grid axis k at Gauss node g_sta + i_k (x = last axis). *)
Theorem pderiv_lookup_spec : forall dim nd D k ng i g_sta ik,
  length D = dim -> k < dim ->
  let '(ax, stride, ofs) := nth k (gen_pderiv dim nd D) (0, 0, 0) in
  ax = k /\ ofs = nth (dim - 1 - k) D 0 /\
  flat3 ng (nd + 1) i g_sta 0 + stride * ik + ofs = flat3 ng (nd + 1) i (g_sta + ik) (nth (dim - 1 - k) D 0).
Proof. exact pderiv_lookup_spec_l. Qed.
Print Assumptions pderiv_lookup_spec.

Theorem pderiv_lookup_in_bounds : forall nb ng nd1 i g d,
  i < nb -> g < ng -> d < nd1 -> flat3 ng nd1 i g d < nb * ng * nd1.
Proof. exact flat3_inside. Qed.
Print Assumptions pderiv_lookup_in_bounds.

(* ---------------- layer 3: quadrature loop structure ----------------------- *)

Section Entry.
Variable T : Type.
Variable zero : T.
Variable add : T -> T -> T.
Hypothesis add_0_l : forall x, add zero x = x.
Hypothesis add_0_r : forall x, add x zero = x.
Hypothesis add_assoc : forall x y z, add x (add y z) = add (add x y) z.

(* Summing over the intersection of the two supports equals summing over ALL Gauss nodes,
   for any number of axes, provided the integrand term vanishes at nodes outside either
   support (N_local: locality of the B-spline basis, C02's theorem, together with the
   (bi)linearity of a well-formed form in the basis-function jets). *)
Theorem entry_is_full_gauss_sum : forall s1 s2 Ns f,
  Forall2 (fun s N => snd s <= N) s1 Ns -> Forall2 (fun s N => snd s <= N) s2 Ns ->
  (forall idx, in_box s1 idx = false \/ in_box s2 idx = false -> f idx = zero) ->
  entry_impl T zero add s1 s2 f = sum_box T zero add (full_box Ns) f.
Proof. exact (entry_full_l T zero add add_0_l add_0_r add_assoc). Qed.

(* basis functions without common support along some axis: the entry is zero *)
Theorem disjoint_support_zero : forall s1 s2 f k, k < length s1 -> k < length s2 ->
  snd (intersect (nth k s1 (0, 0)) (nth k s2 (0, 0))) <= fst (intersect (nth k s1 (0, 0)) (nth k s2 (0, 0))) ->
  entry_impl T zero add s1 s2 f = zero.
Proof. exact (disjoint_zero_l T zero add). Qed.

(* on-demand assemblers: any bounding box that starts at or before the joint support gives
   the same entry as the full-grid assembler *)
Theorem bbox_shift_invariant : forall ofs s1 s2 f fbb rs,
  entry_ranges s1 s2 = Some rs -> Forall2 le ofs (map fst rs) ->
  (forall idx, fbb idx = f (add_ofs ofs idx)) ->
  entry_impl_od T zero add ofs s1 s2 fbb = entry_impl T zero add s1 s2 f.
Proof. exact (bbox_shift_l T zero add). Qed.
End Entry.
Print Assumptions entry_is_full_gauss_sum.
Print Assumptions disjoint_support_zero.
Print Assumptions bbox_shift_invariant.

(* assemble_vector: starting from I = 0 the next_lexicographic loop makes exactly
   prod(ndofs) calls, the k-th of them (written to out + k) is for the multi-index that
   ravels (row-major) to k, and every visited multi-index is in range. *)
Theorem assemble_vector_order : forall end_,
  Forall (fun e => 0 < e) end_ ->
  let zeros := repeat 0 (length end_) in
  let vis := visit_r (prodl end_) zeros zeros end_ in
  length vis = prodl end_ /\
  forall k, k < prodl end_ -> Forall2 lt (nth k vis []) end_ /\ ravelr end_ (nth k vis []) = k.
Proof. exact assemble_vector_order_l. Qed.
Print Assumptions assemble_vector_order.

(* one step of next_lexicographic advances the row-major index by one, and reports the end
   exactly at the last multi-index *)
Theorem next_lexicographic_step : forall cur end_, Forall2 lt cur end_ ->
  match next_lex_r cur (repeat 0 (length cur)) end_ with
  | Some nxt => Forall2 lt nxt end_ /\ ravelr end_ nxt = S (ravelr end_ cur)
  | None => S (ravelr end_ cur) = prodl end_
  end.
Proof. exact next_lex_spec. Qed.
Print Assumptions next_lexicographic_step.

(* nqp = max degree + 1: at least p_k + 1 nodes per span for every axis and space, with
   equality for the axis of highest degree *)
Theorem nqp_is_maxdeg_plus_1 : forall ps,
  Forall (fun p => p + 1 <= nqp ps) ps /\ (ps <> [] -> exists p, In p ps /\ nqp ps = p + 1).
Proof. exact nqp_l. Qed.
Print Assumptions nqp_is_maxdeg_plus_1.

(* two-space (Petrov-Galerkin) forms: the maximum runs over the knot vectors of BOTH spaces *)
Theorem nqp_covers_both_spaces : forall ps0 ps1,
  Forall (fun p => p + 1 <= nqp_spaces ps0 ps1) ps0 /\
  Forall (fun p => p + 1 <= nqp_spaces ps0 ps1) ps1 /\
  (ps0 ++ ps1 <> [] -> exists p, (In p ps0 \/ In p ps1) /\ nqp_spaces ps0 ps1 = p + 1).
Proof. exact nqp_spaces_l. Qed.
Print Assumptions nqp_covers_both_spaces.

(* gauss_rule: the weights mapped to (a,b) sum to b - a when the reference weights sum to 2 *)
Theorem gauss_rule_weights : forall xw a b,
  Qeq (qsum (map snd xw)) (2 # 1) -> Qeq (qsum (map snd (gauss_interval xw a b))) (Qminus b a).
Proof. exact gauss_weights_sum_l. Qed.
Print Assumptions gauss_rule_weights.

(* ---------------- layer 4, as far as the model carries it ------------------- *)
(* The MODEL of the emitted kernel (coq/C01/Kernel.v: the assignments gen_assign emits for the kernel's
   local variables in dependency order, reading and writing slots through the layout [lay], then
   `r += code(e)` for every integrand expression, looped over the Gauss index range by entry_impl) computes
   the Gauss sum of the value the C06 evaluator assigns to the scheduled forest (eval (eval_defs en ds) e):
   for every field F with a monoid (F, 0, +), every injective layout, every well-formed schedule, any
   number of axes.  The stores must agree with the environment on the variables computed BEFORE the kernel
   (inputs, parameters, precomputed fields) -- hypothesis [Agree]; the jets/weights/builtins the kernel
   sees are those of the environment -- hypothesis [Ctx]. *)
Section Layer4.
Variable F : Type.
Variables (f0 : F) (fadd fmul fsub fdiv : F -> F -> F) (fopp : F -> F).
Variable lay : String.string -> nat -> loc.
Variable shp : String.string -> list nat.
Variable sz : String.string -> nat.
Hypothesis lay_inj : forall n k n' k', lay n k = lay n' k' -> n = n' /\ k = k'.
Hypothesis add_0_l : forall x, fadd f0 x = x.
Hypothesis add_0_r : forall x, fadd x f0 = x.
Hypothesis add_assoc : forall x y z, fadd x (fadd y z) = fadd (fadd x y) z.

(* at one Gauss node *)
Theorem kernel_denotes_integrand : forall nc st en known ds es cs,
  wf_prog F lay shp sz known ds -> Agree F lay shp sz st en known -> Ctx F nc en ->
  omap (compile F lay shp) es = Some cs -> Forall (wfe F shp sz (names_after F known ds)) es ->
  map (ceval F fadd fmul fsub fdiv fopp nc (run_defs F fadd fmul fsub fdiv fopp lay shp nc st ds)) cs
  = map (eval F fadd fmul fsub fdiv fopp (eval_defs F f0 fadd fmul fsub fdiv fopp en ds)) es.
Proof. exact (kernel_node_sound F f0 fadd fmul fsub fdiv fopp lay shp sz lay_inj). Qed.

(* the `r += e1; r += e2; ...` statements add the sum of the expression values *)
Theorem kernel_body_accumulates : forall nc st cs acc,
  kernel_body F fadd fmul fsub fdiv fopp nc st cs acc
  = fadd acc (sumF F f0 fadd (map (ceval F fadd fmul fsub fdiv fopp nc st) cs)).
Proof. exact (kernel_body_as_add F f0 fadd fmul fsub fdiv fopp add_0_r add_assoc). Qed.

(* the entry = Gauss sum over the joint support of the C06 value *)
Theorem entry_denotes_gauss_sum :
  forall (s1 s2 : list (nat * nat)) (nc : list nat -> nctx F) (st : list nat -> store F) (en : list nat -> env F)
         known ds es cs,
  wf_prog F lay shp sz known ds -> omap (compile F lay shp) es = Some cs ->
  Forall (wfe F shp sz (names_after F known ds)) es ->
  (forall idx, Agree F lay shp sz (st idx) (en idx) known /\ Ctx F (nc idx) (en idx)) ->
  entry_impl F f0 fadd s1 s2
    (fun idx => sumF F f0 fadd (map (ceval F fadd fmul fsub fdiv fopp (nc idx)
                                      (run_defs F fadd fmul fsub fdiv fopp lay shp (nc idx) (st idx) ds)) cs))
  = match entry_ranges s1 s2 with
    | None => f0
    | Some rs => sum_box F f0 fadd rs
        (fun idx => sumF F f0 fadd (map (eval F fadd fmul fsub fdiv fopp
                                           (eval_defs F f0 fadd fmul fsub fdiv fopp (en idx) ds)) es))
    end.
Proof. exact (entry_denotes_gauss_sum_l F f0 fadd fmul fsub fdiv fopp lay shp sz lay_inj add_0_l add_0_r add_assoc). Qed.

(* ... = the sum over ALL Gauss nodes when the integrand's value vanishes outside either support *)
Theorem entry_denotes_full_gauss_sum :
  forall (s1 s2 : list (nat * nat)) Ns (nc : list nat -> nctx F) (st : list nat -> store F) (en : list nat -> env F)
         known ds es cs,
  wf_prog F lay shp sz known ds -> omap (compile F lay shp) es = Some cs ->
  Forall (wfe F shp sz (names_after F known ds)) es ->
  (forall idx, Agree F lay shp sz (st idx) (en idx) known /\ Ctx F (nc idx) (en idx)) ->
  Forall2 (fun s N => snd s <= N) s1 Ns -> Forall2 (fun s N => snd s <= N) s2 Ns ->
  (forall idx, in_box s1 idx = false \/ in_box s2 idx = false ->
     sumF F f0 fadd (map (eval F fadd fmul fsub fdiv fopp (eval_defs F f0 fadd fmul fsub fdiv fopp (en idx) ds)) es) = f0) ->
  entry_impl F f0 fadd s1 s2
    (fun idx => sumF F f0 fadd (map (ceval F fadd fmul fsub fdiv fopp (nc idx)
                                      (run_defs F fadd fmul fsub fdiv fopp lay shp (nc idx) (st idx) ds)) cs))
  = sum_box F f0 fadd (full_box Ns)
      (fun idx => sumF F f0 fadd (map (eval F fadd fmul fsub fdiv fopp
                                         (eval_defs F f0 fadd fmul fsub fdiv fopp (en idx) ds)) es)).
Proof. exact (entry_denotes_full_gauss_sum_l F f0 fadd fmul fsub fdiv fopp lay shp sz lay_inj add_0_l add_0_r add_assoc). Qed.
End Layer4.
Print Assumptions kernel_denotes_integrand.
Print Assumptions kernel_body_accumulates.
Print Assumptions entry_denotes_gauss_sum.
Print Assumptions entry_denotes_full_gauss_sum.

(* ---- the two phases, symmetric storage, vector kernels (coq/C01/Kernel2.v) ---------------------------------- *)
Section Layer4b.
Variable F : Type.
Variables (f0 : F) (fadd fmul fsub fdiv : F -> F -> F) (fopp : F -> F).
Variable lay : String.string -> nat -> loc.
Variable shp : String.string -> list nat.
Variable sz : String.string -> nat.
Hypothesis lay_inj : forall n k n' k', lay n k = lay n' k' -> n = n' /\ k = k'.
Hypothesis add_0_l : forall x, fadd f0 x = x.
Hypothesis add_0_r : forall x, fadd x f0 = x.
Hypothesis add_assoc : forall x y z, fadd x (fadd y z) = fadd (fadd x y) z.

(* precompute_fields, then the kernel: the precomputable definitions [pre] (no basis functions) are run once per
   Gauss node by a program that has NO basis-function jets (nc_pre: any pdv) from the store st0 holding inputs and
   parameters; of what it leaves only fields[]/constants[] survive (is_glob) -- the kernel starts from a store st2
   that is ARBITRARY on local names; the kernel's own definitions [ker] may read the surviving variables G only.
   Then the integrand code evaluates to the C06 value of the WHOLE scheduled forest pre ++ ker at that node.
   This replaces the hypothesis [Agree] of kernel_denotes_integrand for everything precompute computes: what is
   left as hypothesis is [Agree st0 en known] for the SOURCED variables (input fields, parameters) only. *)
Theorem precompute_then_kernel_equals_forest :
  forall (nc nc_pre : nctx F) (st0 st2 : store F) (en : env F) known G pre ker es cs,
  wf_prog F lay shp sz known pre -> nobf_defs F pre ->
  incl G (names_after F known pre) -> (forall n k, In n G -> is_glob (lay n k) = true) ->
  wf_prog F lay shp sz G ker -> omap (compile F lay shp) es = Some cs ->
  Forall (wfe F shp sz (names_after F G ker)) es ->
  Agree F lay shp sz st0 en known -> Ctx F nc en ->
  (forall a, gwv F nc_pre a = gwv F nc a) -> (forall f x, fnv F nc_pre f x = fnv F nc f x) ->
  (forall l, is_glob l = true -> st2 l = run_defs F fadd fmul fsub fdiv fopp lay shp nc_pre st0 pre l) ->
  map (ceval F fadd fmul fsub fdiv fopp nc (run_defs F fadd fmul fsub fdiv fopp lay shp nc st2 ker)) cs
  = map (eval F fadd fmul fsub fdiv fopp (eval_defs F f0 fadd fmul fsub fdiv fopp en (pre ++ ker))) es.
Proof. exact (precompute_then_kernel_equals_forest_l F f0 fadd fmul fsub fdiv fopp lay shp sz lay_inj). Qed.

(* vector-valued kernels: `r[i] += code(e_i)` for every integrand vector accumulates, in component k, exactly what the
   scalar kernel body accumulates for the k-th components ... *)
Theorem kernel_body_accumulates_components : forall nc st css r k,
  kernel_body_vec F fadd fmul fsub fdiv fopp nc st css r k
  = kernel_body F fadd fmul fsub fdiv fopp nc st (comp F k css) (r k).
Proof. exact (kernel_body_vec_component F fadd fmul fsub fdiv fopp). Qed.

(* ... the nested loops with a vector accumulator are the scalar loops per component ... *)
Theorem vector_loop_is_componentwise : forall ns (f : list nat -> nat -> F) acc k,
  loop_box (nat -> F) (vadd F fadd) ns f acc k = loop_box F fadd ns (fun idx => f idx k) (acc k).
Proof. exact (loop_box_component F fadd). Qed.

(* ... hence entry_denotes_gauss_sum holds for every component block of a vector-valued assembler *)
Theorem entry_denotes_gauss_sum_component :
  forall k (s1 s2 : list (nat * nat)) (fvec : list nat -> nat -> F)
         (nc : list nat -> nctx F) (st : list nat -> store F) (en : list nat -> env F) known ds es cs,
  wf_prog F lay shp sz known ds -> omap (compile F lay shp) es = Some cs ->
  Forall (wfe F shp sz (names_after F known ds)) es ->
  (forall idx, Agree F lay shp sz (st idx) (en idx) known /\ Ctx F (nc idx) (en idx)) ->
  (forall idx, fvec idx k = sumF F f0 fadd (map (ceval F fadd fmul fsub fdiv fopp (nc idx)
                                             (run_defs F fadd fmul fsub fdiv fopp lay shp (nc idx) (st idx) ds)) cs)) ->
  entry_impl (nat -> F) (vzero F f0) (vadd F fadd) s1 s2 fvec k
  = match entry_ranges s1 s2 with
    | None => f0
    | Some rs => sum_box F f0 fadd rs
        (fun idx => sumF F f0 fadd (map (eval F fadd fmul fsub fdiv fopp
                                           (eval_defs F f0 fadd fmul fsub fdiv fopp (en idx) ds)) es))
    end.
Proof. exact (entry_denotes_gauss_sum_component_l F f0 fadd fmul fsub fdiv fopp lay shp sz lay_inj add_0_l add_0_r add_assoc). Qed.
End Layer4b.
Print Assumptions precompute_then_kernel_equals_forest.
Print Assumptions kernel_body_accumulates_components.
Print Assumptions vector_loop_is_componentwise.
Print Assumptions entry_denotes_gauss_sum_component.

(* symmetric variables: gen_assign writes the entries i <= j of the defining matrix expression to the slots
   ofs + sym_index_to_seq n i j (one after the other); if the expression is symmetric at that node, then EVERY
   reference var_ref(var, (i,j)) -- in either index order -- reads the value of the expression's (i,j) entry, and no slot
   outside the variable's block of n(n+1)/2 is touched.  (Injectivity on i <= j and slot(i,j) = slot(j,i):
   sym_index_bijection.)  The symmetry of the expression is the user's promise `symmetric=True`. *)
Theorem symmetric_storage_sound : forall (F : Type) (mk : nat -> loc) n ofs (vals : nat -> nat -> F) (st : store F),
  (forall a b, mk a = mk b -> a = b) ->
  (forall i j, i < n -> j < n -> vals i j = vals j i) ->
  let st' := write_all F mk st (sym_writes F n ofs vals) in
  (forall i j, i < n -> j < n -> st' (mk (ofs + sym_index_to_seq n i j)) = vals i j) /\
  (forall l, (forall s, s < n * (n + 1) / 2 -> l <> mk (ofs + s)) -> st' l = st l).
Proof. exact symmetric_storage_sound_l. Qed.
Print Assumptions symmetric_storage_sound.

(* The concrete syntax (coq/C01/Printer.v): [print] mirrors gencode_* token by token (every binary node in
   brackets, prefix minus, f(...)); [parse] is a precedence-climbing parser with the operator precedence of
   C/Cython (unary minus > * / > + -, left associative).  Reading the printed code back gives the expression tree
   it was printed from, for EVERY tree: the brackets gencode_scalaroper emits are sufficient.  (Examples.v shows a
   printer that omits them around products fails on x / (a * b).) *)
Theorem printed_code_parses_back : forall (F : Type) (c : cexpr F), parse F (print F c) = Some c.
Proof. exact printed_code_parses_back_l. Qed.
Print Assumptions printed_code_parses_back.

(* NOT PROVED within the model:
     - symmetric variables are proved as a storage statement (symmetric_storage_sound) but are not yet a case of
       [wf_prog]/[run_defs]: kernel_denotes_integrand and precompute_then_kernel_equals_forest assume a layout that is
       injective on (variable, row-major entry), i.e. forests without `symmetric=True` variables;
     - precompute_then_kernel_equals_forest is stated for the emitted order "all precomputable definitions, then the
       kernel's"; that this order and the interleaved topological order of vform.dependency_analysis denote the same
       environment is C06's schedule_computes_the_denotation (not re-stated here); the classification itself
       (scope != BASISFUN, is_global) is a hypothesis (nobf_defs, is_glob), checked on the generated text by
       harness/props/c01.py (statement order, read-before-write);
     - the input copies of __init__ (fields[..., ofs:ofs+sz] = grid_eval(...)) are the hypothesis [Agree st0 en known];
     - that the characters printed by CodeGen are the token streams of [print]: tied exactly on every run (the token
       stream of the generated text of sampled expressions = [print] of their tree, compared inside Coq; and an
       independent C-precedence parser in harness/props/c01.py reads every printed expression back to its tree),
       together with the slot-level comparison and the statement-order check. *)

(* NOT PROVED (layer 4, runtime only):
     forall well-formed form F, space, geometry, inputs:
       compiled_entry F (i, j) = sum_box full (integrand F i j)
   where compiled_entry is what Cython + gcc -O3 -march=native -ffast-math + libm compute from
   the generated text.  What is missing: a semantics of Cython/C and of the tool chain (no
   VST/CompCert here).  The composition that IS proved: C06 finalize_sound (the finalized
   forest denotes the integrand), the layout theorems above (every read hits the slot that
   was written), entry_is_full_gauss_sum/bbox_shift_invariant/assemble_vector_order (loop
   structure).  The remaining gap is closed by differential testing against an independent
   interpreter of the form (harness/props/c01_oracle.py) on every run. *)
