(* C03 -- lemmas, part 6: entry semantics of the sparse transpose. *)
From Coq Require Import List Arith Bool Lia NArith Ring.
From Verif.C03 Require Import Model Proofs Proofs3 Proofs5.
Import ListNotations.

Section Transpose.
Variable R : Type.
Variables (r0 r1 : R) (radd rmul rsub : R -> R -> R) (ropp : R -> R).
Hypothesis Rth : ring_theory r0 r1 radd rmul rsub ropp eq.
Add Ring Rring6 : Rth.

Notation svec := (svec R).
Notation get := (sv_get R r0).
Notation keys := (keys R).

Lemma get_app_l : forall (s t : svec) k, ~ In k (keys s) -> get (s ++ t) k = get t k.
Proof.
  induction s as [|[k' v] s IH]; intros t k H; simpl; auto.
  rewrite (get_cons R r0). destruct (N.eqb k k') eqn:E.
  - apply N.eqb_eq in E. subst. exfalso. apply H. left; auto.
  - apply IH. intros Hin. apply H. right; auto.
Qed.

Lemma get_app_r : forall (s t : svec) k, ~ In k (keys t) -> get (s ++ t) k = get s k.
Proof.
  induction s as [|[k' v] s IH]; intros t k H; simpl.
  - apply (get_absent_keys R r0); auto.
  - rewrite !(get_cons R r0). destruct (N.eqb k k'); auto.
Qed.

(* the entries appended to row jn of the transpose while row number i0 of M is processed *)
Definition appended (i0 : N) (jn : nat) (row : svec) : svec :=
  map (fun e => (i0, snd e)) (filter (fun e => Nat.eqb (N.to_nat (fst e)) jn) row).

Lemma appended_get : forall i0 jn row, get (appended i0 jn row) i0 = get row (N.of_nat jn).
Proof.
  intros i0 jn row. unfold appended. induction row as [|[k v] row IH]; simpl; auto.
  rewrite (get_cons R r0 k v). destruct (Nat.eqb (N.to_nat k) jn) eqn:E; simpl.
  - rewrite (get_cons R r0). rewrite N.eqb_refl.
    apply Nat.eqb_eq in E. replace (N.eqb (N.of_nat jn) k) with true; auto.
    symmetry. apply N.eqb_eq. lia.
  - replace (N.eqb (N.of_nat jn) k) with false; auto.
    symmetry. apply N.eqb_neq. apply Nat.eqb_neq in E. lia.
Qed.

Lemma appended_keys : forall i0 jn row k, In k (keys (appended i0 jn row)) -> k = i0.
Proof.
  intros i0 jn row k H. unfold appended, Proofs5.keys in H. rewrite map_map in H. simpl in H.
  apply in_map_iff in H. destruct H as [e [<- _]]. reflexivity.
Qed.

Notation inner i0 := (fun (T : smat R) (e : N * R) => upd (N.to_nat (fst e)) (fun r => r ++ [(i0, snd e)]) T).

Lemma inner_spec : forall i0 row (T : smat R),
  length (fold_left (inner i0) row T) = length T /\
  forall jn, jn < length T -> nth jn (fold_left (inner i0) row T) [] = nth jn T [] ++ appended i0 jn row.
Proof.
  intros i0 row. induction row as [|e row IH]; intros T; simpl.
  - split; auto. intros jn _. unfold appended. simpl. rewrite app_nil_r. reflexivity.
  - destruct (IH (upd (N.to_nat (fst e)) (fun r => r ++ [(i0, snd e)]) T)) as [L G].
    rewrite (upd_length) in L, G. split; auto.
    intros jn Hj. rewrite (G jn Hj). rewrite (upd_nth (list (N * R)) _ []).
    unfold appended. simpl filter.
    destruct (Nat.eqb (N.to_nat (fst e)) jn) eqn:E.
    + apply Nat.eqb_eq in E. subst jn. rewrite Nat.eqb_refl.
      simpl.
      match goal with |- context [if ?b then _ else _] => replace b with true by (symmetry; apply Nat.ltb_lt; exact Hj) end.
      rewrite <- app_assoc. reflexivity.
    + replace (Nat.eqb jn (N.to_nat (fst e))) with false by (rewrite Nat.eqb_sym; auto). simpl. reflexivity.
Qed.

Notation outer := (fun (iT : N * smat R) (row : svec) => (N.succ (fst iT), fold_left (inner (fst iT)) row (snd iT))).

Lemma outer_spec : forall (Ms : smat R) i0 (T : smat R),
  (forall jn k, In k (keys (nth jn T [])) -> (k < i0)%N) ->
  let res := fold_left outer Ms (i0, T) in
  length (snd res) = length T /\
  (forall jn, jn < length T -> forall i,
     get (nth jn (snd res) []) i
     = radd (get (nth jn T []) i)
            (if (i0 <=? i)%N then get (nth (N.to_nat (i - i0)) Ms []) (N.of_nat jn) else r0)).
Proof.
  induction Ms as [|row Ms IH]; intros i0 T HT.
  - simpl. split; auto. intros jn _ i. destruct (i0 <=? i)%N; [|ring].
    destruct (N.to_nat (i - i0)); simpl; rewrite ?(get_nil R r0); unfold sv_get; simpl; ring.
  - change (fold_left outer (row :: Ms) (i0, T)) with (fold_left outer Ms (N.succ i0, fold_left (inner i0) row T)).
    destruct (inner_spec i0 row T) as [L1 G1].
    assert (HT1 : forall jn k, In k (keys (nth jn (fold_left (inner i0) row T) [])) -> (k < N.succ i0)%N).
    { intros jn k Hk. destruct (Nat.lt_ge_cases jn (length T)) as [Hj|Hj].
      - rewrite (G1 jn Hj) in Hk. unfold Proofs5.keys in Hk. rewrite map_app in Hk. apply in_app_or in Hk.
        destruct Hk as [Hk|Hk].
        + specialize (HT jn k Hk). lia.
        + apply appended_keys in Hk. lia.
      - rewrite nth_overflow in Hk by lia. destruct Hk. }
    destruct (IH (N.succ i0) _ HT1) as [L2 G2]. simpl in L2, G2.
    split; [simpl; rewrite L2; exact L1|].
    intros jn Hj i. simpl. rewrite (G2 jn ltac:(rewrite L1; exact Hj) i). rewrite (G1 jn Hj).
    destruct (N.compare_spec i i0) as [E|E|E].
    + subst i. rewrite get_app_l by (intros Hk; specialize (HT jn i0 Hk); lia).
      rewrite appended_get.
      replace (N.succ i0 <=? i0)%N with false by (symmetry; apply N.leb_gt; lia).
      replace (i0 <=? i0)%N with true by (symmetry; apply N.leb_le; lia).
      replace (N.to_nat (i0 - i0)) with 0 by lia. simpl.
      rewrite (get_absent_keys R r0 (nth jn T [])) by (intros Hk; specialize (HT jn i0 Hk); lia). ring.
    + rewrite get_app_r by (intros Hk; apply appended_keys in Hk; lia).
      replace (N.succ i0 <=? i)%N with false by (symmetry; apply N.leb_gt; lia).
      replace (i0 <=? i)%N with false by (symmetry; apply N.leb_gt; lia). reflexivity.
    + rewrite get_app_r by (intros Hk; apply appended_keys in Hk; lia).
      replace (N.succ i0 <=? i)%N with true by (symmetry; apply N.leb_le; lia).
      replace (i0 <=? i)%N with true by (symmetry; apply N.leb_le; lia).
      replace (N.to_nat (i - i0)) with (S (N.to_nat (i - N.succ i0))) by lia. reflexivity.
Qed.

(* entry (j, i) of M.T is entry (i, j) of M, for every sparse matrix M and every column j below the shape *)
Lemma sm_transpose_entry_l : forall ncols (M : smat R) i j, N.to_nat j < ncols ->
  sm_get R r0 (sm_transpose R ncols M) j i = sm_get R r0 M i j.
Proof.
  intros ncols M i j Hj. unfold sm_transpose.
  destruct (outer_spec M 0%N (repeat [] ncols)) as [_ G].
  - intros jn k Hk. rewrite nth_repeat in Hk. destruct Hk.
  - rewrite repeat_length in G. unfold sm_get at 1. unfold sm_row.
    etransitivity; [exact (G (N.to_nat j) Hj i)|].
    rewrite nth_repeat. rewrite (get_nil R r0).
    replace (0 <=? i)%N with true by (symmetry; apply N.leb_le; lia).
    replace (i - 0)%N with i by lia. rewrite Nnat.N2Nat.id. unfold sm_get, sm_row. ring.
Qed.

End Transpose.
