(* C17 -- property theorems only.  Each is closed by [exact] of a lemma of Proofs.v
   and followed by Print Assumptions.

   Vocabulary (Model.v / Spec.v): [op] = a linear operator by its entries (collocation
   matrix, its transpose, diagonal weights, or a solver = the inverse applied by
   make_solver); [tprod_loop] = the loop of tensor.apply_tprod as written (tensor.py:119-128);
   [tprod] = the Kronecker product  Y[i,t] = sum_j prod_k B_k[i_k,j_k] X[j,t];
   tensors have any number of leading tensor-product axes and any trailing (component) axes. *)
From Coq Require Import QArith Qcanon List Arith.
From Verif.C17 Require Import Model Spec Proofs.
Import ListNotations.
Open Scope Qc_scope.

(* apply_tprod computes the Kronecker product of its operators, for every number of
   operators (dimension), every operator size and any trailing axes. *)
Theorem apply_tprod_is_kronecker : forall Bs f idx,
  (length Bs <= length idx)%nat -> tprod_loop Bs f idx = tprod Bs f idx.
Proof. exact tprod_loop_spec_l. Qed.
Print Assumptions apply_tprod_is_kronecker.

(* (x)A_k applied after (x)B_k is (x)(A_k B_k). *)
Theorem tprod_compose : forall As Bs f idx,
  length As = length Bs -> tprod As (tprod Bs f) idx = tprod (mul_list As Bs) f idx.
Proof. exact tprod_compose_l. Qed.
Print Assumptions tprod_compose.

(* Interpolation reproduces every function of the space: if the data are the values
   (x)C_k c of the spline with coefficients c at the node grid, and every solver S_k
   inverts its collocation matrix (S_k C_k = I: contract of make_solver for a unisolvent
   node set), approx.interpolate returns c -- any dimension, any node grid, any trailing axes. *)
Theorem interp_reproduces : forall shape Ss Cs c idx,
  length Ss = length Cs -> Forall2 is_id shape (mul_list Ss Cs) ->
  inrange shape idx -> (length Ss <= length idx)%nat ->
  tprod_loop Ss (tprod Cs c) idx = c idx.
Proof. exact interp_reproduces_l. Qed.
Print Assumptions interp_reproduces.

(* The interpolant matches arbitrary data at the nodes: (x)C_k (interpolate rhs) = rhs,
   when C_k S_k = I. *)
Theorem interp_matches_nodes : forall nshape Cs Ss rhs idx,
  length Cs = length Ss -> Forall2 is_id nshape (mul_list Cs Ss) ->
  inrange nshape idx -> (length Ss <= length idx)%nat ->
  tprod Cs (tprod_loop Ss rhs) idx = rhs idx.
Proof. exact interp_matches_nodes_l. Qed.
Print Assumptions interp_matches_nodes.

(* Vector/array valued data are treated component-wise: component t of the result is the
   result for component t of the data (holds for interpolate and for the Kronecker L2 path,
   both being apply_tprod). *)
Theorem data_componentwise : forall Ss rhs i t,
  length i = length Ss ->
  tprod_loop Ss rhs (i ++ t) = tprod_loop Ss (fun i' => rhs (i' ++ t)) i.
Proof. exact interp_componentwise_l. Qed.
Print Assumptions data_componentwise.

(* Data given in physical coordinates are handled as their pull-back: interpolate(f, geo)
   = interpolate(f o geo)  (utils.grid_eval_transformed vs utils.grid_eval). *)
Theorem physical_equals_pullback : forall Ss f grid geo,
  tprod_loop Ss (grid_eval_transformed f grid geo) = tprod_loop Ss (grid_eval (compose f geo) grid).
Proof. exact physical_equals_pullback_l. Qed.
Print Assumptions physical_equals_pullback.

(* ---- L2 projection ------------------------------------------------------------------
   The discrete setting covers every case of the property at once: N basis functions
   (tensor-product, or hierarchical HB/THB after representation on the fine level), Q
   quadrature points, Cq q i = value of basis function i at point q, w q = quadrature weight
   times |det J| (geometry-weighted inner product); massq = the Gram matrix, loadq f = the
   inner products with f (assemble.inner_products), spl x = the spline with coefficients x. *)

(* The residual f - P f is orthogonal to the space in the weighted discrete L2 inner product,
   for ANY data f, as soon as the returned x solves M x = b (contract of the direct solver;
   of CG only when it converged). *)
Theorem l2_residual_orthogonal : forall N Q Cq w f x,
  (forall i, (i < N)%nat -> mv N (massq Q Cq w) x i = loadq Q Cq w f i) ->
  forall i, (i < N)%nat -> sumn Q (fun q => Cq q i * w q * (f q - spl N Cq x q)) = 0.
Proof. exact l2_residual_orthogonal_l. Qed.
Print Assumptions l2_residual_orthogonal.

(* L2 projection reproduces every function of the space (mass matrix injective). *)
Theorem l2_reproduces : forall N Q Cq w c x,
  (forall y, (forall i, (i < N)%nat -> mv N (massq Q Cq w) y i = 0) -> forall i, (i < N)%nat -> y i = 0) ->
  (forall i, (i < N)%nat -> mv N (massq Q Cq w) x i = loadq Q Cq w (spl N Cq c) i) ->
  forall i, (i < N)%nat -> x i = c i.
Proof. exact l2_reproduces_l. Qed.
Print Assumptions l2_reproduces.

(* ... and the mass matrix IS injective when the weights are positive (|det J| > 0, Gauss
   weights > 0) and no non-zero spline vanishes at all quadrature points. *)
Theorem mass_injective : forall N Q Cq w,
  (forall q, (q < Q)%nat -> 0 < w q) ->
  (forall y, (forall q, (q < Q)%nat -> spl N Cq y q = 0) -> forall i, (i < N)%nat -> y i = 0) ->
  forall y, (forall i, (i < N)%nat -> mv N (massq Q Cq w) y i = 0) -> forall i, (i < N)%nat -> y i = 0.
Proof. exact mass_injective_l. Qed.
Print Assumptions mass_injective.

(* The Kronecker path of project_L2 (no geometry, approx.py:81-86 with assemble.py:315-340):
   apply_tprod(Minvs, apply_tprod(C^T, apply_tprod(diag(w), values))) returns the coefficients
   of a function of the space, any dimension and trailing axes, when the 1D mass matrices are
   the quadrature Gram matrices and the solvers invert them. *)
Theorem l2_kron_reproduces : forall shape Ss Cts Ds Cs c idx,
  length Ss = length Cts -> length Cts = length Ds -> length Ds = length Cs ->
  Forall2 is_id shape (mul_list Ss (mul_list Cts (mul_list Ds Cs))) ->
  inrange shape idx -> (length Ss <= length idx)%nat ->
  tprod_loop Ss (tprod_loop Cts (tprod_loop Ds (tprod Cs c))) idx = c idx.
Proof. exact l2_kron_reproduces_l. Qed.
Print Assumptions l2_kron_reproduces.

(* NOT PROVED (kept as statements only):
   - hspace_l2_reproduces at the level of the assembled hierarchical load vector: the theorem
     above covers it only under the hypothesis that the load vector IS loadq (all inner
     products exact); _hdiscr.assemble_functional integrates each active function with the
     quadrature of its own level, which is not loadq for data with finer-level kinks
     (see the finding reported by the tie).
   - Schoenberg-Whitney (the Greville points of every open knot vector are unisolvent):
     checked per case by the exact inverse (Examples.v, tie), not proved in general.
   - convergence of CG: outside the model. *)
