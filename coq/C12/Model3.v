(* C12 -- model, part 6: the step-size controller of _adaptive_step_method (solvers.py:506-531)
   on EXTENDED values: a trial step may return non-finite numbers (the right-hand side left its
   domain: sqrt/log of a negative number -> NaN; overflow -> inf), and then the error ratio
       r = np.linalg.norm((xhat - xnew) / d) / np.sqrt(len(x))
   and the raw factor  step_factor * r**(-1/err_order)  are NaN or +-inf.  The code computes
       if r == 0: r = 1e-15
       if r <= 1: (accept)
       fac = min(5.0, max(0.2, fac))          # Python's BUILTIN min / max
       tau *= fac
   Python's builtin max(a, b) returns a unless b > a, min(a, b) returns a unless b < a (CPython
   bltinmodule.c min_max: the first item is kept unless a later one compares strictly greater /
   smaller), and every comparison with NaN is False.  So max(0.2, nan) = 0.2: a NaN ratio is a
   rejected step whose size shrinks by the factor 0.2.  This file transcribes exactly that.

   Definitions only; proofs in Proofs3.v. *)
From Coq Require Import QArith List Bool.
From Verif.C12 Require Import Model.
Import ListNotations.
Open Scope Q_scope.

(* a binary64 value as the controller sees it: a finite number, +inf, -inf or NaN *)
Inductive xq := XFin (q : Q) | XPInf | XNInf | XNaN.

(* IEEE / Python comparisons; anything compared with NaN is False *)
Definition xlt (a b : xq) : bool :=
  match a, b with
  | XFin p, XFin q => qlt p q
  | XFin _, XPInf => true
  | XNInf, XFin _ => true
  | XNInf, XPInf => true
  | _, _ => false
  end.
Definition xle (a b : xq) : bool :=
  match a, b with
  | XFin p, XFin q => Qle_bool p q
  | XFin _, XPInf => true
  | XNInf, XFin _ => true
  | XNInf, XPInf => true
  | XNInf, XNInf => true
  | XPInf, XPInf => true
  | _, _ => false
  end.
Definition xeq (a b : xq) : bool :=
  match a, b with
  | XFin p, XFin q => Qeq_bool p q
  | XPInf, XPInf => true
  | XNInf, XNInf => true
  | _, _ => false
  end.

(* builtin max(a, b) / min(a, b) of two arguments *)
Definition pymax (a b : xq) : xq := if xlt a b then b else a.      (* b > a ? b : a *)
Definition pymin (a b : xq) : xq := if xlt b a then b else a.      (* b < a ? b : a *)

(* fac = min(5.0, max(0.2, fac)), solvers.py:526 *)
Definition xclip (praw : xq) : xq := pymin (XFin 5) (pymax (XFin (1#5)) praw).

(* the number tau is multiplied with.  xclip never returns a non-finite value (Proofs3.xclip_total),
   the second branch is unreachable. *)
Definition xfac (praw : xq) : Q := match xclip praw with XFin f => f | _ => 1 end.

(* outcome of one trial step: NoConvergenceError, or (r, step_factor * r**(-1/err_order)) as
   extended values *)
Inductive xevent := XNewtonFail | XStepped (r praw : xq).

Definition xfix_r (r : xq) : xq := if xeq r (XFin 0) then XFin (1 # 1000000000000000) else r.   (* if r == 0: r = 1e-15 *)
Definition xaccepts (r : xq) : bool := xle (xfix_r r) (XFin 1).                                  (* if r <= 1: *)

(* ghost: the rational recorded in the log of accepted steps (-inf <= 1 is True in Python; a norm
   is never -inf, the value -1 only keeps the function total) *)
Definition xlog (r : xq) : Q := match r with XFin q => q | XNInf => -(1) | _ => 2 end.

Definition xastep (st : astate) (e : xevent) : astate :=
  match e with
  | XNewtonFail => {| a_t := a_t st; a_tau := a_tau st * (1#2); a_times := a_times st; a_log := a_log st |}
  | XStepped r praw =>
    if xaccepts r then
      {| a_t := a_t st + a_tau st; a_tau := a_tau st * xfac praw;
         a_times := (a_t st + a_tau st) :: a_times st; a_log := (a_tau st, xlog (xfix_r r)) :: a_log st |}
    else
      {| a_t := a_t st; a_tau := a_tau st * xfac praw; a_times := a_times st; a_log := a_log st |}
  end.

(* while t < t_end: ...   (t_end, t0, tau0 finite: arguments of the caller) *)
Fixpoint xadaptive_loop (t_end : Q) (st : astate) (evs : list xevent) : option astate :=
  if Qle_bool t_end (a_t st) then Some st
  else match evs with
       | [] => None
       | e :: evs' => xadaptive_loop t_end (xastep st e) evs'
       end.

Definition xadaptive_times (t0 tau0 t_end : Q) (evs : list xevent) : option (list Q) :=
  match xadaptive_loop t_end (adaptive_init t0 tau0) evs with
  | Some st => Some (rev (a_times st))
  | None => None
  end.

(* all step sizes handed to the stepper, in order *)
Fixpoint xadaptive_taus (t_end : Q) (st : astate) (evs : list xevent) : list Q :=
  if Qle_bool t_end (a_t st) then []
  else match evs with
       | [] => []
       | e :: evs' => a_tau st :: xadaptive_taus t_end (xastep st e) evs'
       end.

(* which trial steps were accepted, in order (for the tie: accepted/rejected sequence) *)
Fixpoint xadaptive_accepts (t_end : Q) (st : astate) (evs : list xevent) : list bool :=
  if Qle_bool t_end (a_t st) then []
  else match evs with
       | [] => []
       | e :: evs' => (match e with XNewtonFail => false | XStepped r _ => xaccepts r end)
                      :: xadaptive_accepts t_end (xastep st e) evs'
       end.

(* the finite shadow of an outcome: the outcome-list model of Model.v run on it takes the same steps *)
Definition lower (e : xevent) : event :=
  match e with
  | XNewtonFail => NewtonFail
  | XStepped r praw => Stepped (xlog r) (xfac praw)
  end.

(* ---- newton (solvers.py:350-361) with a norm that may be NaN / inf ---- *)
Section XNewton.
  Variable V : Type.
  Variable Fn : V -> V.
  Variable Jsolve : V -> V -> V.
  Variable vsub : V -> V -> V.
  Variable xnorm : V -> xq.            (* np.linalg.norm(res): finite >= 0, +inf or NaN *)
  Variable scale : xq -> xq.           (* v |-> rtol * v *)
  Variables (atol : Q) (freeze : nat).

  (* target = max(atol, rtol * np.linalg.norm(res))  -- builtin max: a NaN norm gives atol *)
  Definition xnewton_target (x0 : V) : xq := pymax (XFin atol) (scale (xnorm (Fn x0))).

  Fixpoint xnewton_loop (fuel num_it : nat) (target : xq) (x res jp : V) : option (V * V) :=
    match fuel with
    | O => None
    | S fuel' =>
      if xlt (xnorm res) target then Some (x, res)              (* if norm(res) < target: return x *)
      else
        let jp' := if Nat.eqb (Nat.modulo num_it freeze) 0 then x else jp in
        let x' := vsub x (Jsolve jp' res) in
        xnewton_loop fuel' (S num_it) target x' (Fn x') jp'
    end.

  Definition xnewton (maxiter : nat) (x0 : V) : option (V * V) :=
    xnewton_loop maxiter 0 (xnewton_target x0) x0 (Fn x0) x0.
End XNewton.
Close Scope Q_scope.
