"""Implementation driver for C10: runs RestrictedLinearSystem, slice_indices/boundary_dofs/
boundary_cells, compute_dirichlet_bc(s), combine_bcs, _drop_nans, compute_initial_condition_01
and Multipatch.compute_dirichlet_bcs of the real code (stdin JSON -> last stdout line JSON)."""
import json
import os
import sys

import numpy as np
import scipy.sparse


def errclass(e):
    for c in (TypeError, ValueError, AssertionError, IndexError, KeyError, NotImplementedError, AttributeError):
        if isinstance(e, c):
            return c.__name__
    return 'Other:' + type(e).__name__


def num(x):
    """A float/int of the implementation as JSON: ints stay ints, integral floats become ints,
    other floats are passed as hex strings (exact)."""
    x = float(x)
    if x != x:
        return 'nan'
    if x.is_integer() and abs(x) < 2 ** 53:
        return int(x)
    return x.hex()


def vec(v):
    return [num(x) for x in np.asarray(v).ravel()]


def mat(M):
    if scipy.sparse.issparse(M):
        M = M.toarray()
    M = np.asarray(M)
    return [[num(x) for x in row] for row in M]


# --- polynomial boundary data, shared by name with the harness ---------------------------

def gfun(name):
    """Boundary data in physical coordinates (x, y[, z]) by name; the harness evaluates the
    same formulas on its side."""
    def c(*X):
        return X + (0.0, 0.0, 0.0)
    if name == 'one':
        return lambda *X: 1.0 + 0 * X[0]
    if name == 'lin':
        return lambda *X: 1.0 + 2.0 * c(*X)[0] - 0.5 * c(*X)[1] + 0.25 * c(*X)[2]
    if name == 'quad':
        return lambda *X: c(*X)[0] * c(*X)[0] - c(*X)[0] * c(*X)[1] + 3.0 * c(*X)[2] + 0.5
    if name == 'cub':
        return lambda *X: c(*X)[0] ** 3 - 2.0 * c(*X)[1] ** 2 + c(*X)[0] * c(*X)[2]
    if name == 'vec2':
        return lambda *X: np.stack((gfun('lin')(*X), gfun('quad')(*X)), axis=-1)
    if name == 'vec3':
        return lambda *X: np.stack((gfun('quad')(*X), gfun('one')(*X), gfun('lin')(*X)), axis=-1)
    raise KeyError(name)


def main():
    import pyiga
    assert os.path.realpath(pyiga.__file__).startswith(os.path.realpath(os.environ['VERIF_IMPL_DIR'])), pyiga.__file__
    from pyiga import bspline, assemble, geometry

    payload = json.load(sys.stdin)
    out = {}

    # ------------------------------------------------------------------ RestrictedLinearSystem
    def as_matrix(A, fmt):
        A = np.array(A, dtype=float)
        if fmt == 'dense':
            return A
        return getattr(scipy.sparse, fmt + '_matrix')(A)

    res = []
    for c in payload.get('rls', []):
        r = {}
        try:
            A = as_matrix(c['A'], c['fmt'])
            b = float(c['b']) if not isinstance(c['b'], list) else np.array(c['b'], dtype=float)
            if c['idx_type'] == 'array':
                idx = np.array(c['indices'], dtype=int)
            elif c['idx_type'] == 'tuple':
                idx = tuple(c['indices'])
            else:
                idx = list(c['indices'])
            if isinstance(c['values'], list):
                vals = np.array(c['values'], dtype=float)
                if c['idx_type'] == 'tuple':
                    vals = tuple(float(v) for v in c['values'])
                elif c['idx_type'] == 'list':
                    vals = [float(v) for v in c['values']]
            else:
                vals = float(c['values'])
            er = c.get('elim_rows')
            if er is not None and c.get('er_type') == 'array':
                er = np.array(er, dtype=int)
            LS = assemble.RestrictedLinearSystem(A, b, (idx, vals), elim_rows=er)
            r['A'] = mat(LS.A)
            r['A_shape'] = [int(s) for s in LS.A.shape]
            r['b'] = vec(LS.b)
            r['restrict'] = [vec(LS.restrict(np.array(x, dtype=float))) for x in c['xs']]
            r['restrict_rhs'] = [vec(LS.restrict_rhs(np.array(f, dtype=float))) for f in c['fs']]
            r['extend'] = [vec(LS.extend(np.array(u, dtype=float))) for u in c['us']]
            r['complete'] = [vec(LS.complete(np.array(u, dtype=float))) for u in c['us']]
            r['restrict_matrix'] = mat(LS.restrict_matrix(as_matrix(c['B'], c['fmtB'])))
            nfree = LS.A.shape[1]
            # the affine map u -> complete(u): columns of extend and complete(0)
            r['E'] = [vec(LS.extend(np.eye(nfree)[k])) for k in range(nfree)]
            r['c0'] = vec(LS.complete(np.zeros(nfree)))
            r['status'] = 'Ok'
        except Exception as e:  # noqa
            r['status'] = errclass(e)
            r['msg'] = str(e)[:200]
        res.append(r)
    out['rls'] = res

    # ------------------------------------------------------------------ slices
    res = []
    for c in payload.get('slices', []):
        r = {}
        try:
            flip = c['flip']
            a = assemble.slice_indices(c['ax'], c['idx'], tuple(c['shape']), ravel=c['ravel'],
                                       flip=None if flip is None else tuple(flip))
            r['out'] = np.asarray(a).astype(int).tolist()
            r['status'] = 'Ok'
        except Exception as e:  # noqa
            r['status'] = errclass(e)
            r['msg'] = str(e)[:200]
        res.append(r)
    out['slices'] = res

    kvcache = {}

    def kv(spec):
        if isinstance(spec, dict):      # explicit knots (graded, moved or repeated interior knots)
            key = (spec['p'],) + tuple(spec['knots'])
            if key not in kvcache:
                kvcache[key] = bspline.KnotVector(np.array(spec['knots'], dtype=float), int(spec['p']))
            return kvcache[key]
        p, n, a, b = spec
        key = (p, n, a, b)
        if key not in kvcache:
            kvcache[key] = bspline.make_knots(p, float(a), float(b), n)
        return kvcache[key]

    def bdspec_of(s):
        return s if isinstance(s, str) else tuple(s)

    res = []
    for c in payload.get('bdofs', []):
        r = {}
        try:
            kvs = tuple(kv(s) for s in c['kvs'])
            r['numdofs'] = [int(k.numdofs) for k in kvs]
            r['numspans'] = [int(k.numspans) for k in kvs]
            flip = c.get('flip')
            r['dofs'] = np.asarray(assemble.boundary_dofs(kvs, bdspec_of(c['bdspec']), ravel=True,
                                                          flip=None if flip is None else tuple(flip))).astype(int).tolist()
            r['cells'] = np.asarray(assemble.boundary_cells(kvs, bdspec_of(c['bdspec']), ravel=True)).astype(int).tolist()
            r['status'] = 'Ok'
        except Exception as e:  # noqa
            r['status'] = errclass(e)
            r['msg'] = str(e)[:200]
        res.append(r)
    out['bdofs'] = res

    # ------------------------------------------------------------------ geometry by name
    def make_geo(g, kvs):
        name = g['name']
        if name == 'identity':
            return geometry.identity(kvs)
        if name == 'affine':
            d = len(kvs)
            base = geometry.unit_square() if d == 2 else geometry.unit_cube(dim=d)
            return base.scale(tuple(g['scale'])).translate(tuple(g['shift']))
        if name == 'annulus':
            return geometry.quarter_annulus()
        if name == 'bspline_annulus':
            return geometry.bspline_quarter_annulus()
        if name == 'twisted_box':
            return geometry.twisted_box()
        raise KeyError(name)

    def face_points(kvs, geo, ax, side):
        """Physical images (through the FULL geometry map, not geo.boundary) of the tensor grid
        of Greville abscissae of the face."""
        grid = [k.greville() for k in kvs]
        lo, hi = kvs[ax].support()
        grid[ax] = np.array([lo if side == 0 else hi])
        pts = geo.grid_eval(grid)
        pts = np.take(pts, 0, axis=ax)          # drop the fixed axis
        return pts.reshape(-1, pts.shape[-1]).tolist(), [g.tolist() for i, g in enumerate(grid) if i != ax]

    def kvdata(kvs):
        return [{'p': int(k.p), 'knots': [float(t) for t in k.kv]} for k in kvs]

    def dir_arg(gname):
        if isinstance(gname, (int, float)):
            return float(gname)
        return gfun(gname)

    res = []
    for c in payload.get('bc', []):
        r = {}
        try:
            kvs = tuple(kv(s) for s in c['kvs'])
            geo = make_geo(c['geo'], kvs)
            r['kvs'] = kvdata(kvs)
            r['numdofs'] = [int(k.numdofs) for k in kvs]
            # physical points of every face, for the harness-side interpolation oracle
            r['faces'] = {}
            for ax in range(len(kvs)):
                for side in (0, 1):
                    pts, nodes = face_points(kvs, geo, ax, side)
                    r['faces']['%d,%d' % (ax, side)] = {'pts': pts, 'nodes': nodes}
            conds = [(bdspec_of(bs), dir_arg(g)) for bs, g in c['conds']]
            # every condition on its own
            r['local'] = []
            for bs, g in conds:
                li, lv = assemble.compute_dirichlet_bc(kvs, geo, bs, g)
                r['local'].append([np.asarray(li).astype(int).tolist(), [float(v).hex() for v in np.asarray(lv).ravel()]])
            if c['call'] == 'one':
                idx, vals = assemble.compute_dirichlet_bc(kvs, geo, conds[0][0], conds[0][1])
            elif c['call'] == 'all':
                idx, vals = assemble.compute_dirichlet_bcs(kvs, geo, ('all', conds[0][1]))
            else:
                idx, vals = assemble.compute_dirichlet_bcs(kvs, geo, conds)
            r['idx'] = np.asarray(idx).astype(int).tolist()
            r['vals'] = [float(v).hex() for v in np.asarray(vals).ravel()]
            r['status'] = 'Ok'
        except Exception as e:  # noqa
            r['status'] = errclass(e)
            r['msg'] = str(e)[:200]
        res.append(r)
    out['bc'] = res

    # ------------------------------------------------------------------ combine_bcs / _drop_nans
    res = []
    for c in payload.get('combine', []):
        r = {}
        try:
            bcs = [(np.array(i, dtype=int), np.array(v, dtype=float)) for i, v in c['bcs']]
            if c.get('generator'):
                bcs = (x for x in bcs)
            idx, vals = assemble.combine_bcs(bcs)
            r['idx'] = np.asarray(idx).astype(int).tolist()
            r['vals'] = [float(v) for v in vals]
            r['status'] = 'Ok'
        except Exception as e:  # noqa
            r['status'] = errclass(e)
            r['msg'] = str(e)[:200]
        res.append(r)
    out['combine'] = res

    res = []
    for c in payload.get('dropnans', []):
        r = {}
        try:
            v = np.array([np.nan if x is None else float(x) for x in c['vals']], dtype=float)
            idx, vals = assemble._drop_nans(np.array(c['idx'], dtype=int), v)
            r['idx'] = np.asarray(idx).astype(int).tolist()
            r['vals'] = [float(x) for x in vals]
            r['status'] = 'Ok'
        except Exception as e:  # noqa
            r['status'] = errclass(e)
            r['msg'] = str(e)[:200]
        res.append(r)
    out['dropnans'] = res

    # ------------------------------------------------------------------ initial conditions
    res = []
    for c in payload.get('ic', []):
        r = {}
        try:
            kvs = tuple(kv(s) for s in c['kvs'])
            geo = make_geo(c['geo'], kvs)
            r['kvs'] = kvdata(kvs)
            r['numdofs'] = [int(k.numdofs) for k in kvs]
            ax, side = c['bdspec']
            pts, nodes = face_points(kvs, geo, ax, side)
            r['pts'] = pts
            r['nodes'] = nodes
            idx, vals = assemble.compute_initial_condition_01(kvs, geo, tuple(c['bdspec']), gfun(c['g0']), gfun(c['g1']))
            # the interpolation coefficients of g0, g1 on the face (public interpolate), for the model of the 2x2 solve
            from pyiga.approx import interpolate
            bdbasis = list(kvs)
            del bdbasis[ax]
            bdgeo = geo.boundary((ax, side))
            r['G0'] = [float(v).hex() for v in np.asarray(interpolate(bdbasis, gfun(c['g0']), geo=bdgeo)).ravel()]
            r['G1'] = [float(v).hex() for v in np.asarray(interpolate(bdbasis, gfun(c['g1']), geo=bdgeo)).ravel()]
            r['tknots'] = [float(t).hex() for t in kvs[ax].kv]
            r['tp'] = int(kvs[ax].p)
            r['idx'] = np.asarray(idx).astype(int).tolist()
            r['vals'] = [float(v) for v in np.asarray(vals).ravel()]
            r['status'] = 'Ok'
        except Exception as e:  # noqa
            r['status'] = errclass(e)
            r['msg'] = str(e)[:200]
        res.append(r)
    out['ic'] = res

    # ------------------------------------------------------------------ multipatch
    res = []
    for c in payload.get('mp', []):
        r = {}
        try:
            patches = []
            for pk, pg in zip(c['kvs'], c['geos']):
                kvs = tuple(kv(s) for s in pk)
                patches.append((kvs, make_geo(pg, kvs)))
            mp = assemble.Multipatch(patches, automatch=False)
            for (p1, b1, p2, b2, flip) in c['joins']:
                mp.join_boundaries(p1, bdspec_of(b1), p2, bdspec_of(b2), flip=None if flip is None else tuple(flip))
            mp.finalize()
            r['numdofs'] = int(mp.numdofs)
            r['p2g'] = [[int(g) for g in mp.patch_to_global_idx(p)] for p in range(len(patches))]
            r['shapes'] = [[int(k.numdofs) for k in kvs] for kvs, _ in patches]
            conds = [(p, bdspec_of(bs), dir_arg(g)) for p, bs, g in c['conds']]
            r['local'] = []
            for (p, bs, g) in conds:
                li, lv = assemble.compute_dirichlet_bc(patches[p][0], patches[p][1], bs, g)
                r['local'].append([np.asarray(li).astype(int).tolist(), [float(v).hex() for v in lv]])
            idx, vals = mp.compute_dirichlet_bcs(conds)
            r['idx'] = np.asarray(idx).astype(int).tolist()
            r['vals'] = [float(v).hex() for v in vals]
            r['status'] = 'Ok'
        except Exception as e:  # noqa
            r['status'] = errclass(e)
            r['msg'] = str(e)[:200]
        res.append(r)
    out['mp'] = res

    print(json.dumps(out))


if __name__ == '__main__':
    main()
