"""Run the registered checks against the seeded breaking changes under /verif/seeded/.

  tools/seeded.py run <id> [...]     run the property's quick check against seeded/<id>/patch.diff
  tools/seeded.py all                every seeded change
  tools/seeded.py verify <id>        re-confirm the demonstration (fails with the change, passes without)

The change is applied to a scratch worktree of /repo (never to /repo itself while
other checks may be running) and the check is pointed at it through VERIF_REPO.
"""
import json
import os
import subprocess
import sys
import time

V = os.path.dirname(os.path.dirname(os.path.abspath(__file__)))
S = os.path.join(V, 'seeded')


def sh(cmd, **kw):
    return subprocess.run(cmd, shell=True, text=True, stdout=subprocess.PIPE, stderr=subprocess.STDOUT, **kw)


def worktree(sid, patch=None):
    wt = '/tmp/seed-wt-%s-%d' % (sid, os.getpid())
    sh('git -C /repo worktree remove --force %s' % wt)
    r = sh('git -C /repo worktree add --detach %s HEAD' % wt)
    assert r.returncode == 0, r.stdout
    if patch:
        r = sh('git -C %s apply %s' % (wt, patch))
        assert r.returncode == 0, 'patch does not apply: ' + r.stdout
    return wt


def drop(wt):
    sh('git -C /repo worktree remove --force %s' % wt)
    sh('rm -rf %s' % wt)


def run(sid, tier='quick'):
    d = os.path.join(S, sid)
    meta = json.load(open(os.path.join(d, 'meta.json')))
    prop = meta['property']
    wt = worktree(sid, os.path.join(d, 'patch.diff'))
    t0 = time.time()
    try:
        r = sh('cd %s && VERIF_REPO=%s VERIF_EVIDENCE_DIR=/tmp/seed-evid-%s ./check %s --tier %s' % (V, wt, sid, prop, tier), timeout=5400)
    finally:
        drop(wt)
    viol = [l for l in r.stdout.splitlines() if l.startswith('VIOLATION')]
    res = {'seed': sid, 'property': prop, 'tier': tier, 'exit': r.returncode, 'violations': viol[:5],
           'detected': r.returncode == 1 and bool(viol), 'with_failing_input': any('no-failing-input-found' not in v for v in viol),
           'wall_s': round(time.time() - t0, 1)}
    json.dump(res, open(os.path.join(d, 'result_%s.json' % tier), 'w'), indent=1)
    print(json.dumps(res))
    return res


def verify(sid):
    """Confirm the seeded change ourselves: the demonstration fails with the change and passes
    without it, and the repository's own test-suite still passes with the change."""
    d = os.path.join(S, sid)
    out = {}
    for name, patch in (('with_change', os.path.join(d, 'patch.diff')), ('without_change', None)):
        wt = worktree(sid + '-v', patch)
        scratch = None
        try:
            # scratch copy with extensions from the cache (or freshly built) -- same path the checks use
            r = sh('cd %s && VERIF_REPO=%s /venv/bin/python -c "from harness import core; i=core.Impl(\'verify-%s\'); i.build(); print(\'DIR=\'+i.dir)"' % (V, wt, sid), timeout=3000)
            m = [l for l in r.stdout.splitlines() if l.startswith('DIR=')]
            assert m, r.stdout[-2000:]
            scratch = m[-1][4:]
            env = 'PYTHONPATH=%s XDG_CACHE_HOME=/tmp/seed-cache-%s PYTHONHASHSEED=0 MPLBACKEND=Agg' % (scratch, sid)
            r = sh('cd %s && %s timeout 1700 /venv/bin/python %s' % (scratch, env, os.path.join(d, 'demo.py')), timeout=1800)
            out[name] = {'exit': r.returncode, 'tail': r.stdout[-400:]}
            if name == 'with_change':
                t = sh('cd %s && %s /venv/bin/python -m pytest -q -p no:cacheprovider --timeout=900 test -x' % (scratch, env), timeout=3000)
                out['tests_with_change'] = {'exit': t.returncode, 'tail': t.stdout[-300:]}
        finally:
            drop(wt)
            if scratch:
                sh('rm -rf %s' % scratch)
            sh('rm -rf /tmp/seed-cache-%s' % sid)
    out['confirmed'] = out['with_change']['exit'] != 0 and out['without_change']['exit'] == 0 and out['tests_with_change']['exit'] == 0
    json.dump(out, open(os.path.join(d, 'verify.json'), 'w'), indent=1)
    print(sid, 'confirmed' if out['confirmed'] else 'NOT CONFIRMED', json.dumps(out)[:600])
    return out


def run_inplace(sid, tier='quick'):
    """The literal protocol of the brief: apply the change to /repo itself, run the check, undo it
    straight afterwards (use only when no other check is running)."""
    d = os.path.join(S, sid)
    meta = json.load(open(os.path.join(d, 'meta.json')))
    prop = meta['property']
    r0 = sh('git -C /repo status --porcelain --untracked-files=no')
    assert r0.stdout.strip() == '', '/repo has local modifications: ' + r0.stdout
    r = sh('git -C /repo apply %s' % os.path.join(d, 'patch.diff'))
    assert r.returncode == 0, r.stdout
    t0 = time.time()
    try:
        r = sh('cd %s && VERIF_EVIDENCE_DIR=/tmp/seed-evid-%s ./check %s --tier %s' % (V, sid, prop, tier), timeout=5400)
    finally:
        u = sh('git -C /repo checkout -- .')
        assert u.returncode == 0, u.stdout
    viol = [l for l in r.stdout.splitlines() if l.startswith('VIOLATION')]
    res = {'seed': sid, 'property': prop, 'tier': tier, 'mode': 'applied to /repo itself', 'exit': r.returncode,
           'violations': viol[:5], 'detected': r.returncode == 1 and bool(viol),
           'with_failing_input': any('no-failing-input-found' not in v for v in viol), 'wall_s': round(time.time() - t0, 1)}
    json.dump(res, open(os.path.join(d, 'result_inplace.json'), 'w'), indent=1)
    print(json.dumps(res))
    return res


if __name__ == '__main__':
    cmd = sys.argv[1]
    if cmd == 'all':
        for sid in sorted(os.listdir(S)):
            if os.path.exists(os.path.join(S, sid, 'patch.diff')):
                run(sid, *(sys.argv[2:3]))
    elif cmd == 'run':
        for sid in sys.argv[2:]:
            run(sid)
    elif cmd == 'inplace':
        for sid in sys.argv[2:]:
            run_inplace(sid)
    elif cmd == 'verify':
        for sid in sys.argv[2:]:
            verify(sid)
