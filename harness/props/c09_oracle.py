"""Independent exact oracle for C09 (never imports pyiga, shares no code with the Coq model).

B-splines as exact piecewise polynomials (Cox-de Boor recursion carried out on polynomials
with Fraction coefficients, cell by cell), exact integrals of products of their derivatives
with a polynomial weight, and the derived error bounds used by harness/props/c09.py.
"""
from fractions import Fraction as F

EPS = F(1, 2 ** 52)
TABLE_DEFECT = F(2, 10 ** 15)      # leggauss_exact_bounded (coq/gen/C09_leggauss.v), q <= 13


# ---- polynomials: list of Fractions, p[i] = coefficient of x^i ---------------------------

def padd(a, b):
    n = max(len(a), len(b))
    return [(a[i] if i < len(a) else 0) + (b[i] if i < len(b) else 0) for i in range(n)]


def pmul(a, b):
    if not a or not b:
        return []
    r = [F(0)] * (len(a) + len(b) - 1)
    for i, x in enumerate(a):
        if x:
            for j, y in enumerate(b):
                r[i + j] += x * y
    return r


def pscale(a, c):
    return [x * c for x in a]


def pder(a, k=1):
    for _ in range(k):
        a = [i * a[i] for i in range(1, len(a))]
    return a


def peval(a, x):
    r = F(0)
    for c in reversed(a):
        r = r * x + c
    return r


def pint(a, lo, hi):
    r = F(0)
    for i, c in enumerate(a):
        r += c * (hi ** (i + 1) - lo ** (i + 1)) / (i + 1)
    return r


def pcompose_affine(a, m, h):
    """a(m + h t) as a polynomial in t."""
    r = []
    lin = [F(m), F(h)]
    for c in reversed(a):
        r = padd(pmul(r, lin), [c])
    return r


def l1(a):
    return sum(abs(c) for c in a)


def falling(p, k):
    r = 1
    for i in range(k):
        r *= (p - i)
    return max(r, 0)


# ---- B-splines -----------------------------------------------------------------------------

def mesh_of(kv):
    m = []
    for x in kv:
        if not m or m[-1] != x:
            m.append(x)
    return m


def span_indices(kv):
    return [i for i in range(len(kv) - 1) if kv[i] != kv[i + 1]]


def bspline_on_cell(kv, p, a, b):
    """{i: polynomial of N_{i,p} on the cell (a,b)} for the functions that do not vanish there.
    (a,b) must lie inside one knot span."""
    n0 = len(kv) - 1
    N = {}
    for i in range(n0):
        if kv[i] < kv[i + 1] and kv[i] <= a and b <= kv[i + 1]:
            N[i] = [F(1)]
    for q in range(1, p + 1):
        N2 = {}
        for i in range(len(kv) - q - 1):
            r = []
            d1 = kv[i + q] - kv[i]
            if d1 != 0 and i in N:
                r = padd(r, pmul([-kv[i] / d1, 1 / d1], N[i]))
            d2 = kv[i + q + 1] - kv[i + 1]
            if d2 != 0 and (i + 1) in N:
                r = padd(r, pmul([kv[i + q + 1] / d2, -1 / d2], N[i + 1]))
            if r:
                N2[i] = r
        N = N2
    return N


def containing_span_width(kv, a, b):
    for i in range(len(kv) - 1):
        if kv[i] < kv[i + 1] and kv[i] <= a and b <= kv[i + 1]:
            return kv[i + 1] - kv[i]
    raise ValueError('cell (%s,%s) is not inside one knot span' % (a, b))


def exact_biform(kv1, p1, kv2, p2, du, dv, grid, wf=None, nqp=None):
    """Exact matrix E[i][j] = int wf * N2_i^(dv) * N1_j^(du) over the cells of `grid`
    (which must refine both meshes), and two entrywise bounds:
      R[i][j]: rounding of the floating-point evaluation (see c09.py for the derivation),
      T[i][j]: defect of numpy's Gauss tables (TABLE_DEFECT * sum_cells h/2 * l1 norm of the
               integrand's monomial coefficients on the reference cell; theorem quad_poly_defect).
    Rows: space 2 (test, dv), columns: space 1 (trial, du)."""
    n1 = len(kv1) - p1 - 1
    n2 = len(kv2) - p2 - 1
    wf = [F(c) for c in wf] if wf else [F(1)]
    deg_w = len(wf) - 1
    E = [[F(0)] * n1 for _ in range(n2)]
    R = [[F(0)] * n1 for _ in range(n2)]
    T = [[F(0)] * n1 for _ in range(n2)]
    maxdeg = 0
    xmax = max(abs(grid[0]), abs(grid[-1]), 1)
    Wmax = sum(abs(c) * xmax ** i for i, c in enumerate(wf))
    Wdmax = sum(i * abs(c) * xmax ** (i - 1) for i, c in enumerate(wf) if i >= 1)
    if nqp is None:
        nqp = -((-(p1 + p2 - du - dv + 1)) // 2)
    for a, b in zip(grid[:-1], grid[1:]):
        hc = b - a
        m, h = (a + b) / 2, (b - a) / 2
        B1 = {j: pder(P, du) for j, P in bspline_on_cell(kv1, p1, a, b).items()}
        B2 = {i: pder(P, dv) for i, P in bspline_on_cell(kv2, p2, a, b).items()}
        h1 = containing_span_width(kv1, a, b)
        h2 = containing_span_width(kv2, a, b)
        F1 = falling(p1, du) * (2 / h1) ** du
        F2 = falling(p2, dv) * (2 / h2) ** dv
        F1d = falling(p1, du + 1) * (2 / h1) ** (du + 1)
        F2d = falling(p2, dv + 1) * (2 / h2) ** (dv + 1)
        c_round = 8 * (p1 + 1) + 8 * (p2 + 1) + 8 + 2 * nqp + 4 * deg_w
        Bc = hc * EPS * (F1 * F2 * Wmax * c_round + 2 * xmax * (F1d * F2 * Wmax + F1 * F2d * Wmax + F1 * F2 * Wdmax))
        for i, Pi in B2.items():
            if not Pi:
                Pi = []
            for j, Pj in B1.items():
                prod = pmul(pmul(Pi, Pj), wf)
                R[i][j] += Bc
                if not prod:
                    continue
                maxdeg = max(maxdeg, len(prod) - 1)
                E[i][j] += pint(prod, a, b)
                T[i][j] += TABLE_DEFECT * h * l1(pcompose_affine(prod, m, h))
    return E, R, T, maxdeg


def exact_load(kv, p, f, grid=None):
    """int f N_i, f a polynomial (list of coefficients)."""
    f = [F(c) for c in f]
    n = len(kv) - p - 1
    L = [F(0)] * n
    T = [F(0)] * n
    grid = grid or mesh_of(kv)
    for a, b in zip(grid[:-1], grid[1:]):
        m, h = (a + b) / 2, (b - a) / 2
        for i, P in bspline_on_cell(kv, p, a, b).items():
            prod = pmul(P, f)
            L[i] += pint(prod, a, b)
            T[i] += TABLE_DEFECT * h * l1(pcompose_affine(prod, m, h))
    return L, T


def kron(A, B):
    return [[a * b for a in ra for b in rb] for ra in A for rb in B]


def madd(A, B):
    return [[x + y for x, y in zip(ra, rb)] for ra, rb in zip(A, B)]


def mabs(A):
    return [[abs(x) for x in r] for r in A]


def kron_with_bound(mats):
    """mats: list of (E, D) exact matrix and entrywise bound of each factor's computed value.
    Returns (kron E, bound on |kron computed - kron E|) using
    |prod(a_k + e_k) - prod a_k| <= prod(|a_k| + d_k) - prod |a_k|."""
    E = mats[0][0]
    U = madd(mabs(mats[0][0]), mats[0][1])
    Aabs = mabs(mats[0][0])
    for (Ek, Dk) in mats[1:]:
        E = kron(E, Ek)
        U = kron(U, madd(mabs(Ek), Dk))
        Aabs = kron(Aabs, mabs(Ek))
    D = [[u - a for u, a in zip(ru, ra)] for ru, ra in zip(U, Aabs)]
    return E, D, U


def rank_exact(A):
    """Rank of a matrix of Fractions (Gaussian elimination)."""
    A = [list(r) for r in A]
    rk = 0
    rows, cols = len(A), len(A[0]) if A else 0
    for c in range(cols):
        piv = None
        for r in range(rk, rows):
            if A[r][c] != 0:
                piv = r
                break
        if piv is None:
            continue
        A[rk], A[piv] = A[piv], A[rk]
        for r in range(rk + 1, rows):
            if A[r][c] != 0:
                f = A[r][c] / A[rk][c]
                A[r] = [x - f * y for x, y in zip(A[r], A[rk])]
        rk += 1
    return rk


def is_spd_exact(A):
    """Exact LDL^T without pivoting: all pivots positive <=> symmetric positive definite."""
    n = len(A)
    if any(A[i][j] != A[j][i] for i in range(n) for j in range(i)):
        return False
    A = [list(r) for r in A]
    for k in range(n):
        if A[k][k] <= 0:
            return False
        for r in range(k + 1, n):
            if A[r][k] != 0:
                f = A[r][k] / A[k][k]
                A[r] = [x - f * y for x, y in zip(A[r], A[k])]
    return True


# ---- multivariate polynomials on the unit cube: {exponent tuple: Fraction} ------------------------

def mp_add(a, b):
    r = dict(a)
    for e, c in b.items():
        r[e] = r.get(e, 0) + c
    return {e: c for e, c in r.items() if c != 0}


def mp_scale(a, c):
    return {e: v * c for e, v in a.items() if v * c != 0}


def mp_mul(a, b):
    r = {}
    for e1, c1 in a.items():
        for e2, c2 in b.items():
            e = tuple(x + y for x, y in zip(e1, e2))
            r[e] = r.get(e, 0) + c1 * c2
    return {e: c for e, c in r.items() if c != 0}


def mp_diff(a, k):
    r = {}
    for e, c in a.items():
        if e[k] > 0:
            e2 = e[:k] + (e[k] - 1,) + e[k + 1:]
            r[e2] = r.get(e2, 0) + c * e[k]
    return r


def mp_eval(a, t):
    r = F(0)
    for e, c in a.items():
        v = c
        for x, k in zip(t, e):
            v *= F(x) ** k
        r += v
    return r


def mp_int_unit(a):
    """integral over [0,1]^d"""
    r = F(0)
    for e, c in a.items():
        v = c
        for k in e:
            v /= (k + 1)
        r += v
    return r


def mp_degvar(a, k):
    return max([e[k] for e in a] + [0])


def mp_l1(a):
    return sum(abs(c) for c in a.values())


def multilinear_map(coeffs, d):
    """Components of the d-linear map with corner values coeffs[i_0]...[i_{d-1}] = point (x_0..x_{d-1}),
    parameter axis k = array axis k (pyiga: kvs[k]), as polynomials in t = (t_0..t_{d-1})."""
    import itertools
    comps = [dict() for _ in range(d)]
    for idx in itertools.product(*(d * [[0, 1]])):
        basis = {tuple([0] * d): F(1)}
        for k, b in enumerate(idx):
            one = tuple([0] * d)
            tk = tuple(1 if m == k else 0 for m in range(d))
            basis = mp_mul(basis, {tk: F(1)} if b else {one: F(1), tk: F(-1)})
        pt = coeffs
        for b in idx:
            pt = pt[b]
        for c in range(d):
            comps[c] = mp_add(comps[c], mp_scale(basis, F(pt[c])))
    return comps


def mp_det(J):
    d = len(J)
    if d == 2:
        return mp_add(mp_mul(J[0][0], J[1][1]), mp_scale(mp_mul(J[0][1], J[1][0]), F(-1)))
    def m2(a, b, c, e):
        return mp_add(mp_mul(a, e), mp_scale(mp_mul(b, c), F(-1)))
    t0 = mp_mul(J[0][0], m2(J[1][1], J[1][2], J[2][1], J[2][2]))
    t1 = mp_mul(J[0][1], m2(J[1][0], J[1][2], J[2][0], J[2][2]))
    t2 = mp_mul(J[0][2], m2(J[1][0], J[1][1], J[2][0], J[2][1]))
    return mp_add(mp_add(t0, mp_scale(t1, F(-1))), t2)


def abs_det_poly(comps):
    """|det DG| as a polynomial, or None if the sign of det is not the same at centre and all corners."""
    import itertools
    d = len(comps)
    J = [[mp_diff(comps[c], k) for k in range(d)] for c in range(d)]
    det = mp_det(J)
    pts = [tuple([F(1, 2)] * d)] + [tuple(F(b) for b in idx) for idx in itertools.product(*(d * [[0, 1]]))]
    vals = [mp_eval(det, t) for t in pts]
    if all(v > 0 for v in vals):
        return det
    if all(v < 0 for v in vals):
        return mp_scale(det, F(-1))
    return None


def exact_inner_mp(spaces, g):
    """int N_{i_0}(t_0)...N_{i_{d-1}}(t_{d-1}) g(t) dt over [0,1]^d for g = {exponents: coef}; spaces: [(kv, p)].
    Flat list in C order (first space slowest)."""
    d = len(spaces)
    loads = {}
    for k, (kv, p) in enumerate(spaces):
        for e in set(ex[k] for ex in g):
            loads[(k, e)] = exact_load(kv, p, [0] * e + [1])[0]
    ns = [len(kv) - p - 1 for kv, p in spaces]
    total = 1
    for n in ns:
        total *= n
    res = [F(0)] * total
    for ex, c in g.items():
        vec = [c]
        for k in range(d):
            L = loads[(k, ex[k])]
            vec = [a * b for a in vec for b in L]
        res = [r + v for r, v in zip(res, vec)]
    return res
