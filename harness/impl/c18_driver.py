"""Implementation driver for C18: runs tensor operation sequences, index expressions,
TensorGenerator accesses, CanonicalOperator algebra and the approximation algorithms of
pyiga.tensor / pyiga.lowrank on the real code.  stdin JSON -> last stdout line JSON.
No judgement is made here: everything observable is dumped for the harness."""
import contextlib
import io
import json
import os
import sys

import numpy as np
import scipy.sparse
import scipy.sparse.linalg


def errclass(e):
    for c in (TypeError, ValueError, AssertionError, IndexError, KeyError, NotImplementedError, AttributeError,
              np.linalg.LinAlgError):
        if isinstance(e, c):
            return c.__name__
    return 'Other:' + type(e).__name__


def dense(M):
    if scipy.sparse.issparse(M):
        M = M.toarray()
    return np.asarray(M, dtype=float)


def dmat(M):
    M = dense(M)
    if M.ndim == 1:
        M = M[:, None]
    return {'r': int(M.shape[0]), 'c': int(M.shape[1]), 'd': M.tolist()}


def dfull(A):
    A = np.asarray(A, dtype=float)
    return {'sh': [int(n) for n in A.shape], 'd': A.ravel(order='C').tolist()}


def main():
    import pyiga
    assert os.path.realpath(pyiga.__file__).startswith(os.path.realpath(os.environ['VERIF_IMPL_DIR'])), pyiga.__file__
    from pyiga import tensor, lowrank, utils
    T = tensor

    def dump(x):
        if isinstance(x, T.CanonicalTensor):
            return {'t': 'canon', 'Xs': [dmat(X) for X in x.Xs], 'shape': list(x.shape), 'R': int(x.R)}
        if isinstance(x, T.TuckerTensor):
            return {'t': 'tucker', 'Us': [dmat(U) for U in x.Us], 'X': dfull(x.X), 'shape': list(x.shape)}
        if isinstance(x, T.TensorSum):
            return {'t': 'sum', 'Xs': [dump(y) for y in x.Xs], 'shape': list(x.shape)}
        if isinstance(x, T.TensorProd):
            return {'t': 'prod', 'Xs': [dump(y) for y in x.Xs], 'shape': list(x.shape)}
        if isinstance(x, np.ndarray):
            return dict(dfull(x), t='full')
        if np.isscalar(x):
            return {'t': 'scal', 'v': float(x)}
        return {'t': 'other:' + type(x).__name__}

    def mk(spec):
        t = spec['t']
        if t == 'canon':
            return T.CanonicalTensor([np.array(X['d'], dtype=float).reshape(X['r'], X['c']) for X in spec['Xs']])
        if t == 'tucker':
            return T.TuckerTensor([np.array(U['d'], dtype=float).reshape(U['r'], U['c']) for U in spec['Us']],
                                  np.array(spec['X']['d'], dtype=float).reshape(spec['X']['sh']))
        if t == 'full':
            return np.array(spec['d'], dtype=float).reshape(spec['sh'])
        raise ValueError(t)

    def mkindex(I):
        out = []
        for ik in I['items']:
            if 'i' in ik:
                out.append(int(ik['i']))
            elif 's' in ik:
                out.append(slice(*ik['s']))
            elif 'a' in ik:
                out.append(np.array(ik['a'], dtype=int))
            else:
                out.append(list(ik['l']))
        if I.get('bare') and len(out) == 1:
            return out[0]
        return tuple(out)

    def mkidx(kind, v):
        if kind == 'list':
            return [int(x) for x in v]
        if kind == 'tuple':
            return tuple(int(x) for x in v)
        if kind == 'ndarray':
            return np.array(v, dtype=int)
        if kind == 'intp':
            return [np.intp(x) for x in v]
        raise ValueError(kind)

    def mkmat(B, sparse=False):
        if B is None:
            return None
        A = np.array(B['d'], dtype=float).reshape(B['r'], B['c'])
        return scipy.sparse.csr_matrix(A) if sparse else A

    flags = {}

    def do_op(op, slots):
        k = op['op']
        a = slots[op['a']] if 'a' in op else None
        b = slots[op['b']] if 'b' in op else None
        if k == 'add':
            return a + b
        if k == 'sub':
            return a - b
        if k == 'neg':
            return -a
        if k == 'to_tucker':
            return T.TuckerTensor.from_tensor(a)
        if k == 'to_canon':
            return T.CanonicalTensor.from_tensor(a)
        if k == 'asarray':
            return T.asarray(a)
        if k == 'copy':
            return a.copy()
        if k == 'join1':
            U, X1, X2 = T.join_tucker_bases(a, b)
            return T.TuckerTensor(U, X1)
        if k == 'join2':
            U, X1, X2 = T.join_tucker_bases(a, b)
            return T.TuckerTensor(U, X2)
        if k == 'getitem':
            Iobj = mkindex(op['I'])
            snap = repr(Iobj)
            try:
                return a[Iobj]
            finally:
                flags['index_unchanged'] = repr(Iobj) == snap
        if k == 'squeeze':
            ax = op['axis']
            if ax is None:
                return a.squeeze()
            return a.squeeze(axis=tuple(ax) if isinstance(ax, list) else ax)
        if k == 'nway':
            Bs = [mkmat(B, sparse=op.get('sparse', False)) for B in op['Bs']]
            return T.apply_tprod(Bs, a)
        if k == 'truncate':
            kk = op['k']
            return a.truncate(tuple(kk) if isinstance(kk, list) else kk)
        if k == 'pad':
            return T.pad(a, [None if w is None else tuple(w) for w in op['w']])
        if k == 'zerosC':
            return T.CanonicalTensor.zeros(tuple(op['shape']))
        if k == 'onesC':
            return T.CanonicalTensor.ones(tuple(op['shape']))
        if k == 'zerosT':
            return T.TuckerTensor.zeros(tuple(op['shape']))
        if k == 'onesT':
            return T.TuckerTensor.ones(tuple(op['shape']))
        if k == 'tsum':
            return T.TensorSum(*[slots[i] for i in op['xs']])
        if k == 'tprod':
            return T.TensorProd(*[slots[i] for i in op['xs']])
        if k == 'from_terms':
            return T.CanonicalTensor.from_terms(a.terms())
        if k == 'norm':
            return float(T.fro_norm(a))
        if k == 'ravel':
            return a.ravel()
        if k == 'orth':
            return a.orthogonalize()
        raise ValueError('unknown op ' + k)

    payload = json.load(sys.stdin)
    out = {}

    # ---- operation sequences -------------------------------------------------
    res_seqs = []
    for case in payload.get('seqs', []):
        slots = [mk(s) for s in case['init']]
        steps = []
        for op in case['ops']:
            r = {}
            opnd = [slots[op[k_]] for k_ in ('a', 'b') if k_ in op] + [slots[i_] for i_ in op.get('xs', [])]
            before = [json.dumps(dump(x_), sort_keys=True) if x_ is not None else None for x_ in opnd]
            try:
                flags.clear()
                with np.errstate(all='ignore'):
                    y = do_op(op, slots)
                if 'index_unchanged' in flags:
                    r['index_unchanged'] = flags['index_unchanged']
                r['operands_unchanged'] = before == [json.dumps(dump(x_), sort_keys=True) if x_ is not None else None
                                                     for x_ in opnd]
                r['status'] = 'Ok'
                r['result'] = dump(y)
                try:
                    r['dense'] = dfull(T.asarray(y)) if not np.isscalar(y) else {'sh': [], 'd': [float(y)]}
                    if not np.isscalar(y):
                        r['attr_shape'] = [int(n) for n in y.shape]
                        r['attr_ndim'] = int(y.ndim)
                except Exception as e:  # noqa
                    r['dense_error'] = errclass(e) + ': ' + str(e)[:200]
                slots.append(y)
            except Exception as e:  # noqa
                r['status'] = errclass(e)
                r['msg'] = str(e)[:200]
                slots.append(None)
            steps.append(r)
        res_seqs.append(steps)
    out['seqs'] = res_seqs

    # ---- _normalize_indices ----------------------------------------------------
    res_idx = []
    for case in payload.get('idx', []):
        r = {}
        try:
            I_new, shp, singl = T._normalize_indices(mkindex(case['I']), tuple(case['shape']))
            r['status'] = 'Ok'
            r['ranges'] = [[int(v) for v in rk] for rk in I_new]
            r['shape_new'] = [int(n) for n in shp]
            r['singleton'] = [int(n) for n in singl]
        except Exception as e:  # noqa
            r['status'] = errclass(e)
            r['msg'] = str(e)[:200]
        res_idx.append(r)
    out['idx'] = res_idx

    # ---- TensorGenerator -------------------------------------------------------
    res_gen = []
    for case in payload.get('gen', []):
        X = np.array(case['X']['d'], dtype=float).reshape(case['X']['sh'])
        r = {}
        try:
            if case.get('multi'):
                g = lowrank.TensorGenerator(X.shape, multientryfunc=lambda idx: np.array([X[tuple(i)] for i in idx]))
            else:
                g = lowrank.TensorGenerator.from_array(X)
            o = case['o']
            Iobj = None
            if o['k'] == 'get':
                Iobj = mkindex(o['I'])
                snap = repr(Iobj)
                y = g[Iobj]
            elif o['k'] == 'asarray':
                y = g.asarray()
            elif o['k'] == 'entry':
                Iobj = mkidx(o.get('ikind', 'tuple'), o['I'])
                snap = repr(Iobj)
                y = np.asarray(g.entry(Iobj))
            else:
                Iobj = mkidx(o.get('ikind', 'tuple'), o['I'])
                snap = repr(Iobj)
                sub = g.matrix_at(Iobj, axes=tuple(o['axes']))
                y = sub.asarray()
                y2 = sub.asarray()          # a second evaluation of the same slice generator
                r['second_equal'] = bool(np.array_equal(y, y2))
            if Iobj is not None:
                r['index_unchanged'] = repr(Iobj) == snap
            r['status'] = 'Ok'
            r['value'] = dfull(y)
            r['pytype'] = type(y).__name__
        except Exception as e:  # noqa
            r['status'] = errclass(e)
            r['msg'] = str(e)[:200]
        res_gen.append(r)
    out['gen'] = res_gen

    # ---- histories on TensorGenerator objects: sibling slice generators built from ONE index object,
    #      evaluated in interleaved order; every index argument is snapshotted after every step --------
    res_gh = []
    for case in payload.get('genhist', []):
        X = np.array(case['X']['d'], dtype=float).reshape(case['X']['sh'])
        X0 = X.copy()
        if case.get('multi'):
            root = lowrank.TensorGenerator(X.shape, multientryfunc=lambda idx: np.array([X[tuple(i)] for i in idx]))
        else:
            root = lowrank.TensorGenerator.from_array(X)
        gens = [root]
        idxobjs = []
        steps = []
        for st in case['steps']:
            r = {}
            try:
                k = st['s']
                if k == 'index':
                    idxobjs.append(mkidx(st['kind'], st['v']))
                elif k == 'matrix_at':
                    gens.append(gens[st['gen']].matrix_at(idxobjs[st['idx']], axes=tuple(st['axes'])))
                    r['shape'] = [int(n) for n in gens[-1].shape]
                elif k == 'asarray':
                    r['value'] = dfull(gens[st['gen']].asarray())
                elif k == 'entry':
                    r['value'] = dfull(np.asarray(gens[st['gen']].entry(idxobjs[st['idx']])))
                elif k == 'get':
                    r['value'] = dfull(gens[st['gen']][mkindex(st['I'])])
                else:
                    raise ValueError(k)
                r['status'] = 'Ok'
            except Exception as e:  # noqa
                r['status'] = errclass(e)
                r['msg'] = str(e)[:200]
                if st['s'] == 'matrix_at':
                    gens.append(None)
            r['idxobjs'] = [[int(x) for x in o] for o in idxobjs]
            r['idxtypes'] = [type(o).__name__ for o in idxobjs]
            r['array_unchanged'] = bool(np.array_equal(X, X0))
            steps.append(r)
        res_gh.append(steps)
    out['genhist'] = res_gh

    # ---- CanonicalOperator -----------------------------------------------------
    def mkop(terms, sparse):
        return T.CanonicalOperator([tuple(mkmat(B, sparse) for B in term) for term in terms])

    def dumpop(Op):
        return [[dmat(B) for B in term] for term in Op.terms]

    res_cop = []
    for case in payload.get('cop', []):
        r = {}
        try:
            sp = case.get('sparse', True)
            A = mkop(case['A'], sp)
            B = mkop(case['B'], sp) if case.get('B') else None
            o = case['o']
            if o['k'] == 'T':
                C = A.T
            elif o['k'] == 'add':
                C = A + B
            elif o['k'] == 'sub':
                C = A - B
            elif o['k'] == 'neg':
                C = -A
            elif o['k'] == 'mul':
                C = A @ B if o.get('matmul') else A * B
            elif o['k'] == 'kron':
                C = A.kron(B)
            elif o['k'] == 'slice':
                C = A.slice([tuple(l) for l in o['limits']])
            elif o['k'] == 'apply':
                C = None
            else:
                raise ValueError(o['k'])
            r['status'] = 'Ok'
            if C is not None:
                r['terms'] = dumpop(C)
                r['shape'] = [list(C.shape[0]), list(C.shape[1])]
                r['R'] = int(C.R)
                if sp:
                    r['asmatrix'] = dense(C.asmatrix()).tolist()
            else:
                X = mk(case['X'])
                Y = A.apply(X) if not o.get('matmul') else A @ X
                r['result'] = dump(Y)
                r['dense'] = dfull(T.asarray(Y))
        except Exception as e:  # noqa
            r['status'] = errclass(e)
            r['msg'] = str(e)[:200]
        res_cop.append(r)
    out['cop'] = res_cop

    # ---- free functions on full arrays: modek_tprod, matricize, outer, array_outer ------------
    res_modek = []
    for case in payload.get('modek', []):
        r = {}
        try:
            f = case['f']
            if f == 'modek':
                X = np.array(case['X']['d'], dtype=float).reshape(case['X']['sh'])
                Bd = mkmat(case['B'])
                kind = case['kind']
                if kind == 'dense':
                    B = Bd
                elif kind == 'csr':
                    B = scipy.sparse.csr_matrix(Bd)
                elif kind == 'csc':
                    B = scipy.sparse.csc_matrix(Bd)
                elif kind == 'linop':
                    B = scipy.sparse.linalg.aslinearoperator(Bd)
                else:
                    raise ValueError(kind)
                y = T.modek_tprod(B, int(case['k']), X)
            elif f == 'matricize':
                X = np.array(case['X']['d'], dtype=float).reshape(case['X']['sh'])
                y = T.matricize(X, int(case['k']))
            elif f == 'outer':
                y = T.outer(*[np.array(v, dtype=float) for v in case['xs']])
            elif f == 'array_outer':
                y = T.array_outer(*[np.array(a['d'], dtype=float).reshape(a['sh']) for a in case['xs']])
            else:
                raise ValueError(f)
            r['status'] = 'Ok'
            r['value'] = dfull(y)
        except Exception as e:  # noqa
            r['status'] = errclass(e)
            r['msg'] = str(e)[:200]
        res_modek.append(r)
    out['modek'] = res_modek

    # ---- rank_1_update / aca3d_update (Cython) -----------------------------------
    res_upd = []
    for case in payload.get('upd', []):
        r = {}
        try:
            if case['k'] == 'r1':
                X = np.array(case['X']['d'], dtype=float).reshape(case['X']['r'], case['X']['c']).copy(order='C')
                lowrank.rank_1_update(X, float(case['alpha']), np.array(case['u'], dtype=float), np.array(case['v'], dtype=float))
                r['X'] = dmat(X)
            else:
                X = np.array(case['X']['d'], dtype=float).reshape(case['X']['sh']).copy(order='C')
                V = np.array(case['V']['d'], dtype=float).reshape(case['V']['r'], case['V']['c']).copy(order='C')
                lowrank.aca3d_update(X, float(case['alpha']), np.array(case['u'], dtype=float), V)
                r['X'] = dfull(X)
            r['status'] = 'Ok'
        except Exception as e:  # noqa
            r['status'] = errclass(e)
            r['msg'] = str(e)[:200]
        res_upd.append(r)
    out['upd'] = res_upd

    # ---- floating-point part: norms, orthogonalisation, HOSVD, compression, ACA, ALS, greedy ----
    res_num = []
    for case in payload.get('num', []):
        r = {}
        k = case['k']
        try:
            np.random.seed(int(case.get('npseed', 0)))
            sink = io.StringIO()
            made = {}

            def mkr(spec, _made=made):      # remember every input object built for this case
                obj = mk(spec)
                _made[id(obj)] = (obj, json.dumps(dump(obj), sort_keys=True))
                return obj
            with contextlib.redirect_stdout(sink), np.errstate(all='ignore'):
                if k == 'hosvd':
                    X = mkr(case['X'])
                    H = T.hosvd(X)
                    r['Us'] = [dmat(U) for U in H.Us]
                    r['core'] = dfull(H.X)
                    r['dense'] = dfull(H.asarray())
                elif k == 'orth':
                    A = mkr(case['A'])
                    O = A.orthogonalize()
                    r['Us'] = [dmat(U) for U in O.Us]
                    r['core'] = dfull(O.X)
                    r['dense'] = dfull(O.asarray())
                    r['norm'] = float(A.norm())
                elif k == 'norm':
                    A = mkr(case['A'])
                    r['norm'] = float(T.fro_norm(A))
                elif k == 'compress':
                    A = mkr(case['A'])
                    kw = {}
                    if case.get('tol') is not None:
                        kw['tol'] = float(case['tol'])
                    if case.get('rtol') is not None:
                        kw['rtol'] = float(case['rtol'])
                    Cc = A.compress(**kw)
                    r['R'] = [int(n) for n in Cc.R]
                    r['Us'] = [dmat(U) for U in Cc.Us]
                    r['dense'] = dfull(Cc.asarray())
                elif k == 'trunc_rank':
                    X = mkr(case['X'])
                    r['shape'] = [int(n) for n in T.find_truncation_rank(X, float(case['tol']))]
                elif k == 'aca':
                    X = mkr(case['X'])
                    kw = dict(tol=float(case['tol']), maxiter=int(case['maxiter']), verbose=0)
                    if case.get('gen'):
                        Y = lowrank.aca(lowrank.TensorGenerator.from_array(X), **kw)
                    else:
                        Y = lowrank.aca(X, **kw)
                    r['dense'] = dfull(Y)
                elif k == 'aca_lr':
                    X = mkr(case['X'])
                    cr = lowrank.aca_lr(X, tol=float(case['tol']), maxiter=int(case['maxiter']), verbose=0)
                    r['ncross'] = len(cr)
                    r['crosses'] = [[np.asarray(c, dtype=float).tolist(), np.asarray(rr, dtype=float).tolist()] for (c, rr) in cr]
                    if cr:
                        r['dense'] = dfull(T.CanonicalTensor.from_terms(cr).asarray())
                    else:
                        r['dense'] = dfull(np.zeros(X.shape))
                elif k == 'aca3d':
                    X = mkr(case['X'])
                    Y = lowrank.aca_3d(lowrank.TensorGenerator.from_array(X), tol=float(case['tol']),
                                       maxiter=int(case['maxiter']), verbose=0, lr=bool(case.get('lr')))
                    if case.get('lr'):
                        r['result_type'] = type(Y).__name__
                        r['nterms'] = len(Y.Xs)
                    r['dense'] = dfull(T.asarray(Y))
                elif k == 'als1':
                    A = mkr(case['A'])
                    xs = T.als1(A)
                    r['dense'] = dfull(T.outer(*xs))
                elif k == 'als':
                    A = mkr(case['A'])
                    Y = T.als(A, int(case['R']), tol=float(case.get('tol', 1e-10)), maxiter=int(case.get('maxiter', 10000)))
                    r['R'] = int(Y.R)
                    r['dense'] = dfull(Y.asarray())
                elif k == 'grou':
                    A = mkr(case['A'])
                    Y, errs = T.grou(A, int(case['R']), tol=float(case['tol']), return_errors=True)
                    r['R'] = int(Y.R)
                    r['errors'] = [float(e) for e in errs]
                    r['dense'] = dfull(Y.asarray())
                elif k == 'gta':
                    A = mkr(case['A'])
                    Y, errs = T.gta(A, int(case['R']), tol=float(case['tol']), rtol=float(case['rtol']), return_errors=True)
                    r['R'] = [int(n) for n in Y.R]
                    r['Us'] = [dmat(U) for U in Y.Us]
                    r['errors'] = [float(e) for e in errs]
                    r['dense'] = dfull(Y.asarray())
                else:
                    raise ValueError(k)
            r['input_unchanged'] = all(json.dumps(dump(obj), sort_keys=True) == snap for (obj, snap) in made.values())
            r['status'] = 'Ok'
        except Exception as e:  # noqa
            r['status'] = errclass(e)
            r['msg'] = str(e)[:300]
        res_num.append(r)
    out['num'] = res_num

    print(json.dumps(out))


if __name__ == '__main__':
    main()
