(* C15 -- executable model of pyiga/mlmatrix.py, pyiga/mlmatrix_cy.pyx and
   utils.kron_partial (index arithmetic of multi-level structured matrices).
   Definitions only; proofs are in Proofs.v.

   Conventions: indices and integer data are [Z]; a level pattern bidx[k] is a
   list of (i,j) pairs in the order of the rows of the nnz_k x 2 array; the block
   sizes bs are a list of (m_k, n_k); a data tensor is handed over raveled in C
   order.  Python's // and % on the non-negative operands that occur here are
   Z.div / Z.modulo (both floor). *)
From Coq Require Import ZArith List Bool Lia.
Import ListNotations.
Open Scope Z_scope.

Definition pat := list (Z * Z).

Definition rowdims (bs : list (Z * Z)) : list Z := map fst bs.
Definition coldims (bs : list (Z * Z)) : list Z := map snd bs.
Definition prodZ (l : list Z) : Z := fold_right Z.mul 1 l.

(* MLStructure.__init__ (mlmatrix.py:39-41): shape = (prod m_k, prod n_k) *)
Definition shape (bs : list (Z * Z)) : Z * Z := (prodZ (rowdims bs), prodZ (coldims bs)).

(* ------------------------------------------------------------------------ *)
(* to_seq / from_seq  (mlmatrix.py:347-369, mlmatrix_cy.pyx:43-70)           *)
(* ------------------------------------------------------------------------ *)

(* to_seq: i = 0; for k in range(len(dims)): i *= dims[k]; i += I[k] *)
Fixpoint to_seq_acc (acc : Z) (I dims : list Z) : Z :=
  match dims, I with
  | m :: dims', i :: I' => to_seq_acc (acc * m + i) I' dims'
  | _, _ => acc
  end.
Definition to_seq (I dims : list Z) : Z := to_seq_acc 0 I dims.

(* from_seq: for k in reversed(range(L)): I[k] = i % dims[k]; i //= dims[k].
   [from_seq_rev] walks the reversed dims and yields the reversed multi-index. *)
Fixpoint from_seq_rev (i : Z) (rdims : list Z) : list Z :=
  match rdims with
  | [] => []
  | m :: r => (i mod m) :: from_seq_rev (i / m) r
  end.
Definition from_seq (i : Z) (dims : list Z) : list Z := rev (from_seq_rev i (rev dims)).

(* reindex_from_reordered (mlmatrix.py:332-345, mlmatrix_cy.pyx:16-30) *)
Definition reindex_from_reordered (i j m1 n1 m2 n2 : Z) : Z * Z :=
  let bi0 := i / n1 in let bi1 := i mod n1 in
  let ii0 := j / n2 in let ii1 := j mod n2 in
  (bi0 * m2 + ii0, bi1 * n2 + ii1).

(* reindex_to_multilevel (mlmatrix.py:371-377):
   I, J = from_seq(i, bs[:,0]), from_seq(j, bs[:,1]);
   tuple(to_seq((I[k],J[k]), bs[k,:]) for k) *)
Fixpoint zip3 (I J : list Z) (bs : list (Z * Z)) : list Z :=
  match I, J, bs with
  | i :: I', j :: J', (m, n) :: bs' => to_seq [i; j] [m; n] :: zip3 I' J' bs'
  | _, _, _ => []
  end.
Definition reindex_to_multilevel (i j : Z) (bs : list (Z * Z)) : list Z :=
  zip3 (from_seq i (rowdims bs)) (from_seq j (coldims bs)) bs.

(* reindex_from_multilevel (mlmatrix_cy.pyx:78-100): per level
   from_seq2(M[k], bs[k,:]) = (M[k] // n_k, M[k] % n_k); ii = ii*m_k + ., jj = jj*n_k + . *)
Fixpoint rfm_acc (ii jj : Z) (M : list Z) (bs : list (Z * Z)) : Z * Z :=
  match M, bs with
  | mk :: M', (m, n) :: bs' => rfm_acc (ii * m + mk / n) (jj * n + mk mod n) M' bs'
  | _, _ => (ii, jj)
  end.
Definition reindex_from_multilevel (M : list Z) (bs : list (Z * Z)) : Z * Z := rfm_acc 0 0 M bs.

(* ------------------------------------------------------------------------ *)
(* itertools-style Cartesian product, last factor fastest                    *)
(* ------------------------------------------------------------------------ *)
Fixpoint product {A : Type} (ls : list (list A)) : list (list A) :=
  match ls with
  | [] => [[]]
  | l :: rest => flat_map (fun x => map (cons x) (product rest)) l
  end.

(* ------------------------------------------------------------------------ *)
(* the odometer loop shared by ml_nonzero_nd (mlmatrix_cy.pyx:378-390) and   *)
(* pyx_raveled_cartesian_product (mlmatrix_cy.pyx:151-160)                   *)
(* ------------------------------------------------------------------------ *)
(* State per level k: (cur_idx[k], current element).  [odo_incr] is the loop
   `for k in reversed(range(L))`: the recursive call handles the levels behind
   k and returns whether the carry reaches level k.  The returned flag of the
   outermost call is "level 0 overflowed" (`done = True` in ml_nonzero_nd; in
   pyx_raveled_cartesian_product the counters wrap and the for-loop over N
   ends). *)
Fixpoint odo_incr {A : Type} (d : A) (ls : list (list A)) (st : list (nat * A))
  : bool * list (nat * A) :=
  match ls, st with
  | l :: ls', (c, a) :: st' =>
      let (carry, st'') := odo_incr d ls' st' in
      if carry then
        if Nat.ltb (S c) (length l) then (false, (S c, nth (S c) l d) :: st'')
        else (true, (O, nth O l d) :: st'')
      else (false, (c, a) :: st'')
  | _, _ => (true, [])
  end.

(* `fuel` iterations of: emit the current elements; increment; stop when done *)
Fixpoint odo_loop {A : Type} (d : A) (ls : list (list A)) (fuel : nat) (st : list (nat * A))
  : list (list A) :=
  match fuel with
  | O => []
  | S f => map snd st ::
           (let (done, st') := odo_incr d ls st in
            if done then [] else odo_loop d ls f st')
  end.

Definition total_len {A : Type} (ls : list (list A)) : nat :=
  fold_right Nat.mul 1%nat (map (@length A) ls).

(* cur_idx[k] = 0 and the element at position 0 of every level *)
Definition odo_init {A : Type} (d : A) (ls : list (list A)) : list (nat * A) :=
  map (fun l => (O, nth O l d)) ls.

(* N = prod NN[k]; `done = (N == 0)`; exactly N iterations are needed *)
Definition odo_enum {A : Type} (d : A) (ls : list (list A)) : list (list A) :=
  odo_loop d ls (total_len ls) (odo_init d ls).

(* ------------------------------------------------------------------------ *)
(* nonzero()                                                                 *)
(* ------------------------------------------------------------------------ *)
(* `if not lower_tri or J <= I` *)
Definition keep (lt : bool) (e : Z * Z) : bool := negb lt || (snd e <=? fst e).

(* ml_nonzero_2d (mlmatrix_cy.pyx:189-218): two nested loops, I = xi0*m2+yi0,
   J = xi1*n2+yi1, entries failing the lower_tri test are skipped. *)
Definition nz2 (b1 b2 : pat) (m2 n2 : Z) : list (Z * Z) :=
  flat_map (fun x => map (fun y => (fst x * m2 + fst y, snd x * n2 + snd y)) b2) b1.
Definition ml_nonzero_2d (b1 b2 : pat) (bs : list (Z * Z)) (lt : bool) : list (Z * Z) :=
  let '(m2, n2) := nth 1%nat bs (0, 0) in
  filter (keep lt) (nz2 b1 b2 m2 n2).

(* ml_nonzero_3d (mlmatrix_cy.pyx:257-289) *)
Definition nz3 (b1 b2 b3 : pat) (m2 n2 m3 n3 : Z) : list (Z * Z) :=
  flat_map (fun x => flat_map (fun y => map (fun z =>
     ((fst x * m2 + fst y) * m3 + fst z, (snd x * n2 + snd y) * n3 + snd z)) b3) b2) b1.
Definition ml_nonzero_3d (b1 b2 b3 : pat) (bs : list (Z * Z)) (lt : bool) : list (Z * Z) :=
  let '(m2, n2) := nth 1%nat bs (0, 0) in
  let '(m3, n3) := nth 2%nat bs (0, 0) in
  filter (keep lt) (nz3 b1 b2 b3 m2 n2 m3 n3).

(* ml_nonzero_nd (mlmatrix_cy.pyx:333-395), REPAIRED initialisation
   `block_i[i], block_j[i] = bidx_ptr[i][0], bidx_ptr[i][1]`
   (fixes/C15-nonzero-nd-block-j-init.patch).  block_i/block_j are the
   components of the current elements of the odometer. *)
Definition entry_of (bs : list (Z * Z)) (sel : list (Z * Z)) : Z * Z :=
  (to_seq (map fst sel) (rowdims bs), to_seq (map snd sel) (coldims bs)).
Definition ml_nonzero_nd (bidx : list pat) (bs : list (Z * Z)) (lt : bool) : list (Z * Z) :=
  filter (keep lt) (map (entry_of bs) (odo_enum (0, 0) bidx)).

(* the same routine with the initialisation as it stood before the repair:
   block_j[i] = bidx_ptr[0][1] (column of the first non-zero of level 0) *)
Definition odo_init_level0 (bidx : list pat) : list (nat * (Z * Z)) :=
  let j0 := snd (nth O (nth O bidx []) (0, 0)) in
  map (fun l => (O, (fst (nth O l (0, 0)), j0))) bidx.
Definition ml_nonzero_nd_level0 (bidx : list pat) (bs : list (Z * Z)) (lt : bool) : list (Z * Z) :=
  filter (keep lt) (map (entry_of bs)
     (odo_loop (0, 0) bidx (total_len bidx) (odo_init_level0 bidx))).

(* MLStructure.nonzero (mlmatrix.py:113-132): dispatch on L.  L = 1:
   `IJ = self.bidx[0].T.copy(); if lower_tri: IJ = IJ[:, IJ[1] <= IJ[0]]`.
   (The result stays an option: the other queries of the model can be refused.) *)
Definition nonzero (bs : list (Z * Z)) (bidx : list pat) (lt : bool) : option (list (Z * Z)) :=
  match bidx with
  | [b] => Some (filter (keep lt) b)
  | [b1; b2] => Some (ml_nonzero_2d b1 b2 bs lt)
  | [b1; b2; b3] => Some (ml_nonzero_3d b1 b2 b3 bs lt)
  | _ => Some (ml_nonzero_nd bidx bs lt)
  end.

(* ------------------------------------------------------------------------ *)
(* transpose / reorder / join / slice of structures (mlmatrix.py:87-103,132) *)
(* ------------------------------------------------------------------------ *)
Definition swap (e : Z * Z) : Z * Z := (snd e, fst e).
Definition transpose_bs (bs : list (Z * Z)) := map swap bs.
Definition transpose_bidx (bidx : list pat) : list pat := map (map swap) bidx.

Definition pick {A : Type} (d : A) (l : list A) (axes : list nat) : list A :=
  map (fun j => nth j l d) axes.
Definition reorder_bs (bs : list (Z * Z)) (axes : list nat) := pick (0, 0) bs axes.
Definition reorder_bidx (bidx : list pat) (axes : list nat) := pick [] bidx axes.

(* ------------------------------------------------------------------------ *)
(* nonzeros_for_rows / nonzeros_for_columns (mlmatrix.py:139-193,            *)
(* mlmatrix_cy.pyx:119-178)                                                  *)
(* ------------------------------------------------------------------------ *)
(* _level_rowwise_interactions(k)[r]: columns of the entries of level k in row r,
   in the order of bidx[k] *)
Definition level_row_inter (b : pat) (r : Z) : list Z :=
  map snd (filter (fun e => fst e =? r) b).

(* pyx_raveled_cartesian_product: returns the empty array as soon as one factor
   is empty, otherwise N = prod shp iterations of the odometer *)
Definition raveled_cartesian_product (arrays : list (list Z)) (dims : list Z) : list Z :=
  map (fun K => to_seq K dims) (odo_enum 0 arrays).

(* np.unravel_index(row_indices, bs_I) raises ValueError for an index outside
   range(prod bs_I): None *)
Definition in_range (n : Z) (r : Z) : bool := (0 <=? r) && (r <? n).

Definition rows_J (bs : list (Z * Z)) (bidx : list pat) (r : Z) : list Z :=
  let ix := from_seq r (rowdims bs) in
  raveled_cartesian_product (map (fun bx => level_row_inter (fst bx) (snd bx)) (combine bidx ix))
                            (coldims bs).

(* result: list of (I, J, renumbered row) *)
Fixpoint rows_loop (bs : list (Z * Z)) (bidx : list pat) (k : Z) (rows : list Z) : list (Z * Z * Z) :=
  match rows with
  | [] => []
  | r :: rows' => map (fun J => (r, J, k)) (rows_J bs bidx r) ++ rows_loop bs bidx (k + 1) rows'
  end.

Definition nonzeros_for_rows (bs : list (Z * Z)) (bidx : list pat) (rows : list Z)
  : option (list (Z * Z * Z)) :=
  if forallb (in_range (fst (shape bs))) rows then Some (rows_loop bs bidx 0 rows) else None.

(* nonzeros_for_columns: J, I = self.transpose().nonzeros_for_rows(cols); return I, J *)
Definition nonzeros_for_columns (bs : list (Z * Z)) (bidx : list pat) (cols : list Z)
  : option (list (Z * Z)) :=
  match nonzeros_for_rows (transpose_bs bs) (transpose_bidx bidx) cols with
  | Some l => Some (map (fun t => (snd (fst t), fst (fst t))) l)
  | None => None
  end.

(* sequential_bidx (mlmatrix.py:195-198), as written: bs[j][0]*i + j *)
Definition sequential_bidx (bs : list (Z * Z)) (bidx : list pat) : list (list Z) :=
  map (fun bb => map (fun e => fst (fst bb) * fst e + snd e) (snd bb)) (combine bs bidx).

(* ------------------------------------------------------------------------ *)
(* MLMatrix: data layout, asmatrix, matvec, reorder (mlmatrix.py:201-305)    *)
(* ------------------------------------------------------------------------ *)
(* position/value triples in the order of the compact data layout *)
Definition triples (bs : list (Z * Z)) (bidx : list pat) (data : list Z) : list ((Z * Z) * Z) :=
  match nonzero bs bidx false with
  | Some nz => combine nz data
  | None => []
  end.

(* scipy's csr/coo construction sums duplicate positions; canonical form: sorted
   by (row, col), explicit zeros dropped *)
Definition key_ltb (a b : Z * Z) : bool :=
  (fst a <? fst b) || ((fst a =? fst b) && (snd a <? snd b)).
Definition key_eqb (a b : Z * Z) : bool := (fst a =? fst b) && (snd a =? snd b).
Fixpoint ins (k : Z * Z) (v : Z) (l : list ((Z * Z) * Z)) : list ((Z * Z) * Z) :=
  match l with
  | [] => [(k, v)]
  | (k', v') :: l' =>
      if key_eqb k k' then (k', v' + v) :: l'
      else if key_ltb k k' then (k, v) :: l
      else (k', v') :: ins k v l'
  end.
Definition canon (ts : list ((Z * Z) * Z)) : list ((Z * Z) * Z) :=
  filter (fun t => negb (snd t =? 0)) (fold_left (fun acc t => ins (fst t) (snd t) acc) ts []).

Definition asmatrix (bs : list (Z * Z)) (bidx : list pat) (data : list Z) : list ((Z * Z) * Z) :=
  canon (triples bs bidx data).

(* list update y[I] += d; None = write outside the allocated vector *)
Fixpoint add_at (y : list Z) (I : nat) (d : Z) : option (list Z) :=
  match y, I with
  | [], _ => None
  | a :: y', O => Some ((a + d) :: y')
  | a :: y', S I' => match add_at y' I' d with Some r => Some (a :: r) | None => None end
  end.

Definition zeros (n : Z) : list Z := repeat 0 (Z.to_nat n).

(* ml_matvec_2d / ml_matvec_3d (mlmatrix_cy.pyx:224-249, 295-325): the loops
   visit the positions in the order of nz2 / nz3 and X[i,j(,k)] in C order;
   `y[I] += X[..] * x[J]`.  [ylen] is the length of the vector allocated by
   MLMatrix._matvec. *)
Fixpoint matvec_loop (ts : list ((Z * Z) * Z)) (x : list Z) (y : list Z) : option (list Z) :=
  match ts with
  | [] => Some y
  | ((r, c), v) :: ts' =>
      match add_at y (Z.to_nat r) (v * nth (Z.to_nat c) x 0) with
      | Some y' => matvec_loop ts' x y'
      | None => None
      end
  end.

(* MLMatrix._matvec (mlmatrix.py:271-284), REPAIRED allocation
   `y = np.zeros(self.shape[0])` (fixes/C15-matvec-rectangular.patch).  For L = 2, 3 the
   Cython loops; otherwise asmatrix().dot(x) (the same sum over the triples). *)
Definition matvec (bs : list (Z * Z)) (bidx : list pat) (data x : list Z) : option (list Z) :=
  matvec_loop (triples bs bidx data) x (zeros (fst (shape bs))).
(* as it stood: y = np.zeros(len(x)) *)
Definition matvec_lenx (bs : list (Z * Z)) (bidx : list pat) (data x : list Z) : option (list Z) :=
  matvec_loop (triples bs bidx data) x (zeros (Z.of_nat (length x))).

(* np.transpose(data, axes).ravel('C'): new[K] = old[O] with O[axes[i]] = K[i] *)
Definition datashape (bidx : list pat) : list Z := map (fun b => Z.of_nat (length b)) bidx.
Definition range (n : Z) : list Z := map Z.of_nat (seq 0 (Z.to_nat n)).
Fixpoint index_of (j : nat) (axes : list nat) (k : nat) : nat :=
  match axes with
  | [] => k
  | a :: axes' => if Nat.eqb a j then k else index_of j axes' (S k)
  end.
Definition transpose_data (shp : list Z) (data : list Z) (axes : list nat) : list Z :=
  let newshp := pick 1 shp axes in
  map (fun K => let old := map (fun j => nth (index_of j axes 0) K 0) (seq 0 (length shp)) in
                nth (Z.to_nat (to_seq old shp)) data 0)
      (product (map range newshp)).

(* MLMatrix.reorder(axes).asmatrix() *)
Definition reorder_asmatrix (bs : list (Z * Z)) (bidx : list pat) (data : list Z) (axes : list nat) :=
  asmatrix (reorder_bs bs axes) (reorder_bidx bidx axes)
           (transpose_data (datashape bidx) data axes).

(* MLMatrix(structure, matrix=A): data = A[nonzero()] *)
Definition dense_get (A : list (list Z)) (e : Z * Z) : Z :=
  nth (Z.to_nat (snd e)) (nth (Z.to_nat (fst e)) A []) 0.
Definition data_from_matrix (bs : list (Z * Z)) (bidx : list pat) (A : list (list Z)) : list Z :=
  match nonzero bs bidx false with Some nz => map (dense_get A) nz | None => [] end.

(* ------------------------------------------------------------------------ *)
(* get_transpose_idx_for_bidx (mlmatrix_cy.pyx:103-113)                      *)
(* ------------------------------------------------------------------------ *)
(* jidict[(j,i)] = k for k in order (later k overwrite); result[k] = jidict[bidx[k]];
   None = KeyError (the pattern is not structurally symmetric) *)
Fixpoint last_index_of (e : Z * Z) (l : pat) (k : Z) (found : option Z) : option Z :=
  match l with
  | [] => found
  | e' :: l' => last_index_of e l' (k + 1) (if key_eqb (swap e') e then Some k else found)
  end.
Fixpoint all_some {A : Type} (l : list (option A)) : option (list A) :=
  match l with
  | [] => Some []
  | Some a :: l' => match all_some l' with Some r => Some (a :: r) | None => None end
  | None :: _ => None
  end.
Definition transpose_idx (b : pat) : option (list Z) :=
  all_some (map (fun e => last_index_of e b 0 None) b).

(* ------------------------------------------------------------------------ *)
(* pattern generators (mlmatrix.py:395-444)                                  *)
(* ------------------------------------------------------------------------ *)
Definition compute_banded_sparsity_ij (n bw : Z) : pat :=
  flat_map (fun i => map (fun j => (i, j))
      (map (fun t => Z.max 0 (i - bw) + t) (range (Z.min n (i + bw + 1) - Z.max 0 (i - bw)))))
    (range n).
Definition compute_banded_sparsity (n bw : Z) : list Z :=
  map (fun e => fst e * n + snd e) (compute_banded_sparsity_ij n bw).
Definition compute_dense_ij (m n : Z) : pat :=
  flat_map (fun i => map (fun j => (i, j)) (range n)) (range m).

(* compute_sparsity_ij (mlmatrix.py:420-440) on two arrays of (start, end) supports.
   REPAIRED: the supports are intervals of knot VALUES (kv.mesh[mesh_support_idx_all()],
   fixes/C15-sparsity-ij-different-meshes.patch), here rationals scaled to integers
   by the harness; on a common mesh mesh indices and values are order-isomorphic.
   searchsorted(a, v, side='right') on a sorted array = number of entries <= v. *)
Definition searchsorted_right (a : list Z) (v : Z) : nat :=
  length (filter (fun e => e <=? v) a).
Definition do_intersect (a b : Z * Z) : bool :=
  Z.min (snd a) (snd b) >? Z.max (fst a) (fst b).
(* while j < len(supp1) and do_intersect(s2i, supp1[j]): append (i,j); j += 1 *)
Fixpoint while_intersect (s2i : Z * Z) (i j : Z) (rest1 : list (Z * Z)) : pat :=
  match rest1 with
  | [] => []
  | s :: rest' => if do_intersect s2i s then (i, j) :: while_intersect s2i i (j + 1) rest' else []
  end.
Fixpoint sparsity_loop (supp1 : list (Z * Z)) (i : Z) (supp2 : list (Z * Z)) : pat :=
  match supp2 with
  | [] => []
  | s2i :: supp2' =>
      let j := searchsorted_right (map snd supp1) (fst s2i) in
      while_intersect s2i i (Z.of_nat j) (skipn j supp1) ++ sparsity_loop supp1 (i + 1) supp2'
  end.
Definition compute_sparsity_ij (supp1 supp2 : list (Z * Z)) : pat := sparsity_loop supp1 0 supp2.

(* KnotVector.mesh_support_idx_all (bspline.py:129-136) mapped to knot values:
   function i of a knot vector kv of degree p is supported on [kv[i], kv[i+p+1]] *)
Definition supports (kv : list Z) (p : nat) : list (Z * Z) :=
  map (fun i => (nth i kv 0, nth (i + p + 1) kv 0)) (seq 0 (length kv - p - 1)).

(* ------------------------------------------------------------------------ *)
(* reorder(X, m1, n1) (mlmatrix.py:312-330): row i*n1+j = block (i,j) raveled *)
(* ------------------------------------------------------------------------ *)
Definition reorder_dense (X : list (list Z)) (M N m1 n1 : Z) : list (list Z) :=
  let m2 := M / m1 in let n2 := N / n1 in
  flat_map (fun i => map (fun j =>
      flat_map (fun r => map (fun c => dense_get X (i * m2 + r, j * n2 + c)) (range n2)) (range m2))
    (range n1)) (range m1).

(* ------------------------------------------------------------------------ *)
(* utils.kron_partial (utils.py:69-101)                                      *)
(* ------------------------------------------------------------------------ *)
(* As are dense integer matrices; from_matrix(A) takes A.nonzero() (row-major).
   entries = prod_k As[k][I_k, J_k] at the positions nonzeros_for_rows(rows);
   restrict=True uses the renumbered row.  Result in canonical form. *)
Definition pattern_of (A : list (list Z)) : pat :=
  flat_map (fun ir => flat_map (fun jc => if snd jc =? 0 then [] else [(fst ir, fst jc)])
                        (combine (range (Z.of_nat (length (snd ir)))) (snd ir)))
           (combine (range (Z.of_nat (length A))) A).
Definition mat_shape (A : list (list Z)) : Z * Z :=
  (Z.of_nat (length A), Z.of_nat (length (nth 0%nat A []))).
Fixpoint prod_entries (As : list (list (list Z))) (I J : list Z) : Z :=
  match As, I, J with
  | A :: As', i :: I', j :: J' => dense_get A (i, j) * prod_entries As' I' J'
  | _, _, _ => 1
  end.
Definition kron_partial (As : list (list (list Z))) (rows : list Z) (restrict : bool)
  : option (list ((Z * Z) * Z)) :=
  let bs := map mat_shape As in
  let bidx := map pattern_of As in
  match nonzeros_for_rows bs bidx rows with
  | None => None
  | Some l =>
      Some (canon (map (fun t =>
         let '(r, c, k) := t in
         (((if restrict then k else r), c),
          prod_entries As (from_seq r (rowdims bs)) (from_seq c (coldims bs)))) l))
  end.

(* ------------------------------------------------------------------------ *)
(* histories on ONE MLMatrix object (mlmatrix.py:220-258: __init__, data     *)
(* property and setter)                                                      *)
(* ------------------------------------------------------------------------ *)
(* The state of an MLMatrix is its structure and the current data tensor; every query
   (nonzero, asmatrix, dot, reorder, ...) is a function of that state alone -- the model
   has no other memory, so a query after `M.data = X2` denotes X2.
   `data.setter`: assert X.shape == self.datashape (the flat model sees the total size;
   a refused assignment leaves the state unchanged); then self._data = asarray(X). *)
Inductive hop :=
| OpSet (d : list Z)                   (* M.data = d *)
| OpFromMatrix (A : list (list Z))     (* M.data = MLMatrix(structure, matrix=A).data *)
| OpQuery.                             (* any query: no state change *)

Definition set_ok (bidx : list pat) (d : list Z) : bool :=
  Z.of_nat (length d) =? prodZ (datashape bidx).

Definition hist_step (bs : list (Z * Z)) (bidx : list pat) (data : list Z) (op : hop) : list Z :=
  match op with
  | OpSet d => if set_ok bidx d then d else data
  | OpFromMatrix A => data_from_matrix bs bidx A
  | OpQuery => data
  end.

Definition hist_run (bs : list (Z * Z)) (bidx : list pat) (data : list Z) (ops : list hop) : list Z :=
  fold_left (hist_step bs bidx) ops data.
