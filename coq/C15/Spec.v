(* C15 -- the mathematical reference: the Kronecker product of the level
   patterns / level matrices, positionwise. *)
From Coq Require Import ZArith List Bool Lia.
From Verif.C15 Require Import Model.
Import ListNotations.
Open Scope Z_scope.

(* A multi-index I (one component per level) is valid for dims *)
Definition valid_mi (I dims : list Z) : Prop := Forall2 (fun i m => 0 <= i < m) I dims.

Definition dims_pos (dims : list Z) : Prop := Forall (fun m => 0 < m) dims.

(* every entry of level pattern k lies inside the m_k x n_k block *)
Definition pat_in_block (b : pat) (mn : Z * Z) : Prop :=
  Forall (fun e => 0 <= fst e < fst mn /\ 0 <= snd e < snd mn) b.
Definition wf_structure (bs : list (Z * Z)) (bidx : list pat) : Prop := Forall2 pat_in_block bidx bs.

(* The positions of the Kronecker product in the order of the compact data
   layout: the data tensor has one axis per level (axis k enumerates bidx[k]),
   C order, i.e. the last level varies fastest. *)
Definition kron_pattern (bs : list (Z * Z)) (bidx : list pat) : list (Z * Z) :=
  map (entry_of bs) (product bidx).

Definition lower (e : Z * Z) : bool := snd e <=? fst e.

(* Positionwise definition of the Kronecker product pattern: (I,J) is a
   structural non-zero of A_1 (x) ... (x) A_L iff at every level k the pair of
   k-th digits (I_k, J_k) is a structural non-zero of A_k. *)
Definition kron_nonzero (bs : list (Z * Z)) (bidx : list pat) (I J : Z) : Prop :=
  0 <= I < fst (shape bs) /\ 0 <= J < snd (shape bs) /\
  Forall2 (fun ij b => In ij b) (combine (from_seq I (rowdims bs)) (from_seq J (coldims bs))) bidx.

(* dense entry denoted by position/value triples (duplicates add up) *)
Fixpoint dense_entry (ts : list ((Z * Z) * Z)) (r c : Z) : Z :=
  match ts with
  | [] => 0
  | ((i, j), v) :: ts' => (if (i =? r) && (j =? c) then v else 0) + dense_entry ts' r c
  end.

(* sum_{c < n} f c *)
Fixpoint sum_upto (n : nat) (f : Z -> Z) : Z :=
  match n with
  | O => 0
  | S n' => sum_upto n' f + f (Z.of_nat n')
  end.

(* (A x)[r] for the dense matrix denoted by the triples, A of N columns *)
Definition dense_matvec (ts : list ((Z * Z) * Z)) (N : nat) (x : list Z) (r : Z) : Z :=
  sum_upto N (fun c => dense_entry ts r c * nth (Z.to_nat c) x 0).

(* two supports (closed intervals of knot values) overlap in a set of positive length *)
Definition overlap (a b : Z * Z) : Prop := Z.max (fst a) (fst b) < Z.min (snd a) (snd b).
