"""Fail-closed translator: the array expressions of pyiga's make_knots, KnotVector.greville,
KnotVector.refine, KnotVector.mesh_span_indices and Spline.derivative -> Gallina terms over the
combinators of coq/lib/NpCore.v, NpQ.v (exact) and NpF.v (binary64).

Only the numpy vocabulary those bodies use is accepted; anything else raises Untranslatable and the
check reports the broken tie.  The generated file states, per translated body, that it is (by
conversion) the hand-written model the C19 theorems are about.
"""
import ast
import os


class Untranslatable(Exception):
    pass


def fail(node, why):
    raise Untranslatable('%s at line %s: %s' % (why, getattr(node, 'lineno', '?'), ast.dump(node)[:200]))


def find_function(tree, name, cls=None):
    body = tree.body
    if cls is not None:
        for n in body:
            if isinstance(n, ast.ClassDef) and n.name == cls:
                body = n.body
                break
        else:
            raise Untranslatable('class %s not found' % cls)
    for n in body:
        if isinstance(n, ast.FunctionDef) and n.name == name:
            return n
    raise Untranslatable('function %s not found' % name)


class Tr:
    """mode 'Q' (exact) or 'F' (binary64).  env: python name / attribute path -> (coq term, type);
    types: int, sc (scalar), arr, iarr (integer array)."""

    def __init__(self, mode, env):
        self.mode = mode
        self.env = dict(env)

    def name_of(self, node):
        if isinstance(node, ast.Name):
            return node.id
        if isinstance(node, ast.Attribute):
            return self.name_of(node.value) + '.' + node.attr
        fail(node, 'unsupported name')

    def is_np(self, f, fn):
        return isinstance(f, ast.Attribute) and isinstance(f.value, ast.Name) and f.value.id == 'np' and f.attr == fn

    def int_const(self, node):
        if isinstance(node, ast.Constant) and isinstance(node.value, int) and not isinstance(node.value, bool):
            return node.value
        if isinstance(node, ast.UnaryOp) and isinstance(node.op, ast.USub) and isinstance(node.operand, ast.Constant):
            return -node.operand.value
        return None

    def expr(self, node):
        Q = self.mode == 'Q'
        if isinstance(node, (ast.Name, ast.Attribute)) and not (isinstance(node, ast.Attribute) and self.is_np(node, node.attr)):
            nm = self.name_of(node)
            if nm in self.env:
                return self.env[nm]
            fail(node, 'unknown name ' + nm)
        if isinstance(node, ast.Constant):
            if isinstance(node.value, int) and not isinstance(node.value, bool):
                return ('%d%%nat' % node.value, 'int')
            fail(node, 'unsupported constant')
        if isinstance(node, ast.BinOp):
            l, lt = self.expr(node.left)
            r, rt = self.expr(node.right)
            if lt == 'int' and rt == 'int' and isinstance(node.op, ast.Add):
                return ('(%s + %s)%%nat' % (l, r), 'int')
            # scalar arithmetic (ints are injected)
            if {lt, rt} <= {'int', 'sc'} and 'sc' in (lt, rt) or (lt == rt == 'int' and isinstance(node.op, ast.Div)):
                inj = (lambda t, ty: ('(natq %s)' % t if Q else '(nat_f %s)' % t) if ty == 'int' else t)
                op = {ast.Add: '+', ast.Sub: '-', ast.Mult: '*', ast.Div: '/'}.get(type(node.op))
                if op is None:
                    fail(node, 'unsupported scalar operator')
                return ('(%s %s %s)' % (inj(l, lt), op, inj(r, rt)), 'sc')
            if not Q:
                fail(node, 'array arithmetic is only translated in exact mode')
            if lt == 'arr' and rt == 'arr' and isinstance(node.op, (ast.Add, ast.Sub)):
                return ('(zip_with %s %s %s)' % ('Qcplus' if isinstance(node.op, ast.Add) else 'Qcminus', l, r), 'arr')
            if lt == 'arr' and rt == 'arr' and isinstance(node.op, ast.Mult):
                return ('(zip_with Qcmult %s %s)' % (l, r), 'arr')
            if lt == 'arr' and isinstance(node.op, ast.Div) and self.int_const(node.right) == 2:
                return ('(map (fun x => x / two) %s)' % l, 'arr')
            if lt == 'int' and rt == 'arr' and isinstance(node.op, ast.Div):
                return ('(map (fun d => natq %s / d) %s)' % (l, r), 'arr')
            if lt == 'arr' and rt == 'int' and isinstance(node.op, ast.Div):      # np.ones(p) / p
                return ('(map (fun x => x / natq %s) %s)' % (r, l), 'arr')
            fail(node, 'unsupported array operator')
        if isinstance(node, ast.Subscript) and isinstance(node.value, ast.Call) and self.is_np(node.value.func, 'where'):
            w = node.value
            if self.int_const(node.slice) == 0 and len(w.args) == 1 and not w.keywords and isinstance(w.args[0], ast.Compare) \
                    and len(w.args[0].ops) == 1 and isinstance(w.args[0].ops[0], ast.NotEq):
                (x, xt), (y, yt) = self.expr(w.args[0].left), self.expr(w.args[0].comparators[0])
                if (xt, yt) == ('iarr', 'iarr'):
                    return ('(np_where_ne %s %s)' % (x, y), 'iarr')
            fail(node, 'unsupported np.where form')
        if isinstance(node, ast.Subscript):
            v, vt = self.expr(node.value)
            s = node.slice
            if vt == 'iarr' and not isinstance(s, ast.Slice) and self.int_const(s) is None:
                ix, it = self.expr(s)
                if it == 'parr':
                    return ('(np_take2 %s %s)' % (v, ix), 'parr')
                fail(node, 'unsupported integer-array index')
            if vt in ('arr', 'iarr') and isinstance(s, ast.Slice) and s.step is None:
                lo = None if s.lower is None else self.slice_bound(s.lower)
                hi = None if s.upper is None else self.slice_bound(s.upper)
                if lo == ('c', 1) and hi == ('c', -1):
                    return ('(sl_1_m1 %s)' % v, vt)
                if lo == ('c', 1) and hi is None:
                    return ('(sl_from1 %s)' % v, vt)
                if lo is None and hi == ('c', -1):
                    return ('(sl_to_m1 %s)' % v, vt)
                if lo is not None and hi is not None and hi[0] in ('neg', 'c') and vt == 'arr' and Q:
                    lo_t = '%d%%nat' % lo[1] if lo[0] == 'c' else lo[1]
                    if lo[0] == 'neg':
                        fail(node, 'negative lower slice bound')
                    hi_t = '%d%%nat' % (-hi[1]) if hi[0] == 'c' else hi[1]
                    if hi[0] == 'c' and hi[1] >= 0:
                        fail(node, 'non-negative upper slice bound')
                    return ('(sl_range %s %s %s)' % (lo_t, hi_t, v), vt)
                fail(node, 'unsupported slice')
            if vt == 'arr' and self.int_const(s) in (0, -1) and Q:
                return ('(kn %s %s)' % (v, '0' if self.int_const(s) == 0 else '(length %s - 1)' % v), 'sc')
            fail(node, 'unsupported subscript')
        if isinstance(node, ast.Call) and self.is_np(node.func, 'stack'):
            kw = node.keywords
            if len(node.args) == 1 and isinstance(node.args[0], ast.Tuple) and len(node.args[0].elts) == 2 \
                    and len(kw) == 1 and kw[0].arg == 'axis' and self.int_const(kw[0].value) == 1:
                (x, xt), (y, yt) = [self.expr(z) for z in node.args[0].elts]
                if (xt, yt) == ('iarr', 'iarr'):
                    return ('(np_stack2 %s %s)' % (x, y), 'parr')
            fail(node, 'unsupported np.stack form')
        if isinstance(node, ast.Call) and not node.keywords:
            f, a = node.func, node.args
            if self.is_np(f, 'arange') and len(a) == 2:
                (x, xt), (y, yt) = [self.expr(z) for z in a]
                if (xt, yt) != ('int', 'int'):
                    fail(node, 'arange(int, int) operands')
                return ('(np_arange_nat %s %s)' % (x, y), 'iarr')
            if self.is_np(f, 'concatenate') and len(a) == 1 and isinstance(a[0], ast.Tuple):
                parts = [self.expr(x) for x in a[0].elts]
                if any(t != 'arr' for _, t in parts):
                    fail(node, 'concatenate of non-arrays')
                if len(parts) == 3:
                    return ('(np_concat3 %s %s %s)' % tuple(t for t, _ in parts), 'arr')
                if len(parts) == 2:
                    return ('(%s ++ %s)' % tuple(t for t, _ in parts), 'arr')
                fail(node, 'concatenate arity')
            if self.is_np(f, 'repeat') and len(a) == 2:
                x, xt = self.expr(a[0])
                k, kt = self.expr(a[1])
                if kt != 'int':
                    fail(node, 'repeat count')
                if xt == 'sc':
                    return ('(repeat %s %s)' % (x, k), 'arr')
                if xt == 'arr':
                    return ('(np_repeat_each %s %s)' % (x, k), 'arr')
                fail(node, 'repeat operand')
            if self.is_np(f, 'linspace') and len(a) == 3:
                (x, xt), (y, yt), (k, kt) = [self.expr(z) for z in a]
                if (xt, yt, kt) != ('sc', 'sc', 'int'):
                    fail(node, 'linspace operands')
                return ('(%s %s %s %s)' % ('linspace_q' if Q else 'linspace_f', x, y, k), 'arr')
            if self.is_np(f, 'arange') and len(a) == 3:
                (x, xt), (y, yt), (s, st) = [self.expr(z) for z in a]
                if (xt, yt, st) != ('sc', 'sc', 'sc'):
                    fail(node, 'arange operands')
                return ('(arange_q %s %s %s)' % (x, y, s) if Q else '(arange_f (n + 3) %s %s %s)' % (x, y, s), 'arr')
            if not Q:
                fail(node, 'call not translated in binary64 mode')
            if self.is_np(f, 'sort') and len(a) == 1:
                x, xt = self.expr(a[0])
                if xt != 'arr':
                    fail(node, 'sort operand')
                return ('(np_sort %s)' % x, 'arr')
            if self.is_np(f, 'ones') and len(a) == 1:
                k, kt = self.expr(a[0])
                if kt != 'int':
                    fail(node, 'ones operand')
                return ('(repeat 1 %s)' % k, 'arr')
            if self.is_np(f, 'convolve') and len(a) == 2:
                (x, xt), (w, wt) = [self.expr(z) for z in a]
                if (xt, wt) != ('arr', 'arr'):
                    fail(node, 'convolve operands')
                return ('(np_convolve %s %s)' % (x, w), 'arr')
            if self.is_np(f, 'clip') and len(a) == 3:
                (x, xt), (lo, lt), (hi, ht) = [self.expr(z) for z in a]
                if (xt, lt, ht) != ('arr', 'sc', 'sc'):
                    fail(node, 'clip operands')
                return ('(map (np_clip %s %s) %s)' % (lo, hi, x), 'arr')
            if self.is_np(f, 'diff') and len(a) == 1:
                x, xt = self.expr(a[0])
                if xt != 'arr':
                    fail(node, 'diff operand')
                return ('(np_diff %s)' % x, 'arr')
            fail(node, 'unsupported call')
        fail(node, 'unsupported expression')

    def slice_bound(self, node):
        c = self.int_const(node)
        if c is not None:
            return ('c', c)
        if isinstance(node, ast.UnaryOp) and isinstance(node.op, ast.USub):
            t, ty = self.expr(node.operand)
            if ty == 'int':
                return ('neg', t)
        t, ty = self.expr(node)
        if ty == 'int':
            return ('pos', t)
        fail(node, 'unsupported slice bound')

    def block(self, stmts, ret_name=None):
        """straight-line block: docstring, simple assignments, `if x == 0:/is None:` + return.
        Returns the Gallina term of the returned expression (or of ret_name)."""
        stmts = [s for s in stmts if not (isinstance(s, ast.Expr) and isinstance(s.value, ast.Constant))]
        for i, s in enumerate(stmts):
            if isinstance(s, ast.Expr) and isinstance(s.value, ast.Call) and not s.value.args and not s.value.keywords \
                    and isinstance(s.value.func, ast.Attribute) and s.value.func.attr == '_ensure_mesh' \
                    and getattr(s.value.func.value, 'id', None) == 'self':
                continue      # fills the caches read below as self._mesh / self._knots_to_mesh
            if isinstance(s, ast.Assign) and len(s.targets) == 1 and isinstance(s.targets[0], ast.Name):
                self.env[s.targets[0].id] = self.expr(s.value)
            elif isinstance(s, ast.Return) and s.value is not None:
                return self.expr(s.value)
            elif isinstance(s, ast.If):
                t = s.test
                if isinstance(t, ast.Compare) and len(t.ops) == 1 and isinstance(t.ops[0], ast.Eq) \
                        and self.int_const(t.comparators[0]) == 0:
                    c, ct = self.expr(t.left)
                    if ct != 'int':
                        fail(s, 'if on non-int')
                    th = Tr(self.mode, self.env).block(s.body)
                    el = Tr(self.mode, self.env).block(s.orelse if s.orelse else stmts[i + 1:])
                    if th is None or el is None or th[1] != el[1]:
                        fail(s, 'if branches')
                    return ('(if Nat.eqb %s 0 then %s else %s)' % (c, th[0], el[0]), th[1])
                fail(s, 'unsupported if')
            else:
                fail(s, 'unsupported statement')
        if ret_name is not None and ret_name in self.env:
            return self.env[ret_name]
        return None


HEADER = '''(* generated by translate/np_expr.py from the CURRENT source of %s -- do not edit *)
From Coq Require Import QArith Qcanon ZArith List Arith Bool PrimFloat.
From Verif.lib Require Import Bsp NpCore NpQ NpF.
From Verif.C19 Require Import Model.
Import ListNotations.
'''


def translate(repo):
    bs = ast.parse(open(os.path.join(repo, 'pyiga', 'bspline.py')).read())
    sp = ast.parse(open(os.path.join(repo, 'pyiga', 'spline.py')).read())
    out = [HEADER % repo]
    names = []

    # ---- make_knots(p, a, b, n, mult): kv = <expr>; return KnotVector(kv, p) ----
    fn = find_function(bs, 'make_knots')
    if [a.arg for a in fn.args.args] != ['p', 'a', 'b', 'n', 'mult']:
        fail(fn, 'make_knots signature changed')
    body = [s for s in fn.body if not (isinstance(s, ast.Expr) and isinstance(s.value, ast.Constant))]
    if not (len(body) == 2 and isinstance(body[1], ast.Return) and isinstance(body[1].value, ast.Call)
            and getattr(body[1].value.func, 'id', None) == 'KnotVector'
            and [getattr(x, 'id', None) for x in body[1].value.args] == ['kv', 'p']):
        fail(fn, 'make_knots no longer has the shape kv = ...; return KnotVector(kv, p)')
    env = {'p': ('p', 'int'), 'n': ('n', 'int'), 'mult': ('mult', 'int'), 'a': ('a', 'sc'), 'b': ('b', 'sc')}
    tq = Tr('Q', env).block(body[:1], 'kv')
    tf = Tr('F', env).block(body[:1], 'kv')
    out.append('Open Scope Qc_scope.\nDefinition gen_make_knots (p : nat) (a b : Qc) (n mult : nat) : list Qc :=\n  %s.\n' % tq[0])
    out.append('Goal forall p a b n mult, gen_make_knots p a b n mult = make_knots p a b n mult.\nProof. reflexivity. Qed.\n')
    out.append('Close Scope Qc_scope.\nOpen Scope float_scope.\n'
               'Definition gen_make_knots_f (p : nat) (a b : float) (n mult : nat) : list float :=\n  %s.\n' % tf[0])
    out.append('Goal forall p a b n mult, gen_make_knots_f p a b n mult = make_knots_f p a b n mult.\nProof. reflexivity. Qed.\n'
               'Close Scope float_scope.\nOpen Scope Qc_scope.\n')
    names += ['make_knots (Qc)', 'make_knots (binary64)']

    # ---- KnotVector.greville ----
    fn = find_function(bs, 'greville', 'KnotVector')
    env = {'self.p': ('p', 'int'), 'self.kv': ('kv', 'arr')}
    t = Tr('Q', env).block(fn.body)
    if t is None or t[1] != 'arr':
        fail(fn, 'greville does not return an array')
    out.append('Definition gen_greville (kv : list Qc) (p : nat) : list Qc :=\n  %s.\n' % t[0])
    out.append('Goal forall kv p, gen_greville kv p = greville kv p.\nProof. reflexivity. Qed.\n')
    names.append('KnotVector.greville')

    # ---- KnotVector.refine: if new_knots is None: ...; kvnew = ...; return KnotVector(kvnew, self.p) ----
    fn = find_function(bs, 'refine', 'KnotVector')
    body = [s for s in fn.body if not (isinstance(s, ast.Expr) and isinstance(s.value, ast.Constant))]
    if not (len(body) == 3 and isinstance(body[0], ast.If) and isinstance(body[0].test, ast.Compare)
            and isinstance(body[0].test.ops[0], ast.Is) and getattr(body[0].test.left, 'id', None) == 'new_knots'
            and not body[0].orelse and isinstance(body[2], ast.Return) and isinstance(body[2].value, ast.Call)
            and getattr(body[2].value.func, 'id', None) == 'KnotVector'
            and len(body[2].value.args) == 2 and getattr(body[2].value.args[0], 'id', None) == 'kvnew'
            and isinstance(body[2].value.args[1], ast.Attribute) and body[2].value.args[1].attr == 'p'):
        fail(fn, 'refine no longer has the expected shape')
    env = {'self.kv': ('kv', 'arr'), 'self.mesh': ('(mesh kv)', 'arr'), 'new_knots': ('new_knots', 'arr')}
    t = Tr('Q', env).block(body[1:2], 'kvnew')
    out.append('Definition gen_refine (kv new_knots : list Qc) : list Qc :=\n  %s.\n' % t[0])
    out.append('Goal forall kv nk, gen_refine kv nk = refine kv nk.\nProof. reflexivity. Qed.\n')
    tr = Tr('Q', env)
    tr.block(body[0].body)
    t2 = Tr('Q', dict(env, new_knots=tr.env['new_knots'])).block(body[1:2], 'kvnew')
    out.append('Definition gen_refine_uniform (kv : list Qc) : list Qc :=\n  %s.\n' % t2[0])
    out.append('Goal forall kv, gen_refine_uniform kv = refine_uniform kv.\nProof. reflexivity. Qed.\n')
    names += ['KnotVector.refine(new_knots)', 'KnotVector.refine()']

    # ---- KnotVector.mesh_support_idx_all / mesh_span_indices ----
    env = {'self.p': ('p', 'int'), 'self.numdofs': ('(numdofs kv p)', 'int'),
           'self._knots_to_mesh': ('(knots_to_mesh kv)', 'iarr')}
    fn = find_function(bs, 'mesh_support_idx_all', 'KnotVector')
    t = Tr('Q', env).block(fn.body)
    if t is None or t[1] != 'parr':
        fail(fn, 'mesh_support_idx_all does not return an N x 2 index array')
    out.append('Definition gen_mesh_support_idx_all (kv : list Qc) (p : nat) : list (nat * nat) :=\n  %s.\n' % t[0])
    out.append('Goal forall kv p, gen_mesh_support_idx_all kv p = mesh_support_idx_all kv p.\nProof. reflexivity. Qed.\n')
    fn = find_function(bs, 'mesh_span_indices', 'KnotVector')
    t = Tr('Q', env).block(fn.body)
    if t is None or t[1] != 'iarr':
        fail(fn, 'mesh_span_indices does not return an index array')
    out.append('Definition gen_mesh_span_indices (kv : list Qc) : list nat :=\n  %s.\n' % t[0])
    out.append('Goal forall kv, gen_mesh_span_indices kv = mesh_span_indices kv.\nProof. reflexivity. Qed.\n')
    names += ['KnotVector.mesh_support_idx_all', 'KnotVector.mesh_span_indices']

    # ---- Spline.derivative: p = ...; diffcoeffs = ...; diffkv = KnotVector(self.kv.kv[1:-1], p-1) ----
    fn = find_function(sp, 'derivative', 'Spline')
    body = [s for s in fn.body if not (isinstance(s, ast.Expr) and isinstance(s.value, ast.Constant))]
    if not (len(body) == 4 and all(isinstance(s, ast.Assign) for s in body[:3]) and isinstance(body[3], ast.Return)):
        fail(fn, 'Spline.derivative no longer has the expected shape')
    env = {'self.kv.p': ('p', 'int'), 'self.kv.kv': ('kv', 'arr'), 'self.coeffs': ('c', 'arr')}
    tr = Tr('Q', env)
    t = tr.block(body[:2], 'diffcoeffs')
    dk = body[2].value
    if not (isinstance(dk, ast.Call) and isinstance(dk.func, ast.Attribute) and dk.func.attr == 'KnotVector' and len(dk.args) == 2
            and isinstance(dk.args[1], ast.BinOp) and isinstance(dk.args[1].op, ast.Sub)
            and getattr(dk.args[1].left, 'id', None) == 'p' and tr.int_const(dk.args[1].right) == 1):
        fail(fn, 'derivative knot vector is no longer KnotVector(kv[1:-1], p-1)')
    tk = tr.expr(dk.args[0])
    out.append('Definition gen_derivative_coeffs (kv : list Qc) (p : nat) (c : list Qc) : list Qc :=\n  %s.\n' % t[0])
    out.append('Goal forall kv p c, gen_derivative_coeffs kv p c = derivative_coeffs kv p c.\nProof. reflexivity. Qed.\n')
    out.append('Definition gen_derivative_kv (kv : list Qc) : list Qc :=\n  %s.\n' % tk[0])
    out.append('Goal forall kv, gen_derivative_kv kv = derivative_kv kv.\nProof. reflexivity. Qed.\n')
    names += ['Spline.derivative coefficients', 'Spline.derivative knot vector']
    return '\n'.join(out), names


if __name__ == '__main__':
    import sys
    print(translate(sys.argv[1] if len(sys.argv) > 1 else '/repo')[0])
