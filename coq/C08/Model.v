(* C08 -- executable model of pyiga's assembly drivers (no proofs here).

   Source transcribed (line numbers of /repo at the time of writing):
     pyiga/assemble_tools_cy.pyx:387-391   chunk_tasks
     pyiga/codegen/cython.py:913-949       BaseAssembler.multi_entries (thread pool over chunk_tasks)
     pyiga/codegen/cython.py:1001-1039     BaseVectorAssembler.multi_blocks (same)
     pyiga/codegen/cython.py:1062-1095     generic_assemble_core_vec_{1,2,3}d (prange over mu0)
     pyiga/codegen/cython.py:1097-1140     _asm_core_vec_{1,2,3}d_kernel (skip rule, mirrored write)
     pyiga/mlmatrix_cy.pyx:103-113         get_transpose_idx_for_bidx
     pyiga/mlmatrix_cy.pyx:211,282,373     `if not lower_tri or J <= I`
     pyiga/assemble.py:742-754             assemble_entries (lower triangle + mirrored strict lower part)
     pyiga/assemble.py:770-786             assemble_entries_vec, packed/bsr path (transposed blocks)
     pyiga/assemble.py:788-810             assemble_entries_vec, generic core, reorder to 'blocked'
     pyiga/mlmatrix.py:91-96,296-305       MLStructure.reorder / MLMatrix.reorder
     pyiga/mlmatrix.py:259-269,360-369     MLMatrix.asmatrix / to_seq

   Values are an arbitrary type V: the assembler is an abstract pure function
   of the index pair (entry_impl reads only immutable precomputed arrays). *)
From Coq Require Import ZArith List Bool Arith Lia.
Import ListNotations.
Open Scope Z_scope.

(* ------------------------------------------------------------------------- *)
(** * chunk_tasks  (assemble_tools_cy.pyx:387-391)
      n = len(tasks) // num_chunks + 1
      for i in range(0, len(tasks), n): yield tasks[i:i+n]                      *)

Fixpoint chunks_fuel {A : Type} (fuel n : nat) (l : list A) : list (list A) :=
  match fuel with
  | O => []
  | S f => match l with
           | [] => []
           | _ => firstn n l :: chunks_fuel f n (skipn n l)
           end
  end.

Definition chunk_size (len k : nat) : nat := (len / k + 1)%nat.

Definition chunk_tasks {A : Type} (l : list A) (k : nat) : list (list A) :=
  chunks_fuel (length l) (chunk_size (length l) k) l.

(* ------------------------------------------------------------------------- *)
(** * Memory, operations, interleavings *)

Section Mem.
  Variable L V : Type.
  Variable L_eqb : L -> L -> bool.

  (* one store of a worker: a computed value, or a copy inside the output array *)
  Inductive op : Type :=
  | Wr (l : L) (v : V)
  | Cp (dst src : L).

  Definition upd (m : L -> V) (l : L) (v : V) : L -> V :=
    fun l' => if L_eqb l l' then v else m l'.

  Definition step (m : L -> V) (o : op) : L -> V :=
    match o with
    | Wr l v => upd m l v
    | Cp d s => upd m d (m s)
    end.

  Definition exec (s : list op) (m : L -> V) : L -> V := fold_left step s m.

  (* footprint: every location an operation reads or writes *)
  Definition fp (o : op) : list L :=
    match o with Wr l _ => [l] | Cp d s => [d; s] end.
End Mem.
Arguments Wr {L V}. Arguments Cp {L V}.
Arguments upd {L V}. Arguments step {L V}. Arguments exec {L V}. Arguments fp {L V}.

(* A schedule of the tasks ts: any merge of the tasks' operation lists that keeps
   each task's own order (threads run their task sequentially; the scheduler
   picks which thread performs its next store).  Stores are atomic (aligned
   8-byte doubles). *)
Inductive interleave {A : Type} : list (list A) -> list A -> Prop :=
| il_done : forall ts, Forall (fun t => t = []) ts -> interleave ts []
| il_step : forall ts1 x t ts2 s,
    interleave (ts1 ++ t :: ts2) s -> interleave (ts1 ++ (x :: t) :: ts2) (x :: s).

(* ------------------------------------------------------------------------- *)
(** * multi_entries / multi_blocks through the thread pool (cython.py:930-949)
      result = zeros(N); pool.map(asm_chunk, chunk_tasks(idx, T), chunk_tasks(result, T))
      task c: for k in range(len(idxchunk)): out[k] = entry(idxchunk[k])
    The two chunk lists are zipped by [map]; chunk_tasks depends on the length
    only (Proofs.chunks_map), so chunking the list of (position, index) pairs is
    the same as zipping the chunks of the positions with the chunks of idx. *)

Section Pool.
  Variable I V : Type.
  Variable entry : I -> V.

  Definition pool_tasks (idx : list I) (T : nat) : list (list (op nat V)) :=
    map (map (fun pi : nat * I => Wr (fst pi) (entry (snd pi))))
        (chunk_tasks (combine (seq 0 (length idx)) idx) T).

  (* num_threads <= 1: one call of multi_entries_chunk on the whole array *)
  Definition serial_task (idx : list I) : list (op nat V) :=
    map (fun pi : nat * I => Wr (fst pi) (entry (snd pi))) (combine (seq 0 (length idx)) idx).

  Definition read_back (n : nat) (m : nat -> V) : list V := map m (seq 0 n).
End Pool.
Arguments pool_tasks {I V}. Arguments serial_task {I V}. Arguments read_back {V}.

(* ------------------------------------------------------------------------- *)
(** * index pairs *)

Definition swap (p : Z * Z) : Z * Z := (snd p, fst p).
Definition pair_eqb (p q : Z * Z) : bool := (fst p =? fst q) && (snd p =? snd q).
(* mlmatrix_cy.pyx:211  `J <= I` *)
Definition lower (p : Z * Z) : bool := snd p <=? fst p.
(* assemble.py:750  `I != J` *)
Definition offdiag (p : Z * Z) : bool := negb (fst p =? snd p).
(* MLStructure.nonzero(lower_tri=lt) applied to the full list of index pairs *)
Definition nonzero_lt (lt : bool) (P : list (Z * Z)) : list (Z * Z) :=
  filter (fun p => negb lt || lower p) P.

(* ------------------------------------------------------------------------- *)
(** * assemble_entries (assemble.py:742-754) and the packed/bsr path (770-786)
    A list of (index pair, value) triples denotes the matrix in which duplicate
    coordinates are summed (scipy COO -> CSR, `A += A_upper`).  For the bsr
    path V is a component block and tr the block transpose (np.swapaxes). *)

Section Entries.
  Variable V : Type.
  Variable vzero : V.
  Variable vadd : V -> V -> V.
  Variable tr : V -> V.

  Definition den (T : list ((Z * Z) * V)) (q : Z * Z) : V :=
    fold_right (fun t acc => if pair_eqb (fst t) q then vadd (snd t) acc else acc) vzero T.

  Definition assemble_entries (sym : bool) (P : list (Z * Z)) (e : Z * Z -> V)
    : list ((Z * Z) * V) :=
    let IJ := nonzero_lt sym P in
    let A := map (fun p => (p, e p)) IJ in
    if sym then A ++ map (fun p => (swap p, tr (e p))) (filter offdiag IJ) else A.
End Entries.
Arguments den {V}. Arguments assemble_entries {V}.

(* ------------------------------------------------------------------------- *)
(** * get_transpose_idx_for_bidx (mlmatrix_cy.pyx:103-113)
      jidict[(j,i)] = k for k,(i,j) in enumerate(bidx)   (a later k overwrites)
      transpose_bidx[k] = jidict[tuple(bidx[k])]          (KeyError if absent)   *)

Fixpoint last_index (q : Z * Z) (l : list (Z * Z)) (k : nat) (found : option nat) : option nat :=
  match l with
  | [] => found
  | p :: l' => last_index q l' (S k) (if pair_eqb (swap p) q then Some k else found)
  end.

Fixpoint all_some {A : Type} (l : list (option A)) : option (list A) :=
  match l with
  | [] => Some []
  | None :: _ => None
  | Some x :: l' => match all_some l' with Some r => Some (x :: r) | None => None end
  end.

Definition transpose_idx (b : list (Z * Z)) : option (list nat) :=
  all_some (map (fun p => last_index p b 0%nat None) b).

(* ------------------------------------------------------------------------- *)
(** * generic_assemble_core_vec_{DIM}d and its kernel (cython.py:1062-1140)

    A level is (bidx_k, transp_k).  Locations of the `entries` array are
    (mu, c): mu the multi-index (mu_0..mu_{DIM-1}), c the component offset in
    the last axis of length numcomp[0]*numcomp[1].  B i j c is the value
    entry_impl(i, j, .) stores at offset c. *)

Definition level : Type := (list (Z * Z) * list nat)%type.
Definition eloc : Type := (list nat * nat)%type.

Fixpoint list_nat_eqb (a b : list nat) : bool :=
  match a, b with
  | [], [] => true
  | x :: a', y :: b' => Nat.eqb x y && list_nat_eqb a' b'
  | _, _ => false
  end.
Definition eloc_eqb (a b : eloc) : bool := list_nat_eqb (fst a) (fst b) && Nat.eqb (snd a) (snd b).

Section Core.
  Variable V : Type.
  Variable nc0 nc1 : nat.               (* asm.num_components() *)
  Variable B : list Z -> list Z -> nat -> V.

  (* asm.entry_impl(i, j, &entries[mu, 0]) *)
  Definition blk_ops (mu : list nat) (i j : list Z) : list (op eloc V) :=
    map (fun c => Wr (mu, c) (B i j c)) (seq 0 (nc0 * nc1)).

  (* cython.py:1138-1140
       for row in range(numcomp[1]): for col in range(numcomp[0]):
         entries[transp(mu), col*numcomp[0] + row] = entries[mu, row*numcomp[0] + col] *)
  Definition mirror_ops (mu tmu : list nat) : list (op eloc V) :=
    flat_map (fun row => map (fun col =>
        Cp (tmu, (col * nc0 + row)%nat) (mu, (row * nc0 + col)%nat)) (seq 0 nc0)) (seq 0 nc1).

  (* the loops over mu_k, k >= 1, of the kernel; allz = (diag_0 = 0 /\ .. /\ diag_{k-1} = 0).
     Called with the remaining levels; mu, tmu, i, j are the prefixes built so far. *)
  Fixpoint kern (sym : bool) (lv : list level) (allz : bool) (mu tmu : list nat) (i j : list Z)
    : list (op eloc V) :=
    match lv with
    | [] => blk_ops mu i j ++ (if sym && negb allz then mirror_ops mu tmu else [])
    | (b, t) :: rest =>
        flat_map (fun m =>
          let ij := nth m b (0, 0) in
          let d := snd ij - fst ij in
          if sym && allz && (d >? 0) then []
          else kern sym rest (allz && (d =? 0)) (mu ++ [m]) (tmu ++ [nth m t 0%nat])
                    (i ++ [fst ij]) (j ++ [snd ij]))
          (seq 0 (length b))
    end.

  (* one prange iteration: _asm_core_vec_kernel(.., mu0)  (lines 1114-1123 + the loops) *)
  Definition core_task (sym : bool) (lv0 : level) (rest : list level) (m0 : nat) : list (op eloc V) :=
    let ij := nth m0 (fst lv0) (0, 0) in
    let d := snd ij - fst ij in
    if sym && (d >? 0) then []
    else kern sym rest (d =? 0) [m0] [nth m0 (snd lv0) 0%nat] [fst ij] [snd ij].

  Definition core_tasks (sym : bool) (lv : list level) : list (list (op eloc V)) :=
    match lv with
    | [] => []
    | lv0 :: rest => map (core_task sym lv0 rest) (seq 0 (length (fst lv0)))
    end.
End Core.
Arguments blk_ops {V}. Arguments mirror_ops {V}. Arguments kern {V}.
Arguments core_task {V}. Arguments core_tasks {V}.

(* multi-indices of an array of the given shape in C order *)
Fixpoint prod_idx (shape : list nat) : list (list nat) :=
  match shape with
  | [] => [[]]
  | n :: rest => flat_map (fun x => map (cons x) (prod_idx rest)) (seq 0 n)
  end.

(* the `entries` array after the sequential execution (num_threads = 1), read
   back in C order; it starts as np.zeros *)
Definition core_entries {V : Type} (vzero : V) (nc0 nc1 : nat) (B : list Z -> list Z -> nat -> V)
    (sym : bool) (lv : list level) : list V :=
  let m := exec eloc_eqb (concat (core_tasks nc0 nc1 B sym lv)) (fun _ => vzero) in
  flat_map (fun mu => map (fun c => m (mu, c)) (seq 0 (nc0 * nc1)))
           (prod_idx (map (fun l : level => length (fst l)) lv)).

(* ------------------------------------------------------------------------- *)
(** * multi-level indices (mlmatrix.py:360-369 to_seq; MLMatrix.asmatrix; reorder) *)

Fixpoint to_seq_acc (acc : Z) (I dims : list Z) : Z :=
  match I, dims with
  | i :: I', d :: dims' => to_seq_acc (acc * d + i) I' dims'
  | _, _ => acc
  end.
Definition to_seq (I dims : list Z) : Z := to_seq_acc 0 I dims.

(* matrix coordinates of the data element whose per-level pattern entries are sel *)
Definition ml_key (bs : list (Z * Z)) (sel : list (Z * Z)) : Z * Z :=
  (to_seq (map fst sel) (map fst bs), to_seq (map snd sel) (map snd bs)).

(* 'packed': S_base.join(dense(nc)), component level last (assemble.py:768);
   'blocked': reorder((dim, 0, .., dim-1)), component level first (assemble.py:803-805) *)
Definition key_packed (bs : list (Z * Z)) (nc : Z * Z) (sel : list (Z * Z)) (rc : Z * Z) : Z * Z :=
  ml_key (bs ++ [nc]) (sel ++ [rc]).
Definition key_blocked (bs : list (Z * Z)) (nc : Z * Z) (sel : list (Z * Z)) (rc : Z * Z) : Z * Z :=
  ml_key (nc :: bs) (rc :: sel).

Definition prodZ (l : list Z) : Z := fold_right Z.mul 1 l.

(* the documented permutation between the layouts: packed index b*k + r  <->  blocked index r*M + b *)
Definition perm (M k p : Z) : Z := (p mod k) * M + p / k.

(* compute_dense_ij(m, n)[t] *)
Definition dense_ij (n : Z) (t : Z) : Z * Z := (t / n, t mod n).

(* triples denoted by the data of the generic core (shape MU_0 x .. x nc0*nc1), for either layout *)
Definition sel_of (lv : list (list (Z * Z))) (mu : list nat) : list (Z * Z) :=
  map (fun bm : list (Z * Z) * nat => nth (snd bm) (fst bm) (0, 0)) (combine lv mu).

Definition core_triples {V : Type} (blocked : bool) (bs : list (Z * Z)) (nc : Z * Z)
    (lv : list (list (Z * Z))) (data : list V) : list ((Z * Z) * V) :=
  let ncomp := Z.to_nat (fst nc * snd nc) in
  let keys := flat_map (fun mu => map (fun c =>
                  let rc := dense_ij (snd nc) (Z.of_nat c) in
                  if blocked then key_blocked bs nc (sel_of lv mu) rc
                  else key_packed bs nc (sel_of lv mu) rc) (seq 0 ncomp))
                (prod_idx (map (@length _) lv)) in
  combine keys data.

(* ------------------------------------------------------------------------- *)
(** * component blocks as flat row-major lists (bsr path) *)

Definition blk_transpose {V : Type} (d : V) (nr ncl : nat) (b : list V) : list V :=
  flat_map (fun c => map (fun r => nth (r * ncl + c)%nat b d) (seq 0 nr)) (seq 0 ncl).

(* scalar triples of a list of block triples with nr x ncl blocks *)
Definition expand_blocks {V : Type} (d : V) (nr ncl : nat) (T : list ((Z * Z) * list V)) : list ((Z * Z) * V) :=
  flat_map (fun t : (Z * Z) * list V =>
    flat_map (fun r => map (fun c =>
      ((fst (fst t) * Z.of_nat nr + Z.of_nat r, snd (fst t) * Z.of_nat ncl + Z.of_nat c),
       nth (r * ncl + c)%nat (snd t) d)) (seq 0 ncl)) (seq 0 nr)) T.
