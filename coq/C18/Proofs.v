(* C18 -- proofs: every format operation commutes with expansion to the full array,
   over an arbitrary commutative ring. *)
From Coq Require Import List Arith Bool ZArith Lia Ring.
From Verif.C18 Require Import Model.
Import ListNotations.

(* ------------------------------------------------------------------ *)
(* index arithmetic (no ring)                                          *)
(* ------------------------------------------------------------------ *)

Lemma wrap_in_range n i k : wrap n i = Some k -> k < n.
Proof.
  unfold wrap. intros H.
  destruct ((0 <=? i)%Z && (i <? Z.of_nat n)%Z) eqn:E1.
  - inversion H; subst. apply andb_true_iff in E1. destruct E1 as [A B].
    apply Z.leb_le in A. apply Z.ltb_lt in B. lia.
  - destruct ((- Z.of_nat n <=? i)%Z && (i <? 0)%Z) eqn:E2; [|discriminate].
    inversion H; subst. apply andb_true_iff in E2. destruct E2 as [A B].
    apply Z.leb_le in A. apply Z.ltb_lt in B. lia.
Qed.

(* Python semantics of a negative index: position i + n *)
Lemma wrap_value n i k : wrap n i = Some k ->
  (Z.of_nat k = if (i <? 0)%Z then i + Z.of_nat n else i)%Z.
Proof.
  unfold wrap. intros H.
  destruct ((0 <=? i)%Z && (i <? Z.of_nat n)%Z) eqn:E1.
  - inversion H; subst. apply andb_true_iff in E1. destruct E1 as [A B].
    apply Z.leb_le in A. apply Z.ltb_lt in B.
    destruct (i <? 0)%Z eqn:E; [apply Z.ltb_lt in E; lia|]. lia.
  - destruct ((- Z.of_nat n <=? i)%Z && (i <? 0)%Z) eqn:E2; [|discriminate].
    inversion H; subst. apply andb_true_iff in E2. destruct E2 as [A B].
    apply Z.leb_le in A. rewrite B. apply Z.ltb_lt in B. lia.
Qed.

(* every position selected by range(start, stop, step) lies between start and stop *)
Lemma range_list_bounds start stop step z :
  In z (range_list start stop step) ->
  ((0 < step)%Z -> (start <= z < stop)%Z) /\ ((step < 0)%Z -> (stop < z <= start)%Z).
Proof.
  unfold range_list, range_len. intros H. apply in_map_iff in H. destruct H as [k [<- Hk]].
  apply in_seq in Hk. destruct Hk as [_ Hk]. simpl in Hk.
  split; intros Hs.
  - destruct (Z.ltb_spec 0 step); [|lia].
    destruct (Z.ltb_spec start stop).
    + assert (Hq : (step * ((stop - start - 1) / step) <= stop - start - 1)%Z) by (apply Z.mul_div_le; lia).
      assert (Hq0 : (0 <= (stop - start - 1) / step)%Z) by (apply Z.div_pos; lia).
      assert (Hk' : (Z.of_nat k <= (stop - start - 1) / step)%Z) by lia.
      nia.
    + simpl in Hk. lia.
  - destruct (Z.ltb_spec 0 step); [lia|].
    destruct (Z.ltb_spec stop start).
    + assert (Hq : ((- step) * ((start - stop - 1) / (- step)) <= start - stop - 1)%Z) by (apply Z.mul_div_le; lia).
      assert (Hq0 : (0 <= (start - stop - 1) / (- step))%Z) by (apply Z.div_pos; lia).
      assert (Hk' : (Z.of_nat k <= (start - stop - 1) / (- step))%Z) by lia.
      nia.
    + simpl in Hk. lia.
Qed.

Lemma slice_adjust_bounds n start stop step a b :
  (0 <= n)%Z -> slice_adjust n start stop step = (a, b) ->
  ((0 < step)%Z -> (0 <= a /\ b <= n)%Z) /\ ((step < 0)%Z -> (a <= n - 1 /\ -1 <= b)%Z).
Proof.
  unfold slice_adjust. intros Hn H. inversion H; subst; clear H.
  split; intros Hs.
  - destruct (Z.ltb_spec step 0); [lia|]. split.
    + destruct start as [s|]; [|lia]. destruct (Z.ltb_spec s 0); lia.
    + destruct stop as [s|]; [|lia]. destruct (Z.ltb_spec s 0); lia.
  - destruct (Z.ltb_spec step 0); [|lia]. split.
    + destruct start as [s|]; [|lia]. destruct (Z.ltb_spec s 0); lia.
    + destruct stop as [s|]; [|lia]. destruct (Z.ltb_spec s 0); lia.
Qed.

(* range(n)[start:stop:step] only selects existing positions, for every slice *)
Lemma slice_range_in_range n start stop step rs k :
  slice_range n start stop step = Ok rs -> In k rs -> k < n.
Proof.
  unfold slice_range. set (st := match step with None => 1%Z | Some s => s end).
  destruct (Z.eqb_spec st 0); [discriminate|].
  destruct (slice_adjust (Z.of_nat n) start stop st) as [a b] eqn:E.
  intros H Hk. inversion H; subst; clear H.
  apply in_map_iff in Hk. destruct Hk as [z [<- Hz]].
  apply range_list_bounds in Hz.
  apply slice_adjust_bounds in E; [|lia].
  destruct (Z.lt_trichotomy st 0) as [Hs|[Hs|Hs]]; [|lia|].
  - destruct Hz as [_ Hz], E as [_ E]. specialize (Hz Hs). specialize (E Hs). lia.
  - destruct Hz as [Hz _], E as [E _]. specialize (Hz Hs). specialize (E Hs). lia.
Qed.

(* the default slice selects every position in order *)
Lemma slice_full n : slice_range n None None None = Ok (seq 0 n).
Proof.
  unfold slice_range, slice_adjust, range_list, range_len; simpl.
  f_equal. destruct n as [|n].
  - reflexivity.
  - destruct (Z.ltb_spec 0 (Z.of_nat (S n))); [|lia].
    rewrite Z.div_1_r. replace (Z.to_nat (Z.of_nat (S n) - 0 - 1 + 1)) with (S n) by lia.
    rewrite map_map. rewrite <- (map_id (seq 0 (S n))) at 2. apply map_ext. intros k. lia.
Qed.

Lemma wrap_all_in_range n : forall l rs k, wrap_all n l = Ok rs -> In k rs -> k < n.
Proof.
  induction l as [|i l IH]; intros rs k H Hk; simpl in H.
  - inversion H; subst. destruct Hk.
  - destruct (wrap n i) as [p|] eqn:E; [|discriminate].
    destruct (wrap_all n l) as [r|]; simpl in H; [|discriminate].
    inversion H; subst. destruct Hk as [<-|Hk]; [eapply wrap_in_range; eauto|eapply IH; eauto].
Qed.

(* _normalize_indices: one entry per axis, every selected position exists, whatever the expression *)
Lemma norm_axis_in_range n ik rs b k : norm_axis n ik = Ok (rs, b) -> In k rs -> k < n.
Proof.
  destruct ik as [i|a s t|l]; simpl; intros H Hk.
  - destruct (wrap n i) as [p|] eqn:E; [|discriminate]. inversion H; subst.
    destruct Hk as [<-|[]]. eapply wrap_in_range; eauto.
  - destruct (slice_range n a s t) as [r|] eqn:E; simpl in H; [|discriminate].
    inversion H; subst. eapply slice_range_in_range; eauto.
  - destruct (wrap_all n l) as [r|] eqn:E; simpl in H; [|discriminate].
    inversion H; subst. eapply wrap_all_in_range; eauto.
Qed.

Lemma norm_axes_spec : forall shape II ax,
  norm_axes shape II = Ok ax ->
  length ax = length shape /\
  Forall2 (fun n a => forall k, In k (fst a) -> k < n) shape ax.
Proof.
  induction shape as [|n shape IH]; intros II ax H; cbn [norm_axes] in H.
  - inversion H; subst. split; [reflexivity|constructor].
  - destruct II as [|ik II'].
    + destruct (norm_axis n (ISlice None None None)) as [a|] eqn:E1; simpl in H; [|discriminate].
      destruct (norm_axes shape []) as [r|] eqn:E2; simpl in H; [|discriminate].
      inversion H; subst. destruct (IH _ _ E2) as [L F]. split; [simpl; congruence|].
      constructor; [|exact F]. destruct a as [rs b]. intros k Hk. simpl in Hk. eapply norm_axis_in_range; eauto.
    + destruct (norm_axis n ik) as [a|] eqn:E1; simpl in H; [|discriminate].
      destruct (norm_axes shape II') as [r|] eqn:E2; simpl in H; [|discriminate].
      inversion H; subst. destruct (IH _ _ E2) as [L F]. split; [simpl; congruence|].
      constructor; [|exact F]. destruct a as [rs b]. intros k Hk. simpl in Hk. eapply norm_axis_in_range; eauto.
Qed.

Lemma normalize_indices_ok II shape ax :
  normalize_indices II shape = Ok ax ->
  length II <= length shape /\ length ax = length shape /\
  Forall2 (fun n a => forall k, In k (fst a) -> k < n) shape ax.
Proof.
  unfold normalize_indices. destruct (Nat.ltb_spec (length shape) (length II)); [discriminate|].
  intros H1. split; [lia|]. eapply norm_axes_spec; eauto.
Qed.

Lemma normalize_indices_too_many II shape :
  length shape < length II -> normalize_indices II shape = Err ValueError.
Proof.
  unfold normalize_indices. intros H. destruct (Nat.ltb_spec (length shape) (length II)); [reflexivity|lia].
Qed.


Section RingProofs.
Variable R : Type.
Variables (rO rI : R) (radd rmul rsub : R -> R -> R) (ropp : R -> R).
Variable Rth : ring_theory rO rI radd rmul rsub ropp (@eq R).
Add Ring Rring : Rth.

Local Notation "0" := rO.
Local Notation "1" := rI.
Local Infix "+" := radd.
Local Infix "*" := rmul.
Local Infix "-" := rsub.
Local Notation "- x" := (ropp x).

Local Notation rsum := (Model.rsum R rO radd).
Local Notation sumn := (Model.sumn R rO radd).
Local Notation mat := (Model.mat R).
Local Notation full := (Model.full R).
Local Notation me := (Model.me R).
Local Notation mc := (Model.mc R).
Local Notation mr := (Model.mr R).
Local Notation fe := (Model.fe R).
Local Notation fsh := (Model.fsh R).
Local Notation mat_mul := (Model.mat_mul R rO radd rmul).
Local Notation mat_hstack := (Model.mat_hstack R).
Local Notation mat_neg := (Model.mat_neg R ropp).
Local Notation mat_rows := (Model.mat_rows R).
Local Notation cterm := (Model.cterm R rI rmul).
Local Notation centry := (Model.centry R rO rI radd rmul).
Local Notation crank := (Model.crank R).
Local Notation canon_neg := (Model.canon_neg R ropp).
Local Notation canon_add := (Model.canon_add R).
Local Notation factors_nway := (Model.factors_nway R rO radd rmul).
Local Notation tprod := (Model.tprod R rO radd rmul).
Local Notation tentry := (Model.tentry R rO radd rmul).

(* ------------------------------------------------------------------ *)
(* finite sums                                                         *)
(* ------------------------------------------------------------------ *)

Lemma rsum_app l1 l2 : rsum (l1 ++ l2) = rsum l1 + rsum l2.
Proof. induction l1 as [|x l IH]; simpl; [ring|rewrite IH; ring]. Qed.

Lemma rsum_map_ext {A} (f g : A -> R) l :
  (forall x, In x l -> f x = g x) -> rsum (map f l) = rsum (map g l).
Proof.
  induction l as [|x l IH]; simpl; intros H; [reflexivity|].
  rewrite (H x (or_introl eq_refl)), IH; auto.
Qed.

Lemma rsum_map_add {A} (f g : A -> R) l :
  rsum (map (fun x => f x + g x) l) = rsum (map f l) + rsum (map g l).
Proof. induction l as [|x l IH]; simpl; [ring|rewrite IH; ring]. Qed.

Lemma rsum_map_mul_l {A} c (f : A -> R) l :
  rsum (map (fun x => c * f x) l) = c * rsum (map f l).
Proof. induction l as [|x l IH]; simpl; [ring|rewrite IH; ring]. Qed.

Lemma rsum_map_mul_r {A} c (f : A -> R) l :
  rsum (map (fun x => f x * c) l) = rsum (map f l) * c.
Proof. induction l as [|x l IH]; simpl; [ring|rewrite IH; ring]. Qed.

Lemma rsum_map_opp {A} (f : A -> R) l :
  rsum (map (fun x => - f x) l) = - rsum (map f l).
Proof. induction l as [|x l IH]; simpl; [ring|rewrite IH; ring]. Qed.

Lemma rsum_map_zero {A} (l : list A) : rsum (map (fun _ => 0) l) = 0.
Proof. induction l as [|x l IH]; simpl; [reflexivity|rewrite IH; ring]. Qed.

Lemma rsum_swap {A B} (f : A -> B -> R) l1 l2 :
  rsum (map (fun x => rsum (map (fun y => f x y) l2)) l1)
  = rsum (map (fun y => rsum (map (fun x => f x y) l1)) l2).
Proof.
  induction l1 as [|x l1 IH]; simpl.
  - rewrite rsum_map_zero. reflexivity.
  - rewrite IH, <- rsum_map_add. reflexivity.
Qed.

Lemma sumn_ext n f g : (forall j, j < n -> f j = g j) -> sumn n f = sumn n g.
Proof.
  intros H. unfold Model.sumn. apply rsum_map_ext. intros x Hx. apply in_seq in Hx. apply H. lia.
Qed.

Lemma map_seq_shift {A} (f : nat -> A) a b : forall s,
  map f (seq (a + s) b) = map (fun j => f (a + j)%nat) (seq s b).
Proof.
  induction b; intros s; simpl; [reflexivity|]. f_equal.
  replace (S (a + s)) with (a + S s)%nat by lia. apply IHb.
Qed.

Lemma sumn_split a b f : sumn (a + b) f = sumn a f + sumn b (fun j => f (a + j)%nat).
Proof.
  unfold Model.sumn. rewrite seq_app, map_app, rsum_app. f_equal.
  simpl. rewrite <- (map_seq_shift f a b 0). rewrite Nat.add_0_r. reflexivity.
Qed.

Lemma sumn_zero n f : (forall j, j < n -> f j = 0) -> sumn n f = 0.
Proof.
  intros H. rewrite (sumn_ext n f (fun _ => 0) H). unfold Model.sumn. apply rsum_map_zero.
Qed.

Lemma sumn_add n f g : sumn n (fun j => f j + g j) = sumn n f + sumn n g.
Proof. unfold Model.sumn. apply rsum_map_add. Qed.

Lemma sumn_mul_l n c f : sumn n (fun j => c * f j) = c * sumn n f.
Proof. unfold Model.sumn. apply rsum_map_mul_l. Qed.

Lemma sumn_mul_r n c f : sumn n (fun j => f j * c) = sumn n f * c.
Proof. unfold Model.sumn. apply rsum_map_mul_r. Qed.

Lemma sumn_opp n f : sumn n (fun j => - f j) = - sumn n f.
Proof. unfold Model.sumn. apply rsum_map_opp. Qed.

Lemma sumn_swap n m f :
  sumn n (fun i => sumn m (fun j => f i j)) = sumn m (fun j => sumn n (fun i => f i j)).
Proof. unfold Model.sumn. apply rsum_swap. Qed.

(* sum against a Kronecker delta *)
Lemma sumn_delta n j g : j < n -> sumn n (fun j' => if (j =? j')%nat then g j' else 0) = g j.
Proof.
  intros Hj. replace n with (j + (1 + (n - j - 1)))%nat by lia.
  rewrite sumn_split, sumn_split.
  rewrite sumn_zero.
  2:{ intros k Hk. destruct (Nat.eqb_spec j k); [lia|reflexivity]. }
  rewrite (sumn_zero (n - j - 1)).
  2:{ intros k Hk. destruct (Nat.eqb_spec j (j + (1 + k))); [lia|reflexivity]. }
  unfold Model.sumn. simpl. rewrite Nat.add_0_r, Nat.eqb_refl. ring.
Qed.

(* ------------------------------------------------------------------ *)
(* CanonicalTensor                                                     *)
(* ------------------------------------------------------------------ *)

(* all factor matrices have the same number of columns (asserted by __init__, tensor.py:706) *)
Definition uniform (Xs : list mat) (rk : nat) : Prop := Forall (fun X => mc X = rk) Xs.

Lemma cterm_add A : forall B idx r ra,
  uniform A ra -> length A = length B ->
  cterm (canon_add A B) idx r = if (r <? ra)%nat then cterm A idx r else cterm B idx (r - ra).
Proof.
  unfold Model.canon_add.
  induction A as [|X A IH]; intros [|Y B] idx r ra HA HL; simpl in *; try discriminate.
  - destruct (r <? ra)%nat; reflexivity.
  - inversion HA as [|? ? HX HA']; subst. destruct idx as [|i idx]; simpl.
    + destruct (r <? mc X)%nat; reflexivity.
    + rewrite (IH B idx r (mc X)) by (auto; lia).
      destruct (r <? mc X)%nat; reflexivity.
Qed.

Lemma canon_add_spec A B idx ra rb :
  uniform A ra -> uniform B rb -> length A = length B -> A <> [] ->
  centry (canon_add A B) idx = centry A idx + centry B idx.
Proof.
  intros HA HB HL Hne. unfold Model.centry.
  destruct A as [|X A]; [congruence|]. destruct B as [|Y B]; [discriminate|].
  assert (EX : mc X = ra) by (inversion HA; auto).
  assert (EY : mc Y = rb) by (inversion HB; auto).
  replace (crank (canon_add (X :: A) (Y :: B))) with (ra + rb)%nat by (simpl; congruence).
  replace (crank (X :: A)) with ra by (simpl; congruence).
  replace (crank (Y :: B)) with rb by (simpl; congruence).
  rewrite sumn_split. f_equal.
  - apply sumn_ext. intros j Hj. rewrite (cterm_add _ _ _ _ ra HA HL).
    destruct (Nat.ltb_spec j ra); [reflexivity|lia].
  - apply sumn_ext. intros j Hj. rewrite (cterm_add _ _ _ _ ra HA HL).
    destruct (Nat.ltb_spec (ra + j) ra); [lia|]. f_equal. lia.
Qed.

Lemma canon_neg_spec A idx :
  length idx = length A -> centry (canon_neg A) idx = - centry A idx.
Proof.
  intros HL. destruct A as [|X A]; unfold Model.centry; simpl.
  - unfold Model.sumn; simpl. ring.
  - destruct idx as [|i idx]; [discriminate|]. rewrite <- sumn_opp.
    apply sumn_ext. intros j _. simpl. ring.
Qed.

(* row selection X[Ik] of every factor (the first half of __getitem__, tensor.py:842) *)
Definition sel_idx (rss : list (list nat)) (idx : list nat) : list nat :=
  map (fun p => nth (snd p) (fst p) 0%nat) (combine rss idx).

Lemma cterm_rows A : forall rss idx r,
  cterm (map (fun p => mat_rows (fst p) (snd p)) (combine A rss)) idx r = cterm (firstn (length rss) A) (sel_idx rss idx) r.
Proof.
  induction A as [|X A IH]; intros rss idx r; simpl.
  - destruct rss; reflexivity.
  - destruct rss as [|rs rss]; simpl; [reflexivity|].
    destruct idx as [|i idx]; simpl; [reflexivity|]. rewrite IH. reflexivity.
Qed.

Lemma canon_rows_spec A rss idx :
  length rss = length A ->
  centry (map (fun p => mat_rows (fst p) (snd p)) (combine A rss)) idx = centry A (sel_idx rss idx).
Proof.
  intros HL. unfold Model.centry.
  replace (crank (map (fun p => mat_rows (fst p) (snd p)) (combine A rss))) with (crank A).
  2:{ destruct A, rss; simpl in *; try discriminate; reflexivity. }
  apply sumn_ext. intros j _. rewrite cterm_rows, HL, firstn_all. reflexivity.
Qed.

(* ------------------------------------------------------------------ *)
(* apply_tprod is linear in the array                                  *)
(* ------------------------------------------------------------------ *)

Lemma tprod_ext Bs : forall f g idx, (forall J, f J = g J) -> tprod Bs f idx = tprod Bs g idx.
Proof.
  induction Bs as [|ob Bs IH]; intros f g idx H; simpl; [apply H|].
  destruct idx as [|i idx]; [apply H|]. destruct ob as [B|].
  - apply sumn_ext. intros j _. f_equal. apply IH. intros; apply H.
  - apply IH. intros; apply H.
Qed.

Lemma tprod_add Bs : forall f g idx,
  tprod Bs (fun J => f J + g J) idx = tprod Bs f idx + tprod Bs g idx.
Proof.
  induction Bs as [|ob Bs IH]; intros f g idx; simpl; [reflexivity|].
  destruct idx as [|i idx]; [reflexivity|]. destruct ob as [B|].
  - rewrite <- sumn_add. apply sumn_ext. intros j _. rewrite IH. ring.
  - apply IH.
Qed.

Lemma tprod_scale Bs : forall c f idx, tprod Bs (fun J => c * f J) idx = c * tprod Bs f idx.
Proof.
  induction Bs as [|ob Bs IH]; intros c f idx; simpl; [reflexivity|].
  destruct idx as [|i idx]; [reflexivity|]. destruct ob as [B|].
  - rewrite <- sumn_mul_l. apply sumn_ext. intros j _. rewrite IH. ring.
  - apply IH.
Qed.

Lemma tprod_opp Bs f idx : tprod Bs (fun J => - f J) idx = - tprod Bs f idx.
Proof.
  rewrite (tprod_ext Bs _ (fun J => (- (1)) * f J)) by (intros; ring).
  rewrite tprod_scale. ring.
Qed.

Lemma tprod_sub Bs f g idx : tprod Bs (fun J => f J - g J) idx = tprod Bs f idx - tprod Bs g idx.
Proof.
  rewrite (tprod_ext Bs _ (fun J => f J + (fun J => - g J) J)) by (intros; ring).
  rewrite tprod_add, tprod_opp. ring.
Qed.

Lemma tprod_zero Bs : forall f idx, (forall J, f J = 0) -> tprod Bs f idx = 0.
Proof.
  intros f idx H. rewrite (tprod_ext Bs f (fun J => 0 * 0)) by (intros; rewrite H; ring).
  rewrite tprod_scale. ring.
Qed.

Lemma tprod_sumn Bs : forall n (g : nat -> list nat -> R) idx,
  tprod Bs (fun J => sumn n (fun r => g r J)) idx = sumn n (fun r => tprod Bs (g r) idx).
Proof.
  induction Bs as [|ob Bs IH]; intros n g idx; simpl; [reflexivity|].
  destruct idx as [|i idx]; [reflexivity|]. destruct ob as [B|].
  - rewrite sumn_swap. apply sumn_ext. intros j _. rewrite IH, <- sumn_mul_l. reflexivity.
  - apply IH.
Qed.

(* nway_prod of a canonical tensor = apply_tprod of its expansion (tensor.py:772-791) *)
Lemma cterm_nway A : forall Bs idx r,
  length Bs = length A -> length idx = length A ->
  cterm (map (fun p => match fst p with Some B => mat_mul B (snd p) | None => snd p end) (combine Bs A)) idx r
  = tprod Bs (fun J => cterm A J r) idx.
Proof.
  induction A as [|X A IH]; intros [|ob Bs] [|i idx] r HB HI; simpl in *; try discriminate; try reflexivity.
  destruct ob as [B|].
  - rewrite IH by lia. unfold Model.mat_mul; simpl. rewrite <- sumn_mul_r. apply sumn_ext. intros j _.
    rewrite tprod_scale. ring.
  - rewrite IH by lia. rewrite tprod_scale. reflexivity.
Qed.

Lemma crank_nway A : forall Bs, length Bs = length A ->
  crank (map (fun p => match fst p with Some B => mat_mul B (snd p) | None => snd p end) (combine Bs A)) = crank A.
Proof. destruct A; intros [|[B|] Bs] H; simpl in *; try discriminate; reflexivity. Qed.

Lemma canon_nway_spec A Bs idx :
  length Bs <= length A -> length idx = length A ->
  centry (factors_nway Bs A) idx = tprod (pad_ops R Bs (length A)) (centry A) idx.
Proof.
  intros HB HI. unfold Model.factors_nway, Model.centry.
  assert (HL : length (pad_ops R Bs (length A)) = length A).
  { unfold pad_ops. rewrite app_length, repeat_length. lia. }
  rewrite crank_nway by exact HL. rewrite tprod_sumn.
  apply sumn_ext. intros j _. apply cterm_nway; assumption.
Qed.


(* modek_tprod: the mode-k product is apply_tprod with identity placeholders on the first k axes *)
Lemma modek_spec B k : forall f idx, k < length idx ->
  tprod (Model.modek_ops R B k) f idx = Model.modek_entry R rO radd rmul B k f idx.
Proof.
  unfold Model.modek_ops, Model.modek_entry.
  induction k as [|k IH]; intros f [|i idx] H; simpl in *; try lia.
  - reflexivity.
  - rewrite IH by lia. reflexivity.
Qed.

(* ------------------------------------------------------------------ *)
(* TuckerTensor                                                        *)
(* ------------------------------------------------------------------ *)
Local Notation join_U := (Model.join_U R).
Local Notation join_X1 := (Model.join_X1 R rO).
Local Notation join_X2 := (Model.join_X2 R rO).
Local Notation full_add := (Model.full_add R radd).
Local Notation full_sub := (Model.full_sub R rsub).
Local Notation full_neg := (Model.full_neg R ropp).
Local Notation diag_core := (Model.diag_core R rO rI).

Lemma tucker_neg_spec Us X idx : tentry Us (full_neg X) idx = - tentry Us X idx.
Proof. unfold Model.tentry, Model.full_neg; simpl. apply tprod_opp. Qed.

(* nway_prod of a Tucker tensor = apply_tprod of its expansion (tensor.py:954-973) *)
Lemma tprod_compose Us : forall Bs f idx,
  length Bs = length Us -> length idx = length Us ->
  tprod (map Some (map (fun p => match fst p with Some B => mat_mul B (snd p) | None => snd p end) (combine Bs Us))) f idx
  = tprod Bs (tprod (map Some Us) f) idx.
Proof.
  induction Us as [|U Us IH]; intros [|ob Bs] f [|i idx] HB HI; simpl in *; try discriminate; try reflexivity.
  destruct ob as [B|].
  - unfold Model.mat_mul at 1; simpl.
    rewrite (sumn_ext _ _ (fun j => sumn (mc B) (fun k => me B i k * (me U k j *
              tprod Bs (tprod (map Some Us) (fun rest => f (j :: rest))) idx)))).
    2:{ intros j _. rewrite IH by lia. rewrite <- sumn_mul_r. apply sumn_ext. intros k _. ring. }
    rewrite sumn_swap. apply sumn_ext. intros k _. rewrite sumn_mul_l. f_equal.
    rewrite (sumn_ext _ _ (fun j => tprod Bs (fun rest => me U k j * tprod (map Some Us) (fun r2 => f (j :: r2)) rest) idx))
      by (intros; rewrite tprod_scale; reflexivity).
    rewrite <- (tprod_sumn Bs (mc U) (fun j rest => me U k j * tprod (map Some Us) (fun r2 => f (j :: r2)) rest)).
    apply tprod_ext. reflexivity.
  - rewrite (sumn_ext _ _ (fun j => tprod Bs (fun rest => me U i j * tprod (map Some Us) (fun r2 => f (j :: r2)) rest) idx))
      by (intros; rewrite IH by lia; rewrite tprod_scale; reflexivity).
    rewrite <- (tprod_sumn Bs (mc U) (fun j rest => me U i j * tprod (map Some Us) (fun r2 => f (j :: r2)) rest)).
    apply tprod_ext. reflexivity.
Qed.

Lemma tucker_nway_spec Us X Bs idx :
  length Bs <= length Us -> length idx = length Us ->
  tentry (factors_nway Bs Us) X idx = tprod (pad_ops R Bs (length Us)) (tentry Us X) idx.
Proof.
  intros HB HI. unfold Model.tentry, Model.factors_nway.
  assert (HL : length (pad_ops R Bs (length Us)) = length Us).
  { unfold pad_ops. rewrite app_length, repeat_length. lia. }
  rewrite tprod_compose by assumption.
  apply tprod_ext. reflexivity.
Qed.

(* join_tucker_bases, tensor.py:1030-1046: both tensors are unchanged in the joint basis *)
Lemma sub_idx_zeros : forall (l : list nat) idx, sub_idx idx (map (fun _ => 0%nat) l) = idx.
Proof.
  induction l as [|x l IH]; intros [|i idx]; simpl; try reflexivity.
  rewrite IH. f_equal. lia.
Qed.

Lemma all_ge_zeros : forall (l : list nat) idx, all_ge idx (map (fun _ => 0%nat) l) = true.
Proof. induction l as [|x l IH]; intros [|i idx]; simpl; auto. Qed.

Lemma join1_gen U1 : forall U2 f idx,
  length U2 = length U1 -> length idx = length U1 ->
  tprod (map Some (join_U U1 U2)) (fun J => if all_lt J (map mc U1) then f J else 0) idx
  = tprod (map Some U1) f idx.
Proof.
  unfold Model.join_U.
  induction U1 as [|A U1 IH]; intros [|B U2] f [|i idx] H2 HI; simpl in *; try discriminate; try reflexivity.
  rewrite sumn_split.
  rewrite (sumn_zero (mc B)).
  2:{ intros j Hj. destruct (Nat.ltb_spec (mc A + j) (mc A)); [lia|].
      rewrite tprod_zero; [ring|]. intros J. reflexivity. }
  rewrite (sumn_ext (mc A) _ (fun j => me A i j * tprod (map Some U1) (fun rest => f (j :: rest)) idx)).
  - ring.
  - intros j Hj. destruct (Nat.ltb_spec j (mc A)); [|lia]. f_equal.
    rewrite <- (IH U2) by lia. apply tprod_ext. intros J. reflexivity.
Qed.

Lemma join2_gen U1 : forall U2 f idx,
  length U2 = length U1 -> length idx = length U1 ->
  tprod (map Some (join_U U1 U2))
        (fun J => if all_ge J (map mc U1) && all_lt (sub_idx J (map mc U1)) (map mc U2)
                  then f (sub_idx J (map mc U1)) else 0) idx
  = tprod (map Some U2) f idx.
Proof.
  unfold Model.join_U.
  induction U1 as [|A U1 IH]; intros [|B U2] f [|i idx] H2 HI; simpl in *; try discriminate; try reflexivity.
  rewrite sumn_split.
  rewrite (sumn_zero (mc A)).
  2:{ intros j Hj. destruct (Nat.ltb_spec j (mc A)); [|lia].
      rewrite tprod_zero; [ring|]. intros J.
      destruct (Nat.leb_spec (mc A) j); [lia|]. reflexivity. }
  rewrite (sumn_ext (mc B) _ (fun j => me B i j * tprod (map Some U2) (fun rest => f (j :: rest)) idx)).
  - ring.
  - intros j Hj. destruct (Nat.ltb_spec (mc A + j) (mc A)); [lia|].
    replace (mc A + j - mc A)%nat with j by lia. f_equal.
    rewrite <- (IH U2) by lia. apply tprod_ext. intros J.
    destruct (Nat.leb_spec (mc A) (mc A + j)); [|lia].
    replace (mc A + j - mc A)%nat with j by lia.
    destruct (Nat.ltb_spec j (mc B)); [|lia]. reflexivity.
Qed.

(* the core of a Tucker tensor has one axis of length mc U_k per factor *)
Definition core_ok (Us : list mat) (X : full) : Prop := fsh X = map mc Us.

Lemma join_bases_1 U1 X1 U2 X2 idx :
  core_ok U1 X1 -> length U2 = length U1 -> length idx = length U1 ->
  tentry (join_U U1 U2) (join_X1 X1 X2) idx = tentry U1 X1 idx.
Proof.
  intros H1 HL HI. unfold Model.tentry, Model.join_X1, Model.full_pad; simpl.
  rewrite <- (join1_gen U1 U2) by assumption. apply tprod_ext. intros J.
  rewrite all_ge_zeros, sub_idx_zeros, H1. reflexivity.
Qed.

Lemma join_bases_2 U1 X1 U2 X2 idx :
  core_ok U1 X1 -> core_ok U2 X2 -> length U2 = length U1 -> length idx = length U1 ->
  tentry (join_U U1 U2) (join_X2 X1 X2) idx = tentry U2 X2 idx.
Proof.
  intros H1 H2 HL HI. unfold Model.tentry, Model.join_X2, Model.full_pad; simpl.
  rewrite <- (join2_gen U1 U2) by assumption. apply tprod_ext. intros J.
  unfold core_ok in H1, H2. rewrite ?H1, ?H2. reflexivity.
Qed.

Lemma tucker_add_spec U1 X1 U2 X2 idx :
  core_ok U1 X1 -> core_ok U2 X2 -> length U2 = length U1 -> length idx = length U1 ->
  tentry (join_U U1 U2) (full_add (join_X1 X1 X2) (join_X2 X1 X2)) idx
  = tentry U1 X1 idx + tentry U2 X2 idx.
Proof.
  intros. rewrite <- (join_bases_1 U1 X1 U2 X2 idx), <- (join_bases_2 U1 X1 U2 X2 idx) by assumption.
  unfold Model.tentry, Model.full_add; simpl. apply tprod_add.
Qed.

Lemma tucker_sub_spec U1 X1 U2 X2 idx :
  core_ok U1 X1 -> core_ok U2 X2 -> length U2 = length U1 -> length idx = length U1 ->
  tentry (join_U U1 U2) (full_sub (join_X1 X1 X2) (join_X2 X1 X2)) idx
  = tentry U1 X1 idx - tentry U2 X2 idx.
Proof.
  intros. rewrite <- (join_bases_1 U1 X1 U2 X2 idx), <- (join_bases_2 U1 X1 U2 X2 idx) by assumption.
  unfold Model.tentry, Model.full_sub; simpl. apply tprod_sub.
Qed.

(* TuckerTensor.from_tensor(CanonicalTensor), tensor.py:893-896 *)
Lemma diag_tail Xs : forall rk j idx,
  uniform Xs rk -> j < rk -> length idx = length Xs ->
  tprod (map Some Xs) (fun rest => if all_same j rest then 1 else 0) idx = cterm Xs idx j.
Proof.
  induction Xs as [|Y Ys IH]; intros rk j [|i idx] HU Hj HI; simpl in *; try discriminate; try reflexivity.
  inversion HU as [|? ? HY HU']; subst.
  rewrite (sumn_ext _ _ (fun j' => if (j =? j')%nat then me Y i j' * cterm Ys idx j' else 0)).
  - rewrite sumn_delta by assumption. reflexivity.
  - intros j' Hj'. destruct (Nat.eqb_spec j j') as [->|Hne]; simpl.
    + f_equal. apply (IH (mc Y)); auto.
    + rewrite tprod_zero; [ring|reflexivity].
Qed.

Lemma canon_to_tucker_spec Xs idx :
  uniform Xs (crank Xs) -> Xs <> [] -> length idx = length Xs ->
  tentry Xs (diag_core (length Xs) (crank Xs)) idx = centry Xs idx.
Proof.
  intros HU Hne HI. destruct Xs as [|X Xs]; [congruence|].
  destruct idx as [|i idx]; [discriminate|].
  unfold Model.tentry, Model.centry; simpl.
  apply sumn_ext. intros j Hj. f_equal.
  inversion HU; subst. apply (diag_tail Xs (mc X)); auto.
Qed.

(* ------------------------------------------------------------------ *)
(* CanonicalOperator                                                   *)
(* ------------------------------------------------------------------ *)
Local Notation kterm := (Model.kterm R rI rmul).
Local Notation kentry := (Model.kentry R rO rI radd rmul).
Local Notation canop_T := (Model.canop_T R).
Local Notation canop_add := (Model.canop_add R).
Local Notation canop_neg := (Model.canop_neg R ropp).
Local Notation canop_mul := (Model.canop_mul R rO radd rmul).
Local Notation canop_kron := (Model.canop_kron R).
Local Notation canop_apply_entry := (Model.canop_apply_entry R rO radd rmul).

Lemma kterm_T term : forall I J, kterm (map (Model.mat_T R) term) I J = kterm term J I.
Proof.
  induction term as [|A term IH]; intros [|i I] [|j J]; simpl; try reflexivity. rewrite IH. reflexivity.
Qed.

Lemma canop_T_spec Op I J : kentry (canop_T Op) I J = kentry Op J I.
Proof.
  unfold Model.kentry, Model.canop_T. rewrite map_map. apply rsum_map_ext. intros t _. apply kterm_T.
Qed.

Lemma canop_add_spec A B I J : kentry (canop_add A B) I J = kentry A I J + kentry B I J.
Proof. unfold Model.kentry, Model.canop_add. rewrite map_app, rsum_app. reflexivity. Qed.

Lemma canop_neg_spec A I J :
  Forall (fun t => t <> []) A -> I <> [] -> J <> [] -> kentry (canop_neg A) I J = - kentry A I J.
Proof.
  intros HA HI HJ. unfold Model.kentry, Model.canop_neg. rewrite map_map, <- rsum_map_opp.
  apply rsum_map_ext. intros t Ht. rewrite Forall_forall in HA. specialize (HA t Ht).
  destruct t as [|X t]; [congruence|]. destruct I as [|i I]; [congruence|]. destruct J as [|j J]; [congruence|].
  simpl. ring.
Qed.

(* the Kronecker product of matrix products is the product of the Kronecker products, entry-wise:
   sum over the intermediate multi-index K of kterm t1 I K * kterm t2 K J *)
Fixpoint ksum (dims : list nat) (f : list nat -> R) : R :=
  match dims with
  | [] => f []
  | n :: dims' => sumn n (fun k => ksum dims' (fun rest => f (k :: rest)))
  end.

Lemma ksum_ext dims : forall f g, (forall K, f K = g K) -> ksum dims f = ksum dims g.
Proof.
  induction dims as [|n dims IH]; intros f g H; simpl; [apply H|].
  apply sumn_ext. intros k _. apply IH. intros; apply H.
Qed.

Lemma ksum_scale dims : forall c f, ksum dims (fun K => c * f K) = c * ksum dims f.
Proof.
  induction dims as [|n dims IH]; intros c f; simpl; [reflexivity|].
  rewrite <- sumn_mul_l. apply sumn_ext. intros k _. apply IH.
Qed.

Lemma ksum_add dims : forall f g, ksum dims (fun K => f K + g K) = ksum dims f + ksum dims g.
Proof.
  induction dims as [|n dims IH]; intros f g; simpl; [reflexivity|].
  rewrite <- sumn_add. apply sumn_ext. intros k _. apply IH.
Qed.

Lemma ksum_rsum {A} dims : forall (l : list A) (g : A -> list nat -> R),
  ksum dims (fun K => rsum (map (fun x => g x K) l)) = rsum (map (fun x => ksum dims (g x)) l).
Proof.
  intros l g. induction l as [|x l IH]; simpl.
  - rewrite (ksum_ext dims _ (fun K => 0 * 0)) by (intros; ring). rewrite ksum_scale. ring.
  - rewrite ksum_add, IH. reflexivity.
Qed.

Lemma kterm_alldot t1 : forall t2 I J,
  length t2 = length t1 -> length I = length t1 -> length J = length t1 ->
  kterm (Model.alldot R rO radd rmul t1 t2) I J
  = ksum (map mc t1) (fun K => kterm t1 I K * kterm t2 K J).
Proof.
  unfold Model.alldot.
  induction t1 as [|A t1 IH]; intros [|B t2] [|i I] [|j J] H2 HI HJ; simpl in *; try discriminate.
  - ring.
  - rewrite IH by lia. unfold Model.mat_mul; simpl.
    rewrite <- sumn_mul_r. apply sumn_ext. intros k _.
    rewrite <- ksum_scale. apply ksum_ext. intros K. ring.
Qed.

(* composition, tensor.py:1224-1231: asmatrix(A*B) = asmatrix(A) . asmatrix(B), entry-wise *)
Lemma canop_mul_spec A B I J dims :
  Forall (fun t => map mc t = dims) A ->
  Forall (fun t => length t = length dims) B ->
  length I = length dims -> length J = length dims ->
  kentry (canop_mul A B) I J = ksum dims (fun K => kentry A I K * kentry B K J).
Proof.
  intros HA HB HI HJ. unfold Model.kentry, Model.canop_mul.
  rewrite (ksum_ext dims _ (fun K => rsum (map (fun t1 => rsum (map (fun t2 => kterm t1 I K * kterm t2 K J) B)) A))).
  2:{ intros K. rewrite <- rsum_map_mul_r. apply rsum_map_ext. intros t1 _.
      rewrite <- rsum_map_mul_l. reflexivity. }
  rewrite ksum_rsum.
  induction A as [|t1 A IHA]; simpl; [reflexivity|].
  inversion HA as [|? ? Ht1 HA']; subst.
  rewrite map_app, rsum_app, IHA by assumption. f_equal.
  rewrite map_map, ksum_rsum. apply rsum_map_ext. intros t2 Ht2.
  rewrite Forall_forall in HB. specialize (HB t2 Ht2). rewrite map_length in *.
  apply kterm_alldot; lia.
Qed.

(* Kronecker extension, tensor.py:1233-1237 *)
Lemma kterm_app t1 : forall t2 I1 I2 J1 J2,
  length I1 = length t1 -> length J1 = length t1 ->
  kterm (t1 ++ t2) (I1 ++ I2) (J1 ++ J2) = kterm t1 I1 J1 * kterm t2 I2 J2.
Proof.
  induction t1 as [|A t1 IH]; intros t2 [|i I1] I2 [|j J1] J2 HI HJ; simpl in *; try discriminate.
  - ring.
  - rewrite IH by lia. ring.
Qed.

Lemma canop_kron_spec A B I1 I2 J1 J2 d :
  Forall (fun t => length t = d) A -> length I1 = d -> length J1 = d ->
  kentry (canop_kron A B) (I1 ++ I2) (J1 ++ J2) = kentry A I1 J1 * kentry B I2 J2.
Proof.
  intros HA HI HJ. unfold Model.kentry, Model.canop_kron.
  induction A as [|t1 A IHA]; simpl; [ring|].
  inversion HA as [|? ? Ht1 HA']; subst.
  rewrite map_app, rsum_app, IHA by assumption.
  rewrite map_map.
  rewrite (rsum_map_ext _ (fun t2 => kterm t1 I1 J1 * kterm t2 I2 J2)).
  - rewrite rsum_map_mul_l. ring.
  - intros t2 _. apply kterm_app; lia.
Qed.

(* application, tensor.py:1239-1242: (A X)[I] = sum_J asmatrix(A)[I,J] X[J] *)
Lemma tprod_kterm term : forall f I,
  length I = length term ->
  tprod (map Some term) f I = ksum (map mc term) (fun J => kterm term I J * f J).
Proof.
  induction term as [|A term IH]; intros f [|i I] HI; simpl in *; try discriminate.
  - ring.
  - apply sumn_ext. intros j _. rewrite IH by lia. rewrite <- ksum_scale.
    apply ksum_ext. intros J. ring.
Qed.

Lemma canop_apply_spec Op f I dims :
  Forall (fun t => map mc t = dims) Op -> length I = length dims ->
  canop_apply_entry Op f I = ksum dims (fun J => kentry Op I J * f J).
Proof.
  intros HO HI. unfold Model.canop_apply_entry, Model.kentry.
  rewrite (ksum_ext dims _ (fun J => rsum (map (fun t => kterm t I J * f J) Op))).
  2:{ intros J. rewrite rsum_map_mul_r. reflexivity. }
  rewrite ksum_rsum. apply rsum_map_ext. intros t Ht.
  rewrite Forall_forall in HO. specialize (HO t Ht). subst dims.
  apply tprod_kterm. rewrite map_length in HI. exact HI.
Qed.

(* ------------------------------------------------------------------ *)
(* cross approximation                                                 *)
(* ------------------------------------------------------------------ *)
Local Notation rank_1_update := (Model.rank_1_update R radd rmul).
Local Notation aca_step := (Model.aca_step R radd rmul rsub).
Local Notation aca_E_row := (Model.aca_E_row R rsub).
Local Notation aca_col := (Model.aca_col R rsub).

Lemma rank1_update_entry X alpha u v i j :
  me (rank_1_update X alpha u v) i j = me X i j + alpha * (u i * v j).
Proof. simpl. ring. Qed.

(* after a cross step with pivot (i, j0) the residual A - X vanishes on row i and column j0;
   alpha is 1 / E_row[j0] *)
Lemma aca_step_row A X i j0 alpha j :
  alpha * aca_E_row A X i j0 = 1 ->
  me A i j - me (aca_step A X i j0 alpha) i j = 0.
Proof.
  unfold Model.aca_step, Model.aca_E_row, Model.aca_col; simpl. intros H.
  transitivity ((me A i j - me X i j) * (1 - alpha * (me X i j0 - me A i j0))); [ring|].
  rewrite H. ring.
Qed.

Lemma aca_step_col A X i j0 alpha a :
  alpha * aca_E_row A X i j0 = 1 ->
  me A a j0 - me (aca_step A X i j0 alpha) a j0 = 0.
Proof.
  unfold Model.aca_step, Model.aca_E_row, Model.aca_col; simpl. intros H.
  transitivity ((me A a j0 - me X a j0) * (1 - alpha * (me X i j0 - me A i j0))); [ring|].
  rewrite H. ring.
Qed.

(* a rank-1 matrix u v^T is reproduced exactly by one cross from X = 0 at any non-zero pivot *)
Lemma aca_rank1 (u v : nat -> R) n m i j0 alpha a b :
  let A := Model.mkmat R n m (fun p q => u p * v q) in
  let X := Model.mkmat R n m (fun _ _ => 0) in
  alpha * aca_E_row A X i j0 = 1 ->
  me (aca_step A X i j0 alpha) a b = me A a b.
Proof.
  unfold Model.aca_step, Model.aca_E_row, Model.aca_col; simpl. intros H.
  transitivity (u a * v b * (alpha * (0 - u i * v j0))); [ring|]. rewrite H. ring.
Qed.

End RingProofs.
