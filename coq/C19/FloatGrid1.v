(* C19 -- bounded binary64 statement, chunk 1 of 4 (computed): for the intervals
   FloatGridDefs.chunk 0 and every n = 1..2000 the break points of the repaired make_knots
   pass NpF.bp_ok. *)
From Coq Require Import QArith List Arith Bool.
From Verif.lib Require Import NpCore NpF.
From Verif.C19 Require Import FloatGridDefs.

Lemma grid1_ok : grid_check 2000 (map f_of_qq (chunk 0)) = true.
Proof. vm_compute. reflexivity. Qed.
