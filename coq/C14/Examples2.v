(* C14 -- non-vacuity for Props2.v. *)
From Coq Require Import List Arith Bool Lia QArith.
From Verif.lib Require Import Slice.
From Verif.C14 Require Import Model Spec ModelFin ModelGeo.
From Verif.C14 Require Proofs ProofsBd ProofsFin ProofsGeo.
Import ListNotations.
Close Scope Q_scope.

(* (a) four bilinear patches around a cross point; joins (0,1),(2,3),(0,2), finalize, (1,3), finalize.
   The class merge at the cross point is the last shared-dof event before the first finalize, which
   therefore really renumbers (5 slots -> 4), and the last join continues from the compacted state. *)
Definition ex_shapes := [[2;2];[2;2];[2;2];[2;2]].
Definition J a b c d e f g := HJoin (mk_bjoin a b c d e f g).
Definition ex_steps := [J 0 1 1 1 1 0 [false]; J 2 1 1 3 1 0 [false]; J 0 0 1 2 0 0 [false]; HFin;
                        J 1 0 1 3 0 0 [false]; HFin].

Example ex_fin_numdofs : map fst (observe_h ex_shapes ex_steps) = [10; 9].
Proof. vm_compute. reflexivity. Qed.

Example ex_fin_first_finalize_compacts :
  let st := run_h ex_shapes (firstn 3 ex_steps) in nsd st = 5 /\ nsd (finalize_st st) = 4.
Proof. vm_compute. split; reflexivity. Qed.

Example ex_fin_crosspoint_single_index :
  let st := run_h ex_shapes ex_steps in
  let Ns := map prod_list ex_shapes in
  glob st Ns (0, 3) = glob st Ns (1, 2) /\ glob st Ns (1, 2) = glob st Ns (2, 1) /\ glob st Ns (2, 1) = glob st Ns (3, 0).
Proof. vm_compute. auto. Qed.

Example ex_fin_joins_wellformed : forall j, In (HJoin j) ex_steps -> ProofsBd.bjoin_ok ex_shapes j.
Proof.
  intros j H. unfold ex_steps, J in H.
  repeat (destruct H as [H|H]; [try discriminate H; injection H as <-; repeat split; simpl; try lia; try discriminate|]).
  destruct H.
Qed.

(* (b) three squares: patch 1 is the right neighbour of patch 0, parametrised upside down (flip), patch
   2 lies apart.  Samples on the 2x2 corner grid (index = 2*i_y + i_x), integer points. *)
Definition peqb (a b : nat * nat) : bool := Nat.eqb (fst a) (fst b) && Nat.eqb (snd a) (snd b).
Lemma peqb_spec a b : peqb a b = true <-> a = b.
Proof.
  destruct a as [a1 a2], b as [b1 b2]. unfold peqb. cbn [fst snd]. rewrite andb_true_iff, !Nat.eqb_eq.
  split; [intros [-> ->]; reflexivity|intros H; injection H; auto].
Qed.
Definition G0 := mk_gpatch (nat * nat) [2;2] [(0,0);(1,0);(0,1);(1,1)] [(0#1,1#1);(0#1,1#1)]%Q.
Definition G1 := mk_gpatch (nat * nat) [2;2] [(1,1);(2,1);(1,0);(2,0)] [(1#1,2#1);(0#1,1#1)]%Q.
Definition G2 := mk_gpatch (nat * nat) [2;2] [(3,0);(4,0);(3,1);(4,1)] [(3#1,4#1);(0#1,1#1)]%Q.

Example ex_detect : detect _ peqb [G0; G1; G2] = [(0, (1, 1), 1, (1, 0), [true])].
Proof. vm_compute. reflexivity. Qed.

Example ex_detect_connected :
  connected 3 (detect _ peqb [G0; G1; G2]) = false /\ connected 2 (detect _ peqb [G0; G1]) = true.
Proof. vm_compute. split; reflexivity. Qed.

(* the unflipped pattern does NOT match: the returned flip is forced *)
Example ex_flip_forced :
  ~ ProofsGeo.matches _ [2;2] (gp_samples _ G0) 1 1 [2;2] (gp_samples _ G1) 1 0 [false] /\
  ProofsGeo.matches _ [2;2] (gp_samples _ G0) 1 1 [2;2] (gp_samples _ G1) 1 0 [true].
Proof. split; [vm_compute; discriminate|vm_compute; reflexivity]. Qed.

(* hypotheses of detect_interfaces_complete are met by G0, G1 with the shared point (1, 0) *)
Example ex_boxes_share_point :
  ProofsGeo.inside_box [1#1; 0#1]%Q (gp_bb _ G0) /\ ProofsGeo.inside_box [1#1; 0#1]%Q (gp_bb _ G1) /\
  (0 < diam2 (gp_bb _ G0))%Q.
Proof.
  split; [|split]; [repeat constructor; cbn; discriminate|repeat constructor; cbn; discriminate|reflexivity].
Qed.

(* automatch end to end: the detected interface, joined with its flip, glues the two coinciding corners *)
Example ex_automatch : automatch_observe _ peqb [[2;2];[2;2];[2;2]] [G0; G1; G2] =
  (10, [[0; 8; 1; 9]; [9; 2; 8; 3]; [4; 5; 6; 7]]).
Proof. vm_compute. reflexivity. Qed.
