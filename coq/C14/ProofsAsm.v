(* C14 -- Multipatch.assemble_system:  A = sum_p X_p A_p X_p^T,  b = sum_p X_p b_p  with the 0/1
   matrices X_p = patch_to_global(p).  Theorem: the assembled matrix represents the SUM OF THE PATCH
   BILINEAR FORMS of the restrictions: for all global vectors u, v
       v^T A u = sum_p (v o glob_p)^T A_p (u o glob_p),        v^T b = sum_p (v o glob_p)^T b_p,
   for every number of patches, every join history and every patch matrices.  (That the patch forms
   add up to the form of the undivided domain is additivity of the integral over a conforming
   decomposition -- analysis, outside the model; the run compares the assembled systems.) *)
From Coq Require Import QArith Qcanon List Arith Lia.
From Verif.C14 Require Import Model Spec Proofs.
Import ListNotations.
Open Scope Qc_scope.

(* sumn f n = f 0 + ... + f (n-1) *)
Fixpoint sumn (f : nat -> Qc) (n : nat) : Qc :=
  match n with O => 0 | S m => sumn f m + f m end.

Lemma sumn_ext f g n : (forall i, (i < n)%nat -> f i = g i) -> sumn f n = sumn g n.
Proof.
  induction n as [|n IH]; intros H; cbn [sumn]; [reflexivity|].
  rewrite IH by (intros i Hi; apply H; lia). rewrite (H n) by lia. reflexivity.
Qed.

Lemma sumn_add f g n : sumn (fun i => f i + g i) n = sumn f n + sumn g n.
Proof. induction n as [|n IH]; cbn [sumn]; [ring|]. rewrite IH. ring. Qed.

Lemma sumn_scale_l c f n : sumn (fun i => c * f i) n = c * sumn f n.
Proof. induction n as [|n IH]; cbn [sumn]; [ring|]. rewrite IH. ring. Qed.

Lemma sumn_scale_r c f n : sumn (fun i => f i * c) n = sumn f n * c.
Proof. induction n as [|n IH]; cbn [sumn]; [ring|]. rewrite IH. ring. Qed.

Lemma sumn_zero n : sumn (fun _ => 0) n = 0.
Proof. induction n as [|n IH]; cbn [sumn]; [reflexivity|]. rewrite IH. ring. Qed.

Lemma sumn_swap (f : nat -> nat -> Qc) n m :
  sumn (fun i => sumn (fun j => f i j) m) n = sumn (fun j => sumn (fun i => f i j) n) m.
Proof.
  induction n as [|n IH]; cbn [sumn].
  - rewrite sumn_zero. reflexivity.
  - rewrite IH. rewrite <- sumn_add. reflexivity.
Qed.

Definition delta (k g : nat) : Qc := if Nat.eqb k g then 1 else 0.

Lemma sumn_delta_none k f N : (N <= k)%nat -> sumn (fun g => delta k g * f g) N = 0.
Proof.
  induction N as [|N IH]; intros H; cbn [sumn]; [reflexivity|].
  rewrite IH by lia. unfold delta. destruct (Nat.eqb_spec k N); [lia|]. ring.
Qed.

Lemma sumn_delta k f N : (k < N)%nat -> sumn (fun g => delta k g * f g) N = f k.
Proof.
  induction N as [|N IH]; intros H; [lia|]. cbn [sumn].
  destruct (Nat.eq_dec k N) as [->|Hne].
  - rewrite sumn_delta_none by lia. unfold delta. rewrite Nat.eqb_refl. ring.
  - rewrite IH by lia. unfold delta. destruct (Nat.eqb_spec k N); [lia|]. ring.
Qed.

(* X[g, i] of patch_to_global: the unit entry of column i sits in row idx[i] *)
Definition Xent (idx : list nat) (g i : nat) : Qc := delta (nth i idx 0%nat) g.

(* entry (g, h) of  X A X^T  and entry g of  X b  for a patch with n local dofs *)
Definition xaxt (idx : list nat) (n : nat) (A : nat -> nat -> Qc) (g h : nat) : Qc :=
  sumn (fun i => sumn (fun j => Xent idx g i * A i j * Xent idx h j) n) n.
Definition xb (idx : list nat) (n : nat) (b : nat -> Qc) (g : nat) : Qc :=
  sumn (fun i => Xent idx g i * b i) n.

Lemma X_contract idx n N (w v : nat -> Qc) :
  (forall i, (i < n)%nat -> (nth i idx 0 < N)%nat) ->
  sumn (fun g => v g * sumn (fun i => Xent idx g i * w i) n) N = sumn (fun i => v (nth i idx 0%nat) * w i) n.
Proof.
  intros Hb.
  rewrite (sumn_ext _ (fun g => sumn (fun i => (delta (nth i idx 0%nat) g * v g) * w i) n)).
  2:{ intros g Hg. rewrite <- sumn_scale_l. apply sumn_ext. intros i Hi. unfold Xent. ring. }
  rewrite sumn_swap. apply sumn_ext. intros i Hi.
  rewrite sumn_scale_r. rewrite sumn_delta by (apply Hb; exact Hi). reflexivity.
Qed.

Lemma xb_form idx n N b v :
  (forall i, (i < n)%nat -> (nth i idx 0 < N)%nat) ->
  sumn (fun g => v g * xb idx n b g) N = sumn (fun i => v (nth i idx 0%nat) * b i) n.
Proof. intros Hb. unfold xb. apply X_contract. exact Hb. Qed.

Lemma xaxt_apply idx n N A u g :
  (forall i, (i < n)%nat -> (nth i idx 0 < N)%nat) ->
  sumn (fun h => xaxt idx n A g h * u h) N =
  sumn (fun i => Xent idx g i * sumn (fun j => A i j * u (nth j idx 0%nat)) n) n.
Proof.
  intros Hb. unfold xaxt.
  rewrite (sumn_ext _ (fun h => sumn (fun i => Xent idx g i * (u h * sumn (fun j => Xent idx h j * A i j) n)) n)).
  2:{ intros h Hh. rewrite <- sumn_scale_r. apply sumn_ext. intros i Hi.
      rewrite <- sumn_scale_l. rewrite <- sumn_scale_l. rewrite <- sumn_scale_r.
      apply sumn_ext. intros j Hj. ring. }
  rewrite sumn_swap. apply sumn_ext. intros i Hi. rewrite sumn_scale_l. f_equal.
  rewrite (X_contract idx n N (fun j => A i j) u Hb). apply sumn_ext. intros j Hj. ring.
Qed.

Lemma xaxt_form idx n N A u v :
  (forall i, (i < n)%nat -> (nth i idx 0 < N)%nat) ->
  sumn (fun g => sumn (fun h => v g * xaxt idx n A g h * u h) N) N =
  sumn (fun i => sumn (fun j => v (nth i idx 0%nat) * A i j * u (nth j idx 0%nat)) n) n.
Proof.
  intros Hb.
  rewrite (sumn_ext _ (fun g => v g * sumn (fun i => Xent idx g i * sumn (fun j => A i j * u (nth j idx 0%nat)) n) n)).
  2:{ intros g Hg. rewrite <- (xaxt_apply idx n N A u g Hb). rewrite <- sumn_scale_l.
      apply sumn_ext. intros h Hh. ring. }
  rewrite (X_contract idx n N _ v Hb). apply sumn_ext. intros i Hi.
  rewrite <- sumn_scale_l. apply sumn_ext. intros j Hj. ring.
Qed.

(* ---- the accumulation loop of assemble_system, entry by entry ---- *)
Definition asm_mat (st : state) (Ns : list nat) (As : nat -> nat -> nat -> Qc) (g h : nat) : Qc :=
  fold_left (fun acc p => acc + xaxt (patch_to_global_idx st Ns p) (nth p Ns 0%nat) (As p) g h)
            (seq 0 (length Ns)) 0.
Definition asm_rhs (st : state) (Ns : list nat) (bs : nat -> nat -> Qc) (g : nat) : Qc :=
  fold_left (fun acc p => acc + xb (patch_to_global_idx st Ns p) (nth p Ns 0%nat) (bs p) g)
            (seq 0 (length Ns)) 0.

Lemma fold_add_acc (f : nat -> Qc) l a : fold_left (fun acc p => acc + f p) l a = a + fold_left (fun acc p => acc + f p) l 0.
Proof.
  revert a. induction l as [|p l IH]; intros a; cbn [fold_left]; [ring|].
  rewrite IH. rewrite (IH (0 + f p)). ring.
Qed.

Lemma sum_fold_exchange (F : nat -> nat -> Qc) l N :
  sumn (fun g => fold_left (fun acc p => acc + F p g) l 0) N =
  fold_left (fun acc p => acc + sumn (F p) N) l 0.
Proof.
  induction l as [|p l IH]; cbn [fold_left].
  - apply sumn_zero.
  - rewrite (fold_add_acc (fun p => sumn (F p) N)).
    rewrite (sumn_ext _ (fun g => (0 + F p g) + fold_left (fun acc p0 => acc + F p0 g) l 0)).
    2:{ intros g Hg. apply (fold_add_acc (fun p0 => F p0 g)). }
    rewrite sumn_add. rewrite IH. rewrite (sumn_ext (fun g => 0 + F p g) (F p)) by (intros; ring). ring.
Qed.

Lemma fold_ext_in (f g : nat -> Qc) l : (forall p, In p l -> f p = g p) ->
  fold_left (fun acc p => acc + f p) l 0 = fold_left (fun acc p => acc + g p) l 0.
Proof.
  induction l as [|p l IH]; intros H; cbn [fold_left]; [reflexivity|].
  rewrite (fold_add_acc f), (fold_add_acc g). rewrite IH by (intros q Hq; apply H; right; exact Hq).
  rewrite (H p) by (left; reflexivity). reflexivity.
Qed.

Lemma p2g_nth st Ns p i : (i < nth p Ns 0)%nat -> nth i (patch_to_global_idx st Ns p) 0%nat = glob st Ns (p, i).
Proof.
  intros Hi. unfold patch_to_global_idx.
  rewrite (nth_indep _ 0%nat (glob st Ns (p, 0%nat))) by (rewrite map_length, seq_length; exact Hi).
  rewrite (map_nth (fun i0 => glob st Ns (p, i0)) (seq 0 (nth p Ns 0%nat)) 0%nat i).
  rewrite seq_nth by exact Hi. reflexivity.
Qed.

Lemma asm_bilinear_l ps Ns As u v :
  let st := fold_left join1 ps init in
  let N := numdofs st Ns in
  sumn (fun g => sumn (fun h => v g * asm_mat st Ns As g h * u h) N) N =
  fold_left (fun acc p => acc +
     sumn (fun i => sumn (fun j => v (glob st Ns (p, i)) * As p i j * u (glob st Ns (p, j))) (nth p Ns 0%nat)) (nth p Ns 0%nat))
     (seq 0 (length Ns)) 0.
Proof.
  intros st N. unfold asm_mat.
  set (T := fun p g h => xaxt (patch_to_global_idx st Ns p) (nth p Ns 0%nat) (As p) g h).
  (* push v g, u h into the fold and exchange the sums with the fold *)
  rewrite (sumn_ext _ (fun g => fold_left (fun acc p => acc + sumn (fun h => v g * T p g h * u h) N) (seq 0 (length Ns)) 0)).
  2:{ intros g Hg. rewrite <- (sum_fold_exchange (fun p h => v g * T p g h * u h)).
      apply sumn_ext. intros h Hh.
      change (v g * fold_left (fun acc p => acc + T p g h) (seq 0 (length Ns)) 0 * u h =
              fold_left (fun acc p => acc + v g * T p g h * u h) (seq 0 (length Ns)) 0).
      generalize (seq 0 (length Ns)). intros l. induction l as [|p l IH]; cbn [fold_left]; [ring|].
      rewrite (fold_add_acc (fun p0 => T p0 g h)). rewrite (fold_add_acc (fun p0 => v g * T p0 g h * u h)).
      rewrite <- IH. ring. }
  rewrite (sum_fold_exchange (fun p g => sumn (fun h => v g * T p g h * u h) N)).
  apply fold_ext_in. intros p Hp. apply in_seq in Hp. unfold T.
  rewrite (xaxt_form _ _ N).
  - apply sumn_ext. intros i Hi. apply sumn_ext. intros j Hj. rewrite !p2g_nth by assumption. reflexivity.
  - intros i Hi. rewrite p2g_nth by exact Hi. apply glob_range_l. split; cbn [fst snd]; [lia|exact Hi].
Qed.

Lemma asm_rhs_l ps Ns bs v :
  let st := fold_left join1 ps init in
  let N := numdofs st Ns in
  sumn (fun g => v g * asm_rhs st Ns bs g) N =
  fold_left (fun acc p => acc + sumn (fun i => v (glob st Ns (p, i)) * bs p i) (nth p Ns 0%nat)) (seq 0 (length Ns)) 0.
Proof.
  intros st N. unfold asm_rhs.
  set (T := fun p g => xb (patch_to_global_idx st Ns p) (nth p Ns 0%nat) (bs p) g).
  rewrite (sumn_ext _ (fun g => fold_left (fun acc p => acc + v g * T p g) (seq 0 (length Ns)) 0)).
  2:{ intros g Hg.
      change (v g * fold_left (fun acc p => acc + T p g) (seq 0 (length Ns)) 0 =
              fold_left (fun acc p => acc + v g * T p g) (seq 0 (length Ns)) 0).
      generalize (seq 0 (length Ns)). intros l. induction l as [|p l IH]; cbn [fold_left]; [ring|].
      rewrite (fold_add_acc (fun p0 => T p0 g)). rewrite (fold_add_acc (fun p0 => v g * T p0 g)).
      rewrite <- IH. ring. }
  rewrite (sum_fold_exchange (fun p g => v g * T p g)).
  apply fold_ext_in. intros p Hp. apply in_seq in Hp. unfold T.
  rewrite (xb_form _ _ N).
  - apply sumn_ext. intros i Hi. rewrite p2g_nth by assumption. reflexivity.
  - intros i Hi. rewrite p2g_nth by exact Hi. apply glob_range_l. split; cbn [fst snd]; [lia|exact Hi].
Qed.

(* entry form: A[g, h] collects exactly the patch entries whose two local dofs are numbered g and h *)
Lemma xaxt_entry idx n A g h :
  xaxt idx n A g h =
  sumn (fun i => sumn (fun j => if (Nat.eqb (nth i idx 0%nat) g && Nat.eqb (nth j idx 0%nat) h)%bool then A i j else 0) n) n.
Proof.
  unfold xaxt, Xent, delta. apply sumn_ext. intros i Hi. apply sumn_ext. intros j Hj.
  destruct (Nat.eqb (nth i idx 0%nat) g), (Nat.eqb (nth j idx 0%nat) h); cbn [andb]; ring.
Qed.
