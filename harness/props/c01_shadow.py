"""C01 -- second, fully independent oracle: the SOURCE semantics of a form.

The form's Python code (over the public vform API) is executed against this module instead of
pyiga.vform: every name of the API is re-implemented here as direct numerical evaluation on
2-jets (value, gradient, Hessian with respect to the PARAMETRIC coordinates) at the Gauss nodes.
Nothing of pyiga's symbolic machinery is used: derivatives of products, quotients, powers and
functions come from the jet arithmetic below (automatic differentiation), physical derivatives
from  d/dx_k = sum_a (J^-1)[a,k] d/dxi_a  applied to jets (J^-1 itself is a jet), measures and
normals from their definitions.  So a wrong differentiation rule, operator expansion or physical
transformation in vform.py -- applied when the expression is BUILT, hence already contained in the
"initial" forest the first oracle interprets -- shows up as a difference between the two oracles.

Orders: a jet of order k supports k further derivatives (inputs, basis functions, geometry: 2);
every derivative lowers the order by one; asking for more raises Unsupported (pyiga rejects
physical derivatives of order > 2 as well).  Arrays broadcast as (P pairs, nodes...).
"""
import numpy as np


class Unsupported(Exception):
    pass


def _z(a):
    return a is None


def _add(a, b):
    if a is None:
        return b
    if b is None:
        return a
    return a + b


def _mul(a, b):
    if a is None or b is None:
        return None
    return a * b


def _neg(a):
    return None if a is None else -a


class Jet:
    """scalar with parametric derivatives; None = identically zero"""
    __slots__ = ('v', 'g', 'h', 'k', 'd')

    def __init__(self, d, v, g=None, h=None, k=2):
        self.d = d
        self.v = v
        self.g = g if g is not None else [None] * d
        self.h = h if h is not None else {}
        self.k = k

    def H(self, a, b):
        return self.h.get((a, b) if a <= b else (b, a))


def const(d, c):
    return Jet(d, np.float64(c), k=2)


def jadd(a, b, sign=1.0):
    d = a.d
    k = min(a.k, b.k)
    bv = b.v if sign > 0 else -b.v
    g = [_add(a.g[i], b.g[i] if sign > 0 else _neg(b.g[i])) for i in range(d)] if k >= 1 else None
    h = None
    if k >= 2:
        h = {}
        for i in range(d):
            for j in range(i, d):
                h[(i, j)] = _add(a.H(i, j), b.H(i, j) if sign > 0 else _neg(b.H(i, j)))
    return Jet(d, a.v + bv, g, h, k)


def jmul(a, b):
    d = a.d
    k = min(a.k, b.k)
    g = h = None
    if k >= 1:
        g = [_add(_mul(a.g[i], b.v), _mul(a.v, b.g[i])) for i in range(d)]
    if k >= 2:
        h = {}
        for i in range(d):
            for j in range(i, d):
                t = _add(_mul(a.H(i, j), b.v), _mul(a.v, b.H(i, j)))
                t = _add(t, _add(_mul(a.g[i], b.g[j]), _mul(a.g[j], b.g[i])))
                h[(i, j)] = t
    return Jet(d, a.v * b.v, g, h, k)


def jfunc(x, f, f1, f2):
    """f(x) with first and second derivative values f1, f2 (arrays)"""
    d = x.d
    k = x.k
    g = h = None
    if k >= 1:
        g = [_mul(f1, x.g[i]) for i in range(d)]
    if k >= 2:
        h = {}
        for i in range(d):
            for j in range(i, d):
                h[(i, j)] = _add(_mul(f2, _mul(x.g[i], x.g[j])), _mul(f1, x.H(i, j)))
    return Jet(d, f, g, h, k)


def jrecip(x):
    with np.errstate(all='ignore'):
        r = 1.0 / x.v
        return jfunc(x, r, -r * r, 2 * r * r * r)


def jdpar(x, a):
    if x.k < 1:
        raise Unsupported('derivative order exceeds the available jets')
    d = x.d
    v = x.g[a]
    g = None
    if x.k >= 2:
        g = [x.H(a, i) for i in range(d)]
    return Jet(d, np.float64(0.0) if v is None else v, g, None, x.k - 1)


FUNCS = {
    'sqrt': lambda v: (np.sqrt(v), 0.5 / np.sqrt(v), -0.25 / (np.sqrt(v) * v)),
    'exp': lambda v: (np.exp(v), np.exp(v), np.exp(v)),
    'log': lambda v: (np.log(v), 1 / v, -1 / (v * v)),
    'sin': lambda v: (np.sin(v), np.cos(v), -np.sin(v)),
    'cos': lambda v: (np.cos(v), -np.sin(v), -np.cos(v)),
    'tan': lambda v: (np.tan(v), 1 + np.tan(v) ** 2, 2 * np.tan(v) * (1 + np.tan(v) ** 2)),
    'abs': lambda v: (np.abs(v), np.sign(v), 0.0 * v),
}


# ---------------------------------------------------------------------------------------------
# expressions of the API: tensors of jets
# ---------------------------------------------------------------------------------------------
class E:
    def __init__(self, vf, shape, data):
        self.vf = vf
        self.shape = tuple(shape)
        self.data = list(data)

    # -- shape predicates
    def is_scalar(self):
        return self.shape == ()

    def is_vector(self):
        return len(self.shape) == 1

    def is_matrix(self):
        return len(self.shape) == 2

    def __len__(self):
        if self.is_scalar():
            raise TypeError('cannot get length of scalar')
        return self.shape[0]

    def __bool__(self):
        return True

    @property
    def j(self):
        assert self.is_scalar()
        return self.data[0]

    def at(self, *I):
        if len(I) == 1:
            return E(self.vf, (), [self.data[I[0]]])
        return E(self.vf, (), [self.data[I[0] * self.shape[1] + I[1]]])

    def __getitem__(self, I):
        if self.is_scalar():
            raise TypeError('cannot index scalar expression')
        if self.is_vector():
            i = _to_indices(I, self.shape[0])
            if np.isscalar(i):
                return self.at(i)
            return as_vector([self.at(ii) for ii in i])
        i = _to_indices(I[0], self.shape[0])
        j = _to_indices(I[1], self.shape[1])
        si, sj = np.isscalar(i), np.isscalar(j)
        if si and sj:
            return self.at(i, j)
        if si:
            return as_vector([self.at(i, jj) for jj in j])
        if sj:
            return as_vector([self.at(ii, j) for ii in i])
        return as_matrix([[self.at(ii, jj) for jj in j] for ii in i])

    # -- arithmetic
    def _bin(self, other, f, swap=False):
        a, b = self, as_expr(other, self.vf)
        if swap:
            a, b = b, a
        if a.shape == b.shape:
            return E(self.vf, a.shape, [f(x, y) for x, y in zip(a.data, b.data)])
        if a.is_scalar():
            return E(self.vf, b.shape, [f(a.data[0], y) for y in b.data])
        if b.is_scalar():
            return E(self.vf, a.shape, [f(x, b.data[0]) for x in a.data])
        raise TypeError('operation not implemented for shapes')

    def __add__(self, o):
        return self._bin(o, lambda x, y: jadd(x, y))

    def __radd__(self, o):
        return self._bin(o, lambda x, y: jadd(x, y), True)

    def __sub__(self, o):
        return self._bin(o, lambda x, y: jadd(x, y, -1.0))

    def __rsub__(self, o):
        return self._bin(o, lambda x, y: jadd(x, y, -1.0), True)

    def __mul__(self, o):
        return self._bin(o, jmul)

    def __rmul__(self, o):
        return self._bin(o, jmul, True)

    def __truediv__(self, o):
        return self._bin(o, lambda x, y: jmul(x, jrecip(y)))

    def __rtruediv__(self, o):
        return self._bin(o, lambda x, y: jmul(x, jrecip(y)), True)

    def __pos__(self):
        return self

    def __neg__(self):
        if not self.is_scalar():
            raise TypeError('can only negate scalars')
        return E(self.vf, (), [jmul(const(self.j.d, -1.0), self.j)])

    def __abs__(self):
        return func('abs', self)

    def __pow__(self, z):
        if not self.is_scalar():
            raise TypeError('cannot take power of non-scalar expression')
        if isinstance(z, E):
            raise TypeError('only integer powers implemented')
        if int(z) != z:
            raise TypeError('only integer powers implemented')
        z = int(z)
        one = E(self.vf, (), [const(self.j.d, 1.0)])
        if z < 0:
            return one / (self ** (-z))
        r = one
        for _ in range(z):
            r = r * self
        return r

    # -- derivatives and friends
    def dx(self, k, times=1, parametric=False):
        return Dx(self, k, times, parametric)

    def dt(self, times=1):
        return Dt(self, times)

    def dot(self, x):
        return dot(self, x)

    __matmul__ = dot

    @property
    def T(self):
        if not self.is_matrix():
            raise TypeError('can only transpose matrices')
        return as_matrix([[self.at(j, i) for j in range(self.shape[0])] for i in range(self.shape[1])])

    def ravel(self):
        return as_vector([self.at(i, j) for i in range(self.shape[0]) for j in range(self.shape[1])])


def _to_indices(x, n):
    if isinstance(x, slice):
        return tuple(range(*x.indices(n)))
    if np.isscalar(x):
        if x < 0:
            x += n
        if 0 <= x < n:
            return x
        raise IndexError
    return tuple(x)


_CUR = [None]


def as_expr(x, vf=None):
    if isinstance(x, E):
        return x
    if isinstance(x, _Measure):
        return x._val()
    vf = vf or _CUR[0]
    if isinstance(x, (int, float, np.floating, np.integer)):
        return E(vf, (), [const(vf.dim, float(x))])
    if isinstance(x, (tuple, list)):
        return as_vector(x)
    raise TypeError('cannot coerce to expression')


def as_vector(x):
    es = [as_expr(e) for e in x]
    if not all(e.is_scalar() for e in es):
        raise ValueError('all vector entries should be scalars')
    return E(_CUR[0], (len(es),), [e.j for e in es])


def as_matrix(x):
    if isinstance(x, E):
        return x
    rows = [[as_expr(e) for e in r] for r in x]
    return E(_CUR[0], (len(rows), len(rows[0]) if rows else 0), [e.j for r in rows for e in r])


def func(name, x):
    x = as_expr(x)
    if not x.is_scalar():
        raise TypeError('can only compute %s of scalars' % name)
    with np.errstate(all='ignore'):
        f, f1, f2 = FUNCS[name](x.j.v)
    return E(x.vf, (), [jfunc(x.j, f, f1, f2)])


def sqrt(x):
    return func('sqrt', x)


def exp(x):
    return func('exp', x)


def log(x):
    return func('log', x)


def sin(x):
    return func('sin', x)


def cos(x):
    return func('cos', x)


def tan(x):
    return func('tan', x)


def Dx(expr, k, times=1, parametric=False):
    expr = as_expr(expr)
    vf = expr.vf
    if expr.is_matrix():
        raise NotImplementedError('derivative of matrix not implemented')
    out = []
    for jt in expr.data:
        for _ in range(times):
            jt = vf.dpar(jt, k) if parametric else vf.dphys(jt, k)
        out.append(jt)
    return E(vf, expr.shape, out)


def Dt(expr, times=1):
    expr = as_expr(expr)
    if not expr.vf.spacetime:
        raise TypeError('can only compute time derivatives in spacetime assemblers')
    return Dx(expr, expr.vf.timedim, times)


def grad(expr, dims=None, parametric=False):
    expr = as_expr(expr)
    if expr.is_scalar():
        if dims is None:
            dims = expr.vf.spacedims
        return as_vector([Dx(expr, k, parametric=parametric) for k in dims])
    if expr.is_vector():
        dd = list(dims if dims is not None else expr.vf.spacedims)
        return as_matrix([[Dx(expr[i], k, parametric=parametric) for k in dd] for i in range(expr.shape[0])])
    raise TypeError('cannot compute gradient')


def hess(expr, parametric=False):
    expr = as_expr(expr)
    if not expr.is_scalar():
        raise TypeError('cannot compute Hessian')
    return grad(grad(expr, parametric=parametric), parametric=parametric)


def tr(A):
    if not A.is_matrix() or A.shape[0] != A.shape[1]:
        raise ValueError('can only compute trace of square matrices')
    r = A[0, 0]
    for i in range(1, A.shape[0]):
        r = r + A[i, i]
    return r


def div(expr, parametric=False):
    expr = as_expr(expr)
    if not expr.is_vector():
        raise TypeError('can only compute divergence of vector expression')
    return tr(grad(expr, parametric=parametric))


def curl(expr):
    expr = as_expr(expr)
    if not (expr.is_vector() and len(expr) == 3):
        raise TypeError('can only compute curl of 3D vector expression')
    return as_vector((expr[2].dx(1) - expr[1].dx(2), expr[0].dx(2) - expr[2].dx(0), expr[1].dx(0) - expr[0].dx(1)))


def inner(x, y):
    x, y = as_expr(x), as_expr(y)
    if not (x.is_vector() or x.is_matrix()):
        raise TypeError('inner() requires vector or matrix expressions')
    if x.shape != y.shape:
        raise ValueError('incompatible shapes in inner product')
    r = None
    for a, b in zip(x.data, y.data):
        t = jmul(a, b)
        r = t if r is None else jadd(r, t)
    return E(x.vf, (), [r])


def dot(a, b):
    a, b = as_expr(a), as_expr(b)
    if a.is_vector() and b.is_vector():
        return inner(a, b)
    if a.is_matrix() and b.is_vector():
        if a.shape[1] != b.shape[0]:
            raise ValueError('incompatible shapes')
        return as_vector([inner(a[i, :], b) for i in range(a.shape[0])])
    if a.is_matrix() and b.is_matrix():
        if a.shape[1] != b.shape[0]:
            raise ValueError('incompatible shapes')
        return as_matrix([[inner(a[i, :], b[:, j]) for j in range(b.shape[1])] for i in range(a.shape[0])])
    raise TypeError('invalid types in dot')


def det(A):
    if not A.is_matrix() or A.shape[0] != A.shape[1]:
        raise ValueError('can only compute determinant of square matrices')
    n = A.shape[0]
    if n == 0:
        return as_expr(1.0)
    if n == 1:
        return A[0, 0]
    if n == 2:
        return A[0, 0] * A[1, 1] - A[0, 1] * A[1, 0]
    # rule of Sarrus / permutation expansion for n = 3, Laplace beyond
    if n == 3:
        return (A[0, 0] * A[1, 1] * A[2, 2] + A[0, 1] * A[1, 2] * A[2, 0] + A[0, 2] * A[1, 0] * A[2, 1]
                - A[0, 2] * A[1, 1] * A[2, 0] - A[0, 1] * A[1, 0] * A[2, 2] - A[0, 0] * A[1, 2] * A[2, 1])
    r = None
    for j in range(n):
        B = as_matrix([[A[ii, jj] for jj in range(n) if jj != j] for ii in range(1, n)])
        t = A[0, j] * det(B) * (-1.0) ** j
        r = t if r is None else r + t
    return r


def inv(A):
    if not A.is_matrix() or A.shape[0] != A.shape[1]:
        raise ValueError('can only compute inverse of square matrices')
    n = A.shape[0]
    dt_ = det(A)
    if n == 1:
        return as_matrix([[1.0 / dt_]])
    rows = []
    for i in range(n):
        row = []
        for j in range(n):
            # (A^-1)[i, j] = cofactor(j, i) / det
            M = as_matrix([[A[a, b] for b in range(n) if b != i] for a in range(n) if a != j])
            row.append(det(M) * ((-1.0) ** (i + j)) / dt_)
        rows.append(row)
    return as_matrix(rows)


def cross(x, y):
    x, y = as_expr(x), as_expr(y)
    if x.shape != (3,) or y.shape != (3,):
        raise AssertionError('cross() requires 3D vectors')
    return as_vector((x[1] * y[2] - x[2] * y[1], x[2] * y[0] - x[0] * y[2], x[0] * y[1] - x[1] * y[0]))


def outer(x, y):
    x, y = as_expr(x), as_expr(y)
    if not (x.is_vector() and y.is_vector()):
        raise TypeError('outer() requires two vectors')
    return as_matrix([[x[i] * y[j] for j in range(len(y))] for i in range(len(x))])


def norm(x):
    x = as_expr(x)
    if not x.is_vector():
        raise TypeError('expression is not a vector')
    return sqrt(inner(x, x))


class _Measure:
    def __init__(self, kind):
        self.kind = kind

    def _val(self):
        vf = _CUR[0]
        return vf.W if self.kind == 'dx' else vf.SW

    def __mul__(self, o):
        return self._val() * o

    __rmul__ = __mul__

    def __radd__(self, o):
        return o + self._val()

    __add__ = __radd__

    def __rtruediv__(self, o):
        return o / self._val()


dx = _Measure('dx')
ds = _Measure('ds')


# ---------------------------------------------------------------------------------------------
# the form
# ---------------------------------------------------------------------------------------------
class VForm:
    """`data`: harness/props/c01_oracle.Data; `bf`: callable (name, D) -> parametric derivative array (P, N..);
    `active`: dict bf name -> active component (vector-valued basis functions) or None"""
    ENV = [None]

    def __init__(self, dim, geo_dim=None, boundary=False, arity=2, spacetime=False):
        env = VForm.ENV[0]
        self.data, self.bf, self.active = env['data'], env['bf'], env['active']
        self.dim = dim
        self.geo_dim = dim if geo_dim is None else geo_dim
        self.arity = arity
        self.is_boundary = bool(boundary)
        self.spacetime = bool(spacetime)
        self.spacedims = range(dim - 1) if spacetime else range(dim)
        self.timedim = dim - 1
        self.total = None
        self.vars = {}
        _CUR[0] = self
        D = self.data
        d, g = dim, self.geo_dim
        nsym = lambda a, b: _sympos(d, a, b)
        X = np.asarray(D.X, dtype=np.float64)[None]
        J = np.asarray(D.J, dtype=np.float64)[None]
        HG = None if D.HG is None else np.asarray(D.HG, dtype=np.float64)[None]
        comps = []
        for m in range(g):
            gl = [J[..., m, k] for k in range(d)]
            h = None
            k = 1
            if HG is not None:
                h = {(a, b): HG[..., m, nsym(a, b)] for a in range(d) for b in range(a, d)}
                k = 2
            comps.append(Jet(d, X[..., m], gl, h, k))
        self.Geo = E(self, (g,), comps)
        self._J = J
        self._jinv = None

    # -- geometry ---------------------------------------------------------------------------------
    def jinv(self):
        """J^-1 as jets of order 1: d(J^-1) = -J^-1 dJ J^-1"""
        if self._jinv is None:
            d = self.dim
            if self.geo_dim != d:
                raise Unsupported('physical derivative without square Jacobian')
            Ji = np.linalg.inv(self._J)
            HG = self.data.HG
            out = [[None] * d for _ in range(d)]
            for a in range(d):
                for k in range(d):
                    gl = None
                    if HG is not None:
                        gl = []
                        for c in range(d):
                            dJ = np.stack([np.stack([np.asarray(HG, dtype=np.float64)[None][..., m, _sympos(d, kk, c)] for kk in range(d)], axis=-1)
                                           for m in range(d)], axis=-2)            # dJ[m, kk] = d2 G_m / dxi_kk dxi_c
                            M = -np.matmul(np.matmul(Ji, dJ), Ji)
                            gl.append(M[..., a, k])
                    out[a][k] = Jet(d, Ji[..., a, k], gl, None, 1 if HG is not None else 0)
            self._jinv = out
        return self._jinv

    def dpar(self, jt, k):
        return jdpar(jt, k)

    def dphys(self, jt, k):
        Ji = self.jinv()
        r = None
        for a in range(self.dim):
            t = jmul(Ji[a][k], jdpar(jt, a))
            r = t if r is None else jadd(r, t)
        return r

    @property
    def Jac(self):
        dims = range(self.dim)
        return grad(self.Geo, dims=dims, parametric=True)

    @property
    def JacInv(self):
        Ji = self.jinv()
        return E(self, (self.dim, self.dim), [Ji[a][k] for a in range(self.dim) for k in range(self.dim)])

    @property
    def GaussWeight(self):
        D = self.data
        w = np.ones((1,) + tuple(D.N))
        for a in range(self.dim):
            shp = [1] * (self.dim + 1)
            shp[a + 1] = D.N[a]
            w = w * np.asarray(D.gw[a], dtype=np.float64).reshape(shp)
        return E(self, (), [Jet(self.dim, w, k=0)])

    def _tangent(self):
        if self.is_boundary:
            c = self.dim - 1 - self.data.boundary[0]
            return self._J[..., [k for k in range(self.dim) if k != c]]
        if self.geo_dim == self.dim + 1:
            return self._J
        raise ValueError('surface measure not defined for volume integral')

    @property
    def W(self):
        if self.geo_dim != self.dim or self.is_boundary:
            raise ValueError('volume measure not defined for surface integral')
        return self.GaussWeight * E(self, (), [Jet(self.dim, np.abs(np.linalg.det(self._J)), k=0)])

    @property
    def SW(self):
        B = self._tangent()
        gram = np.matmul(np.swapaxes(B, -1, -2), B)
        area = np.sqrt(np.linalg.det(gram)) if gram.shape[-1] > 0 else np.ones(gram.shape[:-2])
        return self.GaussWeight * E(self, (), [Jet(self.dim, area, k=0)])

    @property
    def normal(self):
        if self.is_boundary:
            if self.geo_dim != self.dim:
                raise Unsupported('normal on the boundary of a surface')
            c = self.dim - 1 - self.data.boundary[0]
            Ji = np.linalg.inv(self._J)
            sgn = 1.0 if self.data.boundary[1] == 1 else -1.0
            n = sgn * Ji[..., c, :] * np.sign(np.linalg.det(self._J))[..., None]     # library convention: det J > 0
        else:
            B = self._tangent()
            if B.shape[-2:] == (2, 1):
                n = np.stack([-B[..., 1, 0], B[..., 0, 0]], axis=-1)
            elif B.shape[-2:] == (3, 2):
                n = np.cross(B[..., :, 0], B[..., :, 1])
            else:
                raise Unsupported('normal')
        n = n / np.sqrt((n * n).sum(axis=-1))[..., None]
        return E(self, (n.shape[-1],), [Jet(self.dim, n[..., i], k=0) for i in range(n.shape[-1])])

    # -- declarations ------------------------------------------------------------------------------
    def basisfuns(self, components=(None, None), spaces=(0, 0)):
        d = self.dim
        out = []
        for name, nc in zip(('u', 'v')[:self.arity], components[:self.arity]):
            g = [self.bf(name, tuple(1 if q == i else 0 for q in range(d))) for i in range(d)]
            h = {}
            for i in range(d):
                for j in range(i, d):
                    h[(i, j)] = self.bf(name, tuple((1 if q == i else 0) + (1 if q == j else 0) for q in range(d)))
            jt = Jet(d, self.bf(name, (0,) * d), g, h, 2)
            if nc is None:
                out.append(E(self, (), [jt]))
            else:
                act = self.active.get(name)
                zero = const(d, 0.0)
                vec = E(self, (nc,), [jt if c == act else zero for c in range(nc)])
                out.append(vec[0] if nc == 1 else vec)
        return out[0] if self.arity == 1 else tuple(out)

    def input(self, name, shape=(), physical=False, updatable=False):
        f = self.data.fields[name]
        d = self.dim
        n = int(np.prod(shape or (1,)))
        val = np.asarray(f['val'], dtype=np.float64)[None].reshape((1,) + tuple(self.data.N) + (n,))
        jac = f.get('jac')
        hs = f.get('hess')
        if jac is not None:
            jac = np.asarray(jac, dtype=np.float64)[None].reshape((1,) + tuple(self.data.N) + (n, d))
        if hs is not None:
            hs = np.asarray(hs, dtype=np.float64)[None].reshape((1,) + tuple(self.data.N) + (n, d * (d + 1) // 2))
        data = []
        for c in range(n):
            if physical or jac is None:
                data.append(Jet(d, val[..., c], k=0))
            else:
                g = [jac[..., c, i] for i in range(d)]
                if hs is not None:
                    h = {(a, b): hs[..., c, _sympos(d, a, b)] for a in range(d) for b in range(a, d)}
                    data.append(Jet(d, val[..., c], g, h, 2))
                else:
                    data.append(Jet(d, val[..., c], g, None, 1))
        return E(self, tuple(shape), data)

    def parameter(self, name, shape=()):
        v = np.asarray(self.data.params[name], dtype=np.float64).reshape(-1)
        return E(self, tuple(shape), [const(self.dim, x) for x in v])

    def let(self, name, expr, symmetric=False):
        self.vars[name] = as_expr(expr)
        return self.vars[name]

    def add(self, expr):
        expr = as_expr(expr)
        if not expr.is_scalar():
            raise TypeError('all expressions added to a VForm must be scalar')
        v = expr.j.v
        self.total = v if self.total is None else self.total + v


def _sympos(n, i, j):
    if i > j:
        i, j = j, i
    k = 0
    for a in range(n):
        for b in range(a, n):
            if (a, b) == (i, j):
                return k
            k += 1
    raise IndexError


# the predefined forms of pyiga.vform, stated over this API (their definitions, vform.py:1743-1788)
def mass_vf(dim):
    V = VForm(dim)
    u, v = V.basisfuns()
    V.add(u * v * dx)
    return V


def stiffness_vf(dim):
    V = VForm(dim)
    u, v = V.basisfuns()
    V.add(inner(grad(u), grad(v)) * dx)
    return V


def heat_st_vf(dim):
    V = VForm(dim, spacetime=True)
    u, v = V.basisfuns()
    V.add((inner(grad(u), grad(v)) + u.dt() * v) * dx)
    return V


def wave_st_vf(dim):
    V = VForm(dim, spacetime=True)
    u, v = V.basisfuns()
    V.add((u.dt(2) * v.dt() + inner(grad(u), grad(v).dt())) * dx)
    return V


def divdiv_vf(dim):
    V = VForm(dim)
    u, v = V.basisfuns(components=(dim, dim))
    V.add(div(u) * div(v) * dx)
    return V


def L2functional_vf(dim, physical=False, updatable=False):
    V = VForm(dim, arity=1)
    u = V.basisfuns()
    f = V.input('f', shape=(), physical=physical, updatable=updatable)
    V.add(f * u * dx)
    return V


API = ['VForm', 'Dx', 'Dt', 'grad', 'hess', 'div', 'curl', 'as_expr', 'as_vector', 'as_matrix', 'inner', 'dot', 'tr', 'det',
       'inv', 'cross', 'outer', 'norm', 'sqrt', 'exp', 'log', 'sin', 'cos', 'tan', 'dx', 'ds', 'mass_vf', 'stiffness_vf',
       'heat_st_vf', 'wave_st_vf', 'divdiv_vf', 'L2functional_vf']


def evaluate(code, header, data, bf):
    """-> list of per-component integrand value arrays (broadcastable to (P, N..)), in the component order of the
    compiled assembler: arity 2: row i over the components of v, column j over those of u; arity 1: components of u"""
    g = globals()
    comps = []
    bfs = header['bfuns']
    ncs = [b['numcomp'] for b in bfs]
    if header['vec']:
        if header['arity'] == 2:
            combos = [{bfs[1]['name']: i, bfs[0]['name']: j} for i in range(ncs[1] or 1) for j in range(ncs[0] or 1)]
        else:
            combos = [{bfs[0]['name']: i} for i in range(ncs[0] or 1)]
    else:
        combos = [{}]
    for act in combos:
        VForm.ENV[0] = {'data': data, 'bf': bf, 'active': act}
        ns = {k: g[k] for k in API}
        with np.errstate(all='ignore'):
            exec(code, ns)
        V = ns['V']
        if V.total is None:
            raise Unsupported('no integrand')
        comps.append(V.total)
    return comps
