(* C14 -- the numbering theorems for histories with interleaved finalize() calls: finalize
   preserves both invariants of Proofs.v, so everything proved for join-only histories holds after
   any number of finalize calls at any positions. *)
From Coq Require Import List Arith Bool Lia.
From Verif.lib Require Import Slice.
From Verif.C14 Require Import Model Spec Proofs ProofsBd ModelFin.
Import ListNotations.

Lemma lookup_map_snd (h : nat -> nat) m x :
  lookup (map (fun e => (fst e, h (snd e))) m) x =
  match lookup m x with Some s => Some (h s) | None => None end.
Proof.
  induction m as [|[k s] m IH]; simpl; [reflexivity|].
  destruct (dof_eqb x k); [reflexivity|exact IH].
Qed.

Lemma cls_compact st x y : cls (compact st) x = cls (compact st) y <-> cls st x = cls st y.
Proof.
  unfold cls, compact. cbn [sm]. rewrite !lookup_map_snd.
  destruct (lookup (sm st) x) as [s|] eqn:Lx; destruct (lookup (sm st) y) as [t|] eqn:Ly;
    try (split; intros H; discriminate H); [|tauto].
  split; intros H; [|congruence]. f_equal. injection H as H.
  apply (cnt_inj (used (sm st))); [eapply lookup_used; eassumption|eapply lookup_used; eassumption|exact H].
Qed.

Lemma Inv_compact ps st : Inv ps st -> Inv ps (compact st).
Proof.
  intros [H1 H2]. split.
  - intros x y. rewrite cls_compact. apply H1.
  - intros x s'. unfold compact. cbn [sm nsd]. rewrite lookup_map_snd.
    destruct (lookup (sm st) x) as [s|] eqn:Lx; [|discriminate]. intros E. injection E as <-.
    unfold rank. apply cnt_strict; [eapply lookup_used; exact Lx|eapply H2; exact Lx].
Qed.

Lemma Inv_finalize ps st : Inv ps st -> Inv ps (finalize_st st).
Proof. intros H. unfold finalize_st. destruct (forallb _ _); [exact H|apply Inv_compact; exact H]. Qed.

Lemma Inv2_compact ps st : Inv2 ps st -> Inv2 ps (compact st).
Proof.
  intros [H1 H2]. split.
  - unfold compact. cbn [sm]. rewrite map_map. cbn [fst]. exact H1.
  - intros x s' Hin. unfold compact in Hin. cbn [sm] in Hin. apply in_map_iff in Hin.
    destruct Hin as [[k s] [E Hin]]. cbn [fst snd] in E. injection E as -> _. eapply H2. exact Hin.
Qed.

Lemma Inv2_finalize ps st : Inv2 ps st -> Inv2 ps (finalize_st st).
Proof. intros H. unfold finalize_st. destruct (forallb _ _); [exact H|apply Inv2_compact; exact H]. Qed.

Lemma pairs_of_app a b : pairs_of (a ++ b) = pairs_of a ++ pairs_of b.
Proof. unfold pairs_of. apply flat_map_app. Qed.

Lemma Inv_run steps : forall ps0 st, Inv ps0 st -> Inv (ps0 ++ pairs_of steps) (fold_left pstep_run steps st).
Proof.
  induction steps as [|s steps IH]; intros ps0 st H; cbn [fold_left].
  - cbn. rewrite app_nil_r. exact H.
  - destruct s as [[a b]|].
    + change (pairs_of (PJoin (a, b) :: steps)) with ((a, b) :: pairs_of steps).
      replace (ps0 ++ (a, b) :: pairs_of steps) with ((ps0 ++ [(a, b)]) ++ pairs_of steps)
        by (rewrite <- app_assoc; reflexivity).
      apply IH. cbn [pstep_run]. apply Inv_step. exact H.
    + change (pairs_of (PFin :: steps)) with (pairs_of steps). apply IH. cbn [pstep_run].
      apply Inv_finalize. exact H.
Qed.

Lemma Inv2_run steps : forall ps0 st, distinct_pairs (pairs_of steps) -> Inv2 ps0 st ->
  Inv2 (ps0 ++ pairs_of steps) (fold_left pstep_run steps st).
Proof.
  induction steps as [|s steps IH]; intros ps0 st Hd H; cbn [fold_left].
  - cbn. rewrite app_nil_r. exact H.
  - destruct s as [[a b]|].
    + change (pairs_of (PJoin (a, b) :: steps)) with ((a, b) :: pairs_of steps) in *.
      replace (ps0 ++ (a, b) :: pairs_of steps) with ((ps0 ++ [(a, b)]) ++ pairs_of steps)
        by (rewrite <- app_assoc; reflexivity).
      apply IH.
      * intros e He. apply Hd. right. exact He.
      * cbn [pstep_run]. apply Inv2_step; [apply (Hd (a, b)); left; reflexivity|exact H].
    + change (pairs_of (PFin :: steps)) with (pairs_of steps) in *. apply IH; [exact Hd|]. cbn [pstep_run].
      apply Inv2_finalize. exact H.
Qed.

Lemma reachable_Inv_p steps : Inv (pairs_of steps) (run_p steps).
Proof. apply (Inv_run steps [] init Inv_init). Qed.

Lemma reachable_Inv2_p steps : distinct_pairs (pairs_of steps) -> Inv2 (pairs_of steps) (run_p steps).
Proof.
  intros Hd. apply (Inv2_run steps [] init Hd). split; simpl; [constructor|intros x s []].
Qed.

(* gap-free numbering from the two invariants alone (the argument of Proofs.glob_surjective) *)
Lemma glob_surjective_inv ps st Ns g :
  Inv2 ps st -> (forall x, mentions ps x -> valid Ns x) ->
  g < numdofs st Ns -> exists x, valid Ns x /\ glob st Ns x = g.
Proof.
  intros [Hn Hm] Hv Hg.
  unfold numdofs in Hg.
  destruct (Nat.lt_ge_cases g (Mtot (sm st) Ns)) as [L|L].
  - unfold Mtot in L. destruct (M_ofs_locate _ _ _ _ L) as [p [Hp [B1 B2]]].
    simpl in B2. unfold Mloc, pos in B2.
    destruct (cnt_surj (fun k => negb (shared_in (sm st) p k)) (nth p Ns 0) (g - M_ofs (sm st) Ns p))
      as [i [Hi [Hf Hc]]]; [lia|].
    exists (p, i). split; [split; simpl; assumption|].
    unfold glob; simpl. apply negb_true_iff in Hf. apply shared_in_lookup in Hf. rewrite Hf.
    unfold pos. lia.
  - destruct (cnt_surj (used (sm st)) (nsd st) (g - Mtot (sm st) Ns)) as [s [Hs [Hu Hc]]];
      [unfold rank in Hg; lia|].
    destruct (used_lookup _ _ Hu) as [x Hx].
    exists x. split; [apply Hv; eapply Hm; exact Hx|].
    unfold glob. rewrite (in_lookup _ _ _ Hn Hx). unfold rank. lia.
Qed.

(* ---- statements exported to Props2.v: dof-pair level ---- *)
Lemma glue_is_closure_fin_l steps Ns x y :
  valid Ns x -> valid Ns y ->
  (glob (run_p steps) Ns x = glob (run_p steps) Ns y <-> conn (pairs_of steps) x y).
Proof.
  intros Hx Hy. rewrite (glob_eq_iff_cls _ Ns x y Hx Hy). apply (proj1 (reachable_Inv_p steps)).
Qed.

Lemma glob_range_fin_l steps Ns x : valid Ns x -> glob (run_p steps) Ns x < numdofs (run_p steps) Ns.
Proof. intros Hx. apply glob_lt_numdofs; [exact Hx|]. apply (proj2 (reachable_Inv_p steps)). Qed.

Lemma glob_gapfree_fin_l steps Ns g :
  distinct_pairs (pairs_of steps) -> (forall x, mentions (pairs_of steps) x -> valid Ns x) ->
  g < numdofs (run_p steps) Ns -> exists x, valid Ns x /\ glob (run_p steps) Ns x = g.
Proof.
  intros Hd Hv Hg. eapply glob_surjective_inv; [apply reachable_Inv2_p; exact Hd|exact Hv|exact Hg].
Qed.

(* where the finalize calls stand in a history is irrelevant for the partition *)
Lemma finalize_positions_irrelevant_l steps steps' Ns x y :
  valid Ns x -> valid Ns y -> pairs_of steps = pairs_of steps' ->
  (glob (run_p steps) Ns x = glob (run_p steps) Ns y <-> glob (run_p steps') Ns x = glob (run_p steps') Ns y).
Proof. intros Hx Hy E. rewrite !glue_is_closure_fin_l by assumption. rewrite E. tauto. Qed.

Lemma p2g_left_inverse_fin_l steps Ns p :
  p < length Ns ->
  let st := run_p steps in
  ((forall i j, i < nth p Ns 0 -> j < nth p Ns 0 ->
      (nth i (patch_to_global_idx st Ns p) 0 = nth j (patch_to_global_idx st Ns p) 0 <-> i = j))
   <->
   (forall i j, i < nth p Ns 0 -> j < nth p Ns 0 -> conn (pairs_of steps) (p, i) (p, j) -> i = j)).
Proof.
  intros Hp st. split.
  - intros H i j Hi Hj C. apply (H i j Hi Hj). rewrite !p2g_idx_nth by assumption.
    apply glue_is_closure_fin_l; [split; assumption|split; assumption|exact C].
  - intros H i j Hi Hj. rewrite !p2g_idx_nth by assumption. split; [|intros ->; reflexivity].
    intros E. apply (H i j Hi Hj). apply (glue_is_closure_fin_l steps Ns (p, i) (p, j)); [split; assumption|split; assumption|exact E].
Qed.

(* ---- join_boundaries level ---- *)
Lemma run_h_as_p shapes steps : run_h shapes steps = run_p (flat_map (expand shapes) steps).
Proof.
  unfold run_h, run_p. generalize init. induction steps as [|s steps IH]; intros st; cbn [flat_map fold_left]; [reflexivity|].
  rewrite fold_left_app. rewrite <- IH. f_equal.
  destruct s as [j|]; cbn [expand hstep_run fold_left]; [|reflexivity].
  unfold join_boundaries. generalize (bjoin_pairs shapes j). intros l. revert st.
  induction l as [|e l IHl]; intros st; cbn [map fold_left]; [reflexivity|]. apply IHl.
Qed.

Lemma pairs_of_map_PJoin l : pairs_of (map PJoin l) = l.
Proof.
  induction l as [|e l IH]; [reflexivity|]. cbn [map].
  change (pairs_of (PJoin e :: map PJoin l)) with (e :: pairs_of (map PJoin l)). rewrite IH. reflexivity.
Qed.

Lemma pairs_of_expand shapes steps : pairs_of (flat_map (expand shapes) steps) = all_pairs shapes (joins_of steps).
Proof.
  induction steps as [|s steps IH]; [reflexivity|]. cbn [flat_map]. rewrite pairs_of_app, IH.
  destruct s as [j|]; cbn [expand].
  - rewrite pairs_of_map_PJoin. change (joins_of (HJoin j :: steps)) with (j :: joins_of steps).
    unfold all_pairs. cbn [flat_map]. reflexivity.
  - change (joins_of (HFin :: steps)) with (joins_of steps). reflexivity.
Qed.

Lemma glue_is_closure_fin_bd_l shapes steps Ns x y :
  valid Ns x -> valid Ns y ->
  (glob (run_h shapes steps) Ns x = glob (run_h shapes steps) Ns y <-> conn (all_pairs shapes (joins_of steps)) x y).
Proof.
  intros Hx Hy. rewrite run_h_as_p. rewrite glue_is_closure_fin_l by assumption. rewrite pairs_of_expand. tauto.
Qed.

Lemma Forall_joins_of (Pj : bjoin -> Prop) steps :
  (forall j, In (HJoin j) steps -> Pj j) -> Forall Pj (joins_of steps).
Proof.
  intros H. apply Forall_forall. intros j Hj. unfold joins_of in Hj. apply in_flat_map in Hj.
  destruct Hj as [s [Hs Hin]]. destruct s as [j'|]; [|destruct Hin]. destruct Hin as [<-|[]]. apply H. exact Hs.
Qed.

Lemma glob_numbering_fin_bd_l shapes steps :
  (forall j, In (HJoin j) steps -> bjoin_ok shapes j) ->
  let Ns := map prod_list shapes in
  let st := run_h shapes steps in
  (forall x, valid Ns x -> glob st Ns x < numdofs st Ns) /\
  (forall g, g < numdofs st Ns -> exists x, valid Ns x /\ glob st Ns x = g).
Proof.
  intros Hok Ns st. pose proof (Forall_joins_of _ _ Hok) as F. split.
  - intros x Hx. unfold st. rewrite run_h_as_p. apply glob_range_fin_l. exact Hx.
  - intros g Hg. unfold st in *. rewrite run_h_as_p in *. apply glob_gapfree_fin_l; [| |exact Hg]; rewrite pairs_of_expand.
    + apply all_pairs_distinct. exact F.
    + intros x Hx. eapply all_pairs_valid; eassumption.
Qed.
