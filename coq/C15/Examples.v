(* C15 -- non-vacuity and concrete instances. *)
From Coq Require Import ZArith List Bool Lia.
From Verif.C15 Require Import Model Spec Proofs.
Import ListNotations.
Open Scope Z_scope.

(* the input of DESIGN.md section 5: four levels, level 1 has its first non-zero in column 1 *)
Definition ex_bs : list (Z * Z) := [(2, 2); (2, 2); (1, 1); (1, 1)].
Definition ex_bidx : list pat := [[(0, 0); (1, 1)]; [(0, 1); (1, 0)]; [(0, 0)]; [(0, 0)]].

Example ex_nd_repaired : ml_nonzero_nd ex_bidx ex_bs false = [(0, 1); (1, 0); (2, 3); (3, 2)].
Proof. vm_compute. reflexivity. Qed.

Example ex_nd_is_kron : ml_nonzero_nd ex_bidx ex_bs false = kron_pattern ex_bs ex_bidx.
Proof. vm_compute. reflexivity. Qed.

(* the routine as it stood before fixes/C15-nonzero-nd-block-j-init.patch (block_j
   initialised from level 0) reports (0,0) instead of (0,1): it violates the property *)
Example ex_nd_level0_init_refuted :
  ml_nonzero_nd_level0 ex_bidx ex_bs false <> kron_pattern ex_bs ex_bidx.
Proof. vm_compute. discriminate. Qed.

(* rectangular blocks (2x3) (x) (2x2): 4 rows, 6 columns *)
Definition ex_rbs : list (Z * Z) := [(2, 3); (2, 2)].
Definition ex_rbidx : list pat := [compute_dense_ij 2 3; compute_dense_ij 2 2].
Definition ex_rdata : list Z := map Z.of_nat (seq 0 24).

Example ex_matvec_rect : matvec ex_rbs ex_rbidx ex_rdata [1; 1; 1; 1; 1; 1] = Some [27; 39; 99; 111].
Proof. vm_compute. reflexivity. Qed.

(* allocation by len(x) (before fixes/C15-matvec-rectangular.patch): wrong length *)
Example ex_matvec_lenx_wrong_length :
  matvec_lenx ex_rbs ex_rbidx ex_rdata [1; 1; 1; 1; 1; 1] = Some [27; 39; 99; 111; 0; 0].
Proof. vm_compute. reflexivity. Qed.
(* ... and an out-of-range write when there are more rows than columns *)
Example ex_matvec_lenx_overflow :
  matvec_lenx (transpose_bs ex_rbs) (transpose_bidx ex_rbidx) ex_rdata [1; 1; 1; 1] = None.
Proof. vm_compute. reflexivity. Qed.

(* hypotheses of the bijection theorems are satisfiable *)
Example ex_dims_pos : dims_pos [3; 4; 5].
Proof. repeat constructor. Qed.
Example ex_valid_mi : valid_mi [2; 0; 4] [3; 4; 5].
Proof. repeat constructor; lia. Qed.
Example ex_to_seq : to_seq [2; 0; 4] [3; 4; 5] = 44 /\ from_seq 44 [3; 4; 5] = [2; 0; 4].
Proof. vm_compute. auto. Qed.
