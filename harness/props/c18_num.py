"""C18 -- index expressions, TensorGenerator, CanonicalOperator, Cython updates and the
floating-point part (norms, orthogonalisation, HOSVD, compression, cross approximation, greedy
approximations).  All bounds used for floats are stated and derived here."""
import math

import numpy as np

from harness.core import cbool, clist, cnat, cz, log, parse_coq_list_of_nat
from harness.props import c18_coq as CQ
from harness.props import c18_gen as G

DRIVER = 'harness/impl/c18_driver.py'
EPS = 2.0 ** -52


def arr(d):
    return np.array(d['d'], dtype=float).reshape(d['sh'])


def chunked(xs, n):
    return [xs[i:i + n] for i in range(0, len(xs), n)]


def safe_run(ctx, key, cases, timeout=1200):
    """Run one family of cases; if the interpreter dies (segfault in an extension, time-out),
    bisect to a single crashing case, report it with that input and return None."""
    from harness.core import DriverError
    import subprocess
    try:
        return ctx.impl.run(DRIVER, {key: cases}, timeout=timeout)[key]
    except (DriverError, subprocess.TimeoutExpired) as e:
        msg = str(e)[-300:]
    lo = cases
    while len(lo) > 1:
        half = lo[:len(lo) // 2]
        try:
            ctx.impl.run(DRIVER, {key: half}, timeout=timeout)
            lo = lo[len(lo) // 2:]
        except (DriverError, subprocess.TimeoutExpired):
            lo = half
    ctx.report('impl:%s:crash' % key, 'the interpreter died / did not finish on this input: %s' % msg,
               {'mode': key, 'case': lo[0], 'how': 'harness/impl/c18_driver.py with payload {%r: [case]}' % key})
    return None


def coq_run(ctx, prefix, check, items, what, per=200):
    """items: list of (coq text, replay, signature, bad).  The case files are compiled later, all
    families in one parallel batch (flush_coq); disagreements are reported then."""
    chunks = chunked(items, per)
    files = [('%s_%03d' % (prefix, n), CQ.generic_file(check, [x[0] for x in ch])) for n, ch in enumerate(chunks)]

    def handler(dis):
        for (txt, replay, sig, bad) in dis[:4]:
            if bad:
                continue     # already reported with this input as a failure of the property itself
            ctx.broken.append('correspondence C18 model<->impl differs on %s %s' % (what, sig))
            ctx.report('tie:%s:%s' % (what, sig), 'model and implementation disagree on %s %s (reference semantics '
                       'still met on this input)' % (what, sig), dict(replay, coq_case=txt), found_input=False)
    defer(ctx, files, chunks, handler)


def defer(ctx, files, chunks, handler):
    if not hasattr(ctx, '_c18_jobs'):
        ctx._c18_jobs = []
    ctx._c18_jobs.append((files, chunks, handler))


def flush_coq(ctx):
    jobs = getattr(ctx, '_c18_jobs', [])
    ctx._c18_jobs = []
    allfiles = [f for (files, _, _) in jobs for f in files]
    results = {name: (ok, out) for (name, ok, out) in ctx.coq_eval_many(allfiles)}
    for files, chunks, handler in jobs:
        dis = []
        for (name, _), chunk in zip(files, chunks):
            ok, out = results[name]
            ctx.obligations += 1
            badidx = parse_coq_list_of_nat(out) if ok else None
            if not ok or badidx is None:
                ctx.broken.append('case file %s did not evaluate: %s' % (name, out[-600:]))
                continue
            ctx.discharged += 1
            dis += [chunk[b_] for b_ in badidx]
        ctx.cov['disagreements_checked'] += len(dis)
        handler(dis)


# ---------------------------------------------------------------------------
# _normalize_indices
# ---------------------------------------------------------------------------

def index_kind(I):
    ks = set()
    for ik in I['items']:
        ks.add('int' if 'i' in ik else 'slice' if 's' in ik else 'list')
    return '+'.join(sorted(ks))


def run_index_cases(ctx, n):
    rng = ctx.rng
    cases = []
    for i in range(n):
        shape = [rng.choice([0, 1, 2, 3, 4, 5, 7]) if rng.random() < 0.1 else rng.choice([1, 2, 3, 4, 5, 7])
                 for _ in range(rng.choice([1, 2, 3, 4]))]
        cases.append({'shape': shape, 'I': G.gen_index(rng, shape, malformed=(i % 4 == 3))})
    res = yield ('idx', cases)
    if res is None:
        return
    items = []
    dist = {}
    for c, r in zip(cases, res):
        kind = index_kind(c['I'])
        dist[kind] = dist.get(kind, 0) + 1
        ctx.count(('idx', repr(c)), nontrivial=True)
        bad = None
        try:
            sel, sing = G.o_normalize(c['I'], c['shape'])
            if r['status'] != 'Ok':
                bad = 'valid index expression raised %s: %s' % (r['status'], r.get('msg'))
            elif r['ranges'] != sel or r['singleton'] != sing or r['shape_new'] != [len(s) for s in sel]:
                bad = 'selected positions %s / dropped axes %s differ from Python semantics %s / %s' % (
                    r['ranges'], r['singleton'], sel, sing)
            exp = 'OkA %s' % clist(['(%s, %s)' % (clist(s, cnat), cbool(k in sing)) for k, s in enumerate(sel)])
        except G.Expect as e:
            if r['status'] == 'Ok':
                bad = 'malformed index expression accepted (%s expected)' % e.cls
            elif r['status'] != e.cls:
                bad = 'raises %s where %s is documented' % (r['status'], e.cls)
        replay = {'shape': c['shape'], 'I': c['I'], 'impl': r, 'how': 'tensor._normalize_indices(I, shape)'}
        if bad:
            ctx.report('impl:normalize-indices:%s' % kind, bad, replay)
        if r['status'] == 'Ok':
            txt = 'OkA %s' % clist(['(%s, %s)' % (clist(s, cnat), cbool(k in r['singleton']))
                                    for k, s in enumerate(r['ranges'])])
        elif r['status'] in G.ERR:
            txt = 'ErA %s' % r['status']
        else:
            continue
        items.append(('(%s, %s, %s)' % (clist(c['shape'], cnat), CQ.c_index(c['I']), txt), replay, kind, bad))
    ctx.cov['input_distribution']['index_expressions'] = dist
    coq_run(ctx, 'C18_idx', 'check_norm', items, 'normalize-indices', per=300)


# ---------------------------------------------------------------------------
# TensorGenerator
# ---------------------------------------------------------------------------

def run_generator_cases(ctx, n):
    rng = ctx.rng
    cases = []
    for i in range(n):
        shape = G.gen_shape(rng, d=rng.choice([1, 2, 3, 3, 4]))
        X = G.rint_full(rng, shape, -9, 9)
        c = rng.random()
        if c < 0.7:
            o = {'k': 'get', 'I': G.gen_index(rng, shape, malformed=(i % 6 == 5))}
        elif c < 0.8 or len(shape) < 2:
            o = {'k': 'asarray'}
        else:
            a0, a1 = rng.sample(range(len(shape)), 2)
            o = {'k': 'matrix_at', 'I': [rng.randrange(m) for m in shape], 'axes': [a0, a1],
                 'ikind': rng.choice(['list', 'tuple', 'ndarray', 'intp'])}
        cases.append({'X': X, 'o': o, 'multi': rng.random() < 0.3})
    res = yield ('gen', cases)
    if res is None:
        return
    items = []
    dist = {}
    for c, r in zip(cases, res):
        o = c['o']
        D = arr(c['X'])
        kind = o['k'] + (':' + index_kind(o['I']) if o['k'] == 'get' else '')
        dist[kind] = dist.get(kind, 0) + 1
        ctx.count(('gen', repr(c)), nontrivial=True)
        bad = None
        try:
            if o['k'] == 'get':
                want = np.asarray(G.o_getitem(D, o['I']), dtype=float)
            elif o['k'] == 'asarray':
                want = D
            else:
                ix = [o['I'][k] for k in range(D.ndim)]
                ix[o['axes'][0]] = slice(None)
                ix[o['axes'][1]] = slice(None)
                want = D[tuple(ix)]
                if o['axes'][0] > o['axes'][1]:
                    want = want.T
            if r['status'] != 'Ok':
                bad = 'valid access raised %s: %s' % (r['status'], r.get('msg'))
            else:
                got = arr(r['value'])
                if r.get('index_unchanged') is False:
                    bad = 'the index argument was changed in place'
                elif r.get('second_equal') is False:
                    bad = 'two evaluations of the same slice generator differ'
                elif got.shape != want.shape or not np.array_equal(got, want):
                    bad = 'returned entries %s (shape %s) are not the wrapped entries %s (shape %s)' % (
                        got.ravel()[:6].tolist(), list(got.shape), want.ravel()[:6].tolist(), list(want.shape))
        except G.Expect as e:
            if r['status'] == 'Ok':
                bad = 'malformed index expression accepted (%s expected)' % e.cls
            elif r['status'] != e.cls:
                bad = 'raises %s where %s is documented' % (r['status'], e.cls)
        replay = {'X': c['X'], 'o': o, 'multientryfunc': c['multi'], 'impl': r,
                  'how': 'TensorGenerator.from_array(X)[I] / .asarray() / .matrix_at(I, axes).asarray()'}
        if bad:
            ctx.report('impl:generator:%s' % kind, bad, replay)
        try:
            if o['k'] == 'get':
                g = '(GGet %s)' % CQ.c_index(o['I'])
            elif o['k'] == 'asarray':
                g = 'GAsarray'
            else:
                g = '(GMatrixAt %s %d %d)' % (clist(o['I'], cnat), o['axes'][0], o['axes'][1])
            if r['status'] == 'Ok':
                e = 'OkF %s %s' % (CQ.c_shape(r['value']['sh']), clist(r['value']['d'], CQ.zi))
            elif r['status'] in G.ERR:
                e = 'ErF %s' % r['status']
            else:
                continue
            items.append(('((%s, %s), %s, %s)' % (CQ.c_shape(c['X']['sh']), clist(c['X']['d'], CQ.zi), g, e),
                          replay, kind, bad))
        except CQ.NotExact:
            pass
    ctx.cov['input_distribution']['generator_accesses'] = dist
    coq_run(ctx, 'C18_gen', 'zcheck_gen', items, 'generator', per=150)


# ---------------------------------------------------------------------------
# histories on generator objects: several sibling slice generators built from ONE index object (list,
# tuple, ndarray, list of numpy ints), evaluated in interleaved order; the caller's index objects must
# never change and every evaluation must return the entries of the wrapped array
# ---------------------------------------------------------------------------

def run_genhist_cases(ctx, n):
    rng = ctx.rng
    cases, oracles = [], []
    for _ in range(n):
        d = rng.choice([3, 3, 3, 4])
        shape = [rng.randint(2, 4) for _ in range(d)]
        X = G.rint_full(rng, shape, -9, 9)
        D = arr(X)
        steps, exp = [], []
        nidx = rng.randint(1, 2)
        idxvals = []
        for _i in range(nidx):
            v = [rng.randrange(m) for m in shape]
            idxvals.append(v)
            steps.append({'s': 'index', 'kind': rng.choice(['list', 'list', 'tuple', 'ndarray', 'intp']), 'v': v})
            exp.append(None)
        gens = [D]          # what every generator must represent (fixed when it is created)
        gshape = [list(shape)]
        # siblings from the same index object
        for _g in range(rng.randint(2, 4)):
            i = rng.randrange(nidx)
            a0, a1 = rng.sample(range(d), 2)
            ix = list(idxvals[i])
            ix[a0] = slice(None)
            ix[a1] = slice(None)
            M = D[tuple(ix)]
            if a0 > a1:
                M = M.T
            steps.append({'s': 'matrix_at', 'gen': 0, 'idx': i, 'axes': [a0, a1]})
            exp.append(('shape', list(M.shape)))
            gens.append(M)
        # interleaved evaluations: every generator at least twice, in random order
        evals = [g for g in range(len(gens)) for _r in range(2)]
        rng.shuffle(evals)
        for g in evals:
            M = gens[g]
            c = rng.random()
            if c < 0.5:
                steps.append({'s': 'asarray', 'gen': g})
                exp.append(('value', M))
            elif c < 0.8:
                I = G.gen_index(rng, list(M.shape))
                try:
                    want = np.asarray(G.o_getitem(M, I), dtype=float)
                    steps.append({'s': 'get', 'gen': g, 'I': I})
                    exp.append(('value', want))
                except G.Expect:
                    steps.append({'s': 'asarray', 'gen': g})
                    exp.append(('value', M))
            elif g == 0:
                i = rng.randrange(nidx)
                steps.append({'s': 'entry', 'gen': 0, 'idx': i})
                exp.append(('value', np.asarray(D[tuple(idxvals[i])])))
            else:
                steps.append({'s': 'asarray', 'gen': g})
                exp.append(('value', M))
        cases.append({'X': X, 'multi': rng.random() < 0.3, 'steps': steps})
        oracles.append((exp, idxvals))
    res = yield ('genhist', cases)
    if res is None:
        return
    items = []
    nsteps = 0
    for c, (exp, idxvals), steps in zip(cases, oracles, res):
        kinds = '+'.join(sorted({st['kind'] for st in c['steps'] if st['s'] == 'index'}))
        for j, (st, ex, r) in enumerate(zip(c['steps'], exp, steps)):
            nsteps += 1
            ctx.count(('genhist', repr(c['X']), repr(c['steps'][:j + 1])), nontrivial=True)
            bad = None
            if r['status'] != 'Ok':
                bad = ('raises', '%s raised %s: %s' % (st['s'], r['status'], r.get('msg')))
            elif r['idxobjs'] != idxvals[:len(r['idxobjs'])]:
                bad = ('mutates-index-argument', 'after %s the caller\'s index objects are %s, they were created as %s' % (
                    st['s'], r['idxobjs'], idxvals[:len(r['idxobjs'])]))
            elif not r.get('array_unchanged', True):
                bad = ('mutates-array', 'the wrapped array was changed')
            elif ex is not None and ex[0] == 'shape' and r.get('shape') != ex[1]:
                bad = ('shape', 'matrix_at generator has shape %s, the slice has %s' % (r.get('shape'), ex[1]))
            elif ex is not None and ex[0] == 'value':
                got = arr(r['value'])
                want = np.asarray(ex[1], dtype=float)
                if got.shape != want.shape or not np.array_equal(got, want):
                    bad = ('value', '%s of generator #%d (history of %d steps on sibling generators sharing one index '
                           'object) returns %s, the wrapped array has %s' % (st['s'], st['gen'], j, got.ravel()[:6].tolist(),
                                                                            want.ravel()[:6].tolist()))
            replay = {'mode': 'genhist', 'case': {'X': c['X'], 'multi': c['multi'], 'steps': c['steps'][:j + 1]},
                      'failing_step': j, 'impl': r,
                      'how': 'TensorGenerator history: index objects, matrix_at siblings, interleaved evaluations'}
            if bad:
                ctx.report('impl:generator-history:%s:%s' % (bad[0], kinds), bad[1], replay)
                break
            # the model (pure gen_matrix_at) on the evaluated first-level slices
            if st['s'] == 'asarray' and st['gen'] > 0 and r['status'] == 'Ok':
                ms = [s_ for s_ in c['steps'] if s_['s'] == 'matrix_at'][st['gen'] - 1]
                try:
                    items.append(('((%s, %s), (GMatrixAt %s %d %d), OkF %s %s)' % (
                        CQ.c_shape(c['X']['sh']), clist(c['X']['d'], CQ.zi), clist(idxvals[ms['idx']], cnat),
                        ms['axes'][0], ms['axes'][1], CQ.c_shape(r['value']['sh']), clist(r['value']['d'], CQ.zi)),
                        replay, 'matrix_at', None))
                except CQ.NotExact:
                    pass
    ctx.cov['input_distribution']['generator_histories'] = {'histories': len(cases), 'steps': nsteps}
    coq_run(ctx, 'C18_genhist', 'zcheck_gen', items, 'generator-history', per=150)


# ---------------------------------------------------------------------------
# CanonicalOperator
# ---------------------------------------------------------------------------

def kron_dense(terms):
    out = None
    for term in terms:
        K = np.array([[1.0]])
        for B in term:
            K = np.kron(K, G.mat_np(B))
        out = K if out is None else out + K
    return out


def c_terms(terms):
    return clist([clist([CQ.c_mat(B) for B in term]) for term in terms])


def run_canop_cases(ctx, n):
    rng = ctx.rng
    cases = []
    for i in range(n):
        d = rng.choice([1, 2, 2, 3])
        k = rng.choice(['T', 'add', 'sub', 'neg', 'mul', 'mul', 'kron', 'slice', 'apply', 'apply'])
        mid = [rng.choice([1, 2, 3]) for _ in range(d)]
        out = [rng.choice([1, 2, 3]) for _ in range(d)]
        if k == 'slice':
            out = mid
        A = [[G.rint_mat(rng, out[j], mid[j], -2, 2) for j in range(d)] for _ in range(rng.randint(1, 3))]
        c = {'A': A, 'o': {'k': k}, 'sparse': rng.random() < 0.6}
        if k in ('add', 'sub'):
            c['B'] = [[G.rint_mat(rng, out[j], mid[j], -2, 2) for j in range(d)] for _ in range(rng.randint(1, 2))]
        elif k == 'mul':
            inn = [rng.choice([1, 2, 3]) for _ in range(d)]
            c['B'] = [[G.rint_mat(rng, mid[j], inn[j], -2, 2) for j in range(d)] for _ in range(rng.randint(1, 2))]
            c['o']['matmul'] = rng.random() < 0.5
        elif k == 'kron':
            d2 = rng.choice([1, 2])
            c['B'] = [[G.rint_mat(rng, rng.choice([1, 2]), rng.choice([1, 2, 3]), -2, 2) for j in range(d2)]
                      for _ in range(rng.randint(1, 2))]
            c['B'] = [[dict(Bm, r=c['B'][0][j]['r'], c=c['B'][0][j]['c'],
                            d=[[float(rng.randint(-2, 2)) for _ in range(c['B'][0][j]['c'])] for _ in range(c['B'][0][j]['r'])])
                       for j, Bm in enumerate(t)] for t in c['B']]
        elif k == 'slice':
            lim = []
            for m in mid:
                lo = rng.randint(0, m)
                lim.append([lo, rng.randint(lo, m)])
            c['o']['limits'] = lim
        elif k == 'apply':
            c['X'] = G.gen_tensor(rng, mid)
            c['o']['matmul'] = rng.random() < 0.5
        cases.append(c)
    res = yield ('cop', cases)
    if res is None:
        return
    items_cop, items_app = [], []
    dist = {}
    for c, r in zip(cases, res):
        k = c['o']['k']
        dist[k] = dist.get(k, 0) + 1
        ctx.count(('cop', repr(c)), nontrivial=True)
        KA = kron_dense(c['A'])
        KB = kron_dense(c['B']) if c.get('B') else None
        bad = None
        replay = {'case': c, 'impl': r, 'how': 'CanonicalOperator(terms) built from integer matrices (%s); op %s' % (
            'scipy.sparse csr' if c['sparse'] else 'ndarray', k)}
        if r['status'] != 'Ok':
            bad = 'valid operator operation raised %s: %s' % (r['status'], r.get('msg'))
        elif k == 'apply':
            want = (KA @ G.dense_of(c['X']).ravel()).reshape([t['r'] for t in c['A'][0]])
            got = arr(r['dense'])
            if got.shape != want.shape or not np.array_equal(got, want):
                bad = 'A.apply(X) expands to something else than asmatrix(A) @ vec(X)'
        else:
            if k == 'T':
                want = KA.T
            elif k == 'add':
                want = KA + KB
            elif k == 'sub':
                want = KA - KB
            elif k == 'neg':
                want = -KA
            elif k == 'mul':
                want = KA @ KB
            elif k == 'kron':
                want = np.kron(KA, KB)
            else:
                def pos(shape, lim):
                    idx = [0]
                    for n_, (lo, hi) in zip(shape, lim):
                        idx = [p * n_ + q for p in idx for q in range(lo, hi)]
                    return np.array(idx, dtype=int)
                rows = pos([t['r'] for t in c['A'][0]], c['o']['limits'])
                cols = pos([t['c'] for t in c['A'][0]], c['o']['limits'])
                want = KA[rows][:, cols]
            got = kron_dense(r['terms'])
            if got.shape != want.shape or not np.array_equal(got, want):
                bad = 'Kronecker expansion of the result terms differs from the operation on the expanded matrices'
            elif 'asmatrix' in r and not np.array_equal(np.array(r['asmatrix']).reshape(want.shape), want):
                bad = 'asmatrix() of the result differs from the operation on the expanded matrices'
        if bad:
            ctx.report('impl:canop:%s' % k, bad, replay)
        if r['status'] != 'Ok':
            continue
        try:
            if k == 'apply':
                if r['result']['t'] != 'full' and 'dense' in r:
                    pass
                X = {'t': 'full', 'sh': list(G.dense_of(c['X']).shape), 'd': G.dense_of(c['X']).ravel().tolist()}
                items_app.append(('(%s, (%s, %s), (%s, %s))' % (
                    c_terms(c['A']), CQ.c_shape(X['sh']), clist(X['d'], CQ.zi),
                    CQ.c_shape(r['dense']['sh']), clist(r['dense']['d'], CQ.zi)), replay, k, bad))
            else:
                co = {'T': 'CT', 'add': 'CAdd', 'sub': 'CSub', 'neg': 'CNeg', 'mul': 'CMul', 'kron': 'CKron'}.get(k)
                if k == 'slice':
                    co = '(CSlice %s)' % clist(['(%s, %s)' % (cnat(a), cnat(b)) for a, b in c['o']['limits']])
                dm = r.get('asmatrix') if 'asmatrix' in r else kron_dense(r['terms']).tolist()
                items_cop.append(('(%s, %s, %s, %s, %s)' % (
                    co, c_terms(c['A']), c_terms(c.get('B') or []), c_terms(r['terms']),
                    clist([clist(row, CQ.zi) for row in dm])), replay, k, bad))
        except CQ.NotExact:
            pass
    ctx.cov['input_distribution']['operator_ops'] = dist
    coq_run(ctx, 'C18_cop', 'zcheck_cop', items_cop, 'canop', per=60)
    coq_run(ctx, 'C18_capply', 'zcheck_capply', items_app, 'canop-apply', per=60)


# ---------------------------------------------------------------------------
# free functions on full arrays: modek_tprod (dense / csr / csc / LinearOperator), matricize, outer,
# array_outer
# ---------------------------------------------------------------------------

def noncubic_shape(rng, d):
    pool = [1, 2, 3, 4, 5] if d <= 3 else [1, 2, 3, 4]
    shp = rng.sample(pool, d) if rng.random() < 0.8 else [rng.choice(pool) for _ in range(d)]
    return shp


def run_modek_cases(ctx, n):
    rng = ctx.rng
    cases = []
    # every mode of every order with every operator kind, rectangular operators, non-cubic shapes
    for rep in range(max(1, n // 40)):
        for d in (1, 2, 3, 4):
            for k in range(d):
                for kind in ('dense', 'csr', 'csc', 'linop'):
                    shp = noncubic_shape(rng, d)
                    m = rng.choice([x for x in (1, 2, 3, 4, 5) if x != shp[k]])
                    cases.append({'f': 'modek', 'X': G.rint_full(rng, shp, -4, 4), 'k': k, 'kind': kind,
                                  'B': G.rint_mat(rng, m, shp[k], -3, 3)})
    for _ in range(n // 8):
        d = rng.choice([1, 2, 3, 4])
        shp = noncubic_shape(rng, d)
        cases.append({'f': 'matricize', 'X': G.rint_full(rng, shp, -9, 9), 'k': rng.randrange(d)})
    for _ in range(n // 8):
        d = rng.choice([1, 2, 3, 4])
        if rng.random() < 0.5:
            cases.append({'f': 'outer', 'xs': [[float(rng.randint(-4, 4)) for _ in range(rng.randint(1, 4))] for _ in range(d)]})
        else:
            cases.append({'f': 'array_outer', 'xs': [G.rint_full(rng, noncubic_shape(rng, rng.choice([1, 2])), -4, 4)
                                                     for _ in range(rng.choice([1, 2, 2]))]})
    res = yield ('modek', cases)
    if res is None:
        return
    items = []
    dist = {}
    for c, r in zip(cases, res):
        f = c['f']
        kind = f + (':%s:k%d:order%d' % (c['kind'], c['k'], len(c['X']['sh'])) if f == 'modek' else '')
        dist[kind] = dist.get(kind, 0) + 1
        ctx.count(('modek', repr(c)), nontrivial=True)
        bad = None
        replay = {'mode': 'modek', 'case': c, 'impl': r,
                  'how': 'tensor.modek_tprod(B as %s, k, X) / matricize / outer / array_outer on integer data' % c.get('kind')}
        if r['status'] != 'Ok':
            bad = 'valid call raised %s: %s' % (r['status'], r.get('msg'))
        else:
            got = arr(r['value'])
            if f == 'modek':
                X = arr(c['X'])
                want = np.moveaxis(np.tensordot(G.mat_np(c['B']), X, axes=([1], [c['k']])), 0, c['k'])
            elif f == 'outer':
                want = np.array(1.0)
                for v in c['xs']:
                    want = np.multiply.outer(want, np.array(v))
            elif f == 'array_outer':
                want = np.array(1.0)
                for a_ in c['xs']:
                    want = np.multiply.outer(want, arr(a_))
            else:
                want = None
                X = arr(c['X'])
                k = c['k']
                fibers = sorted(tuple(col) for col in np.moveaxis(X, k, 0).reshape(X.shape[k], -1).T.tolist())
                if got.ndim != 2 or got.shape[0] != X.shape[k] or sorted(tuple(col) for col in got.T.tolist()) != fibers:
                    bad = 'matricize(X, %d): the columns are not the mode-%d fibres of X' % (k, k)
            if want is not None:
                if list(got.shape) != list(np.shape(want)):
                    bad = '%s returns shape %s, the definition gives %s' % (f, list(got.shape), list(np.shape(want)))
                elif not np.array_equal(got, want):
                    bad = '%s differs from its definition on the full array (max diff %g)' % (f, float(np.max(np.abs(got - want))))
        if bad:
            ctx.report('impl:%s' % kind, bad, replay)
        if f == 'modek' and r['status'] == 'Ok':
            try:
                Bs = ['None'] * c['k'] + ['(Some (%s))' % CQ.c_mat(c['B'])]
                items.append(('((oNway %s), [%s], %s)' % (clist(Bs), CQ.c_lit(dict(c['X'], t='full')),
                                                          CQ.c_lit(dict(r['value'], t='full'))), replay, kind, bad))
            except CQ.NotExact:
                pass
    ctx.cov['input_distribution']['free_functions'] = {'modek_tprod': sum(v for k_, v in dist.items() if k_.startswith('modek')),
                                                       'matricize': dist.get('matricize', 0), 'outer': dist.get('outer', 0),
                                                       'array_outer': dist.get('array_outer', 0)}
    coq_run(ctx, 'C18_modek', 'zcheck_step', items, 'modek_tprod', per=120)


# ---------------------------------------------------------------------------
# rank_1_update / aca3d_update
# ---------------------------------------------------------------------------

def run_update_cases(ctx, n):
    rng = ctx.rng
    cases = []
    for i in range(n):
        if rng.random() < 0.6:
            r_, c_ = rng.randint(1, 5), rng.randint(1, 5)
            cases.append({'k': 'r1', 'X': G.rint_mat(rng, r_, c_, -9, 9), 'alpha': float(rng.randint(-4, 4)),
                          'u': [float(rng.randint(-5, 5)) for _ in range(r_)],
                          'v': [float(rng.randint(-5, 5)) for _ in range(c_)]})
        else:
            sh = [rng.randint(1, 4) for _ in range(3)]
            cases.append({'k': 'r3', 'X': G.rint_full(rng, sh, -9, 9), 'alpha': float(rng.randint(-4, 4)),
                          'u': [float(rng.randint(-5, 5)) for _ in range(sh[0])],
                          'V': G.rint_mat(rng, sh[1], sh[2], -5, 5)})
    res = yield ('upd', cases)
    if res is None:
        return
    it1, it3 = [], []
    for c, r in zip(cases, res):
        ctx.count(('upd', repr(c)), nontrivial=True)
        bad = None
        replay = {'case': c, 'impl': r, 'how': 'lowrank.rank_1_update(X, alpha, u, v) / lowrank.aca3d_update(X, alpha, u, V)'}
        if r['status'] != 'Ok':
            bad = 'raised %s: %s' % (r['status'], r.get('msg'))
        elif c['k'] == 'r1':
            want = G.mat_np(c['X']) + c['alpha'] * np.outer(c['u'], c['v'])
            if not np.array_equal(G.mat_np(r['X']), want):
                bad = 'X is not X + alpha u v^T afterwards'
        else:
            want = arr(c['X']) + c['alpha'] * np.multiply.outer(np.array(c['u']), G.mat_np(c['V']))
            if not np.array_equal(arr(r['X']), want):
                bad = 'X is not X + alpha u (x) V afterwards'
        if bad:
            ctx.report('impl:update:%s' % c['k'], bad, replay)
        if r['status'] != 'Ok':
            continue
        if c['k'] == 'r1':
            it1.append(('(%s, %s, %s, %s, %s)' % (CQ.c_mat(c['X']), CQ.zi(c['alpha']), clist(c['u'], CQ.zi),
                                                  clist(c['v'], CQ.zi), CQ.c_mat(r['X'])), replay, 'r1', bad))
        else:
            it3.append(('((%s, %s), %s, %s, %s, (%s, %s))' % (
                CQ.c_shape(c['X']['sh']), clist(c['X']['d'], CQ.zi), CQ.zi(c['alpha']), clist(c['u'], CQ.zi),
                CQ.c_mat(c['V']), CQ.c_shape(r['X']['sh']), clist(r['X']['d'], CQ.zi)), replay, 'r3', bad))
    ctx.cov['input_distribution']['cython_updates'] = len(cases)
    coq_run(ctx, 'C18_r1', 'zcheck_r1', it1, 'rank_1_update')
    coq_run(ctx, 'C18_r3', 'zcheck_r3', it3, 'aca3d_update')


# ---------------------------------------------------------------------------
# floating-point part.  Bounds (u = 2^-52):
#  * QR/SVD based results (orthogonalize, norm of a Tucker tensor, hosvd, compress): Householder QR and
#    LAPACK's SVD are backward stable with constants gamma ~ c*m*n*u (Higham, Accuracy and Stability,
#    Thm 19.4); the expansion of a Tucker tensor is multilinear in (U_1..U_d, X), so a relative perturbation
#    delta of every factor moves it by at most (d+1)*delta*S with the scale S = prod_k ||U_k||_F * ||X||_F.
#    BOUND_QR = 200 * (sum_k n_k + sum_k r_k) * u * S; orthonormality of computed factors: 200 * n * u.
#  * norm of a canonical tensor with integer factors: all Gram sums are exact integers < 2^53, only the
#    final sqrt rounds: 4u relative.
#  * compression: the discarded part of the HOSVD core of the orthogonalised core has squared norm
#    <= tol_eff^2 by the loop of find_truncation_rank (theorem truncation_error_bound ... tie), factors are
#    orthonormal, hence ||A - compress(A)||_F <= tol_eff + BOUND_QR with tol_eff = max(tol, rtol*||A||).
#  * cross approximation of an exact rank-r integer matrix/tensor: in exact arithmetic the residual is 0
#    after r crosses (aca_step_exact_on_cross, aca_rank1_exact); with row pivoting |row/pivot| <= 1, so every
#    cross at most doubles the residual entries: rounding <= c*r*2^r*u*max|A| ~ 1e-12*max|A| for r <= 4;
#    crosses accepted below the tolerance (tol = 1e-11, at most tolcount = 3 of them) add <= 8*tol.
#    BOUND_ACA = 1e-9 * max(1, max|A|)   (DESIGN.md, three orders above the derived value).
#  * greedy histories: gta's error is the distance to nested subspaces: monotone in exact arithmetic; grou's
#    is monotone when each als1 result is a stationary point; slack (1 + 1e-9) * e + 1e-12 * ||A||.
# ---------------------------------------------------------------------------

def fro(x):
    return float(np.linalg.norm(np.asarray(x).ravel()))


def tucker_scale(spec):
    s = fro(spec['X']['d'])
    for U in spec['Us']:
        s *= max(fro(U['d']), 1.0)
    return s


def cancelling_tucker(rng, shape, delta):
    """Tucker structure [U_0 | U_0], U_1, ..., with core [X ; -X + delta*E]: expansion = delta * rank-1 term."""
    Rs = [rng.choice([1, 2, 3]) for _ in shape]
    Us = [G.rint_mat(rng, n, r) for n, r in zip(shape, Rs)]
    for U in Us:                                   # no zero column: the rank-1 term must not vanish
        for j in range(U['c']):
            if all(U['d'][i][j] == 0 for i in range(U['r'])):
                U['d'][rng.randrange(U['r'])][j] = 1.0
    # generic (not exactly representable) entries: with integer data every product and sum above is exact in
    # binary64 and no norm algorithm shows its rounding behaviour
    for U in Us:
        U['d'] = [[v / 7.0 for v in row] for row in U['d']]
    X = np.array(G.rint_full(rng, Rs, -2, 2)['d'], dtype=float).reshape(Rs) / 3.0
    E = np.zeros(Rs)
    E[tuple(rng.randrange(r) for r in Rs)] = float(rng.choice([1, 2, 3]))
    core = np.concatenate([X, -X + delta * E], axis=0)
    U0 = {'r': Us[0]['r'], 'c': 2 * Us[0]['c'], 'd': [row + row for row in Us[0]['d']]}
    return {'t': 'tucker', 'Us': [U0] + Us[1:], 'X': {'sh': list(core.shape), 'd': [float(x) for x in core.ravel()]}}


def lowrank_tensor(rng, shape, r):
    A = np.zeros(shape)
    for _ in range(r):
        t = np.array(1.0)
        for n_ in shape:
            v = np.array([float(rng.randint(-3, 3)) for _ in range(n_)])
            if not v.any():
                v[rng.randrange(n_)] = 1.0
            t = np.multiply.outer(t, v)
        A = A + t
    return A


def generic_lowrank(rng, shape, r):
    """Exact-rank-r array with generic dyadic factors (entries +-k/64 in [1,2]): no residual entry
    vanishes before the rank is exhausted, so the random restarts of the cross approximations (which
    may legitimately stop early) are not exercised; well conditioned: sigma_r / sigma_1 >= 1e-3 of
    every matricization is enforced by rejection."""
    while True:
        A = np.zeros(shape)
        for _ in range(r):
            t = np.array(1.0)
            for n_ in shape:
                v = np.array([rng.choice([-1.0, 1.0]) * rng.randint(64, 128) / 64.0 for _ in range(n_)])
                t = np.multiply.outer(t, v)
            A = A + t
        ok = True
        for k in range(len(shape)):
            sv = np.linalg.svd(np.moveaxis(A, k, 0).reshape(shape[k], -1), compute_uv=False)
            if len(sv) < r or sv[r - 1] < 1e-3 * sv[0]:
                ok = False
        if ok:
            return A


def feasible(ranks):
    return all(r <= int(np.prod([q for l, q in enumerate(ranks) if l != j])) for j, r in enumerate(ranks))


def rank_profile_tensor(rng, d=None, singleton=None):
    """Tensor of exact multilinear rank (r_1..r_d) with generic dyadic factors and core; the profile
    includes modes whose rank is exhausted before the others (rank 1 in an early mode, singleton axes in
    non-last positions).  Returns (A, ranks); every matricization has sigma_r/sigma_1 >= 1e-3 and exactly
    rank r_j (checked by SVD, rejection otherwise)."""
    while True:
        dd = d or rng.choice([2, 3, 3, 4])
        ranks = [rng.choice([1, 2, 3]) for _ in range(dd)]
        if singleton is not None:
            ranks[singleton % dd] = 1
        if not feasible(ranks):
            continue
        shape = [max(r, rng.randint(1, 5)) for r in ranks]
        if singleton is not None:
            shape[singleton % dd] = 1
        A = np.array([rng.choice([-1.0, 1.0]) * rng.randint(64, 128) / 64.0 for _ in range(int(np.prod(ranks)))]).reshape(ranks)
        for k, (n_, r_) in enumerate(zip(shape, ranks)):
            U = np.array([[rng.choice([-1.0, 1.0]) * rng.randint(64, 128) / 64.0 for _ in range(r_)] for _ in range(n_)])
            A = np.moveaxis(np.tensordot(U, A, axes=([1], [k])), 0, k)
        ok = True
        for k in range(dd):
            sv = np.linalg.svd(np.moveaxis(A, k, 0).reshape(shape[k], -1), compute_uv=False)
            if sv[ranks[k] - 1] < 1e-3 * sv[0] or (len(sv) > ranks[k] and sv[ranks[k]] > 1e-12 * sv[0]):
                ok = False
        if ok:
            return A, ranks


def full_spec(A):
    return {'t': 'full', 'sh': list(A.shape), 'd': A.ravel().tolist()}


def exact_truncation_rank(X, tolsq):
    """find_truncation_rank in exact integer arithmetic (X integer-valued)."""
    X = np.array(X, dtype=object)
    total = 0
    while X.size > 0:
        errs = [int(sum(int(v) ** 2 for v in np.asarray(np.swapaxes(X, i, 0)[-1], dtype=object).ravel())) for i in range(X.ndim)]
        ax = min(range(X.ndim), key=lambda i: (errs[i], i))
        total += errs[ax]
        if total > tolsq:
            break
        sl = [slice(None)] * X.ndim
        sl[ax] = slice(None, -1)
        X = X[tuple(sl)]
    return list(X.shape)


def run_numeric(ctx, thorough):
    rng = ctx.rng
    cases = []
    rep = 3 if thorough else 1
    decades = [10.0 ** (-k) for k in range(0, 11)]

    def seed():
        return rng.randrange(2 ** 31)

    for _ in range(12 * rep):
        shape = G.gen_shape(rng, d=rng.choice([1, 2, 3, 3, 4]))
        cases.append({'k': 'norm', 'A': G.gen_tensor(rng, shape, rng.choice(['canon', 'tucker']))})
    # Tucker tensors whose expansion is tiny relative to their factors (the shape of A - compress(A) or of a
    # difference of two nearby tensors after join_tucker_bases): first basis duplicated, core = [X ; -X + delta*E].
    # The expansion is delta * (one rank-1 term) up to rounding of order u*S, while the
    # scale S of the bound is that of the factors; the bound 200*(sum n + sum r)*u*S is the one derived above for
    # the QR-based norm and is NOT met by a norm computed from Gram matrices (error sqrt(u)*S under cancellation).
    for _ in range(8 * rep):
        shape = G.gen_shape(rng, d=rng.choice([1, 2, 3, 3]), allow_one=False)
        T = cancelling_tucker(rng, shape, 2.0 ** (-rng.choice([16, 22, 26, 30, 34])))
        cases.append({'k': rng.choice(['norm', 'norm', 'orth']), 'A': T, 'family': 'cancelling'})
    for _ in range(12 * rep):
        shape = G.gen_shape(rng, d=rng.choice([1, 2, 3, 3, 4]))
        T = G.gen_tensor(rng, shape, 'tucker')
        if all(U['c'] >= 1 for U in T['Us']):
            cases.append({'k': 'orth', 'A': T})
    for _ in range(10 * rep):
        shape = G.gen_shape(rng, d=rng.choice([2, 3, 3, 4]))
        cases.append({'k': 'hosvd', 'X': dict(G.rint_full(rng, shape, -5, 5), t='full')})
    # compression: every decade of tol and of rtol on tensors with a decaying core
    for _ in range(2 * rep):
        shape = [rng.choice([3, 4, 5]) for _ in range(rng.choice([2, 3]))]
        Rs = [rng.choice([2, 3, 4]) for _ in shape]
        core = np.array([float(rng.randint(-4, 4)) for _ in range(int(np.prod(Rs)))]).reshape(Rs)
        for idx in np.ndindex(*Rs):
            core[idx] *= 10.0 ** (-2.0 * sum(idx))      # entries spread over > 10 decades
        T = {'t': 'tucker', 'Us': [G.rint_mat(rng, n_, r_) for n_, r_ in zip(shape, Rs)],
             'X': {'sh': Rs, 'd': core.ravel().tolist()}}
        nrm = fro(G.dense_of(T))
        for t in decades:
            cases.append({'k': 'compress', 'A': T, 'tol': t * max(nrm, 1e-300), 'rtol': None})
            cases.append({'k': 'compress', 'A': T, 'tol': None, 'rtol': t})
    for _ in range(25 * rep):
        shape = [rng.randint(1, 4) for _ in range(rng.choice([1, 2, 3, 4]))]
        X = G.rint_full(rng, shape, -3, 3)
        tot = sum(v * v for v in X['d'])
        m = rng.randint(0, int(tot) + 1)
        cases.append({'k': 'trunc_rank', 'X': dict(X, t='full'), 'tol': math.sqrt(m + 0.5), 'm': m})
    for _ in range(10 * rep):
        r_ = rng.randint(1, 4)
        A = generic_lowrank(rng, [rng.randint(5, 12), rng.randint(5, 12)], r_)
        for kind in ('aca', 'aca_lr'):
            cases.append({'k': kind, 'X': full_spec(A), 'tol': 1e-11, 'maxiter': 50, 'r': r_, 'npseed': seed(),
                          'gen': rng.random() < 0.5})
    for q in range(6 * rep):
        r_ = rng.randint(1, 3)
        shp3 = [rng.randint(4, 6) for _ in range(3)]
        if q % 2 == 0:
            shp3 = [rng.randint(4, 6), 4, 7]      # non-cubic: last axis longer than the middle one
        A = generic_lowrank(rng, shp3, r_)
        cases.append({'k': 'aca3d', 'X': full_spec(A), 'tol': 1e-11, 'maxiter': 30, 'r': r_, 'npseed': seed(),
                      'lr': rng.random() < 0.5})
    for _ in range(6 * rep):
        A = lowrank_tensor(rng, [rng.randint(2, 5) for _ in range(rng.choice([2, 3, 4]))], 1)
        cases.append({'k': 'als1', 'A': full_spec(A), 'npseed': seed()})
    for _ in range(6 * rep):
        d = rng.choice([2, 3])
        r_ = rng.randint(1, 3)
        A = lowrank_tensor(rng, [rng.randint(3, 5) for _ in range(d)], r_)
        nrm = fro(A)
        t = rng.choice(decades) * nrm
        cases.append({'k': 'grou', 'A': full_spec(A), 'R': rng.randint(1, r_ + 1), 'tol': max(t, 1e-10 * nrm), 'npseed': seed()})
        cases.append({'k': 'gta', 'A': full_spec(A), 'R': rng.randint(1, r_ + 1), 'tol': max(t, 1e-10 * nrm),
                      'rtol': max(rng.choice(decades), 1e-10), 'npseed': seed()})
    # greedy Tucker approximation on rank profiles with early-exhausted modes and singleton axes: with
    # R = sum(r_j - 1) + 1 steps every basis can be completed (each step extends at least one basis while
    # the error is non-zero), so the exact multilinear rank must be reproduced
    # (tolerances are relative to ||A||: the predicate is scale invariant, so A is also scaled by 2^+-10)
    for q in range(45 * rep):
        A, ranks = rank_profile_tensor(rng, singleton=(None if q % 2 else rng.randrange(4)))
        A = A * (1.0, 1024.0, 1.0 / 1024.0)[q % 3]
        nrm = fro(A)
        Rfull = sum(r_ - 1 for r_ in ranks) + 1
        Rq = Rfull if q % 4 else rng.randint(1, Rfull)
        cases.append({'k': 'gta', 'A': full_spec(A), 'R': Rq, 'tol': 1e-10 * nrm, 'rtol': 1e-10, 'npseed': seed(),
                      'ranks': ranks, 'Rfull': Rfull})
    # singleton axes for the other greedy / cross approximations
    for q in range(4 * rep):
        d = rng.choice([2, 3, 4])
        shp = [rng.randint(2, 5) for _ in range(d)]
        shp[rng.randrange(d)] = 1
        r_ = rng.randint(1, 2)
        A = generic_lowrank(rng, shp, 1) if True else None
        cases.append({'k': 'als1', 'A': full_spec(A), 'npseed': seed()})
        B = np.zeros(shp)
        for _ in range(r_):
            B = B + generic_lowrank(rng, shp, 1)
        nb = fro(B)
        cases.append({'k': 'grou', 'A': full_spec(B), 'R': r_ + 1, 'tol': 1e-8 * nb, 'npseed': seed()})
    for shp in ([1, 6], [7, 1], [1, 1]):
        A = generic_lowrank(rng, shp, 1)
        for kind in ('aca', 'aca_lr'):
            cases.append({'k': kind, 'X': full_spec(A), 'tol': 1e-11, 'maxiter': 50, 'r': 1, 'npseed': seed(), 'gen': False})
    for shp in ([1, 5, 4], [5, 1, 4], [5, 4, 1]):
        A = generic_lowrank(rng, shp, 1)
        cases.append({'k': 'aca3d', 'X': full_spec(A), 'tol': 1e-11, 'maxiter': 30, 'r': 1, 'npseed': seed(), 'lr': False})
    res = yield ('num', cases)
    if res is None:
        return
    dist = {}
    maxdev = {}
    trunc_items = []
    for c, r in zip(cases, res):
        k = c['k']
        if k == 'trunc_rank' and r.get('status') == 'Ok':
            # the model's greedy loop (Model.find_truncation_rank, theorem truncation_error_bound) at R = Z
            trunc_items.append(('((%s, %s), %s, %s)' % (CQ.c_shape(c['X']['sh']), clist(c['X']['d'], CQ.zi), cz(c['m']),
                                                       CQ.c_shape(r['shape'])),
                                {'case': c, 'impl': r, 'how': 'tensor.find_truncation_rank(X, sqrt(m + 0.5))'}, 'trunc', None))
        dist[k] = dist.get(k, 0) + 1
        ctx.count(('num', repr(c)), nontrivial=True)
        bad = None

        def dev(name, val, bound):
            maxdev[name] = max(maxdev.get(name, 0.0), float(val) / bound if bound > 0 else (0.0 if val == 0 else float('inf')))
            return not (val <= bound)

        if r['status'] != 'Ok':
            bad = 'raised %s: %s' % (r['status'], r.get('msg'))
        elif k == 'norm':
            D = G.dense_of(c['A'])
            ref = math.sqrt(float(np.sum(D * D)))
            if c['A']['t'] == 'canon':
                bound = 4 * EPS * ref
            else:
                bound = 200 * (sum(D.shape) + sum(c['A']['X']['sh'])) * EPS * tucker_scale(c['A'])
            if dev('norm', abs(r['norm'] - ref), bound):
                bad = 'norm() = %r, Frobenius norm of the expansion = %r (bound %g)' % (r['norm'], ref, bound)
        elif k in ('orth', 'hosvd'):
            D = G.dense_of(c['A'] if k == 'orth' else c['X'])
            sc = tucker_scale(c['A']) if k == 'orth' else fro(D)
            nn = sum(D.shape) * 2
            bound = 200 * nn * EPS * max(sc, 1e-300)
            if dev(k + '-expansion', float(np.max(np.abs(arr(r['dense']) - D))) if D.size else 0.0, bound):
                bad = '%s changes the expansion by more than %g' % (k, bound)
            for U in r['Us']:
                Um = G.mat_np(U)
                if Um.shape[1] and dev(k + '-orthonormal', float(np.max(np.abs(Um.T @ Um - np.eye(Um.shape[1])))),
                                       200 * max(Um.shape) * EPS):
                    bad = '%s factor is not orthonormal' % k
            if k == 'orth' and dev('tucker-norm', abs(r['norm'] - fro(D)), bound):
                bad = 'norm() of the Tucker tensor differs from the norm of its expansion'
            if k == 'hosvd' and list(r['core']['sh']) != [G.mat_np(U).shape[1] for U in r['Us']]:
                bad = 'hosvd core shape does not match the factors'
        elif k == 'compress':
            D = G.dense_of(c['A'])
            nrm = fro(D)
            tol_eff = max(c['tol'] if c['tol'] is not None else 1e-15, nrm * (c['rtol'] if c['rtol'] is not None else 1e-15))
            bound = tol_eff * (1 + 1e-9) + 200 * (sum(D.shape) + sum(c['A']['X']['sh'])) * EPS * tucker_scale(c['A'])
            if dev('compress', fro(arr(r['dense']) - D), bound):
                bad = 'compress(tol=%r, rtol=%r) error %g exceeds the requested %g' % (c['tol'], c['rtol'], fro(arr(r['dense']) - D), tol_eff)
            elif any(a > min(b, n_) for a, b, n_ in zip(r['R'], c['A']['X']['sh'], D.shape)):
                bad = 'compress increased the rank: %s from %s' % (r['R'], c['A']['X']['sh'])
        elif k == 'trunc_rank':
            want = exact_truncation_rank(arr(c['X']), c['m'])
            X = arr(c['X'])
            kept = X[tuple(slice(None, s_) for s_ in r['shape'])]
            if float(np.sum(X * X) - np.sum(kept * kept)) > c['m']:
                bad = 'find_truncation_rank discards squared norm %g > tol^2 = %g' % (float(np.sum(X * X) - np.sum(kept * kept)), c['m'] + 0.5)
            elif r['shape'] != want:
                ctx.broken.append('find_truncation_rank returns %s, exact greedy loop gives %s' % (r['shape'], want))
                ctx.report('tie:find_truncation_rank', 'greedy truncation differs from its exact transcription (bound still met)',
                           {'case': c, 'impl': r, 'exact': want}, found_input=False)
        elif k in ('aca', 'aca_lr', 'aca3d'):
            D = arr(c['X'])
            bound = 1e-9 * max(1.0, float(np.max(np.abs(D))))
            if dev(k, float(np.max(np.abs(arr(r['dense']) - D))), bound):
                bad = '%s of an exact rank-%d array deviates by %g (bound %g)' % (k, c['r'], float(np.max(np.abs(arr(r['dense']) - D))), bound)
            if k == 'aca_lr' and r['ncross'] > c['r'] + 6:
                bad = 'aca_lr needs %d crosses for exact rank %d' % (r['ncross'], c['r'])
        elif k == 'als1':
            D = arr(c['A'])
            if dev('als1', fro(arr(r['dense']) - D), 1e-9 * fro(D)):
                bad = 'als1 does not reproduce an exact rank-1 tensor'
        elif k in ('grou', 'gta'):
            D = arr(c['A'])
            nrm = fro(D)
            errs = r['errors']
            for a, b in zip(errs, errs[1:]):
                if not (b <= a * (1 + 1e-9) + 1e-12 * nrm):
                    bad = '%s error history increases: %s' % (k, errs)
            stop_ok = errs[-1] < c['tol'] or len(errs) == c['R'] or (k == 'gta' and errs[-1] < c['rtol'] * nrm)
            if not stop_ok:
                bad = '%s stopped with error %g >= tol %g before the rank limit %d' % (k, errs[-1], c['tol'], c['R'])
            if len(errs) > c['R']:
                bad = '%s exceeds the rank limit' % k
            if k == 'gta' and 'ranks' in c and not bad:
                # exact multilinear rank (r_j): after len(errs) steps every basis must have min(steps, r_j)
                # columns (generic factors), the bases stay orthonormal, and R = Rfull steps reproduce A
                want_R = [min(len(errs), r_) for r_ in c['ranks']]
                lim = max(c['tol'], c['rtol'] * nrm)
                if c['R'] >= c['Rfull'] and not errs[-1] < lim:
                    bad = 'gta with R=%d >= sum(r_j-1)+1 does not reproduce a tensor of multilinear rank %s: history %s, ranks reached %s' % (
                        c['R'], c['ranks'], ['%.3g' % e for e in errs], r['R'])
                elif list(r['R']) != want_R:
                    bad = 'gta: after %d steps the bases have %s columns, a tensor of multilinear rank %s needs %s' % (
                        len(errs), r['R'], c['ranks'], want_R)
                else:
                    for U in r['Us']:
                        Um = G.mat_np(U)
                        if dev('gta-orthonormal', float(np.max(np.abs(Um.T @ Um - np.eye(Um.shape[1])))), 1e-4):
                            bad = 'gta basis is not orthonormal (the projection is not a projection)'
            if dev(k + '-history', abs(errs[-1] - fro(arr(r['dense']) - D)), 1e-9 * max(nrm, 1.0)):
                bad = '%s: last history entry %g is not the error of the returned tensor %g' % (k, errs[-1], fro(arr(r['dense']) - D))
        if not bad and r.get('input_unchanged') is False:
            bad = '%s changed its input in place' % k
        if bad:
            ctx.report('impl:numeric:%s' % k, bad, {'case': c, 'impl': {kk: v for kk, v in r.items() if kk not in ('dense',)},
                                                    'how': 'harness/impl/c18_driver.py mode num'})
    coq_run(ctx, 'C18_trunc', 'zcheck_trunc', trunc_items, 'find_truncation_rank', per=100)
    ctx.cov['input_distribution']['numeric'] = dist
    ctx.cov['largest_observed_deviation_over_bound'] = {k: float('%.3g' % v) for k, v in maxdev.items()}
