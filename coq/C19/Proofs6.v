(* C19 -- B-splines are strictly positive inside their support; the diagonal of the Greville
   collocation matrix of an open knot vector is positive. *)
From Coq Require Import QArith Qcanon ZArith List Arith Bool Lia Lqa.
From Verif.lib Require Import Bsp NpCore NpQ.
From Verif.C02 Require Import Proofs.
From Verif.C02 Require Proofs_ref.
From Verif.C19 Require Import Model Proofs Proofs2 Proofs3 Proofs5.
Import ListNotations.
Open Scope Qc_scope.

Lemma inv_pos (y : Qc) : 0 < y -> 0 < / y.
Proof.
  intros H. assert (E : y * / y = 1) by (field; intros E; rewrite E in H; revert H; apply Qcle_not_lt, Qcle_refl).
  destruct (Qclt_le_dec 0 (/ y)) as [L|L]; [exact L|exfalso].
  set (z := / y) in *. clearbody z. qcq. nra.
Qed.

Lemma div_pos (x y : Qc) : 0 < x -> 0 < y -> 0 < x / y.
Proof.
  intros Hx Hy. apply inv_pos in Hy. unfold Qcdiv. set (z := / y) in *. clearbody z. qcq. nra.
Qed.

Lemma div_nonneg (x y : Qc) : 0 <= x -> 0 <= y -> 0 <= x / y.
Proof.
  intros Hx Hy. destruct (Qcle_lt_or_eq _ _ Hy) as [L|E].
  - apply inv_pos in L. unfold Qcdiv. set (z := / y) in *. clearbody z. qcq. nra.
  - subst y. rewrite div_zero by reflexivity. apply Qcle_refl.
Qed.

Lemma pos_plus_nonneg (x y : Qc) : 0 < x -> 0 <= y -> 0 < x + y.
Proof. intros. qcq. lra. Qed.
Lemma nonneg_plus_pos (x y : Qc) : 0 <= x -> 0 < y -> 0 < x + y.
Proof. intros. qcq. lra. Qed.
Lemma mul_pos (x y : Qc) : 0 < x -> 0 < y -> 0 < x * y.
Proof. intros. qcq. nra. Qed.
Lemma mul_nonneg (x y : Qc) : 0 <= x -> 0 <= y -> 0 <= x * y.
Proof. intros. qcq. nra. Qed.
Lemma sub_pos (x y : Qc) : y < x -> 0 < x - y.
Proof. intros. qcq. lra. Qed.
Lemma sub_nonneg (x y : Qc) : y <= x -> 0 <= x - y.
Proof. intros. qcq. lra. Qed.

(* N_{i,p}(u) > 0 for t_i <= u < t_{i+p+1}, provided u is not the left end of the support or the
   left end has full multiplicity (t_i = t_{i+p}) *)
Lemma N_pos_l kv u : sorted kv -> forall p i, (i + p + 1 < length kv)%nat ->
  kn kv i <= u -> u < kn kv (i + p + 1) -> (kn kv i < u \/ kn kv (i + p) <= u) -> 0 < Nref kv p i u.
Proof.
  intros Hs. induction p as [|p IH]; intros i Hi H1 H2 H3.
  - cbn [Nref]. unfold in_span. replace (i + 0 + 1)%nat with (S i) in H2 by lia.
    apply NpQ.qleb_iff in H1. apply NpQ.qltb_iff in H2. rewrite H1, H2. cbn. reflexivity.
  - cbn [Nref].
    assert (Hn1 : 0 <= Nref kv p i u) by (apply Proofs_ref.N_nonneg_l; [exact Hs|lia]).
    assert (Hn2 : 0 <= Nref kv p (S i) u) by (apply Proofs_ref.N_nonneg_l; [exact Hs|lia]).
    destruct (Qclt_le_dec u (kn kv (i + S p))) as [A|B].
    + (* u < t_{i+P}: the first term is positive *)
      assert (Hlt : kn kv i < u).
      { destruct H3 as [H3|H3]; [exact H3|]. exfalso. revert A. apply Qcle_not_lt. exact H3. }
      apply pos_plus_nonneg.
      * apply mul_pos.
        -- apply div_pos; apply sub_pos; [exact Hlt|]. eapply Qclt_trans; eassumption.
        -- apply IH; [lia|apply Qclt_le_weak; exact Hlt| |left; exact Hlt].
           replace (i + p + 1)%nat with (i + S p)%nat by lia. exact A.
      * apply mul_nonneg; [|exact Hn2].
        apply div_nonneg; apply sub_nonneg; [apply Qclt_le_weak; exact H2|]. apply Hs; lia.
    + (* t_{i+P} <= u: the second term is positive *)
      assert (Hle : kn kv (i + 1) <= u) by (eapply Qcle_trans; [|exact B]; apply Hs; lia).
      apply nonneg_plus_pos.
      * apply mul_nonneg; [|exact Hn1].
        apply div_nonneg; apply sub_nonneg; [exact H1|]. apply Hs; lia.
      * apply mul_pos.
        -- apply div_pos; apply sub_pos; [exact H2|]. eapply Qcle_lt_trans; eassumption.
        -- apply IH; [lia| | |right].
           ++ replace (S i) with (i + 1)%nat by lia. exact Hle.
           ++ replace (S i + p + 1)%nat with (i + S p + 1)%nat by lia. exact H2.
           ++ replace (S i + p)%nat with (i + S p)%nat by lia. exact B.
Qed.

(* the last function at the right end point: N_{i,p}(t_last) = 1 when t_i < t_{i+1} = t_last *)
Lemma N_right_end_l kv i : sorted kv -> kn kv i < kn kv (S i) -> kn kv (S i) = kn kv (length kv - 1) ->
  forall p, (i + p + 1 < length kv)%nat -> Nref kv p i (kn kv (length kv - 1)) = 1.
Proof.
  intros Hs Hlt Hend. set (b := kn kv (length kv - 1)) in *.
  assert (Hj : forall j, (S i <= j)%nat -> (j < length kv)%nat -> kn kv j = b).
  { intros j H1 H2. apply Qcle_antisym; [apply Hs; lia|]. rewrite <- Hend. apply Hs; lia. }
  induction p as [|p IH]; intros Hi.
  - cbn [Nref]. unfold in_span. fold b. rewrite Hend.
    assert (E1 : qeqb b b = true) by apply qeqb_refl.
    assert (E2 : qltb (kn kv i) b = true) by (apply NpQ.qltb_iff; rewrite <- Hend; exact Hlt).
    rewrite E1, E2. cbn [andb]. rewrite orb_true_r. reflexivity.
  - cbn [Nref]. rewrite IH by lia.
    rewrite (Hj (i + S p)%nat) by lia. rewrite (Hj (i + S p + 1)%nat) by lia.
    assert (Hne : b - kn kv i <> 0).
    { intros E. rewrite <- Hend in E. apply (Qclt_not_eq _ _ Hlt). qcq. lra. }
    replace (b - b) with 0 by ring. unfold Qcdiv at 2. rewrite Qcmult_0_l, Qcmult_0_l.
    field. exact Hne.
Qed.

(* the diagonal of the Greville collocation matrix of an open knot vector (p >= 1) is positive:
   N_{i,p}(g_i) > 0 for every i -- the Schoenberg-Whitney condition in its usual form *)
Lemma greville_diag_pos_l kv p i : (1 <= p)%nat -> open_kv kv p = true -> (i < numdofs kv p)%nat ->
  0 < Nref kv p i (nth i (greville kv p) 0).
Proof.
  intros Hp Hopen Hi.
  destruct (Proofs_ref.open_kv_parts kv p Hopen) as [Hlen [Hs [Hfirst [Hlast [Hfs [Hls Hmult]]]]]].
  destruct (greville_schoenberg_whitney_l kv p Hp Hopen) as [G0 [Gn Gi]].
  unfold numdofs in *.
  destruct (Nat.eq_dec i 0) as [->|Hi0].
  - rewrite G0. apply N_pos_l; [exact Hs|lia|apply Qcle_refl| |right].
    + cbn [plus]. replace (p + 1)%nat with (S p) by lia. rewrite <- (Hfirst p) by lia. exact Hfs.
    + cbn [plus]. rewrite (Hfirst p) by lia. apply Qcle_refl.
  - destruct (Nat.eq_dec i (length kv - p - 1 - 1)) as [->|Hin].
    + rewrite Gn.
      assert (E : kn kv (S (length kv - p - 1 - 1)) = kn kv (length kv - 1)).
      { replace (S (length kv - p - 1 - 1)) with (length kv - 1 - p)%nat by lia. apply Hlast. lia. }
      rewrite N_right_end_l; [reflexivity|exact Hs| |exact E|lia].
      rewrite E. replace (length kv - p - 1 - 1)%nat with (length kv - p - 2)%nat by lia.
      rewrite <- (Hlast p) by lia. replace (length kv - 1 - p)%nat with (length kv - p - 1)%nat by lia. exact Hls.
    + destruct (Gi i ltac:(lia) ltac:(lia)) as [A B].
      apply N_pos_l; [exact Hs|lia|apply Qclt_le_weak; exact A|exact B|left; exact A].
Qed.
