(* C01 -- non-vacuity: concrete inputs meet the hypotheses of each theorem, and the model
   computes what the code is known to compute on small cases. *)
From Coq Require Import List Arith Bool Lia ZArith QArith.
From Coq Require Import String.
From Verif.C06 Require Import Model.
From Verif.C01 Require Import Model Proofs Kernel Kernel2 Printer.
Import ListNotations.
Close Scope Q_scope. Open Scope nat_scope.

(* sym_index_to_seq for n = 3 enumerates the upper triangle row by row *)
Example ex_sym3 : map (fun ij => sym_index_to_seq 3 (fst ij) (snd ij))
                      [(0,0);(0,1);(0,2);(1,1);(1,2);(2,2);(2,0);(1,0)] = [0;1;2;3;4;5;2;1].
Proof. vm_compute. reflexivity. Qed.

(* a symmetric 3x3 variable after a vector and a scalar: offsets 0, 3, 4, total 10 *)
Definition ex_vars := [mkVar [3] false; mkVar [] false; mkVar [3;3] true; mkVar [2;3] false].
Example ex_alloc : allocate_array ex_vars = ([(3,0);(1,3);(6,4);(6,10)], 16).
Proof. vm_compute. reflexivity. Qed.
Example ex_wf : Forall wf_var ex_vars.
Proof. repeat constructor. Qed.
Example ex_valid : valid_index (nth 2 ex_vars dvar) [2;1] /\ valid_index (nth 3 ex_vars dvar) [1;2].
Proof. split; repeat constructor. Qed.
Example ex_slot : var_ref_slot ex_vars 2 [2;1] = 8 /\ var_ref_slot ex_vars 2 [1;2] = 8
                  /\ var_ref_slot ex_vars 3 [1;2] = 15.
Proof. vm_compute. auto. Qed.
Example ex_assigned : assigned_entries 3 3 true = [(0,0);(0,1);(0,2);(1,1);(1,2);(2,2)].
Proof. vm_compute. reflexivity. Qed.

(* gen_pderiv for D = (Dx,Dy,Dz) = (2,0,1), numderiv 2: axis 0 (z) reads offset 1, axis 2 (x) offset 2 *)
Example ex_pderiv : gen_pderiv 3 2 [2;0;1] = [(0,3,1);(1,3,0);(2,3,2)].
Proof. vm_compute. reflexivity. Qed.

(* from_seq3 / ravel on shape (2,3,4) *)
Example ex_from_seq : from_seq [2;3;4] 17 = [1;1;1] /\ ravel_multi_index [1;1;1] [2;3;4] = 17.
Proof. vm_compute. auto. Qed.
Example ex_in_range : Forall2 lt [1;1;1] [2;3;4].
Proof. repeat constructor. Qed.

(* next_lexicographic2 on ndofs (2,3): visits (0,0),(0,1),(0,2),(1,0),(1,1),(1,2); lists are last-axis-first *)
Example ex_visit : visit_r 6 [0;0] [0;0] [3;2] = [[0;0];[1;0];[2;0];[0;1];[1;1];[2;1]].
Proof. vm_compute. reflexivity. Qed.
Example ex_pos : Forall (fun e => 0 < e) [3;2].
Proof. repeat constructor. Qed.

(* knot vector (0,0,0,1/2,1/2,1,1,1)*2, p = 2, nqp = 3: supports in Gauss-node units *)
Example ex_meshsupp : meshsupp 3 2 [0;0;0;1;1;2;2;2]%Z = [(0,3);(0,3);(0,6);(3,6);(3,6)].
Proof. vm_compute. reflexivity. Qed.
Example ex_nqp_spaces : nqp_spaces [1;1] [1;3] = 4 /\ nqp_spaces [3;1] [1;2] = 4 /\ nqp_spaces [2] [2] = 3.
Proof. vm_compute. auto. Qed.
Example ex_nqp : nqp [2;3;1] = 4.
Proof. vm_compute. reflexivity. Qed.

(* the entry loop over (nat, 0, +): supports [0,6) x [3,9) and [3,9) x [0,6) on a 9 x 9 grid of
   nodes; the integrand is the indicator of the joint support times a weight: hypotheses of
   entry_is_full_gauss_sum hold and both sides are 9 * 7 = 63 *)
Definition ex_s1 := [(0,6);(3,9)].
Definition ex_s2 := [(3,9);(0,6)].
Definition ex_f (idx : list nat) : nat := if in_box ex_s1 idx && in_box ex_s2 idx then 7 else 0.
Example ex_entry : entry_impl nat 0 Nat.add ex_s1 ex_s2 ex_f = 63
  /\ sum_box nat 0 Nat.add (full_box [9;9]) ex_f = 63.
Proof. vm_compute. auto. Qed.
Example ex_local : forall idx, in_box ex_s1 idx = false \/ in_box ex_s2 idx = false -> ex_f idx = 0.
Proof. intros idx [H|H]; unfold ex_f; rewrite H; [reflexivity | rewrite andb_false_r; reflexivity]. Qed.
Example ex_bounds : Forall2 (fun s N => snd s <= N) ex_s1 [9;9] /\ Forall2 (fun s N => snd s <= N) ex_s2 [9;9].
Proof. split; repeat constructor; simpl; lia. Qed.
(* without locality the two sides differ: the hypothesis is necessary *)
Example ex_nonlocal : entry_impl nat 0 Nat.add ex_s1 ex_s2 (fun _ => 1) = 9
  /\ sum_box nat 0 Nat.add (full_box [9;9]) (fun _ => 1) = 81.
Proof. vm_compute. auto. Qed.
(* disjoint supports along axis 1 *)
Example ex_disjoint : entry_impl nat 0 Nat.add [(0,6);(0,3)] [(3,9);(3,6)] (fun _ => 1) = 0.
Proof. vm_compute. reflexivity. Qed.
(* on-demand: bounding box starting at node (3,0) *)
Example ex_bbox : entry_ranges ex_s1 ex_s2 = Some [(3,3);(3,3)] /\ Forall2 le [3;0] (map fst [(3,3);(3,3)])
  /\ entry_impl_od nat 0 Nat.add [3;0] ex_s1 ex_s2 (fun idx => ex_f (add_ofs [3;0] idx)) = 63.
Proof. split; [vm_compute; reflexivity|]. split; [repeat constructor|vm_compute; reflexivity]. Qed.

(* gauss_rule with the 2-point reference rule (exact rational stand-in nodes +-1/2, weights 1) on (1, 4) *)
Example ex_gauss : Qeq (qsum (map snd (gauss_interval [((-1 # 2)%Q, (1 # 1)%Q); ((1 # 2)%Q, (1 # 1)%Q)] (1 # 1) (4 # 1)))) (3 # 1).
Proof. vm_compute. reflexivity. Qed.

(* ---- the kernel model (Kernel.v) on a concrete scheduled forest over Z -------------------------------
   input field f (global, fields[0]), parameter c (constants[0]);
   kernel-local variables  t = f * gw0   and   w = (t + c, t * t)   (a vector);
   integrands  w[0] * u_x * v   and   -(w[1]) * u * v.                                              *)
Open Scope string_scope.
Definition zexpr := expr Z.
Definition ex_lay (n : string) (k : nat) : loc :=
  if String.eqb n "f" then LField k else if String.eqb n "c" then LConst k else LLocal n k.
Definition ex_shp (n : string) : list nat := if String.eqb n "w" then [2] else [].
Definition ex_sz (n : string) : nat := if String.eqb n "w" then 2 else 1.
Definition vr (n : string) (Ix : list nat) : zexpr := VR n Ix [0] false.
Definition ex_ds : list (def Z) :=
  [("t", TS (Op OMul (vr "f" []) (GW 0)));
   ("w", TLV [Op OAdd (vr "t" []) (vr "c" []); Op OMul (vr "t" []) (vr "t" [])])].
Definition ex_es : list zexpr :=
  [Op OMul (Op OMul (vr "w" [0]) (PD "u" None [1] false)) (PD "v" None [0] false);
   Op OMul (Op OMul (Neg (vr "w" [1])) (PD "u" None [0] false)) (PD "v" None [0] false)].
Definition ex_known := ["f"; "c"].
Close Scope string_scope.

Example ex_compiles : exists cs, omap (compile Z ex_lay ex_shp) ex_es = Some cs.
Proof. eexists. vm_compute. reflexivity. Qed.

Example ex_wf_prog : wf_prog Z ex_lay ex_shp ex_sz ex_known ex_ds.
Proof.
  simpl. split; [|split].
  - eexists; eexists. split; [vm_compute; reflexivity|]. split; [vm_compute; reflexivity|].
    split; [repeat (apply Forall_cons); try apply Forall_nil; vm_compute; repeat split; auto 10 | split; reflexivity].
  - intros [H|[H|[]]]; discriminate.
  - split; [|split].
    + eexists; eexists. split; [vm_compute; reflexivity|]. split; [vm_compute; reflexivity|].
      split; [repeat (apply Forall_cons); try apply Forall_nil; vm_compute; repeat split; auto 10 | split; reflexivity].
    + intros [H|[H|[H|[]]]]; discriminate.
    + exact I.
Qed.

Example ex_integrands_wf : Forall (wfe Z ex_shp ex_sz (names_after Z ex_known ex_ds)) ex_es.
Proof. repeat (apply Forall_cons); try apply Forall_nil; vm_compute; repeat split; auto 10. Qed.

Example ex_lay_inj : forall n k n' k', ex_lay n k = ex_lay n' k' -> n = n' /\ k = k'.
Proof.
  intros n k n' k'. unfold ex_lay.
  destruct (String.eqb_spec n "f"); destruct (String.eqb_spec n' "f");
  destruct (String.eqb_spec n "c"); destruct (String.eqb_spec n' "c"); intros H; inversion H; subst; auto; congruence.
Qed.

(* one node: f = 3, c = 5, gw0 = 2, u_x = 7, u = 11, v = 13:  t = 6, w = (11, 36);
   the emitted program and the C06 evaluator both give [11*7*13; -36*11*13] *)
Definition ex_nc : nctx Z := mkN Z (fun n D => if String.eqb n "u" then (if list_eqb D [1%nat] then 7%Z else 11%Z) else 13%Z)
                                   (fun _ => 2%Z) (fun _ x => x).
Definition ex_st : store Z := fun l => match l with LField 0 => 3%Z | LConst 0 => 5%Z | _ => 0%Z end.
Definition ex_en : env Z := mkEnv (fun n _ D _ => pdv Z ex_nc n D)
  (fun n _ _ _ => if String.eqb n "f" then 3%Z else if String.eqb n "c" then 5%Z else 0%Z)
  (fun _ => 2%Z) 0%Z 0%Z (fun _ x => x).
Example ex_kernel_values :
  match omap (compile Z ex_lay ex_shp) ex_es with
  | Some cs => map (ceval Z Z.add Z.mul Z.sub Z.div Z.opp ex_nc
                      (run_defs Z Z.add Z.mul Z.sub Z.div Z.opp ex_lay ex_shp ex_nc ex_st ex_ds)) cs
  | None => [] end = [1001%Z; (-5148)%Z]
  /\ map (eval Z Z.add Z.mul Z.sub Z.div Z.opp (eval_defs Z 0%Z Z.add Z.mul Z.sub Z.div Z.opp ex_en ex_ds)) ex_es
     = [1001%Z; (-5148)%Z].
Proof. vm_compute. auto. Qed.
Example ex_agree : Agree Z ex_lay ex_shp ex_sz ex_st ex_en ex_known /\ Ctx Z ex_nc ex_en.
Proof.
  split.
  - intros n Ix D p [H|[H|[]]] Hlt _; subst n; vm_compute in Hlt; vm_compute.
    + destruct Ix; [reflexivity | reflexivity].
    + destruct Ix; reflexivity.
  - repeat split.
Qed.

(* ---- concrete syntax: x / (a * b) over nat-coded atoms ------------------------------------------------- *)
Definition ex_x : cexpr nat := CRead nat (LField 0).
Definition ex_a : cexpr nat := CRead nat (LField 1).
Definition ex_b : cexpr nat := CNeg nat (CConst nat 2).
Definition ex_q : cexpr nat := COp nat ODiv ex_x (COp nat OMul ex_a ex_b).
Example ex_print : print nat ex_q =
  [TLP nat; TLoc nat (LField 0); TOp nat ODiv; TLP nat; TLoc nat (LField 1); TOp nat OMul; TMinus nat; TNum nat 2; TRP nat; TRP nat].
Proof. reflexivity. Qed.
Example ex_roundtrip : parse nat (print nat ex_q) = Some ex_q.
Proof. vm_compute. reflexivity. Qed.
(* without brackets around products the text `(x / a * -2)` is read as (x / a) * -2: a different tree *)
Example ex_nomul_differs : parse nat (print_nomul nat ex_q) = Some (COp nat OMul (COp nat ODiv ex_x ex_a) ex_b)
  /\ parse nat (print_nomul nat ex_q) <> Some ex_q.
Proof. split; [vm_compute; reflexivity | vm_compute; discriminate]. Qed.
(* left associativity and levels: a - b - c * d / e reads ((a - b) - ((c * d) / e)) *)
Example ex_levels :
  parse nat [TNum nat 1; TOp nat OSub; TNum nat 2; TMinus nat; TNum nat 3; TOp nat OMul; TNum nat 4; TOp nat ODiv; TNum nat 5]
  = Some (COp nat OSub (COp nat OSub (CConst nat 1) (CConst nat 2))
            (COp nat ODiv (COp nat OMul (CConst nat 3) (CConst nat 4)) (CConst nat 5))).
Proof. vm_compute. reflexivity. Qed.

(* ---- two phases: t is precomputed into fields[1], w is a kernel-local vector ------------------------------------ *)
Open Scope string_scope.
Definition ex_lay2 (n : string) (k : nat) : loc :=
  if String.eqb n "f" then LField k else if String.eqb n "c" then LConst k
  else if String.eqb n "t" then LField (1 + k) else LLocal n k.
Definition ex_pre : list (def Z) := [("t", TS (Op OMul (vr "f" []) (GW 0)))].
Definition ex_ker : list (def Z) := [("w", TLV [Op OAdd (vr "t" []) (vr "c" []); Op OMul (vr "t" []) (vr "t" [])])].
Definition ex_G := ["t"; "f"; "c"].
Close Scope string_scope.
(* precompute runs WITHOUT basis-function jets (pdv = 0) *)
Definition ex_nc_pre : nctx Z := mkN Z (fun _ _ => 0%Z) (fun _ => 2%Z) (fun _ x => x).
(* the kernel's store: what precompute left in fields/constants, garbage (99) in every local *)
Definition ex_st2 : store Z := fun l =>
  if is_glob l then run_defs Z Z.add Z.mul Z.sub Z.div Z.opp ex_lay2 ex_shp ex_nc_pre ex_st ex_pre l else 99%Z.
Example ex_two_phase_hyps :
  wf_prog Z ex_lay2 ex_shp ex_sz ex_known ex_pre /\ nobf_defs Z ex_pre /\ incl ex_G (names_after Z ex_known ex_pre)
  /\ (forall n k, In n ex_G -> is_glob (ex_lay2 n k) = true) /\ wf_prog Z ex_lay2 ex_shp ex_sz ex_G ex_ker
  /\ Forall (wfe Z ex_shp ex_sz (names_after Z ex_G ex_ker)) ex_es.
Proof.
  split; [|split; [|split; [|split; [|split]]]].
  - simpl. split; [|split; [intros [H|[H|[]]]; discriminate | exact I]].
    eexists; eexists. split; [vm_compute; reflexivity|]. split; [vm_compute; reflexivity|].
    split; [repeat (apply Forall_cons); try apply Forall_nil; vm_compute; repeat split; auto 10 | split; reflexivity].
  - repeat constructor.
  - intros x Hx. vm_compute in Hx |- *. tauto.
  - intros n k [H|[H|[H|[]]]]; subst n; reflexivity.
  - simpl. split; [|split; [intros [H|[H|[H|[]]]]; discriminate | exact I]].
    eexists; eexists. split; [vm_compute; reflexivity|]. split; [vm_compute; reflexivity|].
    split; [repeat (apply Forall_cons); try apply Forall_nil; vm_compute; repeat split; auto 10 | split; reflexivity].
  - repeat (apply Forall_cons); try apply Forall_nil; vm_compute; repeat split; auto 10.
Qed.
Example ex_two_phase_values :
  match omap (compile Z ex_lay2 ex_shp) ex_es with
  | Some cs => map (ceval Z Z.add Z.mul Z.sub Z.div Z.opp ex_nc
                      (run_defs Z Z.add Z.mul Z.sub Z.div Z.opp ex_lay2 ex_shp ex_nc ex_st2 ex_ker)) cs
  | None => [] end = [1001%Z; (-5148)%Z]
  /\ map (eval Z Z.add Z.mul Z.sub Z.div Z.opp (eval_defs Z 0%Z Z.add Z.mul Z.sub Z.div Z.opp ex_en (ex_pre ++ ex_ker))) ex_es
     = [1001%Z; (-5148)%Z].
Proof. vm_compute. auto. Qed.

(* ---- symmetric 2x2 variable at offset 3 of `fields`: B = [[5,7],[7,9]]; B[1,0] reads the slot of B[0,1] ----------- *)
Definition ex_B (i j : nat) : Z := match i, j with 0, 0 => 5%Z | 1, 1 => 9%Z | _, _ => 7%Z end.
Example ex_sym_store :
  let st' := write_all Z LField (fun _ => 0%Z) (sym_writes Z 2 3 ex_B) in
  sym_writes Z 2 3 ex_B = [(3, 5%Z); (4, 7%Z); (5, 9%Z)]
  /\ st' (LField (3 + sym_index_to_seq 2 1 0)) = 7%Z /\ st' (LField (3 + sym_index_to_seq 2 0 1)) = 7%Z
  /\ st' (LField 5) = 9%Z /\ st' (LField 6) = 0%Z.
Proof. vm_compute. auto 10. Qed.
Example ex_B_symmetric : forall i j, i < 2 -> j < 2 -> ex_B i j = ex_B j i.
Proof. intros [|[|i]] [|[|j]] Hi Hj; try lia; reflexivity. Qed.

(* ---- vector kernel with 2 components and two integrand vectors ----------------------------------------------------- *)
Example ex_vec_kernel :
  let css := [[CConst Z 1%Z; CConst Z 10%Z]; [CGW Z 0; CNeg Z (CConst Z 3%Z)]] in
  let r := kernel_body_vec Z Z.add Z.mul Z.sub Z.div Z.opp ex_nc ex_st css (fun _ => 0%Z) in
  r 0 = 3%Z /\ r 1 = 7%Z /\ comp Z 1 css = [CConst Z 10%Z; CNeg Z (CConst Z 3%Z)].
Proof. vm_compute. auto. Qed.
