(* C11 -- smoothing sets on the C04 model of HSpace (coq/C04/Model.v, Boundary.v; read-only):
   the canonical indices returned by indices_to_smooth('new' / 'cell_supp') for a virtual level
   are valid positions of that level's dof list, contain no Dirichlet dof and contain every
   non-Dirichlet function new on the level.  For EVERY hspace state (no invariant needed). *)
From Coq Require Import List Arith Bool Lia.
From Verif.lib Require Import FinSet.
From Verif.C04 Require Import Model Boundary.
Import ListNotations.

(* the dofs of virtual level lv in matrix order: (space level, multi-index) *)
Definition flat_levels (st : hspace) (lv : nat) (ls : list nat) : list (nat * mi) :=
  concat (map (fun l => map (pair l) (global_indices st lv l)) ls).
Definition vflat (st : hspace) (lv : nat) : list (nat * mi) := flat_levels st lv (seq 0 (numlevels st)).
(* the functions a levelwise index family selects *)
Definition selected (indices : nat -> list mi) (ls : list nat) : list (nat * mi) :=
  concat (map (fun l => map (pair l) (indices l)) ls).

Lemma nth_error_skipn_add : forall (A : Type) k (l : list A) m, nth_error (skipn k l) m = nth_error l (k + m).
Proof. induction k; intros [|a l] m; simpl; auto. destruct m; reflexivity. Qed.

Lemma index_from_spec : forall x l pos p, index_from x l pos = Some p ->
  (pos <= p)%nat /\ nth_error l (p - pos) = Some x.
Proof.
  induction l as [|y l IH]; intros pos p H; simpl in H; [discriminate|].
  destruct (mi_eqb x y) eqn:E.
  - inversion H; subst. apply mi_eqb_eq in E. subst. split; [lia|]. rewrite Nat.sub_diag. reflexivity.
  - apply IH in H. destruct H as [H1 H2]. split; [lia|].
    replace (p - pos)%nat with (S (p - S pos)) by lia. exact H2.
Qed.

Lemma position_index_spec : forall sup sub k r, position_index sup k sub = Some r ->
  Forall2 (fun p x => nth_error sup p = Some x) r sub.
Proof.
  induction sub as [|x sub IH]; intros k r H; simpl in H.
  - inversion H. constructor.
  - destruct (index_from x (skipn k sup) k) as [k'|] eqn:E; [|discriminate].
    destruct (position_index sup k' sub) as [r'|] eqn:E2; [|discriminate].
    inversion H; subst. constructor; [|eapply IH; eauto].
    apply index_from_spec in E. destruct E as [E1 E3]. rewrite nth_error_skipn_add in E3.
    replace (k + (k' - k))%nat with k' in E3 by lia. exact E3.
Qed.

Lemma Forall2_app_inv : forall (A B : Type) (R : A -> B -> Prop) a1 a2 b1 b2,
  Forall2 R a1 b1 -> Forall2 R a2 b2 -> Forall2 R (a1 ++ a2) (b1 ++ b2).
Proof. intros. apply Forall2_app; assumption. Qed.

Lemma Forall2_weaken : forall (A B : Type) (R R' : A -> B -> Prop) a b,
  (forall x y, R x y -> R' x y) -> Forall2 R a b -> Forall2 R' a b.
Proof. induction 2; constructor; auto. Qed.

Lemma Forall2_map_both : forall (A B C D : Type) (R : C -> D -> Prop) (f : A -> C) (g : B -> D) a b,
  Forall2 (fun x y => R (f x) (g y)) a b -> Forall2 R (map f a) (map g b).
Proof. induction 1; simpl; constructor; auto. Qed.

Lemma canonical_aux_spec : forall st lv indices ls n0 S,
  canonical_aux st lv indices ls n0 = Some S ->
  Forall2 (fun p lx => (n0 <= p)%nat /\ nth_error (flat_levels st lv ls) (p - n0) = Some lx)
          S (selected indices ls).
Proof.
  induction ls as [|l ls IH]; intros n0 S H; simpl in H.
  - inversion H. constructor.
  - destruct (position_index (global_indices st lv l) 0 (indices l)) as [r|] eqn:E1; [|discriminate].
    destruct (canonical_aux st lv indices ls (n0 + length (global_indices st lv l))) as [rest|] eqn:E2; [|discriminate].
    inversion H; subst. unfold selected, flat_levels. simpl. apply Forall2_app.
    + apply position_index_spec in E1. apply Forall2_map_both.
      eapply Forall2_weaken; [|exact E1]. intros p x Hp. simpl in Hp.
      split; [lia|]. replace (n0 + p - n0)%nat with p by lia.
      rewrite nth_error_app1 by (rewrite map_length; apply nth_error_Some; congruence).
      apply map_nth_error. exact Hp.
    + apply IH in E2. unfold selected, flat_levels in E2.
      eapply Forall2_weaken; [|exact E2]. intros p lx [H1 H2]. simpl in *.
      split; [lia|].
      rewrite nth_error_app2 by (rewrite map_length; lia). rewrite map_length.
      replace (p - n0 - length (global_indices st lv l))%nat with (p - (n0 + length (global_indices st lv l)))%nat by lia.
      exact H2.
Qed.

Lemma virtual_canonical_spec : forall st lv indices S,
  virtual_canonical st lv indices = Some S ->
  Forall2 (fun p lx => nth_error (vflat st lv) p = Some lx) S (selected indices (seq 0 (numlevels st))).
Proof.
  intros. apply canonical_aux_spec in H. unfold vflat.
  eapply Forall2_weaken; [|exact H]. intros p lx [_ E]. simpl in E. rewrite Nat.sub_0_r in E. exact E.
Qed.

Lemma Forall2_In_l : forall (A B : Type) (R : A -> B -> Prop) a b x,
  Forall2 R a b -> In x a -> exists y, In y b /\ R x y.
Proof.
  induction 1; intros Hin; [contradiction|]. destruct Hin as [<-|Hin].
  - exists y. split; [left; reflexivity|assumption].
  - destruct (IHForall2 Hin) as (z & Hz & Rz). exists z. split; [right|]; assumption.
Qed.

Lemma Forall2_In_r : forall (A B : Type) (R : A -> B -> Prop) a b y,
  Forall2 R a b -> In y b -> exists x, In x a /\ R x y.
Proof.
  induction 1; intros Hin; [contradiction|]. destruct Hin as [<-|Hin].
  - exists x. split; [left; reflexivity|assumption].
  - destruct (IHForall2 Hin) as (z & Hz & Rz). exists z. split; [right|]; assumption.
Qed.

Lemma selected_In : forall indices ls l x, In (l, x) (selected indices ls) <-> In l ls /\ In x (indices l).
Proof.
  intros. unfold selected. rewrite in_concat. split.
  - intros (s & Hs & Hx). apply in_map_iff in Hs. destruct Hs as (l' & <- & Hl').
    apply in_map_iff in Hx. destruct Hx as (x' & E & Hx'). inversion E; subst. auto.
  - intros [Hl Hx]. exists (map (pair l) (indices l)). split.
    + apply in_map_iff. exists l. auto.
    + apply in_map. exact Hx.
Qed.

(* ---- set level: what the strategies select ---- *)
Lemma list_dirichlet_index : forall st bds lv i x,
  In x (list_dirichlet st bds lv i) <-> In x (index_dirichlet st bds lv i).
Proof.
  intros. unfold list_dirichlet, index_dirichlet.
  destruct (i <? lv); [tauto|]. destruct (i =? lv); [|tauto].
  rewrite in_app_iff, union_In. tauto.
Qed.

Lemma new_indices_spec : forall st bds lv i x,
  In x (new_indices st bds lv i) <->
  i = lv /\ (In x (lv_actfun (lvl st i)) \/ In x (lv_deactfun (lvl st i))) /\ ~ In x (index_dirichlet st bds lv i).
Proof.
  intros. unfold new_indices. destruct (Nat.eqb_spec i lv).
  - rewrite in_app_iff, !diff_In. tauto.
  - simpl. tauto.
Qed.

Lemma cell_supp_no_dirichlet : forall st bds disp lv i x,
  In x (cell_supp_indices st bds true disp lv i) -> ~ In x (index_dirichlet st bds lv i).
Proof.
  intros st bds disp lv i x H. unfold cell_supp_indices in H.
  destruct ((i <? lv) && in_window disp lv i).
  - apply diff_In in H. tauto.
  - apply new_indices_spec in H. tauto.
Qed.

Lemma cell_supp_contains_new : forall st bds disp lv x,
  In x (new_indices st bds lv lv) -> In x (cell_supp_indices st bds true disp lv lv).
Proof.
  intros. unfold cell_supp_indices. rewrite Nat.ltb_irrefl. simpl. exact H.
Qed.

(* ---- canonical level ---- *)
Section Spec.
  Variable st : hspace.
  Variable bds : list bdspec.
  Variable lv : nat.
  (* a strategy: a levelwise family that avoids the Dirichlet functions and contains the new ones *)
  Variable indices : nat -> list mi.
  Hypothesis no_dir : forall i x, In x (indices i) -> ~ In x (index_dirichlet st bds lv i).
  Hypothesis has_new : forall x, In x (new_indices st bds lv lv) -> In x (indices lv).

  Lemma smoothing_valid : forall S, virtual_canonical st lv indices = Some S ->
    forall p, In p S -> (p < length (vflat st lv))%nat.
  Proof.
    intros S H p Hp. apply virtual_canonical_spec in H.
    destruct (Forall2_In_l _ _ _ _ _ p H Hp) as (lx & _ & E). apply nth_error_Some. congruence.
  Qed.

  Lemma smoothing_no_dirichlet : forall S D,
    virtual_canonical st lv indices = Some S -> dirichlet_dofs st bds lv = Some D ->
    forall p, In p S -> ~ In p D.
  Proof.
    intros S D HS HD p Hp Hd. apply virtual_canonical_spec in HS. apply virtual_canonical_spec in HD.
    destruct (Forall2_In_l _ _ _ _ _ p HS Hp) as ([l x] & I1 & E1).
    destruct (Forall2_In_l _ _ _ _ _ p HD Hd) as ([l' x'] & I2 & E2).
    rewrite E1 in E2. inversion E2; subst.
    apply selected_In in I1. apply selected_In in I2.
    apply (no_dir l' x'); [tauto|]. apply list_dirichlet_index. tauto.
  Qed.

  Lemma smoothing_contains_new : forall S, virtual_canonical st lv indices = Some S ->
    (lv < numlevels st)%nat ->
    forall x, (In x (lv_actfun (lvl st lv)) \/ In x (lv_deactfun (lvl st lv))) ->
              ~ In x (index_dirichlet st bds lv lv) ->
    exists p, In p S /\ nth_error (vflat st lv) p = Some (lv, x).
  Proof.
    intros S H Hlv x Hx Hnd. apply virtual_canonical_spec in H.
    apply (Forall2_In_r _ _ _ _ _ (lv, x) H). apply selected_In. split.
    - apply in_seq. lia.
    - apply has_new. apply new_indices_spec. tauto.
  Qed.
End Spec.

(* the two strategies the C04 model covers *)
Lemma smoothing_sets_spec_l : forall st bds lv S,
  (smooth_new st bds lv = Some S \/ smooth_cell_supp st bds lv = Some S) ->
  (forall p, In p S -> (p < length (vflat st lv))%nat) /\
  (forall D, dirichlet_dofs st bds lv = Some D -> forall p, In p S -> ~ In p D) /\
  ((lv < numlevels st)%nat ->
   forall x, (In x (lv_actfun (lvl st lv)) \/ In x (lv_deactfun (lvl st lv))) ->
             ~ In x (index_dirichlet st bds lv lv) ->
   exists p, In p S /\ nth_error (vflat st lv) p = Some (lv, x)).
Proof.
  intros st bds lv S [H|H]; unfold smooth_new, smooth_cell_supp in H.
  - split; [|split].
    + exact (smoothing_valid st lv _ S H).
    + intros D HD.
      exact (smoothing_no_dirichlet st bds lv _
               (fun i x Hx => proj2 (proj2 (proj1 (new_indices_spec st bds lv i x) Hx))) S D H HD).
    + intros Hlv. exact (smoothing_contains_new st bds lv _ (fun x Hx => Hx) S H Hlv).
  - split; [|split].
    + exact (smoothing_valid st lv _ S H).
    + intros D HD.
      exact (smoothing_no_dirichlet st bds lv _ (cell_supp_no_dirichlet st bds (hs_disparity st) lv) S D H HD).
    + intros Hlv.
      exact (smoothing_contains_new st bds lv _ (cell_supp_contains_new st bds (hs_disparity st) lv) S H Hlv).
Qed.

(* the Dirichlet dofs themselves are valid positions holding exactly functions of the Dirichlet sets *)
Lemma dirichlet_dofs_spec_l : forall st bds lv D, dirichlet_dofs st bds lv = Some D ->
  forall p, In p D -> exists l x, nth_error (vflat st lv) p = Some (l, x) /\ In x (index_dirichlet st bds lv l).
Proof.
  intros st bds lv D H p Hp. apply virtual_canonical_spec in H.
  destruct (Forall2_In_l _ _ _ _ _ p H Hp) as ([l x] & I & E). exists l, x. split; [exact E|].
  apply selected_In in I. apply list_dirichlet_index. tauto.
Qed.
