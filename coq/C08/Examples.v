(* C08 -- non-vacuity: concrete inputs meet the hypotheses of the theorems. *)
From Coq Require Import ZArith List Bool Arith Lia.
From Verif.C08 Require Import Model Proofs.
Import ListNotations.

(* chunk_tasks(range(10), 3) = [0..3], [4..7], [8,9]   (n = 10 // 3 + 1 = 4) *)
Example ex_chunks : chunk_tasks (seq 0 10) 3 = [[0;1;2;3];[4;5;6;7];[8;9]]%nat.
Proof. vm_compute. reflexivity. Qed.

(* more threads than tasks: one task per chunk, fewer chunks than threads *)
Example ex_chunks_small : chunk_tasks (seq 0 3) 8 = [[0];[1];[2]]%nat.
Proof. vm_compute. reflexivity. Qed.

(* a genuinely interleaved schedule of the pool's tasks for 5 indices, 2 threads
   (chunks [0,1,2] and [3,4]): thread 1 starts, thread 0 runs, thread 1 finishes *)
Definition ex_entry (i : nat) : Z := Z.of_nat (i * i + 1).
Definition ex_idx : list nat := [7; 3; 3; 0; 9]%nat.
Definition ex_sched : list (op nat Z) :=
  [Wr 3%nat (ex_entry 0); Wr 0%nat (ex_entry 7); Wr 1%nat (ex_entry 3); Wr 4%nat (ex_entry 9); Wr 2%nat (ex_entry 3)].

Example ex_pool_tasks : pool_tasks ex_entry ex_idx 2 =
  [[Wr 0%nat (ex_entry 7); Wr 1%nat (ex_entry 3); Wr 2%nat (ex_entry 3)]; [Wr 3%nat (ex_entry 0); Wr 4%nat (ex_entry 9)]].
Proof. vm_compute. reflexivity. Qed.

Example ex_interleave : interleave (pool_tasks ex_entry ex_idx 2) ex_sched.
Proof.
  rewrite ex_pool_tasks. unfold ex_sched.
  apply (il_step [[Wr 0%nat (ex_entry 7); Wr 1%nat (ex_entry 3); Wr 2%nat (ex_entry 3)]] _ [Wr 4%nat (ex_entry 9)] []).
  apply (il_step [] _ [Wr 1%nat (ex_entry 3); Wr 2%nat (ex_entry 3)] [[Wr 4%nat (ex_entry 9)]]).
  apply (il_step [] _ [Wr 2%nat (ex_entry 3)] [[Wr 4%nat (ex_entry 9)]]).
  apply (il_step [[Wr 2%nat (ex_entry 3)]] _ [] []).
  apply (il_step [] _ [] [[]]).
  constructor. repeat constructor.
Qed.

Example ex_pool_result :
  read_back 5 (exec Nat.eqb ex_sched (fun _ => 0%Z)) = map ex_entry ex_idx.
Proof. exact (pool_result_l nat Z ex_entry ex_idx 2 ex_sched (fun _ => 0%Z) ex_interleave). Qed.

(* symmetric pattern of a 3x3 tridiagonal matrix and a symmetric entry function *)
Open Scope Z_scope.
Definition ex_P : list (Z * Z) := [(0,0);(0,1);(1,0);(1,1);(1,2);(2,1);(2,2)].
Definition ex_e (p : Z * Z) : Z := 10 * (fst p + snd p) + fst p * snd p + 1.

Example ex_P_nodup : NoDup ex_P.
Proof. repeat (constructor; [simpl; intuition congruence|]). constructor. Qed.

Example ex_P_symmetric : forall p, In p ex_P -> In (swap p) ex_P.
Proof. intros p H. simpl in H. repeat (destruct H as [<-|H]; [simpl; tauto|]). destruct H. Qed.

Example ex_e_symmetric : forall p, In p ex_P -> ex_e (swap p) = ex_e p.
Proof. intros [a b] _. unfold ex_e, swap. cbn [fst snd]. ring. Qed.

Example ex_sym_triples :
  assemble_entries (fun v : Z => v) true ex_P ex_e =
  [((0,0),1); ((1,0),11); ((1,1),22); ((2,1),33); ((2,2),45); ((0,1),11); ((1,2),33)].
Proof. vm_compute. reflexivity. Qed.

Example ex_sym_upper : den 0 Z.add (assemble_entries (fun v : Z => v) true ex_P ex_e) (1,2) = 33.
Proof. vm_compute. reflexivity. Qed.

(* an unsymmetric entry function: the hypothesis of symmetric_equals_full is needed *)
Example ex_unsym_differs :
  den 0 Z.add (assemble_entries (fun v : Z => v) true ex_P (fun p => fst p)) (0,1) <>
  den 0 Z.add (assemble_entries (fun v : Z => v) false ex_P (fun p => fst p)) (0,1).
Proof. vm_compute. discriminate. Qed.

(* layouts: 2 levels of sizes (3,3) and (2,4), component block 3 x 2 (non-square) *)
Example ex_layout :
  key_packed [(3,3);(2,4)] (3,2) [(2,1);(1,3)] (2,1) = (17, 15) /\
  key_blocked [(3,3);(2,4)] (3,2) [(2,1);(1,3)] (2,1) = (17, 19) /\
  perm 6 3 17 = 17 /\ perm 12 2 15 = 19.
Proof. vm_compute. auto. Qed.

Example ex_layout_ranges :
  in_ranges (map fst [(2,1);(1,3)]) (map fst [(3,3);(2,4)]) /\ in_ranges (map snd [(2,1);(1,3)]) (map snd [(3,3);(2,4)]).
Proof. split; simpl; repeat (apply Forall2_cons; [lia|]); apply Forall2_nil. Qed.

(* generic core: one level with the dense 2x2 pattern, scalar "blocks"; B is NOT symmetric,
   so the result shows the skip rule (entry (0,1) never computed) and the mirrored store *)
Definition ex_b0 : list (Z * Z) := [(0,0);(0,1);(1,0);(1,1)].
Definition ex_t0 : list nat := [0;2;1;3]%nat.
Definition ex_B (i j : list Z) (c : nat) : Z := 10 * hd 0 i + hd 0 j + 1.

Example ex_transpose_idx : transpose_idx ex_b0 = Some ex_t0.
Proof. vm_compute. reflexivity. Qed.

Example ex_core_full : core_entries 0 1 1 ex_B false [(ex_b0, ex_t0)] = [1; 2; 11; 12].
Proof. vm_compute. reflexivity. Qed.

Example ex_core_sym : core_entries 0 1 1 ex_B true [(ex_b0, ex_t0)] = [1; 11; 11; 12].
Proof. vm_compute. reflexivity. Qed.

(* two levels, 2x2 component blocks: the tasks of the prange *)
Example ex_core_tasks_count :
  length (core_tasks 2 2 ex_B true [(ex_b0, ex_t0); (ex_b0, ex_t0)]) = 4%nat /\
  nth 1 (core_tasks 2 2 ex_B true [(ex_b0, ex_t0); (ex_b0, ex_t0)]) [] = [] /\
  length (nth 2 (core_tasks 2 2 ex_B true [(ex_b0, ex_t0); (ex_b0, ex_t0)]) []) = 32%nat.
Proof. vm_compute. auto. Qed.

Example ex_b0_nodup : NoDup (fst (ex_b0, ex_t0)).
Proof. simpl. repeat (constructor; [simpl; intuition congruence|]). constructor. Qed.

Example ex_transp_ok : transp_ok (ex_b0, ex_t0).
Proof.
  intros m Hm. simpl in Hm.
  destruct m as [|[|[|[|m]]]]; try (simpl in Hm; lia); vm_compute; split; try reflexivity; lia.
Qed.
