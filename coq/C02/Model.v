(* C02 -- the executable side used by the correspondence run: compares the
   implementation's floats (handed over as exact rationals) with the exact
   model of coq/lib/Bsp.v, and the model with the Cox-de Boor reference. *)
From Coq Require Import QArith Qcanon Qcabs ZArith List Bool Arith.
From Verif.lib Require Import Bsp.
Import ListNotations.
Open Scope Qc_scope.

Definition close (bound a b : Qc) : bool := qleb (Qcabs (a - b)) bound.

Definition point := (Qc * nat * list (list Qc) * list Qc * list Qc)%type.

Definition qsum (l : list Qc) : Qc := fold_left Qcplus l 0.

(* The comparison of the implementation with the exact model of the kernels.  That the
   model equals the Cox-de Boor reference is a theorem (Props.active_derivs_eq_spec,
   single_ev_eq_spec, N_local, N_partition_of_unity, dN_sum_zero); it is additionally
   re-evaluated here for degrees <= 3 only (the plain recursion is exponential in p). *)
Definition check_point (kv : list Qc) (p nd : nat) (pt : point) : bool :=
  let '(u, span, impl, bounds, sev) := pt in
  let s := findspan kv p u in
  let model := active_deriv kv p u nd in
  let withref := (p <=? 3)%nat in
  Nat.eqb s span
  && forallb (fun k =>
       forallb (fun r =>
          close (nth k bounds 0) (nth r (nth k impl []) 0) (nth r (nth k model []) 0)
          && (negb withref || qeqb (nth r (nth k model []) 0) (dNref kv k p (s - p + r) u)))
        (seq 0 (S p)))
     (seq 0 (S nd))
  && forallb (fun i =>
        close (nth 0 bounds 0 + nth 0 bounds 0) (nth i sev 0) (single_ev kv p i u)
        && (negb withref || qeqb (single_ev kv p i u) (Nref kv p i u))
        && (((s - p <=? i)%nat && (i <=? s)%nat) || qeqb (single_ev kv p i u) 0))
     (seq 0 (numdofs kv p))
  && qeqb (qsum (nth 0 model [])) 1
  && forallb (fun k => qeqb (qsum (nth k model [])) 0) (seq 1 nd).

Definition check_points (kv : list Qc) (p nd : nat) (pts : list point) : bool :=
  open_kv kv p && forallb (check_point kv p nd) pts.

Fixpoint bad_cases (k : nat) (rs : list bool) : list nat :=
  match rs with
  | [] => []
  | true :: rs' => bad_cases (S k) rs'
  | false :: rs' => k :: bad_cases (S k) rs'
  end.
