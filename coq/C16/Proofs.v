(* C16 -- lemmas.  Everything is proved for an arbitrary commutative ring. *)
From Coq Require Import List Arith Bool Lia Ring.
From Verif.C16 Require Import Model.
Import ListNotations.

Section Proofs.
Variable R : Type.
Variables (rO rI : R) (radd rmul rsub : R -> R -> R) (ropp : R -> R).
Variable Rth : ring_theory rO rI radd rmul rsub ropp eq.
Add Ring Rring : Rth.

Notation "0" := rO.
Notation "1" := rI.
Infix "+" := radd.
Infix "*" := rmul.
Notation sumn := (sumn R rO radd).
Notation mv := (mv R rO radd rmul).

(* ---------------- sums ---------------- *)
Lemma sumn_ext : forall n f g, (forall k, (k < n)%nat -> f k = g k) -> sumn n f = sumn n g.
Proof.
  induction n; simpl; intros; auto.
  rewrite (IHn f g), (H n); auto.
Qed.

Lemma sumn_zero : forall n, sumn n (fun _ => 0) = 0.
Proof. induction n; simpl; auto. rewrite IHn. ring. Qed.

Lemma sumn_add : forall n f g, sumn n (fun k => f k + g k) = sumn n f + sumn n g.
Proof. induction n; simpl; intros. ring. rewrite IHn. ring. Qed.

Lemma sumn_mul_l : forall n c f, sumn n (fun k => c * f k) = c * sumn n f.
Proof. induction n; simpl; intros. ring. rewrite IHn. ring. Qed.

Lemma sumn_mul_r : forall n c f, sumn n (fun k => f k * c) = sumn n f * c.
Proof. induction n; simpl; intros. ring. rewrite IHn. ring. Qed.

Lemma sumn_swap : forall n m (f : nat -> nat -> R),
  sumn n (fun i => sumn m (fun j => f i j)) = sumn m (fun j => sumn n (fun i => f i j)).
Proof.
  induction n; simpl; intros.
  - rewrite sumn_zero. reflexivity.
  - rewrite IHn, <- sumn_add. reflexivity.
Qed.

(* sum_k [k = i] * f k = f i *)
Lemma sumn_delta : forall n i (f : nat -> R), (i < n)%nat ->
  sumn n (fun k => if Nat.eqb k i then f k else 0) = f i.
Proof.
  induction n; intros. lia.
  simpl. destruct (Nat.eqb n i) eqn:E.
  - apply Nat.eqb_eq in E. subst.
    rewrite (sumn_ext i _ (fun _ => 0)), sumn_zero. ring.
    intros k Hk. destruct (Nat.eqb k i) eqn:E'; auto. apply Nat.eqb_eq in E'. lia.
  - apply Nat.eqb_neq in E. rewrite IHn by lia. ring.
Qed.

Lemma sumn_delta_out : forall n i (f : nat -> R), (n <= i)%nat ->
  sumn n (fun k => if Nat.eqb k i then f k else 0) = 0.
Proof.
  intros. rewrite (sumn_ext n _ (fun _ => 0)), sumn_zero; auto.
  intros k Hk. destruct (Nat.eqb k i) eqn:E'; auto. apply Nat.eqb_eq in E'. lia.
Qed.

(* ---------------- diagonal / identity / null ---------------- *)
Definition diag_dense (n : nat) (d : nat -> R) : mat R :=
  mkmat R n n (fun i j => if Nat.eqb j i then d i else 0).
Definition eye (n : nat) : mat R := mkmat R n n (fun i j => if Nat.eqb j i then 1 else 0).
Definition zeros (r c : nat) : mat R := mkmat R r c (fun _ _ => 0).

Lemma diag_spec_l : forall n d x i, (i < n)%nat ->
  diagonal_matvec R rmul d x i = mv (diag_dense n d) x i.
Proof.
  intros. unfold diagonal_matvec, mv. simpl.
  rewrite (sumn_ext n _ (fun k => if Nat.eqb k i then d i * x k else 0)).
  - rewrite sumn_delta; auto.
  - intros k _. destruct (Nat.eqb k i); ring.
Qed.

Lemma diag_symmetric_l : forall n d i j, ment R (mT R (diag_dense n d)) i j = ment R (diag_dense n d) i j.
Proof.
  intros. simpl. destruct (Nat.eqb i j) eqn:E.
  - apply Nat.eqb_eq in E. subst. rewrite Nat.eqb_refl. reflexivity.
  - rewrite Nat.eqb_sym, E. reflexivity.
Qed.

Lemma identity_spec_l : forall n x i, (i < n)%nat -> identity_matvec R x i = mv (eye n) x i.
Proof.
  intros. unfold identity_matvec, mv. simpl.
  rewrite (sumn_ext n _ (fun k => if Nat.eqb k i then x k else 0)).
  - rewrite sumn_delta; auto.
  - intros k _. destruct (Nat.eqb k i); ring.
Qed.

Lemma null_spec_l : forall r c x i, null_matvec R rO x i = mv (zeros r c) x i.
Proof.
  intros. unfold null_matvec, mv. simpl.
  rewrite (sumn_ext c _ (fun _ => 0)), sumn_zero; auto. intros; ring.
Qed.

(* ---------------- block operators ---------------- *)
(* entry (r,c) of the matrix that has block b at rows pro.., columns pci.. and zeros elsewhere *)
Definition placed_ent (b : placed R) (r c : nat) : R :=
  if (pro R b <=? r) && (r <? pro R b + mrows R (pb R b)) && ((pci R b <=? c) && (c <? pci R b + mcols R (pb R b)))
  then ment R (pb R b) (r - pro R b) (c - pci R b) else 0.

(* the dense definition: the sum of the placed blocks *)
Definition blocks_dense (M N : nat) (bl : list (placed R)) : mat R :=
  mkmat R M N (fun r c => fold_right (fun b acc => placed_ent b r c + acc) 0 bl).

Lemma sumn_window : forall m N s (f : nat -> R), (s + m <= N)%nat ->
  sumn N (fun c => if (s <=? c) && (c <? s + m) then f (c - s) else 0) = sumn m f.
Proof.
  induction m; intros.
  - simpl. rewrite (sumn_ext N _ (fun _ => 0)), sumn_zero; auto.
    intros k _. destruct (Nat.leb_spec s k), (Nat.ltb_spec k (s + 0)); cbn [andb]; auto. lia.
  - simpl. rewrite <- (IHm N s f) by lia.
    assert (Hd := sumn_delta N (s + m) (fun c => f (c - s))). simpl in Hd.
    replace (s + m - s)%nat with m in Hd by lia. rewrite <- Hd by lia. clear Hd.
    rewrite <- sumn_add. apply sumn_ext. intros k _.
    destruct (Nat.leb_spec s k), (Nat.ltb_spec k (s + S m)), (Nat.ltb_spec k (s + m)),
      (Nat.eqb_spec k (s + m)); cbn [andb]; try lia; try ring.
Qed.

Lemma placed_row : forall N b x r, (pci R b + mcols R (pb R b) <= N)%nat ->
  sumn N (fun c => placed_ent b r c * x c) =
  if (pro R b <=? r) && (r <? pro R b + mrows R (pb R b))
  then mv (pb R b) (fun c => x (pci R b + c)%nat) (r - pro R b) else 0.
Proof.
  intros. unfold placed_ent.
  destruct ((pro R b <=? r) && (r <? pro R b + mrows R (pb R b))) eqn:E; simpl.
  - unfold mv.
    rewrite <- (sumn_window (mcols R (pb R b)) N (pci R b)
                  (fun j => ment R (pb R b) (r - pro R b) j * x (pci R b + j)%nat)) by assumption.
    apply sumn_ext. intros k _.
    destruct ((pci R b <=? k) && (k <? pci R b + mcols R (pb R b))) eqn:E2; [|ring].
    apply andb_true_iff in E2. destruct E2 as [E2 _]. apply Nat.leb_le in E2.
    replace (pci R b + (k - pci R b))%nat with k by lia. reflexivity.
  - rewrite (sumn_ext N _ (fun _ => 0)), sumn_zero; auto. intros; ring.
Qed.

Lemma base_block_fold : forall N x bl y r,
  (forall b, In b bl -> (pci R b + mcols R (pb R b) <= N)%nat) ->
  fold_left (block_acc R rO radd rmul x) bl y r =
  y r + sumn N (fun c => fold_right (fun b acc => placed_ent b r c + acc) 0 bl * x c).
Proof.
  induction bl; intros; simpl.
  - rewrite (sumn_ext N _ (fun _ => 0)), sumn_zero. ring. intros; ring.
  - rewrite IHbl by (intros; apply H; right; assumption).
    rewrite (sumn_ext N (fun c => (placed_ent a r c + _) * x c)
               (fun c => placed_ent a r c * x c +
                         fold_right (fun b acc => placed_ent b r c + acc) 0 bl * x c))
      by (intros; ring).
    rewrite sumn_add, placed_row by (apply H; left; reflexivity).
    unfold block_acc.
    destruct ((pro R a <=? r) && (r <? pro R a + mrows R (pb R a))); ring.
Qed.

Lemma base_block_spec_l : forall M N bl x r,
  (forall b, In b bl -> (pci R b + mcols R (pb R b) <= N)%nat) ->
  base_block_matvec R rO radd rmul bl x r = mv (blocks_dense M N bl) x r.
Proof.
  intros. unfold base_block_matvec. rewrite (base_block_fold N) by assumption.
  unfold mv; simpl. ring.
Qed.

Lemma placed_ent_T : forall b r c, placed_ent (placed_T R b) c r = placed_ent b r c.
Proof.
  intros. unfold placed_ent, placed_T; simpl. rewrite andb_comm. reflexivity.
Qed.

Lemma block_transpose_l : forall M N bl r c,
  ment R (blocks_dense N M (map (placed_T R) bl)) c r = ment R (mT R (blocks_dense M N bl)) c r.
Proof.
  intros. simpl. induction bl; simpl; auto. rewrite placed_ent_T, IHbl. reflexivity.
Qed.

(* BlockDiagonalOperator: the dense definition, by recursion on the list of blocks
   (scipy.linalg.block_diag) *)
Fixpoint bd_ent (ops : list (mat R)) (r c : nat) : R :=
  match ops with
  | [] => 0
  | B :: rest =>
      if r <? mrows R B then (if c <? mcols R B then ment R B r c else 0)
      else if c <? mcols R B then 0 else bd_ent rest (r - mrows R B) (c - mcols R B)
  end.

Fixpoint bd_placed (ro co : nat) (ops : list (mat R)) : list (placed R) :=
  match ops with
  | [] => []
  | B :: rest => mkplaced R B ro co :: bd_placed (ro + mrows R B)%nat (co + mcols R B)%nat rest
  end.

Lemma block_diagonal_from : forall ops ro co,
  map (fun t => mkplaced R (fst (fst t)) (snd (fst t)) (snd t))
      (combine (combine ops (starts_from ro (map (mrows R) ops))) (starts_from co (map (mcols R) ops)))
  = bd_placed ro co ops.
Proof. induction ops; intros; simpl; auto. rewrite IHops. reflexivity. Qed.

Definition sum_ent (bl : list (placed R)) (r c : nat) : R :=
  fold_right (fun b acc => placed_ent b r c + acc) 0 bl.

Lemma bd_placed_outside : forall ops ro co r c, (r < ro \/ c < co)%nat -> sum_ent (bd_placed ro co ops) r c = 0.
Proof.
  induction ops; intros; simpl; auto.
  rewrite IHops by lia. unfold placed_ent; simpl.
  destruct (Nat.leb_spec ro r), (Nat.leb_spec co c); cbn [andb]; try lia;
    try rewrite andb_false_r; try ring.
Qed.

Lemma bd_placed_ent : forall ops ro co r c,
  sum_ent (bd_placed ro co ops) (ro + r)%nat (co + c)%nat = bd_ent ops r c.
Proof.
  induction ops; intros; simpl; auto.
  unfold placed_ent; simpl.
  replace (ro <=? ro + r) with true by (symmetry; apply Nat.leb_le; lia).
  replace (co <=? co + c) with true by (symmetry; apply Nat.leb_le; lia).
  replace (ro + r <? ro + mrows R a) with (r <? mrows R a)
    by (destruct (r <? mrows R a) eqn:E; symmetry; [apply Nat.ltb_lt; apply Nat.ltb_lt in E | apply Nat.ltb_ge; apply Nat.ltb_ge in E]; lia).
  replace (co + c <? co + mcols R a) with (c <? mcols R a)
    by (destruct (c <? mcols R a) eqn:E; symmetry; [apply Nat.ltb_lt; apply Nat.ltb_lt in E | apply Nat.ltb_ge; apply Nat.ltb_ge in E]; lia).
  replace (ro + r - ro)%nat with r by lia. replace (co + c - co)%nat with c by lia.
  destruct (Nat.ltb_spec r (mrows R a)), (Nat.ltb_spec c (mcols R a)); cbn [andb].
  - fold (sum_ent (bd_placed (ro + mrows R a)%nat (co + mcols R a)%nat ops) (ro + r)%nat (co + c)%nat).
    rewrite bd_placed_outside by lia. ring.
  - fold (sum_ent (bd_placed (ro + mrows R a)%nat (co + mcols R a)%nat ops) (ro + r)%nat (co + c)%nat).
    rewrite bd_placed_outside by lia. ring.
  - fold (sum_ent (bd_placed (ro + mrows R a)%nat (co + mcols R a)%nat ops) (ro + r)%nat (co + c)%nat).
    rewrite bd_placed_outside by lia. ring.
  - fold (sum_ent (bd_placed (ro + mrows R a)%nat (co + mcols R a)%nat ops) (ro + r)%nat (co + c)%nat).
    replace (ro + r)%nat with (ro + mrows R a + (r - mrows R a))%nat by lia.
    replace (co + c)%nat with (co + mcols R a + (c - mcols R a))%nat by lia.
    rewrite IHops. ring.
Qed.

Definition total (f : mat R -> nat) (ops : list (mat R)) : nat := fold_right (fun B acc => (f B + acc)%nat) 0%nat ops.

Lemma bd_placed_bound : forall ops ro co b, In b (bd_placed ro co ops) ->
  (pci R b + mcols R (pb R b) <= co + total (mcols R) ops)%nat.
Proof.
  induction ops; simpl; intros. contradiction.
  destruct H as [<-|H]; simpl. lia.
  apply IHops in H. lia.
Qed.

Lemma bd_placed_bound_r : forall ops ro co b, In b (bd_placed ro co ops) ->
  (pro R b + mrows R (pb R b) <= ro + total (mrows R) ops)%nat.
Proof.
  induction ops; simpl; intros. contradiction.
  destruct H as [<-|H]; simpl. lia.
  apply IHops in H. lia.
Qed.

Definition blockdiag_dense (ops : list (mat R)) : mat R :=
  mkmat R (total (mrows R) ops) (total (mcols R) ops) (bd_ent ops).

Lemma blockdiag_spec_l : forall ops x r,
  base_block_matvec R rO radd rmul (block_diagonal R ops) x r = mv (blockdiag_dense ops) x r.
Proof.
  intros. unfold block_diagonal, sizes_to_starts. rewrite block_diagonal_from.
  rewrite (base_block_spec_l (total (mrows R) ops) (total (mcols R) ops)).
  - unfold mv; simpl. apply sumn_ext. intros k _.
    change (fold_right (fun b acc => placed_ent b r k + acc) 0 (bd_placed 0 0 ops)) with (sum_ent (bd_placed 0 0 ops) r k).
    rewrite <- (bd_placed_ent ops 0 0 r k). reflexivity.
  - intros b Hb. apply bd_placed_bound in Hb. lia.
Qed.

Lemma blockdiag_transpose_l : forall ops x r,
  base_block_matvec R rO radd rmul (map (placed_T R) (block_diagonal R ops)) x r = mv (mT R (blockdiag_dense ops)) x r.
Proof.
  intros. unfold block_diagonal, sizes_to_starts. rewrite block_diagonal_from.
  rewrite (base_block_spec_l (total (mcols R) ops) (total (mrows R) ops)).
  - unfold mv. simpl mcols. apply sumn_ext. intros k _.
    rewrite block_transpose_l. simpl.
    change (fold_right (fun b acc => placed_ent b k r + acc) 0 (bd_placed 0 0 ops)) with (sum_ent (bd_placed 0 0 ops) k r).
    rewrite <- (bd_placed_ent ops 0 0 k r). reflexivity.
  - intros b Hb. apply in_map_iff in Hb. destruct Hb as [b' [<- Hb']]. simpl.
    apply bd_placed_bound_r in Hb'. lia.
Qed.

(* ---------------- index arithmetic: ravel / unravel, insert / remove ---------------- *)
Definition inr (idx shp : list nat) : Prop := Forall2 lt idx shp.

Lemma ravel_lt : forall idx shp, inr idx shp -> (ravel shp idx < prodl shp)%nat.
Proof.
  induction 1; simpl. lia.
  unfold inr in *. nia.
Qed.

Lemma divmod_ravel : forall a m c, (c < m)%nat -> ((a * m + c) / m = a /\ (a * m + c) mod m = c)%nat.
Proof.
  intros. assert (m <> 0)%nat by lia. split.
  - rewrite Nat.div_add_l by assumption. rewrite Nat.div_small by assumption. lia.
  - rewrite Nat.add_comm, Nat.mod_add by assumption. apply Nat.mod_small. assumption.
Qed.

Lemma unravel_ravel : forall idx shp, inr idx shp -> unravel shp (ravel shp idx) = idx.
Proof.
  induction 1; simpl. reflexivity.
  destruct (divmod_ravel x (prodl l') (ravel l' l) (ravel_lt _ _ H0)) as [E1 E2].
  rewrite E1, E2, IHForall2. reflexivity.
Qed.

Lemma insert_at_app : forall l1 j l2, insert_at (length l1) j (l1 ++ l2) = l1 ++ j :: l2.
Proof.
  unfold insert_at. induction l1; intros; simpl. reflexivity.
  f_equal. apply IHl1.
Qed.

Lemma remove_at_app : forall l1 x l2, remove_at (length l1) (l1 ++ x :: l2) = l1 ++ l2.
Proof.
  unfold remove_at. induction l1; intros; simpl. reflexivity.
  f_equal. apply IHl1.
Qed.

Lemma inr_app : forall a b sa sb, inr a sa -> inr b sb -> inr (a ++ b) (sa ++ sb).
Proof. intros. apply Forall2_app; assumption. Qed.

Lemma inr_cons_inv : forall a l b m, inr (a :: l) (b :: m) -> (a < b)%nat /\ inr l m.
Proof. intros. inversion H; subst. auto. Qed.

Lemma inr_length : forall a sa, inr a sa -> length a = length sa.
Proof. induction 1; simpl; auto. Qed.

(* ---------------- _modek_tensordot_sparse = the tensordot it replaces ---------------- *)
Lemma modek_sparse_shape : forall B k (X : arr R),
  nth k (ashape R X) 0%nat = mcols R B ->
  ashape R (modek_tensordot_sparse R rO radd rmul B k X) = mrows R B :: remove_at k (ashape R X).
Proof.
  intros. unfold modek_tensordot_sparse. simpl.
  destruct (Nat.eqb_spec (mrows R B) (nth k (ashape R X) 0%nat)); simpl; congruence.
Qed.

Lemma modek_sparse_at : forall B k (X : arr R) a rest,
  inr rest (remove_at k (ashape R X)) ->
  aat R (modek_tensordot_sparse R rO radd rmul B k X) (a :: rest) =
  sumn (mcols R B) (fun j => ment R B a j * aat R X (insert_at k j rest)).
Proof.
  intros B k X a rest Hr. unfold modek_tensordot_sparse.
  set (rem := remove_at k (ashape R X)) in *.
  assert (Hlt := ravel_lt _ _ Hr).
  assert (Hshape : forall h, ravel (h :: rem) (a :: rest) = (a * prodl rem + ravel rem rest)%nat) by reflexivity.
  assert (Hun : unravel [mrows R B; prodl rem] (a * prodl rem + ravel rem rest) = [a; ravel rem rest]).
  { cbn [unravel prodl]. rewrite !Nat.mul_1_r, Nat.div_1_r.
    destruct (divmod_ravel a (prodl rem) (ravel rem rest) Hlt) as [E1 E2]. rewrite E1, E2. reflexivity. }
  assert (Hgoal : forall shp', ravel shp' (a :: rest) = (a * prodl rem + ravel rem rest)%nat ->
     aat R (reshape R shp' (dot2 R rO radd rmul B
        (reshape R [nth k (ashape R X) 0%nat; prodl (tl (ashape R (rollaxis0 R rO k X)))] (rollaxis0 R rO k X))))
       (a :: rest) = sumn (mcols R B) (fun j => ment R B a j * aat R X (insert_at k j rest))).
  { intros shp' Hs. cbn [aat reshape dot2 ashape rollaxis0 nth tl]. fold rem. rewrite Hs, Hun.
    apply sumn_ext. intros j _. f_equal.
    cbn [ravel prodl unravel]. rewrite !Nat.mul_1_r, Nat.add_0_r.
    destruct (divmod_ravel j (prodl rem) (ravel rem rest) Hlt) as [E1 E2]. rewrite E1, E2.
    rewrite unravel_ravel by assumption. reflexivity. }
  destruct (Nat.eqb (mrows R B) (nth k (ashape R X) 0%nat)); apply Hgoal; simpl; reflexivity.
Qed.

(* ---------------- apply_tprod ---------------- *)
(* the tensor-product action: nested sums over the contracted indices *)
Fixpoint tprod_spec (ops : list (option (operand R))) (X : list nat -> R) (idx : list nat) : R :=
  match ops with
  | [] => X idx
  | o :: ops' =>
      match idx with
      | [] => 0
      | a :: idx' =>
          match o with
          | Some op => sumn (mcols R (omat R op))
                         (fun j => ment R (omat R op) a j * tprod_spec ops' (fun r => X (j :: r)) idx')
          | None => tprod_spec ops' (fun r => X (a :: r)) idx'
          end
      end
  end.

Lemma tprod_spec_ext : forall ops X X' idx, (forall r, X r = X' r) -> tprod_spec ops X idx = tprod_spec ops X' idx.
Proof.
  induction ops; intros; simpl. apply H.
  destruct idx; auto. destruct a.
  - apply sumn_ext. intros j _. f_equal. apply IHops. intros; apply H.
  - apply IHops. intros; apply H.
Qed.

(* operand list conforms to the leading axes of the argument *)
Fixpoint conf (ops : list (option (operand R))) (sS : list nat) : Prop :=
  match ops, sS with
  | [], [] => True
  | o :: ops', c :: sS' => (match o with Some op => mcols R (omat R op) = c | None => True end) /\ conf ops' sS'
  | _, _ => False
  end.

Fixpoint out_shape (ops : list (option (operand R))) (sS : list nat) : list nat :=
  match ops, sS with
  | o :: ops', c :: sS' => (match o with Some op => mrows R (omat R op) | None => c end) :: out_shape ops' sS'
  | _, _ => []
  end.

Lemma conf_length : forall ops sS, conf ops sS -> length sS = length ops /\ length (out_shape ops sS) = length ops.
Proof.
  induction ops; destruct sS; simpl; intros; try contradiction; auto.
  destruct H as [_ H]. apply IHops in H. lia.
Qed.

Lemma tprod_step_shape_at : forall n o (T : arr R) l1 c0 l2,
  ashape R T = l1 ++ c0 :: l2 -> length l1 = (n - 1)%nat ->
  (match o with Some op => mcols R (omat R op) = c0 | None => True end) ->
  ashape R (tprod_step R rO radd rmul n T o) =
    (match o with Some op => mrows R (omat R op) | None => c0 end) :: l1 ++ l2 /\
  forall a rest, inr rest (l1 ++ l2) -> length rest = length (l1 ++ l2) ->
    aat R (tprod_step R rO radd rmul n T o) (a :: rest) =
    match o with
    | Some op => sumn (mcols R (omat R op)) (fun j => ment R (omat R op) a j * aat R T (insert_at (n - 1) j rest))
    | None => aat R T (insert_at (n - 1) a rest)
    end.
Proof.
  intros n o T l1 c0 l2 Hs Hl Hc.
  assert (Hrem : remove_at (length l1) (ashape R T) = l1 ++ l2) by (rewrite Hs; apply remove_at_app).
  assert (Hnth : nth (length l1) (ashape R T) 0%nat = c0) by (rewrite Hs; apply nth_middle).
  destruct o as [[[|] B]|]; cbn [tprod_step omat mcols mrows] in *; rewrite <- Hl.
  - cbn [tensordot_BA ashape aat]. rewrite Hrem. split; auto.
  - split.
    + rewrite modek_sparse_shape by congruence. rewrite Hrem. reflexivity.
    + intros. apply modek_sparse_at. rewrite Hrem. assumption.
  - cbn [rollaxis0 ashape aat]. rewrite Hrem, Hnth. split; auto.
Qed.

Lemma apply_tprod_inv : forall n S sP sS sT (X : arr R),
  ashape R X = sP ++ sS ++ sT -> conf S sS -> n = (length sP + length S)%nat ->
  let T := fold_left (tprod_step R rO radd rmul n) (rev S) X in
  ashape R T = out_shape S sS ++ sP ++ sT /\
  forall s_idx p_idx t, inr s_idx (out_shape S sS) -> inr p_idx sP -> inr t sT ->
    aat R T (s_idx ++ p_idx ++ t) = tprod_spec S (fun r => aat R X (p_idx ++ r)) (s_idx ++ t).
Proof.
  intros n S. induction S as [|o S' IH]; intros sP sS sT X HX Hc Hn.
  - destruct sS; [|contradiction]. simpl in *. split. assumption.
    intros. inversion H; subst. simpl. reflexivity.
  - destruct sS as [|c0 sS']; [contradiction|]. destruct Hc as [Hc0 Hc'].
    simpl rev. intros T. subst T. rewrite fold_left_app. simpl fold_left.
    set (T' := fold_left (tprod_step R rO radd rmul n) (rev S') X).
    destruct (IH (sP ++ [c0]) sS' sT X) as [Hs' Hat'].
    { rewrite HX. rewrite <- app_assoc. reflexivity. }
    { assumption. }
    { rewrite app_length. simpl in *. lia. }
    fold T' in Hs', Hat'.
    destruct (conf_length _ _ Hc') as [Hl1 Hl2].
    assert (HsT' : ashape R T' = (out_shape S' sS' ++ sP) ++ c0 :: sT).
    { rewrite Hs'. rewrite <- !app_assoc. reflexivity. }
    assert (Hlen : length (out_shape S' sS' ++ sP) = (n - 1)%nat).
    { rewrite app_length. simpl in Hn. lia. }
    destruct (tprod_step_shape_at n o T' _ _ _ HsT' Hlen Hc0) as [Hsh Hat].
    split.
    + rewrite Hsh. simpl. rewrite <- app_assoc. reflexivity.
    + intros s_idx p_idx t Hsi Hpi Hti.
      simpl out_shape in Hsi. destruct s_idx as [|a s']; [inversion Hsi|].
      apply inr_cons_inv in Hsi. destruct Hsi as [Ha Hs''].
      assert (Hrest : inr (s' ++ p_idx ++ t) ((out_shape S' sS' ++ sP) ++ sT)).
      { rewrite <- app_assoc. apply inr_app; auto. apply inr_app; auto. }
      simpl app. rewrite Hat by (auto; apply inr_length; assumption).
      assert (Hins : forall j, insert_at (n - 1) j (s' ++ p_idx ++ t) = s' ++ (p_idx ++ [j]) ++ t).
      { intros j. rewrite <- Hlen.
        replace (length (out_shape S' sS' ++ sP)) with (length (s' ++ p_idx)).
        - rewrite (app_assoc s' p_idx t), insert_at_app. rewrite <- !app_assoc. reflexivity.
        - rewrite !app_length. rewrite (inr_length _ _ Hs''), (inr_length _ _ Hpi). reflexivity. }
      destruct o as [op|]; simpl.
      * apply sumn_ext. intros j Hj. f_equal. rewrite Hins.
        rewrite Hat'; auto.
        -- apply tprod_spec_ext. intros r. rewrite <- app_assoc. reflexivity.
        -- apply inr_app; auto. constructor; [|constructor]. simpl in Hc0. lia.
      * rewrite Hins. rewrite Hat'; auto.
        -- apply tprod_spec_ext. intros r. rewrite <- app_assoc. reflexivity.
        -- apply inr_app; auto. constructor; [assumption|constructor].
Qed.

Lemma apply_tprod_spec_l : forall ops (X : arr R) sS sT,
  ashape R X = sS ++ sT -> conf ops sS ->
  ashape R (apply_tprod R rO radd rmul ops X) = out_shape ops sS ++ sT /\
  forall a t, inr a (out_shape ops sS) -> inr t sT ->
    aat R (apply_tprod R rO radd rmul ops X) (a ++ t) = tprod_spec ops (aat R X) (a ++ t).
Proof.
  intros. unfold apply_tprod.
  destruct (apply_tprod_inv (length ops) ops [] sS sT X H H0 eq_refl) as [Hs Hat].
  split. assumption.
  intros a t Ha Ht. exact (Hat a [] t Ha (Forall2_nil _) Ht).
Qed.

(* the tensor-product core of _apply_kronecker_dense: all operands present *)
Lemma conf_all_some : forall ops : list (operand R),
  conf (map Some ops) (map (fun o => mcols R (omat R o)) ops).
Proof. induction ops; simpl; auto. Qed.

Lemma out_shape_all_some : forall ops : list (operand R),
  out_shape (map Some ops) (map (fun o => mcols R (omat R o)) ops) = map (fun o => mrows R (omat R o)) ops.
Proof. induction ops; simpl; auto. rewrite IHops. reflexivity. Qed.

Lemma kron_dense_core_l : forall (ops : list (operand R)) (X : arr R) sT,
  ashape R X = map (fun o => mcols R (omat R o)) ops ++ sT ->
  ashape R (apply_tprod R rO radd rmul (map Some ops) X) = map (fun o => mrows R (omat R o)) ops ++ sT /\
  forall a t, inr a (map (fun o => mrows R (omat R o)) ops) -> inr t sT ->
    aat R (apply_tprod R rO radd rmul (map Some ops) X) (a ++ t) = tprod_spec (map Some ops) (aat R X) (a ++ t).
Proof.
  intros. destruct (apply_tprod_spec_l (map Some ops) X _ sT H (conf_all_some ops)) as [Hs Hat].
  rewrite out_shape_all_some in *. split; assumption.
Qed.

(* ---------------- SubspaceOperator ---------------- *)
Definition pbp_ent (P B : mat R) (r c : nat) : R :=
  sumn (mcols R P) (fun a => sumn (mcols R B) (fun b => ment R P r a * ment R B a b * ment R P c b)).

(* the dense definition  sum_j P_j B_j P_j^T  (B_j^T when transposed) *)
Definition subspace_dense (n : nat) (tr : bool) (PB : list (mat R * mat R)) : mat R :=
  mkmat R n n (fun r c => fold_right (fun pb acc => pbp_ent (fst pb) (if tr then mT R (snd pb) else snd pb) r c + acc) 0 PB).

Lemma pbp_apply : forall (P B : mat R) x r,
  mv P (mv B (mv (mT R P) x)) r = sumn (mrows R P) (fun c => pbp_ent P B r c * x c).
Proof.
  intros. unfold mv, pbp_ent. cbn [mcols mT ment].
  transitivity (sumn (mcols R P) (fun a => sumn (mcols R B) (fun b => sumn (mrows R P)
                  (fun c => ment R P r a * ment R B a b * ment R P c b * x c)))).
  - apply sumn_ext; intros a _. rewrite <- sumn_mul_l. apply sumn_ext; intros b _.
    rewrite <- !sumn_mul_l. apply sumn_ext; intros c _. ring.
  - symmetry.
    transitivity (sumn (mrows R P) (fun c => sumn (mcols R P) (fun a => sumn (mcols R B)
                  (fun b => ment R P r a * ment R B a b * ment R P c b * x c)))).
    + apply sumn_ext; intros c _. rewrite <- sumn_mul_r. apply sumn_ext; intros a _.
      rewrite <- sumn_mul_r. reflexivity.
    + rewrite sumn_swap. apply sumn_ext; intros a _. rewrite sumn_swap. reflexivity.
Qed.

Lemma subspace_fold : forall n (tr : bool) (PB : list (prod (mat R) (mat R))) (x y : nat -> R) (r : nat),
  (forall pb, In pb PB -> mrows R (fst pb) = n) ->
  fold_left (fun (y : nat -> R) (pb : prod (mat R) (mat R)) (r : nat) =>
     radd (y r) (mv (fst pb) (mv (if tr then mT R (snd pb) else snd pb) (mv (mT R (fst pb)) x)) r)) PB y r =
  y r + sumn n (fun c => fold_right (fun (pb : prod (mat R) (mat R)) acc => pbp_ent (fst pb) (if tr then mT R (snd pb) else snd pb) r c + acc) 0 PB * x c).
Proof.
  induction PB; intros; simpl.
  - rewrite (sumn_ext n _ (fun _ => 0)), sumn_zero. ring. intros; ring.
  - rewrite IHPB by (intros; apply H; right; assumption).
    rewrite pbp_apply, (H a) by (left; reflexivity).
    rewrite (sumn_ext n (fun c => (pbp_ent _ _ r c + _) * x c)
               (fun c => pbp_ent (fst a) (if tr then mT R (snd a) else snd a) r c * x c +
                         fold_right (fun pb acc => pbp_ent (fst pb) (if tr then mT R (snd pb) else snd pb) r c + acc) 0 PB * x c))
      by (intros; ring).
    rewrite sumn_add. ring.
Qed.

Lemma subspace_spec_l : forall n tr PB x r,
  (forall pb, In pb PB -> mrows R (fst pb) = n) ->
  subspace_matvec R rO radd rmul tr PB x r = mv (subspace_dense n tr PB) x r.
Proof.
  intros. unfold subspace_matvec. cbv zeta. rewrite (subspace_fold n) by assumption.
  unfold mv; simpl. ring.
Qed.

Lemma pbp_transpose : forall (P B : mat R) r c, mcols R B = mcols R P -> mrows R B = mcols R P ->
  pbp_ent P (mT R B) r c = pbp_ent P B c r.
Proof.
  intros. unfold pbp_ent. cbn [mcols mT ment]. rewrite H, H0.
  rewrite sumn_swap. apply sumn_ext; intros a _. apply sumn_ext; intros b _. ring.
Qed.

Lemma subspace_transpose_l : forall n PB r c,
  (forall pb, In pb PB -> mcols R (snd pb) = mcols R (fst pb) /\ mrows R (snd pb) = mcols R (fst pb)) ->
  ment R (subspace_dense n true PB) r c = ment R (mT R (subspace_dense n false PB)) r c.
Proof.
  intros. simpl. induction PB; simpl; auto.
  destruct (H a (or_introl eq_refl)) as [H1 H2].
  rewrite pbp_transpose, IHPB by (auto; intros; apply H; right; assumption). reflexivity.
Qed.

(* ---------------- CSR row slices / subsets ---------------- *)
(* entry c of row r of the matrix a CSR structure denotes (duplicate entries add up) *)
Fixpoint csr_ent_sum (cnt p : nat) (A : csr R) (c : nat) : R :=
  match cnt with
  | O => 0
  | S k => (if Nat.eqb (nth p (c_indices R A) 0%nat) c then nth p (c_data R A) 0 else 0) + csr_ent_sum k (S p) A c
  end.
Definition csr_dense (A : csr R) : mat R :=
  mkmat R (c_rows R A) (c_cols R A)
    (fun r c => csr_ent_sum (nth (S r) (c_indptr R A) 0 - nth r (c_indptr R A) 0)%nat (nth r (c_indptr R A) 0%nat) A c).

Lemma csr_row_sum_dense : forall cnt p A x,
  (forall q, (p <= q < p + cnt)%nat -> (nth q (c_indices R A) 0 < c_cols R A)%nat) ->
  csr_row_sum R rO radd rmul cnt p A x = sumn (c_cols R A) (fun c => csr_ent_sum cnt p A c * x c).
Proof.
  induction cnt; intros; simpl.
  - rewrite (sumn_ext _ _ (fun _ => 0)), sumn_zero; auto. intros; ring.
  - rewrite IHcnt by (intros; apply H; lia).
    rewrite (sumn_ext _ (fun c => (_ + csr_ent_sum cnt (S p) A c) * x c)
               (fun c => (if Nat.eqb c (nth p (c_indices R A) 0%nat) then nth p (c_data R A) 0 * x c else 0)
                         + csr_ent_sum cnt (S p) A c * x c)).
    + rewrite sumn_add, sumn_delta by (apply H; lia). reflexivity.
    + intros c _. rewrite (Nat.eqb_sym c). destruct (Nat.eqb (nth p (c_indices R A) 0%nat) c); ring.
Qed.

Definition csr_wf (A : csr R) : Prop :=
  forall q, (q < length (c_indices R A))%nat -> (nth q (c_indices R A) 0 < c_cols R A)%nat.

Lemma csr_row_spec : forall A r x, csr_wf A ->
  (nth (S r) (c_indptr R A) 0 <= length (c_indices R A))%nat ->
  csr_row R rO radd rmul A r x = mv (csr_dense A) x r.
Proof.
  intros. unfold csr_row, mv. cbn [csr_dense mcols ment]. apply csr_row_sum_dense.
  intros q Hq. apply H. lia.
Qed.

Lemma rowslice_spec_l : forall A r0 r1 x i, csr_wf A ->
  (forall r, (r < r1)%nat -> (nth (S r) (c_indptr R A) 0 <= length (c_indices R A))%nat) ->
  (i < r1 - r0)%nat ->
  csr_rowslice R rO radd rmul A r0 r1 x i = mv (csr_dense A) x (r0 + i)%nat.
Proof.
  intros. unfold csr_rowslice. destruct (Nat.ltb_spec i (r1 - r0)); [|lia].
  apply csr_row_spec; auto. apply H0. lia.
Qed.

Lemma rowsubset_spec_l : forall A rows x i, csr_wf A ->
  (forall r, In r rows -> (nth (S r) (c_indptr R A) 0 <= length (c_indices R A))%nat) ->
  (i < length rows)%nat ->
  csr_rowsubset R rO radd rmul A rows x i = mv (csr_dense A) x (nth i rows 0%nat).
Proof.
  intros. unfold csr_rowsubset. destruct (Nat.ltb_spec i (length rows)); [|lia].
  apply csr_row_spec; auto. apply H0. apply nth_In. assumption.
Qed.

End Proofs.
