(* C11 -- the local multigrid cycle with exact subspace solves does not increase the
   energy functional J(x) = x^T A x - 2 x^T f (= energy-norm error + const), for every
   number of levels.  Part 1: algebra on functions; part 2: list matrices; part 3: the cycle. *)
From Coq Require Import QArith Qcanon List Arith Bool ZArith Lia.
From Verif.C11 Require Import Spec Algebra Model Proofs MGProofs.
Import ListNotations.
Open Scope Qc_scope.

(* ---------------------------------------------------------------------- *)
(* part 1: functions                                                       *)
(* ---------------------------------------------------------------------- *)
Definition ftr (P : nat -> nat -> Qc) : nat -> nat -> Qc := fun a i => P i a.
(* the Galerkin product in the order the code computes it: (P^T A) P *)
Definition fgal (n : nat) (P A : nat -> nat -> Qc) : nat -> nat -> Qc :=
  fun a b => sumn n (fun j => sumn n (fun i => P i a * A i j) * P j b).

Lemma sumn_scal_r : forall n c f, sumn n (fun k => f k * c) = sumn n f * c.
Proof. induction n; intros; simpl; [ring|]. rewrite IHn. ring. Qed.

Lemma sumn_minus : forall n f g, sumn n (fun k => f k - g k) = sumn n f - sumn n g.
Proof. induction n; intros; simpl; [ring|]. rewrite IHn. ring. Qed.

Lemma dotn_minus_r : forall n w u v, dotn n w (fun k => u k - v k) = dotn n w u - dotn n w v.
Proof. intros. unfold dotn. rewrite <- sumn_minus. apply sumn_ext. intros. ring. Qed.

Lemma mv_mat_ext : forall n A B v i, (forall j, (j < n)%nat -> A i j = B i j) -> mv n A v i = mv n B v i.
Proof. intros. unfold mv. apply sumn_ext. intros. rewrite H; auto. Qed.

(* <P y, r> = <y, P^T r> *)
Lemma adjoint : forall n nc P y r,
  dotn n (mv nc P y) r = dotn nc y (mv n (ftr P) r).
Proof.
  intros. unfold dotn, mv, ftr.
  rewrite (sumn_ext n _ (fun k => sumn nc (fun j => P k j * y j * r k)))
    by (intros; rewrite <- sumn_scal_r; reflexivity).
  rewrite sumn_swap. apply sumn_ext. intros a _.
  rewrite <- sumn_scal. apply sumn_ext. intros. ring.
Qed.

(* (P^T A P) y = P^T (A (P y)) *)
Lemma mv_fgal : forall n nc P A y a,
  mv nc (fgal n P A) y a = mv n (ftr P) (mv n A (mv nc P y)) a.
Proof.
  intros. unfold mv, fgal, ftr.
  (* lhs: sum_b (sum_j (sum_i P_ia A_ij) P_jb) y_b *)
  rewrite (sumn_ext nc _ (fun b => sumn n (fun j => sumn n (fun i => P i a * A i j) * (P j b * y b))))
    by (intros; rewrite <- sumn_scal_r; apply sumn_ext; intros; ring).
  rewrite sumn_swap.
  rewrite (sumn_ext n _ (fun j => sumn n (fun i => P i a * A i j) * sumn nc (fun b => P j b * y b)))
    by (intros; rewrite <- sumn_scal; reflexivity).
  rewrite (sumn_ext n _ (fun j => sumn n (fun i => P i a * (A i j * sumn nc (fun b => P j b * y b)))))
    by (intros; rewrite <- sumn_scal_r; apply sumn_ext; intros; ring).
  rewrite sumn_swap. apply sumn_ext. intros i _. rewrite <- sumn_scal. reflexivity.
Qed.

Lemma fgal_expand : forall n P A a b,
  fgal n P A a b = sumn n (fun j => sumn n (fun i => P i a * A i j * P j b)).
Proof. intros. unfold fgal. apply sumn_ext. intros. rewrite <- sumn_scal_r. reflexivity. Qed.

Lemma fgal_sym : forall n nc P A, symmetric n A -> symmetric nc (fgal n P A).
Proof.
  intros n nc P A Hs a b _ _. rewrite !fgal_expand. rewrite sumn_swap.
  apply sumn_ext. intros i Hi. apply sumn_ext. intros j Hj. rewrite (Hs j i Hj Hi). ring.
Qed.

Lemma fgal_quadratic : forall n nc P A y,
  dotn nc y (mv nc (fgal n P A) y) = dotn n (mv nc P y) (mv n A (mv nc P y)).
Proof.
  intros. rewrite adjoint. apply dotn_ext; intros; [reflexivity|]. apply mv_fgal.
Qed.

Lemma fgal_psd : forall n nc P A, psd n A -> psd nc (fgal n P A).
Proof. intros n nc P A H v. rewrite fgal_quadratic. apply H. Qed.

Lemma Jfun_zero : forall n A f, Jfun n A f (fun _ => 0) = 0.
Proof.
  intros. unfold Jfun, dotn. rewrite !sumn_zero; try ring; intros; ring.
Qed.

Lemma Jfun_ext : forall n A B f g x y,
  (forall i j, (i < n)%nat -> (j < n)%nat -> A i j = B i j) ->
  (forall i, (i < n)%nat -> f i = g i) -> (forall i, (i < n)%nat -> x i = y i) ->
  Jfun n A f x = Jfun n B g y.
Proof.
  intros n A B f g x y HA Hf Hx. unfold Jfun. f_equal.
  - apply dotn_ext; auto. intros k Hk. rewrite (mv_ext n A x y k Hx).
    apply mv_mat_ext. intros. apply HA; auto.
  - f_equal. apply dotn_ext; auto.
Qed.

(* J(x + d) = J(x) + d^T A d - 2 d^T (f - A x) *)
Lemma J_correction : forall n A f x d, symmetric n A ->
  Jfun n A f (fun k => x k + d k) =
  Jfun n A f x + dotn n d (mv n A d) - (1+1) * dotn n d (fun k => f k - mv n A x k).
Proof.
  intros n A f x d Hs. unfold Jfun.
  rewrite (dotn_ext n (fun k => x k + d k) (mv n A (fun k => x k + d k))
                      (fun k => x k + d k) (fun k => mv n A x k + mv n A d k)).
  2:{ reflexivity. } 2:{ intros. apply mv_plus. }
  rewrite dotn_plus_l, !dotn_plus_r, dotn_plus_l, dotn_minus_r.
  rewrite (sym_bilinear n A x d Hs). ring.
Qed.

(* a correction d solving the residual equations on its support lowers J by d^T A d *)
Lemma J_subspace : forall n A f x d, symmetric n A -> psd n A ->
  (forall k, (k < n)%nat -> d k = 0 \/ mv n A d k = f k - mv n A x k) ->
  Jfun n A f (fun k => x k + d k) <= Jfun n A f x.
Proof.
  intros n A f x d Hs Hp Hd. rewrite J_correction by exact Hs.
  assert (E : dotn n d (fun k => f k - mv n A x k) = dotn n d (mv n A d)).
  { unfold dotn. apply sumn_ext. intros k Hk. destruct (Hd k Hk) as [Z|Z]; rewrite Z; ring. }
  rewrite E.
  replace (Jfun n A f x + dotn n d (mv n A d) - (1 + 1) * dotn n d (mv n A d))
    with (Jfun n A f x - dotn n d (mv n A d)) by ring.
  apply Qc_sub_nonneg_le. apply Hp.
Qed.

(* coarse-grid correction: J(x + P y) = J(x) + J_c(y) for the Galerkin operator and the
   restricted residual *)
Lemma J_coarse : forall n nc P A f x y, symmetric n A ->
  Jfun n A f (fun k => x k + mv nc P y k) =
  Jfun n A f x + Jfun nc (fgal n P A) (mv n (ftr P) (fun k => f k - mv n A x k)) y.
Proof.
  intros n nc P A f x y Hs. rewrite J_correction by exact Hs.
  rewrite (adjoint n nc P y (fun k => f k - mv n A x k)).
  unfold Jfun at 3. rewrite fgal_quadratic. ring.
Qed.

(* energy error = J + const when A xs = f *)
Lemma energy_J : forall n A f xs x, symmetric n A ->
  (forall k, (k < n)%nat -> mv n A xs k = f k) ->
  energy n A xs x = Jfun n A f x + dotn n xs (mv n A xs).
Proof.
  intros n A f xs x Hs Hx. unfold energy, Jfun.
  rewrite (dotn_ext n (fun k => x k - xs k) (mv n A (fun k => x k - xs k))
                      (fun k => x k + - xs k) (fun k => mv n A x k + - mv n A xs k)).
  2:{ intros; ring. } 2:{ intros. rewrite mv_minus. ring. }
  rewrite dotn_plus_l, !dotn_plus_r.
  assert (N1 : forall u, dotn n u (fun k => - mv n A xs k) = - dotn n u (mv n A xs)).
  { intros. unfold dotn. rewrite <- sumn_opp. apply sumn_ext. intros. ring. }
  assert (N2 : forall v, dotn n (fun k => - xs k) v = - dotn n xs v).
  { intros. unfold dotn. rewrite <- sumn_opp. apply sumn_ext. intros. ring. }
  rewrite !N1, !N2. rewrite (sym_bilinear n A xs x Hs).
  rewrite (dotn_ext n x (mv n A xs) x f) by (intros; auto).
  ring.
Qed.

(* ---------------------------------------------------------------------- *)
(* part 2: list matrices                                                    *)
(* ---------------------------------------------------------------------- *)
(* an r x c matrix *)
Definition wfm (A : dense) (r c : nat) : Prop :=
  length A = r /\ (forall row, In row A -> length row = c).
Definition wfmat (A : dense) (r c : nat) : Prop := wfm A r c /\ ncols A = c.

Lemma nth_nil0 : forall j, nth j (@nil Qc) 0 = 0.
Proof. destruct j; reflexivity. Qed.

Lemma drow_length : forall A r c i, wfm A r c -> (i < r)%nat -> length (drow A i) = c.
Proof.
  intros A r c i (H1 & H2) Hi. apply H2. unfold drow. apply nth_In. lia.
Qed.

Lemma dentry_out : forall A i j, (length A <= i)%nat -> dentry A i j = 0.
Proof. intros. unfold dentry, drow. rewrite (nth_overflow A [] H). apply nth_nil0. Qed.

(* (A x)_i as a finite sum *)
Lemma vget_dmv_mv : forall A r c x i, wfm A r c -> length x = c ->
  vget (dmv A x) i = mv c (dentry A) (vget x) i.
Proof.
  intros A r c x i W Hx. rewrite vget_dmv.
  destruct (Nat.lt_ge_cases i r) as [Hi|Hi].
  - rewrite ldot_sumn by (rewrite (drow_length A r c i W Hi); auto). rewrite Hx. reflexivity.
  - destruct W as (H1 & _). unfold drow. rewrite (nth_overflow A []) by lia. simpl.
    unfold mv. symmetry. apply sumn_zero. intros. rewrite dentry_out by lia. ring.
Qed.

Lemma vget_vadd : forall a b k, length a = length b -> vget (vadd a b) k = vget a k + vget b k.
Proof.
  unfold vget, vadd. induction a; intros [|y b] k H; simpl in H; try discriminate.
  - destruct k; simpl; ring.
  - destruct k; simpl; [reflexivity|]. apply IHa. lia.
Qed.

Lemma vadd_length : forall a b, length a = length b -> length (vadd a b) = length a.
Proof. intros. unfold vadd. rewrite map_length, combine_length. lia. Qed.

Lemma vsub_length : forall a b, length a = length b -> length (vsub a b) = length a.
Proof. intros. unfold vsub. rewrite map_length, combine_length. lia. Qed.

(* entries of the transpose *)
Lemma dcol_length : forall P a, length (dcol P a) = length P.
Proof. intros. unfold dcol. apply map_length. Qed.

Lemma nth_dcol : forall P a i, nth i (dcol P a) 0 = dentry P i a.
Proof.
  intros. unfold dcol, dentry, drow.
  rewrite <- (nth_nil0 a) at 1. apply (map_nth (fun r : list Qc => nth a r 0)).
Qed.

Lemma drow_dtrans : forall P a, (a < ncols P)%nat -> drow (dtrans P) a = dcol P a.
Proof.
  intros. unfold dtrans, drow.
  rewrite (nth_indep _ [] (dcol P 0)) by (rewrite map_length, seq_length; exact H).
  rewrite (map_nth (dcol P) (seq 0 (ncols P)) 0%nat a). rewrite seq_nth by exact H. reflexivity.
Qed.

Lemma dentry_dtrans : forall P a i, (a < ncols P)%nat -> dentry (dtrans P) a i = dentry P i a.
Proof. intros. unfold dentry at 1. rewrite drow_dtrans by exact H. apply nth_dcol. Qed.

Lemma wfm_dtrans : forall P n nc, wfmat P n nc -> wfm (dtrans P) nc n.
Proof.
  intros P n nc ((H1 & H2) & H3). split.
  - rewrite dtrans_length. exact H3.
  - intros row Hin. unfold dtrans in Hin. apply in_map_iff in Hin. destruct Hin as (a & <- & _).
    rewrite dcol_length. exact H1.
Qed.

Lemma drow_dmm : forall X Y a, (a < length X)%nat ->
  drow (dmm X Y) a = map (fun j => ldot (drow X a) (dcol Y j)) (seq 0 (ncols Y)).
Proof.
  intros. unfold dmm, drow.
  rewrite (nth_indep _ [] ((fun r => map (fun j => ldot r (dcol Y j)) (seq 0 (ncols Y))) (@nil Qc)))
    by (rewrite map_length; exact H).
  apply (map_nth (fun r => map (fun j => ldot r (dcol Y j)) (seq 0 (ncols Y)))).
Qed.

Lemma dentry_dmm : forall X Y a b m, (a < length X)%nat -> (b < ncols Y)%nat ->
  length (drow X a) = m -> length Y = m ->
  dentry (dmm X Y) a b = sumn m (fun k => dentry X a k * dentry Y k b).
Proof.
  intros X Y a b m Ha Hb H1 H2. unfold dentry at 1. rewrite drow_dmm by exact Ha.
  rewrite (nth_indep _ 0 ((fun j => ldot (drow X a) (dcol Y j)) 0%nat))
    by (rewrite map_length, seq_length; exact Hb).
  rewrite (map_nth (fun j => ldot (drow X a) (dcol Y j)) (seq 0 (ncols Y)) 0%nat b).
  rewrite seq_nth by exact Hb. simpl.
  rewrite ldot_sumn by (rewrite dcol_length; congruence).
  rewrite dcol_length, H2. apply sumn_ext. intros k _. unfold vget. rewrite nth_dcol. reflexivity.
Qed.

Lemma dmm_length : forall X Y, length (dmm X Y) = length X.
Proof. intros. unfold dmm. apply map_length. Qed.

Lemma dentry_galerkin : forall P A n nc a b,
  wfmat P n nc -> wfmat A n n -> (a < nc)%nat -> (b < nc)%nat ->
  dentry (galerkin P A) a b = fgal n (dentry P) (dentry A) a b.
Proof.
  intros P A n nc a b WP WA Ha Hb. unfold galerkin.
  destruct WP as ((P1 & P2) & P3). destruct WA as ((A1 & A2) & A3).
  set (Z := dmm (dtrans P) A).
  assert (LZ : length Z = nc) by (unfold Z; rewrite dmm_length, dtrans_length; exact P3).
  assert (RZ : length (drow Z a) = n).
  { unfold Z. rewrite drow_dmm by (rewrite dtrans_length; lia). rewrite map_length, seq_length. exact A3. }
  rewrite (dentry_dmm Z P a b n) by (try lia; auto).
  unfold fgal. apply sumn_ext. intros j Hj. f_equal.
  unfold Z. rewrite (dentry_dmm (dtrans P) A a j n).
  - apply sumn_ext. intros i _. rewrite dentry_dtrans by lia. reflexivity.
  - rewrite dtrans_length. lia.
  - lia.
  - rewrite drow_dtrans by lia. rewrite dcol_length. exact P1.
  - exact A1.
Qed.

Lemma wfmat_galerkin : forall P A n nc, wfmat P n nc -> wfmat A n n -> wfmat (galerkin P A) nc nc.
Proof.
  intros P A n nc ((P1 & P2) & P3) WA. unfold galerkin.
  set (Z := dmm (dtrans P) A).
  assert (LZ : length Z = nc) by (unfold Z; rewrite dmm_length, dtrans_length; exact P3).
  split; [split|].
  - rewrite dmm_length. exact LZ.
  - intros row Hin. unfold dmm in Hin. apply in_map_iff in Hin. destruct Hin as (r & <- & _).
    rewrite map_length, seq_length. exact P3.
  - unfold ncols at 1. destruct (Nat.eq_dec nc 0) as [E|E].
    + unfold drow. rewrite nth_overflow by (rewrite dmm_length; lia). simpl. lia.
    + rewrite drow_dmm by lia. rewrite map_length, seq_length. exact P3.
Qed.

(* the correction vector of `x[idx] += y` *)
Fixpoint dfun (idx : list nat) (y : vec) (k : nat) : Qc :=
  match idx, y with
  | i :: idx', v :: y' => (if Nat.eqb k i then v else 0) + dfun idx' y' k
  | _, _ => 0
  end.

Lemma scatter_add_length : forall idx y x, length (scatter_add idx y x) = length x.
Proof.
  induction idx; intros [|v y] x; simpl; auto. rewrite IHidx. apply upd_length.
Qed.

Lemma vget_scatter_add : forall idx y x k, (forall i, In i idx -> (i < length x)%nat) ->
  vget (scatter_add idx y x) k = vget x k + dfun idx y k.
Proof.
  induction idx as [|i idx IH]; intros [|v y] x k H; simpl; try ring.
  rewrite IH by (intros; rewrite upd_length; apply H; right; assumption).
  rewrite vget_upd by (apply H; left; reflexivity). unfold fupd.
  destruct (Nat.eqb k i) eqn:E; [apply Nat.eqb_eq in E; subst; ring|ring].
Qed.

Lemma dfun_notin : forall idx y k, ~ In k idx -> dfun idx y k = 0.
Proof.
  induction idx as [|i idx IH]; intros [|v y] k H; simpl; try reflexivity.
  destruct (Nat.eqb_spec k i); [subst; exfalso; apply H; left; reflexivity|].
  rewrite IH by (intro; apply H; right; assumption). ring.
Qed.

(* A applied to the correction = columns idx of A times y *)
Lemma mv_dfun : forall n M idx y k, (forall i, In i idx -> (i < n)%nat) ->
  mv n M (dfun idx y) k = ldot (map (fun i => M k i) idx) y.
Proof.
  induction idx as [|i idx IH]; intros [|v y] k H; simpl;
    try (unfold mv; apply sumn_zero; intros; ring).
  rewrite mv_plus, IH by (intros; apply H; right; assumption).
  f_equal. unfold mv.
  rewrite (sumn_ext n _ (fun j => if Nat.eqb j i then M k j * v else 0))
    by (intros j _; destruct (Nat.eqb j i); ring).
  apply (sumn_delta n i (fun j => M k j * v)). apply H. left. reflexivity.
Qed.

(* `x[idx] = y` on a zero vector is `x[idx] += y` when idx has no repetition *)
Lemma scatter_set_add_zeros : forall idx y x,
  NoDup idx -> (forall i, In i idx -> vget x i = 0) ->
  scatter_set idx y x = scatter_add idx y x.
Proof.
  induction idx as [|i idx IH]; intros [|v y] x Hn Hz; simpl; try reflexivity.
  inversion Hn; subst.
  rewrite (Hz i (or_introl eq_refl)). replace (0 + v) with v by ring.
  apply IH; [assumption|]. intros j Hj. rewrite vget_upd_other.
  - apply Hz. right. exact Hj.
  - intro E. subst. contradiction.
Qed.

Lemma gather_length : forall idx x, length (gather idx x) = length idx.
Proof. intros. unfold gather. apply map_length. Qed.

Lemma vget_gather : forall idx x q, (q < length idx)%nat -> vget (gather idx x) q = vget x (nth q idx 0%nat).
Proof.
  intros. unfold gather, vget at 1.
  rewrite (nth_indep _ 0 (vget x 0%nat)) by (rewrite map_length; exact H).
  apply (map_nth (vget x)).
Qed.

Lemma drow_submat : forall A idx q, (q < length idx)%nat ->
  drow (submat A idx) q = gather idx (drow A (nth q idx 0%nat)).
Proof.
  intros. unfold submat, drow at 1.
  rewrite (nth_indep _ [] ((fun i => gather idx (drow A i)) 0%nat)) by (rewrite map_length; exact H).
  apply (map_nth (fun i => gather idx (drow A i))).
Qed.

(* ---------------------------------------------------------------------- *)
(* part 3: the cycle                                                        *)
(* ---------------------------------------------------------------------- *)
Definition Jl (A : dense) (f x : vec) : Qc := Jfun (length x) (dentry A) (vget f) (vget x).
Definition idx_ok (n : nat) (idx : list nat) : Prop := NoDup idx /\ forall i, In i idx -> (i < n)%nat.
(* the contract of operators.make_solver for the block A[idx][:,idx] *)
Definition solves (A : dense) (idx : list nat) (B : vec -> vec) : Prop :=
  forall r, length r = length idx -> length (B r) = length idx /\ dmv (submat A idx) (B r) = r.
Definition dsym (n : nat) (A : dense) : Prop := symmetric n (dentry A).
Definition dpsd (n : nat) (A : dense) : Prop := psd n (dentry A).

Lemma resid_zeros : forall A n f, length A = n -> length f = n -> vsub f (dmv A (zeros n)) = f.
Proof. intros. unfold zeros. rewrite dmv_zeros, H, <- H0. apply vsub_zeros. Qed.

Lemma Jl_zeros : forall A f n, Jl A f (zeros n) = 0.
Proof.
  intros. unfold Jl. rewrite (Jfun_ext _ (dentry A) (dentry A) (vget f) (vget f) (vget (zeros n)) (fun _ => 0)); auto.
  - apply Jfun_zero.
  - intros. apply vget_repeat0.
Qed.

(* an exact solve on idx lowers J *)
Lemma exact_correction_J : forall A n idx B x f,
  wfm A n n -> dsym n A -> dpsd n A -> idx_ok n idx -> solves A idx B ->
  length x = n -> length f = n ->
  let x' := scatter_add idx (B (gather idx (vsub f (dmv A x)))) x in
  length x' = n /\ Jl A f x' <= Jl A f x.
Proof.
  intros A n idx B x f W Hs Hp (Hnd & Hin) HB Hx Hf. cbv zeta.
  set (r := vsub f (dmv A x)). set (y := B (gather idx r)).
  destruct (HB (gather idx r) (gather_length idx r)) as [Hy1 Hy2]. fold y in Hy1, Hy2.
  assert (Hl : length (scatter_add idx y x) = n) by (rewrite scatter_add_length; exact Hx).
  split; [exact Hl|]. unfold Jl. rewrite Hl, Hx.
  rewrite (Jfun_ext n (dentry A) (dentry A) (vget f) (vget f) (vget (scatter_add idx y x))
                    (fun k => vget x k + dfun idx y k)); auto.
  2:{ intros. apply vget_scatter_add. intros j Hj. rewrite Hx. apply Hin. exact Hj. }
  apply J_subspace; [exact Hs|exact Hp|].
  intros k Hk. destruct (in_dec Nat.eq_dec k idx) as [Hi|Hi].
  - right. destruct (In_nth idx k 0%nat Hi) as (q & Hq & Eq).
    rewrite (mv_dfun n (dentry A) idx y k Hin).
    assert (E := f_equal (fun v => vget v q) Hy2). simpl in E.
    rewrite vget_dmv, drow_submat, vget_gather in E by exact Hq. rewrite Eq in E.
    change (gather idx (drow A k)) with (map (fun i => dentry A k i) idx) in E.
    rewrite E. unfold r. rewrite vget_vsub by (rewrite dmv_length; destruct W; congruence).
    rewrite (vget_dmv_mv A n n x k W Hx). reflexivity.
  - left. apply dfun_notin. exact Hi.
Qed.

(* coarse-grid correction *)
Lemma coarse_correction_J : forall A P n nc x f y,
  wfmat A n n -> wfmat P n nc -> dsym n A -> length x = n -> length f = n -> length y = nc ->
  Jl A f (vadd x (dmv P y)) =
  Jl A f x + Jl (galerkin P A) (dmv (dtrans P) (vsub f (dmv A x))) y.
Proof.
  intros A P n nc x f y WA WP Hs Hx Hf Hy.
  assert (WA' := proj1 WA). assert (WP' := proj1 WP).
  assert (LP : length (dmv P y) = n) by (rewrite dmv_length; apply WP').
  assert (Lv : length (vadd x (dmv P y)) = n) by (rewrite vadd_length; congruence).
  set (r := vsub f (dmv A x)).
  assert (Lr : length r = n).
  { unfold r. rewrite vsub_length; [exact Hf|]. rewrite dmv_length. destruct WA'. congruence. }
  unfold Jl. rewrite Lv, Hx, Hy.
  rewrite (Jfun_ext n (dentry A) (dentry A) (vget f) (vget f) (vget (vadd x (dmv P y)))
                    (fun k => vget x k + mv nc (dentry P) (vget y) k)); auto.
  2:{ intros. rewrite vget_vadd by congruence. rewrite (vget_dmv_mv P n nc y i WP' Hy). reflexivity. }
  rewrite (J_coarse n nc (dentry P) (dentry A) (vget f) (vget x) (vget y) Hs). f_equal.
  apply Jfun_ext.
  - intros a b Ha Hb. symmetry. apply (dentry_galerkin P A n nc a b WP WA Ha Hb).
  - intros a Ha. rewrite (vget_dmv_mv (dtrans P) nc n r a (wfm_dtrans P n nc WP) Lr).
    rewrite (mv_mat_ext n (dentry (dtrans P)) (ftr (dentry P)) (vget r) a).
    + apply mv_ext. intros k Hk. unfold r.
      rewrite vget_vsub by (rewrite dmv_length; destruct WA'; congruence).
      rewrite (vget_dmv_mv A n n x k WA' Hx). reflexivity.
    + intros j _. unfold ftr. apply dentry_dtrans. destruct WP as (_ & E). rewrite E. exact Ha.
  - reflexivity.
Qed.

Lemma galerkin_sym : forall P A n nc, wfmat P n nc -> wfmat A n n -> dsym n A -> dsym nc (galerkin P A).
Proof.
  intros P A n nc WP WA Hs a b Ha Hb.
  rewrite !(dentry_galerkin P A n nc) by assumption. apply (fgal_sym n nc); assumption.
Qed.

Lemma galerkin_psd : forall P A n nc, wfmat P n nc -> wfmat A n n -> dpsd n A -> dpsd nc (galerkin P A).
Proof.
  intros P A n nc WP WA Hp v. unfold dpsd in *.
  rewrite (dotn_ext nc v (mv nc (dentry (galerkin P A)) v) v (mv nc (fgal n (dentry P) (dentry A)) v)).
  - apply fgal_psd. exact Hp.
  - reflexivity.
  - intros a Ha. apply mv_mat_ext. intros b Hb. apply (dentry_galerkin P A n nc a b WP WA Ha Hb).
Qed.

Section MGEnergyCycle.
  Variable steps : nat.
  Variable ind0 : list nat.
  Variable B0 : vec -> vec.

  (* the hierarchy below an operator A of order n, as local_mg_step builds it: every level's
     operator is the Galerkin product of the finer one, smoothing sets are repetition-free
     index lists in range, the sub-solvers solve their blocks *)
  Fixpoint goodE (n : nat) (A : dense) (levels : list level) : Prop :=
    wfmat A n n /\
    match levels with
    | [] => idx_ok n ind0 /\ solves A ind0 B0
    | L :: rest =>
        lvA L = A /\ idx_ok n (lvInd L) /\ solves A (lvInd L) (lvB L) /\
        exists nc, wfmat (lvP L) n nc /\ goodE nc (galerkin (lvP L) A) rest
    end.

  Lemma mg_J : forall levels n A, goodE n A levels -> dsym n A -> dpsd n A ->
    (forall f, length f = n ->
       length (mg_step SmExact steps ind0 B0 levels (zeros n) f) = n /\
       Jl A f (mg_step SmExact steps ind0 B0 levels (zeros n) f) <= 0) /\
    (levels <> [] -> forall x f, length x = n -> length f = n ->
       length (mg_step SmExact steps ind0 B0 levels x f) = n /\
       Jl A f (mg_step SmExact steps ind0 B0 levels x f) <= Jl A f x).
  Proof.
    induction levels as [|L rest IH]; intros n A G Hs Hp.
    - simpl in G. destruct G as (WA & Hi & HB). split; [|intros C; contradiction C; reflexivity].
      intros f Hf. cbn [mg_step].
      assert (Lz : length (zeros n) = n) by (unfold zeros; apply repeat_length).
      rewrite scatter_set_add_zeros by (try apply Hi; intros; apply vget_repeat0).
      rewrite <- (resid_zeros A n f (proj1 (proj1 WA)) Hf) at 1 3.
      destruct (exact_correction_J A n ind0 B0 (zeros n) f (proj1 WA) Hs Hp Hi HB Lz Hf) as [E1 E2].
      rewrite Jl_zeros in E2. rewrite (resid_zeros A n f (proj1 (proj1 WA)) Hf) in *. auto.
    - simpl in G. destruct G as (WA & HA & Hi & HB & nc & WP & Grest).
      assert (Gen : forall x f, length x = n -> length f = n ->
         length (mg_step SmExact steps ind0 B0 (L :: rest) x f) = n /\
         Jl A f (mg_step SmExact steps ind0 B0 (L :: rest) x f) <= Jl A f x).
      { intros x f Hx Hf. cbn [mg_step pre_smooth post_smooth]. rewrite HA.
        destruct (exact_correction_J A n (lvInd L) (lvB L) x f (proj1 WA) Hs Hp Hi HB Hx Hf) as [E1 E2].
        set (x1 := scatter_add (lvInd L) (lvB L (gather (lvInd L) (vsub f (dmv A x)))) x) in *.
        set (rc := dmv (dtrans (lvP L)) (vsub f (dmv A x1))).
        assert (Lrc : length rc = nc).
        { unfold rc. rewrite dmv_length, dtrans_length. apply WP. }
        rewrite Lrc.
        destruct (IH nc (galerkin (lvP L) A) Grest
                    (galerkin_sym _ _ n nc WP WA Hs) (galerkin_psd _ _ n nc WP WA Hp)) as [Z _].
        destruct (Z rc Lrc) as [Z1 Z2].
        set (yc := mg_step SmExact steps ind0 B0 rest (zeros nc) rc) in *.
        split.
        - rewrite vadd_length; [exact E1|]. rewrite dmv_length. destruct WP as ((W1 & _) & _). congruence.
        - rewrite (coarse_correction_J A (lvP L) n nc x1 f yc WA WP Hs E1 Hf Z1). fold rc.
          eapply Qcle_trans; [|exact E2].
          rewrite <- (Qcplus_0_r (Jl A f x1)) at 2.
          apply Qcplus_le_compat; [apply Qcle_refl|exact Z2]. }
      split.
      + intros f Hf. assert (Lz : length (zeros n) = n) by (unfold zeros; apply repeat_length).
        destruct (Gen (zeros n) f Lz Hf) as [G1 G2]. rewrite Jl_zeros in G2. auto.
      + intros _. exact Gen.
  Qed.

  (* J form: no exact solution needed *)
  Lemma mg_exact_J_monotone_l : forall L rest n A x f,
    goodE n A (L :: rest) -> dsym n A -> dpsd n A -> length x = n -> length f = n ->
    Jl A f (mg_step SmExact steps ind0 B0 (L :: rest) x f) <= Jl A f x.
  Proof.
    intros L rest n A x f G Hs Hp Hx Hf.
    destruct (mg_J (L :: rest) n A G Hs Hp) as [_ H]. apply H; auto. discriminate.
  Qed.
End MGEnergyCycle.

(* ---------------------------------------------------------------------- *)
(* energy-norm error form                                                   *)
(* ---------------------------------------------------------------------- *)
Lemma energy_J_gen : forall n A f xs x, symmetric n A ->
  energy n A xs x = Jfun n A f x + (1+1) * dotn n x (fun k => f k - mv n A xs k) + dotn n xs (mv n A xs).
Proof.
  intros n A f xs x Hs.
  rewrite (energy_J n A (mv n A xs) xs x Hs) by reflexivity.
  unfold Jfun. rewrite dotn_minus_r. ring.
Qed.

Lemma dotn_vanish : forall n x g, (forall k, (k < n)%nat -> x k = 0 \/ g k = 0) -> dotn n x g = 0.
Proof.
  intros. unfold dotn. apply sumn_zero. intros k Hk. destruct (H k Hk) as [E|E]; rewrite E; ring.
Qed.

Section MGEnergyThm.
  Variable steps : nat.
  Variable ind0 : list nat.
  Variable B0 : vec -> vec.

  (* Dirichlet-aware form: xs solves the rows outside a set of constrained dofs on which the
     iterates vanish (before and after the cycle) *)
  Lemma mg_exact_energy_monotone_dirichlet_l : forall L rest n A x f xs,
    goodE ind0 B0 n A (L :: rest) -> dsym n A -> dpsd n A ->
    length x = n -> length f = n ->
    let y := mg_step SmExact steps ind0 B0 (L :: rest) x f in
    (forall k, (k < n)%nat -> vget x k = 0 \/ mv n (dentry A) (vget xs) k = vget f k) ->
    (forall k, (k < n)%nat -> vget y k = 0 \/ mv n (dentry A) (vget xs) k = vget f k) ->
    energy n (dentry A) (vget xs) (vget y) <= energy n (dentry A) (vget xs) (vget x).
  Proof.
    intros L rest n A x f xs G Hs Hp Hx Hf y H1 H2.
    destruct (mg_J steps ind0 B0 (L :: rest) n A G Hs Hp) as [_ H].
    destruct (H ltac:(discriminate) x f Hx Hf) as [Ly HJ]. fold y in Ly, HJ.
    rewrite !(energy_J_gen n (dentry A) (vget f)) by exact Hs.
    rewrite (dotn_vanish n (vget y) (fun k => vget f k - mv n (dentry A) (vget xs) k)).
    2:{ intros k Hk. destruct (H2 k Hk) as [E|E]; [left; exact E|right; rewrite E; ring]. }
    rewrite (dotn_vanish n (vget x) (fun k => vget f k - mv n (dentry A) (vget xs) k)).
    2:{ intros k Hk. destruct (H1 k Hk) as [E|E]; [left; exact E|right; rewrite E; ring]. }
    unfold Jl in HJ. rewrite Ly, Hx in HJ.
    apply Qcplus_le_compat; [|apply Qcle_refl].
    apply Qcplus_le_compat; [exact HJ|apply Qcle_refl].
  Qed.

  (* xs solves the whole system *)
  Lemma mg_exact_energy_monotone_l : forall L rest n A x f xs,
    goodE ind0 B0 n A (L :: rest) -> dsym n A -> dpsd n A ->
    length x = n -> length f = n -> length xs = n -> dmv A xs = f ->
    energy n (dentry A) (vget xs) (vget (mg_step SmExact steps ind0 B0 (L :: rest) x f))
    <= energy n (dentry A) (vget xs) (vget x).
  Proof.
    intros L rest n A x f xs G Hs Hp Hx Hf Hxs Hsol.
    assert (E : forall k, (k < n)%nat -> mv n (dentry A) (vget xs) k = vget f k).
    { intros k _. rewrite <- Hsol. symmetry. apply (vget_dmv_mv A n n xs k); [|exact Hxs].
      simpl in G. apply G. }
    apply mg_exact_energy_monotone_dirichlet_l; auto.
  Qed.
End MGEnergyThm.
