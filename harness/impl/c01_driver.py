"""Implementation driver for C01 (runs inside the scratch copy of /repo).

stdin : JSON {'mode': 'layout'|'asm', ...}
stdout: last line JSON

mode 'layout': the code-generation layout functions on generated forms and on synthetic inputs
               (exact integers; compared with coq/C01/Model.v by the harness).
mode 'asm'   : forms (python code over the public vform API) are generated, built, imported,
               instantiated on random spaces/geometries/inputs and every sampled entry is compared
               with the independent oracle (harness/props/c01_oracle.py) here; only numbers and
               classifications go back.
"""
import contextlib
import json
import os
import random
import re
import sys
import time
import traceback

import numpy as np


def errclass(e):
    for c in (NotImplementedError, TypeError, ValueError, AssertionError, IndexError, KeyError,
              ZeroDivisionError, RuntimeError, AttributeError, NameError, SyntaxError, RecursionError,
              ImportError, OSError):
        if isinstance(e, c):
            return c.__name__
    return 'Other:' + type(e).__name__


@contextlib.contextmanager
def stdout_to_stderr():
    sys.stdout.flush()
    saved = os.dup(1)
    os.dup2(2, 1)
    try:
        yield
    finally:
        sys.stdout.flush()
        os.dup2(saved, 1)
        os.close(saved)


# ---------------------------------------------------------------------------------------------
# random spaces, geometries, fields (all from a seeded random.Random; dyadic numbers)
# ---------------------------------------------------------------------------------------------

def make_kv(bspline, rng, a, b, p=None, breaks=None, maxspans=3):
    if p is None:
        p = rng.choice([1, 2, 2, 3])
    if breaks is None:
        ns = rng.randint(1, maxspans)
        inner = sorted(rng.sample(range(1, 8), ns - 1))
        breaks = [a + (b - a) * k / 8.0 for k in inner]
    knots = [a] * (p + 1)
    for x in breaks:
        m = 1 if rng.random() < 0.7 else rng.randint(1, p)
        knots += [x] * m
    knots += [b] * (p + 1)
    return bspline.KnotVector(np.array(knots, dtype=float), p), breaks


def make_spaces(bspline, rng, d, two, cfg=None):
    """cfg (optional): {'p0': degrees of space 0 per axis, 'p1': degrees of space 1 per axis, 'geo': 'identity'|'random'}"""
    kvs0, kvs1 = [], []
    cfg = cfg or {}
    for ax in range(d):
        a = rng.choice([0.0, 0.0, -1.0, 0.5])
        b = a + rng.choice([1.0, 1.0, 2.0, 0.5])
        if cfg.get('geo') == 'identity':
            a, b = 0.0, 1.0
        maxspans = 3 if d < 3 else 2
        kv, br = make_kv(bspline, rng, a, b, p=(cfg['p0'][ax] if 'p0' in cfg else None), maxspans=maxspans)
        kvs0.append(kv)
        if two:
            kv1, _ = make_kv(bspline, rng, a, b, p=(cfg['p1'][ax] if 'p1' in cfg else None), breaks=br)
            kvs1.append(kv1)
    return tuple(kvs0), (tuple(kvs1) if two else None)


def make_geo(bspline, geometry, rng, kvs, d, g, spacetime, nurbs, orient=1):
    """B-spline / NURBS map with Jacobian determinant bounded away from 0 (checked by the caller)."""
    gk = []
    for kv in kvs:
        a, b = float(kv.kv[0]), float(kv.kv[-1])
        gk.append(bspline.make_knots(2, a, b, rng.randint(1, 2)))
    n = [k.numdofs for k in gk]
    grev = [k.greville() for k in gk]
    sizes = [float(kv.kv[-1] - kv.kv[0]) for kv in kvs]
    C = np.zeros(n + [g])
    # identity: component m (x = 0) <-> grid axis d-1-m
    for m in range(min(d, g)):
        ax = d - 1 - m
        shp = [1] * d
        shp[ax] = n[ax]
        C[..., m] = np.asarray(grev[ax]).reshape(shp)
    A = np.eye(g, g)
    for i in range(g):
        for j in range(min(d, g)):
            if i != j:
                A[i, j] = rng.choice([-2, -1, 0, 0, 1, 2]) / 8.0
    amp = 0.08 * min(sizes)
    pert = np.array([[rng.randint(-8, 8) / 8.0 for _ in range(g)] for _ in range(int(np.prod(n)))]).reshape(n + [g]) * amp
    if g > d:
        bump = np.array([rng.randint(-8, 8) / 16.0 for _ in range(int(np.prod(n)))]).reshape(n)
        C[..., g - 1] = bump
    if spacetime:
        # cylinder: G(x, t) = (G~(x), t); time = D index d-1 = grid axis 0, last component
        A[:, d - 1] = 0
        A[d - 1, :] = 0
        A[d - 1, d - 1] = 1
        pert[..., d - 1] = 0
        pert = np.broadcast_to(pert[0:1], pert.shape).copy()
    C = C @ A.T + pert
    if orient < 0:
        # orientation-reversing map (det J < 0 everywhere): reflect the x coordinate, or swap two space coordinates
        nspace = (d - 1) if spacetime else min(d, g)
        if nspace >= 2 and rng.random() < 0.5:
            C[..., [0, 1]] = C[..., [1, 0]]
        else:
            C[..., 0] = -C[..., 0]
    if nurbs:
        W = 1.0 + np.array([rng.randint(0, 8) / 16.0 for _ in range(int(np.prod(n)))]).reshape(n)
        if spacetime:
            W = np.broadcast_to(W[0:1], W.shape).copy()
        return geometry.NurbsFunc(tuple(gk), C, W)
    return bspline.BSplineFunc(tuple(gk), C)


def make_field(bspline, rng, kvs, shape, positive=True):
    gk = []
    for kv in kvs:
        a, b = float(kv.kv[0]), float(kv.kv[-1])
        gk.append(bspline.make_knots(2, a, b, rng.randint(1, 2)))
    n = [k.numdofs for k in gk]
    tot = int(np.prod(n + list(shape)))
    vals = np.array([rng.randint(-4, 4) / 16.0 for _ in range(tot)]).reshape(n + list(shape))
    if positive:
        vals = vals + 1.5
    if len(shape) == 2 and shape[0] == shape[1]:
        vals = vals + 1.0 * np.eye(shape[0])
    return bspline.BSplineFunc(tuple(gk), vals)


def make_physical(rng, g, shape):
    c = [rng.randint(-4, 4) / 8.0 for _ in range(4 + 3 * int(np.prod(shape or (1,))))]

    def comp(k, X):
        s = 1.5 + 0.0 * X[0]
        for m in range(len(X)):
            s = s + c[(k * 3 + m) % len(c)] * 0.25 * X[m]
        s = s + 0.125 * c[(k + 3) % len(c)] * X[0] * X[-1]
        return s
    if shape == ():
        return lambda *X: comp(0, X)
    if len(shape) == 1:
        return lambda *X: np.stack([comp(k, X) for k in range(shape[0])], axis=-1)
    return lambda *X: np.stack([np.stack([comp(i * shape[1] + j, X) for j in range(shape[1])], axis=-1)
                                for i in range(shape[0])], axis=-2)


def own_jac_to_boundary(bdspec, dim):
    """d x (d-1) matrix selecting the tangent directions of face (grid axis, side), columns signed so that the
    library's normal construction ((-t1, t0) in 2-D, t0 x t1 in 3-D) points outward for det J > 0.  Written from
    the documented convention (assemble.py:903-907), not by calling the library."""
    ax, side = bdspec
    c = dim - 1 - ax                      # D index (x = last grid axis)
    cols = [k for k in range(dim) if k != c]
    B = np.zeros((dim, dim - 1))
    for j, k in enumerate(cols):
        B[k, j] = 1.0
    # orientation: outward normal n = s * e_c with s = +1 on side 1, -1 on side 0
    if dim == 2:
        t = B[:, 0]
        n = np.array([-t[1], t[0]])
    elif dim == 3:
        n = np.cross(B[:, 0], B[:, 1])
    else:
        return B
    want = 1.0 if side == 1 else -1.0
    if n[c] * want < 0:
        B[:, 0] *= -1
    return B


def gauss_nodes(mesh, nqp):
    """own Gauss-Legendre nodes/weights on the spans of `mesh` (not pyiga.quadrature)"""
    x, w = np.polynomial.legendre.leggauss(nqp)
    nodes, weights = [], []
    for a, b in zip(mesh[:-1], mesh[1:]):
        m, h = 0.5 * (a + b), 0.5 * (b - a)
        nodes += list(m + h * x)
        weights += list(h * w)
    return np.array(nodes), np.array(weights)


# ---------------------------------------------------------------------------------------------
# one (form, instance)
# ---------------------------------------------------------------------------------------------

def run_instance(mods, spec, header, forest, asmcls, seed, max_pairs, selftest_scale=None, cfg=None, hist=None):
    pyiga, bspline, geometry, assemble, vform, orc = mods
    rng = random.Random(seed)
    d, g = header['dim'], header['geo_dim']
    arity = header['arity']
    bfs = header['bfuns']
    two = len(set(b['space'] for b in bfs)) > 1
    res = {'seed': seed}
    # hist: state of a HISTORY of assemblies on one space/geometry/input set that pass ONE args dict to the library
    # (boundary forms: one assembly per side, cfg['side'])
    reuse = hist is not None and 'args' in hist
    if reuse:
        kvs0, kvs1 = hist['kvs']
    else:
        kvs0, kvs1 = make_spaces(bspline, rng, d, two, cfg)
    boundary = None
    if header['boundary']:
        boundary = (rng.randrange(d), rng.randint(0, 1))
        if cfg and cfg.get('side') is not None:
            boundary = tuple(cfg['side'])
    spaces = {0: kvs0, 1: kvs1 if two else kvs0}
    nqp = max(kv.p for kv in (kvs0 + (kvs1 or ()))) + 1
    res['space'] = {'kvs0': [[kv.p] + [float(x) for x in kv.kv] for kv in kvs0],
                    'kvs1': None if not two else [[kv.p] + [float(x) for x in kv.kv] for kv in kvs1],
                    'boundary': boundary, 'nqp': nqp}
    # geometry with |det J| bounded below
    geo = None
    if reuse:
        geo, nurbs = hist['geo'], hist['nurbs']
        res['orientation'] = hist.get('orientation')
        grid = []
        for ax, kv in enumerate(kvs0):
            if boundary is not None and ax == boundary[0]:
                grid.append(np.array([kv.mesh[0] if boundary[1] == 0 else kv.mesh[-1]]))
            else:
                grid.append(gauss_nodes(kv.mesh, nqp)[0])
    for attempt in range(0 if reuse else 20):
        nurbs = rng.random() < 0.4
        orient = (cfg or {}).get('orient') or (-1 if rng.random() < 0.35 else 1)
        if cfg and cfg.get('geo') == 'identity' and g == d:
            nurbs = False
            orient = 1
            cand = geometry.unit_cube(dim=d)
        else:
            cand = make_geo(bspline, geometry, rng, kvs0, d, g, header['spacetime'], nurbs, orient)
        grid = []
        for ax, kv in enumerate(kvs0):
            if boundary is not None and ax == boundary[0]:
                grid.append(np.array([kv.mesh[0] if boundary[1] == 0 else kv.mesh[-1]]))
            else:
                grid.append(gauss_nodes(kv.mesh, nqp)[0])
        vgrid = grid
        if hist is not None:
            # a history visits several faces: validate on the Gauss nodes and both end points of every axis
            vgrid = [np.concatenate([[kv.mesh[0]], gauss_nodes(kv.mesh, nqp)[0], [kv.mesh[-1]]]) for kv in kvs0]
        J = cand.grid_jacobian(tuple(vgrid))
        if g == d:
            det = np.linalg.det(J)
            if np.abs(det).min() > 0.2 and (det.min() > 0) == (det.max() > 0):
                geo = cand
                res['orientation'] = 1 if det.min() > 0 else -1
                break
        else:
            gram = np.linalg.det(np.swapaxes(J, -1, -2) @ J)
            if gram.min() > 0.05:
                geo = cand
                break
    if geo is None:
        res['status'] = 'NoGeometry'
        return res
    res['geo'] = 'nurbs' if nurbs else 'bspline'
    args = hist['args'] if reuse else {'geo': geo}
    fields = {}
    params = hist['params'] if reuse else {}
    for inp in ([] if reuse else header['inputs']):
        if inp['name'] == 'geo':
            continue
        shp = tuple(inp['shape'])
        if inp['physical']:
            f = make_physical(rng, g, shp)
        else:
            f = make_field(bspline, rng, kvs0, shp)
        args[inp['name']] = f
    for par in ([] if reuse else header['params']):
        if par['name'] == 'Jac_to_boundary':
            continue
        shp = tuple(par['shape'])
        val = np.array([rng.randint(1, 12) / 8.0 for _ in range(int(np.prod(shp or (1,))))]).reshape(shp)
        if len(shp) == 2 and shp[0] == shp[1]:
            val = val + 2.0 * np.eye(shp[0])
        params[par['name']] = val if shp else float(val)
        args[par['name']] = params[par['name']]
    # ---- implementation --------------------------------------------------------------------
    t0 = time.time()
    try:
        if hist is not None and not reuse:
            hist.update(args=args, params=params, kvs=(kvs0, kvs1), geo=geo, nurbs=nurbs, orientation=res.get('orientation'))
        if not two:
            # a history hands the SAME dict object to every call, as a loop over boundary conditions does
            asm = assemble.instantiate_assembler(asmcls, kvs0, args if hist is not None else dict(args), None, boundary)
            if hist is not None:
                res['history_step'] = hist['step'] = hist.get('step', 0) + 1
                hist.setdefault('sides', []).append(list(boundary) if boundary else None)
                res['history_sides'] = list(hist['sides'])
                fresh_args = {k: v for k, v in args.items() if k != 'Jac_to_boundary'}
                asm_fresh = assemble.instantiate_assembler(asmcls, kvs0, fresh_args, None, boundary)
        else:
            # instantiate_assembler only learns the number of spaces from a VForm (assemble.py:929);
            # for an assembler CLASS with two spaces do what it does for a VForm (assemble.py:939-955)
            used = {}
            a2 = dict(args)
            if boundary:
                used['boundary'] = boundary
                a2['Jac_to_boundary'] = assemble._Jac_to_boundary_matrix(boundary, d)
            for nm in list(asmcls.inputs().keys()) + list(asmcls.parameters().keys()):
                used[nm] = a2[nm]
            asm = asmcls(kvs0, kvs1, **used)
    except Exception as e:
        res['status'] = 'InstantiateFail:' + errclass(e)
        res['msg'] = (str(e)[:300] + ' | ' + traceback.format_exc().strip().splitlines()[-3].strip())[:500]
        return res
    params = dict(params)
    if boundary is not None and any(p['name'] == 'Jac_to_boundary' for p in header['params']):
        params['Jac_to_boundary'] = own_jac_to_boundary(boundary, d)
    # ndofs per grid axis (boundary axis: 1)
    nd = {}
    for sp in (0, 1):
        nd[sp] = [1 if (boundary is not None and ax == boundary[0]) else kv.numdofs for ax, kv in enumerate(spaces[sp])]
    # ---- oracle data ----------------------------------------------------------------------------
    N = [len(x) for x in grid]
    gw = []
    for ax, kv in enumerate(kvs0):
        if boundary is not None and ax == boundary[0]:
            gw.append(np.ones(1))
        else:
            gw.append(gauss_nodes(kv.mesh, nqp)[1])
    tgrid = tuple(grid)
    nsym = d * (d + 1) // 2
    NT = tuple(len(x) for x in grid)
    # canonical shapes (C order), as the generated __init__ does with .reshape(N + (-1,)): some evaluators drop
    # axes of length 1 (e.g. grid_hessian of a 1-D map returns N + (1,))
    X = np.asarray(geo.grid_eval(tgrid)).reshape(NT + (g,))
    J = np.asarray(geo.grid_jacobian(tgrid)).reshape(NT + (g, d))
    try:
        HG = np.asarray(geo.grid_hessian(tgrid)).reshape(NT + (g, nsym))
    except Exception:
        HG = None
    fdat = {}
    for inp in header['inputs']:
        nm = inp['name']
        if nm == 'geo':
            continue
        shp = tuple(inp['shape'])
        f = args[nm]
        if inp['physical']:
            val = np.asarray(f(*[X[..., m] for m in range(g)])).reshape(NT + shp)
            fdat[nm] = {'physical': True, 'shape': shp, 'val': val}
        else:
            ent = {'physical': False, 'shape': shp, 'val': np.asarray(f.grid_eval(tgrid)).reshape(NT + shp)}
            try:
                ent['jac'] = np.asarray(f.grid_jacobian(tgrid)).reshape(NT + shp + (d,))
            except Exception:
                ent['jac'] = None
            try:
                ent['hess'] = np.asarray(f.grid_hessian(tgrid)).reshape(NT + shp + (nsym,)) if len(shp) <= 1 else None
            except Exception:
                ent['hess'] = None
            fdat[nm] = ent
    nderiv = 3
    B = {}
    for bf in bfs:
        tabs = []
        for ax, kv in enumerate(spaces[bf['space']]):
            cd = bspline.collocation_derivs(kv, grid[ax], derivs=min(nderiv, 8))
            T = np.stack([np.asarray(M.T.toarray()) for M in cd], axis=0)        # (nder+1, ndofs, nodes)
            if boundary is not None and ax == boundary[0]:
                T = T[:, 0:1, :] if boundary[1] == 0 else T[:, -1:, :]
            tabs.append(T)
        B[bf['name']] = tabs
    data = orc.Data(d=d, g=g, spacetime=header['spacetime'], boundary=boundary, N=N, gw=gw, B=B,
                    X=X, J=J, HG=HG, fields=fdat, params=params)
    # ---- pairs -------------------------------------------------------------------------------------
    tot = {sp: int(np.prod(nd[sp])) for sp in (0, 1)}
    if arity == 2:
        su, sv = bfs[0]['space'], bfs[1]['space']
        n_i, n_j = tot[sv], tot[su]          # entry(i, j): i test (v), j trial (u)
        allp = n_i * n_j
        if allp <= max_pairs:
            pi, pj = np.divmod(np.arange(allp), n_j)
        else:
            sel = np.array(sorted(rng.sample(range(allp), max_pairs)))
            pi, pj = np.divmod(sel, n_j)
        MI = {bfs[1]['name']: np.stack(np.unravel_index(pi, nd[sv]), axis=1),
              bfs[0]['name']: np.stack(np.unravel_index(pj, nd[su]), axis=1)}
    else:
        su = bfs[0]['space']
        n_i = tot[su]
        pi = np.arange(n_i)
        pj = None
        MI = {bfs[0]['name']: np.stack(np.unravel_index(pi, nd[su]), axis=1)}
    P = len(pi)
    # ---- implementation entries --------------------------------------------------------------------
    vec = header['vec']
    try:
        if arity == 2:
            idx = np.column_stack([pi, pj]).astype(np.uintp)
            if vec:
                impl = np.asarray(asm.multi_blocks(idx)).reshape(P, -1)
            else:
                impl = np.asarray(asm.multi_entries(idx)).reshape(P, 1)
                # the same through entry(i, j) for a few pairs, and through the assembled matrix
                for q in range(0, P, max(1, P // 7)):
                    e1 = asm.entry(int(pi[q]), int(pj[q]))
                    if e1 != impl[q, 0] and not (np.isnan(e1) and np.isnan(impl[q, 0])):
                        res.setdefault('inconsistent', []).append(['entry-vs-multi_entries', int(pi[q]), int(pj[q]), float(e1), float(impl[q, 0])])
                A = assemble.assemble_entries(asm, format='csr')
                Ad = np.asarray(A[pi, pj]).ravel()
                res['matrix_shape'] = list(A.shape)
                if A.shape != (n_i, n_j):
                    res.setdefault('inconsistent', []).append(['matrix-shape', list(A.shape), [n_i, n_j]])
                else:
                    bad = np.nonzero(~((Ad == impl[:, 0]) | (np.isnan(Ad) & np.isnan(impl[:, 0]))))[0]
                    for q in bad[:3]:
                        res.setdefault('inconsistent', []).append(['matrix-vs-multi_entries', int(pi[q]), int(pj[q]), float(Ad[q]), float(impl[q, 0])])
        else:
            v = np.asarray(asm.assemble_vector())
            exp_shape = tuple(nd[su]) + ((vec,) if vec else ())
            if v.shape != exp_shape:
                res.setdefault('inconsistent', []).append(['vector-shape', list(v.shape), list(exp_shape)])
            impl = v.reshape(P, -1)
            if not vec:
                e1 = np.asarray(asm.multi_entries(np.arange(P, dtype=np.uintp)))
                bad = np.nonzero(~((e1 == impl[:, 0]) | (np.isnan(e1) & np.isnan(impl[:, 0]))))[0]
                for q in bad[:3]:
                    res.setdefault('inconsistent', []).append(['assemble_vector-vs-entry1', int(q), float(impl[q, 0]), float(e1[q])])
    except Exception as e:
        res['status'] = 'AssembleFail:' + errclass(e)
        res['msg'] = (str(e)[:300] + ' | ' + traceback.format_exc().strip().splitlines()[-3].strip())[:500]
        return res
    # history: the assembler built from the shared (re-used) args dict must give what a fresh dict gives
    if hist is not None and not two:
        try:
            if arity == 2:
                fr = (np.asarray(asm_fresh.multi_blocks(idx)) if vec else np.asarray(asm_fresh.multi_entries(idx))).reshape(P, -1)
            else:
                fr = np.asarray(asm_fresh.assemble_vector()).reshape(P, -1)
            badq = np.nonzero(~((fr == impl) | (np.isnan(fr) & np.isnan(impl))).all(axis=1))[0]
            for q in badq[:2]:
                res.setdefault('inconsistent', []).append(['shared-args-dict-vs-fresh-dict', 'step %d, side %s' % (hist.get('step', 0), list(boundary) if boundary else None),
                                                           int(pi[q]), [float(x) for x in impl[q][:3]], [float(x) for x in fr[q][:3]]])
        except Exception as e:
            res.setdefault('inconsistent', []).append(['shared-args-dict-vs-fresh-dict', 'fresh assembly raised ' + errclass(e)])
    res['t_impl'] = round(time.time() - t0, 3)
    if selftest_scale:
        impl = impl * (1.0 + selftest_scale)        # harness self-test only: must be flagged below
    # ---- oracle ------------------------------------------------------------------------------------
    t0 = time.time()
    try:
        o = orc.Oracle(forest, header, data, MI)
        comps = o.integrand()
    except orc.Unsupported as e:
        res['status'] = 'OracleUnsupported'
        res['msg'] = str(e)[:200]
        return res
    masks = {}
    for bf in bfs:
        per_axis = []
        for ax, kv in enumerate(spaces[bf['space']]):
            I = MI[bf['name']][:, ax]
            if boundary is not None and ax == boundary[0]:
                per_axis.append(np.ones((P, 1), dtype=bool))
            else:
                per_axis.append(orc.support_mask(kv.kv, kv.p, I, grid[ax]))
        masks[bf['name']] = per_axis
    sums = orc.gauss_sums(comps, P, N, masks)
    # second oracle: the SOURCE semantics of the form's code by jet arithmetic (harness/props/c01_shadow.py)
    sh_sums = None
    try:
        from harness.props import c01_shadow as shadow
        hd = dict(header)
        shv = shadow.evaluate(spec['code'], hd, data, lambda n_, D_: np.asarray(o.bf_par(n_, tuple(D_)), dtype=np.float64))
        sh_sums = orc.gauss_sums([orc.VM(v) for v in shv], P, N, masks)
        if len(sh_sums) != len(sums):
            sh_sums = None
            res['shadow'] = 'component count differs'
        else:
            res['shadow'] = 'ok'
    except Exception as e:
        res['shadow'] = 'unsupported: %s: %s' % (type(e).__name__, str(e)[:120])
    res['t_oracle'] = round(time.time() - t0, 3)
    if len(sums) != impl.shape[1]:
        res['status'] = 'ComponentCount'
        res['msg'] = 'implementation returns %d components per entry, the form has %d' % (impl.shape[1], len(sums))
        return res
    # ---- comparison --------------------------------------------------------------------------------
    st = {'entries': 0, 'compared_full': 0, 'compared_local': 0, 'undefined': 0, 'zero_support': 0,
          'nonlinear': 0, 'maxratio': 0.0, 'fails': []}
    for c, (full, local, mag, magfull, anyjoint) in enumerate(sums):
        iv = impl[:, c]
        for q in range(P):
            st['entries'] += 1
            who = [int(pi[q])] + ([int(pj[q])] if pj is not None else [])
            if not anyjoint[q]:
                st['zero_support'] += 1
                if iv[q] != 0.0:
                    st['fails'].append({'kind': 'nonzero-without-common-support', 'index': who, 'comp': c, 'impl': float(iv[q])})
                # for a (bi)linear form the full Gauss sum vanishes too
                if np.isfinite(full[q]) and abs(full[q]) > orc.REL * magfull[q] + 1e-300:
                    st['nonlinear'] += 1
                continue
            if not (np.isfinite(local[q]) and np.isfinite(mag[q])):
                st['undefined'] += 1
                continue
            tol = orc.REL * mag[q] + 1e-300
            # The generated entry_impl sums over the joint support (coq/C01: entry_impl_as_sum); that sum is the
            # reference.  It equals the sum over ALL Gauss nodes iff the terms outside the joint support vanish
            # (entry_is_full_gauss_sum): checked here numerically and only counted -- a form for which they do not
            # vanish is not (bi)linear in the basis functions, and the property does not speak about it.
            linear = np.isfinite(full[q]) and np.isfinite(magfull[q]) and abs(full[q] - local[q]) <= orc.REL * mag[q] + 1e-300
            ref = local[q]
            if linear:
                st['compared_full'] += 1
            else:
                st['nonlinear'] += 1
                st['compared_local'] += 1
            if sh_sums is not None:
                sl, sm = sh_sums[c][1][q], sh_sums[c][2][q]
                if np.isfinite(sl) and np.isfinite(sm):
                    st['compared_source'] = st.get('compared_source', 0) + 1
                    tol2 = orc.REL * (mag[q] + sm) + 1e-300
                    if abs(sl - ref) > tol2:
                        st['nfails_source'] = st.get('nfails_source', 0) + 1
                        if len(st['fails']) < 5:
                            st['fails'].append({'kind': 'source-semantics', 'index': who, 'comp': c, 'impl': float(iv[q]), 'oracle': float(sl),
                                                'tree_oracle': float(ref), 'sum_abs_terms': float(mag[q]), 'bound': float(tol2), 'linear': bool(linear)})
                        else:
                            st['fails'].append(None)
            err = abs(iv[q] - ref)
            ratio = float(err / tol) if np.isfinite(err) else float('inf')
            if not np.isfinite(iv[q]):
                ratio = float('inf')
            st['maxratio'] = max(st['maxratio'], ratio)
            if ratio > 1.0:
                if len(st['fails']) < 5:
                    st['fails'].append({'kind': 'value', 'index': who, 'comp': c, 'impl': float(iv[q]), 'oracle': float(ref),
                                        'sum_abs_terms': float(mag[q]), 'bound': float(tol), 'linear': bool(linear)})
                else:
                    st['fails'].append(None)
    st['nfails'] = len(st['fails'])
    st['fails'] = [f for f in st['fails'] if f][:5]
    res['cmp'] = st
    res['status'] = 'Ok'
    return res


def run_forms(payload):
    import pyiga
    assert os.path.realpath(pyiga.__file__).startswith(os.path.realpath(os.environ['VERIF_IMPL_DIR'])), pyiga.__file__
    from pyiga import bspline, geometry, assemble, vform, compile
    from harness import vform_dump as vd
    from harness.props import c01_oracle as orc
    pyiga.set_max_threads(1)
    mods = (pyiga, bspline, geometry, assemble, vform, orc)
    base_ns = {k: getattr(vform, k) for k in dir(vform) if not k.startswith('_')}
    sys.setrecursionlimit(20000)
    out = []
    # phase A: construct, dump and generate ALL forms first.  compile.generate() is a function of the
    # form only up to the iteration order of sets of objects hashed by address; doing this before any
    # instance is run (and with ASLR switched off by the caller) makes the text -- and with it the
    # on-disk module cache key -- reproducible for a fixed list of forms.
    prepared = []
    for spec in payload['forms']:
        res = {'id': spec.get('id'), 'status': 'Ok'}
        t0 = time.time()
        prep = None
        try:
            ns = dict(base_ns)
            exec(spec['code'], ns)
            V1 = ns['V']
            header = vd.form_header(V1)
            forest = vd.dump_forest(vform, V1, max_nodes=payload.get('max_nodes', 40000))
            ns2 = dict(base_ns)
            exec(spec['code'], ns2)
            V2 = ns2['V']
            res['header'] = {k: header[k] for k in ('dim', 'geo_dim', 'arity', 'boundary', 'spacetime', 'vec')}
            res['funcs'] = sorted(set(re.findall(r'\b(sin|cos|exp|log|tan|sqrt|abs)\(', spec['code'])))
            try:
                src = compile.generate(V2)
                res['src_lines'] = src.count('\n')
                res['t_generate'] = round(time.time() - t0, 2)
                prep = (header, forest, V2, src)
            except Exception as e:
                res['status'] = 'Reject:' + errclass(e)
                res['phase'] = 'generate'
                res['msg'] = (str(e)[:200] + ' | ' + traceback.format_exc().strip().splitlines()[-3].strip())[:400]
        except vd.TooBig:
            res['status'] = 'TooBig'
        except Exception as e:
            res['status'] = 'Reject:' + errclass(e)
            res['phase'] = 'construct'
            res['msg'] = str(e)[:200]
        prepared.append((spec, res, prep))
    # phase B: build, import, instantiate, assemble, compare
    for spec, res, prep in prepared:
        if prep is None:
            out.append(res)
            continue
        header, forest, V2, src = prep
        t0 = time.time()
        try:
            if payload.get('no_build'):
                res['status'] = 'Generated'
                out.append(res)
                continue
            try:
                with stdout_to_stderr():
                    # the shipped assemblers of pyiga.assemblers are looked up exactly as compile_vform does
                    cache = compile.__dict__.get('__vform_asm_cache', {})
                    pre = cache.get((V2.hash(), (False,)))
                    if pre is not None:
                        asmcls = pre
                        res['shipped'] = asmcls.__module__ + '.' + asmcls.__name__
                    else:
                        mod = compile.compile_cython_module(src)
                        asmcls = mod.CustomAssembler
            except BaseException as e:
                if isinstance(e, KeyboardInterrupt):
                    raise
                res['status'] = ('ImportFail:' if isinstance(e, ImportError) else 'BuildFail:') + errclass(e)
                res['msg'] = str(e)[:400]
                res['src_tail'] = src[-1500:]
                out.append(res)
                continue
            res['t_build'] = round(time.time() - t0, 2)
            inst = []
            todo_inst = [(seed, None) for seed in spec.get('seeds', [])] + [(c['seed'], c) for c in spec.get('configs', [])]
            if header['boundary']:
                # a HISTORY per instance: one assembly per side (random order), all through one args dict
                exp_inst = []
                for seed, cfg in todo_inst:
                    hr = random.Random(seed + 17)
                    sides = [(ax, sd) for ax in range(header['dim']) for sd in (0, 1)]
                    hr.shuffle(sides)
                    h = {}
                    for side in sides[:payload.get('history_len', 4)]:
                        exp_inst.append((seed, dict(cfg or {}, side=list(side)), h))
                todo_inst3 = exp_inst
            else:
                todo_inst3 = [(seed, cfg, None) for seed, cfg in todo_inst]
            for seed, cfg, hist in todo_inst3:
                try:
                    r = run_instance(mods, spec, header, forest, asmcls, seed, payload.get('max_pairs', 400), payload.get('selftest_scale'), cfg, hist)
                    if cfg:
                        r['cfg'] = cfg
                except Exception as e:
                    r = {'seed': seed, 'status': 'DriverError:' + errclass(e), 'msg': traceback.format_exc()[-1200:]}
                inst.append(r)
            res['instances'] = inst
        except Exception as e:
            res['status'] = 'DriverError:' + errclass(e)
            res['msg'] = traceback.format_exc()[-1200:]
        res['t_total'] = round(time.time() - t0, 2)
        out.append(res)
    return {'results': out}


# ---------------------------------------------------------------------------------------------
# layout mode
# ---------------------------------------------------------------------------------------------

PD_RE = re.compile(r'VD(\w+?)(\d+)\[(\d+)\*i(\d+)\+(\d+)\]')


def run_layout(payload):
    import pyiga
    assert os.path.realpath(pyiga.__file__).startswith(os.path.realpath(os.environ['VERIF_IMPL_DIR'])), pyiga.__file__
    from pyiga import bspline, vform, compile, quadrature
    from pyiga.codegen import cython as cg
    out = {}
    # sym_index_to_seq tables
    out['sym'] = [[n, [[vform.sym_index_to_seq(n, i, j) for j in range(n)] for i in range(n)]] for n in payload['sym_ns']]

    class FV:
        def __init__(self, name, shape, symmetric):
            self.name, self.shape, self.symmetric = name, tuple(shape), symmetric
    # storage_size / storage_index / allocate_array on synthetic variable lists
    alloc = []
    for vl in payload['varlists']:
        vars_ = [FV('v%d' % k, shp, sym) for k, (shp, sym) in enumerate(vl)]
        info, tot = cg.allocate_array(vars_)
        ent = []
        for v in vars_:
            _, sz, ofs = info[v.name]
            idxs = []
            for I in np.ndindex(*v.shape):
                idxs.append([list(int(i) for i in I), int(cg.storage_index(v, tuple(I)))])
            ent.append({'sz': int(sz), 'ofs': int(ofs), 'size_fn': int(cg.storage_size(v)), 'idx': idxs})
        alloc.append({'total': int(tot), 'vars': ent})
    out['alloc'] = alloc
    # gen_pderiv strings
    pd = []
    for (dim, nd, D) in payload['pderivs']:
        class G(cg.AsmGenerator):
            def __init__(self):
                self.dim = dim
                self.numderiv = nd

        class BF:
            name = 'u'
        try:
            s = G().gen_pderiv(BF(), tuple(D))
            facs = [[int(m.group(2)), int(m.group(3)), int(m.group(5)), int(m.group(4))] for m in PD_RE.finditer(s)]
            pd.append({'ok': True, 'text': s, 'factors': facs})
        except AssertionError:
            pd.append({'ok': False})
    out['pderiv'] = pd
    # mesh supports and quadrature sizes
    ms = []
    for (p, knots, q) in payload['kvs']:
        kv = bspline.KnotVector(np.array(knots, dtype=float), p)
        supp = (q * kv.mesh_support_idx_all()).tolist()
        nodes, weights = quadrature.make_iterated_quadrature(kv.mesh, q)
        spans = np.searchsorted(kv.mesh, nodes, side='right') - 1
        ms.append({'supp': supp, 'nnodes': int(len(nodes)), 'nspans': int(len(kv.mesh) - 1), 'node_span': [int(s) for s in spans],
                   'wsum': float(np.sum(weights)), 'len': float(kv.mesh[-1] - kv.mesh[0]), 'numdofs': int(kv.numdofs)})
    out['kvs'] = ms
    # generated forms: the layout the generator actually used, and every reference in the text
    base_ns = {k: getattr(vform, k) for k in dir(vform) if not k.startswith('_')}
    forms = []
    for spec in payload['forms']:
        r = {'id': spec.get('id')}
        try:
            ns = dict(base_ns)
            exec(spec['code'], ns)
            V = ns['V']
            code = cg.CodeGen()
            gen = cg.AsmGenerator(V, 'CustomAssembler', code)
            gen.generate()
            text = code.result()
        except Exception as e:
            r['status'] = 'Reject:' + errclass(e)
            forms.append(r)
            continue
        r['status'] = 'Ok'
        arrays = {}
        for nm, info, tot in (('fields', gen.global_info, gen.num_globals), ('constants', gen.constant_info, gen.num_constants),
                              ('temp_fields', gen.temp_info, gen.num_temp)):
            ent = []
            for name, (var, sz, ofs) in info.items():
                refs = []
                for I in np.ndindex(*tuple(var.shape)):
                    refs.append([list(int(i) for i in I), gen.var_ref(var, tuple(I))])
                ent.append({'name': name, 'shape': [int(x) for x in var.shape], 'symmetric': bool(var.symmetric),
                            'sz': int(sz), 'ofs': int(ofs), 'refs': refs})
            arrays[nm] = {'total': int(tot), 'vars': ent}
        r['arrays'] = arrays
        r['numderiv'] = int(gen.numderiv)
        r['dim'] = int(V.dim)
        pds = []
        for e in V.all_exprs(type=vform.PartialDerivExpr):
            s = gen.gencode(e)
            pds.append({'D': [int(x) for x in e.D], 'factors': [[int(m.group(2)), int(m.group(3)), int(m.group(5)), int(m.group(4))]
                                                                 for m in PD_RE.finditer(s)]})
        r['pderivs'] = pds
        # slots read in the kernel / written in precompute + init
        def section(start, end):
            i = text.find(start)
            j = text.find(end, i + 1) if end else len(text)
            return text[i:j] if i >= 0 else ''
        kern = section('cdef void combine(', 'cdef void entry_impl(')
        pre = section('cdef void precompute_fields(', 'cdef void combine(')
        init = section('def __init__(', 'cdef void precompute_fields(' if 'cdef void precompute_fields(' in text else 'cdef void combine(')
        rd = lambda s, arr: sorted(set(int(x) for x in re.findall(r'(?<![\w\.])%s\[(\d+)\]' % arr, s)))
        wr = lambda s, arr: sorted(set(int(x) for x in re.findall(r'(?m)^\s*%s\[(\d+)\] = ' % arr, s)))
        loads = [[m.group(1), int(m.group(2)), int(m.group(3))] for m in
                 re.finditer(r'(self\.fields|temp_fields)\.base\[[^\]]*?, (\d+):(\d+)\] = ', init)]
        r['kernel_reads'] = {'fields': rd(kern, 'fields'), 'constants': rd(kern, 'constants')}
        r['pre_writes'] = {'fields': wr(pre, 'fields'), 'constants': wr(pre + kern, 'constants')}
        r['pre_reads'] = {'temp_fields': rd(pre, 'temp_fields')}
        r['loads'] = loads
        r['nparams_slots'] = sum(int(np.prod(p.shape or (1,))) for p in V.params)

        # the emitted statements in order (tie of coq/C01/Kernel.v's program model to the text): (lhs, op, reads)
        def stmts(sec):
            res = []
            for line in sec.split('\n'):
                stl = line.strip()
                if not stl or stl.startswith(('cdef ', 'for ', '#', '@', 'fields = ', 'temp_fields = ', 'double', 'size_t', ')')):
                    continue
                mm = re.match(r'^([A-Za-z_]\w*(?:\[\d+\])?)\s*(\+=|=)\s*(.+)$', stl)
                if not mm:
                    continue
                lhs, op, rhs = mm.groups()
                res.append([lhs, op, re.findall(r'(?<![\w\.])([A-Za-z_]\w*(?:\[\d+\])?)', rhs)])
            return res
        # the printed code of every emitted scalar expression together with its expression tree (operators,
        # negations, function calls; leaves as printed): the harness parses the text with C precedence and
        # compares the trees exactly
        def skel(e):
            if isinstance(e, vform.ScalarOperExpr):
                return ['O', e.oper] + [skel(c) for c in e.children]
            if isinstance(e, vform.NegExpr):
                return ['N', skel(e.x)]
            if isinstance(e, vform.BuiltinFuncExpr):
                return ['F', gen.func_to_code.get(e.funcname, e.funcname), skel(e.x)]
            return ['L', gen.gencode(e)]
        roots = []
        for e in V.exprs:
            roots += list(e) if not e.is_scalar() else [e]
        for var in list(V.kernel_deps) + list(V.precomp):
            if getattr(var, 'expr', None) is not None:
                ex = var.expr
                if ex.is_scalar():
                    roots.append(ex)
                elif ex.is_vector():
                    roots += [ex[k] for k in range(ex.shape[0])]
                else:
                    roots += [ex[i, j] for i in range(ex.shape[0]) for j in range(ex.shape[1])]
        printed = []
        budget = 60000
        for e in roots[:80]:
            try:
                txt = gen.gencode(e)
            except Exception:
                continue
            budget -= len(txt)
            if budget < 0:
                break
            printed.append([txt, skel(e)])
        r['printed'] = printed
        r['kernel_stmts'] = stmts(kern)
        r['pre_stmts'] = stmts(pre)
        # the number of Gauss nodes per span the generated __init__ computes, evaluated on degree lists
        m = re.search(r'(?m)^\s*self\.nqp = (.*)$', init)
        one_space = bool(re.search(r'(?m)^\s*kvs1 = kvs0\s*$', init))
        r['nqp_expr'] = m.group(1) if m else None
        r['one_space'] = one_space
        nq = []
        if m:
            class KV:
                def __init__(self, p):
                    self.p = p
            for (ps0, ps1) in payload.get('nqp_configs', []):
                if len(ps0) != V.dim:
                    continue
                env = {'kvs0': tuple(KV(p) for p in ps0), 'max': max}
                env['kvs1'] = env['kvs0'] if one_space else tuple(KV(p) for p in ps1)
                try:
                    val = int(eval(m.group(1), {'__builtins__': {}}, env))
                except Exception as e:
                    val = -1
                nq.append([list(ps0), list(ps0) if one_space else list(ps1), val])
        r['nqp_values'] = nq
        forms.append(r)
    out['forms'] = forms
    return out


def main():
    payload = json.load(sys.stdin)
    if payload['mode'] == 'layout':
        out = run_layout(payload)
    else:
        out = run_forms(payload)
    print(json.dumps(out))


if __name__ == '__main__':
    main()
