(* C18 -- non-vacuity. *)
From Coq Require Import List Arith ZArith.
From Verif.C18 Require Import Model Proofs.
Import ListNotations.

Example ex_wrap : wrap 5 (-2)%Z = Some 3.
Proof. vm_compute. reflexivity. Qed.
