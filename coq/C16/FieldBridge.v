(* C16 -- bridge to mathcomp (ssreflect style, kept separate from the stdlib-style files):
   over any commutative ring in mathcomp's hierarchy (comRingType: every field, Z, Q, ...)
   a left inverse of a square matrix is a right inverse (matrix.mulmx1C, via the adjugate), hence
   eigh's contract  U^T M U = I  gives the form  (M U) U^T = I  used by fastdiag_inverts. *)
From mathcomp Require Import all_ssreflect all_algebra.
From Verif.C16 Require Import Model Model2 Proofs Proofs2 Proofs3.
Set Implicit Arguments.
Unset Strict Implicit.
Unset Printing Implicit Defensive.
Import GRing.Theory.
Local Open Scope ring_scope.

Section Bridge.
Variable F : comRingType.

Notation fadd := (@GRing.add F).
Notation fmul := (@GRing.mul F).
Notation fopp := (@GRing.opp F).
Notation fsub := (fun x y : F => x - y).
Notation fsumn := (Model.sumn F (0 : F) fadd).

Lemma Fth : ring_theory (0 : F) 1 fadd fmul fsub fopp eq.
Proof.
split.
- exact: add0r.
- exact: addrC.
- exact: addrA.
- exact: mul1r.
- exact: mulrC.
- exact: mulrA.
- exact: mulrDl.
- by [].
- exact: subrr.
Qed.

Lemma sumnE n (f : nat -> F) : fsumn n f = \sum_(i < n) f i.
Proof.
rewrite -(big_mkord xpredT f).
elim: n => [|n IH] /=; first by rewrite big_geq.
by rewrite IH big_nat_recr.
Qed.

Lemma eqbE (a b : nat) : Nat.eqb a b = (a == b).
Proof. by apply/idP/eqP => /PeanoNat.Nat.eqb_eq. Qed.

Lemma natrb (b : bool) : (b%:R : F) = if b then 1 else 0.
Proof. by case: b. Qed.

Definition mx n (A : mat F) : 'M[F]_n := \matrix_(i, j) ment F A i j.

(* U^T (M U) = I  ==>  (M U) U^T = I, entrywise in the sumn form of Proofs2.eig_ok *)
Lemma left_inverse_is_right n (U M : mat F) :
  (forall a b, (a < n)%coq_nat -> (b < n)%coq_nat ->
     fsumn n (fun i => ment F U i a * fsumn n (fun j => ment F M i j * ment F U j b)) =
     if Nat.eqb a b then 1 else 0) ->
  forall i l, (i < n)%coq_nat -> (l < n)%coq_nat ->
     fsumn n (fun c => fsumn n (fun j => ment F M i j * ment F U j c) * ment F U l c) =
     if Nat.eqb i l then 1 else 0.
Proof.
move=> H i l /ltP Hi /ltP Hl.
pose A : 'M[F]_n := (mx n U)^T.
pose B : 'M[F]_n := mx n M *m mx n U.
have AB : A *m B = 1%:M.
  apply/matrixP => a b; rewrite !mxE.
  have := H a b (ltP (ltn_ord a)) (ltP (ltn_ord b)).
  rewrite natrb -val_eqE /= sumnE eqbE => <-.
  apply: eq_bigr => k _; rewrite !mxE sumnE; congr (_ * _).
  by apply: eq_bigr => j _; rewrite !mxE.
have /matrixP/(_ (Ordinal Hi) (Ordinal Hl)) := mulmx1C AB.
rewrite !mxE natrb -val_eqE /= eqbE => <-.
rewrite sumnE; apply: eq_bigr => c _; rewrite !mxE sumnE; congr (_ * _).
by apply: eq_bigr => j _; rewrite !mxE.
Qed.

(* the contract scipy.linalg.eigh(K, M) actually provides *)
Definition eigh_ok (f : eigfac F) : Prop :=
  mrows F (fK F f) = fn F f /\ mcols F (fK F f) = fn F f /\ mrows F (fM F f) = fn F f /\ mcols F (fM F f) = fn F f /\
  mrows F (fU F f) = fn F f /\ mcols F (fU F f) = fn F f /\
  (forall i c, (i < fn F f)%coq_nat -> (c < fn F f)%coq_nat ->
     fsumn (fn F f) (fun j => ment F (fK F f) i j * ment F (fU F f) j c) =
     fsumn (fn F f) (fun j => ment F (fM F f) i j * ment F (fU F f) j c) * flam F f c) /\
  (forall a b, (a < fn F f)%coq_nat -> (b < fn F f)%coq_nat ->
     fsumn (fn F f) (fun i => ment F (fU F f) i a * fsumn (fn F f) (fun j => ment F (fM F f) i j * ment F (fU F f) j b)) =
     if Nat.eqb a b then 1 else 0).

Lemma eig_ok_of_eigh (f : eigfac F) : eigh_ok f -> eig_ok F 0 1 fadd fmul f.
Proof.
case=> K1 [K2 [M1 [M2 [U1 [U2 [HK HI]]]]]].
do 6![split=> //]; split=> //.
exact: left_inverse_is_right.
Qed.

Lemma Forall_eig_ok (fs : list (eigfac F)) : List.Forall eigh_ok fs -> List.Forall (eig_ok F 0 1 fadd fmul) fs.
Proof. by elim=> [|f fs' Hf _ IH]; constructor=> //; exact: eig_ok_of_eigh. Qed.

(* fastdiag_solver inverts the Kronecker-sum matrix, from eigh's own contract *)
Lemma fastdiag_inverts_eigh_l (fs : list (eigfac F)) (Us : list (operand F)) (dinv : nat -> F) (x : arr F) :
  List.Forall eigh_ok fs -> List.map (omat F) Us = List.map (fU F) fs ->
  (forall c, (c < prodl (sizes F fs))%coq_nat ->
     fastdiag_diag_code F 0 1 fadd fmul (sizes F fs) (List.map (flam F) fs) c * dinv c = 1) ->
  ashape F x = [:: prodl (sizes F fs)] ->
  forall i, (i < prodl (sizes F fs))%coq_nat ->
  fsumn (prodl (sizes F fs))
    (fun j => fastdiag_lap_code F 0 1 fadd fmul (List.map (fK F) fs) (List.map (fM F) fs) i j *
              aat F (fastdiag_apply F 0 fadd fmul Us dinv x) [:: j]) = aat F x [:: i].
Proof.
move=> H HU Hd Hx i Hi.
exact: (@fastdiag_inverts_code_l F 0 1 fadd fmul fsub fopp Fth fs Us dinv x (Forall_eig_ok H) HU Hd Hx i Hi).
Qed.

Lemma fastdiag_inverts_eigh_mat_l (fs : list (eigfac F)) (Us : list (operand F)) (dinv : nat -> F) (x : arr F) m :
  List.Forall eigh_ok fs -> List.map (omat F) Us = List.map (fU F) fs ->
  (forall c, (c < prodl (sizes F fs))%coq_nat ->
     fastdiag_diag_code F 0 1 fadd fmul (sizes F fs) (List.map (flam F) fs) c * dinv c = 1) ->
  ashape F x = [:: prodl (sizes F fs); m] ->
  forall i k, (i < prodl (sizes F fs))%coq_nat -> (k < m)%coq_nat ->
  fsumn (prodl (sizes F fs))
    (fun j => fastdiag_lap_code F 0 1 fadd fmul (List.map (fK F) fs) (List.map (fM F) fs) i j *
              aat F (fastdiag_apply_mat F 0 fadd fmul Us dinv x) [:: j; k]) = aat F x [:: i; k].
Proof.
move=> H HU Hd Hx i k Hi Hk.
exact: (@fastdiag_inverts_code_mat_l F 0 1 fadd fmul fsub fopp Fth fs Us dinv x m (Forall_eig_ok H) HU Hd Hx i k Hi Hk).
Qed.

End Bridge.
