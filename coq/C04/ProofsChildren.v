(* C04 -- theorems about the function children of the integer model (Children.v): every child is a
   function of the refined mesh whose support lies inside the parent's support, and on reachable
   states the children of a deactivated function are active or deactivated functions of the next level. *)
From Coq Require Import List Arith Bool Lia.
From Verif.lib Require Import FinSet.
From Verif.C04 Require Import Model Proofs ProofsFun ProofsMesh ProofsQuery Children.
Import ListNotations.

(* the a-th knot of a knot vector sits at position a + (its mesh index) of the refined knot vector,
   and its mesh index doubles *)
Lemma k2m_refine_nth : forall mults i0 a, a < length (k2m_aux i0 mults) ->
  a + (nth a (k2m_aux i0 mults) 0 - i0) < length (k2m_aux (2 * i0) (refine_mults mults)) /\
  nth (a + (nth a (k2m_aux i0 mults) 0 - i0)) (k2m_aux (2 * i0) (refine_mults mults)) 0
    = 2 * nth a (k2m_aux i0 mults) 0.
Proof.
  induction mults as [|x r IH]; intros i0 a Ha; [simpl in Ha; lia|].
  destruct r as [|y r'].
  - change (k2m_aux i0 [x]) with (repeat i0 x ++ []) in *.
    change (refine_mults [x]) with [x].
    change (k2m_aux (2 * i0) [x]) with (repeat (2 * i0) x ++ []).
    rewrite !app_nil_r in *. rewrite repeat_length in Ha.
    rewrite (nth_repeat_lt i0 x a 0 Ha). rewrite Nat.sub_diag, Nat.add_0_r.
    rewrite repeat_length. split; [exact Ha|]. rewrite (nth_repeat_lt (2 * i0) x a 0 Ha). reflexivity.
  - change (k2m_aux i0 (x :: y :: r')) with (repeat i0 x ++ k2m_aux (S i0) (y :: r')) in *.
    change (refine_mults (x :: y :: r')) with (x :: 1 :: refine_mults (y :: r')).
    change (k2m_aux (2 * i0) (x :: 1 :: refine_mults (y :: r')))
      with (repeat (2 * i0) x ++ (repeat (S (2 * i0)) 1 ++ k2m_aux (S (S (2 * i0))) (refine_mults (y :: r')))).
    replace (S (S (2 * i0))) with (2 * S i0) by lia.
    rewrite app_length, repeat_length in Ha.
    destruct (Nat.lt_ge_cases a x) as [Hax|Hax].
    + rewrite (nth_rep_app_lt i0 x _ a Hax). rewrite Nat.sub_diag, Nat.add_0_r.
      rewrite app_length, repeat_length. split; [lia|]. apply nth_rep_app_lt. exact Hax.
    + rewrite (nth_rep_app_ge i0 x _ a Hax).
      set (R := k2m_aux (S i0) (y :: r')) in *.
      set (R' := k2m_aux (2 * S i0) (refine_mults (y :: r'))).
      assert (HaR : a - x < length R) by lia.
      destruct (IH (S i0) (a - x) HaR) as [H1 H2]. fold R in H1, H2. fold R' in H1, H2.
      pose proof (k2m_lb (y :: r') (S i0) (a - x) HaR) as Hlb. fold R in Hlb.
      set (v := nth (a - x) R 0) in *.
      assert (Eidx : a + (v - i0) = x + (1 + ((a - x) + (v - S i0)))) by lia.
      rewrite Eidx. split.
      * rewrite app_length, repeat_length, app_length, repeat_length. lia.
      * rewrite nth_rep_app_ge by lia. replace (x + (1 + (a - x + (v - S i0))) - x) with (1 + (a - x + (v - S i0))) by lia.
        rewrite nth_rep_app_ge by lia. replace (1 + (a - x + (v - S i0)) - 1) with (a - x + (v - S i0)) by lia.
        exact H2.
Qed.

Section AxisChildren.
  Variable a : axis.
  Hypothesis OK : axis_ok a.
  Let a' := ax_refine a.
  Let OK' : axis_ok a' := axis_ok_refine a OK.
  Let p := ax_p a.

  Lemma phi_spec : forall x, x < length (k2m a) ->
    phi a x < length (k2m a') /\ nth (phi a x) (k2m a') 0 = 2 * nth x (k2m a) 0.
  Proof.
    intros x Hx. unfold phi, k2m, a', ax_refine in *. simpl.
    pose proof (k2m_refine_nth (ax_mults a) 0 x Hx) as H. rewrite Nat.sub_0_r in H. exact H.
  Qed.

  (* a child is a function of the refined axis whose support (in refined cells) lies inside the
     parent's support refined once *)
  Lemma child_1d_spec : forall j i, j < ax_numdofs a -> is_child_1d a j i = true ->
    i < ax_numdofs a' /\
    2 * fst (nth j (ax_meshsupp a) (0,0)) <= fst (nth i (ax_meshsupp a') (0,0)) /\
    snd (nth i (ax_meshsupp a') (0,0)) <= 2 * snd (nth j (ax_meshsupp a) (0,0)).
  Proof.
    intros j i Hj Hc. unfold is_child_1d, children_1d in Hc. simpl in Hc.
    apply andb_true_iff in Hc. destruct Hc as [H1 H2]. apply Nat.leb_le in H1. apply Nat.ltb_lt in H2.
    fold p in H2.
    pose proof (n_def a OK) as Hn. pose proof (n_def a' OK') as Hn'.
    assert (Ep : ax_p a' = p) by reflexivity. rewrite Ep in Hn'. fold p in Hn.
    destruct (phi_spec j ltac:(lia)) as [Hp1 Hp2].
    destruct (phi_spec (j + p + 1) ltac:(lia)) as [Hq1 Hq2].
    assert (Hi : i < ax_numdofs a') by lia.
    split; [exact Hi|].
    rewrite (ms_nth a j Hj). rewrite (ms_nth a' i Hi). cbn [fst snd]. change (ax_p a') with p. change (ax_p a) with p.
    split.
    - rewrite <- Hp2. apply (K_mono a'); lia.
    - rewrite <- Hq2. apply (K_mono a'); lia.
  Qed.
End AxisChildren.

(* ------------------------------------------------------------------------- *)
(* tensor products *)

Lemma In_children1 : forall axes f g,
  In g (children1 (tpmesh_of axes) f) <-> Forall2 inr (lookup_children axes f) g.
Proof. intros. unfold children1. simpl. rewrite of_list_In. apply In_prod_ranges. Qed.

Lemma tp_children : forall axes f g, Forall axis_ok axes ->
  Forall2 (fun n xi => xi < n) (map ax_numdofs axes) f ->
  Forall2 inr (lookup_children axes f) g ->
  Forall2 (fun n xi => xi < n) (map ax_numdofs (map ax_refine axes)) g /\
  forall c', Forall2 inr (lookup_ranges (map msA (map ax_refine axes)) g) c' ->
             Forall2 inr (lookup_ranges (map msA axes) f) (parent1 c').
Proof.
  induction axes as [|a axes IH]; intros f g HA HF HG.
  - inversion HF; subst. simpl in HG. inversion HG; subst. split; [constructor|].
    intros c' Hc'. simpl in Hc'. inversion Hc'; subst. constructor.
  - inversion HA as [|? ? Ha HA']; subst. simpl in HF. inversion HF as [|nn j ns' f' Hj Hrest]; subst.
    simpl in HG. inversion HG as [|r i rs g' Hr Hrest2]; subst.
    assert (Hc : is_child_1d a j i = true).
    { unfold is_child_1d. unfold inr in Hr. apply andb_true_iff. split; [apply Nat.leb_le | apply Nat.ltb_lt]; lia. }
    destruct (child_1d_spec a Ha j i Hj Hc) as [Hi [Hlo Hhi]].
    destruct (IH f' g' HA' Hrest Hrest2) as [IH1 IH2].
    split; [simpl; constructor; auto|].
    intros c' Hc'. simpl in Hc'. inversion Hc' as [|r' k rs' c'' Hk Hrest3]; subst.
    simpl. constructor; [|apply IH2; exact Hrest3].
    unfold inr, msA in *. pose proof (Nat.div2_odd k) as Hd. destruct (Nat.odd k); simpl in Hd; lia.
Qed.

(* children_inside_parent_support *)
Lemma children_inside_parent_support_l : forall axes f g, Forall axis_ok axes ->
  In f (tp_functions (tpmesh_of axes)) ->
  In g (children1 (tpmesh_of axes) f) ->
  In g (tp_functions (tp_refine (tpmesh_of axes))) /\
  forall c', In c' (support1 (tp_refine (tpmesh_of axes)) g) -> In (parent1 c') (support1 (tpmesh_of axes) f).
Proof.
  intros axes f g HA HF HG.
  unfold tp_functions in HF. simpl in HF. rewrite In_box in HF.
  apply In_children1 in HG.
  destruct (tp_children axes f g HA HF HG) as [H1 H2].
  split.
  - unfold tp_functions, tp_refine. simpl. rewrite In_box. exact H1.
  - intros c' Hc'. unfold support1, tp_refine in Hc'. simpl in Hc'. rewrite of_list_In, In_prod_ranges in Hc'.
    unfold support1. simpl. rewrite of_list_In, In_prod_ranges. apply H2. exact Hc'.
Qed.

(* every function has at least one child *)
Lemma In_function_children : forall st lv fs g,
  In g (function_children st lv fs) <-> exists f, In f fs /\ In g (children1 (msh st lv) f).
Proof.
  intros st lv fs g. unfold function_children.
  assert (G : forall acc, In g (fold_left (fun acc f => union acc (children1 (msh st lv) f)) fs acc) <->
                          In g acc \/ exists f, In f fs /\ In g (children1 (msh st lv) f)).
  { induction fs as [|f fs IH]; intros acc; simpl.
    - split; [auto | intros [H|[f [[] _]]]; auto].
    - rewrite IH, union_In. split.
      + intros [[H|H]|[f' [H1 H2]]]; auto.
        * right; exists f; auto.
        * right; exists f'; auto.
      + intros [H|[f' [[->|H1] H2]]]; auto. right; exists f'; auto. }
  rewrite G. simpl. split; [intros [[]|H]; auto | auto].
Qed.

(* ------------------------------------------------------------------------- *)
(* reachable states: the children of a deactivated function are active or deactivated on the next level *)

Section ReachableChildren.
  Variable axes : list axis.
  Variable disp : option nat.
  Variable ops : list op.
  Hypothesis HA : Forall axis_ok axes.
  Hypothesis Hd : forall d, disp = Some d -> 1 <= d.
  Hypothesis V : ops_valid (hs_init axes disp) ops.
  Let st := run (hs_init axes disp) ops.
  Let G : good2 (tpmesh_of axes) st := reachable_good2 axes disp ops HA Hd V.

  Lemma msh_level : forall k, k < numlevels st -> msh st k = tpmesh_of (Nat.iter k (map ax_refine) axes).
  Proof. intros k Hk. rewrite (g2_msh _ _ G k Hk). apply iter_refine_tpmesh_of. Qed.

  Lemma children_inside_reachable : forall k f g, S k < numlevels st ->
    In f (tp_functions (msh st k)) -> In g (function_children st k [f]) ->
    In g (tp_functions (msh st (S k))) /\
    forall c', In c' (support1 (msh st (S k)) g) -> In (parent1 c') (support1 (msh st k) f).
  Proof.
    intros k f g Hk HF HG. apply In_function_children in HG. destruct HG as [f0 [[<-|[]] HG]].
    rewrite (msh_level k) in * by lia. rewrite (msh_level (S k)) by lia.
    change (Nat.iter (S k) (map ax_refine) axes) with (map ax_refine (Nat.iter k (map ax_refine) axes)).
    apply (children_inside_parent_support_l (Nat.iter k (map ax_refine) axes) f g); auto.
    apply axes_ok_iter; auto.
  Qed.

  Lemma children_closed_l : forall k f g,
    In f (DF st k) -> In g (function_children st k [f]) ->
    In g (AF st (S k)) \/ In g (DF st (S k)).
  Proof.
    intros k f g Hf Hg.
    pose proof (g2_good _ _ G) as [I _ _].
    assert (Hk : k < numlevels st).
    { destruct (Nat.lt_ge_cases k (numlevels st)) as [H|H]; auto.
      unfold DF in Hf. rewrite lvl_overflow in Hf by auto. destruct Hf. }
    pose proof (fi_deact _ (g2_funcs _ _ G) k f Hk) as FD. apply FD in Hf. destruct Hf as [HF SD].
    pose proof (good2_meshes_fine _ _ (hier_ok_valid axes HA) G k Hk) as MO.
    destruct (mo_nonempty _ MO f HF) as [c0 Hc0].
    assert (Hk1 : S k < numlevels st).
    { destruct (Nat.lt_ge_cases (S k) (numlevels st)) as [H|H]; auto.
      exfalso. apply (ci_last _ I k c0); [lia | apply SD; exact Hc0]. }
    destruct (children_inside_reachable k f g Hk1 HF Hg) as [HG Hin].
    assert (SO : subO st (S k) g).
    { intros c' Hc'. apply (ci_nest _ I k c'). apply SD. apply Hin. exact Hc'. }
    destruct (subD_dec st (S k) g) as [SDg|[c1 [Hc1 Hn]]].
    - right. apply (fi_deact _ (g2_funcs _ _ G) (S k) g Hk1). split; auto.
    - left. apply (fi_act _ (g2_funcs _ _ G) (S k) g Hk1). split; [exact HG|]. split; [exact SO|].
      intros SDg. apply Hn. apply SDg. exact Hc1.
  Qed.
End ReachableChildren.
