(* Type-generic list combinators that model the shape-only part of the numpy
   vocabulary used by pyiga/bspline.py (np.repeat, np.concatenate, basic slices,
   the de-duplication step of np.unique on sorted input), shared by the exact
   (lib/NpQ.v) and the binary64 (lib/NpF.v) models, with their structural lemmas. *)
From Coq Require Import ZArith List Arith Bool Lia ZifyNat.
Import ListNotations.
Ltac Zify.zify_post_hook ::= Z.to_euclidean_division_equations.

Section Generic.
Context {A : Type}.

(* np.repeat(x, k) for a scalar x is List.repeat x k;
   np.repeat(arr, k) repeats every element k times *)
Definition np_repeat_each (l : list A) (k : nat) : list A := flat_map (fun x => repeat x k) l.

(* arr[1:] and arr[1:-1] *)
Definition sl_from1 (l : list A) : list A := tl l.
Definition sl_1_m1 (l : list A) : list A := removelast (tl l).
(* arr[:-1] *)
Definition sl_to_m1 (l : list A) : list A := removelast l.

(* np.concatenate((x, y, z)) *)
Definition np_concat3 (x y z : list A) : list A := x ++ y ++ z.

(* the de-duplication of np.unique: keep an element iff it differs from its predecessor *)
Fixpoint dedup_adj (eqb : A -> A -> bool) (l : list A) : list A :=
  match l with
  | [] => []
  | x :: t => match t with
              | [] => [x]
              | y :: _ => if eqb x y then dedup_adj eqb t else x :: dedup_adj eqb t
              end
  end.

(* first index of x in l (length l when absent) *)
Fixpoint index_of (eqb : A -> A -> bool) (x : A) (l : list A) : nat :=
  match l with
  | [] => 0
  | y :: t => if eqb x y then 0 else S (index_of eqb x t)
  end.

(* all adjacent pairs satisfy r *)
Fixpoint adjb (r : A -> A -> bool) (l : list A) : bool :=
  match l with
  | a :: ((b :: _) as t) => r a b && adjb r t
  | _ => true
  end.

(* ------------------------------------------------------------------ *)

Lemma repeat_each_length l k : length (np_repeat_each l k) = length l * k.
Proof.
  unfold np_repeat_each. induction l as [|x t IH]; cbn; [reflexivity|].
  rewrite app_length, repeat_length, IH. reflexivity.
Qed.

Lemma nth_repeat_lt (x d : A) k i : i < k -> nth i (repeat x k) d = x.
Proof.
  revert i. induction k as [|k IH]; intros i H; [lia|].
  destruct i; cbn; [reflexivity|]. apply IH. lia.
Qed.

Lemma nth_repeat_each l k i d : 0 < k -> i < length l * k ->
  nth i (np_repeat_each l k) d = nth (i / k) l d.
Proof.
  intros Hk. unfold np_repeat_each. revert i.
  induction l as [|x t IH]; intros i H; cbn in *; [lia|].
  destruct (Nat.lt_ge_cases i k) as [L|L].
  - rewrite app_nth1 by (rewrite repeat_length; exact L).
    rewrite Nat.div_small by exact L. apply nth_repeat_lt. exact L.
  - rewrite app_nth2 by (rewrite repeat_length; exact L).
    rewrite repeat_length.
    assert (E : i / k = S ((i - k) / k)).
    { replace i with ((i - k) + 1 * k) at 1 by lia. rewrite Nat.div_add by lia. lia. }
    rewrite E. cbn. apply IH. lia.
Qed.

Lemma nth_map_seq (f : nat -> A) s n i d : i < n -> nth i (map f (seq s n)) d = f (s + i).
Proof.
  revert s i. induction n as [|n IH]; intros s i H; [lia|].
  destruct i; cbn [seq map nth]; [f_equal; lia|].
  rewrite IH by lia. f_equal. lia.
Qed.

Lemma last_app_nonnil (l r : list A) d : r <> [] -> last (l ++ r) d = last r d.
Proof.
  induction l as [|x t IH]; intros Hr; [reflexivity|].
  specialize (IH Hr). cbn [app]. destruct (t ++ r) as [|y u] eqn:Et; [destruct t; cbn in Et; congruence|].
  change (last (x :: y :: u) d) with (last (y :: u) d). exact IH.
Qed.

Lemma last_repeat (x : A) k d : last (repeat x (S k)) d = x.
Proof.
  induction k as [|k IH]; [reflexivity|].
  change (repeat x (S (S k))) with (x :: repeat x (S k)).
  change (last (x :: repeat x (S k)) d) with (last (repeat x (S k)) d). exact IH.
Qed.

Lemma forallb_repeat (P : A -> bool) x k : P x = true -> forallb P (repeat x k) = true.
Proof. intros H. induction k; cbn; [reflexivity|]. rewrite H, IHk. reflexivity. Qed.

Lemma length_tl (l : list A) : length (tl l) = length l - 1.
Proof. destruct l; cbn; lia. Qed.

Lemma length_removelast (l : list A) : length (removelast l) = length l - 1.
Proof.
  induction l as [|x t IH]; [reflexivity|].
  destruct t as [|y t']; [reflexivity|].
  change (removelast (x :: y :: t')) with (x :: removelast (y :: t')).
  cbn [length] in *. lia.
Qed.

Lemma nth_tl (l : list A) i d : nth i (tl l) d = nth (S i) l d.
Proof. destruct l; [destruct i; reflexivity|reflexivity]. Qed.

Lemma nth_removelast (l : list A) i d : i < length l - 1 -> nth i (removelast l) d = nth i l d.
Proof.
  revert i. induction l as [|x t IH]; intros i H; [reflexivity|].
  destruct t as [|y t']; [cbn in H; lia|].
  change (removelast (x :: y :: t')) with (x :: removelast (y :: t')).
  destruct i; [reflexivity|]. cbn [nth]. apply IH. cbn [length] in *. lia.
Qed.

Lemma sl_1_m1_length l : length (sl_1_m1 l) = length l - 2.
Proof. unfold sl_1_m1. rewrite length_removelast, length_tl. lia. Qed.

Lemma nth_sl_1_m1 l i d : i + 2 < length l -> nth i (sl_1_m1 l) d = nth (S i) l d.
Proof.
  intros H. unfold sl_1_m1. rewrite nth_removelast by (rewrite length_tl; lia). apply nth_tl.
Qed.

Lemma ends_decompose (l : list A) d : 2 <= length l ->
  l = nth 0 l d :: sl_1_m1 l ++ [nth (length l - 1) l d].
Proof.
  destruct l as [|x t]; cbn [length]; [lia|]. intros H. cbn [nth]. f_equal.
  unfold sl_1_m1. cbn [tl]. replace (S (length t) - 1) with (length t) by lia.
  assert (Ht : t <> []) by (destruct t; cbn in H; [lia|discriminate]).
  rewrite (app_removelast_last d Ht) at 1. f_equal. f_equal.
  destruct (length t) eqn:E; [destruct t; [congruence|discriminate]|].
  cbn [nth]. rewrite (app_removelast_last d Ht) at 2.
  rewrite app_nth2; rewrite length_removelast, E; [|lia].
  replace (n - (S n - 1)) with 0 by lia. reflexivity.
Qed.

Lemma adjb_of_nth (r : A -> A -> bool) (l : list A) d :
  (forall i, S i < length l -> r (nth i l d) (nth (S i) l d) = true) -> adjb r l = true.
Proof.
  induction l as [|a t IH]; intros H; [reflexivity|].
  destruct t as [|b t']; [reflexivity|].
  change (adjb r (a :: b :: t')) with (r a b && adjb r (b :: t')).
  apply andb_true_iff. split.
  - apply (H 0). cbn. lia.
  - apply IH. intros i Hi. apply (H (S i)). cbn in *. lia.
Qed.

Lemma nth_of_adjb (r : A -> A -> bool) (l : list A) d :
  adjb r l = true -> forall i, S i < length l -> r (nth i l d) (nth (S i) l d) = true.
Proof.
  induction l as [|a t IH]; intros H i Hi; [cbn in Hi; lia|].
  destruct t as [|b t']; [cbn in Hi; lia|].
  change (adjb r (a :: b :: t')) with (r a b && adjb r (b :: t')) in H.
  apply andb_true_iff in H. destruct H as [H1 H2].
  destruct i; [exact H1|]. apply (IH H2 i). cbn in *. lia.
Qed.

(* ---- the open-knot-vector layout  [a]*(p+1) ++ each(interior, m) ++ [b]*(p+1) ---- *)

Definition layout (a b : A) (inner : list A) (q m : nat) : list A :=
  np_concat3 (repeat a q) (np_repeat_each inner m) (repeat b q).

Lemma layout_length a b inner q m : length (layout a b inner q m) = 2 * q + length inner * m.
Proof.
  unfold layout, np_concat3. rewrite !app_length, !repeat_length, repeat_each_length. lia.
Qed.

(* closed form of the i-th entry *)
Lemma nth_layout a b inner q m i d : 0 < m -> i < 2 * q + length inner * m ->
  nth i (layout a b inner q m) d =
    if i <? q then a
    else if i <? q + length inner * m then nth ((i - q) / m) inner d
    else b.
Proof.
  intros Hm Hi. unfold layout, np_concat3.
  destruct (Nat.ltb_spec i q) as [L|L].
  - rewrite app_nth1 by (rewrite repeat_length; exact L). apply nth_repeat_lt. exact L.
  - rewrite app_nth2 by (rewrite repeat_length; exact L). rewrite repeat_length.
    destruct (Nat.ltb_spec i (q + length inner * m)) as [L2|L2].
    + rewrite app_nth1 by (rewrite repeat_each_length; lia).
      apply nth_repeat_each; [exact Hm|lia].
    + rewrite app_nth2 by (rewrite repeat_each_length; lia). rewrite repeat_each_length.
      apply nth_repeat_lt. lia.
Qed.

(* ---- de-duplication of a layout gives back the breakpoints ---- *)
Section Dedup.
Variable eqb : A -> A -> bool.

Lemma dedup_repeat_app x k l : 0 < k -> eqb x x = true ->
  dedup_adj eqb (repeat x k ++ l) = dedup_adj eqb (x :: l).
Proof.
  intros Hk Hx. induction k as [|k IH]; [lia|].
  destruct k as [|k]; [reflexivity|].
  change (repeat x (S (S k)) ++ l) with (x :: (x :: repeat x k ++ l)).
  cbn [dedup_adj]. rewrite Hx. apply IH. lia.
Qed.

Lemma dedup_cons_neq x y t : eqb x y = false ->
  dedup_adj eqb (x :: y :: t) = x :: dedup_adj eqb (y :: t).
Proof. intros H. cbn [dedup_adj]. rewrite H. reflexivity. Qed.

Lemma dedup_cons_eq x y t : eqb x y = true ->
  dedup_adj eqb (x :: y :: t) = dedup_adj eqb (y :: t).
Proof. intros H. cbn [dedup_adj]. rewrite H. reflexivity. Qed.

(* a run-length description (x_i, k_i) expanded to x_i repeated k_i times *)
Definition expand (l : list (A * nat)) : list A := flat_map (fun xk => repeat (fst xk) (snd xk)) l.

(* adjacent values different, every value equal to itself (no NaN), every count
   positive: de-duplicating the expansion gives the values back *)
Lemma dedup_expand l :
  forallb (fun xk => eqb (fst xk) (fst xk) && (0 <? snd xk)) l = true ->
  adjb (fun x y => negb (eqb x y)) (map fst l) = true ->
  dedup_adj eqb (expand l) = map fst l.
Proof.
  induction l as [|[x k] t IH]; intros Hr Ha; [reflexivity|].
  cbn [forallb fst snd] in Hr. apply andb_true_iff in Hr. destruct Hr as [Hx Hr].
  apply andb_true_iff in Hx. destruct Hx as [Hx Hk]. apply Nat.ltb_lt in Hk.
  unfold expand. cbn [flat_map fst snd]. fold (expand t).
  rewrite dedup_repeat_app by assumption.
  destruct t as [|[y j] t']; [reflexivity|].
  cbn [map fst adjb] in Ha. apply andb_true_iff in Ha. destruct Ha as [Hxy Ha].
  apply negb_true_iff in Hxy.
  specialize (IH Hr Ha).
  assert (Hj : 0 < j).
  { cbn [forallb fst snd] in Hr. apply andb_true_iff in Hr. destruct Hr as [Hy _].
    apply andb_true_iff in Hy. destruct Hy as [_ Hj]. apply Nat.ltb_lt in Hj. exact Hj. }
  assert (Hd : exists r, expand ((y, j) :: t') = y :: r).
  { unfold expand. cbn [flat_map fst snd]. destruct j as [|j']; [lia|]. cbn. eauto. }
  destruct Hd as [r Hr'].
  rewrite Hr'. rewrite dedup_cons_neq by exact Hxy. rewrite <- Hr'. rewrite IH. reflexivity.
Qed.

End Dedup.

Lemma adjb_cons (r : A -> A -> bool) a b t : adjb r (a :: b :: t) = r a b && adjb r (b :: t).
Proof. reflexivity. Qed.

Lemma adjb_repeat_app (le : A -> A -> bool) x k r :
  le x x = true -> match r with [] => True | y :: _ => le x y = true end -> adjb le r = true ->
  adjb le (repeat x k ++ r) = true.
Proof.
  intros Hx Hh Hr. induction k as [|k IH]; [exact Hr|].
  cbn [repeat app]. destruct (repeat x k ++ r) as [|z t] eqn:E; [reflexivity|].
  rewrite adjb_cons, IH, andb_true_r.
  destruct k; cbn [repeat app] in E.
  - subst r. exact Hh.
  - injection E as <- _. exact Hx.
Qed.

Lemma adjb_expand (le : A -> A -> bool) l :
  forallb (fun xk => le (fst xk) (fst xk) && (0 <? snd xk)) l = true -> adjb le (map fst l) = true ->
  adjb le (expand l) = true.
Proof.
  induction l as [|[x k] t IH]; intros Hr Ha; [reflexivity|].
  cbn [forallb fst snd] in Hr. apply andb_true_iff in Hr. destruct Hr as [Hx Hr].
  apply andb_true_iff in Hx. destruct Hx as [Hx _].
  unfold expand. cbn [flat_map fst snd]. fold (expand t).
  destruct t as [|[y j] t'].
  - cbn [expand flat_map]. apply adjb_repeat_app; [exact Hx|exact I|reflexivity].
  - cbn [map fst] in Ha. rewrite adjb_cons in Ha. apply andb_true_iff in Ha. destruct Ha as [Hxy Ha].
    specialize (IH Hr Ha).
    apply adjb_repeat_app; [exact Hx| |exact IH].
    cbn [forallb fst snd] in Hr. apply andb_true_iff in Hr. destruct Hr as [Hy _].
    apply andb_true_iff in Hy. destruct Hy as [_ Hj]. apply Nat.ltb_lt in Hj.
    unfold expand. cbn [flat_map fst snd]. destruct j as [|j']; [lia|]. cbn [repeat app]. exact Hxy.
Qed.

Lemma layout_expand a b inner q m :
  layout a b inner q m = expand ((a, q) :: map (fun x => (x, m)) inner ++ [(b, q)]).
Proof.
  unfold layout, np_concat3, expand. cbn [flat_map fst snd]. f_equal.
  rewrite flat_map_app. cbn [flat_map fst snd]. rewrite app_nil_r. f_equal.
  unfold np_repeat_each. induction inner as [|x t IH]; [reflexivity|].
  cbn [map flat_map fst snd]. rewrite IH. reflexivity.
Qed.

End Generic.
