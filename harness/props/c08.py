"""C08 -- Assembly is independent of symmetry flag, format, layout, subset, thread count."""
import base64
import glob
import hashlib
import itertools
import os
import math
import struct
from concurrent.futures import ThreadPoolExecutor

import time

from harness.core import cbool, clist, cnat, cz, log, parse_coq_list_of_nat

PROPS = 'C08/Props.v'
DRIVER = 'harness/impl/c08_driver.py'
EPS = 2.0 ** -52

# Rounding bound used wherever two DIFFERENT computations of the same matrix entry are compared
# (symmetric vs full, update vs fresh, on-demand bbox vs precomputed, format/layout/subset routes):
# an entry is a quadrature sum of at most NQ = prod_d nqp*(p_d+1) points, each point costing at most
# FLOPS_PER_POINT floating point operations (products of <= dim basis factors, a dim x dim
# geometry transform, the component loop); any summation order (also with -ffast-math/FMA)
# satisfies |fl - exact| <= gamma_n * sum|terms|, n = NQ*FLOPS_PER_POINT, and sum|terms| is bounded by
# the largest entry magnitude of the matrix of the (semi)definite forms used here times the number
# of sign-mixed summands; we use  2 * n * eps * max|A|  for the difference of two such values.
FLOPS_PER_POINT = 64


def dec(a):
    raw = base64.b64decode(a['b64'])
    n = len(raw) // 8
    return list(struct.unpack('<%dd' % n, raw)), a['shape']


def prod(l):
    r = 1
    for x in l:
        r *= x
    return r


def bound_for(info, scale):
    nq = prod(info['nqp'] * (p + 1) for p in info['p'])
    return 2.0 * nq * FLOPS_PER_POINT * EPS * scale


# ---------------------------------------------------------------------------
# cases
# ---------------------------------------------------------------------------

SYMMETRIC_FORMS = {'mass', 'stiff', 'divdiv'}
CUSTOM = {
    # 1D scalar, symmetric, one updatable field and one parameter
    'c1d': {'expr': 'f * inner(grad(u), grad(v)) * dx + a * u * v * dx', 'args': {'f': 'f0', 'a': 1.5},
            'updatable': ['f'], 'dim': 1, 'symmetric': True,
            'updates': [['field', 'f', 'f1'], ['param', 'a', 2.5], ['field', 'f', 'f0'], ['field', 'f', 'f2']]},
    # 2D vector 2x2, NOT symmetric: symmetric=True then shows exactly which blocks are mirrored and how
    'c2d22': {'expr': '(inner(as_matrix([[2,1],[0,3]]).dot(u), v) + Dx(u[0],0)*v[1] + 5*Dx(u[1],1)*Dx(v[0],0)) * dx',
              'bfuns': [['u', 2], ['v', 2]], 'dim': 2, 'symmetric': False},
    # 2D vector with non-square component blocks (trial 2, test 3 components)
    'c2d23': {'expr': '(u[0]*v[0] + 2*u[1]*v[2] + Dx(u[0],0)*v[1]) * dx', 'bfuns': [['u', 2], ['v', 3]],
              'dim': 2, 'symmetric': False},
    # 1D vector 2x2, symmetric
    'c1d22': {'expr': '(inner(grad(u), grad(v)) + 3 * inner(u, v)) * dx', 'bfuns': [['u', 2], ['v', 2]],
              'dim': 1, 'symmetric': True},
    # 3D vector 2x2, not symmetric (thorough)
    # 3D vector forms with NON-SQUARE component blocks (four levels in the packed layout): 1x3, 3x1, 3x2, 2x3
    'c3d13': {'expr': 'div(u) * v * dx', 'bfuns': [['u', 3], ['v', 1]], 'dim': 3, 'symmetric': False},
    'c3d31': {'expr': '(inner(grad(u), v) + u * v[1]) * dx', 'bfuns': [['u', 1], ['v', 3]], 'dim': 3, 'symmetric': False},
    'c3d23': {'expr': '(u[0]*v[0] + 2*u[1]*v[2] + Dx(u[0],2)*v[1] + 3*Dx(u[1],0)*Dx(v[0],1)) * dx',
              'bfuns': [['u', 2], ['v', 3]], 'dim': 3, 'symmetric': False},
    'c3d32': {'expr': '(u[0]*v[0] + 2*u[2]*v[1] + Dx(u[1],1)*v[0] + 3*u[2]*Dx(v[1],2)) * dx',
              'bfuns': [['u', 3], ['v', 2]], 'dim': 3, 'symmetric': False},
    # 2D: one-component trial or test function next to a vector-valued one
    'c2d12': {'expr': 'div(u) * v * dx', 'bfuns': [['u', 2], ['v', 1]], 'dim': 2, 'symmetric': False},
    'c2d21': {'expr': 'inner(grad(u), v) * dx', 'bfuns': [['u', 1], ['v', 2]], 'dim': 2, 'symmetric': False},
    'c3d22': {'expr': '(inner(as_matrix([[1,4],[0,2]]).dot(u), v) + Dx(u[0],2)*v[1]) * dx',
              'bfuns': [['u', 2], ['v', 2]], 'dim': 3, 'symmetric': False},
}
# --- update corpus: ONE updatable input feeding SEVERAL stored arrays / used in several places ---------
_SEQ_S = [['field', 'f', 's1'], ['field', 'f', 's2'], ['field', 'f', 's0'], ['field', 'f', 's2'], ['field', 'f', 's1']]
_SEQ_G = [['field', 'g', 'g1'], ['field', 'g', 'g2'], ['field', 'g', 'g0'], ['field', 'g', 'g1']]
for _d in (1, 2):
    # value + gradient of a parametric scalar spline field
    CUSTOM['ufg%d' % _d] = {'expr': 'f * u * v * dx + inner(grad(f), grad(v)) * u * dx', 'args': {'f': 's0'},
                            'updatable': ['f'], 'dim': _d, 'symmetric': False, 'updates': _SEQ_S, 'light': True}
    # value + Hessian
    CUSTOM['ufh%d' % _d] = {'expr': 'f * u * v * dx + tr(hess(f)) * u * v * dx', 'args': {'f': 's0'},
                            'updatable': ['f'], 'dim': _d, 'symmetric': False, 'updates': _SEQ_S, 'light': True}
    # value + Jacobian (divergence) of a vector-valued spline field
    CUSTOM['ugv%d' % _d] = {'expr': 'inner(g, grad(v)) * u * dx + div(g) * u * v * dx', 'args': {'g': 'g0'},
                            'updatable': ['g'], 'dim': _d, 'symmetric': False, 'updates': _SEQ_G, 'light': True}
# physical and parametric gradient of the same field, plus its value (three uses)
CUSTOM['ufpp1'] = {'expr': 'inner(grad(f), grad(v)) * u * dx + inner(grad(f, parametric=True), grad(v, parametric=True)) * u * dx + f * u * v * dx',
                   'args': {'f': 's0'}, 'updatable': ['f'], 'dim': 1, 'symmetric': False, 'updates': _SEQ_S, 'light': True}
CUSTOM['ufpp2'] = dict(CUSTOM['ufpp1'], dim=2)
# a physical callable used in two terms, together with a second (non-updated) field
CUSTOM['uphys2'] = {'expr': 'f * u * v * dx + f * h * inner(grad(u), grad(v)) * dx', 'args': {'f': 'f0', 'h': 'f2'},
                    'updatable': ['f'], 'dim': 2, 'symmetric': True,
                    'updates': [['field', 'f', 'f1'], ['field', 'f', 'f2'], ['field', 'f', 'f0'], ['field', 'f', 'f1']], 'light': True}
# parameters used in two places (scalar, and a vector parameter next to a scalar one), with a field in between
CUSTOM['upar1'] = {'expr': 'a * u * v * dx + a * f * inner(grad(u), grad(v)) * dx + c * Dx(u, 0) * v * dx',
                   'args': {'a': 1.5, 'c': 0.5, 'f': 'f0'}, 'updatable': ['f'], 'dim': 1, 'symmetric': False,
                   'updates': [['param', 'a', 2.5], ['param', 'c', -1.25], ['field', 'f', 'f1'], ['param', 'a', 0.75], ['field', 'f', 'f2']],
                   'light': True}
CUSTOM['upar2'] = {'expr': 'inner(b, grad(u)) * v * dx + inner(b, grad(v)) * u * dx + a * inner(b, b) * u * v * dx',
                   'args': {'a': 1.5, 'b': [0.5, -1.0]}, 'dim': 2, 'symmetric': False,
                   'updates': [['param', 'b', [2.0, 0.25]], ['param', 'a', -0.5], ['param', 'b', [-1.0, 3.0]]], 'light': True}
UPDATE_FORMS = ['ufg1', 'ufg2', 'ufh1', 'ufh2', 'ugv1', 'ugv2', 'ufpp1', 'ufpp2', 'uphys2', 'upar1', 'upar2']
FORMATS = ['csr', 'csc', 'coo', 'bsr', 'mlb']


def kv_p(spec):
    return spec[0]


def kv_knots(spec):
    """the knot list of a spec: [p, n, m] = open knot vector over n uniform spans with interior multiplicity m,
    or [p, [explicit knots]]"""
    if isinstance(spec[1], list):
        return list(spec[1])
    p, n, m = spec
    return [0.0] * (p + 1) + [i / n for i in range(1, n) for _ in range(m)] + [1.0] * (p + 1)


def kv_numdofs(spec):
    return len(kv_knots(spec)) - spec[0] - 1


def kv_spans(spec):
    return len(set(kv_knots(spec))) - 1


def open_knots(p, breaks, mults):
    """open knot vector of degree p: interior breakpoint breaks[k] repeated mults[k] times"""
    return [0.0] * (p + 1) + [b for b, m in zip(breaks, mults) for _ in range(m)] + [1.0] * (p + 1)


def rand_kv(rng, small, dim=2):
    p = rng.choice([1, 2, 2, 3]) if not small else rng.choice([1, 2])
    n = rng.randint(1, 3) if small else (rng.randint(2, 5) if dim > 1 else rng.randint(8, 20))
    if rng.random() < 0.4 and n >= 2 and p >= 2:
        # non-uniform placement of repeated interior knots (reduced continuity at SOME breakpoints), uneven mesh
        den = 2 * n
        pts = sorted(rng.sample(range(1, den), n - 1))
        return [p, open_knots(p, [k / den for k in pts], [rng.choice([1, 1, 2, p]) if p > 1 else 1 for _ in pts])]
    m = rng.randint(1, p) if rng.random() < 0.3 else 1
    return [p, n, m]


def level_pattern(spec):
    """harness-side oracle for the per-direction sparsity pattern: B-splines i, j of the knot vector have
    joint support of positive length (support of i = [t_i, t_{i+p+1}])"""
    t = kv_knots(spec)
    p = spec[0]
    n = len(t) - p - 1
    return [(i, j) for i in range(n) for j in range(n) if max(t[i], t[j]) < min(t[i + p + 1], t[j + p + 1])]


def kron_pattern(specs):
    """pattern of the tensor-product space in the order of MLStructure.nonzero (last direction fastest)"""
    pats = [level_pattern(s) for s in specs]
    dims = [kv_numdofs(s) for s in specs]
    out = []
    for sel in itertools.product(*pats):
        I = J = 0
        for (i, j), n in zip(sel, dims):
            I = I * n + i
            J = J * n + j
        out.append((I, J))
    return out


def gen_cases(ctx):
    rng = ctx.rng
    thorough = ctx.tier == 'thorough'
    cases = []

    def add(form, dim, geo, small, vec, symmetric_form, custom=None, bbox=False, kvs=None, family=None):
        while kvs is None:
            kvs = [rand_kv(rng, small, dim) for _ in range(dim)]
            nd = prod(kv_numdofs(k) for k in kvs)
            if small and nd <= (14 if vec else 30) and nd >= 3:
                break
            if not small and (20 if dim > 1 else 8) <= nd <= (90 if vec else 250):
                break
            kvs = None
        nd = prod(kv_numdofs(k) for k in kvs)
        c = {'id': '%s-%dd-%d' % (custom or form, dim, len(cases)), 'form': 'custom' if custom else form, 'kvs': kvs,
             'geo': geo, 'small': small, 'vec': vec, 'symmetric_form': symmetric_form, 'name': custom or form}
        if custom:
            spec = CUSTOM[custom]
            for k in ('expr', 'args', 'updatable', 'bfuns'):
                if k in spec:
                    c[k] = spec[k]
            c['want_source'] = bool(spec.get('updates') or spec.get('updatable'))
            if spec.get('updates'):
                c['updates'] = spec['updates']
                c['upd_symmetric'] = bool(rng.getrandbits(1)) and bool(spec.get('symmetric'))
        # every configuration; symmetric=True also for unsymmetric forms on small cases (mirror tie)
        cfgs = []
        for sym in (False, True):
            if sym and not symmetric_form and not small:
                continue
            if sym and vec and custom and len({b[1] for b in CUSTOM[custom]['bfuns']}) > 1:
                continue    # symmetric needs square component blocks
            for fmt in FORMATS:
                if fmt == 'mlb' and not vec:
                    continue
                for lay in (('blocked', 'packed') if vec else ('blocked',)):
                    cfgs.append([sym, fmt, lay])
        if custom and CUSTOM[custom].get('light'):
            cfgs = [[False, 'csr', 'blocked'], [False, 'csc', 'blocked']]
        if family is not None:
            c['family'] = family
            cfgs = [cf for cf in cfgs if cf[1] in ('csr', 'bsr')]
        c['configs'] = cfgs
        # arbitrary index subsets: in-pattern, out-of-pattern, repeated, unsorted
        subs = []
        for _ in range(2):
            k = rng.randint(1, 40)
            subs.append([[rng.randrange(nd), rng.randrange(nd)] for _ in range(k)])
        subs.append([[i, i] for i in range(nd)] + [[nd - 1, 0], [0, nd - 1]])
        c['subsets'] = subs
        if not vec:
            c['rows'] = [rng.randrange(nd) for _ in range(rng.randint(1, 6))]
            c['single'] = [[rng.randrange(nd), rng.randrange(nd)] for _ in range(5)]
        if bbox:
            bbs = []
            for kb in range(3):
                bb = []
                for sp in kvs:
                    n = kv_spans(sp)
                    # the first box starts at a non-zero cell in every direction that has one
                    a = rng.randint(1, n - 1) if (kb == 0 and n >= 2) else rng.randint(0, n - 1)
                    b = rng.randint(a + 1, n)
                    bb.append([a, b])
                bbs.append(bb)
            bbs.append([[0, kv_spans(sp)] for sp in kvs])
            c['bbox'] = bbs
        cases.append(c)

    reps = 3 if thorough else 1
    for _ in range(reps):
        # small cases: also tied to the Coq model
        add('heat', 2, 'unit', True, False, False)
        add('mass', 2, 'qa', True, False, True, bbox=True)
        add('stiff', 3, 'unit', True, False, True)
        add('wave', 3, 'unit', True, False, False)
        add('divdiv', 2, 'qa', True, True, True)
        add('divdiv', 3, 'unit', True, True, True)
        add(None, 1, 'line', True, False, True, custom='c1d')
        add(None, 2, 'qa', True, True, False, custom='c2d22')
        add(None, 2, 'unit', True, True, False, custom='c2d23')
        add(None, 1, 'line', True, True, True, custom='c1d22')
        tied = rng.sample(['c3d13', 'c3d31', 'c3d23', 'c3d32'], 2)     # two of the four are also tied to the Coq model
        for nm in ('c3d13', 'c3d31', 'c3d23', 'c3d32'):
            if nm in tied:
                add(None, 3, rng.choice(['unit', 'twisted']), True, True, False, custom=nm)
            else:
                add(None, 3, rng.choice(['unit', 'twisted']), False, True, False, custom=nm,
                    kvs=[[rng.choice([1, 2]), rng.randint(1, 2), 1] for _ in range(3)])
        add(None, 2, 'qa', True, True, False, custom=rng.choice(['c2d12', 'c2d21']))
        # larger cases: property predicate on the implementation + thread counts only
        add('stiff', 2, 'qa', False, False, True, bbox=True)
        add('mass', 3, 'twisted', False, False, True)
        add('heat', 3, 'unit', False, False, False)
        add('divdiv', 2, 'qa', False, True, True)
        add('divdiv', 3, 'twisted', False, True, True)
        add(None, 2, 'qa', False, True, False, custom='c2d22')
        add(None, 2, 'qa', False, True, False, custom='c2d23')
        add(None, 1, 'line', False, False, True, custom='c1d')
        # update corpus (update sequence vs. fresh construction after every step)
        for name in UPDATE_FORMS:
            d = CUSTOM[name]['dim']
            add(None, d, rng.choice(['qa', 'unit']) if d == 2 else 'line', bool(rng.getrandbits(1)), False,
                CUSTOM[name]['symmetric'], custom=name)
        # on-demand bounding boxes on spaces whose degree differs between the axes (offsets are counted in
        # quadrature nodes of the common rule nqp = max degree + 1), both orders of the degrees
        for form, geo in (('mass', 'qa'), ('stiff', 'unit')):
            degs = rng.sample([1, 2, 3], 2)
            kk = []
            for pdeg in degs:
                nsp = rng.randint(3, 4)
                kk.append([pdeg, nsp, 1] if rng.random() < 0.5 or pdeg == 1 else
                          [pdeg, open_knots(pdeg, [k / nsp for k in range(1, nsp)], [rng.choice([1, 2]) for _ in range(nsp - 1)])])
            add(form, 2, geo, False, False, True, bbox=True, kvs=kk)
        # families of spaces assembled one after the other IN ONE PROCESS: same degree, same breakpoints, same
        # number of dofs, the repeated interior knot at different breakpoints; then refined, coarsened, and the
        # first space again (anything remembered from an earlier space must not leak into a later one)
        fam = [('mass', 2, 'qa', False, True, None), ('stiff', 2, 'unit', False, True, None),
               ('divdiv', 2, 'qa', True, True, None), (None, 1, 'line', False, True, 'c1d'),
               (None, 2, 'unit', True, False, 'c2d23'), ('heat', 3, 'unit', False, False, None)]
        for fk, (form, dim, geo, vec, symf, custom) in enumerate(fam):
            p = rng.choice([2, 3]) if not vec else 2
            nb = rng.choice([4, 6]) if dim < 3 and not vec else 4
            axis = rng.randrange(dim)
            others = [[rng.choice([1, 2]), rng.randint(1, 2), 1] for _ in range(dim)]
            brk = [k / nb for k in range(1, nb)]
            pos = rng.sample(range(nb - 1), 2)
            mult = rng.randint(2, p)
            variants = []
            for a in pos:
                variants.append([p, open_knots(p, brk, [mult if k == a else 1 for k in range(nb - 1)])])
            variants.append([p, open_knots(p, [k / (2 * nb) for k in range(1, 2 * nb)], [1] * (2 * nb - 1))])   # refined
            variants.append([p, open_knots(p, brk[1::2], [1] * len(brk[1::2]))])                                 # coarsened
            variants.append(variants[0])                                                                         # the first space again
            variants.append([p, open_knots(p, brk, [mult if k == pos[1] else 1 for k in range(nb - 1)])])
            for v in variants:
                kk = [list(o) for o in others]
                kk[axis] = v
                add(form, dim, geo, False, vec, symf, custom=custom, kvs=kk, family=fk)
    if thorough:
        add(None, 3, 'unit', True, True, False, custom='c3d22')
        add(None, 3, 'twisted', False, True, False, custom='c3d22')
        for _ in range(6):
            add('wave', 2, 'unit', True, False, False)
            add('stiff', 2, 'qa', True, False, True, bbox=True)
    return cases


def vform_cache_dir(ctx):
    """pyiga's on-disk cache of compiled forms is keyed by the form's hash only; the harness keys the cache
    directory by the extension sources.  A change of the code GENERATOR (pure Python: pyiga/codegen/*.py,
    vform.py, compile.py) would therefore be hidden by a warm cache.  C08 compiles its forms into a
    directory that is additionally keyed by these files (below the ext-sha directory, so it is pruned with it)."""
    from harness import core
    ctx.impl.build()
    h = hashlib.sha256()
    files = sorted(glob.glob(os.path.join(ctx.impl.dir, 'pyiga', 'codegen', '*.py')))
    files += [os.path.join(ctx.impl.dir, 'pyiga', f) for f in ('vform.py', 'compile.py')]
    for f in files:
        h.update(os.path.relpath(f, ctx.impl.dir).encode())
        h.update(open(f, 'rb').read())
    return os.path.join(core.CACHE, 'xdg', ctx.impl.sha, 'c08-' + h.hexdigest()[:16])


def strip_case(c):
    return {k: v for k, v in c.items() if k not in ('small', 'vec', 'symmetric_form', 'name', '_history')}


# ---------------------------------------------------------------------------
# harness-side oracle (independent of the Coq model): dense reference matrices
# ---------------------------------------------------------------------------

class Ref:
    """Reference operator built from asm.multi_entries / multi_blocks over ALL index pairs (no sparsity
    structure of the implementation enters); P is the harness-side support pattern of the space."""

    def __init__(self, case, res):
        info = res['info']
        self.info = info
        self.vec = info['vec']
        self.M, self.N = info['shape']
        self.P_impl = list(zip(*info['P']))
        self.P = kron_pattern(case['kvs'])
        if self.vec:
            nc0, nc1 = info['numcomp']
            self.nr, self.ncl = nc1, nc0       # rows = test components, columns = trial components
            vals, shp = dec(res['arr']['blocks_dense'])
        else:
            self.nr = self.ncl = 1
            vals, shp = dec(res['arr']['entries_dense'])
        sz = self.nr * self.ncl
        assert len(vals) == self.M * self.N * sz
        self.blocks = {}
        inP = set(self.P)
        self.outside = None         # a non-zero entry outside the support pattern
        for I in range(self.M):
            base = I * self.N
            for J in range(self.N):
                b = vals[(base + J) * sz:(base + J + 1) * sz]
                if (I, J) in inP:
                    self.blocks[(I, J)] = b
                elif any(v != 0.0 for v in b):
                    self.blocks[(I, J)] = b
                    if self.outside is None:
                        self.outside = (I, J)
        self.scale = max([abs(v) for v in vals] + [0.0])

    def get(self, I, J, r=0, c=0):
        b = self.blocks.get((I, J))
        return 0.0 if b is None else b[r * self.ncl + c]

    def block_get(self, I, J):
        return self.blocks.get((I, J)) or [0.0] * (self.nr * self.ncl)

    def dense(self, layout, mirrored=False):
        """dense operator; mirrored=True: what `symmetric=True` denotes for an arbitrary form
        (blocks with J <= I computed, blocks above the diagonal = transposed mirror images)."""
        R, C = self.M * self.nr, self.N * self.ncl
        A = [[0.0] * C for _ in range(R)]
        for (I, J), b in self.blocks.items():
            for r in range(self.nr):
                for c in range(self.ncl):
                    if mirrored and J > I:
                        v = self.get(J, I, c, r)
                    else:
                        v = b[r * self.ncl + c]
                    if layout == 'packed':
                        A[I * self.nr + r][J * self.ncl + c] = v
                    else:
                        A[r * self.M + I][c * self.N + J] = v
        return A


def maxdiff(A, flat, shape):
    """A: list of rows; flat/shape: implementation array.  returns (maxabs diff, (i,j)) or None if shapes differ"""
    R, C = len(A), len(A[0]) if A else 0
    if list(shape) != [R, C]:
        return None
    worst, where = 0.0, None
    for i in range(R):
        row = A[i]
        base = i * C
        for j in range(C):
            d = abs(row[j] - flat[base + j])
            if not (d <= worst):    # also catches nan
                worst, where = d, (i, j)
    return worst, where


# ---------------------------------------------------------------------------
# Coq case files
# ---------------------------------------------------------------------------

HEADER = '''From Coq Require Import ZArith List Bool Arith.
From Verif.C08 Require Import Model CaseLib.
Import ListNotations.
Open Scope Z_scope.
Definition T := list ((Z * Z) * Z).
Definition zden (t : T) (q : Z * Z) : Z := den 0 Z.add t q.
Definition sub_ok (a b : T) : bool := forallb (fun t : (Z * Z) * Z => (snd t =? 0) || (zden b (fst t) =? snd t)) a.
(* fast path: equal sorted non-zero triples (CaseLib.same_sorted_sound); otherwise the coordinate-wise comparison *)
Definition same (a b : T) : bool := same_sorted a b || (sub_ok a b && sub_ok b a).
Fixpoint zl_eqb (a b : list Z) : bool :=
  match a, b with [], [] => true | x :: a', y :: b' => (x =? y) && zl_eqb a' b' | _, _ => false end.
Fixpoint nl_eqb (a b : list nat) : bool :=
  match a, b with [], [] => true | x :: a', y :: b' => Nat.eqb x y && nl_eqb a' b' | _, _ => false end.
Fixpoint nll_eqb (a b : list (list nat)) : bool :=
  match a, b with [], [] => true | x :: a', y :: b' => nl_eqb x y && nll_eqb a' b' | _, _ => false end.
Definition ij_eqb (a b : list Z * list Z) : bool := zl_eqb (fst a) (fst b) && zl_eqb (snd a) (snd b).
Fixpoint blk_lookup (tbl : list ((list Z * list Z) * list Z)) (k : list Z * list Z) : list Z :=
  match tbl with [] => [] | (k', v) :: r => if ij_eqb k' k then v else blk_lookup r k end.
Fixpoint pblk_lookup (tbl : list ((Z * Z) * list Z)) (k : Z * Z) : list Z :=
  match tbl with [] => [] | (k', v) :: r => if pair_eqb k' k then v else pblk_lookup r k end.
Fixpoint bad (k : nat) (cs : list bool) : list nat :=
  match cs with [] => [] | c :: cs' => if c then bad (S k) cs' else k :: bad (S k) cs' end.
Definition opt_nl_eqb (a : option (list nat)) (b : option (list nat)) : bool :=
  match a, b with Some x, Some y => nl_eqb x y | None, None => true | _, _ => false end.
'''


def cpairs(ps):
    return clist(['(%s, %s)' % (cz(a), cz(b)) for a, b in ps])


def ctriples(ts):
    return clist(['((%s, %s), %s)' % (cz(i), cz(j), cz(v)) for (i, j, v) in ts])


def dense_to_triples(flat, shape, ids):
    R, C = shape
    out = []
    for i in range(R):
        for j in range(C):
            v = flat[i * C + j]
            if v != 0.0:
                out.append((i, j, ids[v]))
    return out


def coq_case_file(case, res):
    """Returns (text, list of check labels) or None if the case cannot be tied."""
    info = res['info']
    arr = res['arr']
    st = res['status']
    # value ids: equal floats <-> equal ids; 0.0 (either sign) <-> 0
    ids = {0.0: 0}
    decoded = {}
    for k, a in arr.items():
        flat, shp = dec(a)
        decoded[k] = (flat, shp)
        for v in flat:
            if v != v:
                return None
            if v not in ids:
                ids[v] = len(ids)
    P = list(zip(*info['P']))
    checks = []
    labels = []
    body = []
    lets = []
    body.append('Definition P : list (Z * Z) := %s.' % cpairs(P))
    if not info['vec']:
        flat, _ = decoded['entries_full']
        body.append('Definition full : T := %s.' % ctriples([(i, j, ids[v]) for (i, j), v in zip(P, flat)]))
        for (sym, fmt, lay) in case['configs']:
            key = 'A-%s-%s-%s' % ('sym' if sym else 'full', fmt, lay)
            if st.get(key) != 'Ok' or fmt not in ('csr', 'bsr'):
                continue
            flatA, shp = decoded[key]
            name = 'impl_%d' % len(checks)
            body.append('Definition %s : T := %s.' % (name, ctriples(dense_to_triples(flatA, shp, ids))))
            checks.append('same (assemble_entries (fun v : Z => v) %s P (zden full)) %s' % (cbool(sym), name))
            labels.append(key)
    else:
        nc0, nc1 = info['numcomp']
        nr, ncl = nc1, nc0
        sz = nr * ncl
        bidx = info['bidx']
        dim = len(bidx)
        body.append('Definition bidx : list (list (Z * Z)) := %s.' % clist([cpairs(b) for b in bidx]))
        body.append('Definition bs : list (Z * Z) := %s.' % cpairs(info['bs']))
        # transpose index arrays: model vs implementation
        tr_impl = info.get('transp')
        body.append('Definition transp_impl : list (option (list nat)) := %s.' % (
            clist(['Some ' + clist(t, cnat) for t in tr_impl]) if tr_impl is not None else '[]'))
        if tr_impl is not None:
            checks.append('forallb (fun x => x) (map (fun bt : list (Z * Z) * option (list nat) => opt_nl_eqb (transpose_idx (fst bt)) (snd bt)) (combine bidx transp_impl))')
            labels.append('transpose_idx')
        body.append('Definition lv : list level := combine bidx (map (fun o : option (list nat) => match o with Some t => t | None => [] end) '
                    '(map transpose_idx bidx)).')
        if st.get('core_full') == 'Ok':
            flatc, shpc = decoded['core_full']
            shape_mu = shpc[:-1]
            tbl = []
            for k, mu in enumerate(itertools.product(*[range(n) for n in shape_mu])):
                i = [bidx[d][mu[d]][0] for d in range(dim)]
                j = [bidx[d][mu[d]][1] for d in range(dim)]
                vals = [ids[v] for v in flatc[k * sz:(k + 1) * sz]]
                tbl.append('((%s, %s), %s)' % (clist(i, cz), clist(j, cz), clist(vals, cz)))
            body.append('Definition blocks : list ((list Z * list Z) * list Z) := %s.' % clist(tbl))
            body.append('Definition B (i j : list Z) (c : nat) : Z := nth c (blk_lookup blocks (i, j)) 0.')
            body.append('Definition core_full_impl : list Z := %s.' % clist([ids[v] for v in flatc], cz))
            body.append('Definition core_full_model_def : list Z := core_entries 0 %d%%nat %d%%nat B false lv.' % (nc0, nc1))
            lets.append('let core_full_model := core_full_model_def in')
            checks.append('zl_eqb core_full_model core_full_impl')
            labels.append('core_full')
            have_sym = st.get('core_sym') == 'Ok'
            if have_sym:
                flats, _ = decoded['core_sym']
                body.append('Definition core_sym_impl : list Z := %s.' % clist([ids[v] for v in flats], cz))
                body.append('Definition core_sym_model_def : list Z := core_entries 0 %d%%nat %d%%nat B true lv.' % (nc0, nc1))
                lets.append('let core_sym_model := core_sym_model_def in')
                checks.append('zl_eqb core_sym_model core_sym_impl')
                labels.append('core_sym')
            for (sym, fmt, lay) in case['configs']:
                key = 'A-%s-%s-%s' % ('sym' if sym else 'full', fmt, lay)
                if st.get(key) != 'Ok' or fmt not in ('csr', 'mlb') or (sym and not have_sym):
                    continue
                if lay == 'packed' and fmt == 'bsr':
                    continue
                flatA, shp = decoded[key]
                name = 'impl_%d' % len(checks)
                body.append('Definition %s : T := %s.' % (name, ctriples(dense_to_triples(flatA, shp, ids))))
                checks.append('same (core_triples %s bs (%d, %d) bidx %s) %s' % (
                    cbool(lay == 'blocked'), nr, ncl, 'core_sym_model' if sym else 'core_full_model', name))
                labels.append(key)
        if st.get('blocks_full') == 'Ok':
            flatb, _ = decoded['blocks_full']
            tbl = ['((%s, %s), %s)' % (cz(I), cz(J), clist([ids[v] for v in flatb[k * sz:(k + 1) * sz]], cz))
                   for k, (I, J) in enumerate(P)]
            body.append('Definition pblocks : list ((Z * Z) * list Z) := %s.' % clist(tbl))
            for (sym, fmt, lay) in case['configs']:
                key = 'A-%s-%s-%s' % ('sym' if sym else 'full', fmt, lay)
                if st.get(key) != 'Ok' or not (fmt == 'bsr' and lay == 'packed'):
                    continue
                flatA, shp = decoded[key]
                name = 'impl_%d' % len(checks)
                body.append('Definition %s : T := %s.' % (name, ctriples(dense_to_triples(flatA, shp, ids))))
                checks.append('same (expand_blocks 0 %d%%nat %d%%nat (assemble_entries (blk_transpose 0 %d%%nat %d%%nat) %s P (pblk_lookup pblocks))) %s' % (
                    nr, ncl, nr, ncl, cbool(sym), name))
                labels.append(key)
    if not checks:
        return None
    # the model arrays are bound once (call by value) and shared by all comparisons that use them
    text = HEADER + '\n'.join(body) + '\nEval vm_compute in %s bad 0 %s.\n' % (' '.join(lets), clist(checks))
    return text, labels


UPD_HEADER = '''From Coq Require Import List Bool Arith.
From Verif.C08 Require Import Update.
Import ListNotations.
Fixpoint bad (k : nat) (cs : list bool) : list nat :=
  match cs with [] => [] | c :: cs' => if c then bad (S k) cs' else k :: bad (S k) cs' end.
'''


def carr(a):
    return '(%d, %d, %d, %d)' % tuple(a)


def coq_update_file(tables):
    """tables: list of translate.c08_update_text results; two obligations per form (fields, constants)"""
    cs = []
    for t in tables:
        cs.append('update_okb %s %s %s' % (clist([carr(a) for a in t['arrs']]),
                                           clist(['(%d, %s)' % (n, clist([carr(a) for a in bl])) for n, bl in t['upd']]),
                                           clist(t['temp_srcs'])))
        cs.append('update_okb %s %s []' % (clist([carr(a) for a in t['parrs']]),
                                          clist(['(%d, %s)' % (n, clist([carr(a) for a in bl])) for n, bl in t['pupd']])))
    return UPD_HEADER + 'Eval vm_compute in bad 0 %s.\n' % clist(cs)


def coq_chunks_file(items):
    """items: list of (n, k, impl chunks).  Model: chunk_tasks (seq 0 n) k."""
    cs = []
    for (n, k, chunks) in items:
        cs.append('nll_eqb (chunk_tasks (seq 0 %d) %d) %s' % (n, k, clist([clist(c) for c in chunks])))
    return HEADER + 'Close Scope Z_scope.\nEval vm_compute in bad 0 %s.\n' % clist(cs)


def coq_transp_file(items):
    cs = []
    for (b, r) in items:
        exp = 'Some ' + clist(r['t'], cnat) if r['status'] == 'Ok' else 'None'
        cs.append('opt_nl_eqb (transpose_idx %s) (%s)' % (cpairs(b), exp))
    return HEADER + 'Eval vm_compute in bad 0 %s.\n' % clist(cs)


# ---------------------------------------------------------------------------
# the check
# ---------------------------------------------------------------------------

def raise_class(case, key, msg):
    """signature class of an unexpected exception: the call site / input class, not the single configuration"""
    dim = len(case['kvs'])
    if 'Lower triangular part not implemented in 1D' in msg:
        return 'sym-1d'
    if 'mismatching blocksize' in msg:
        return 'bsr-packed-nonsquare'
    if dim == 1 and case['vec'] and "bytes-like object is required, not 'tuple'" in msg:
        return 'core-vec-1d'
    cat = '-'.join(key.split('-')[:2]) if key.startswith('A-') else key.rstrip('0123456789')
    return '%s:%s' % (case['name'], cat)


def check_property_on_impl(ctx, case, res, stats):
    """The property predicate evaluated on the implementation's outputs with the harness oracle."""
    st = res['status']
    if st.get('case') != 'Ok':
        ctx.report('impl:raises-%s:setup:%s' % (st.get('case', '?').split(':')[0], case['name']),
                   'setting up the assembler raised: %s' % st.get('case'), {'case': strip_case(case)})
        return
    # nothing may raise for a valid configuration
    for key, s in st.items():
        if s != 'Ok':
            err = s.split(':')[0]
            ctx.report('impl:raises-%s:%s' % (err, raise_class(case, key, s)),
                       '%s raised %s for form %s, kvs (p,spans,mult)=%s' % (key, s, case.get('expr', case['name']), case['kvs']),
                       {'case': strip_case(case), 'output': key, 'error': s,
                        'how': 'assemble_entries(asm, symmetric, format, layout) / multi_blocks / generic core as named by `output`'})
    need = 'blocks_dense' if res['info']['vec'] else 'entries_dense'
    if st.get(need) != 'Ok':
        return
    if res['info'].get('ndofs') != [kv_numdofs(k) for k in case['kvs']]:
        ctx.broken.append('harness knot-vector expansion disagrees with the implementation on numdofs: %s' % case['kvs'])
        return
    try:
        ref = Ref(case, res)
    except AssertionError:
        ctx.report('impl:length:full-pattern:%s' % case['name'],
                   'multi_entries/multi_blocks over the full pattern returned an array of the wrong size',
                   {'case': strip_case(case), 'blocks_shape': res['info'].get('blocks_shape')})
        return
    tol = bound_for(res['info'], ref.scale)
    stats['bound_max'] = max(stats['bound_max'], tol)
    arr = res['arr']
    hist = case.get('_history') or []
    # the sparsity structure the assembly fills in must be the support pattern of THIS space (exact)
    if sorted(ref.P_impl) != sorted(ref.P):
        miss = sorted(set(ref.P) - set(ref.P_impl))[:5]
        extra = sorted(set(ref.P_impl) - set(ref.P))[:5]
        ctx.report('impl:pattern:%s' % case['name'],
                   'MLStructure.from_kvs(kvs).nonzero() is not the joint-support pattern of the space %s: missing %s, extra %s '
                   '(spaces assembled earlier in this process: %s)' % (case['kvs'], miss, extra, [h['kvs'] for h in hist][-3:]),
                   {'case': strip_case(case), 'missing': miss, 'extra': extra, 'process_history': hist,
                    'how': 'in ONE process assemble the cases of process_history in order, then this case'})
    if ref.outside is not None:
        ctx.report('impl:entry-outside-support:%s' % case['name'],
                   'entry/block %s is non-zero although the basis functions have no joint support' % (ref.outside,),
                   {'case': strip_case(case), 'pair': ref.outside, 'process_history': hist})

    def cmp_dense(key, A, what):
        flat, shp = dec(arr[key])
        r = maxdiff(A, flat, shp)
        if r is None:
            ctx.report('impl:shape:%s:%s' % (case['name'], what.split('-')[0]), '%s: shape %s differs from the reference operator' % (key, shp),
                       {'case': strip_case(case), 'output': key})
            return
        worst, where = r
        stats['maxdev'] = max(stats['maxdev'], worst if worst == worst else float('inf'))
        stats['compared'] += 1
        if not (worst <= tol):
            ctx.report('impl:%s:%s' % (what, case['name']),
                       '%s differs from the operator given by the entries over the full pattern by %.3e at %s (bound %.3e)' % (
                           key, worst, where, tol),
                       {'case': strip_case(case), 'output': key, 'where': where, 'deviation': worst, 'bound': tol,
                        'process_history': case.get('_history') or []})

    dense_cache = {}
    for (sym, fmt, lay) in case['configs']:
        key = 'A-%s-%s-%s' % ('sym' if sym else 'full', fmt, lay)
        if st.get(key) != 'Ok':
            continue
        lay_eff = lay if ref.vec else 'packed'
        if sym and not case['symmetric_form']:
            continue        # symmetric=True on an unsymmetric form is outside the property (Coq tie only)
        if lay_eff not in dense_cache:
            dense_cache[lay_eff] = ref.dense(lay_eff)
        what = ('symmetric' if sym else 'config') + '-' + fmt + '-' + lay
        cmp_dense(key, dense_cache[lay_eff], what)

    def cmp_list(key, expected, what, extra=None):
        flat, shp = dec(arr[key])
        if len(flat) != len(expected):
            ctx.report('impl:length:%s:%s' % (what, case['name']), '%s has %d values for %d requested' % (key, len(flat), len(expected)),
                       {'case': strip_case(case), 'output': key})
            return
        stats['compared'] += 1
        for k, (a, b) in enumerate(zip(flat, expected)):
            d = abs(a - b)
            stats['maxdev'] = max(stats['maxdev'], d if d == d else float('inf'))
            if not (d <= tol):
                ctx.report('impl:%s:%s' % (what, case['name']),
                           '%s[%d] = %r but the full operator has %r there (bound %.3e)' % (key, k, a, b, tol),
                           dict({'case': strip_case(case), 'output': key, 'position': k}, **(extra or {})))
                return

    if ref.vec:
        for k, sub in enumerate(case.get('subsets') or []):
            key = 'subblocks%d' % k
            if st.get(key) == 'Ok':
                exp = []
                for (i, j) in sub:
                    exp += ref.block_get(i, j)
                cmp_list(key, exp, 'subset-blocks', {'indices': sub})
        if st.get('blocks_full') == 'Ok' and 'blocks_full_again' in arr:
            cmp_list('blocks_full_again', dec(arr['blocks_full'])[0], 'reuse')
            if 'blocks_full_kept' in arr:
                cmp_list('blocks_full_kept', dec(arr['blocks_full'])[0], 'result-buffer-changed')
            exp = []
            for (i, j) in ref.P_impl:
                exp += ref.block_get(i, j)
            cmp_list('blocks_full', exp, 'subset-blocks')
        # generic core data vs blocks (shape MU.. x nc0*nc1 in pattern order)
    else:
        for k, sub in enumerate(case.get('subsets') or []):
            key = 'subentries%d' % k
            if st.get(key) == 'Ok':
                cmp_list(key, [ref.get(i, j) for (i, j) in sub], 'subset-entries', {'indices': sub})
        if 'single' in arr:
            cmp_list('single', [ref.get(i, j) for (i, j) in case['single']], 'entry', {'indices': case['single']})
        if 'entries_full_again' in arr:
            cmp_list('entries_full_again', dec(arr['entries_full'])[0], 'reuse')
            if 'entries_full_kept' in arr:
                cmp_list('entries_full_kept', dec(arr['entries_full'])[0], 'result-buffer-changed')
            cmp_list('entries_full', [ref.get(i, j) for (i, j) in ref.P_impl], 'subset-entries')
        if st.get('rows') == 'Ok':
            I, J = res['info']['rows_IJ']
            # exact: the pattern restricted to the requested rows, in request order
            want = []
            byrow = {}
            for (i, j) in ref.P:
                byrow.setdefault(i, []).append(j)
            okpat = True
            pos = 0
            for r in case['rows']:
                js = sorted(byrow.get(r, []))
                got = sorted(J[pos:pos + len(js)])
                if I[pos:pos + len(js)] != [r] * len(js) or got != js:
                    okpat = False
                pos += len(js)
            if pos != len(I):
                okpat = False
            if not okpat:
                ctx.report('impl:rows-pattern:%s' % case['name'], 'nonzeros_for_rows(%s) is not the pattern restricted to these rows' % case['rows'],
                           {'case': strip_case(case), 'rows': case['rows'], 'I': I, 'J': J})
            else:
                cmp_list('rows_vals', [ref.get(i, j) for i, j in zip(I, J)], 'rows', {'rows': case['rows']})
    # update sequences vs fresh construction
    if st.get('updates') == 'Ok':
        for k in range(len(case['updates'])):
            a, shp = dec(arr['upd%d' % k])
            b, shp2 = dec(arr['fresh%d' % k])
            sc = max([abs(v) for v in b] + [0.0])
            t2 = bound_for(res['info'], sc)
            stats['compared'] += 1
            worst = max([abs(x - y) for x, y in zip(a, b)] + [0.0]) if shp == shp2 else float('inf')
            stats['maxdev'] = max(stats['maxdev'], worst)
            if not (worst <= t2):
                ctx.report('impl:update-vs-fresh:%s' % case['name'],
                           'after update step %d (%s) the assembled matrix differs from a freshly constructed assembler by %.3e (bound %.3e)' % (
                               k, case['updates'][k], worst, t2),
                           {'case': strip_case(case), 'step': k, 'updates': case['updates'][:k + 1], 'deviation': worst})
                break
    if st.get('bbox') == 'Ok':
        for bb, r in zip(case['bbox'], res['info']['bbox']):
            vals, _ = dec(r['vals'])
            stats['compared'] += 1
            stats['bbox_pairs'] += len(vals)
            for (i, j), v in zip(r['pairs'], vals):
                d = abs(v - ref.get(i, j))
                stats['maxdev'] = max(stats['maxdev'], d if d == d else float('inf'))
                if not (d <= tol):
                    ctx.report('impl:bbox:%s' % case['name'],
                               'on-demand assembler with bbox %s: entry (%d,%d) = %r, full assembler %r' % (bb, i, j, v, ref.get(i, j)),
                               {'case': strip_case(case), 'bbox': bb, 'pair': [i, j]})
                    break


def run(ctx):
    ok1 = ctx.obligations_stage(PROPS, extra_targets=['C08/Examples.vo', 'C08/Examples2.vo', 'C08/CaseLib.vo'], gate_dirs=['C15'])
    ctx.assumptions += [
        'model: hand transcription of chunk_tasks, the thread-pool split of multi_entries/multi_blocks, '
        'generic_assemble_core_vec_{1,2,3}d + kernel (skip rule, mirrored writes), get_transpose_idx_for_bidx, '
        'assemble_entries / assemble_entries_vec (lower triangle + mirrored part, packed/bsr with transposed blocks, '
        'packed/blocked keys) into Gallina (coq/C08/Model.v)',
        'schedules: any merge of the tasks\' store sequences that keeps each task\'s order; stores of aligned doubles are atomic; '
        'entry_impl is a pure function of (i,j) (reads only arrays that are immutable during assembly)',
        'tie: exact comparison (float equality as integer ids) of every matrix/array the model predicts from the entries over the full pattern; '
        'bitwise comparison of all outputs across thread counts (fresh process per count)',
        'not modelled: scipy.sparse format conversions, OpenMP runtime and memory model, the C compiler; '
        'update()/update_params() slot layout (C01) is only exercised by the run',
    ]
    thorough = ctx.tier == 'thorough'
    cases = gen_cases(ctx)
    rng = ctx.rng
    chunk_items = [(n, k) for n in range(0, 14) for k in range(1, 18)]
    chunk_items += [(rng.randint(0, 400), rng.randint(1, 40)) for _ in range(400 if thorough else 120)]
    transp_items = []
    for _ in range(60 if thorough else 25):
        n = rng.randint(1, 7)
        bw = rng.randint(0, 3)
        b = [[i, j] for i in range(n) for j in range(max(0, i - bw), min(n, i + bw + 1))]
        rng.shuffle(b)
        if rng.random() < 0.3 and len(b) > 1:
            b.pop(rng.randrange(len(b)))       # possibly not symmetric any more -> KeyError expected
        if rng.random() < 0.2:
            b.append(list(rng.choice(b)))      # duplicate: the later index wins
        transp_items.append(b)
    payload = {'cases': [strip_case(c) for c in cases], 'chunks': chunk_items, 'transp': transp_items}
    log('[C08] %d cases (%d small/Coq-tied), %d chunk_tasks inputs, %d transpose patterns' % (
        len(cases), sum(1 for c in cases if c['small']), len(chunk_items), len(transp_items)))
    t0 = time.time()
    xdg = vform_cache_dir(ctx)
    # the 1-thread reference run, split over processes by form name (a form is compiled by one process only)
    names = sorted({c['name'] for c in cases})
    NG = 4
    groups = [[k for k, c in enumerate(cases) if names.index(c['name']) % NG == g] for g in range(NG)]

    def ref_run(g):
        p = {'cases': [strip_case(cases[k]) for k in groups[g]], 'threads': 1, 'mode': 'full'}
        if g == 0:
            p['chunks'] = chunk_items
            p['transp'] = transp_items
        return ctx.impl.run(DRIVER, p, timeout=3000, xdg=xdg)
    with ThreadPoolExecutor(max_workers=NG) as ex:
        parts = list(ex.map(ref_run, range(NG)))
    merged = [None] * len(cases)
    for g, part in enumerate(parts):
        for k, r in zip(groups[g], part['results']):
            merged[k] = r
    r1 = {'results': merged, 'chunks': parts[0]['chunks'], 'transp': parts[0]['transp']}
    for g in range(NG):      # what the same driver process assembled before each case
        for pos, k in enumerate(groups[g]):
            cases[k]['_history'] = [{'id': cases[j]['id'], 'form': cases[j].get('expr', cases[j]['name']), 'kvs': cases[j]['kvs'],
                                     'geo': cases[j]['geo']} for j in groups[g][:pos] if cases[j]['name'] == cases[k]['name']]
    log('[C08] 1-thread reference run %.1fs' % (time.time() - t0))
    results = r1['results']

    # ---- thread counts: fresh process each, bitwise comparison of every output -------------
    tcounts = list(range(2, 17)) if thorough else [2, 3, 4, 7, 16]
    reps = 2 if thorough else 1

    tcases = [k for k, c in enumerate(cases) if 'family' not in c]      # families are about histories, not threads

    def one(n):
        if n == 'history':
            # ONE fresh 1-thread process assembling all cases in the REVERSE order: every output must be
            # bitwise what the reference processes produced after a different history
            order = list(range(len(cases)))[::-1]
            p = {'cases': [strip_case(cases[k]) for k in order], 'threads': 1, 'mode': 'digest'}
            return n, order, ctx.impl.run(DRIVER, p, timeout=2400, xdg=xdg)
        p = {'cases': [strip_case(cases[k]) for k in tcases], 'threads': n, 'mode': 'digest'}
        return n, tcases, ctx.impl.run(DRIVER, p, timeout=2400, xdg=xdg)
    jobs = ['history'] + [n for n in tcounts for _ in range(reps)]
    with ThreadPoolExecutor(max_workers=4) as ex:
        allres = list(ex.map(one, jobs))
    log('[C08] %d thread-count runs + 1 reversed-history run done at %.1fs' % (len(jobs) - 1, time.time() - t0))
    nhist_cmp = 0
    for n, order, rn in allres:
        if n != 'history':
            continue
        for k, b in zip(order, rn['results']):
            case, a = cases[k], results[k]
            for key, d in a['dig'].items():
                if key not in b['dig']:
                    continue
                nhist_cmp += 1
                if b['dig'][key] != d:
                    kind = 'core' if key.startswith('core') else ('matrix' if key.startswith('A-') else 'entries')
                    after = [{'id': cases[j]['id'], 'kvs': cases[j]['kvs']} for j in order[:order.index(k)] if cases[j]['name'] == case['name']]
                    ctx.report('impl:history:%s:%s' % (kind, case['name']),
                               'output %s of %s depends on what the process assembled before: after %s it differs bitwise from the '
                               'result after %s' % (key, case['id'], [h['id'] for h in after][-3:], [h['id'] for h in case.get('_history') or []][-3:]),
                               {'case': strip_case(case), 'output': key, 'history_1': case.get('_history') or [], 'history_2': after,
                                'how': 'one process, pyiga.set_max_threads(1): assemble the cases of history_k in order, then this case'})
    ctx.cov['bitwise_comparisons_across_histories'] = nhist_cmp
    tres = [(n, order, rn) for (n, order, rn) in allres if n != 'history']
    nthread_cmp = 0
    for n, order, rn in tres:
        for case, a, b in zip([cases[k] for k in order], [results[k] for k in order], rn['results']):
            for key, d in a['dig'].items():
                if key not in b['dig']:
                    if key.startswith(('upd', 'fresh')):
                        continue        # update sequences are run in the 1-thread process only
                nthread_cmp += 1
                if b['dig'].get(key) != d:
                    kind = 'core' if key.startswith('core') else ('matrix' if key.startswith('A-') else 'entries')
                    ctx.report('impl:threads:%s:%s' % (kind, case['name']),
                               'output %s of %s differs bitwise between 1 and %d worker threads' % (key, case['id'], n),
                               {'case': strip_case(case), 'output': key, 'threads': [1, n], 'digests': [d, b['dig'].get(key)],
                                'how': 'pyiga.set_max_threads(n) in a fresh process, then the call named by `output`'})
            for key, s in b['status'].items():
                if s != a['status'].get(key):
                    ctx.report('impl:threads-status:%s' % case['name'], 'status of %s differs: %s (1 thread) vs %s (%d threads)' % (
                        key, a['status'].get(key), s, n), {'case': strip_case(case), 'output': key, 'threads': [1, n]})
    ctx.cov['thread_counts'] = [1] + sorted(set(tcounts))
    ctx.cov['bitwise_comparisons_across_thread_counts'] = nthread_cmp

    # ---- the property evaluated on the implementation ---------------------------------------
    stats = {'maxdev': 0.0, 'compared': 0, 'bound_max': 0.0, 'bbox_pairs': 0}
    for case, res in zip(cases, results):
        ctx.count((case['name'], case['kvs'], case['geo']), nontrivial=True, n=len(res['dig']))
        check_property_on_impl(ctx, case, res, stats)
    ctx.cov['traces_validated_against_impl'] = len(cases)
    log('[C08] property predicate on the implementation done at %.1fs' % (time.time() - t0))
    ctx.cov['rounding_bound'] = '2 * prod_d(nqp*(p_d+1)) * %d * 2^-52 * max|A|; largest value used %.3e' % (FLOPS_PER_POINT, stats['bound_max'])
    ctx.cov['largest_observed_deviation'] = stats['maxdev']
    ctx.cov['float_comparisons'] = stats['compared']
    ctx.cov['bbox_pairs_compared'] = stats['bbox_pairs']

    # ---- correspondence model <-> implementation (exact) ---------------------------------
    files = []
    meta = []
    for case, res in zip(cases, results):
        if not case['small'] or res['status'].get('case') != 'Ok':
            continue
        cf = coq_case_file(case, res)
        if cf is None:
            continue
        files.append(('C08_case_%03d' % len(files), cf[0]))
        meta.append((case, cf[1]))
    citems = [(n, k, r['chunks']) for (n, k), r in zip(chunk_items, r1['chunks']) if r['status'] == 'Ok']
    for (n, k), r in zip(chunk_items, r1['chunks']):
        if r['status'] != 'Ok':
            ctx.report('impl:raises-%s:chunk_tasks' % r['status'], 'chunk_tasks(range(%d), %d) raised %s' % (n, k, r['status']), {'n': n, 'k': k})
        else:
            flat = [x for c in r['chunks'] for x in c]
            ctx.count(('chunk', n, k), nontrivial=n > 0)
            if flat != list(range(n)) or any(len(c) == 0 for c in r['chunks']) or len(r['chunks']) > k:
                ctx.report('impl:chunks-partition', 'chunk_tasks(range(%d), %d) = %s is not a partition into at most k non-empty consecutive chunks' % (n, k, r['chunks']),
                           {'n': n, 'k': k, 'chunks': r['chunks']})
    nfile_cases = len(files)
    CH = 250
    chunk_groups = [citems[i:i + CH] for i in range(0, len(citems), CH)]
    for g in chunk_groups:
        files.append(('C08_chunks_%03d' % len(files), coq_chunks_file(g)))
    titems = list(zip(transp_items, r1['transp']))
    files.append(('C08_transp', coq_transp_file(titems)))
    # generated update()/update_params() text of every compiled corpus form -> the generator's obligation
    from translate import c08_update_text
    upd_tables, upd_cases = [], []
    seen_src = set()
    for case, res in zip(cases, results):
        if not case.get('want_source'):
            continue
        srctext = res['info'].get('gen_src')
        if srctext is None:
            ctx.broken.append('generated source of %s not available: %s' % (case['name'], res['status'].get('gen_src')))
            continue
        if (case['name'], hashlib.sha1(srctext.encode()).hexdigest()) in seen_src:
            continue
        seen_src.add((case['name'], hashlib.sha1(srctext.encode()).hexdigest()))
        try:
            t = c08_update_text.tables_from_source(srctext)
        except ValueError as e:
            ctx.broken.append('generated code of %s not understood by translate/c08_update_text.py: %s' % (case['name'], e))
            continue
        want = list(case.get('updatable') or [])
        have = [t['inputs'][n] for n, _ in t['upd']]
        if sorted(want) != sorted(have):
            ctx.broken.append('update() of %s takes %s, declared updatable %s' % (case['name'], have, want))
            ctx.report('tie:update-signature:%s' % case['name'],
                       'generated update() of %r accepts %s but %s were declared updatable' % (case['expr'], have, want),
                       {'case': strip_case(case)}, found_input=True)
        upd_tables.append(t)
        upd_cases.append(case)
        ctx.count(('updtext', case['name'], len(t['arrs']), len(t['parrs'])), nontrivial=bool(t['upd'] or t['pupd']))
    upd_file_idx = None
    if upd_tables:
        upd_file_idx = len(files)
        files.append(('C08_update_text', coq_update_file(upd_tables)))
    for b, r in titems:
        ctx.count(('transp', b), nontrivial=True)
    outs = ctx.coq_eval_many(files, timeout=1500)
    log('[C08] %d Coq case files evaluated at %.1fs' % (len(files), time.time() - t0))
    ndis = 0
    for idx, (name, ok, out) in enumerate(outs):
        ctx.obligations += 1
        badidx = parse_coq_list_of_nat(out) if ok else None
        if not ok or badidx is None:
            ctx.broken.append('case file %s did not evaluate: %s' % (name, out[-500:]))
            continue
        ctx.discharged += 1
        for b in badidx:
            ndis += 1
            if idx < nfile_cases:
                case, labels = meta[idx]
                lab = labels[b]
                ctx.broken.append('correspondence C08 model<->impl differs: %s of %s' % (lab, case['id']))
                kind = lab if not lab.startswith('A-') else 'matrix-' + lab.split('-')[1]
                ctx.report('tie:%s:%s' % (kind, case['name']),
                           'the model predicts %s of case %s exactly from the entries over the full pattern; the implementation returned something else' % (lab, case['id']),
                           {'case': strip_case(case), 'output': lab, 'coq_file': 'coq/gen/%s.v' % name},
                           found_input=True)
            elif idx == upd_file_idx:
                case = upd_cases[b // 2]
                which = 'update()' if b % 2 == 0 else 'update_params()'
                t = upd_tables[b // 2]
                ctx.broken.append('generated %s of %s does not refresh exactly the arrays fed by each updatable input' % (which, case['name']))
                hit = any(v[0] == 'impl:update-vs-fresh:%s' % case['name'] for v in ctx.violations)
                ctx.report('tie:update-text:%s' % case['name'],
                           'generated %s for %r: arrays filled in __init__ %s, blocks per argument %s, temp sources %s, constants %s / %s '
                           '(obligation update_okb of coq/C08/Update.v is false)' % (
                               which, case['expr'], t['arrs'], t['upd'], t['temp_srcs'], t['parrs'], t['pupd']),
                           {'case': strip_case(case), 'tables': t, 'update_sequence_failed_on_impl': hit}, found_input=hit)
            elif name.startswith('C08_chunks'):
                n, k, chunks = chunk_groups[idx - nfile_cases][b]
                ctx.broken.append('correspondence C08 chunk_tasks model<->impl differs on (%d,%d)' % (n, k))
                ctx.report('tie:chunk_tasks', 'chunk_tasks(range(%d), %d): implementation %s, model differs' % (n, k, chunks),
                           {'n': n, 'k': k, 'impl': chunks}, found_input=True)
            else:
                bpat, r = titems[b]
                ctx.broken.append('correspondence C08 transpose_idx model<->impl differs')
                ctx.report('tie:transpose_idx', 'get_transpose_idx_for_bidx(%s): implementation %s, model differs' % (bpat, r),
                           {'bidx': bpat, 'impl': r}, found_input=True)
    ctx.cov['disagreements_checked'] = ndis
    ctx.cov['coq_case_files'] = len(files)
    ctx.cov['model_predictions_compared_exactly'] = sum(len(m[1]) for m in meta) + len(citems) + len(titems)
    ctx.cov['rule'] = ('one evaluation = one output array (matrix in one configuration, entry/block subset, core array, update step) '
                       'of one (form, knot vectors, geometry); distinct by (form, kvs, geo), chunk_tasks input, transpose pattern')
    dist = {}
    for c in cases:
        dist[c['name']] = dist.get(c['name'], 0) + 1
    ctx.cov['input_distribution'] = {'forms': dist, 'configs_per_case': 'symmetric x {csr,csc,coo,bsr,mlb} x {blocked,packed}',
                                     'degrees': '1..3', 'spans': '1..5', 'multiplicity': '1..p',
                                     'subsets': 'random pairs incl. out-of-pattern, repeated, unsorted; full diagonal',
                                     'chunk_tasks': 'all (n<14, k<18) + random n<=400,k<=40'}
    ctx.cov['exhaustive'] = False
    for case, res in list(zip(cases, results))[:2]:
        ctx.sample({'case': strip_case(case), 'status': res['status'], 'digests': dict(list(res['dig'].items())[:4])})
    return ctx.finish()


META = {
    'technique': 'Rocq proofs (induction over task lists/interleavings/nested kernel loops, list algebra, Z arithmetic, abstract slot store) about a Gallina '
                 'transcription of the assembly drivers + exact correspondence of every predicted matrix/array with the implementation + obligation on the '
                 'generated update() text + bitwise cross-thread-count comparison',
    'level_text': 'Theorems (Coq, unbounded): chunk_tasks partitions every task list for every k>=1 and commutes with elementwise maps (chunks_partition, '
                  'chunks_matching_slices); every interleaving of tasks with disjoint footprints gives the same memory (schedule_independent), instantiated for the '
                  'thread pool of multi_entries/multi_blocks on arbitrary index lists and any thread count (pool_schedule_independent, pool_write_sets_disjoint, '
                  'subset_consistent_serial) and for the prange over mu0 of the generic vector core incl. mirrored writes, any number of inner levels '
                  '(prange_schedule_independent); lower triangle + mirrored strictly-lower part equals the full assembly for scalar entries and for BSR blocks with '
                  'transposed mirror blocks (symmetric_equals_full) and for the generic core kernel with its skip rule and mirrored transposed component blocks, any '
                  'number of levels (symmetric_equals_full_core); the packed<->blocked index map is the stated permutation and a bijection, square and non-square '
                  'component blocks (packed_blocked_permutation, layout_permutation_bijective); COO->CSR and COO->CSC denote the same entries, sum_duplicates keeps '
                  'every column sum and is canonical (format_irrelevant_partial, sum_duplicates_same, sum_duplicates_canonical), BSR denotes the sum of its blocks and '
                  'block gathering keeps the entries (bsr_denotes_blocks, bsr_gather_same), the packed MLB coordinates are C15 nonzero() in data order '
                  '(mlb_is_nonzero_order); a memoised function is transparent for every call history iff the key determines the result '
                  '(memo_sound_iff_key_determines, refuted for the key (p, numdofs, mesh) in Examples2); on an abstract slot store, update(n) '
                  'equals fresh construction for single updates and whole histories iff-style under the generator obligation "every array fed by an updatable input '
                  'is refreshed, nothing else" (update_equals_fresh, update_history_equals_fresh, reuse_idempotent, update_checked_equals_fresh, '
                  'update_incomplete_stale). Tie: on every run the model predicts, exactly, every assembled matrix (symmetric flag x format x layout), the generic core '
                  'arrays, chunk_tasks and the transpose index arrays from the entries over the full pattern of shipped and compiled assemblers (dims 1..3, scalar, 2x2, '
                  '3x3, 2x3 blocks); the generated __init__/update()/update_params() text of every compiled corpus form is translated (fail-closed) into the tables of '
                  'Update.v and the obligation update_okb is evaluated in Coq; all outputs are compared bitwise across thread counts in fresh processes; the property '
                  '(incl. update sequences vs fresh construction, on-demand bbox) is evaluated on the implementation against a harness-side dense oracle within a '
                  'stated rounding bound.',
    'level_note': 'Partial: the real OpenMP/GIL scheduling and memory model, scipy.sparse conversions (modelled for COO/CSR/CSC, BSR and the MLB->COO step only tied), '
                  'the C compiler are exercised by the run, not proved. Trusted: Coq kernel + vm_compute, the hand transcription (validated by the exact tie), '
                  'translate/c08_update_text.py (reader of the generated text), harness generators/oracle.',
}
