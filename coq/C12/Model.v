(* C12 -- executable model of pyiga/solvers.py:335-939 (time integrators).
   Definitions only; proofs are in Proofs.v.

   Part 1  order conditions of a coefficient tableau, over Q   (tables: solvers.py:557-669, 709-912)
   Part 2  dirk_step / rosenbrock_step over a commutative ring  (solvers.py:366-435, 684-707)
   Part 3  newton                                              (solvers.py:335-361)
   Part 4  _constant_step_method / _adaptive_step_method over Q (solvers.py:437-534)            *)
From Coq Require Import QArith Qabs Qround List Bool Arith ZArith.
Import ListNotations.

Fixpoint zipwith {A B C : Type} (f : A -> B -> C) (a : list A) (b : list B) : list C :=
  match a, b with
  | x :: a', y :: b' => f x y :: zipwith f a' b'
  | _, _ => []
  end.

(* ------------------------------------------------------------------ *)
(* Part 1: order conditions                                            *)
(* ------------------------------------------------------------------ *)
Open Scope Q_scope.

Definition sumq (l : list Q) : Q := fold_right Qplus 0 l.
Definition dotq (a b : list Q) : Q := Qred (sumq (zipwith Qmult a b)).
Definition mvq (A : list (list Q)) (v : list Q) : list Q := map (fun r => dotq r v) A.
Definition hadq (a b : list Q) : list Q := zipwith Qmult a b.
Definition madd (A B : list (list Q)) : list (list Q) := zipwith (zipwith Qplus) A B.
Definition mabs (A : list (list Q)) : list (list Q) := map (map Qabs) A.

(* Left-hand side of the k-th order condition (k = 0..7, rooted trees with at most four
   vertices).  [Aa] carries the coefficients used at vertices with several sons (alpha),
   [Bb] those used at vertices with exactly one son (beta = alpha + gamma for Rosenbrock-
   Wanner methods, Hairer-Wanner IV.7; beta = alpha = A for Runge-Kutta methods). *)
Definition cond_lhs (k : nat) (Aa Bb : list (list Q)) (b : list Q) : Q :=
  let one := map (fun _ => 1) b in
  let al := mvq Aa one in
  let be := mvq Bb one in
  match k with
  | 0%nat => dotq b one                         (* sum b_i                     = 1    *)
  | 1%nat => dotq b be                          (* sum b_i beta_i              = 1/2  *)
  | 2%nat => dotq b (hadq al al)                (* sum b_i alpha_i^2           = 1/3  *)
  | 3%nat => dotq b (mvq Bb be)                 (* sum b_i beta_ij beta_j      = 1/6  *)
  | 4%nat => dotq b (hadq al (hadq al al))      (* sum b_i alpha_i^3           = 1/4  *)
  | 5%nat => dotq b (hadq al (mvq Aa be))       (* sum b_i alpha_i alpha_ij beta_j = 1/8 *)
  | 6%nat => dotq b (mvq Bb (hadq al al))       (* sum b_i beta_ij alpha_j^2   = 1/12 *)
  | _ => dotq b (mvq Bb (mvq Bb be))            (* sum b_i beta_ij beta_jk beta_k = 1/24 *)
  end.

Definition cond_rhs (k : nat) : Q := nth k [1; 1#2; 1#3; 1#6; 1#4; 1#8; 1#12; 1#24] 0.
Definition cond_order (k : nat) : nat := nth k [1; 2; 3; 3; 4; 4; 4; 4]%nat 0%nat.
Definition conds_upto (p : nat) : list nat :=
  filter (fun k => Nat.leb (cond_order k) p) (seq 0 8).

(* |lhs - rhs| <= tol * (sum of the absolute values of all terms + rhs) *)
Definition cond_ok (tol : Q) (Aa Bb : list (list Q)) (b : list Q) (k : nat) : bool :=
  Qle_bool (Qabs (cond_lhs k Aa Bb b - cond_rhs k))
           (tol * (cond_lhs k (mabs Aa) (mabs Bb) (map Qabs b) + cond_rhs k)).

Definition failing (tol : Q) (Aa Bb : list (list Q)) (b : list Q) (p : nat) : list nat :=
  filter (fun k => negb (cond_ok tol Aa Bb b k)) (conds_upto p).

Definition well_shaped (s : nat) (Aa Bb : list (list Q)) (b : list Q) : bool :=
  Nat.eqb (length b) s && Nat.eqb (length Aa) s && Nat.eqb (length Bb) s &&
  forallb (fun r => Nat.eqb (length r) s) Aa && forallb (fun r => Nat.eqb (length r) s) Bb.

Definition qzero (x : Q) : bool := Qeq_bool x 0.
Fixpoint lower_from (i : nat) (A : list (list Q)) (strict : bool) : bool :=
  match A with
  | [] => true
  | r :: A' => forallb qzero (skipn (if strict then i else S i) r) && lower_from (S i) A' strict
  end.
Definition lower_triangular A := lower_from 0 A false.   (* the stage loop reads A[i,j], j <= i only *)
Definition strictly_lower A := lower_from 0 A true.      (* rosenbrock_step reads A[i,j], j < i only *)
Fixpoint diag_from (i : nat) (A : list (list Q)) : list Q :=
  match A with [] => [] | r :: A' => nth i r 0 :: diag_from (S i) A' end.
(* rosenbrock_step: "gamma = Gamma[0,0]  # assume all entries on the diagonal are the same" *)
Definition const_diag (G : list (list Q)) : bool :=
  match diag_from 0 G with [] => true | g :: l => forallb (Qeq_bool g) l end.

Close Scope Q_scope.

(* ------------------------------------------------------------------ *)
(* Part 2: one step, over a commutative ring R                          *)
(* ------------------------------------------------------------------ *)
(* R is the coordinate ring K^n (componentwise operations) with the scalars tau, a_ij
   embedded as constant vectors: every vector operation of the code (addition, subtraction, scalar multiple) is a
   ring operation of R.  M, F, the Jacobian product and all linear/nonlinear solves are
   arbitrary functions R -> R (black boxes with a stated contract in Proofs.v). *)
Section Step.
  Variable R : Type.
  Variables (rO rI : R) (radd rmul rsub : R -> R -> R) (ropp : R -> R).
  Variable isz : R -> bool.            (* the test `a_ii == 0` *)

  (* sum(c[j] * v[j] for j in range(len v))  -- Python's sum starts from 0 and adds left
     to right; in exact arithmetic the association is immaterial, fold_right is used. *)
  Definition lin (c v : list R) : R := fold_right radd rO (zipwith rmul c v).

  Variable M : R -> R.                 (* v |-> M @ v   (M = eye if None, solvers.py:372) *)
  Variable F : R -> R.                 (* right-hand side *)
  Variable Minv : R -> R.              (* make_solver(M, spd=True), solvers.py:415-421 *)
  (* newton(newton_F, newton_J, x_start, atol=1e-4, freeze_jac=2) for the stage system
     M z - c F(z) - rhs = 0 with c = tau*a_ii; returns (y_i, last_Fz)  (solvers.py:399-411) *)
  Variable solve : R -> R -> R -> R * R.
  Variables (x tau : R) (Fx : option R).

  (* the function handed to Newton in a stage (solvers.py:400-403) *)
  Definition newton_F (c rhs z : R) : R := rsub (rsub (M z) (rmul c (F z))) rhs.

  (* stage loop, solvers.py:381-411.  State: stage index i, ys, Fy, and (ghost) the
     Newton residual newton_F(y_i) of every stage.  None = AssertionError (`assert i == 0`). *)
  Fixpoint dirk_stages (i : nat) (rows : list (list R)) (ys Fy rs : list R)
    : option (list R * list R * list R) :=
    match rows with
    | [] => Some (ys, Fy, rs)
    | row :: rest =>
      let a_ii := nth i row rO in
      if isz a_ii then
        match i with
        | O => dirk_stages (S i) rest (ys ++ [x])
                 (Fy ++ [match Fx with Some f => f | None => F x end]) (rs ++ [rO])
        | S _ => None
        end
      else
        let rhs := radd (M x) (rmul tau (lin row Fy)) in      (* row is cut to len Fy = i *)
        let x_start := match i with O => x | S _ => last ys x end in
        let '(y, Fz) := solve (rmul tau a_ii) rhs x_start in
        dirk_stages (S i) rest (ys ++ [y]) (Fy ++ [Fz])
                    (rs ++ [rsub (rsub (M y) (rmul (rmul tau a_ii) Fz)) rhs])
    end.

  (* solvers.py:366-435.  [is_sa] is the outcome of np.allclose(b, A[s-1]). *)
  Definition dirk_step (A : list (list R)) (b : list R) (bhat : option (list R)) (is_sa : bool)
    : option (R * option R * option R * (list R * list R * list R)) :=
    match dirk_stages 0 A [] [] [] with
    | None => None
    | Some (ys, Fy, rs) =>
      let x_new := if is_sa then last ys x
                   else Minv (radd (M x) (rmul tau (lin b Fy))) in
      let F_x_new := if is_sa then Some (last Fy rO) else None in
      let x_est := match bhat with
                   | Some bh => Some (Minv (radd (M x) (rmul tau (lin bh Fy))))
                   | None => None end in
      Some (x_new, x_est, F_x_new, (ys, Fy, rs))
    end.

  (* rosenbrock_step, solvers.py:684-707 *)
  Variable Jx : R -> R.                (* v |-> jac.dot(v), jac = J(x) *)
  Variable Cinv : R -> R.              (* make_solver(M - tau*gamma*jac) *)

  Fixpoint ros_stages (rowsA rowsG : list (list R)) (ks : list R) : list R :=
    match rowsA, rowsG with
    | ra :: resta, rg :: restg =>
      let y_i := radd x (rmul tau (lin ra ks)) in
      let rhs := match ks with
                 | [] => F y_i                                     (* i = 0 *)
                 | _ :: _ => radd (F y_i) (rmul tau (Jx (lin rg ks)))
                 end in
      ros_stages resta restg (ks ++ [Cinv rhs])
    | _, _ => ks
    end.

  Definition ros_step (A G : list (list R)) (b : list R) (bhat : option (list R))
    : R * option R * list R :=
    let ks := ros_stages A G [] in
    (radd x (rmul tau (lin b ks)),
     match bhat with Some bh => Some (radd x (rmul tau (lin bh ks))) | None => None end,
     ks).
End Step.

(* ------------------------------------------------------------------ *)
(* Part 3: newton, solvers.py:335-361                                   *)
(* ------------------------------------------------------------------ *)
Section Newton.
  Variable V : Type.
  Variable Fn : V -> V.                (* residual function *)
  Variable Jsolve : V -> V -> V.       (* Jsolve p r = make_solver(J(p)).dot(r) *)
  Variable vsub : V -> V -> V.
  Variable norm : V -> Q.              (* np.linalg.norm *)
  Variables (atol rtol : Q) (freeze : nat).

  Definition qmax (a b : Q) : Q := if Qle_bool a b then b else a.
  Definition qmin (a b : Q) : Q := if Qle_bool a b then a else b.
  Definition qlt (a b : Q) : bool := negb (Qle_bool b a).

  Definition newton_target (x0 : V) : Q := qmax atol (rtol * norm (Fn x0))%Q.

  (* for num_it in range(maxiter): ...   state: x, res = Fn x, point of the frozen Jacobian.
     Returns Some (x, res) on convergence, None = raise NoConvergenceError. *)
  Fixpoint newton_loop (fuel num_it : nat) (target : Q) (x res jp : V) : option (V * V) :=
    match fuel with
    | O => None
    | S fuel' =>
      if qlt (norm res) target then Some (x, res)
      else
        let jp' := if Nat.eqb (Nat.modulo num_it freeze) 0 then x else jp in
        let x' := vsub x (Jsolve jp' res) in
        newton_loop fuel' (S num_it) target x' (Fn x') jp'
    end.

  Definition newton (maxiter : nat) (x0 : V) : option (V * V) :=
    newton_loop maxiter 0 (newton_target x0) x0 (Fn x0) x0.

  (* the iterates visited, for stating what "otherwise raises" means *)
  Fixpoint newton_iterates (fuel num_it : nat) (x jp : V) : list V :=
    match fuel with
    | O => []
    | S fuel' =>
      let jp' := if Nat.eqb (Nat.modulo num_it freeze) 0 then x else jp in
      x :: newton_iterates fuel' (S num_it) (vsub x (Jsolve jp' (Fn x))) jp'
    end.
End Newton.

(* ------------------------------------------------------------------ *)
(* Part 4: drivers, over Q                                              *)
(* ------------------------------------------------------------------ *)
Open Scope Q_scope.

(* _constant_step_method, solvers.py:455-472.  [quot] is the value of (t_end - t0) / tau;
   [fails k] = the stepper raised NoConvergenceError in iteration k (partial results). *)
Definition const_num_iter (quot : Q) : nat := Z.to_nat (Qceiling quot).

Fixpoint const_times_from (t0 tau : Q) (i n : nat) (fails : nat -> bool) : list Q :=
  match n with
  | O => []
  | S n' => if fails i then [] else (t0 + (inject_Z (Z.of_nat (S i))) * tau) :: const_times_from t0 tau (S i) n' fails
  end.

Definition const_times (t0 tau quot : Q) (fails : nat -> bool) : list Q :=
  t0 :: const_times_from t0 tau 0 (const_num_iter quot) fails.

(* _adaptive_step_method, solvers.py:498-533.  One loop iteration consumes one event:
   the stepper either raised NoConvergenceError, or produced an error ratio r together
   with the value praw of step_factor * r**(-1/err_order) (a real power, not modelled). *)
Inductive event := NewtonFail | Stepped (r praw : Q).

Definition clip_fac (praw : Q) : Q := qmin 5 (qmax (1#5) praw).

Record astate := { a_t : Q; a_tau : Q; a_times : list Q (* reversed *); a_log : list (Q * Q) (* accepted (tau, r), reversed *) }.

Definition astep (st : astate) (e : event) : astate :=
  match e with
  | NewtonFail => {| a_t := a_t st; a_tau := a_tau st * (1#2); a_times := a_times st; a_log := a_log st |}
  | Stepped r praw =>
    let r := if Qeq_bool r 0 then (1 # 1000000000000000) else r in      (* if r == 0: r = 1e-15 *)
    if Qle_bool r 1 then
      {| a_t := a_t st + a_tau st; a_tau := a_tau st * clip_fac praw;
         a_times := (a_t st + a_tau st) :: a_times st; a_log := (a_tau st, r) :: a_log st |}
    else
      {| a_t := a_t st; a_tau := a_tau st * clip_fac praw; a_times := a_times st; a_log := a_log st |}
  end.

(* while t < t_end: consume events; None = the event list ran out before t >= t_end *)
Fixpoint adaptive_loop (t_end : Q) (st : astate) (evs : list event) : option astate :=
  if Qle_bool t_end (a_t st) then Some st
  else match evs with
       | [] => None
       | e :: evs' => adaptive_loop t_end (astep st e) evs'
       end.

Definition adaptive_init (t0 tau0 : Q) : astate :=
  {| a_t := t0; a_tau := tau0; a_times := [t0]; a_log := [] |}.

Definition adaptive_times (t0 tau0 t_end : Q) (evs : list event) : option (list Q) :=
  match adaptive_loop t_end (adaptive_init t0 tau0) evs with
  | Some st => Some (rev (a_times st))
  | None => None
  end.

(* all step sizes handed to the stepper, in order (for the factor-bound statement) *)
Fixpoint adaptive_taus (t_end : Q) (st : astate) (evs : list event) : list Q :=
  if Qle_bool t_end (a_t st) then []
  else match evs with
       | [] => []
       | e :: evs' => a_tau st :: adaptive_taus t_end (astep st e) evs'
       end.
Close Scope Q_scope.
