(* C08 -- BSR: a block-sparse matrix with blocks of shape (b0, b1) denotes, at scalar
   coordinate (I*b0 + r, J*b1 + c), the (r,c) entry of the sum of its blocks stored at block
   coordinate (I,J) -- i.e. the COO list of its block entries (Model.expand_blocks, used for the
   packed/bsr path of assemble_entries_vec) and the block list denote the same matrix. *)
From Coq Require Import ZArith List Bool Arith Lia.
From Verif.C08 Require Import Model Proofs.
Import ListNotations.
Local Open Scope Z_scope.

Section Bsr.
  Variable V : Type.
  Variable vzero : V.
  Variable vadd : V -> V -> V.
  Variable d : V.
  Variable b0 b1 : nat.

  Notation den := (den vzero vadd).

  (* entry (r,c) of the sum of the blocks stored at block coordinate q *)
  Definition bden (BT : list ((Z * Z) * list V)) (q : Z * Z) (r c : nat) : V :=
    fold_right (fun t acc => if pair_eqb (fst t) q then vadd (nth (r * b1 + c)%nat (snd t) d) acc else acc) vzero BT.

  Definition cols (R Jb : Z) (r : nat) (blk : list V) (s n : nat) : list ((Z * Z) * V) :=
    map (fun c => ((R, Jb * Z.of_nat b1 + Z.of_nat c), nth (r * b1 + c)%nat blk d)) (seq s n).
  Definition rows (Ib Jb : Z) (blk : list V) (s n : nat) : list ((Z * Z) * V) :=
    flat_map (fun r => cols (Ib * Z.of_nat b0 + Z.of_nat r) Jb r blk 0 b1) (seq s n).

  Lemma expand_cons : forall t T,
    expand_blocks d b0 b1 (t :: T) = rows (fst (fst t)) (snd (fst t)) (snd t) 0 b0 ++ expand_blocks d b0 b1 T.
  Proof. reflexivity. Qed.

  Lemma cols_hit : forall R Jb r blk n s c rest,
    (s <= c < s + n)%nat ->
    den (cols R Jb r blk s n ++ rest) (R, Jb * Z.of_nat b1 + Z.of_nat c)
      = vadd (nth (r * b1 + c)%nat blk d) (den rest (R, Jb * Z.of_nat b1 + Z.of_nat c)).
  Proof.
    induction n as [|n IH]; intros s c rest Hc; [lia|].
    unfold cols. simpl. fold (cols R Jb r blk (S s) n).
    destruct (Nat.eq_dec c s) as [->|Hne].
    - rewrite (proj2 (pair_eqb_spec _ _) eq_refl). f_equal.
      apply (den_app_notin_l V vzero vadd). intros t Ht. unfold cols in Ht. apply in_map_iff in Ht.
      destruct Ht as [c' [<- Hc']]. apply in_seq in Hc'. simpl. intro E. injection E as E. lia.
    - rewrite pair_eqb_neq by (intro E; injection E as E; lia).
      apply IH. lia.
  Qed.

  Lemma cols_miss : forall R Jb r blk n s rest q,
    (R <> fst q \/ forall c, (s <= c < s + n)%nat -> Jb * Z.of_nat b1 + Z.of_nat c <> snd q) ->
    den (cols R Jb r blk s n ++ rest) q = den rest q.
  Proof.
    intros R Jb r blk n s rest q H. apply (den_app_notin_l V vzero vadd). intros t Ht.
    unfold cols in Ht. apply in_map_iff in Ht. destruct Ht as [c' [<- Hc']]. apply in_seq in Hc'. simpl.
    intro E. destruct q as [qi qj]. injection E as E1 E2. simpl in H. destruct H as [H|H]; [contradiction|].
    apply (H c'); [lia | exact E2].
  Qed.

  Lemma rows_miss : forall Ib Jb blk n s rest q,
    (forall r c, (s <= r < s + n)%nat -> (c < b1)%nat ->
       (Ib * Z.of_nat b0 + Z.of_nat r, Jb * Z.of_nat b1 + Z.of_nat c) <> q) ->
    den (rows Ib Jb blk s n ++ rest) q = den rest q.
  Proof.
    intros Ib Jb blk n s rest q H. apply (den_app_notin_l V vzero vadd). intros t Ht.
    unfold rows in Ht. apply in_flat_map in Ht. destruct Ht as [r [Hr Ht]]. apply in_seq in Hr.
    unfold cols in Ht. apply in_map_iff in Ht. destruct Ht as [c [<- Hc]]. apply in_seq in Hc. simpl.
    apply H; lia.
  Qed.

  Lemma rows_hit : forall Ib Jb blk n s r c rest,
    (s <= r < s + n)%nat -> (c < b1)%nat ->
    den (rows Ib Jb blk s n ++ rest) (Ib * Z.of_nat b0 + Z.of_nat r, Jb * Z.of_nat b1 + Z.of_nat c)
      = vadd (nth (r * b1 + c)%nat blk d) (den rest (Ib * Z.of_nat b0 + Z.of_nat r, Jb * Z.of_nat b1 + Z.of_nat c)).
  Proof.
    induction n as [|n IH]; intros s r c rest Hr Hc; [lia|].
    unfold rows. simpl. fold (rows Ib Jb blk (S s) n). rewrite <- app_assoc.
    destruct (Nat.eq_dec r s) as [->|Hne].
    - rewrite cols_hit by lia. f_equal.
      apply rows_miss. intros r' c' Hr' Hc' E. injection E as E1 E2. lia.
    - rewrite cols_miss by (left; simpl; lia). apply IH; lia.
  Qed.

  (* a block stored at another block coordinate contributes nothing *)
  Lemma block_miss : forall Ib Jb blk I J r c rest,
    (r < b0)%nat -> (c < b1)%nat -> (Ib, Jb) <> (I, J) ->
    den (rows Ib Jb blk 0 b0 ++ rest) (I * Z.of_nat b0 + Z.of_nat r, J * Z.of_nat b1 + Z.of_nat c)
      = den rest (I * Z.of_nat b0 + Z.of_nat r, J * Z.of_nat b1 + Z.of_nat c).
  Proof.
    intros Ib Jb blk I J r c rest Hr Hc Hne. apply rows_miss. intros r' c' Hr' Hc' E.
    injection E as E1 E2. apply Hne.
    assert (Ib = I) by nia. assert (Jb = J) by nia. congruence.
  Qed.

  Theorem bsr_denotes_blocks_l : forall BT I J r c,
    (r < b0)%nat -> (c < b1)%nat ->
    den (expand_blocks d b0 b1 BT) (I * Z.of_nat b0 + Z.of_nat r, J * Z.of_nat b1 + Z.of_nat c)
      = bden BT (I, J) r c.
  Proof.
    induction BT as [|[[Ib Jb] blk] BT IH]; intros I J r c Hr Hc; [reflexivity|].
    rewrite expand_cons. simpl fst; simpl snd. simpl bden.
    destruct (pair_eqb (Ib, Jb) (I, J)) eqn:E.
    - apply pair_eqb_spec in E. injection E as -> ->.
      rewrite rows_hit by lia. rewrite IH by assumption. reflexivity.
    - rewrite block_miss; [apply IH; assumption | exact Hr | exact Hc |].
      intro E'. rewrite E' in E. rewrite (proj2 (pair_eqb_spec _ _) eq_refl) in E. discriminate.
  Qed.

  (* gathering a scalar matrix into blocks (tobsr): block (I,J) holds the b0 x b1 window *)
  Definition gather (T : list ((Z * Z) * V)) (keys : list (Z * Z)) : list ((Z * Z) * list V) :=
    map (fun k => (k, flat_map (fun r => map (fun c =>
           den T (fst k * Z.of_nat b0 + Z.of_nat r, snd k * Z.of_nat b1 + Z.of_nat c)) (seq 0 b1)) (seq 0 b0))) keys.

  Lemma nth_window : forall (g : nat -> nat -> V) r c, (r < b0)%nat -> (c < b1)%nat ->
    nth (r * b1 + c)%nat (flat_map (fun r' => map (fun c' => g r' c') (seq 0 b1)) (seq 0 b0)) d = g r c.
  Proof.
    intros g r c Hr Hc.
    assert (G : forall n s r0, (s <= r0 < s + n)%nat ->
              nth ((r0 - s) * b1 + c)%nat (flat_map (fun r' => map (fun c' => g r' c') (seq 0 b1)) (seq s n)) d = g r0 c).
    { induction n as [|n IH]; intros s r0 H; [lia|]. simpl.
      destruct (Nat.eq_dec r0 s) as [->|Hne].
      - rewrite Nat.sub_diag. simpl. rewrite app_nth1 by (rewrite map_length, seq_length; exact Hc).
        rewrite (nth_indep _ d (g s 0%nat)) by (rewrite map_length, seq_length; exact Hc).
        rewrite (map_nth (fun c' => g s c') (seq 0 b1) 0%nat c). rewrite seq_nth by exact Hc. reflexivity.
      - rewrite app_nth2 by (rewrite map_length, seq_length; nia).
        rewrite map_length, seq_length.
        replace ((r0 - s) * b1 + c - b1)%nat with ((r0 - S s) * b1 + c)%nat by nia.
        apply IH. lia. }
    specialize (G b0 0%nat r ltac:(lia)). rewrite Nat.sub_0_r in G. exact G.
  Qed.

  Hypothesis vadd_0_r : forall a, vadd a vzero = a.

  Lemma bden_notin : forall (G : Z * Z -> list V) keys q r c, ~ In q keys ->
    bden (map (fun k => (k, G k)) keys) q r c = vzero.
  Proof.
    induction keys as [|k keys IH]; intros q r c H; [reflexivity|]. simpl.
    rewrite pair_eqb_neq by (intro E; apply H; left; exact E).
    apply IH. intro H'. apply H. right; exact H'.
  Qed.

  Theorem gather_same_l : forall T keys I J r c,
    NoDup keys -> In (I, J) keys -> (r < b0)%nat -> (c < b1)%nat ->
    den (expand_blocks d b0 b1 (gather T keys)) (I * Z.of_nat b0 + Z.of_nat r, J * Z.of_nat b1 + Z.of_nat c)
      = den T (I * Z.of_nat b0 + Z.of_nat r, J * Z.of_nat b1 + Z.of_nat c).
  Proof.
    intros T keys I J r c Hnd Hin Hr Hc. rewrite bsr_denotes_blocks_l by assumption.
    unfold gather. induction keys as [|k keys IH]; [destruct Hin|].
    inversion Hnd as [|? ? Hnin Hnd']; subst. simpl.
    destruct (pair_eqb k (I, J)) eqn:E.
    - apply pair_eqb_spec in E. subst k. simpl fst; simpl snd.
      rewrite (nth_window (fun r' c' => den T (I * Z.of_nat b0 + Z.of_nat r', J * Z.of_nat b1 + Z.of_nat c')) r c Hr Hc).
      rewrite bden_notin by exact Hnin. apply vadd_0_r.
    - destruct Hin as [->|Hin]; [rewrite (proj2 (pair_eqb_spec _ _) eq_refl) in E; discriminate|].
      apply IH; assumption.
  Qed.
End Bsr.
