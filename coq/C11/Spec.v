(* C11 -- the mathematical reference: finite sums, matrix-vector products,
   energy, textbook Gauss-Seidel update over the ordered field Qc (canonical
   rationals, Leibniz equality). *)
From Coq Require Import QArith Qcanon List Arith Bool.
Import ListNotations.
Open Scope Qc_scope.

(* sum_{k<n} f k *)
Fixpoint sumn (n : nat) (f : nat -> Qc) : Qc :=
  match n with O => 0 | S k => sumn k f + f k end.

(* vectors are functions nat -> Qc restricted to indices < n; matrices nat -> nat -> Qc *)
Definition mv (n : nat) (A : nat -> nat -> Qc) (v : nat -> Qc) (i : nat) : Qc :=
  sumn n (fun j => A i j * v j).
Definition dotn (n : nat) (u v : nat -> Qc) : Qc := sumn n (fun k => u k * v k).

Definition symmetric (n : nat) (A : nat -> nat -> Qc) : Prop :=
  forall i j, (i < n)%nat -> (j < n)%nat -> A i j = A j i.
(* positive semi-definite quadratic form *)
Definition psd (n : nat) (A : nat -> nat -> Qc) : Prop :=
  forall v, 0 <= dotn n v (mv n A v).

(* energy (semi-)norm squared of the error x - xs *)
Definition energy (n : nat) (A : nat -> nat -> Qc) (xs x : nat -> Qc) : Qc :=
  let e := fun k => x k - xs k in dotn n e (mv n A e).

(* the quadratic functional J(x) = x^T A x - 2 x^T f (equals energy + const when A xs = f) *)
Definition Jfun (n : nat) (A : nat -> nat -> Qc) (f x : nat -> Qc) : Qc :=
  dotn n x (mv n A x) - (1+1) * dotn n x f.

(* function update *)
Definition fupd (x : nat -> Qc) (i : nat) (v : Qc) : nat -> Qc :=
  fun k => if Nat.eqb k i then v else x k.

(* sum_{j<n, j<>i} f j *)
Definition sum_skip (n i : nat) (f : nat -> Qc) : Qc :=
  sumn n (fun j => if Nat.eqb j i then 0 else f j).

(* the textbook Gauss-Seidel update of unknown i:
     x_i := (b_i - sum_{j<>i} a_ij x_j) / a_ii *)
Definition tb_value (n : nat) (A : nat -> nat -> Qc) (b x : nat -> Qc) (i : nat) : Qc :=
  (b i - sum_skip n i (fun j => A i j * x j)) / A i i.
Definition tb_update (n : nat) (A : nat -> nat -> Qc) (b x : nat -> Qc) (i : nat) : nat -> Qc :=
  fupd x i (tb_value n A b x i).

(* residual of row i *)
Definition resid (n : nat) (A : nat -> nat -> Qc) (b x : nat -> Qc) (i : nat) : Qc :=
  b i - mv n A x i.
