(* C10 -- compute_dirichlet_bc WITH its values (assemble.py:446-462) and _drop_nans (387-393):
   the model of Model.dirichlet_indices extended by the arrangement of the interpolation
   coefficients.  dircoeffs is abstracted as a function: coef k j = coefficient of the k-th dof of
   the face (C order of the face = order of bdindices) and component j; None stands for nan.
   Definitions only. *)
From Coq Require Import List Arith Bool ZArith.
From Verif.lib Require Import Slice.
From Verif.C10 Require Import Model.
Import ListNotations.
Local Open Scope nat_scope.

Section BC.
Variable X : Type.

(* extra_dims == 0:  return _drop_nans(bdindices, dircoeffs.ravel()) *)
Definition dirichlet_bc_scalar (shape : list nat) (b : bdspec) (coef : nat -> option X)
  : option (list nat * list X) :=
  match boundary_slice shape b [] with
  | None => None
  | Some bd => Some (drop_nans X bd (map coef (seq 0 (length bd))))
  end.

(* the generator (bdindices + j*NN, dircoeffs[..., j].ravel()) for j in range(numcomp) *)
Definition vec_parts (NN : nat) (bd : list nat) (nc : nat) (coef : nat -> nat -> option X)
  : list (list nat * list (option X)) :=
  map (fun j => (map (fun i => i + j * NN) bd, map (fun k => coef k j) (seq 0 (length bd)))) (seq 0 nc).

(* extra_dims == 1:  idx, val = combine_bcs(...);  return _drop_nans(idx, val) *)
Definition dirichlet_bc_vector (shape : list nat) (b : bdspec) (nc : nat) (coef : nat -> nat -> option X)
  : option (list nat * list X) :=
  match boundary_slice shape b [] with
  | None => None
  | Some bd =>
      let r := combine_bcs (option X) None (vec_parts (prod_list shape) bd nc coef) in
      Some (drop_nans X (fst r) (snd r))
  end.

End BC.

(* compute_initial_condition_01 WITH its values (assemble.py:543-551):
   bdindices = concatenate(slice(firstidx), slice(firstidx+1)), values = coll_coeffs.ravel() with
   coll_coeffs of shape (2, nface): coef k s = coefficient of boundary slice k (0 or 1) and face dof s *)
Definition initial_condition (X : Type) (shape : list nat) (b : bdspec) (coef : nat -> nat -> X)
  : option (list nat * list X) :=
  match parse_bdspec b (length shape) with
  | Some (ax, side) =>
      let first := (if Nat.eqb side 0 then 0 else -2)%Z in
      match slice_indices_z ax first shape [], slice_indices_z ax (first + 1) shape [] with
      | Some a, Some c =>
          Some (a ++ c, map (coef 0) (seq 0 (length a)) ++ map (coef 1) (seq 0 (length a)))
      | _, _ => None
      end
  | None => None
  end.
