(* C03 -- property theorems only.  Each is closed by [exact] of a lemma of Proofs.v and followed by
   Print Assumptions.

   Vocabulary (coq/C03/Model.v on top of coq/C04/Model.v):
     st                       a hierarchical space (C04 state: meshes, per-level sets, disparity)
     neighbors st b k i       neighbors[k][i] of HDiscretization.assemble_matrix, b = the bdspecs argument
     blk_entry .. symm li fi lj fj
                              entry (row = function fi of level li, column = function fj of level lj) of the
                              HB matrix as the three blocks of the level loop compute it, in terms of
                                a k r c        the level-k tensor-product matrix (ARBITRARY: a Section variable),
                                rep l k f r    coefficient of the level-k function r in the level-l function f,
                                nb / il / ta   neighbors[k][l], interlevel_ix[k], to_assemble[k] (arbitrary lists)
     spec_entry .. li fi lj fj  sum_{r,c over ALL functions of level k = max(li,lj)} rep li k fi r * a k r c * rep lj k fj c,
                              i.e. the form applied to the two hierarchical basis functions with the quadrature
                              of the finer of their two levels
   The scalars are an arbitrary commutative ring (R, r0, r1, radd, rmul, rsub, ropp with ring_theory). *)
From Coq Require Import List Arith Bool NArith Ring.
From Verif.lib Require Import FinSet.
From Verif.C04 Require Import Model Proofs ProofsFun ProofsMesh.
From Verif.C03 Require Import Model Proofs Proofs2 Proofs3 Proofs4 Proofs5 Proofs6 Proofs7 Proofs8 Proofs9 Proofs10 Proofs11.
Import ListNotations.

(* neighbours are complete: for every space st (no reachability needed), every level pair i < k (REPAIRED code:
   no disparity window, fixes/C03-assembly-disparity-window.patch), an active function f of level i that does not vanish on the level-i ancestor of a cell in
   the support of an active level-k function g is listed in neighbors[k][i].  mesh_ok is the C04 duality of
   the tables suppfunc / meshsupp of level i (C04: compared with the implementation on every run). *)
Theorem neighbors_complete : forall st b k i f g c,
  i < k ->
  mesh_ok (msh st i) ->
  In f (AFm st i) -> In f (tp_functions (msh st i)) ->
  In g (AFm st k) ->
  In c (support1 (msh st k) g) ->
  length (anc (k - i) c) = dim (msh st i) ->
  In (anc (k - i) c) (support1 (msh st i) f) ->
  In f (neighbors st b k i).
Proof. exact neighbors_complete_l. Qed.
Print Assumptions neighbors_complete.

(* The Dirichlet specification has no influence on the assembled matrix: neighbors (the only place where
   cell_supp_indices enters the assembly) is the same for every bdspecs, None included. *)
Theorem bdspecs_irrelevant : forall st b1 b2 k i, neighbors st b1 k i = neighbors st b2 k i.
Proof. exact neighbors_bds. Qed.
Print Assumptions bdspecs_irrelevant.

(* HSpace(kvs) without bdspecs: REPAIRED behaviour (fixes/C03-default-bdspecs.patch) = that of bdspecs=[] ... *)
Theorem default_space_assembles : dirichlet_new None = dirichlet_new (Some []) /\ dirichlet_new None = Ok [].
Proof. split; reflexivity. Qed.
Print Assumptions default_space_assembles.
(* ... whereas the loop `for bdspec in self.bdspecs` of the unpatched source fails on the default value. *)
Theorem default_space_assembles_old_refuted : exists b, dirichlet_old b = TypeError.
Proof. exists None. reflexivity. Qed.
Print Assumptions default_space_assembles_old_refuted.

(* symmetric assembly of a symmetric form returns the same entries as general assembly (every pair of
   assembled functions, every level pair, arbitrary neighbour / interlevel sets with il <= ta). *)
Theorem symmetric_equals_general : forall (R : Type) (r0 r1 : R) radd rmul rsub ropp,
  ring_theory r0 r1 radd rmul rsub ropp eq ->
  forall a rep nb il ta,
  (forall k r c, a k r c = a k c r) ->
  (forall k r, In r (il k) -> In r (ta k)) ->
  forall li fi lj fj, In fi (ta li) -> In fj (ta lj) ->
  blk_entry R r0 radd rmul a rep nb il ta true li fi lj fj = blk_entry R r0 radd rmul a rep nb il ta false li fi lj fj.
Proof. exact symmetric_equals_general_l. Qed.
Print Assumptions symmetric_equals_general.

(* Entry characterisation (general assembly), same level: the entry is a_k(f_j, f_i) itself. *)
Theorem hassemble_entry_diag : forall (R : Type) (r0 r1 : R) radd rmul rsub ropp,
  ring_theory r0 r1 radd rmul rsub ropp eq ->
  forall a rep nb il ta fns,
  (forall k, NoDup (fns k)) ->
  (forall k f r, rep k k f r = if mi_eqb r f then r1 else r0) ->
  forall k fi fj, In fi (fns k) -> In fj (fns k) -> In fi (ta k) ->
  blk_entry R r0 radd rmul a rep nb il ta false k fi k fj = spec_entry R r0 radd rmul a rep fns k fi k fj.
Proof. exact hassemble_entry_diag. Qed.
Print Assumptions hassemble_entry_diag.

(* Entry characterisation, coarse row / fine column (block A_hb_interlevel).  PARTIAL: the two facts about
   the sets are hypotheses here --
     (1) the level-lj representation of a neighbour vanishes outside interlevel_ix[lj];
     (2) a coarse function outside neighbors[lj][li] has no non-zero term rep * a with fj
   -- for an arbitrary form a. *)
Theorem hassemble_entry_lower_partial : forall (R : Type) (r0 r1 : R) radd rmul rsub ropp,
  ring_theory r0 r1 radd rmul rsub ropp eq ->
  forall a rep nb il ta fns,
  (forall k, NoDup (fns k)) -> (forall k, NoDup (il k)) ->
  (forall k r, In r (il k) -> In r (fns k)) -> (forall k r, In r (il k) -> In r (ta k)) ->
  (forall k f r, rep k k f r = if mi_eqb r f then r1 else r0) ->
  forall li fi lj fj,
  li < lj -> In fj (fns lj) -> In fj (ta lj) ->
  (In fi (nb lj li) -> forall r, In r (fns lj) -> ~ In r (il lj) -> rep li lj fi r = r0) ->
  (~ In fi (nb lj li) -> forall r, In r (fns lj) -> rmul (rep li lj fi r) (a lj r fj) = r0) ->
  blk_entry R r0 radd rmul a rep nb il ta false li fi lj fj = spec_entry R r0 radd rmul a rep fns li fi lj fj.
Proof. exact hassemble_entry_lower. Qed.
Print Assumptions hassemble_entry_lower_partial.

(* ... and fine row / coarse column (block A_hb_interlevel2 of general assembly). *)
Theorem hassemble_entry_upper_partial : forall (R : Type) (r0 r1 : R) radd rmul rsub ropp,
  ring_theory r0 r1 radd rmul rsub ropp eq ->
  forall a rep nb il ta fns,
  (forall k, NoDup (fns k)) -> (forall k, NoDup (il k)) ->
  (forall k r, In r (il k) -> In r (fns k)) -> (forall k r, In r (il k) -> In r (ta k)) ->
  (forall k f r, rep k k f r = if mi_eqb r f then r1 else r0) ->
  forall li fi lj fj,
  lj < li -> In fi (fns li) -> In fi (ta li) ->
  (In fj (nb li lj) -> forall c, In c (fns li) -> ~ In c (il li) -> rep lj li fj c = r0) ->
  (~ In fj (nb li lj) -> forall c, In c (fns li) -> rmul (a li fi c) (rep lj li fj c) = r0) ->
  blk_entry R r0 radd rmul a rep nb il ta false li fi lj fj = spec_entry R r0 radd rmul a rep fns li fi lj fj.
Proof. exact hassemble_entry_upper. Qed.
Print Assumptions hassemble_entry_upper_partial.

(* Galerkin projection.  form k x y = x^T A_k y; prol k = multiplication with the tensor-product prolongator
   P_k; nested j : A_j = P_j^T A_{j+1} P_j (the two quadratures integrate the integrand exactly -- the case of
   piecewise polynomial integrands of degree <= 2p+1 per direction).  If the forms of the levels
   k = max(li,lj), .., K-1 are nested and the representations of the two functions are prolongated level by
   level, the entry "form on the finer of the two levels" equals the finest-level form of the finest-level
   representations, i.e. entry (i,j) of I^T A_fine I.  No hypothesis on the data beyond that. *)
Theorem hassemble_galerkin : forall (R : Type) (r0 r1 : R) radd rmul rsub ropp,
  ring_theory r0 r1 radd rmul rsub ropp eq ->
  forall fns a P rep li fi lj fj n,
  let k := Nat.max li lj in
  (forall j, k <= j < n + k -> nested R r0 radd rmul fns a P j) ->
  (forall j r, k <= j < n + k -> rep li (S j) fi r = prol R r0 radd rmul fns P j (rep li j fi) r) ->
  (forall j r, k <= j < n + k -> rep lj (S j) fj r = prol R r0 radd rmul fns P j (rep lj j fj) r) ->
  spec_entry R r0 radd rmul a rep fns li fi lj fj
  = form R r0 radd rmul fns a (n + k) (rep li (n + k) fi) (rep lj (n + k) fj).
Proof. exact hassemble_galerkin_l. Qed.
Print Assumptions hassemble_galerkin.

(* THB: assemble_matrix returns T^T A_hb T (by definition of the code, Model.assemble_matrix).  If the entries
   of A_hb are a bilinear form of the columns RH of a representation matrix, then the entries of T^T A_hb T
   are the same form of the columns of RH * T -- the functions whose HB coefficients are the columns of the
   THB-to-HB matrix. *)
Theorem thb_congruence : forall (R : Type) (r0 r1 : R) radd rmul rsub ropp,
  ring_theory r0 r1 radd rmul rsub ropp eq ->
  forall fns a (I : Type) (idx : list I) (T : I -> I -> R) (RH : I -> mi -> R) (M : I -> I -> R) K,
  (forall i j, M i j = form R r0 radd rmul fns a K (RH i) (RH j)) ->
  forall i j,
  sumf R r0 radd (fun i' => sumf R r0 radd (fun j' => rmul (rmul (T i' i) (M i' j')) (T j' j)) idx) idx
  = form R r0 radd rmul fns a K (fun r => sumf R r0 radd (fun i' => rmul (T i' i) (RH i' r)) idx)
                                (fun c => sumf R r0 radd (fun j' => rmul (T j' j) (RH j' c)) idx).
Proof. exact thb_congruence_l. Qed.
Print Assumptions thb_congruence.

(* Entry characterisation for the CONCRETE index sets of the model, general assembly, every pair of active
   functions of every pair of levels:  nb = neighbors[k][l] (nbr st), il = interlevel_ix[k] (function_grandchildren
   through the CSC pattern of the prolongators pmat), ta = to_assemble[k], and rep = repc = products of the Kronecker
   prolongators (kron_entry).  Proved from:
     local a      the level forms are local: functions of level k with disjoint supports do not interact;
     P_local      children lie inside the parent's support (a stored entry (r', r) of the Kronecker prolongator implies
                  parent(c) in supp r for every cell c of supp r');
     mesh_ok      C04's duality of suppfunc/meshsupp on every level of st, equal dimensions, active functions are
                  functions of their mesh (C04 invariants of reachable states), interlevel_ix inside the index box of its
                  level (the prolongators have the shape of the meshes).
   The two hypotheses of hassemble_entry_lower/upper_partial are DISCHARGED here: representations of neighbours vanish
   outside interlevel_ix (support-pattern lemma repn_pattern for products of Kronecker matrices, no geometry needed), and
   non-neighbours contribute no non-zero term (grand_support + neighbors_complete + locality). *)
Theorem hassemble_entry_partial : forall (R : Type) (r0 r1 : R) radd rmul rsub ropp,
  ring_theory r0 r1 radd rmul rsub ropp eq ->
  forall (st : hspace) (pmat : nat -> nat -> smat R) (a : nat -> mi -> mi -> R),
  local R r0 st a ->
  P_local R st pmat ->
  (forall k, k < numlevels st -> mesh_ok (msh st k)) ->
  (forall k k', k < numlevels st -> k' < numlevels st -> dim (msh st k) = dim (msh st k')) ->
  (forall k f, In f (AFm st k) -> In f (tp_functions (msh st k))) ->
  (forall k r, In r (interlevel R st pmat k) -> In r (tp_functions (msh st k))) ->
  forall li fi lj fj,
  li < numlevels st -> lj < numlevels st -> In fi (AFm st li) -> In fj (AFm st lj) ->
  blk_entry R r0 radd rmul a (repc R r0 r1 radd rmul st pmat) (nbr st) (interlevel R st pmat) (to_assemble R st pmat)
            false li fi lj fj
  = spec_entry R r0 radd rmul a (repc R r0 r1 radd rmul st pmat) (fun k => tp_functions (msh st k)) li fi lj fj.
Proof. exact hassemble_entry_concrete. Qed.
Print Assumptions hassemble_entry_partial.
(* NOT PROVED: hassemble_entry = the same for st := run (hs_init axes disp) ops (valid history) and pmat := the exact Boehm
   prolongators WITHOUT data hypotheses.  State (theorems further below): mesh_ok / dims / AF in F are discharged from C04
   (hassemble_entry_reachable_partial); P_local and the shape fact are discharged from C04's children_inside_parent_support
   under pattern_ok (hassemble_entry_pattern_partial, interlevel_in_index_box).  Missing: pattern_ok for the C05 knot-insertion
   matrices (C05 works over knot functions nat -> Qc, no link to C04's integer pattern is_child_1d).
   Also NOT PROVED: hassemble_program_entry -- that the sparse-matrix program assemble_hb evaluates blk_entry.  Proved kernels:
   coo_merge_sums_duplicates, insert_block_entries, fancy_index_rows, fancy_index_columns, sm_mul_entry, sm_transpose_entry,
   kron2_entry, multi_kron_entry (kronP has the entries kron_entry), hstack_entry, and the algebraic fact behind the order of the
   products in the loop of represent_fine (representation_associative).  Missing: (a) the loop rf_loop itself -- it needs "the sum
   over the stored entries of a sorted sparse row = the sum over all multi-indices of the level of the entry" (ravel is a bijection
   of the index box onto range(N_k)) and sortedness of the Kronecker rows; (b) the chaining through level_blocks with the
   canonical-index arithmetic (disjointness of the blocks, offsets of new / neighbors).  The program is compared exactly with
   blk_entry on sampled entries of every history of the correspondence run and on all entries of
   Examples.ex_sparse_program_is_entry_form (tests). *)

(* Load vector (assemble_functional, HB): entry number offset_k + p is the entry of the level-k tensor-product load vector
   at the raveled index of the p-th active function of level k -- every hierarchical basis function is integrated with the
   quadrature of ITS OWN level (by design; this is what C17's finding about hierarchical load vectors observes), for every
   space and arbitrary level vectors.  The THB vector is thb_to_hb^T times this one by definition (Model.assemble_functional). *)
Theorem functional_entry : forall (R : Type) (r0 : R) (st : hspace) (blev : nat -> list R) k p,
  k < L st -> p < length (AFm st k) ->
  nth (N.to_nat (offset st k) + p) (rhs_hb R r0 st blev) r0
  = nth (N.to_nat (ravel (shape st k) (nth p (AFm st k) []))) (blev k) r0.
Proof. exact functional_entry_l. Qed.
Print Assumptions functional_entry.


(* The disparity window of the UNPATCHED assembly (neighbors_old: only levels k - disparity .. k-1) is not
   sufficient on every reachable space: after a refine(..., truncate=True) call (the marking variant meant for
   THB-admissible meshes) with disparity 1, an active level-1 function meets the support of an active level-3
   function -- it is a neighbour, the old window does not list it, and the HB interaction (and with it the
   THB matrix T^T A_hb T) is lost.  Replayed on the implementation: signature impl:lost-entry:*. *)
Theorem window_sufficient_old_refuted : exists axes d ops k i f,
  let st := run (hs_init axes (Some d)) ops in
  In f (neighbors st None k i) /\ ~ In f (neighbors_old st None k i) /\ admissible_b st d = false.
Proof. exact window_old_witness. Qed.
Print Assumptions window_sufficient_old_refuted.

(* The COO stage of the sparse-matrix program.  The conversion of the blockwise COO data to CSR (Model.coo_to_rows =
   scipy.sparse.csr_matrix((values, (I, J)))) returns at (i, j) the SUM of the values of all triplets at (i, j) -- for
   every COO list (any order, any duplicates, rows outside the shape ignored) and every row i below the shape. *)
Theorem coo_merge_sums_duplicates : forall (R : Type) (r0 r1 : R) radd rmul rsub ropp,
  ring_theory r0 r1 radd rmul rsub ropp eq ->
  forall n (m : coo R) i j, N.to_nat i < n ->
  sm_get R r0 (coo_to_rows R r1 radd rmul n m) i j = coo_get R r0 radd m i j.
Proof. exact coo_merge_l. Qed.
Print Assumptions coo_merge_sums_duplicates.

(* insert_block(B, rows, columns) emits exactly the stored entries of B (explicitly stored zeros included: REPAIRED
   behaviour, fixes/C03-insert-block-stored-zeros.patch), entry (ib, jb) at (rows[ib], columns[jb]). *)
Theorem insert_block_entries : forall (R : Type) (B : smat R) rows cols i j v,
  In (i, j, v) (insert_block R B rows cols) <->
  exists ib e, ib < length B /\ In e (nth ib B []) /\ i = nth ib rows 0%N /\ j = nth (N.to_nat (fst e)) cols 0%N /\ v = snd e.
Proof. exact insert_block_In. Qed.
Print Assumptions insert_block_entries.

(* Fancy indexing (M[idx] and M[:, idx] with the columns renumbered by position), for every sparse matrix and every index
   list (any order, repetitions allowed -- numpy semantics): position p of the result is row / column idx[p] of M. *)
Theorem fancy_index_rows : forall (R : Type) (r0 : R) (M : smat R) (idx : list N) p j, p < length idx ->
  sm_get R r0 (sm_rows R M idx) (N.of_nat p) j = sm_get R r0 M (nth p idx 0%N) j.
Proof. exact sm_rows_get. Qed.
Print Assumptions fancy_index_rows.

Theorem fancy_index_columns : forall (R : Type) (r0 : R) (M : smat R) (idx : list N) i p, p < length idx ->
  sm_get R r0 (sm_cols R M idx) i (N.of_nat p) = sm_get R r0 M i (nth p idx 0%N).
Proof. exact sm_cols_get. Qed.
Print Assumptions fancy_index_columns.

(* The entry characterisation for every REACHABLE space: st = run (hs_init axes disp) ops for valid axes (C04 axis_ok),
   disparity >= 1 or infinite and any history of valid refinement calls.  The C04 invariants that hassemble_entry_partial
   assumes (mesh_ok of every level = C04 tables_consistent, equal dimensions, active functions are functions of their mesh =
   C04 activity_characterisation) are DISCHARGED.  Remaining named hypotheses: locality of the level forms, P_local (children
   inside the parent's support) and the shape condition on the prolongator data (interlevel_ix inside the index box). *)
Theorem hassemble_entry_reachable_partial : forall (R : Type) (r0 r1 : R) radd rmul rsub ropp,
  ring_theory r0 r1 radd rmul rsub ropp eq ->
  forall axes disp ops,
  Forall axis_ok axes -> (forall d, disp = Some d -> 1 <= d) -> ops_valid (hs_init axes disp) ops ->
  let st := run (hs_init axes disp) ops in
  forall (pmat : nat -> nat -> smat R) (a : nat -> mi -> mi -> R),
  local R r0 st a ->
  P_local R st pmat ->
  (forall k r, In r (interlevel R st pmat k) -> In r (tp_functions (msh st k))) ->
  forall li fi lj fj,
  li < numlevels st -> lj < numlevels st -> In fi (AFm st li) -> In fj (AFm st lj) ->
  blk_entry R r0 radd rmul a (repc R r0 r1 radd rmul st pmat) (nbr st) (interlevel R st pmat) (to_assemble R st pmat)
            false li fi lj fj
  = spec_entry R r0 radd rmul a (repc R r0 r1 radd rmul st pmat) (fun k => tp_functions (msh st k)) li fi lj fj.
Proof. exact hassemble_entry_reachable_l. Qed.
Print Assumptions hassemble_entry_reachable_partial.

(* Sparse kernels of the program, entry semantics (any commutative ring).
   sm_mul_entry: entry (i, j) of A @ B is the sum over the stored entries (m, a) of row i of A of a * B[m, j]; A arbitrary
   (unsorted rows, duplicates allowed), the rows of B with strictly increasing columns (sv_sorted: what every kernel of the
   model produces).  Proved through axpy_spec: y + c*x for sorted sparse vectors (values, sortedness, keys). *)
Theorem sm_mul_entry : forall (R : Type) (r0 r1 : R) radd rmul rsub ropp,
  ring_theory r0 r1 radd rmul rsub ropp eq ->
  forall (A B : smat R) i j, rows_sorted R B ->
  sm_get R r0 (sm_mul R radd rmul A B) i j
  = sumf R r0 radd (fun e => rmul (snd e) (sm_get R r0 B (fst e) j)) (sm_row R A i).
Proof. exact sm_mul_entry_l. Qed.
Print Assumptions sm_mul_entry.

(* sm_transpose_entry: entry (j, i) of M.T is entry (i, j) of M, for EVERY sparse matrix M (no sortedness needed) and every
   column j below the number of columns given to the transpose. *)
Theorem sm_transpose_entry : forall (R : Type) (r0 r1 : R) radd rmul rsub ropp,
  ring_theory r0 r1 radd rmul rsub ropp eq ->
  forall ncols (M : smat R) i j, N.to_nat j < ncols ->
  sm_get R r0 (sm_transpose R ncols M) j i = sm_get R r0 M i j.
Proof. exact sm_transpose_entry_l. Qed.
Print Assumptions sm_transpose_entry.

(* P_local and the prolongator-shape hypothesis DISCHARGED from C04 (children_inside_parent_support, coq/C04/Children.v).
   pattern_ok R axes disp ops pmat : the stored sparsity pattern of the 1-D prolongator of level lv, axis d lies inside the
   children pattern is_child_1d that C04/Children.v models for that axis (phi(j) <= i <= phi(j+p+1)-(p+1); C04's run compares
   that pattern exactly with HMesh.function_children of the implementation).  For every reachable space, every prolongator
   data with that pattern and every local family of level forms a: the blocks of the assembly equal the form applied to the
   two hierarchical basis functions represented on the finer of their two levels -- all pairs of active functions. *)
Theorem hassemble_entry_pattern_partial : forall (R : Type) (r0 r1 : R) radd rmul rsub ropp,
  ring_theory r0 r1 radd rmul rsub ropp eq ->
  forall axes disp ops,
  Forall axis_ok axes -> (forall d, disp = Some d -> 1 <= d) -> ops_valid (hs_init axes disp) ops ->
  forall (pmat : nat -> nat -> smat R),
  pattern_ok R axes disp ops pmat ->
  forall (a : nat -> mi -> mi -> R),
  local R r0 (run (hs_init axes disp) ops) a ->
  forall li fi lj fj,
  li < numlevels (run (hs_init axes disp) ops) -> lj < numlevels (run (hs_init axes disp) ops) ->
  In fi (AFm (run (hs_init axes disp) ops) li) -> In fj (AFm (run (hs_init axes disp) ops) lj) ->
  blk_entry R r0 radd rmul a (repc R r0 r1 radd rmul (run (hs_init axes disp) ops) pmat) (nbr (run (hs_init axes disp) ops))
            (interlevel R (run (hs_init axes disp) ops) pmat) (to_assemble R (run (hs_init axes disp) ops) pmat) false li fi lj fj
  = spec_entry R r0 radd rmul a (repc R r0 r1 radd rmul (run (hs_init axes disp) ops) pmat)
               (fun k => tp_functions (msh (run (hs_init axes disp) ops) k)) li fi lj fj.
Proof. exact hassemble_entry_pattern_l. Qed.
Print Assumptions hassemble_entry_pattern_partial.
(* NOT PROVED: pattern_ok for the exact Boehm prolongators of C05 (their non-zero pattern is C04's is_child_1d pattern:
   C05 speaks about knot functions nat -> Qc, C04 about integer tables; both are tied to the implementation separately). *)

(* the prolongator-shape fact: on reachable spaces interlevel_ix[k] (function_grandchildren through the stored pattern) lies
   in the index box of level k *)
Theorem interlevel_in_index_box : forall (R : Type) axes disp ops,
  Forall axis_ok axes -> (forall d, disp = Some d -> 1 <= d) -> ops_valid (hs_init axes disp) ops ->
  forall (pmat : nat -> nat -> smat R), pattern_ok R axes disp ops pmat ->
  forall k r, k < numlevels (run (hs_init axes disp) ops) ->
  In r (interlevel R (run (hs_init axes disp) ops) pmat k) -> In r (tp_functions (msh (run (hs_init axes disp) ops) k)).
Proof. exact interlevel_in_box. Qed.
Print Assumptions interlevel_in_index_box.

(* kron2_entry: scipy.sparse.kron(A, B) -- entry (i1 * nB + i2, j1 * mB + j2) of the sparse Kronecker product is
   A[i1, j1] * B[i2, j2], for all sparse matrices (no sortedness needed) whose B-columns lie below mB. *)
Theorem kron2_entry : forall (R : Type) (r0 r1 : R) radd rmul rsub ropp,
  ring_theory r0 r1 radd rmul rsub ropp eq ->
  forall (A B : smat R) mB i1 i2 j1 j2,
  i1 < length A -> i2 < length B -> (j2 < mB)%N ->
  (forall rb x, In rb B -> In x (keys R rb) -> (x < mB)%N) ->
  sm_get R r0 (kron2 R rmul A B mB) (N.of_nat (i1 * length B + i2)) (j1 * mB + j2)%N
  = rmul (sm_get R r0 A (N.of_nat i1) j1) (sm_get R r0 B (N.of_nat i2) j2).
Proof. exact kron2_entry_l. Qed.
Print Assumptions kron2_entry.

(* multi_kron_entry: the matrix kronP of represent_fine (utils.multi_kron_sparse of the 1-D prolongators of one level, any
   number of axes) has at (ravel r', ravel r) the product kron_entry of the 1-D entries -- the quantity the representation repc
   of hassemble_entry_*_partial is built from.  rowdims = the row counts of the 1-D matrices, cols_ok = their stored columns
   lie below the coarse dimensions; r, r' any multi-indices inside the two index boxes. *)
Theorem multi_kron_entry : forall (R : Type) (r0 r1 : R) radd rmul rsub ropp,
  ring_theory r0 r1 radd rmul rsub ropp eq ->
  forall (pmat : nat -> nat -> smat R) lv dims d r r',
  cols_ok R pmat lv d dims ->
  Forall2 (fun n x => x < n) dims r ->
  Forall2 (fun n x => x < n) (rowdims R pmat lv d (length dims)) r' ->
  sm_get R r0 (multi_kron R r1 rmul pmat lv d dims) (ravel (rowdims R pmat lv d (length dims)) r') (ravel dims r)
  = kron_entry R r0 r1 rmul pmat lv d r' r.
Proof. exact multi_kron_entry_l. Qed.
Print Assumptions multi_kron_entry.

(* hstack_entry: scipy.sparse.bmat([blocks]) as used by represent_fine -- column (offset of block nb) + c of the stacked
   matrix is column c of block nb, in every row below the row count, provided the stored columns of every block lie below the
   width declared for it. *)
Theorem hstack_entry : forall (R : Type) (r0 : R) nrows (blocks : list (smat R * nat)) i nb c,
  i < nrows -> nb < length blocks -> (c < N.of_nat (snd (nth nb blocks ([], 0%nat))))%N ->
  (forall b k, In b blocks -> In k (keys R (nth i (fst b) [])) -> (k < N.of_nat (snd b))%N) ->
  sm_get R r0 (hstack R nrows blocks) (N.of_nat i) (offs R blocks nb + c)%N
  = sm_get R r0 (fst (nth nb blocks ([], 0%nat))) (N.of_nat i) c.
Proof. exact hstack_entry_l. Qed.
Print Assumptions hstack_entry.

(* representation_associative: the coefficients repn (S n) l f r of the level-(l+n+1) function r in the level-l function f
   (defined by prolongating at the fine end, as hassemble_entry_*_partial uses them) equal the sum over the level-(l+1)
   functions g of  repn n (l+1) g r * K_l[g, f]  -- the coarsest Kronecker prolongator split off, which is the order in which the
   loop of represent_fine multiplies (P := P.dot(Pj), j decreasing).  Any prolongator data, any space, any number of levels. *)
Theorem representation_associative : forall (R : Type) (r0 r1 : R) radd rmul rsub ropp,
  ring_theory r0 r1 radd rmul rsub ropp eq ->
  forall (st : hspace) (pmat : nat -> nat -> smat R) n l f r,
  In f (tp_functions (msh st l)) -> In r (tp_functions (msh st (l + S n))) ->
  repn R r0 r1 radd rmul st pmat (S n) l f r
  = sumf R r0 radd (fun g => rmul (repn R r0 r1 radd rmul st pmat n (S l) g r) (kron_entry R r0 r1 rmul pmat l 0 g f))
         (tp_functions (msh st (S l))).
Proof. exact repn_bottom_l. Qed.
Print Assumptions representation_associative.
