(* C13 -- (1) every difference the property lists separates the cache keys, stated on the
   model of Expr.hash / VForm.hash / compile_vform's key for differences at ANY depth of the
   form (kernel expressions and let-bound variables);
   (2) the two cache levels composed (compile.py:58-73 inside compile.py:118-132): for every
   request sequence the class returned is the one loaded from the module compiled from the
   source generated for the requested form.
   Definitions and lemmas; the property theorems are restated in Props.v. *)
From Coq Require Import String.
From Coq Require Import List ZArith Bool Lia.
From Verif.C13 Require Import Model Proofs.
Import ListNotations.
Open Scope Z_scope.

(* ------------------------------------------------------------------ *)
(* a difference in one token somewhere in an expression tree *)

Inductive differs (T : table) : node -> node -> Prop :=
| d_class : forall c c' sh sh' a a' ch ch', c <> c' ->
    differs T (Node c sh a ch) (Node c' sh' a' ch')                 (* e.g. dx / ds, vector / matrix literal *)
| d_shape : forall c c' sh sh' a a' ch ch', sh <> sh' ->
    differs T (Node c sh a ch) (Node c' sh' a' ch')
| d_attr : forall c sh sh' a a' ch ch' n t,
    In (n, t) (seml (tlookup T c)) -> lookup n a <> lookup n a' ->   (* operator, function name, constant, D, I, axis, ... *)
    differs T (Node c sh a ch) (Node c sh' a' ch')
| d_nchildren : forall c c' sh sh' a a' ch ch', length ch <> length ch' ->
    differs T (Node c sh a ch) (Node c' sh' a' ch')
| d_child : forall c c' sh sh' a a' pre pre' x y post post',
    length pre = length pre' -> differs T x y ->
    differs T (Node c sh a (pre ++ x :: post)) (Node c' sh' a' (pre' ++ y :: post')).

Lemma pos_differ {A B} (f : A -> B) pre pre' x y post post' :
  length pre = length pre' -> map f (pre ++ x :: post) = map f (pre' ++ y :: post') -> f x = f y.
Proof.
  intros L H. rewrite !map_app in H. simpl in H.
  apply app_eq_length in H as [_ H]; [|rewrite !map_length; exact L].
  injection H as H _. exact H.
Qed.

Lemma differs_strip T a b : differs T a b -> strip T a <> strip T b.
Proof.
  induction 1; simpl; intros E; injection E; intros.
  - congruence.
  - congruence.
  - match goal with HI : In _ _, HE : sem_attrs _ _ = sem_attrs _ _ |- _ =>
      unfold sem_attrs in HE; pose proof (map_eq_in _ _ _ _ HE HI) as HH; simpl in HH end.
    congruence.
  - match goal with HE : map (strip T) _ = map (strip T) _ |- _ =>
      apply (f_equal (@length node)) in HE; rewrite !map_length in HE end.
    congruence.
  - match goal with HE : map (strip T) _ = map (strip T) _, HL : length _ = length _ |- _ =>
      pose proof (pos_differ _ _ _ _ _ _ _ HL HE) end.
    auto.
Qed.

Lemma token_difference_separates_l T : covers T = true ->
  forall a b, well_typed T a = true -> well_typed T b = true -> differs T a b -> key T a <> key T b.
Proof.
  intros CV a b Wa Wb D E. apply (differs_strip T a b D). apply key_separates_l; auto.
Qed.

(* ------------------------------------------------------------------ *)
(* differences of forms *)

Lemma form_difference_separates_l T : covers T = true ->
  forall f g, wf_form T f = true -> wf_form T g = true ->
  strip_form T f <> strip_form T g -> form_key T f <> form_key T g.
Proof. intros CV f g Wf Wg N E. apply N. apply form_key_separates_l; auto. Qed.

Section FormDiffs.
  Variable T : table.
  Hypothesis CV : covers T = true.
  Variables f g : form.
  Hypothesis Wf : wf_form T f = true.
  Hypothesis Wg : wf_form T g = true.

  Let sep := form_difference_separates_l T CV f g Wf Wg.

  Ltac proj F := apply sep; intros E; apply (f_equal F) in E; simpl in E.

  (* space dimension, arity, number of vector components, spacetime and boundary flags *)
  Lemma dim_separates_l : f_dim f <> f_dim g -> form_key T f <> form_key T g.
  Proof. intros N. proj f_dim. auto. Qed.
  Lemma arity_separates_l : f_arity f <> f_arity g -> form_key T f <> form_key T g.
  Proof. intros N. proj f_arity. auto. Qed.
  Lemma components_separates_l : f_vec f <> f_vec g -> form_key T f <> form_key T g.
  Proof. intros N. proj f_vec. auto. Qed.
  Lemma spacetime_separates_l : f_spacetime f <> f_spacetime g -> form_key T f <> form_key T g.
  Proof. intros N. proj f_spacetime. auto. Qed.
  Lemma boundary_flag_separates_l : f_boundary f <> f_boundary g -> form_key T f <> form_key T g.
  Proof. intros N. proj f_boundary. auto. Qed.

  (* basis functions: name, number of components, component, SPACE INDEX; also their number (arity) *)
  Lemma basis_functions_separate_l : f_bfs f <> f_bfs g -> form_key T f <> form_key T g.
  Proof. intros N. proj f_bfs. auto. Qed.
  (* inputs: name, SHAPE (incl. the geometry dimension), physical flag, UPDATABLE flag; their number *)
  Lemma inputs_separate_l : f_inputs f <> f_inputs g -> form_key T f <> form_key T g.
  Proof. intros N. proj f_inputs. auto. Qed.

  (* a token difference inside the k-th kernel expression *)
  Lemma expr_token_separates_l pre pre' x y post post' :
    f_exprs f = pre ++ x :: post -> f_exprs g = pre' ++ y :: post' -> length pre = length pre' ->
    differs T x y -> form_key T f <> form_key T g.
  Proof.
    intros Ef Eg L D. proj f_exprs. rewrite Ef, Eg in E.
    apply (differs_strip T x y D). eapply pos_differ; eauto.
  Qed.
  Lemma expr_count_separates_l : length (f_exprs f) <> length (f_exprs g) -> form_key T f <> form_key T g.
  Proof. intros N. proj f_exprs. apply N. apply (f_equal (@length node)) in E. rewrite !map_length in E. exact E. Qed.

  (* the k-th variable: name, shape, symmetric flag, derivative order, kind of source, parameter
     (name, shape), input field, or a token difference inside the expression of a let-bound variable *)
  Lemma var_separates_l pre pre' v w post post' :
    f_vars f = pre ++ v :: post -> f_vars g = pre' ++ w :: post' -> length pre = length pre' ->
    strip_var T v <> strip_var T w -> form_key T f <> form_key T g.
  Proof.
    intros Ef Eg L D. proj f_vars. rewrite Ef, Eg in E. apply D. eapply pos_differ; eauto.
  Qed.
  Lemma var_count_separates_l : length (f_vars f) <> length (f_vars g) -> form_key T f <> form_key T g.
  Proof. intros N. proj f_vars. apply N. apply (f_equal (@length avar)) in E. rewrite !map_length in E. exact E. Qed.
End FormDiffs.

Lemma let_token_differs T v w x y :
  v_src v = SExpr x -> v_src w = SExpr y -> differs T x y -> strip_var T v <> strip_var T w.
Proof.
  intros Ev Ew D E. unfold strip_var in E. injection E as _ E _ _ _. rewrite Ev, Ew in E. simpl in E.
  injection E as E. exact (differs_strip T x y D E).
Qed.

Lemma var_field_differs T v w :
  v_name v <> v_name w \/ v_shape v <> v_shape w \/ v_symmetric v <> v_symmetric w \/ v_deriv v <> v_deriv w ->
  strip_var T v <> strip_var T w.
Proof.
  intros H E. unfold strip_var in E. injection E as E1 E2 E3 E4 E5. tauto.
Qed.

Lemma var_source_differs T v w :
  (forall i, v_src v = SInput i -> v_src w <> SInput i) ->
  (forall p, v_src v = SParam p -> v_src w <> SParam p) ->
  (forall x, v_src v <> SExpr x) ->
  strip_var T v <> strip_var T w.
Proof.
  intros HI HP HE E. unfold strip_var in E. injection E as _ E _ _ _.
  destruct (v_src v) as [x|i|p] eqn:Ev; destruct (v_src w) as [y|j|q] eqn:Ew; simpl in E; try discriminate.
  - exact (HE x eq_refl).
  - injection E as <-. exact (HI i eq_refl eq_refl).
  - injection E as <-. exact (HP p eq_refl eq_refl).
Qed.

(* the listed differences that are fields of the form, in one statement *)
Lemma form_field_difference_separates_l T : covers T = true ->
  forall f g, wf_form T f = true -> wf_form T g = true ->
  f_dim f <> f_dim g \/ f_arity f <> f_arity g \/ f_vec f <> f_vec g \/ f_spacetime f <> f_spacetime g \/
  f_boundary f <> f_boundary g \/ f_bfs f <> f_bfs g \/ f_inputs f <> f_inputs g \/
  length (f_vars f) <> length (f_vars g) \/ length (f_exprs f) <> length (f_exprs g) ->
  form_key T f <> form_key T g.
Proof.
  intros CV f g Wf Wg [H|[H|[H|[H|[H|[H|[H|[H|H]]]]]]]].
  - apply dim_separates_l; auto.
  - apply arity_separates_l; auto.
  - apply components_separates_l; auto.
  - apply spacetime_separates_l; auto.
  - apply boundary_flag_separates_l; auto.
  - apply basis_functions_separate_l; auto.
  - apply inputs_separate_l; auto.
  - apply var_count_separates_l; auto.
  - apply expr_count_separates_l; auto.
Qed.

Lemma let_token_separates_l T : covers T = true ->
  forall f g, wf_form T f = true -> wf_form T g = true ->
  forall pre pre' v w post post' x y,
    f_vars f = pre ++ v :: post -> f_vars g = pre' ++ w :: post' -> length pre = length pre' ->
    v_src v = SExpr x -> v_src w = SExpr y -> differs T x y -> form_key T f <> form_key T g.
Proof.
  intros CV f g Wf Wg pre pre' v w post post' x y Ef Eg L Ev Ew D.
  eapply var_separates_l; eauto. eapply let_token_differs; eauto.
Qed.

Lemma var_field_separates_l T : covers T = true ->
  forall f g, wf_form T f = true -> wf_form T g = true ->
  forall pre pre' v w post post',
    f_vars f = pre ++ v :: post -> f_vars g = pre' ++ w :: post' -> length pre = length pre' ->
    v_name v <> v_name w \/ v_shape v <> v_shape w \/ v_symmetric v <> v_symmetric w \/ v_deriv v <> v_deriv w ->
    form_key T f <> form_key T g.
Proof.
  intros CV f g Wf Wg pre pre' v w post post' Ef Eg L D.
  eapply var_separates_l; eauto. apply var_field_differs; auto.
Qed.

(* the on-demand mode is part of the level-1 key *)
Lemma on_demand_separates_l T f g od : keyof1 T (f, od) <> keyof1 T (g, negb od).
Proof. unfold keyof1; simpl. intros E. injection E as _ E. destruct od; discriminate. Qed.

(* ------------------------------------------------------------------ *)
(* level 2: the module name determines the source (digest idealised as injective on the sources seen) *)

Lemma disk_name_injective_l (digest : string -> string) (seen : string -> Prop) :
  (forall a b, seen a -> seen b -> digest a = digest b -> a = b) ->
  forall a b, seen a -> seen b -> modname digest a = modname digest b -> a = b.
Proof. intros Inj a b Sa Sb E. unfold modname in E. apply append_inj_l in E. auto. Qed.

(* ------------------------------------------------------------------ *)
(* the two levels composed *)

Section TwoLevel.
  Variables (C M : Type).
  Variable T : table.
  Variable gen : bool -> form -> string.     (* compile.generate on the code-relevant content *)
  Variable digest : string -> string.
  Variable compile : string -> M.            (* cythonize + gcc + import of a source text *)
  Variable cls : M -> C.                     (* mod.CustomAssembler *)

  Definition state2 := (memo (hval * bool) C * memo string M)%type.

  (* compile_vform (compile.py:118-132) with compile_cython_module (compile.py:58-73) inlined *)
  Definition request2 (st : state2) (r : form * bool) : state2 * C :=
    let (m1, m2) := st in
    match mlookup _ _ keq1 (keyof1 T r) m1 with
    | Some c => (st, c)
    | None =>
        let src := gen (snd r) (strip_form T (fst r)) in
        let (m2', md) := request _ _ _ String.eqb (modname digest) compile m2 src in
        let c := cls md in
        (((keyof1 T r, c) :: m1, m2'), c)
    end.

  Fixpoint serve2 (st : state2) (rs : list (form * bool)) : state2 * list C :=
    match rs with
    | [] => (st, [])
    | r :: rs' => let (st1, c) := request2 st r in
                  let (st2, cs) := serve2 st1 rs' in (st2, c :: cs)
    end.

  Hypothesis CV : covers T = true.
  Variable seen : string -> Prop.
  Hypothesis digest_inj : forall a b, seen a -> seen b -> digest a = digest b -> a = b.
  Hypothesis gen_seen : forall r, wf_form T (fst r) = true -> seen (gen (snd r) (strip_form T (fst r))).

  Let okr := fun r : form * bool => wf_form T (fst r) = true.
  Let build1 := fun r : form * bool => cls (compile (gen (snd r) (strip_form T (fst r)))).
  Let inv1 := inv (hval * bool) (form * bool) C keq1 (keyof1 T) build1 okr.
  Let inv2 := inv string string M String.eqb (modname digest) compile seen.

  Lemma key_sound_1 : forall a b, okr a -> okr b -> keyof1 T a = keyof1 T b -> build1 a = build1 b.
  Proof.
    intros [f o] [f' o'] Wf Wg E. unfold keyof1, okr in *. cbn [fst snd] in *.
    assert (E1 : form_key T f = form_key T f') by congruence.
    assert (E2 : o = o') by congruence. subst o'.
    unfold build1; cbn [fst snd]. do 3 f_equal. apply form_key_separates_l; auto.
  Qed.

  Lemma key_sound_2 : forall a b, seen a -> seen b -> modname digest a = modname digest b -> compile a = compile b.
  Proof. intros a b Sa Sb E. f_equal. eapply disk_name_injective_l; eauto. Qed.

  Lemma request2_correct st r : okr r -> inv1 (fst st) -> inv2 (snd st) ->
    inv1 (fst (fst (request2 st r))) /\ inv2 (snd (fst (request2 st r))) /\ snd (request2 st r) = build1 r.
  Proof.
    destruct st as [m1 m2]. intros Or I1 I2. simpl in I1, I2. unfold request2.
    destruct (mlookup (hval * bool) C keq1 (keyof1 T r) m1) as [c|] eqn:L; simpl.
    - repeat split; auto.
    - pose proof (request_correct string string M String.eqb (modname digest) compile String.eqb_eq seen key_sound_2
                    m2 (gen (snd r) (strip_form T (fst r))) (gen_seen r Or) I2) as [I2' E2].
      destruct (request string string M String.eqb (modname digest) compile m2 (gen (snd r) (strip_form T (fst r))))
        as [m2' md] eqn:Rq. simpl in *. subst md.
      repeat split; auto.
      apply (inv_cons _ _ _ keq1 (keyof1 T) build1 keq1_spec okr key_sound_1 m1 r); auto.
  Qed.

  Lemma serve2_correct : forall rs st, inv1 (fst st) -> inv2 (snd st) -> Forall okr rs ->
    snd (serve2 st rs) = map build1 rs.
  Proof.
    induction rs as [|r rs IH]; intros st I1 I2 F; simpl; auto.
    inversion F as [|? ? Or F']; subst.
    destruct (request2_correct st r Or I1 I2) as [I1' [I2' E]].
    destruct (request2 st r) as [st1 c]. simpl in *.
    specialize (IH st1 I1' I2' F').
    destruct (serve2 st1 rs) as [st2 cs]. simpl in *. congruence.
  Qed.

  Lemma two_level_returns_requested_l :
    forall (seed : list ((form * bool) * C)) (disk : list (string * M)) (reqs : list (form * bool)),
      (forall r c, In (r, c) seed -> okr r /\ c = build1 r) ->
      (forall s m, In (s, m) disk -> seen s /\ m = compile s) ->
      Forall okr reqs ->
      snd (serve2 (preseed _ _ _ (keyof1 T) seed, preseed _ _ _ (modname digest) disk) reqs) = map build1 reqs.
  Proof.
    intros seed disk reqs HS HD HR. apply serve2_correct; auto; simpl.
    - apply (preseed_inv _ _ _ keq1 (keyof1 T) build1 keq1_spec okr key_sound_1). exact HS.
    - apply (preseed_inv _ _ _ String.eqb (modname digest) compile String.eqb_eq seen key_sound_2). exact HD.
  Qed.
End TwoLevel.
