(* C11 -- lemmas about the model (Gauss-Seidel part). *)
From Coq Require Import QArith Qcanon List Arith Bool ZArith Lia.
From Verif.C11 Require Import Spec Algebra Model.
Import ListNotations.
Open Scope Qc_scope.

(* ---------------------------------------------------------------------- *)
(* list vectors                                                           *)
(* ---------------------------------------------------------------------- *)
Lemma upd_length : forall x i v, length (upd i v x) = length x.
Proof. induction x; intros [|i] v; simpl; auto. Qed.

Lemma vget_upd_same : forall x i v, (i < length x)%nat -> vget (upd i v x) i = v.
Proof. unfold vget. induction x; intros [|i] v H; simpl in *; try lia; auto. apply IHx. lia. Qed.

Lemma vget_upd_other : forall x i v k, k <> i -> vget (upd i v x) k = vget x k.
Proof.
  unfold vget. induction x; intros [|i] v [|k] H; simpl; auto; try congruence.
Qed.

Lemma vget_upd : forall x i v k, (i < length x)%nat -> vget (upd i v x) k = fupd (vget x) i v k.
Proof.
  intros. unfold fupd. destruct (Nat.eqb_spec k i).
  - subst. apply vget_upd_same; auto.
  - apply vget_upd_other; auto.
Qed.

Lemma upd_same : forall x i, upd i (vget x i) x = x.
Proof. unfold vget. induction x; intros [|i]; simpl; auto. f_equal. apply IHx. Qed.

(* ---------------------------------------------------------------------- *)
(* the while loops enumerate 0..N-1 resp. N-1..0                           *)
(* ---------------------------------------------------------------------- *)
Lemma zloop_fwd : forall k a, zloop k (Z.of_nat a) (Z.of_nat (a + k)) 1 = map Z.of_nat (seq a k).
Proof.
  induction k; intros a; simpl; [reflexivity|].
  destruct (Z.eqb_spec (Z.of_nat a) (Z.of_nat (a + S k))); [lia|].
  f_equal. replace (Z.of_nat a + 1)%Z with (Z.of_nat (S a)) by lia.
  replace (a + S k)%nat with (S a + k)%nat by lia. apply IHk.
Qed.

Lemma zloop_bwd : forall k, zloop k (Z.of_nat k - 1) (-1) (-1) = map Z.of_nat (rev (seq 0 k)).
Proof.
  induction k; [reflexivity|].
  rewrite seq_S, rev_app_distr. cbn [zloop rev app map plus].
  destruct (Z.eqb_spec (Z.of_nat (S k) - 1) (-1)); [lia|].
  f_equal; [lia|]. replace (Z.of_nat (S k) - 1 + -1)%Z with (Z.of_nat k - 1)%Z by lia. apply IHk.
Qed.

Lemma map_to_nat_of_nat : forall l, map Z.to_nat (map Z.of_nat l) = l.
Proof. induction l; simpl; [reflexivity|]. rewrite Nat2Z.id, IHl. reflexivity. Qed.

Lemma map_nth_seq : forall (l : list nat), map (fun p => nth p l 0%nat) (seq 0 (length l)) = l.
Proof.
  intros l. apply nth_ext with (d := 0%nat) (d' := 0%nat).
  - rewrite map_length, seq_length. reflexivity.
  - intros n Hn. rewrite map_length, seq_length in Hn.
    rewrite (nth_indep _ 0%nat (nth 0 l 0%nat)) by (rewrite map_length, seq_length; exact Hn).
    rewrite (map_nth (fun p => nth p l 0%nat) (seq 0 (length l)) 0%nat n).
    rewrite seq_nth by exact Hn. reflexivity.
Qed.

Lemma gs_sweep_forward : forall M b N x,
  gs_sweep M b N 0 (Z.of_nat N) 1 x = fold_left (gs_row M b) (seq 0 N) x.
Proof.
  intros. unfold gs_sweep. change 0%Z with (Z.of_nat 0).
  replace (Z.of_nat N) with (Z.of_nat (0 + N)) by reflexivity.
  rewrite zloop_fwd, map_to_nat_of_nat. reflexivity.
Qed.

Lemma gs_sweep_backward : forall M b N x,
  gs_sweep M b N (Z.of_nat N - 1) (-1) (-1) x = fold_left (gs_row M b) (rev (seq 0 N)) x.
Proof. intros. unfold gs_sweep. rewrite zloop_bwd, map_to_nat_of_nat. reflexivity. Qed.

Lemma gs_indexed_order : forall M b idxs reverse x,
  gs_indexed M b idxs reverse x = fold_left (gs_row M b) (if reverse then rev idxs else idxs) x.
Proof.
  intros. unfold gs_indexed. destruct reverse.
  - rewrite zloop_bwd. rewrite map_map.
    rewrite (map_ext (fun x0 => nth (Z.to_nat (Z.of_nat x0)) idxs 0%nat) (fun p => nth p idxs 0%nat))
      by (intros; rewrite Nat2Z.id; reflexivity).
    rewrite map_rev, map_nth_seq. reflexivity.
  - change 0%Z with (Z.of_nat 0).
    replace (Z.of_nat (length idxs)) with (Z.of_nat (0 + length idxs)) by reflexivity.
    rewrite zloop_fwd, map_map.
    rewrite (map_ext (fun x0 => nth (Z.to_nat (Z.of_nat x0)) idxs 0%nat) (fun p => nth p idxs 0%nat))
      by (intros; rewrite Nat2Z.id; reflexivity).
    rewrite map_nth_seq. reflexivity.
Qed.

(* ---------------------------------------------------------------------- *)
(* the order of row updates performed by solvers.gauss_seidel              *)
(* ---------------------------------------------------------------------- *)
Definition base_order (N : nat) (indices : option (list nat)) : list nat :=
  match indices with None => seq 0 N | Some l => l end.

Definition gs_order (N iterations : nat) (indices : option (list nat)) (sw : sweep) : list nat :=
  let base := base_order N indices in
  match sw with
  | Forward => concat (repeat base iterations)
  | Backward => concat (repeat (rev base) iterations)
  | Symmetric => concat (repeat (base ++ rev base) iterations)
  end.

Lemma iter_fold : forall (g : vec -> nat -> vec) l k x,
  iter k (fun x => fold_left g l x) x = fold_left g (concat (repeat l k)) x.
Proof.
  induction k; intros; simpl; [reflexivity|]. rewrite fold_left_app. apply IHk.
Qed.

Lemma iter_ext : forall (X : Type) (f g : X -> X) k x, (forall y, f y = g y) -> iter k f x = iter k g x.
Proof. induction k; intros; simpl; [reflexivity|]. rewrite H. apply IHk. exact H. Qed.

Lemma gs_dir_sparse : forall M N b indices backward k x,
  gs_dir (Sparse M N) b indices backward k x =
  fold_left (gs_row M b)
    (concat (repeat (if backward then rev (base_order N indices) else base_order N indices) k)) x.
Proof.
  intros. unfold gs_dir. destruct indices as [idx|]; simpl base_order.
  - rewrite <- iter_fold. apply iter_ext. intros. apply gs_indexed_order.
  - destruct backward; rewrite <- iter_fold; apply iter_ext; intros.
    + apply gs_sweep_backward.
    + apply gs_sweep_forward.
Qed.

Lemma gs_dir_dense : forall D b indices backward k x,
  gs_dir (Dense D) b indices backward k x =
  fold_left (dense_row D b)
    (concat (repeat (if backward then rev (base_order (length D) indices) else base_order (length D) indices) k)) x.
Proof.
  intros. unfold gs_dir. rewrite <- iter_fold. destruct indices, backward; reflexivity.
Qed.

Definition mat_rows (A : matrix) : nat := match A with Sparse _ N => N | Dense D => length D end.
Definition row_update (A : matrix) (b : vec) : vec -> nat -> vec :=
  match A with Sparse M _ => gs_row M b | Dense D => dense_row D b end.

Lemma gs_dir_order : forall A b indices backward k x,
  gs_dir A b indices backward k x =
  fold_left (row_update A b)
    (concat (repeat (if backward then rev (base_order (mat_rows A) indices) else base_order (mat_rows A) indices) k)) x.
Proof. intros [M N|D]; intros; [apply gs_dir_sparse|apply gs_dir_dense]. Qed.

(* solvers.gauss_seidel performs exactly the row updates of gs_order, in that order *)
Lemma gauss_seidel_order : forall A x b iterations indices sw,
  gauss_seidel A x b iterations indices sw =
  fold_left (row_update A b) (gs_order (mat_rows A) iterations indices sw) x.
Proof.
  intros. unfold gauss_seidel, gs_order. destruct sw.
  - apply gs_dir_order.
  - apply gs_dir_order.
  - rewrite <- iter_fold. apply iter_ext. intros y.
    rewrite !gs_dir_order. simpl. rewrite !app_nil_r, fold_left_app. reflexivity.
Qed.

(* ---------------------------------------------------------------------- *)
(* a row update is the textbook update                                     *)
(* ---------------------------------------------------------------------- *)
(* the textbook update on list vectors, for the matrix A : nat -> nat -> Qc of order n *)
Definition tb_row (n : nat) (A : nat -> nat -> Qc) (b x : vec) (i : nat) : vec :=
  upd i (tb_value n A (vget b) (vget x) i) x.

(* the matrix a CSR triple denotes: stored entries with equal coordinates are summed
   (scipy's convention) *)
Fixpoint ent_sum (ents : list (nat * Qc)) (j : nat) : Qc :=
  match ents with
  | [] => 0
  | (c, a) :: t => (if Nat.eqb c j then a else 0) + ent_sum t j
  end.
Definition entry (M : csr) (i j : nat) : Qc := ent_sum (row_entries M i) j.

Fixpoint diag_count (i : nat) (ents : list (nat * Qc)) : nat :=
  match ents with
  | [] => O
  | (c, _) :: t => (if Nat.eqb c i then 1 else 0) + diag_count i t
  end.

(* row i is well formed for a matrix with n columns: column indices in range and
   at most one stored diagonal entry (explicit zeros, any order of the columns and
   repeated off-diagonal coordinates are allowed) *)
Definition wf_row (n i : nat) (ents : list (nat * Qc)) : Prop :=
  (forall c a, In (c, a) ents -> (c < n)%nat) /\ (diag_count i ents <= 1)%nat.

Fixpoint off_sum (i : nat) (x : vec) (ents : list (nat * Qc)) : Qc :=
  match ents with
  | [] => 0
  | (c, a) :: t => (if Nat.eqb i c then 0 else a * vget x c) + off_sum i x t
  end.
Fixpoint last_diag (i : nat) (ents : list (nat * Qc)) (dg : Qc) : Qc :=
  match ents with
  | [] => dg
  | (c, a) :: t => last_diag i t (if Nat.eqb i c then a else dg)
  end.

Lemma scan_fold : forall i x ents rs dg,
  fold_left (scan_step i x) ents (rs, dg) = (rs + off_sum i x ents, last_diag i ents dg).
Proof.
  induction ents as [|[c a] t IH]; intros; simpl.
  - f_equal. ring.
  - destruct (Nat.eqb i c); rewrite IH; f_equal; ring.
Qed.

Lemma sum_skip_plus : forall n i f g,
  sum_skip n i (fun j => f j + g j) = sum_skip n i f + sum_skip n i g.
Proof.
  intros. unfold sum_skip. rewrite <- sumn_plus. apply sumn_ext.
  intros k _. destruct (Nat.eqb k i); ring.
Qed.

Lemma sum_skip_ext : forall n i f g, (forall j, (j < n)%nat -> j <> i -> f j = g j) ->
  sum_skip n i f = sum_skip n i g.
Proof.
  intros. unfold sum_skip. apply sumn_ext. intros k Hk.
  destruct (Nat.eqb_spec k i); [reflexivity|]. apply H; auto.
Qed.

Lemma sum_skip_single : forall n i c (a : Qc) (x : nat -> Qc), (c < n)%nat ->
  sum_skip n i (fun j => (if Nat.eqb c j then a else 0) * x j) = if Nat.eqb i c then 0 else a * x c.
Proof.
  intros. unfold sum_skip.
  rewrite (sumn_ext n _ (fun j => if Nat.eqb j c then (if Nat.eqb i c then 0 else a * x c) else 0)).
  - apply (sumn_delta n c (fun _ => if Nat.eqb i c then 0 else a * x c)). exact H.
  - intros k Hk. destruct (Nat.eqb_spec k i), (Nat.eqb_spec c k), (Nat.eqb_spec k c), (Nat.eqb_spec i c);
      subst; try congruence; ring.
Qed.

Lemma off_sum_spec : forall n i x ents, (forall c a, In (c, a) ents -> (c < n)%nat) ->
  off_sum i x ents = sum_skip n i (fun j => ent_sum ents j * vget x j).
Proof.
  induction ents as [|[c a] t IH]; intros H; simpl.
  - unfold sum_skip. symmetry. apply sumn_zero. intros. destruct (Nat.eqb k i); ring.
  - rewrite IH by (intros; eapply H; right; eauto).
    rewrite (sum_skip_ext n i (fun j => ((if Nat.eqb c j then a else 0) + ent_sum t j) * vget x j)
                              (fun j => (if Nat.eqb c j then a else 0) * vget x j + ent_sum t j * vget x j))
      by (intros; ring).
    rewrite sum_skip_plus, sum_skip_single by (eapply H; left; eauto). reflexivity.
Qed.

Lemma ent_sum_nodiag : forall i ents, diag_count i ents = O -> ent_sum ents i = 0.
Proof.
  induction ents as [|[c a] t IH]; simpl; intros H; [reflexivity|].
  destruct (Nat.eqb c i); [discriminate|]. rewrite IH by exact H. ring.
Qed.

Lemma last_diag_nodiag : forall i ents dg, diag_count i ents = O -> last_diag i ents dg = dg.
Proof.
  induction ents as [|[c a] t IH]; simpl; intros dg H; [reflexivity|].
  rewrite (Nat.eqb_sym i c). destruct (Nat.eqb c i); [discriminate|]. apply IH. exact H.
Qed.

Lemma last_diag_spec : forall i ents, (diag_count i ents <= 1)%nat -> last_diag i ents 0 = ent_sum ents i.
Proof.
  induction ents as [|[c a] t IH]; simpl; intros H; [reflexivity|].
  rewrite (Nat.eqb_sym i c). destruct (Nat.eqb c i).
  - rewrite last_diag_nodiag, ent_sum_nodiag by lia. ring.
  - rewrite IH by exact H. ring.
Qed.

Lemma row_scan_spec : forall n i x ents, wf_row n i ents ->
  row_scan i x ents = (sum_skip n i (fun j => ent_sum ents j * vget x j), ent_sum ents i).
Proof.
  intros n i x ents [H1 H2]. unfold row_scan. rewrite scan_fold.
  rewrite (off_sum_spec n) by exact H1. rewrite last_diag_spec by exact H2. f_equal. ring.
Qed.

(* CSR row update = textbook update with the denoted matrix (nonzero diagonal) *)
Lemma gs_row_textbook : forall M n b x i,
  wf_row n i (row_entries M i) -> entry M i i <> 0 ->
  gs_row M b x i = tb_row n (entry M) b x i.
Proof.
  intros. unfold gs_row. rewrite (row_scan_spec n) by assumption.
  fold (entry M i i). destruct (Qc_eq_dec (entry M i i) 0); [contradiction|].
  reflexivity.
Qed.

(* rows whose (single) diagonal entry is zero or not stored are skipped *)
Lemma gs_row_skip : forall M n b x i,
  wf_row n i (row_entries M i) -> entry M i i = 0 -> gs_row M b x i = x.
Proof.
  intros. unfold gs_row. rewrite (row_scan_spec n) by assumption.
  fold (entry M i i). destruct (Qc_eq_dec (entry M i i) 0); [reflexivity|contradiction].
Qed.

(* dense *)
Lemma sumn_shift : forall n f, sumn (S n) f = f O + sumn n (fun k => f (S k)).
Proof. induction n; intros; simpl in *; [ring|]. rewrite IHn. ring. Qed.

Lemma ldot_sumn : forall r x, length r = length x ->
  ldot r x = sumn (length x) (fun j => nth j r 0 * vget x j).
Proof.
  induction r as [|a r IH]; intros [|v x] H; simpl in H; try discriminate; [reflexivity|].
  cbn [ldot length]. rewrite sumn_shift. unfold vget. simpl. rewrite IH by lia. reflexivity.
Qed.

Lemma dense_row_textbook : forall D b x i,
  length (drow D i) = length x -> (i < length x)%nat ->
  dense_row D b x i = tb_row (length x) (dentry D) b x i.
Proof.
  intros. unfold dense_row, tb_row, tb_value. f_equal. f_equal. f_equal.
  rewrite ldot_sumn by assumption.
  rewrite (sum_skip_split (length x) i _ H0). unfold dentry. ring.
Qed.

(* the textbook update depends on the matrix only through row i *)
Lemma tb_row_ext : forall n A A' b x i,
  (forall j, (j < n)%nat -> A i j = A' i j) -> (i < n)%nat -> tb_row n A b x i = tb_row n A' b x i.
Proof.
  intros. unfold tb_row, tb_value. rewrite (H i H0). f_equal. f_equal. f_equal.
  apply sum_skip_ext. intros. rewrite H; auto.
Qed.

Lemma tb_row_length : forall n A b x i, length (tb_row n A b x i) = length x.
Proof. intros. apply upd_length. Qed.

(* ---------------------------------------------------------------------- *)
(* properties of the textbook update                                       *)
(* ---------------------------------------------------------------------- *)
Lemma tb_row_fixed : forall n A b xs i,
  (i < n)%nat -> A i i <> 0 -> mv n A (vget xs) i = vget b i -> tb_row n A b xs i = xs.
Proof.
  intros n A b xs i Hi Hd Hr. unfold tb_row, tb_value.
  rewrite <- Hr. unfold mv. rewrite (sum_skip_split n i _ Hi).
  replace ((sum_skip n i (fun j => A i j * vget xs j) + A i i * vget xs i
            - sum_skip n i (fun j => A i j * vget xs j)) / A i i) with (vget xs i) by (field; exact Hd).
  apply upd_same.
Qed.

Lemma energy_ext : forall n A xs x y, (forall k, (k < n)%nat -> x k = y k) ->
  energy n A xs x = energy n A xs y.
Proof.
  intros. unfold energy. apply dotn_ext; intros.
  - rewrite H; auto.
  - apply mv_ext. intros. rewrite H; auto.
Qed.

(* one textbook update: E(x') = E(x) - a_ii t^2 with t the change of x_i *)
Lemma tb_row_energy : forall n A b xs x i,
  symmetric n A -> (i < n)%nat -> length x = n -> 0 < A i i ->
  mv n A (vget xs) i = vget b i ->
  energy n A (vget xs) (vget (tb_row n A b x i)) <= energy n A (vget xs) (vget x).
Proof.
  intros n A b xs x i Hs Hi Hl Hpos Hr.
  assert (Hd : A i i <> 0). { intro E. rewrite E in Hpos. exact (Qclt_not_eq _ _ Hpos eq_refl). }
  set (v := tb_value n A (vget b) (vget x) i).
  set (t := v - vget x i).
  set (d := fun k => if Nat.eqb k i then t else 0).
  rewrite (energy_ext n A (vget xs) (vget (tb_row n A b x i)) (fun k => vget x k + d k)).
  2:{ intros k Hk. unfold tb_row. rewrite vget_upd by lia. unfold fupd, d, t. fold v.
      destruct (Nat.eqb k i) eqn:E; [apply Nat.eqb_eq in E; subst; ring|ring]. }
  assert (Ad : forall k, mv n A d k = A k i * t).
  { intros k. unfold mv, d.
    rewrite (sumn_ext n _ (fun j => if Nat.eqb j i then A k j * t else 0))
      by (intros j _; destruct (Nat.eqb j i); ring).
    apply (sumn_delta n i (fun j => A k j * t) Hi). }
  rewrite (subspace_correction_energy n A (vget b) (vget xs) (vget x) d Hs).
  - apply Qc_sub_nonneg_le.
    unfold dotn. rewrite (sumn_ext n _ (fun k => if Nat.eqb k i then t * (A k i * t) else 0)).
    + rewrite (sumn_delta n i (fun k => t * (A k i * t)) Hi).
      replace (t * (A i i * t)) with (t * t * A i i) by ring.
      apply Qc_mul_nonneg; [apply Qc_sq_nonneg|apply Qclt_le_weak; exact Hpos].
    + intros k _. rewrite Ad. unfold d. destruct (Nat.eqb k i); ring.
  - intros k Hk. unfold d at 1. destruct (Nat.eqb_spec k i); [right|left; reflexivity].
    subst k. split; [|exact Hr]. rewrite Ad. unfold t, v, tb_value.
    unfold mv. rewrite (sum_skip_split n i (fun j => A i j * vget x j) Hi). field. exact Hd.
Qed.

(* ---------------------------------------------------------------------- *)
(* lifting to sequences of row updates and to solvers.gauss_seidel          *)
(* ---------------------------------------------------------------------- *)
Lemma in_concat_repeat : forall (l : list nat) k i, In i (concat (repeat l k)) -> In i l.
Proof.
  induction k; simpl; intros i H; [contradiction|].
  apply in_app_or in H. destruct H; auto.
Qed.

Lemma gs_order_in : forall N k indices sw i, In i (gs_order N k indices sw) -> In i (base_order N indices).
Proof.
  intros N k indices sw i H. unfold gs_order in H. destruct sw; apply in_concat_repeat in H.
  - exact H.
  - apply in_rev in H. exact H.
  - apply in_app_or in H. destruct H as [H|H]; [exact H|apply in_rev in H; exact H].
Qed.

Lemma fold_ext_in : forall (g h : vec -> nat -> vec) rows x,
  (forall y i, In i rows -> g y i = h y i) -> fold_left g rows x = fold_left h rows x.
Proof.
  induction rows; intros x H; simpl; [reflexivity|].
  rewrite H by (left; reflexivity). apply IHrows. intros. apply H. right. assumption.
Qed.

(* a property of vectors preserved by every step is preserved by the fold *)
Lemma fold_invariant : forall (Pv : vec -> Prop) (g : vec -> nat -> vec) rows x,
  Pv x -> (forall y i, In i rows -> Pv y -> Pv (g y i)) -> Pv (fold_left g rows x).
Proof.
  induction rows; intros x H0 H; simpl; [exact H0|].
  apply IHrows; [apply H; [left; reflexivity|exact H0]|].
  intros. apply H; [right; assumption|assumption].
Qed.

Lemma fold_ext_inv : forall (Pv : vec -> Prop) (g h : vec -> nat -> vec) rows x,
  Pv x -> (forall y i, In i rows -> Pv y -> Pv (h y i)) ->
  (forall y i, In i rows -> Pv y -> g y i = h y i) -> fold_left g rows x = fold_left h rows x.
Proof.
  induction rows; intros x H0 Hp H; simpl; [reflexivity|].
  rewrite H by (auto; left; reflexivity).
  apply IHrows.
  - apply Hp; [left; reflexivity|exact H0].
  - intros. apply Hp; [right; assumption|assumption].
  - intros. apply H; [right; assumption|assumption].
Qed.

(* sparse: textbook updates in the stated order *)
Lemma gs_textbook_sparse_l : forall M N x b iterations indices sw,
  (forall i, In i (base_order N indices) -> wf_row N i (row_entries M i) /\ entry M i i <> 0) ->
  gauss_seidel (Sparse M N) x b iterations indices sw =
  fold_left (tb_row N (entry M) b) (gs_order N iterations indices sw) x.
Proof.
  intros. rewrite gauss_seidel_order. simpl. apply fold_ext_in.
  intros y i Hi. apply gs_order_in in Hi. destruct (H i Hi). apply gs_row_textbook; assumption.
Qed.

(* dense: textbook updates in the stated order *)
Lemma gs_textbook_dense_l : forall D x b iterations indices sw,
  length x = length D ->
  (forall i, In i (base_order (length D) indices) -> (i < length D)%nat /\ length (drow D i) = length D) ->
  gauss_seidel (Dense D) x b iterations indices sw =
  fold_left (tb_row (length D) (dentry D) b) (gs_order (length D) iterations indices sw) x.
Proof.
  intros D x b k indices sw Hl H. rewrite gauss_seidel_order. simpl.
  apply (fold_ext_inv (fun y => length y = length D)).
  - exact Hl.
  - intros. rewrite tb_row_length. assumption.
  - intros y i Hi Hy. apply gs_order_in in Hi. destruct (H i Hi).
    rewrite <- Hy. apply dense_row_textbook; rewrite Hy; assumption.
Qed.

(* dense and sparse agree when they denote the same rows *)
Lemma gs_dense_sparse_agree_l : forall M D x b iterations indices sw,
  length x = length D ->
  (forall i, In i (base_order (length D) indices) ->
      (i < length D)%nat /\ length (drow D i) = length D /\
      wf_row (length D) i (row_entries M i) /\ entry M i i <> 0 /\
      (forall j, (j < length D)%nat -> dentry D i j = entry M i j)) ->
  gauss_seidel (Dense D) x b iterations indices sw =
  gauss_seidel (Sparse M (length D)) x b iterations indices sw.
Proof.
  intros M D x b k indices sw Hl H.
  rewrite gs_textbook_dense_l, gs_textbook_sparse_l; auto.
  - apply fold_ext_in. intros y i Hi. apply gs_order_in in Hi.
    destruct (H i Hi) as (H1 & _ & _ & _ & H5). apply tb_row_ext; assumption.
  - intros i Hi. destruct (H i Hi) as (_ & _ & H3 & H4 & _). split; assumption.
  - intros i Hi. destruct (H i Hi) as (H1 & H2 & _). split; assumption.
Qed.

(* an exact solution (of the rows that are relaxed) is left unchanged *)
Lemma tb_fold_fixed : forall n A b xs rows,
  (forall i, In i rows -> (i < n)%nat /\ A i i <> 0 /\ mv n A (vget xs) i = vget b i) ->
  fold_left (tb_row n A b) rows xs = xs.
Proof.
  induction rows; intros H; simpl; [reflexivity|].
  destruct (H a (or_introl eq_refl)) as (H1 & H2 & H3).
  rewrite tb_row_fixed by assumption. apply IHrows. intros. apply H. right. assumption.
Qed.

Lemma gs_fixed_point_sparse_l : forall M N xs b iterations indices sw,
  (forall i, In i (base_order N indices) ->
      (i < N)%nat /\ wf_row N i (row_entries M i) /\ entry M i i <> 0 /\
      mv N (entry M) (vget xs) i = vget b i) ->
  gauss_seidel (Sparse M N) xs b iterations indices sw = xs.
Proof.
  intros. rewrite gs_textbook_sparse_l.
  - apply tb_fold_fixed. intros i Hi. apply gs_order_in in Hi.
    destruct (H i Hi) as (H1 & _ & H3 & H4). auto.
  - intros i Hi. destruct (H i Hi) as (_ & H2 & H3 & _). auto.
Qed.

Lemma gs_fixed_point_dense_l : forall D xs b iterations indices sw,
  length xs = length D ->
  (forall i, In i (base_order (length D) indices) ->
      (i < length D)%nat /\ length (drow D i) = length D /\ dentry D i i <> 0 /\
      mv (length D) (dentry D) (vget xs) i = vget b i) ->
  gauss_seidel (Dense D) xs b iterations indices sw = xs.
Proof.
  intros. rewrite gs_textbook_dense_l; auto.
  - apply tb_fold_fixed. intros i Hi. apply gs_order_in in Hi.
    destruct (H0 i Hi) as (H1 & _ & H3 & H4). auto.
  - intros i Hi. destruct (H0 i Hi) as (H1 & H2 & _). auto.
Qed.

(* only the listed unknowns are touched (no hypothesis on the matrix at all) *)
Lemma row_update_other : forall A b x i k, k <> i -> vget (row_update A b x i) k = vget x k.
Proof.
  intros [M N|D] b x i k H; simpl.
  - unfold gs_row. destruct (row_scan i x (row_entries M i)) as [rs dg].
    destruct (Qc_eq_dec dg 0); [reflexivity|]. apply vget_upd_other. exact H.
  - unfold dense_row. apply vget_upd_other. exact H.
Qed.

Lemma row_update_length : forall A b x i, length (row_update A b x i) = length x.
Proof.
  intros [M N|D] b x i; simpl.
  - unfold gs_row. destruct (row_scan i x (row_entries M i)) as [rs dg].
    destruct (Qc_eq_dec dg 0); [reflexivity|]. apply upd_length.
  - unfold dense_row. apply upd_length.
Qed.

Lemma gs_only_touches_l : forall A x b iterations indices sw k,
  ~ In k (base_order (mat_rows A) indices) ->
  vget (gauss_seidel A x b iterations indices sw) k = vget x k.
Proof.
  intros. rewrite gauss_seidel_order.
  apply (fold_invariant (fun y => vget y k = vget x k)); [reflexivity|].
  intros y i Hi Hy. apply gs_order_in in Hi. rewrite row_update_other; [exact Hy|].
  intro E. subst. contradiction.
Qed.

Lemma gs_length_l : forall A x b iterations indices sw,
  length (gauss_seidel A x b iterations indices sw) = length x.
Proof.
  intros. rewrite gauss_seidel_order.
  apply (fold_invariant (fun y => length y = length x)); [reflexivity|].
  intros. rewrite row_update_length. assumption.
Qed.

(* energy: symmetric matrix with positive diagonal on the relaxed rows *)
Lemma tb_fold_energy : forall n A b xs rows x,
  symmetric n A -> length x = n ->
  (forall i, In i rows -> (i < n)%nat /\ 0 < A i i /\ mv n A (vget xs) i = vget b i) ->
  energy n A (vget xs) (vget (fold_left (tb_row n A b) rows x)) <= energy n A (vget xs) (vget x).
Proof.
  induction rows; intros x Hs Hl H; simpl; [apply Qcle_refl|].
  destruct (H a (or_introl eq_refl)) as (H1 & H2 & H3).
  eapply Qcle_trans.
  - apply IHrows; [exact Hs|rewrite tb_row_length; exact Hl|].
    intros. apply H. right. assumption.
  - apply tb_row_energy; assumption.
Qed.

Lemma gs_energy_sparse_l : forall M N x xs b iterations indices sw,
  symmetric N (entry M) -> length x = N ->
  (forall i, In i (base_order N indices) ->
      (i < N)%nat /\ wf_row N i (row_entries M i) /\ 0 < entry M i i /\
      mv N (entry M) (vget xs) i = vget b i) ->
  energy N (entry M) (vget xs) (vget (gauss_seidel (Sparse M N) x b iterations indices sw))
  <= energy N (entry M) (vget xs) (vget x).
Proof.
  intros M N x xs b k indices sw Hs Hl H. rewrite gs_textbook_sparse_l.
  - apply tb_fold_energy; auto. intros i Hi. apply gs_order_in in Hi.
    destruct (H i Hi) as (H1 & _ & H3 & H4). auto.
  - intros i Hi. destruct (H i Hi) as (_ & H2 & H3 & _). split; [exact H2|].
    intro E. rewrite E in H3. exact (Qclt_not_eq _ _ H3 eq_refl).
Qed.

Lemma gs_energy_dense_l : forall D x xs b iterations indices sw,
  symmetric (length D) (dentry D) -> length x = length D ->
  (forall i, In i (base_order (length D) indices) ->
      (i < length D)%nat /\ length (drow D i) = length D /\ 0 < dentry D i i /\
      mv (length D) (dentry D) (vget xs) i = vget b i) ->
  energy (length D) (dentry D) (vget xs) (vget (gauss_seidel (Dense D) x b iterations indices sw))
  <= energy (length D) (dentry D) (vget xs) (vget x).
Proof.
  intros D x xs b k indices sw Hs Hl H. rewrite gs_textbook_dense_l; auto.
  - apply tb_fold_energy; auto. intros i Hi. apply gs_order_in in Hi.
    destruct (H i Hi) as (H1 & _ & H3 & H4). auto.
  - intros i Hi. destruct (H i Hi) as (H1 & H2 & _). auto.
Qed.

(* ---------------------------------------------------------------------- *)
(* iterative_solve: the stopping rule                                      *)
(* ---------------------------------------------------------------------- *)
Section IterProofs.
  Context {X : Type}.
  Variable step : X -> X.
  Variable res : X -> Qc.

  Lemma iter_S_r : forall m (x : X), iter (S m) step x = step (iter m step x).
  Proof. induction m; intros; [reflexivity|]. simpl in *. rewrite <- IHm. reflexivity. Qed.

  Lemma it_loop_spec : forall fuel x it res0 tol maxiter xr r,
    it_loop step res fuel x it res0 tol maxiter = (xr, r) ->
    (1 <= fuel)%nat -> (maxiter <= it + fuel)%nat ->
    let conv := fun y => res y / res0 < tol in
    match r with
    | Finite k => exists m, (1 <= m <= fuel)%nat /\ k = (it + m)%nat /\ xr = iter m step x /\ conv xr /\
                            (forall j, (1 <= j < m)%nat -> ~ conv (iter j step x))
    | Inf => exists m, (1 <= m <= fuel)%nat /\ xr = iter m step x /\ (maxiter <= it + m)%nat /\
                       (forall j, (1 <= j < m)%nat -> (it + j < maxiter)%nat) /\
                       (forall j, (1 <= j <= m)%nat -> ~ conv (iter j step x))
    end.
  Proof.
    induction fuel; intros x it res0 tol maxiter xr r H Hf Hm conv; [lia|].
    simpl in H.
    destruct (Qclt_le_dec (res (step x) / res0) tol) as [Hc|Hc].
    - inversion H; subst. exists 1%nat. repeat split; try lia; auto.
    - assert (Hn : ~ conv (step x)) by (apply Qcle_not_lt; exact Hc).
      destruct (Nat.leb_spec maxiter (S it)).
      + inversion H; subst. exists 1%nat. repeat split; try lia.
        intros j Hj. replace j with 1%nat by lia. exact Hn.
      + destruct fuel as [|fuel']; [lia|].
        specialize (IHfuel (step x) (S it) res0 tol maxiter xr r H ltac:(lia) ltac:(lia)).
        destruct r as [k|].
        * destruct IHfuel as (m & Hm1 & Hk & Hx & Hcv & Hbefore).
          exists (S m). repeat split; try lia; auto.
          intros j Hj. destruct j as [|j]; [lia|]. destruct j as [|j]; [exact Hn|].
          apply (Hbefore (S j)). lia.
        * destruct IHfuel as (m & Hm1 & Hx & Hmx & Hlt & Hnc).
          exists (S m). repeat split; try lia; auto.
          -- intros j Hj. destruct j as [|j]; [lia|]. destruct j as [|j]; [lia|].
             specialize (Hlt (S j)). lia.
          -- intros j Hj. destruct j as [|j]; [lia|]. destruct j as [|j]; [exact Hn|].
             apply (Hnc (S j)). lia.
  Qed.

  Lemma iterative_solve_stops_l : forall x0 tol maxiter x r,
    iterative_solve step res x0 tol maxiter = (x, r) ->
    let conv := fun y => res y / res x0 < tol in
    match r with
    | Finite k => (1 <= k <= Nat.max 1 maxiter)%nat /\ x = iter k step x0 /\ conv x /\
                  (forall j, (1 <= j < k)%nat -> ~ conv (iter j step x0))
    | Inf => x = iter (Nat.max 1 maxiter) step x0 /\
             (forall j, (1 <= j <= Nat.max 1 maxiter)%nat -> ~ conv (iter j step x0))
    end.
  Proof.
    intros x0 tol maxiter x r H conv. unfold iterative_solve in H.
    apply it_loop_spec in H; try lia. destruct r as [k|].
    - destruct H as (m & Hm & Hk & Hx & Hc & Hb). simpl in Hk. subst k. auto.
    - destruct H as (m & Hm & Hx & Hmx & Hlt & Hnc). simpl in Hmx, Hlt.
      assert (m = Nat.max 1 maxiter).
      { destruct (Nat.eq_dec m 1) as [E|E]; [lia|]. specialize (Hlt (m - 1)%nat). lia. }
      subst m. auto.
  Qed.

  (* twogrid: the loop ends after k <= maxiter+1 cycles, and only for one of the
     three stated reasons, evaluated on the residual after the smoothing steps *)
  Variable correct : X -> X.
  Definition cycle (u : X) : X := correct (step u).

  Lemma tg_loop_spec : forall fuel u it res0 tol maxiter ur k e,
    tg_loop step res correct fuel u it res0 tol maxiter = (ur, k, e) ->
    (1 <= fuel)%nat -> (maxiter < it + fuel)%nat ->
    exists m, (1 <= m <= fuel)%nat /\ k = (it + m)%nat /\ ur = iter m cycle u /\
      let r := res (step (iter (m - 1) cycle u)) in
      match e with
      | Converged => r < tol * res0
      | Diverged => tol * res0 <= r /\ Q2Qc 20 * res0 < r
      | TooMany => tol * res0 <= r /\ r <= Q2Qc 20 * res0 /\ (maxiter < k)%nat
      end.
  Proof.
    induction fuel; intros u it res0 tol maxiter ur k e H Hf Hm; [lia|].
    simpl in H.
    destruct (Qclt_le_dec (res (step u)) (tol * res0)) as [Hc|Hc].
    { inversion H; subst. exists 1%nat. repeat split; try lia. simpl. exact Hc. }
    destruct (Qclt_le_dec (Q2Qc 20 * res0) (res (step u))) as [Hd|Hd].
    { inversion H; subst. exists 1%nat. repeat split; try lia; simpl; auto. }
    destruct (Nat.ltb_spec maxiter (S it)).
    { inversion H; subst. exists 1%nat. repeat split; try lia; simpl; auto. }
    destruct fuel as [|fuel']; [lia|].
    specialize (IHfuel (correct (step u)) (S it) res0 tol maxiter ur k e H ltac:(lia) ltac:(lia)).
    destruct IHfuel as (m & Hm1 & Hk & Hx & Hr).
    exists (S m). repeat split; try lia; auto.
    replace (S m - 1)%nat with (S (m - 1)) by lia. exact Hr.
  Qed.

  Lemma twogrid_stops_l : forall zeros u0 tol maxiter ur k e,
    twogrid_loop step res correct zeros u0 tol maxiter = (ur, k, e) ->
    let start := match u0 with Some v => v | None => zeros end in
    exists m, (1 <= m <= S maxiter)%nat /\ k = m /\ ur = iter m cycle start /\
      let r := res (step (iter (m - 1) cycle start)) in
      match e with
      | Converged => r < tol * res start
      | Diverged => tol * res start <= r /\ Q2Qc 20 * res start < r
      | TooMany => tol * res start <= r /\ r <= Q2Qc 20 * res start /\ (maxiter < k)%nat
      end.
  Proof.
    intros zeros u0 tol maxiter ur k e H.
    exact (tg_loop_spec (S maxiter) _ 0%nat _ tol maxiter ur k e H
             (le_n_S _ _ (Nat.le_0_l _)) (Nat.lt_succ_diag_r _)).
  Qed.
End IterProofs.

(* ---------------------------------------------------------------------- *)
(* smoothing sets (set level)                                              *)
(* ---------------------------------------------------------------------- *)
Lemma set_diff_in : forall a b k, In k (set_diff a b) <-> In k a /\ ~ In k b.
Proof.
  intros. unfold set_diff. rewrite filter_In. split; intros [H1 H2]; split; auto.
  - intro Hb. apply negb_true_iff in H2. 
    assert (existsb (Nat.eqb k) b = true) by (apply existsb_exists; exists k; split; [exact Hb|apply Nat.eqb_refl]).
    congruence.
  - apply negb_true_iff. destruct (existsb (Nat.eqb k) b) eqn:E; [|reflexivity].
    apply existsb_exists in E. destruct E as (y & Hy & Ey). apply Nat.eqb_eq in Ey. subst. contradiction.
Qed.

Lemma smoothing_set_no_dirichlet_l : forall st disp act deact F dir lv i k,
  In k (smoothing_set st disp act deact F dir lv i) -> ~ In k dir.
Proof.
  intros st disp act deact F dir lv i k H. unfold smoothing_set in H.
  destruct (Nat.eqb i lv).
  - apply in_app_or in H. destruct H as [H|H]; apply set_diff_in in H; tauto.
  - destruct st; try contradiction;
      (destruct (Nat.ltb i lv && match disp with None => true | Some d => Nat.leb (lv - d) i end);
       [apply set_diff_in in H; tauto|contradiction]).
Qed.

Lemma smoothing_set_contains_new_l : forall st disp act deact F dir lv k,
  In k act \/ In k deact -> ~ In k dir ->
  In k (smoothing_set st disp act deact F dir lv lv).
Proof.
  intros. unfold smoothing_set. rewrite Nat.eqb_refl. apply in_or_app.
  destruct H; [left|right]; apply set_diff_in; tauto.
Qed.

Lemma smoothing_set_subset_l : forall st disp act deact F dir lv i k,
  In k (smoothing_set st disp act deact F dir lv i) ->
  (i = lv /\ (In k act \/ In k deact)) \/ (i < lv /\ In k F)%nat.
Proof.
  intros st disp act deact F dir lv i k H. unfold smoothing_set in H.
  destruct (Nat.eqb_spec i lv).
  - left. split; [assumption|]. apply in_app_or in H. destruct H as [H|H]; apply set_diff_in in H; tauto.
  - right. destruct st; try contradiction;
      (destruct (Nat.ltb_spec i lv); simpl in H;
       [destruct (match disp with None => true | Some d => Nat.leb (lv - d) i end);
         [apply set_diff_in in H; tauto|contradiction]|contradiction]).
Qed.

Lemma smoothing_sets_partial_l : forall st disp act deact F dir lv,
  (forall i k, In k (smoothing_set st disp act deact F dir lv i) -> ~ In k dir) /\
  (forall k, In k act \/ In k deact -> ~ In k dir -> In k (smoothing_set st disp act deact F dir lv lv)) /\
  (forall i k, In k (smoothing_set st disp act deact F dir lv i) ->
      (i = lv /\ (In k act \/ In k deact)) \/ (i < lv /\ In k F)%nat).
Proof.
  intros. split; [|split].
  - intros i k. exact (smoothing_set_no_dirichlet_l st disp act deact F dir lv i k).
  - intros k. exact (smoothing_set_contains_new_l st disp act deact F dir lv k).
  - intros i k. exact (smoothing_set_subset_l st disp act deact F dir lv i k).
Qed.

(* ---------------------------------------------------------------------- *)
(* non-canonical CSR: what the routine computes when a row stores several
   diagonal entries (outside wf_row)                                        *)
(* ---------------------------------------------------------------------- *)
Lemma gs_row_general_l : forall M n b x i,
  (forall c a, In (c, a) (row_entries M i) -> (c < n)%nat) ->
  gs_row M b x i =
    let d := last_diag i (row_entries M i) 0 in
    if Qc_eq_dec d 0 then x
    else upd i ((vget b i - sum_skip n i (fun j => entry M i j * vget x j)) / d) x.
Proof.
  intros M n b x i H. unfold gs_row, row_scan. rewrite scan_fold.
  rewrite (off_sum_spec n) by exact H. cbv zeta.
  replace (0 + sum_skip n i (fun j => ent_sum (row_entries M i) j * vget x j))
    with (sum_skip n i (fun j => entry M i j * vget x j)) by (unfold entry; ring).
  reflexivity.
Qed.

Lemma last_diag_app : forall i pre a post dg,
  diag_count i post = O -> last_diag i (pre ++ (i, a) :: post) dg = a.
Proof.
  induction pre as [|[c v] pre IH]; intros a post dg H; simpl.
  - rewrite Nat.eqb_refl. apply last_diag_nodiag. exact H.
  - apply IH. exact H.
Qed.

Lemma ent_sum_app : forall e1 e2 j, ent_sum (e1 ++ e2) j = ent_sum e1 j + ent_sum e2 j.
Proof. induction e1 as [|[c a] t IH]; intros; simpl; [ring|]. rewrite IH. ring. Qed.

(* the divisor is the LAST stored diagonal entry, whatever was stored before it, while the
   off-diagonal sum is that of the denoted matrix (repeated coordinates summed) *)
Lemma gs_row_last_diagonal_l : forall M n b x i pre a post,
  row_entries M i = pre ++ (i, a) :: post -> diag_count i post = O -> a <> 0 ->
  (forall c v, In (c, v) (row_entries M i) -> (c < n)%nat) ->
  gs_row M b x i = upd i ((vget b i - sum_skip n i (fun j => entry M i j * vget x j)) / a) x.
Proof.
  intros M n b x i pre a post He Hp Ha Hc.
  rewrite (gs_row_general_l M n b x i Hc). cbv zeta. rewrite He, last_diag_app by exact Hp.
  destruct (Qc_eq_dec a 0); [contradiction|reflexivity].
Qed.

(* ... which is the textbook update iff a equals the denoted diagonal value, i.e. iff the
   diagonal entries stored before the last one sum to zero *)
Lemma gs_row_last_diagonal_textbook_iff_l : forall M i pre a post,
  row_entries M i = pre ++ (i, a) :: post -> diag_count i post = O ->
  entry M i i = ent_sum pre i + a.
Proof.
  intros M i pre a post He Hp. unfold entry. rewrite He, ent_sum_app. simpl.
  rewrite Nat.eqb_refl, (ent_sum_nodiag i post Hp). ring.
Qed.

(* witness: [[1 (stored twice at (0,0)), 0],[0,1]], b = (2,0), x = 0: the routine returns x_0 = 2/1,
   the textbook update of the denoted matrix (a_00 = 2) gives 1 *)
Definition dupM : csr := mk_csr [0;2;3]%nat [0;0;1]%nat [Q2Qc 1; Q2Qc 1; Q2Qc 1].
Lemma gs_duplicate_diagonal_refuted_l :
  exists M n b x i,
    (forall c a, In (c, a) (row_entries M i) -> (c < n)%nat) /\ entry M i i <> 0 /\
    gs_row M b x i <> tb_row n (entry M) b x i.
Proof.
  exists dupM, 2%nat, [Q2Qc 2; 0], [0; 0], 0%nat. split; [|split].
  - intros c a Hin. vm_compute in Hin. destruct Hin as [Hin|[Hin|[]]]; inversion Hin; lia.
  - intro H. apply (f_equal this) in H. vm_compute in H. discriminate.
  - intro H. apply (f_equal (map this)) in H. vm_compute in H. discriminate.
Qed.
