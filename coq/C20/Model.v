(* C20 -- the on-disk compile cache protocol of pyiga/compile.py as a small-step
   transition system.  Executable definitions only (no proofs).

   Source transcribed (pyiga/compile.py at /repo HEAD + fixes/C20-atomic-cache-publish.patch):

     compile_cython_module (compile.py:58-73)
        os.makedirs(MODDIR, exist_ok=True)              -> pc PMkdir (one atomic idempotent step; the variant
                                                           `if not isdir: makedirs` is PChkDir, PCreate: proto NewCC)
        modname = 'mod' + shake_128(src)                -> a form is identified with its name (idealised digest)
        try: importlib.import_module(modname)           -> pc PImport
        except ImportError: _compile_cython_module_nocache(src, modname)
     _compile_cython_module_nocache
        OLD (compile.py:25-55): every artefact is written IN PLACE under its final name in MODDIR
             open(modfile,'w+'); f.write(src)           -> PWrite Pyx  (truncate, then grow, then complete)
             cythonize([extension])                      -> PWrite Cfile (Cython/Build/Dependencies.py:1068-1080:
                                                            regenerate iff .c missing or older than the .pyx)
             build_extension.run()                       -> PWrite Obj, PWrite So (setuptools/_distutils/command/
                                                            build_ext.py:548: whole extension skipped iff the .so is
                                                            not older than the .c; ccompiler _need_link: link iff
                                                            the .so is missing or older than the .o)
             importlib.import_module(modname)            -> PReimport
        NEW (the patch): builddir = mkdtemp(dir=MODDIR)  -> PMkdtemp; the same four stages write below builddir,
             os.replace(builddir/so, MODDIR/so)          -> PReplace (atomic: rename(2))
             finally: shutil.rmtree(builddir)            -> PCleanup
             importlib.import_module(modname)            -> PReimport

   Idealisations (DESIGN.md section 6): the digest is injective (forms ARE names), rename(2) is atomic,
   mkdtemp names are unique (the private directory is indexed by the pid, pids are never reused),
   what dlopen does with a damaged file is an oracle parameter [orc] that the tie calibrates on the machine. *)
From Coq Require Import List Arith Bool.
Import ListNotations.

Definition form := nat.
Definition pid := nat.

(* how much of a file is there *)
Inductive sizeclass := Empty | Header | Half | AllButLast | Garbage.
Inductive fstate :=
| Absent
| Partial (k : sizeclass) (c : form)   (* class-k prefix of (or garbage instead of) the artefact of form c *)
| Complete (c : form).                 (* the finished artefact generated from the source of form c *)

Inductive role := Pyx | Cfile | Obj | So.
Inductive path :=
| Final (r : role) (n : form)          (* MODDIR/mod<digest n>.<ext>: read by every process *)
| Tmp (p : pid) (r : role)             (* <mkdtemp of process p>/mod<digest>.<ext> *)
| CacheDir.                            (* MODDIR itself: Absent, or Complete 0 = the directory exists *)

Definition role_eqb (a b : role) : bool :=
  match a, b with Pyx, Pyx | Cfile, Cfile | Obj, Obj | So, So => true | _, _ => false end.
Definition path_eqb (x y : path) : bool :=
  match x, y with
  | Final r n, Final r' n' => role_eqb r r' && Nat.eqb n n'
  | Tmp p r, Tmp p' r' => Nat.eqb p p' && role_eqb r r'
  | CacheDir, CacheDir => true
  | _, _ => false
  end.
Definition upd {A} (f : path -> A) (x : path) (v : A) : path -> A :=
  fun y => if path_eqb y x then v else f y.

(* what importing a shared object does *)
Inductive loadres := Loads | ImpErr | Crash.
Definition oracle := sizeclass -> loadres.
Inductive outcome :=
| Ok (c : form)        (* returned the assembler module generated from form c *)
| Exn                  (* a Python exception reached the caller *)
| Death                (* the interpreter died (SIGBUS/SIGSEGV in dlopen) *)
| Killed.              (* removed by a crash / SIGKILL *)

Inductive wphase := W0 | W1 | W2 | W3 | W4.
Inductive pc :=
| PMkdir                               (* os.makedirs(MODDIR, exist_ok=True): atomic, idempotent *)
| PChkDir | PCreate                    (* `if not os.path.isdir(MODDIR): os.makedirs(MODDIR)`: two steps *)
| PImport | PMkdtemp
| PWrite (r : role) (w : wphase)
| PReplace | PCleanup | PReimport
| PDone (o : outcome).

Record proc := mkproc { pform : form; ppc : pc; preg : form }.

Record state := mkstate {
  files : path -> fstate;
  mtime : path -> nat;
  clock : nat;
  procs : pid -> option proc }.

(* NewCC = New with the check-then-create pair instead of the idempotent mkdir *)
Inductive proto := Old | New | NewCC.
Definition entry (pr : proto) : pc := match pr with NewCC => PChkDir | _ => PMkdir end.

Definition init : state :=
  mkstate (fun _ => Absent) (fun _ => 0) 1 (fun _ => None).

(* where process p, building form n, writes the artefact of role r *)
Definition wpath (pr : proto) (p : pid) (n : form) (r : role) : path :=
  match pr with Old => Final r n | New => Tmp p r | NewCC => Tmp p r end.

Definition write (st : state) (x : path) (v : fstate) : state :=
  mkstate (upd (files st) x v) (upd (mtime st) x (clock st)) (S (clock st)) (procs st).

Definition setproc (st : state) (p : pid) (q : proc) : state :=
  mkstate (files st) (mtime st) (clock st) (fun p' => if Nat.eqb p' p then Some q else procs st p').

Definition goto (st : state) (p : pid) (q : proc) (c : pc) : state :=
  setproc st p (mkproc (pform q) c (preg q)).

Inductive loaded := LOk (c : form) | LErr | LCrash.
Definition load (orc : oracle) (f : fstate) : loaded :=
  match f with
  | Absent => LErr
  | Complete c => LOk c
  | Partial k c => match orc k with Loads => LOk c | ImpErr => LErr | Crash => LCrash end
  end.

Definition exists_ (f : fstate) : bool := match f with Absent => false | _ => true end.

(* distutils newer(source, target) / Cython's c_timestamp < pyx timestamp: the target has to be (re)made *)
Definition stale (st : state) (src tgt : path) : bool :=
  negb (exists_ (files st tgt)) || Nat.ltb (mtime st tgt) (mtime st src).

Definition after_so (pr : proto) : pc := match pr with Old => PReimport | New => PReplace | NewCC => PReplace end.
Definition next_stage (pr : proto) (r : role) : pc :=
  match r with Pyx => PWrite Cfile W0 | Cfile => PWrite Obj W0 | Obj => PWrite So W0 | So => after_so pr end.

Definition begin (st : state) (p : pid) (q : proc) (out : path) (r : role) (c : form) : state :=
  setproc (write st out (Partial Empty c)) p (mkproc (pform q) (PWrite r W1) c).

(* one atomic step of the build stage writing role r, phase w *)
Definition stage (pr : proto) (st : state) (p : pid) (q : proc) (r : role) (w : wphase) : state :=
  let n := pform q in
  let P := wpath pr p n in
  let out := P r in
  match w with
  | W0 =>
      match r with
      | Pyx => begin st p q out Pyx n                      (* open(modfile,'w+') truncates unconditionally *)
      | Cfile =>
          match files st (P Pyx) with
          | Complete c => if stale st (P Pyx) out then begin st p q out Cfile c
                          else goto st p q (next_stage pr Cfile)
          | _ => goto st p q (PDone Exn)                   (* Cython fails on a source that is not all there *)
          end
      | Obj =>
          match files st (P Cfile) with
          | Complete c => if stale st (P Cfile) (P So) then begin st p q out Obj c
                          else goto st p q (after_so pr)   (* build_ext: extension up-to-date, skipped *)
          | _ => goto st p q (PDone Exn)
          end
      | So =>
          match files st (P Obj) with
          | Complete c => if stale st (P Obj) out then begin st p q out So c
                          else goto st p q (after_so pr)
          | _ => goto st p q (PDone Exn)
          end
      end
  | W1 => goto (write st out (Partial Header (preg q))) p q (PWrite r W2)
  | W2 => goto (write st out (Partial Half (preg q))) p q (PWrite r W3)
  | W3 => goto (write st out (Partial AllButLast (preg q))) p q (PWrite r W4)
  | W4 => goto (write st out (Complete (preg q))) p q (next_stage pr r)
  end.

Definition clear_tmp (st : state) (p : pid) : state :=
  mkstate (fun y => match y with Tmp p' _ => if Nat.eqb p' p then Absent else files st y | _ => files st y end)
          (mtime st) (clock st) (procs st).

Definition step_proc (pr : proto) (orc : oracle) (st : state) (p : pid) (q : proc) : state :=
  let n := pform q in
  match ppc q with
  | PMkdir => goto (write st CacheDir (Complete 0)) p q PImport
  | PChkDir => if exists_ (files st CacheDir) then goto st p q PImport else goto st p q PCreate
  | PCreate => if exists_ (files st CacheDir) then goto st p q (PDone Exn)      (* FileExistsError *)
               else goto (write st CacheDir (Complete 0)) p q PImport
  | PImport =>
      match load orc (files st (Final So n)) with
      | LOk c => goto st p q (PDone (Ok c))
      | LErr => goto st p q PMkdtemp
      | LCrash => goto st p q (PDone Death)
      end
  | PMkdtemp => if exists_ (files st CacheDir) then goto st p q (PWrite Pyx W0)
                else goto st p q (PDone Exn)               (* mkdtemp(dir=MODDIR): FileNotFoundError *)
  | PWrite r w => stage pr st p q r w
  | PReplace =>                                          (* os.replace(builddir/so, MODDIR/so) *)
      goto (write (write st (Final So n) (files st (Tmp p So))) (Tmp p So) Absent) p q PCleanup
  | PCleanup => goto (clear_tmp st p) p q PReimport
  | PReimport =>
      match load orc (files st (Final So n)) with
      | LOk c => goto st p q (PDone (Ok c))
      | LErr => goto st p q (PDone Exn)
      | LCrash => goto st p q (PDone Death)
      end
  | PDone _ => st
  end.

(* schedules: any process may take a step, be started, or be killed at any time *)
Inductive label := Spawn (p : pid) (n : form) | Step (p : pid) | Kill (p : pid).

Definition is_done (c : pc) : bool := match c with PDone _ => true | _ => false end.

Definition step (pr : proto) (orc : oracle) (st : state) (l : label) : state :=
  match l with
  | Spawn p n => match procs st p with
                 | None => setproc st p (mkproc n (entry pr) n)
                 | Some _ => st                             (* pids are never reused *)
                 end
  | Step p => match procs st p with Some q => step_proc pr orc st p q | None => st end
  | Kill p => match procs st p with
              | Some q => if is_done (ppc q) then st else goto st p q (PDone Killed)
              | None => st
              end
  end.

Definition run (pr : proto) (orc : oracle) (tr : list label) (st : state) : state :=
  fold_left (step pr orc) tr st.

(* a process running alone *)
Fixpoint solo (pr : proto) (orc : oracle) (fuel : nat) (st : state) (p : pid) : state :=
  match fuel with
  | 0 => st
  | S f => solo pr orc f (step pr orc st (Step p)) p
  end.

Definition outcome_of (st : state) (p : pid) : option outcome :=
  match procs st p with
  | Some q => match ppc q with PDone o => Some o | _ => None end
  | None => None
  end.

(* every process needs at most this many steps *)
Definition rank (c : pc) : nat :=
  let ph w := match w with W0 => 5 | W1 => 4 | W2 => 3 | W3 => 2 | W4 => 1 end in
  match c with
  | PChkDir => 28 | PCreate => 27 | PMkdir => 27
  | PImport => 26 | PMkdtemp => 25
  | PWrite Pyx w => 19 + ph w
  | PWrite Cfile w => 14 + ph w
  | PWrite Obj w => 9 + ph w
  | PWrite So w => 4 + ph w
  | PReplace => 3 | PCleanup => 2 | PReimport => 1
  | PDone _ => 0
  end.
Definition FUEL := 28.

(* ------------------------------------------------------------------------- *)
(* Fault histories (what the correspondence run executes on the real code)   *)
(* ------------------------------------------------------------------------- *)

Definition pc_eqb (a b : pc) : bool :=
  match a, b with
  | PMkdir, PMkdir | PChkDir, PChkDir | PCreate, PCreate
  | PImport, PImport | PMkdtemp, PMkdtemp | PReplace, PReplace | PCleanup, PCleanup
  | PReimport, PReimport => true
  | PWrite r w, PWrite r' w' =>
      role_eqb r r' && match w, w' with W0, W0 | W1, W1 | W2, W2 | W3, W3 | W4, W4 => true | _, _ => false end
  | _, _ => false
  end.

(* advance process p alone until it is about to execute [tgt] (or is done) *)
Fixpoint until (pr : proto) (orc : oracle) (fuel : nat) (st : state) (p : pid) (tgt : pc) : state :=
  match fuel with
  | 0 => st
  | S f => match procs st p with
           | Some q => if pc_eqb (ppc q) tgt || is_done (ppc q) then st
                       else until pr orc f (step pr orc st (Step p)) p tgt
           | None => st
           end
  end.

Definition damage (k : option sizeclass) (f : fstate) : fstate :=
  match k, f with
  | None, _ => Absent                                   (* deleted *)
  | Some _, Absent => Absent                            (* nothing there to truncate *)
  | Some _, Partial k' c => Partial k' c                (* an already damaged file is left as it is *)
  | Some k, Complete c => Partial k c
  end.
Definition has_role (x : path) (r : role) : bool :=
  match x with Final r' _ => role_eqb r' r | Tmp _ r' => role_eqb r' r | CacheDir => false end.
(* external damage of every file of role r in the cache directory *)
Definition damage_all (st : state) (r : role) (k : option sizeclass) : state :=
  mkstate (fun y => if has_role y r then damage k (files st y) else files st y)
          (fun y => if has_role y r then clock st else mtime st y) (S (clock st)) (procs st).

Inductive event :=
| ERun (n : form)                                        (* a fresh process requests form n and runs to its end *)
| EKill (n : form) (tgt : pc)                            (* ... is SIGKILLed when about to execute tgt *)
| EDmg (r : role) (k : option sizeclass)
| ESched (forms : list form) (sched : list (nat * pc)).  (* processes #0.. are started together; entry (i,tgt):
                                                            #i advances alone up to tgt; then all finish in order *)

(* what the harness can see from outside *)
Definition oc_code (n : form) (o : option outcome) : nat :=
  match o with
  | Some (Ok c) => if Nat.eqb c n then 0 else 4          (* 4 = a wrong assembler *)
  | Some Exn => 1 | Some Death => 2 | Some Killed => 3 | None => 5
  end.
Definition fs_code (f : fstate) : nat :=
  match f with
  | Absent => 0 | Complete _ => 1
  | Partial Empty _ => 2 | Partial Header _ => 3 | Partial Half _ => 4 | Partial AllButLast _ => 5
  | Partial Garbage _ => 6
  end.
(* per form: final .so state, and which of .pyx/.c/.o exist under their final names *)
Definition observe_form (st : state) (n : form) : list nat :=
  [fs_code (files st (Final So n)); fs_code (files st (Final Pyx n));
   fs_code (files st (Final Cfile n)); fs_code (files st (Final Obj n))].
(* number of private build directories (of pids < np) that still hold a file *)
Definition tmp_nonempty (st : state) (p : pid) : bool :=
  exists_ (files st (Tmp p Pyx)) || exists_ (files st (Tmp p Cfile)) ||
  exists_ (files st (Tmp p Obj)) || exists_ (files st (Tmp p So)).
Definition observe_fs (st : state) (np : nat) (nforms : nat) : list nat :=
  length (filter (tmp_nonempty st) (seq 0 np)) :: flat_map (observe_form st) (seq 0 nforms).

Fixpoint spawn_all (pr : proto) (orc : oracle) (st : state) (p0 : pid) (fs : list form) : state :=
  match fs with
  | [] => st
  | n :: fs' => spawn_all pr orc (step pr orc st (Spawn p0 n)) (S p0) fs'
  end.
Fixpoint outcomes (st : state) (p0 : pid) (fs : list form) : list nat :=
  match fs with
  | [] => []
  | n :: fs' => oc_code n (outcome_of st p0) :: outcomes st (S p0) fs'
  end.

(* the program counters a process running alone goes through (what the driver's stage hooks record) *)
Definition pc_code (c : pc) : nat :=
  let ph w := match w with W0 => 0 | W1 => 1 | W2 => 2 | W3 => 3 | W4 => 4 end in
  match c with
  | PMkdir => 3 | PChkDir => 4 | PCreate => 5
  | PImport => 1 | PMkdtemp => 2
  | PWrite Pyx w => 10 + ph w | PWrite Cfile w => 20 + ph w | PWrite Obj w => 30 + ph w | PWrite So w => 40 + ph w
  | PReplace => 50 | PCleanup => 51 | PReimport => 52
  | PDone _ => 99
  end.
Fixpoint trace_solo (pr : proto) (orc : oracle) (fuel : nat) (st : state) (p : pid) : list nat :=
  match fuel with
  | 0 => []
  | S f => match procs st p with
           | Some q => if is_done (ppc q) then []
                       else pc_code (ppc q) :: trace_solo pr orc f (step pr orc st (Step p)) p
           | None => []
           end
  end.

(* returns the new state, the next unused pid, the outcome codes of this event's processes and
   (for ERun) the stages the process went through *)
Definition do_event (pr : proto) (orc : oracle) (st : state) (np : pid) (e : event)
  : state * pid * list nat * list nat :=
  match e with
  | ERun n =>
      let st0 := step pr orc st (Spawn np n) in
      let st' := solo pr orc FUEL st0 np in
      (st', S np, [oc_code n (outcome_of st' np)], trace_solo pr orc FUEL st0 np)
  | EKill n tgt =>
      let st1 := until pr orc FUEL (step pr orc st (Spawn np n)) np tgt in
      let st' := step pr orc st1 (Kill np) in
      (st', S np, [oc_code n (outcome_of st' np)], [])
  | EDmg r k => (damage_all st r k, np, [], [])
  | ESched fs sched =>
      let st1 := spawn_all pr orc st np fs in
      let st2 := fold_left (fun s (e : nat * pc) => until pr orc FUEL s (np + fst e) (snd e)) sched st1 in
      let st3 := fold_left (fun s i => solo pr orc FUEL s (np + i)) (seq 0 (length fs)) st2 in
      (st3, np + length fs, outcomes st3 np fs, [])
  end.

(* the whole history: per event the outcome codes, the directory observation afterwards, the stage trace *)
Fixpoint history (pr : proto) (orc : oracle) (nforms : nat) (st : state) (np : pid) (es : list event)
  : list (list nat * list nat * list nat) :=
  match es with
  | [] => []
  | e :: es' =>
      let '(st', np', ocs, trc) := do_event pr orc st np e in
      (ocs, observe_fs st' np' nforms, trc) :: history pr orc nforms st' np' es'
  end.

Definition predict (pr : proto) (orc : oracle) (nforms : nat) (es : list event) :=
  history pr orc nforms init 0 es.

(* the dlopen behaviour measured on the reference machine (re-measured by every run of the check) *)
Definition orc_ref : oracle := fun k =>
  match k with Empty => ImpErr | Header => Crash | Half => Loads | AllButLast => Loads | Garbage => ImpErr end.
