(* C06 -- the traversal of VForm.transform and the composition of passes. *)
From Coq Require Import List String Bool Arith Field.
From Verif.C06 Require Import Model Proofs.
Import ListNotations.

Section Compose.
Variable F : Type.
Variables (f0 f1 : F) (fadd fmul fsub fdiv : F -> F -> F) (fopp finv : F -> F).
Hypothesis Fth : field_theory f0 f1 fadd fmul fsub fopp fdiv finv (@eq F).
Notation eval := (eval F fadd fmul fsub fdiv fopp).
Notation expr := (expr F).
Notation env := (env F).

(* a node function preserves the value in the environment [en] *)
Definition sound_in (en : env) (f : expr -> option expr) : Prop :=
  forall e e', f e = Some e' -> eval en e' = eval en e.

(* the traversal: if the node function preserves the value of every node, the transformed
   tree has the value of the original tree *)
Lemma transform_sound_l : forall en f, sound_in en f -> sound_in en (transform F f).
Proof.
  intros en f Hf e. induction e; intros e' H; simpl in H; try (apply Hf; assumption).
  - destruct (transform F f e) as [x'|] eqn:E; [|discriminate].
    rewrite (Hf _ _ H). simpl. rewrite (IHe x' eq_refl). reflexivity.
  - destruct (transform F f e) as [x'|] eqn:E; [|discriminate].
    rewrite (Hf _ _ H). simpl. rewrite (IHe x' eq_refl). reflexivity.
  - destruct (transform F f e1) as [x'|] eqn:E1; [|discriminate].
    destruct (transform F f e2) as [y'|] eqn:E2; [|discriminate].
    rewrite (Hf _ _ H). simpl. rewrite (IHe1 x' eq_refl), (IHe2 y' eq_refl). reflexivity.
Qed.

(* any sequence of value-preserving passes preserves the value *)
Lemma run_passes_sound_l : forall en fs, Forall (sound_in en) fs ->
  forall e e', run_passes F fs e = Some e' -> eval en e' = eval en e.
Proof.
  intros en fs Hfs. induction Hfs as [|f r Hf Hr IH]; intros e e' H; simpl in H.
  - inversion H. reflexivity.
  - destruct (transform F f e) as [e1|] eqn:E; [|discriminate].
    rewrite (IH e1 e' H). apply (transform_sound_l en f Hf e e1 E).
Qed.

(* the constant-folding pass is the traversal with the rule chain as node function *)
Lemma fold_all_is_transform_l : forall near fzerob e,
  fold_all F f0 f1 fadd fmul fsub fdiv fopp near fzerob e =
  transform F (fold1 F f0 f1 fadd fmul fsub fdiv fopp near fzerob) e.
Proof.
  intros near fzerob e. induction e; try reflexivity.
  - cbn [Model.fold_all Model.transform]. rewrite <- IHe. destruct (fold_all _ _ _ _ _ _ _ _ _ _ e); reflexivity.
  - cbn [Model.fold_all Model.transform]. rewrite <- IHe. destruct (fold_all _ _ _ _ _ _ _ _ _ _ e); reflexivity.
  - cbn [Model.fold_all Model.transform]. rewrite <- IHe1, <- IHe2. reflexivity.
Qed.

(* node functions with a proof of [sound_in] *)
Lemma fold1_sound_in_l : forall near fzerob, (forall c v, near c v = true -> c = v) ->
  forall en, sound_in en (fold1 F f0 f1 fadd fmul fsub fdiv fopp near fzerob).
Proof.
  intros near fzerob Hn en e e' H.
  exact (fold1_sound_l F f0 f1 fadd fmul fsub fdiv fopp finv Fth near fzerob Hn en e e' H).
Qed.

(* replace_physical_derivs as a node function is sound in every environment in which each
   emitted replacement has the value of the physical jet it replaces *)
Lemma rpd_node_sound_in_l : forall st d en,
  (forall n c D p e' ds, rpd_bf F f0 st d n c D p = RNew e' ds -> eval en e' = e_pd en n c D p) ->
  sound_in en (rpd_node F f0 st d).
Proof.
  intros st d en Hj e e' H. destruct e; simpl in H; try (inversion H; reflexivity).
  destruct (rpd_bf F f0 st d name comp D phys) as [|e1 ds|] eqn:E; inversion H; subst.
  - reflexivity.
  - simpl. apply (Hj _ _ _ _ _ _ E).
Qed.

(* finalize on a tree: physical derivatives, then constant folding, then any further
   value-preserving node functions (CSE replacement, trivial variables) *)
Lemma finalize_tree_sound_l : forall near fzerob st d en rest,
  (forall c v, near c v = true -> c = v) ->
  (forall n c D p e' ds, rpd_bf F f0 st d n c D p = RNew e' ds -> eval en e' = e_pd en n c D p) ->
  Forall (sound_in en) rest ->
  forall e e',
  run_passes F (rpd_node F f0 st d :: fold1 F f0 f1 fadd fmul fsub fdiv fopp near fzerob :: rest) e = Some e' ->
  eval en e' = eval en e.
Proof.
  intros near fzerob st d en rest Hn Hj Hrest. apply run_passes_sound_l.
  constructor; [apply rpd_node_sound_in_l; assumption|].
  constructor; [apply fold1_sound_in_l; assumption|]. assumption.
Qed.

(* the CSE replacement and the trivial-variable replacement as node-level passes *)
Lemma cse_pass_sound_in_l : forall en same v,
  (forall e, same e = true -> eval en e = eval en v) ->
  forall e, eval en (cse_subst F same v e) = eval en e.
Proof. intros. apply cse_subst_sound_l. assumption. Qed.

End Compose.
