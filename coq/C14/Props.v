(* C14 -- property theorems only.  Each is closed by [exact] of a lemma of
   Proofs.v and followed by Print Assumptions. *)
From Coq Require Import List Arith.
From Verif.C14 Require Import Model Spec Proofs.
Import ListNotations.

(* Two existing local dofs receive the same global index iff they are connected
   by a chain of declared identifications -- for every number of patches, every
   patch size and every list of dof identifications in any order, with repetitions. *)
Theorem glue_is_closure : forall ps Ns x y,
  valid Ns x -> valid Ns y ->
  let st := fold_left join1 ps init in
  (glob st Ns x = glob st Ns y <-> conn ps x y).
Proof. exact glue_is_closure_l. Qed.
Print Assumptions glue_is_closure.

(* The same for histories of join_boundaries calls (any faces, any flips). *)
Theorem glue_is_closure_boundaries : forall shapes js Ns x y,
  valid Ns x -> valid Ns y ->
  (glob (run shapes js) Ns x = glob (run shapes js) Ns y <-> conn (all_pairs shapes js) x y).
Proof. exact glue_is_closure_bd_l. Qed.
Print Assumptions glue_is_closure_boundaries.

(* Any reordering / repetition of the identifications gives the same partition. *)
Theorem join_order_irrelevant : forall ps qs Ns x y,
  valid Ns x -> valid Ns y -> incl ps qs -> incl qs ps ->
  (glob (fold_left join1 ps init) Ns x = glob (fold_left join1 ps init) Ns y <->
   glob (fold_left join1 qs init) Ns x = glob (fold_left join1 qs init) Ns y).
Proof. exact join_order_irrelevant_l. Qed.
Print Assumptions join_order_irrelevant.

(* The numbering maps into range(numdofs) ... *)
Theorem glob_in_range : forall ps Ns x,
  valid Ns x -> glob (fold_left join1 ps init) Ns x < numdofs (fold_left join1 ps init) Ns.
Proof. exact glob_range_l. Qed.
Print Assumptions glob_in_range.

(* ... and onto it (gap-free), when the joined dofs exist and no dof is joined to itself. *)
Theorem glob_gapfree : forall ps Ns g,
  distinct_pairs ps -> (forall x, mentions ps x -> valid Ns x) ->
  let st := fold_left join1 ps init in
  g < numdofs st Ns -> exists x, valid Ns x /\ glob st Ns x = g.
Proof. exact glob_surjective. Qed.
Print Assumptions glob_gapfree.

(* patch_to_global has exactly one unit entry per local dof (row = the listed global
   index), and its transpose is its left inverse iff no two local dofs of the patch are
   identified with one another. *)
Theorem p2g_one_entry_per_dof : forall st Ns p, length (patch_to_global_idx st Ns p) = nth p Ns 0.
Proof. exact p2g_idx_length. Qed.
Print Assumptions p2g_one_entry_per_dof.

Theorem p2g_left_inverse : forall ps Ns p,
  p < length Ns ->
  let st := fold_left join1 ps init in
  ((forall i j, i < nth p Ns 0 -> j < nth p Ns 0 ->
      (nth i (patch_to_global_idx st Ns p) 0 = nth j (patch_to_global_idx st Ns p) 0 <-> i = j))
   <->
   (forall i j, i < nth p Ns 0 -> j < nth p Ns 0 -> conn ps (p, i) (p, j) -> i = j)).
Proof. exact p2g_left_inverse_l. Qed.
Print Assumptions p2g_left_inverse.

(* Histories of join_boundaries calls on valid faces of two different existing patches (any
   flips, any order, repetitions): every paired dof exists, no dof is paired with itself, and
   therefore the numbering is a gap-free bijection onto the classes -- no hypothesis on the
   identifications is left. *)
From Verif.C14 Require Import ProofsBd.

Theorem boundary_joins_pair_existing_dofs : forall shapes j e,
  bjoin_ok shapes j -> In e (bjoin_pairs shapes j) ->
  fst e <> snd e /\ valid (map prod_list shapes) (fst e) /\ valid (map prod_list shapes) (snd e).
Proof. exact bjoin_pairs_ok. Qed.
Print Assumptions boundary_joins_pair_existing_dofs.

Theorem glob_in_range_boundaries : forall shapes js x,
  valid (map prod_list shapes) x ->
  glob (run shapes js) (map prod_list shapes) x < numdofs (run shapes js) (map prod_list shapes).
Proof. exact glob_in_range_boundaries_l. Qed.
Print Assumptions glob_in_range_boundaries.

Theorem glob_gapfree_boundaries : forall shapes js g,
  Forall (bjoin_ok shapes) js ->
  g < numdofs (run shapes js) (map prod_list shapes) ->
  exists x, valid (map prod_list shapes) x /\ glob (run shapes js) (map prod_list shapes) x = g.
Proof. exact glob_gapfree_boundaries_l. Qed.
Print Assumptions glob_gapfree_boundaries.

(* Multipatch.assemble_system (A += X_p A_p X_p^T, b += X_p b_p, entry by entry in loop order):
   the assembled matrix is the sum of the patch bilinear forms of the restrictions u o glob_p, and
   the assembled vector the sum of the patch functionals -- for every join history, every number of
   patches and all patch matrices/vectors and global vectors.  Together with glue_is_closure this is
   the algebraic half of "the same system as the undivided domain up to renumbering"; the other half
   (the patch forms add up to the form of the undivided domain) is additivity of the integral and is
   compared on the implementation by the run. *)
From Coq Require Import QArith Qcanon.
From Verif.C14 Require Import ProofsAsm.
Close Scope Q_scope.

Theorem assemble_system_bilinear_form : forall ps Ns As u v,
  let st := fold_left join1 ps init in
  let N := numdofs st Ns in
  sumn (fun g => sumn (fun h => v g * asm_mat st Ns As g h * u h)%Qc N) N =
  fold_left (fun acc p => acc +
     sumn (fun i => sumn (fun j => v (glob st Ns (p, i)) * As p i j * u (glob st Ns (p, j))) (nth p Ns 0%nat)) (nth p Ns 0%nat))%Qc
     (seq 0 (length Ns)) 0%Qc.
Proof. exact asm_bilinear_l. Qed.
Print Assumptions assemble_system_bilinear_form.

Theorem assemble_system_rhs_functional : forall ps Ns bs v,
  let st := fold_left join1 ps init in
  let N := numdofs st Ns in
  sumn (fun g => v g * asm_rhs st Ns bs g)%Qc N =
  fold_left (fun acc p => acc + sumn (fun i => v (glob st Ns (p, i)) * bs p i) (nth p Ns 0%nat))%Qc (seq 0 (length Ns)) 0%Qc.
Proof. exact asm_rhs_l. Qed.
Print Assumptions assemble_system_rhs_functional.

(* entry form of one patch contribution: (X A X^T)[g, h] collects exactly the entries A[i, j] whose
   local dofs are numbered g and h *)
Theorem p2g_congruence_entry : forall idx n A g h,
  xaxt idx n A g h =
  sumn (fun i => sumn (fun j => if (Nat.eqb (nth i idx 0%nat) g && Nat.eqb (nth j idx 0%nat) h)%bool then A i j else 0%Qc) n) n.
Proof. exact xaxt_entry. Qed.
Print Assumptions p2g_congruence_entry.
