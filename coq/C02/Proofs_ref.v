(* C02 -- the Cox-de Boor reference (Bsp.Nref / Bsp.dNref): well-formedness, support,
   non-negativity, partition of unity, derivative sums.  For every degree, knot vector, u. *)
From Coq Require Import QArith Qcanon ZArith List Bool Arith Lia Lqa.
From Verif.lib Require Import Bsp.
From Verif.C02 Require Import Proofs.
Import ListNotations.
Open Scope Qc_scope.

(* ------------------------------------------------------------------ *)
(* transfer of order / equality goals over Qc to Q, where lra / nra work *)

Lemma Qc_eq_Qeq (a b : Qc) : a = b -> (this a == this b)%Q.
Proof. intros ->. reflexivity. Qed.

Ltac qc2q :=
  repeat match goal with
  | H : @eq Qc _ _ |- _ => apply Qc_eq_Qeq in H
  | H : ~ (@eq Qc _ _) |- _ =>
      let H' := fresh in assert (H' := fun E => H (Qc_is_canon _ _ E)); clear H
  | |- @eq Qc _ _ => apply Qc_is_canon
  | |- ~ (@eq Qc _ _) => let E := fresh in intro E; apply Qc_eq_Qeq in E; revert E
  end;
  unfold Qcle, Qclt, Qcdiv, Qcminus, Qcplus, Qcopp, Qcmult, Qcinv, Q2Qc in *; cbn [this] in *;
  rewrite ?Qred_correct in *.

Lemma Qcdiv_0_r (x : Qc) : x / 0 = 0.
Proof. qc2q. unfold Qinv; simpl. ring. Qed.

Lemma Qcdiv_0_l (x : Qc) : 0 / x = 0.
Proof. unfold Qcdiv. ring. Qed.

Lemma Qc_mul_0_r (x : Qc) : x * 0 = 0.
Proof. ring. Qed.

Lemma Qc_mult_nonneg (a b : Qc) : 0 <= a -> 0 <= b -> 0 <= a * b.
Proof. intros. qc2q. nra. Qed.

Lemma Qc_inv_nonneg (a : Qc) : 0 <= a -> 0 <= / a.
Proof. intros. qc2q. apply Qinv_le_0_compat. assumption. Qed.

Lemma Qc_div_nonneg (a b : Qc) : 0 <= a -> 0 <= b -> 0 <= a / b.
Proof. intros. unfold Qcdiv. apply Qc_mult_nonneg; [|apply Qc_inv_nonneg]; assumption. Qed.

Lemma Qc_plus_nonneg (a b : Qc) : 0 <= a -> 0 <= b -> 0 <= a + b.
Proof. intros. qc2q. lra. Qed.

(* ------------------------------------------------------------------ *)
(* 1. the boolean well-formedness predicate implies the Prop record *)

Lemma sortedb_adj : forall l, sortedb l = true ->
  forall i, (S i < length l)%nat -> nth i l 0 <= nth (S i) l 0.
Proof.
  induction l as [|a l IH]; intros H i Hi; [simpl in Hi; lia|].
  destruct l as [|b t]; [simpl in Hi; lia|].
  change (sortedb (a :: b :: t)) with (qleb a b && sortedb (b :: t)) in H.
  apply andb_true_iff in H. destruct H as [H1 H2].
  destruct i as [|i].
  - simpl. apply qleb_iff. exact H1.
  - change (nth i (b :: t) 0 <= nth (S i) (b :: t) 0). apply IH; [exact H2|]. simpl in *. lia.
Qed.

Lemma sortedb_sorted kv : sortedb kv = true -> sorted kv.
Proof.
  intros H i j Hij Hj. unfold kn.
  induction Hij as [|j Hij IH].
  - apply Qcle_refl.
  - eapply Qcle_trans; [apply IH; lia|]. apply sortedb_adj; assumption.
Qed.

Lemma forallb_seq_elim (f : nat -> bool) a n i :
  forallb f (seq a n) = true -> (a <= i < a + n)%nat -> f i = true.
Proof.
  intros H Hi. rewrite forallb_forall in H. apply H. apply in_seq. exact Hi.
Qed.

(* the components of open_kv, as Props *)
Lemma open_kv_parts kv p : open_kv kv p = true ->
  (2 * p + 2 <= length kv)%nat /\ sorted kv /\
  (forall i, (i <= p)%nat -> kn kv i = kn kv 0) /\
  (forall i, (i <= p)%nat -> kn kv (length kv - 1 - i) = kn kv (length kv - 1)) /\
  kn kv p < kn kv (S p) /\ kn kv (length kv - p - 2) < kn kv (length kv - p - 1) /\
  (forall i, (1 <= i)%nat -> (i + Nat.max p 1 + 1 < length kv)%nat -> kn kv i < kn kv (i + Nat.max p 1)).
Proof.
  unfold open_kv. intros H.
  repeat (apply andb_true_iff in H; let H' := fresh "H" in destruct H as [H H']).
  apply Nat.leb_le in H.
  split; [exact H|]. split; [apply sortedb_sorted; assumption|].
  split; [|split; [|split; [|split]]].
  - intros i Hi. apply qeqb_iff. apply (forallb_seq_elim _ _ _ i H4). lia.
  - intros i Hi. apply qeqb_iff. apply (forallb_seq_elim _ _ _ i H3). lia.
  - apply qltb_iff. assumption.
  - apply qltb_iff. assumption.
  - intros i Hi1 Hi2. apply qltb_iff.
    apply (forallb_seq_elim _ _ _ i H0). lia.
Qed.

Lemma open_kv_ok_l kv p : open_kv kv p = true -> kv_ok kv p.
Proof.
  intros H. destruct (open_kv_parts kv p H) as [A [B [C [D [E [F G]]]]]].
  constructor.
  - exact A.
  - exact B.
  - apply C. lia.
  - replace (length kv - p - 1)%nat with (length kv - 1 - p)%nat by lia. apply D. lia.
  - exact F.
Qed.

(* ------------------------------------------------------------------ *)
(* 2. support and non-negativity of the reference *)

Definition lastk (kv : list Qc) : Qc := kn kv (length kv - 1).

(* u lies in the support [t_i, t_{i+p+1}) of N_{i,p}, closed at the right end of the knot vector *)
Definition supp (kv : list Qc) (p i : nat) (u : Qc) : Prop :=
  (kn kv i <= u /\ u < kn kv (i + p + 1)) \/
  (u = lastk kv /\ kn kv i < lastk kv /\ kn kv (i + p + 1) = lastk kv).

Lemma in_span_true kv i u : in_span kv i u = true -> supp kv 0 i u.
Proof.
  unfold in_span, supp. fold (lastk kv). replace (i + 0 + 1)%nat with (S i) by lia.
  intros H. apply orb_true_iff in H. destruct H as [H|H].
  - apply andb_true_iff in H. destruct H as [H1 H2].
    apply qleb_iff in H1. apply qltb_iff in H2. left. split; assumption.
  - apply andb_true_iff in H. destruct H as [H H3]. apply andb_true_iff in H. destruct H as [H1 H2].
    apply qeqb_iff in H1. apply qltb_iff in H2. apply qeqb_iff in H3.
    right. split; [exact H1|]. split; [rewrite <- H3; exact H2|exact H3].
Qed.

Lemma in_span_intro kv i u :
  (kn kv i <= u /\ u < kn kv (S i)) \/ (u = lastk kv /\ kn kv i < kn kv (S i) /\ kn kv (S i) = lastk kv) ->
  in_span kv i u = true.
Proof.
  unfold in_span. fold (lastk kv). intros [[H1 H2]|[H1 [H2 H3]]]; apply orb_true_iff; [left|right].
  - apply andb_true_iff. split; [apply qleb_iff|apply qltb_iff]; assumption.
  - apply andb_true_iff. split; [apply andb_true_iff; split|].
    + apply qeqb_iff; assumption.
    + apply qltb_iff; assumption.
    + apply qeqb_iff; assumption.
Qed.

Lemma Nref_S kv q i u :
  Nref kv (S q) i u =
  (u - kn kv i) / (kn kv (i + q + 1) - kn kv i) * Nref kv q i u
  + (kn kv (i + q + 2) - u) / (kn kv (i + q + 2) - kn kv (i + 1)) * Nref kv q (i + 1) u.
Proof.
  cbn [Nref]. replace (i + S q)%nat with (i + q + 1)%nat by lia.
  replace (i + q + 1 + 1)%nat with (i + q + 2)%nat by lia.
  replace (S i) with (i + 1)%nat by lia. reflexivity.
Qed.

Lemma N_support kv : sorted kv -> forall p i u,
  (i + p + 1 < length kv)%nat -> Nref kv p i u <> 0 -> supp kv p i u.
Proof.
  intros Hs. induction p as [|q IH]; intros i u Hi Hn.
  - cbn [Nref] in Hn. destruct (in_span kv i u) eqn:E; [|congruence].
    apply in_span_true. exact E.
  - rewrite Nref_S in Hn.
    assert (Hlast : kn kv (i + S q + 1) <= lastk kv) by (apply Hs; lia).
    assert (H01 : kn kv i <= kn kv (i + 1)) by (apply Hs; lia).
    assert (Hq : kn kv (i + q + 1) <= kn kv (i + S q + 1)) by (apply Hs; lia).
    destruct (Qc_eq_dec (Nref kv q i u) 0) as [Z1|N1].
    + destruct (Qc_eq_dec (Nref kv q (i + 1) u) 0) as [Z2|N2].
      * exfalso. apply Hn. rewrite Z1, Z2. ring.
      * apply IH in N2; [|lia]. unfold supp in N2.
        replace (i + 1 + q + 1)%nat with (i + S q + 1)%nat in N2 by lia.
        destruct N2 as [[A B]|[A [B C]]]; [left|right].
        -- split; [eapply Qcle_trans; eassumption|exact B].
        -- split; [exact A|]. split; [eapply Qcle_lt_trans; eassumption|exact C].
    + apply IH in N1; [|lia].
      destruct N1 as [[A B]|[A [B C]]]; [left|right].
      * split; [exact A|]. eapply Qclt_le_trans; eassumption.
      * split; [exact A|]. split; [exact B|].
        apply Qcle_antisym; [exact Hlast|]. rewrite <- C. exact Hq.
Qed.

Lemma supp_bounds kv p i u : supp kv p i u ->
  kn kv i <= u /\ u <= kn kv (i + p + 1) /\ kn kv i < kn kv (i + p + 1).
Proof.
  intros [[A B]|[A [B C]]].
  - split; [exact A|]. split; [apply Qclt_le_weak; exact B|]. eapply Qcle_lt_trans; eassumption.
  - subst u. split; [apply Qclt_le_weak; exact B|]. rewrite C. split; [apply Qcle_refl|exact B].
Qed.

Lemma N_nonneg_l kv : sorted kv -> forall p i u,
  (i + p + 1 < length kv)%nat -> 0 <= Nref kv p i u.
Proof.
  intros Hs. induction p as [|q IH]; intros i u Hi.
  - cbn [Nref]. destruct (in_span kv i u); unfold Qcle; simpl; lra.
  - rewrite Nref_S. apply Qc_plus_nonneg.
    + destruct (Qc_eq_dec (Nref kv q i u) 0) as [Z1|N1].
      * rewrite Z1, Qc_mul_0_r. apply Qcle_refl.
      * apply Qc_mult_nonneg; [|apply IH; lia].
        apply N_support in N1; [|exact Hs|lia]. apply supp_bounds in N1. destruct N1 as [A [B C]].
        assert (kn kv i <= kn kv (i + q + 1)) by (apply Hs; lia).
        apply Qc_div_nonneg; qc2q; lra.
    + destruct (Qc_eq_dec (Nref kv q (i + 1) u) 0) as [Z1|N1].
      * rewrite Z1, Qc_mul_0_r. apply Qcle_refl.
      * apply Qc_mult_nonneg; [|apply IH; lia].
        apply N_support in N1; [|exact Hs|lia]. apply supp_bounds in N1.
        replace (i + 1 + q + 1)%nat with (i + q + 2)%nat in N1 by lia. destruct N1 as [A [B C]].
        apply Qc_div_nonneg; qc2q; lra.
Qed.

(* a non-empty knot span containing u (closed at the right end of the knot vector) *)
Definition span_ok (kv : list Qc) (s : nat) (u : Qc) : Prop :=
  (S s < length kv)%nat /\ kn kv s < kn kv (S s) /\ kn kv s <= u /\
  (u < kn kv (S s) \/ (u = lastk kv /\ kn kv (S s) = lastk kv)).

Lemma findspan_span_ok kv p u :
  kv_ok kv p -> kn kv 0 <= u -> u <= lastk kv ->
  span_ok kv (findspan kv p u) u /\ (p <= findspan kv p u)%nat /\
  (findspan kv p u + p + 1 < length kv)%nat.
Proof.
  intros Hok H0 H1. destruct (findspan_spec_l kv p u Hok H0 H1) as [A [B [C [D E]]]].
  pose proof (ok_len _ _ Hok).
  split; [|split; [exact A|lia]].
  split; [lia|]. split; [exact C|]. split; [exact D|exact E].
Qed.

Lemma N_zero_right kv : sorted kv -> forall s u p i,
  span_ok kv s u -> (i + p + 1 < length kv)%nat -> (s < i)%nat -> Nref kv p i u = 0.
Proof.
  intros Hs s u p i [L [Hne [Hl Hr]]] Hi Hsi.
  destruct (Qc_eq_dec (Nref kv p i u) 0) as [Z|N]; [exact Z|exfalso].
  apply N_support in N; [|exact Hs|exact Hi].
  assert (A : kn kv (S s) <= kn kv i) by (apply Hs; lia).
  assert (B : kn kv (i + p + 1) <= lastk kv) by (apply Hs; lia).
  destruct N as [[N1 N2]|[N1 [N2 N3]]]; destruct Hr as [Hr|[Hr1 Hr2]]; qc2q; lra.
Qed.

Lemma N_zero_left kv : sorted kv -> forall s u p i,
  span_ok kv s u -> (i + p < s)%nat -> Nref kv p i u = 0.
Proof.
  intros Hs s u p i [L [Hne [Hl Hr]]] Hsi.
  destruct (Qc_eq_dec (Nref kv p i u) 0) as [Z|N]; [exact Z|exfalso].
  apply N_support in N; [|exact Hs|lia].
  assert (A : kn kv (i + p + 1) <= kn kv s) by (apply Hs; lia).
  assert (B : kn kv (S s) <= lastk kv) by (apply Hs; lia).
  destruct N as [[N1 N2]|[N1 [N2 N3]]]; qc2q; lra.
Qed.

Lemma N_local_l kv p u i :
  kv_ok kv p -> kn kv 0 <= u -> u <= kn kv (length kv - 1) -> (i + p + 1 < length kv)%nat ->
  ~ (findspan kv p u - p <= i <= findspan kv p u)%nat -> Nref kv p i u = 0.
Proof.
  intros Hok H0 H1 Hi Hn.
  destruct (findspan_span_ok kv p u Hok H0 H1) as [Hsp [Hp Hq]].
  pose proof (ok_sorted _ _ Hok) as Hs.
  destruct (Nat.lt_ge_cases (findspan kv p u) i) as [L|L].
  - eapply N_zero_right; eassumption.
  - eapply N_zero_left; [exact Hs|exact Hsp|lia].
Qed.

(* support in terms of the knots themselves *)
Lemma N_support_l kv p i u :
  sorted kv -> (i + p + 1 < length kv)%nat -> Nref kv p i u <> 0 ->
  (kn kv i <= u /\ u < kn kv (i + p + 1)) \/
  (u = kn kv (length kv - 1) /\ kn kv i < kn kv (length kv - 1) /\ kn kv (i + p + 1) = kn kv (length kv - 1)).
Proof. intros Hs Hi Hn. exact (N_support kv Hs p i u Hi Hn). Qed.

(* ------------------------------------------------------------------ *)
(* 3. finite sums and the partition of unity *)

(* sumf f a n = f a + f (a+1) + ... + f (a+n-1) *)
Fixpoint sumf (f : nat -> Qc) (a n : nat) : Qc :=
  match n with
  | O => 0
  | S n' => f a + sumf f (S a) n'
  end.

Lemma sumf_ext f g : forall n a, (forall i, (a <= i < a + n)%nat -> f i = g i) -> sumf f a n = sumf g a n.
Proof.
  induction n as [|n IH]; intros a H; [reflexivity|].
  cbn [sumf]. rewrite (H a) by lia. rewrite (IH (S a)); [reflexivity|]. intros i Hi. apply H. lia.
Qed.

Lemma sumf_zero f : forall n a, (forall i, (a <= i < a + n)%nat -> f i = 0) -> sumf f a n = 0.
Proof.
  induction n as [|n IH]; intros a H; [reflexivity|].
  cbn [sumf]. rewrite (H a) by lia. rewrite (IH (S a)); [ring|]. intros i Hi. apply H. lia.
Qed.

Lemma sumf_app f : forall m n a, sumf f a (m + n) = sumf f a m + sumf f (a + m) n.
Proof.
  induction m as [|m IH]; intros n a.
  - cbn [sumf Nat.add]. replace (a + 0)%nat with a by lia. ring.
  - cbn [sumf Nat.add]. rewrite IH. replace (S a + m)%nat with (a + S m)%nat by lia. ring.
Qed.

Lemma sumf_scale c f : forall n a, sumf (fun i => c * f i) a n = c * sumf f a n.
Proof.
  induction n as [|n IH]; intros a; cbn [sumf]; [ring|]. rewrite IH. ring.
Qed.

(* sum_{i=a}^{a+n} (g i + h (i+1)) = g a + sum_{i=a+1}^{a+n} (g i + h i) + h (a+n+1) *)
Lemma sumf_shift g h : forall n a,
  sumf (fun i => g i + h (i + 1)%nat) a (S n) =
  g a + sumf (fun i => g i + h i) (S a) n + h (a + S n)%nat.
Proof.
  induction n as [|n IH]; intros a.
  - cbn [sumf]. ring.
  - change (sumf (fun i => g i + h (i + 1)%nat) a (S (S n)))
      with (g a + h (a + 1)%nat + sumf (fun i => g i + h (i + 1)%nat) (S a) (S n)).
    rewrite IH. cbn [sumf]. replace (a + 1)%nat with (S a) by lia.
    replace (S a + S n)%nat with (a + S (S n))%nat by lia. ring.
Qed.

(* telescoping *)
Lemma sumf_telescope g : forall n a,
  sumf (fun i => g i - g (S i)) a n = g a - g (a + n)%nat.
Proof.
  induction n as [|n IH]; intros a; cbn [sumf].
  - replace (a + 0)%nat with a by lia. ring.
  - rewrite IH. replace (S a + n)%nat with (a + S n)%nat by lia. ring.
Qed.

(* the recursion with the second weight written as 1 - (first weight of the next function) *)
Lemma Nref_S_alt kv : sorted kv -> forall q i u, (i + q + 2 < length kv)%nat ->
  Nref kv (S q) i u =
  (u - kn kv i) / (kn kv (i + q + 1) - kn kv i) * Nref kv q i u
  + (1 - (u - kn kv (i + 1)) / (kn kv (i + 1 + q + 1) - kn kv (i + 1))) * Nref kv q (i + 1) u.
Proof.
  intros Hs q i u Hi. rewrite Nref_S. f_equal.
  replace (i + 1 + q + 1)%nat with (i + q + 2)%nat by lia.
  destruct (Qc_eq_dec (Nref kv q (i + 1) u) 0) as [Z|N].
  - rewrite Z. ring.
  - apply N_support in N; [|exact Hs|lia]. apply supp_bounds in N.
    replace (i + 1 + q + 1)%nat with (i + q + 2)%nat in N by lia. destruct N as [_ [_ C]].
    f_equal. field. qc2q. lra.
Qed.

Lemma N_pou_span kv : sorted kv -> forall s u, span_ok kv s u ->
  forall q, (q <= s)%nat -> (s + q + 1 < length kv)%nat ->
  sumf (fun i => Nref kv q i u) (s - q) (S q) = 1.
Proof.
  intros Hs s u Hsp. induction q as [|q IH]; intros Hq Hl.
  - cbn [sumf Nref]. replace (s - 0)%nat with s by lia.
    rewrite in_span_intro; [ring|].
    destruct Hsp as [L [Hne [Hl' Hr]]]. destruct Hr as [Hr|[Hr1 Hr2]]; [left|right]; auto.
  - set (A := fun i => (u - kn kv i) / (kn kv (i + q + 1) - kn kv i)).
    set (f := fun i => Nref kv q i u).
    set (G := fun i => A i * f i). set (H := fun j => (1 - A j) * f j).
    rewrite (sumf_ext _ (fun i => G i + H (i + 1)%nat)).
    2:{ intros i Hi. unfold G, H, A, f. apply Nref_S_alt; [exact Hs|lia]. }
    rewrite (sumf_shift G H). unfold G, H.
    assert (Z1 : f (s - S q)%nat = 0).
    { unfold f. eapply N_zero_left; [exact Hs|exact Hsp|lia]. }
    assert (Z2 : f (s - S q + S (S q))%nat = 0).
    { unfold f. eapply N_zero_right; [exact Hs|exact Hsp|lia|lia]. }
    rewrite Z1, Z2.
    rewrite (sumf_ext _ f).
    2:{ intros i Hi. ring. }
    replace (S (s - S q)) with (s - q)%nat by lia.
    unfold f. rewrite IH by lia. ring.
Qed.

Lemma N_partition_of_unity_l kv p u :
  kv_ok kv p -> kn kv 0 <= u -> u <= kn kv (length kv - 1) ->
  sumf (fun i => Nref kv p i u) (findspan kv p u - p) (S p) = 1.
Proof.
  intros Hok H0 H1. destruct (findspan_span_ok kv p u Hok H0 H1) as [Hsp [Hp Hq]].
  apply N_pou_span; try assumption. exact (ok_sorted _ _ Hok).
Qed.

Lemma N_partition_of_unity_all_l kv p u :
  kv_ok kv p -> kn kv 0 <= u -> u <= kn kv (length kv - 1) ->
  sumf (fun i => Nref kv p i u) 0 (numdofs kv p) = 1.
Proof.
  intros Hok H0 H1. destruct (findspan_span_ok kv p u Hok H0 H1) as [Hsp [Hp Hq]].
  pose proof (ok_sorted _ _ Hok) as Hs.
  set (s := findspan kv p u) in *. unfold numdofs.
  replace (length kv - p - 1)%nat with ((s - p) + (S p + (length kv - p - 1 - S s)))%nat by lia.
  rewrite !sumf_app. cbn [Nat.add].
  rewrite (sumf_zero _ (s - p) 0).
  2:{ intros i Hi. eapply N_zero_left; [exact Hs|exact Hsp|lia]. }
  rewrite (sumf_zero _ (length kv - p - 1 - S s)).
  2:{ intros i Hi. eapply N_zero_right; [exact Hs|exact Hsp|lia|lia]. }
  fold s in Hp. pose proof (N_partition_of_unity_l kv p u Hok H0 H1) as P. fold s in P.
  rewrite P. ring.
Qed.

(* ------------------------------------------------------------------ *)
(* 4. derivatives of the reference *)

Lemma dN_high_zero_l kv : forall k p i u, (p < k)%nat -> dNref kv k p i u = 0.
Proof.
  induction k as [|k IH]; intros p i u H; [lia|].
  destruct p as [|q]; [reflexivity|].
  cbn [dNref]. rewrite !IH by lia. rewrite !Qcdiv_0_l. ring.
Qed.

Lemma dN_zero_outside kv : sorted kv -> forall s u, span_ok kv s u ->
  forall k p i, (i + p + 1 < length kv)%nat -> (i + p < s \/ s < i)%nat -> dNref kv k p i u = 0.
Proof.
  intros Hs s u Hsp. induction k as [|k IH]; intros p i Hi Ho.
  - cbn [dNref]. destruct Ho as [Ho|Ho].
    + eapply N_zero_left; eassumption.
    + eapply N_zero_right; eassumption.
  - destruct p as [|q]; [reflexivity|].
    cbn [dNref]. rewrite (IH q i) by lia. rewrite (IH q (S i)) by lia.
    rewrite !Qcdiv_0_l. ring.
Qed.

Lemma dN_local_l kv p u k i :
  kv_ok kv p -> kn kv 0 <= u -> u <= kn kv (length kv - 1) -> (i + p + 1 < length kv)%nat ->
  ~ (findspan kv p u - p <= i <= findspan kv p u)%nat -> dNref kv k p i u = 0.
Proof.
  intros Hok H0 H1 Hi Hn.
  destruct (findspan_span_ok kv p u Hok H0 H1) as [Hsp [Hp Hq]].
  eapply dN_zero_outside; [exact (ok_sorted _ _ Hok)|exact Hsp|exact Hi|lia].
Qed.

(* dNref (S k) (S q) as a difference g i - g (i+1) *)
Definition dquot (kv : list Qc) (k q : nat) (u : Qc) (i : nat) : Qc :=
  dNref kv k q i u / (kn kv (i + S q) - kn kv i).

Lemma dNref_S kv k q i u :
  dNref kv (S k) (S q) i u = Zq (Z.of_nat (S q)) * (dquot kv k q u i - dquot kv k q u (S i)).
Proof.
  cbn [dNref]. unfold dquot.
  replace (i + S q + 1)%nat with (S i + S q)%nat by lia.
  replace (i + 1)%nat with (S i) by lia. reflexivity.
Qed.

Lemma dN_sum_range kv k q u a n :
  sumf (fun i => dNref kv (S k) (S q) i u) a n =
  Zq (Z.of_nat (S q)) * (dquot kv k q u a - dquot kv k q u (a + n)).
Proof.
  rewrite (sumf_ext _ (fun i => Zq (Z.of_nat (S q)) * (dquot kv k q u i - dquot kv k q u (S i)))).
  2:{ intros i _. apply dNref_S. }
  rewrite sumf_scale, sumf_telescope. reflexivity.
Qed.

(* over the p+1 active functions *)
Lemma dN_sum_zero_l kv p u k :
  kv_ok kv p -> kn kv 0 <= u -> u <= kn kv (length kv - 1) -> (1 <= k)%nat ->
  sumf (fun i => dNref kv k p i u) (findspan kv p u - p) (S p) = 0.
Proof.
  intros Hok H0 H1 Hk. destruct k as [|k]; [lia|].
  destruct (findspan_span_ok kv p u Hok H0 H1) as [Hsp [Hp Hq]].
  pose proof (ok_sorted _ _ Hok) as Hs. set (s := findspan kv p u) in *.
  destruct p as [|q].
  - apply sumf_zero. intros i _. reflexivity.
  - rewrite dN_sum_range. unfold dquot.
    rewrite (dN_zero_outside kv Hs s u Hsp k q (s - S q)) by lia.
    rewrite (dN_zero_outside kv Hs s u Hsp k q (s - S q + S (S q))) by lia.
    rewrite !Qcdiv_0_l. ring.
Qed.

(* over all basis functions *)
Lemma dN_sum_zero_all_l kv p u k :
  kv_ok kv p -> (1 <= k)%nat ->
  sumf (fun i => dNref kv k p i u) 0 (numdofs kv p) = 0.
Proof.
  intros Hok Hk. destruct k as [|k]; [lia|].
  destruct p as [|q].
  - apply sumf_zero. intros i _. reflexivity.
  - rewrite dN_sum_range. unfold dquot, numdofs. cbn [Nat.add].
    pose proof (ok_len _ _ Hok) as Hl.
    rewrite (ok_first _ _ Hok).
    replace (length kv - S q - 1 + S q)%nat with (length kv - 1)%nat by lia.
    rewrite (ok_last _ _ Hok).
    replace (kn kv 0 - kn kv 0) with 0 by ring.
    replace (kn kv (length kv - 1) - kn kv (length kv - 1)) with 0 by ring.
    rewrite !Qcdiv_0_r. ring.
Qed.
