(* C03 -- lemmas, part 2: the load vector, and the entry characterisation for the CONCRETE index sets
   (neighbors / interlevel / to_assemble of Model.v, representations = products of Kronecker prolongators). *)
From Coq Require Import List Arith Bool Lia NArith Ring.
From Verif.lib Require Import FinSet.
From Verif.C04 Require Import Model Proofs ProofsFun.
From Verif.C03 Require Import Model Proofs.
Import ListNotations.

(* ------------------------------------------------------------------------- *)
(* assemble_functional: entry characterisation                                 *)

Lemma nth_flat_map_seq : forall (T : Type) (g : nat -> list T) (d : T) k n a p,
  k < n -> p < length (g (a + k)) ->
  nth (fold_right Nat.add 0 (map (fun l => length (g l)) (seq a k)) + p) (flat_map g (seq a n)) d = nth p (g (a + k)) d.
Proof.
  induction k as [|k IH]; intros n a p Hk Hp.
  - destruct n as [|n]; [lia|]. simpl. rewrite Nat.add_0_r in *. rewrite app_nth1; auto.
  - destruct n as [|n]; [lia|]. simpl.
    rewrite <- Nat.add_assoc. rewrite app_nth2_plus.
    replace (a + S k) with (S a + k) in * by lia. apply IH; auto. lia.
Qed.

Lemma nth_map_any : forall (A B : Type) (f : A -> B) l p d d', p < length l -> nth p (map f l) d = f (nth p l d').
Proof. induction l as [|x l IH]; intros p d d' H; simpl in *; [lia|]. destruct p; auto. apply IH. lia. Qed.

Section Functional.
Variable R : Type.
Variable r0 : R.
Variable st : hspace.
Variable blev : nat -> list R.

(* entry number (offset k + p) of the HB load vector is the entry of the level-k tensor-product load vector
   at the raveled index of the p-th active function of level k: every hierarchical basis function is
   integrated with the data (quadrature) of ITS OWN level *)
Lemma functional_entry_l : forall k p,
  k < L st -> p < length (AFm st k) ->
  nth (N.to_nat (offset st k) + p) (rhs_hb R r0 st blev) r0
  = nth (N.to_nat (ravel (shape st k) (nth p (AFm st k) []))) (blev k) r0.
Proof.
  intros k p Hk Hp. unfold rhs_hb, offset. rewrite Nnat.Nat2N.id.
  set (g := fun k0 => map (fun i : N => nth (N.to_nat i) (blev k0) r0) (new_loc st k0)).
  assert (Hlen : forall l, length (g l) = length (AFm st l)).
  { intros l. unfold g, new_loc, rav. rewrite !map_length. reflexivity. }
  replace (map (fun l => length (AFm st l)) (seq 0 k)) with (map (fun l => length (g l)) (seq 0 k))
    by (apply map_ext; intros; apply Hlen).
  rewrite (nth_flat_map_seq R g r0 k (L st) 0 p Hk) by (simpl; rewrite Hlen; auto).
  simpl. unfold g, new_loc, rav.
  rewrite (nth_map_any _ _ _ _ p r0 0%N) by (rewrite map_length; auto).
  f_equal. f_equal. apply nth_map_any. auto.
Qed.
End Functional.

(* ------------------------------------------------------------------------- *)
(* concrete sets                                                               *)

Lemma In_prod_lists : forall ls x, In x (prod_lists ls) <-> Forall2 (fun l xi => In xi l) ls x.
Proof.
  induction ls as [|l ls IH]; intros x; simpl.
  - split; [intros [H|[]]; subst; constructor | intros H; inversion H; auto].
  - rewrite in_flat_map. split.
    + intros [i [Hi Hx]]. apply in_map_iff in Hx. destruct Hx as [y [Hy Hin]]. subst x. constructor; auto. apply IH; auto.
    + intros H. inversion H as [|l' xi ls' x' Hr Hrest]; subst. exists xi. split; auto. apply in_map. apply IH; auto.
Qed.

Lemma fold_union_In : forall (T : Type) (g : T -> set) (l : list T) acc x,
  In x (fold_left (fun acc t => union acc (g t)) l acc) <-> In x acc \/ exists t, In t l /\ In x (g t).
Proof.
  intros T g l. induction l as [|t l IH]; intros acc x; simpl.
  - split; [auto | intros [H|[t [[] _]]]; auto].
  - rewrite IH, union_In. split.
    + intros [[H|H]|[t' [H1 H2]]]; auto; right; [exists t | exists t']; auto.
    + intros [H|[t' [[->|H1] H2]]]; auto. right; exists t'; auto.
Qed.

Lemma fold_union_sorted : forall (T : Type) (g : T -> set) (l : list T) acc,
  sorted acc -> (forall t, sorted (g t)) -> sorted (fold_left (fun acc t => union acc (g t)) l acc).
Proof.
  intros T g l. induction l as [|t l IH]; intros acc Ha Hg; simpl; auto.
  apply IH; auto. apply union_sorted; auto.
Qed.

Section Concrete.
Variable R : Type.
Variables (r0 r1 : R) (radd rmul rsub : R -> R -> R) (ropp : R -> R).
Hypothesis Rth : ring_theory r0 r1 radd rmul rsub ropp eq.
Add Ring Rring2 : Rth.
Variable st : hspace.
Variable pmat : nat -> nat -> smat R.

Notation sum := (sumf R r0 radd).
Notation fns := (fun k => tp_functions (msh st k)).

(* entry (i, j) of the 1-D prolongator of level lv, axis d; entry (r', r) of their Kronecker product by multi-index *)
Definition p1 (lv d i j : nat) : R := sv_get R r0 (nth i (pmat lv d) []) (N.of_nat j).
Fixpoint kron_entry (lv d : nat) (r' r : mi) : R :=
  match r', r with
  | [], [] => r1
  | i :: r't, j :: rt => rmul (p1 lv d i j) (kron_entry lv (S d) r't rt)
  | _, _ => r0
  end.

(* coefficient of the level-(l+n) function r in the level-l function f: product of n Kronecker prolongators *)
Fixpoint repn (n l : nat) (f r : mi) : R :=
  match n with
  | 0 => if mi_eqb r f then r1 else r0
  | S n' => sum (fun q => rmul (kron_entry (Nat.add l n') 0 r q) (repn n' l f q)) (fns (Nat.add l n'))
  end.
Definition repc (l k : nat) (f r : mi) : R := repn (k - l) l f r.

(* pattern: an entry of the Kronecker product outside the children pattern is zero *)
Lemma children_1d_In : forall lv d j i,
  ~ In i (children_1d R pmat lv d j) -> p1 lv d i j = r0.
Proof.
  intros lv d j i H. unfold p1, sv_get. unfold children_1d in H.
  destruct (sv_find R (nth i (pmat lv d) []) (N.of_nat j)) eqn:E; auto.
  exfalso. apply H. apply filter_In. split.
  - apply in_seq. destruct (Nat.lt_ge_cases i (length (pmat lv d))) as [Hl|Hl]; [lia|].
    rewrite nth_overflow in E by auto. discriminate.
  - rewrite E. reflexivity.
Qed.

Lemma kron_entry_pattern : forall lv r d r',
  ~ In r' (prod_lists (axes_children R pmat lv d r)) -> kron_entry lv d r' r = r0.
Proof.
  intros lv. induction r as [|j rt IH]; intros d r' H.
  - destruct r' as [|i r't]; simpl; auto. exfalso. apply H. simpl. auto.
  - destruct r' as [|i r't]; simpl; auto.
    destruct (in_dec Nat.eq_dec i (children_1d R pmat lv d j)) as [Hi|Hi].
    + rewrite (IH (S d) r't); [ring|]. intros Hin. apply H. simpl.
      apply in_flat_map. exists i. split; auto. apply in_map. auto.
    + rewrite (children_1d_In _ _ _ _ Hi). ring.
Qed.

Lemma fchildren_In : forall lv fs r',
  In r' (fchildren R pmat lv fs) <-> exists f, In f fs /\ In r' (prod_lists (axes_children R pmat lv 0 f)).
Proof.
  intros lv fs r'. unfold fchildren. rewrite of_list_In, in_flat_map. reflexivity.
Qed.

(* function_grandchildren peeled from the top *)
Lemma fgrand_top : forall n lv fs, fgrand R pmat (S n) lv fs = fchildren R pmat (Nat.add lv n) (fgrand R pmat n lv fs).
Proof.
  induction n as [|n IH]; intros lv fs.
  - simpl. rewrite Nat.add_0_r. reflexivity.
  - change (fgrand R pmat (S (S n)) lv fs) with (fgrand R pmat (S n) (S lv) (fchildren R pmat lv fs)).
    rewrite IH. replace (Nat.add lv (S n)) with (Nat.add (S lv) n) by lia. reflexivity.
Qed.

Lemma fgrand_mono : forall n lv fs1 fs2 r, (forall f, In f fs1 -> In f fs2) ->
  In r (fgrand R pmat n lv fs1) -> In r (fgrand R pmat n lv fs2).
Proof.
  induction n as [|n IH]; intros lv fs1 fs2 r Hs H; simpl in *; auto.
  eapply IH; [|exact H]. intros f Hf. apply fchildren_In in Hf. destruct Hf as [g [Hg Hf]].
  apply fchildren_In. exists g. split; auto.
Qed.

(* support pattern of a product of Kronecker prolongators *)
Lemma repn_pattern : forall n l f r, ~ In r (fgrand R pmat n l [f]) -> repn n l f r = r0.
Proof.
  induction n as [|n IH]; intros l f r H.
  - simpl in *. destruct (mi_eqb r f) eqn:E; auto. apply mi_eqb_eq in E. subst. exfalso. apply H. left; auto.
  - simpl. apply (sum_zero R r0 r1 radd rmul rsub ropp Rth). intros q _.
    destruct (In_dec_mi q (fgrand R pmat n l [f])) as [Hq|Hq].
    + rewrite kron_entry_pattern; [ring|]. intros Hin. apply H. rewrite fgrand_top. apply fchildren_In. exists q. auto.
    + rewrite (IH l f q Hq). ring.
Qed.

(* hypothesis (1) of hassemble_entry_{lower,upper}_partial for the concrete sets *)
Lemma rep_in_interlevel : forall l k f r, l < k ->
  In f (nbr st k l) -> ~ In r (interlevel R st pmat k) -> repc l k f r = r0.
Proof.
  intros l k f r Hlt Hf Hr. unfold repc. apply repn_pattern. intros Hin. apply Hr.
  unfold interlevel.
  apply (fold_union_In nat (fun lv => of_list (fgrand R pmat (k - lv) lv (nbr st k lv)))). right.
  exists l. split; [apply in_seq; lia|]. apply of_list_In.
  eapply fgrand_mono; [|exact Hin]. intros g [<-|[]]. auto.
Qed.

Lemma interlevel_sorted : forall k, sorted (interlevel R st pmat k).
Proof.
  intros k. unfold interlevel.
  apply (fold_union_sorted nat (fun lv => of_list (fgrand R pmat (k - lv) lv (nbr st k lv)))).
  - apply sorted_nil.
  - intros t. apply of_list_sorted.
Qed.

Lemma interlevel_to_assemble : forall k r, In r (interlevel R st pmat k) -> In r (to_assemble R st pmat k).
Proof. intros k r H. unfold to_assemble. apply union_In. auto. Qed.

Lemma AF_to_assemble : forall k f, In f (AFm st k) -> In f (to_assemble R st pmat k).
Proof. intros k f H. unfold to_assemble. apply union_In. auto. Qed.

Lemma repc_diag : forall k f r, repc k k f r = if mi_eqb r f then r1 else r0.
Proof. intros k f r. unfold repc. rewrite Nat.sub_diag. reflexivity. Qed.

(* ---- geometry: children lie inside the parent's support -------------------------------- *)
(* P_local: a stored entry (r', r) of the level-lv Kronecker prolongator implies that every cell of the support of
   the fine function r' has its parent in the support of the coarse function r (a property of the two-scale
   relation of nested spline spaces; named hypothesis on the data pmat). *)
Definition P_local : Prop := forall lv r r' c,
  In r' (prod_lists (axes_children R pmat lv 0 r)) ->
  In c (support1 (msh st (S lv)) r') -> In (parent1 c) (support1 (msh st lv) r).

Lemma grand_support : P_local -> forall n l f r c,
  In r (fgrand R pmat n l [f]) -> In c (support1 (msh st (Nat.add l n)) r) -> In (anc n c) (support1 (msh st l) f).
Proof.
  intros HP. induction n as [|n IH]; intros l f r c Hr Hc.
  - simpl in Hr. destruct Hr as [<-|[]]. rewrite Nat.add_0_r in Hc. exact Hc.
  - rewrite fgrand_top in Hr. apply fchildren_In in Hr. destruct Hr as [q [Hq Hr]].
    rewrite anc_S, <- anc_parent_comm. apply (IH l f q); auto.
    apply (HP (Nat.add l n) q r c); auto. replace (S (l + n)) with (l + S n) by lia. exact Hc.
Qed.

(* locality of the level forms: functions of level k with disjoint supports do not interact *)
Definition local (a : nat -> mi -> mi -> R) : Prop := forall k r c,
  (forall x, In x (support1 (msh st k) r) -> ~ In x (support1 (msh st k) c)) -> a k r c = r0.

Section Entry.
Variable a : nat -> mi -> mi -> R.
Hypothesis a_local : local a.
Hypothesis Ploc : P_local.
Hypothesis meshes : forall k, k < numlevels st -> mesh_ok (msh st k).
Hypothesis dims : forall k k', k < numlevels st -> k' < numlevels st -> dim (msh st k) = dim (msh st k').
Hypothesis AF_in_F : forall k f, In f (AFm st k) -> In f (tp_functions (msh st k)).
Hypothesis il_in_F : forall k r, In r (interlevel R st pmat k) -> In r (tp_functions (msh st k)).

Lemma anc_length : forall n c, length (anc n c) = length c.
Proof. induction n as [|n IH]; intros c; [reflexivity|]. rewrite anc_S. unfold parent1. rewrite map_length. auto. Qed.

(* hypothesis (2): a coarse active function that is not a neighbour has no non-zero term with fj *)
Lemma non_neighbour_terms : forall li fi lj fj r,
  li < lj -> lj < numlevels st -> In fi (AFm st li) -> In fj (AFm st lj) -> In r (tp_functions (msh st lj)) ->
  ~ In fi (nbr st lj li) ->
  rmul (repc li lj fi r) (a lj r fj) = r0 /\ rmul (a lj fj r) (repc li lj fi r) = r0.
Proof.
  intros li fi lj fj r Hlt HL Hfi Hfj Hr Hn.
  destruct (In_dec_mi r (fgrand R pmat (lj - li) li [fi])) as [Hg|Hg].
  - assert (Hdis : forall x, In x (support1 (msh st lj) r) -> ~ In x (support1 (msh st lj) fj)).
    { intros x Hx Hxj. apply Hn. unfold nbr.
      apply (neighbors_complete_l st None lj li fi fj x); auto.
      - apply meshes. lia.
      - rewrite anc_length. rewrite (dims li lj ltac:(lia) HL). apply (mo_len _ (meshes lj HL)).
        apply (mo_incells _ (meshes lj HL) fj); auto.
      - apply (grand_support Ploc (lj - li) li fi r x); auto. replace (li + (lj - li)) with lj by lia. exact Hx. }
    split.
    + rewrite (a_local lj r fj Hdis). ring.
    + rewrite (a_local lj fj r); [ring|]. intros x Hx Hxr. apply (Hdis x); auto.
  - unfold repc. rewrite (repn_pattern _ _ _ _ Hg). split; ring.
Qed.

Notation blk := (blk_entry R r0 radd rmul a repc (nbr st) (interlevel R st pmat) (to_assemble R st pmat)).
Notation spec := (spec_entry R r0 radd rmul a repc (fun k => tp_functions (msh st k))).

Lemma fns_nodup : forall k, NoDup (tp_functions (msh st k)).
Proof. intros k. apply sorted_NoDup. unfold tp_functions. apply of_list_sorted. Qed.

(* entry characterisation for the concrete sets, general assembly: every pair of active functions *)
Lemma hassemble_entry_concrete : forall li fi lj fj,
  li < numlevels st -> lj < numlevels st -> In fi (AFm st li) -> In fj (AFm st lj) ->
  blk false li fi lj fj = spec li fi lj fj.
Proof.
  intros li fi lj fj HLi HLj Hfi Hfj.
  destruct (Nat.lt_trichotomy li lj) as [Hlt|[->|Hgt]].
  - apply (hassemble_entry_lower R r0 r1 radd rmul rsub ropp Rth); auto.
    + apply fns_nodup.
    + intros k. apply sorted_NoDup. apply interlevel_sorted.
    + apply interlevel_to_assemble.
    + apply repc_diag.
    + apply AF_to_assemble; auto.
    + intros Hnb r _ Hr. apply rep_in_interlevel; auto.
    + intros Hnb r Hr. apply (non_neighbour_terms li fi lj fj r); auto.
  - apply (hassemble_entry_diag R r0 r1 radd rmul rsub ropp Rth); auto.
    + apply fns_nodup.
    + apply repc_diag.
    + apply AF_to_assemble; auto.
  - apply (hassemble_entry_upper R r0 r1 radd rmul rsub ropp Rth); auto.
    + apply fns_nodup.
    + intros k. apply sorted_NoDup. apply interlevel_sorted.
    + apply interlevel_to_assemble.
    + apply repc_diag.
    + apply AF_to_assemble; auto.
    + intros Hnb c _ Hc. apply rep_in_interlevel; auto.
    + intros Hnb c Hc. apply (non_neighbour_terms lj fj li fi c); auto.
Qed.
End Entry.
End Concrete.
