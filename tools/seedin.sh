#!/bin/bash
# tools/seedin.sh <id> [srcdir]: import a seeded change delivered by a sub-agent, re-confirm it
# (demo fails with / passes without, test-suite passes with) and run the property's quick check on it.
id=$1; src=${2:-/tmp/b4-out/$id}
cd "$(dirname "$0")/.."
mkdir -p seeded/$id
cp $src/patch.diff $src/meta.json seeded/$id/ || exit 2
cp $src/demo* seeded/$id/ 2>/dev/null
/venv/bin/python tools/seeded.py verify $id > /tmp/seedin-$id.log 2>&1
/venv/bin/python tools/seeded.py run $id >> /tmp/seedin-$id.log 2>&1
tail -2 /tmp/seedin-$id.log
