(* C04 -- every function of the refined mesh has a parent, hence support extensions are nested
   across levels (the geometric lemma behind the admissibility induction). *)
From Coq Require Import List Arith Bool Lia.
From Verif.lib Require Import FinSet.
From Verif.C04 Require Import Model Proofs ProofsFun ProofsMesh ProofsQuery Children ProofsChildren.
Import ListNotations.

(* all multiplicities at least one (every breakpoint is a knot) *)
Definition axis_pos (a : axis) : Prop := Forall (fun m => 1 <= m) (ax_mults a) /\ ax_mults a <> [].

Lemma k2m_first : forall x r i0, 1 <= x -> nth 0 (k2m_aux i0 (x :: r)) 0 = i0.
Proof. intros. simpl. apply nth_rep_app_lt. lia. Qed.

Lemma k2m_last : forall mults i0, Forall (fun m => 1 <= m) mults -> mults <> [] ->
  nth (length (k2m_aux i0 mults) - 1) (k2m_aux i0 mults) 0 = i0 + length mults - 1.
Proof.
  induction mults as [|x r IH]; intros i0 HF Hne; [congruence|].
  inversion HF as [|? ? Hx HF']; subst.
  destruct r as [|y r'].
  - simpl. rewrite app_nil_r, repeat_length. rewrite nth_repeat_lt by lia. lia.
  - change (k2m_aux i0 (x :: y :: r')) with (repeat i0 x ++ k2m_aux (S i0) (y :: r')).
    assert (Hlen : 1 <= length (k2m_aux (S i0) (y :: r'))).
    { rewrite k2m_aux_length. inversion HF'; subst. simpl. lia. }
    rewrite app_length, repeat_length. rewrite nth_rep_app_ge by lia.
    replace (x + length (k2m_aux (S i0) (y :: r')) - 1 - x) with (length (k2m_aux (S i0) (y :: r')) - 1) by lia.
    rewrite IH by (auto; discriminate). simpl. lia.
Qed.

Lemma refine_mults_sum_eq : forall m, m <> [] ->
  fold_right Nat.add 0 (refine_mults m) = fold_right Nat.add 0 m + (length m - 1).
Proof.
  induction m as [|x r IH]; intros Hne; [congruence|].
  destruct r as [|y r']; [simpl; lia|].
  change (refine_mults (x :: y :: r')) with (x :: 1 :: refine_mults (y :: r')).
  change (fold_right Nat.add 0 (x :: 1 :: refine_mults (y :: r')))
    with (x + (1 + fold_right Nat.add 0 (refine_mults (y :: r')))).
  rewrite IH by discriminate. simpl. lia.
Qed.

Lemma refine_mults_pos : forall m, Forall (fun x => 1 <= x) m -> Forall (fun x => 1 <= x) (refine_mults m).
Proof.
  induction m as [|x r IH]; intros H; simpl; auto.
  inversion H as [|? ? Hx Hr]; subst. destruct r as [|y r']; [constructor; auto|].
  constructor; [exact Hx|]. constructor; [lia|]. apply IH; exact Hr.
Qed.

Lemma axis_pos_refine : forall a, axis_pos a -> axis_pos (ax_refine a).
Proof.
  intros a [H1 H2]. split; simpl.
  - apply refine_mults_pos; auto.
  - destruct (ax_mults a) as [|x [|y r]]; simpl; congruence.
Qed.

Section AxisParents.
  Variable a : axis.
  Hypothesis OK : axis_ok a.
  Hypothesis POS : axis_pos a.
  Let a' := ax_refine a.
  Let p := ax_p a.
  Let n := ax_numdofs a.

  Lemma phi_mono : forall x y, x < y -> y < length (k2m a) -> phi a x < phi a y.
  Proof. intros x y H1 H2. unfold phi. pose proof (K_mono a x y ltac:(lia) H2). lia. Qed.

  Lemma phi_zero : phi a 0 = 0.
  Proof.
    pose proof POS as [HF Hne]. unfold phi, k2m. destruct (ax_mults a) as [|x r]; [congruence|].
    inversion HF; subst. rewrite k2m_first by auto. reflexivity.
  Qed.

  Lemma phi_last : phi a (length (k2m a) - 1) = length (k2m a') - 1.
  Proof.
    pose proof POS as [HF Hne]. unfold phi, a', k2m, ax_refine. simpl ax_mults. rewrite (k2m_last _ 0 HF Hne).
    rewrite !k2m_aux_length. rewrite refine_mults_sum_eq by auto.
    assert (1 <= fold_right Nat.add 0 (ax_mults a)).
    { destruct (ax_mults a) as [|x r]; [congruence|]. inversion HF; subst. simpl. lia. }
    lia.
  Qed.

  Lemma find_start : forall i k, k < n -> phi a 0 <= i ->
    (exists j, j < k /\ phi a j <= i < phi a (S j)) \/ phi a k <= i.
  Proof.
    intros i. induction k as [|k IH]; intros Hk H0; [right; exact H0|].
    destruct (IH ltac:(lia) H0) as [[j [Hj Hin]]|Hle].
    - left. exists j. split; [lia | exact Hin].
    - destruct (Nat.le_gt_cases (phi a (S k)) i) as [H|H]; [right; exact H|].
      left. exists k. split; [lia|]. split; [exact Hle | exact H].
  Qed.

  Lemma phi_step : forall q j, j + q + 1 < length (k2m a) -> phi a (S j) + q <= phi a (j + q + 1).
  Proof.
    induction q as [|q IHq]; intros j Hj.
    - replace (j + 0 + 1) with (S j) by lia. lia.
    - assert (phi a (j + q + 1) < phi a (j + S q + 1)) by (apply phi_mono; lia).
      specialize (IHq j ltac:(lia)). lia.
  Qed.

  (* every function of the refined axis is a child of some function of the axis *)
  Lemma parent_exists_1d : forall i, i < ax_numdofs a' -> exists j, j < n /\ is_child_1d a j i = true.
  Proof.
    intros i Hi.
    pose proof (n_def a OK) as Hn. fold n in Hn. fold p in Hn.
    pose proof (n_def a' (axis_ok_refine a OK)) as Hn'. change (ax_p a') with p in Hn'.
    assert (Hn1 : 1 <= n) by (destruct OK as [_ H]; exact H).
    assert (Hchild : forall j, j < n -> phi a j <= i -> i + p + 1 <= phi a (j + p + 1) -> is_child_1d a j i = true).
    { intros j Hj H1 H2. unfold is_child_1d, children_1d. simpl. fold p.
      apply andb_true_iff. split; [apply Nat.leb_le; exact H1 | apply Nat.ltb_lt; lia]. }
    assert (Hstep : forall j, j + p + 1 < length (k2m a) -> phi a (S j) + p <= phi a (j + p + 1)) by (intros; apply phi_step; auto).
    destruct (find_start i (n - 1) ltac:(lia) ltac:(rewrite phi_zero; lia)) as [[j [Hj [H1 H2]]]|Hle].
    - exists j. split; [lia|]. apply Hchild; [lia | exact H1|].
      pose proof (Hstep j ltac:(lia)). lia.
    - exists (n - 1). split; [lia|]. apply Hchild; [lia | exact Hle|].
      replace (n - 1 + p + 1) with (length (k2m a) - 1) by lia. rewrite phi_last. lia.
  Qed.
End AxisParents.

(* tensor product: every function of the refined mesh is a child of a function of the mesh *)
Lemma tp_parent_exists : forall axes g, Forall axis_ok axes -> Forall axis_pos axes ->
  Forall2 (fun n xi => xi < n) (map ax_numdofs (map ax_refine axes)) g ->
  exists f, Forall2 (fun n xi => xi < n) (map ax_numdofs axes) f /\ Forall2 inr (lookup_children axes f) g.
Proof.
  induction axes as [|a axes IH]; intros g HA HP HG.
  - simpl in HG. inversion HG; subst. exists []. split; constructor.
  - inversion HA as [|? ? Ha HA']; subst. inversion HP as [|? ? Hp HP']; subst.
    simpl in HG. inversion HG as [|nn i ns' g' Hi Hrest]; subst.
    destruct (IH g' HA' HP' Hrest) as [f' [Hf1 Hf2]].
    destruct (parent_exists_1d a Ha Hp i Hi) as [j [Hj Hc]].
    exists (j :: f'). split; simpl; constructor; auto.
    unfold is_child_1d in Hc. apply andb_true_iff in Hc. destruct Hc as [H1 H2].
    apply Nat.leb_le in H1. apply Nat.ltb_lt in H2. unfold inr. lia.
Qed.

Lemma parent_exists_l : forall axes g, Forall axis_ok axes -> Forall axis_pos axes ->
  In g (tp_functions (tp_refine (tpmesh_of axes))) ->
  exists f, In f (tp_functions (tpmesh_of axes)) /\ In g (children1 (tpmesh_of axes) f).
Proof.
  intros axes g HA HP HG. unfold tp_functions, tp_refine in HG. simpl in HG. rewrite In_box in HG.
  destruct (tp_parent_exists axes g HA HP HG) as [f [H1 H2]].
  exists f. split.
  - unfold tp_functions. simpl. rewrite In_box. exact H1.
  - apply In_children1. exact H2.
Qed.

Lemma axes_pos_iter : forall j axes, Forall axis_pos axes -> Forall axis_pos (Nat.iter j (map ax_refine) axes).
Proof.
  induction j; intros axes H; simpl; auto. apply Forall_map. specialize (IHj axes H).
  eapply Forall_impl; [|exact IHj]. intros a Ha. apply axis_pos_refine; auto.
Qed.
