(* C05 -- transfer between nested spline spaces: executable model (no proofs).

   Source:  pyiga/bspline.py:714-736   knot_insertion (Boehm)
            pyiga/bspline.py:692-712   prolongation (specified here as the product of
                                       single knot insertions; the implementation
                                       computes the same matrix by a Greville collocation
                                       solve and prunes |.| < 1e-15)
   Numbers are canonical rationals (Qc); x / 0 = 0.  The scipy lil_matrix that
   knot_insertion fills is modelled as the list of item assignments in program
   order (last assignment to a position wins, unassigned positions read 0). *)
From Coq Require Import QArith Qcanon Qcabs ZArith List Arith Bool Lia.
From Verif.lib Require Import Bsp.
Import ListNotations.
Open Scope Qc_scope.

(* ---- finite sums -------------------------------------------------- *)
Fixpoint bigsum (n : nat) (f : nat -> Qc) : Qc :=
  match n with O => 0 | S m => bigsum m f + f m end.

(* ---- lil_matrix as assignment list -------------------------------- *)
Definition asg := list (nat * nat * Qc).
Definition at_pos (j i : nat) (e : nat * nat * Qc) : bool :=
  Nat.eqb (fst (fst e)) j && Nat.eqb (snd (fst e)) i.
Definition lookup (l : asg) (j i : nat) : Qc :=
  match find (at_pos j i) (rev l) with Some e => snd e | None => 0 end.

(* dense r x c matrix (list of rows) of an assignment list: P.toarray() *)
Definition dense (l : asg) (r c : nat) : list (list Qc) :=
  map (fun j => map (fun i => lookup l j i) (seq 0 c)) (seq 0 r).

(* ---- bspline.py:714-736 knot_insertion ----------------------------- *)
(* a = (u - knots[i]) / (knots[i + p] - knots[i])          bspline.py:732 *)
Definition ki_alpha (kv : list Qc) (p : nat) (u : Qc) (i : nat) : Qc :=
  (u - kn kv i) / (kn kv (i + p) - kn kv i).

Definition knot_insertion_at (kv : list Qc) (p k : nat) (u : Qc) : asg :=
  let n := numdofs kv p in
  (* for i in range(k - p + 1): P[i, i] = 1.0                     :725-726 *)
  map (fun i => (i, i, 1)) (seq 0 (k - p + 1))
  (* for i in range(k + 1, n + 1): P[i, i-1] = 1.0                :727-728 *)
  ++ map (fun i => (i, (i - 1)%nat, 1)) (seq (k + 1) (n + 1 - (k + 1)))
  (* for i in reversed(range(k - p + 1, k + 1)):                  :731-734
         P[i, i - 1] = 1 - a;  P[i, i] = a *)
  ++ flat_map (fun i => let a := ki_alpha kv p u i in
                        [(i, (i - 1)%nat, 1 - a); (i, i, a)])
              (rev (seq (k - p + 1) (k + 1 - (k - p + 1)))).

(* n, p = kv.numdofs, kv.p ; k = kv.findspan(u)                    :719-720 *)
Definition knot_insertion (kv : list Qc) (p : nat) (u : Qc) : asg :=
  knot_insertion_at kv p (findspan kv p u) u.

(* the knot vector after insertion: u goes behind position k = findspan u, i.e.
   np.sort(np.append(kv, u)) whenever kv[k] <= u <= kv[k+1] *)
Definition insert_at (kv : list Qc) (k : nat) (u : Qc) : list Qc :=
  firstn (S k) kv ++ u :: skipn (S k) kv.
Definition insert_knot (kv : list Qc) (p : nat) (u : Qc) : list Qc :=
  insert_at kv (findspan kv p u) u.

(* closed form of the entries of the knot insertion matrix *)
Definition ki_coef (kv : list Qc) (p k : nat) (u : Qc) (i : nat) : Qc :=
  if (i + p <=? k)%nat then 1 else if (i <=? k)%nat then ki_alpha kv p u i else 0.
Definition ki_entry (kv : list Qc) (p k : nat) (u : Qc) (j i : nat) : Qc :=
  if Nat.eqb j i then ki_coef kv p k u i
  else if Nat.eqb j (S i) then 1 - ki_coef kv p k u (S i) else 0.

(* ---- dense matrices -------------------------------------------------- *)
Definition mmul (A B : list (list Qc)) (r m c : nat) : list (list Qc) :=
  map (fun j => map (fun i => bigsum m (fun l => get2 A j l * get2 B l i)) (seq 0 c)) (seq 0 r).
Definition ident (n : nat) : list (list Qc) :=
  map (fun j => map (fun i => if Nat.eqb j i then 1 else 0) (seq 0 n)) (seq 0 n).

(* ---- prolongation(kv1, kv2) as product of knot insertions ------------ *)
(* us: the knots of kv2 that are not in kv1 (multiset difference), any order *)
Fixpoint refine_kv (kv : list Qc) (p : nat) (us : list Qc) : list Qc :=
  match us with [] => kv | u :: us' => refine_kv (insert_knot kv p u) p us' end.

Fixpoint prolongation_spec (kv : list Qc) (p : nat) (us : list Qc) : list (list Qc) :=
  let n := numdofs kv p in
  match us with
  | [] => ident n
  | u :: us' =>
      let kv' := insert_knot kv p u in
      mmul (prolongation_spec kv' p us') (dense (knot_insertion kv p u) (S n) n)
           (numdofs (refine_kv kv' p us') p) (S n) n
  end.

(* ---- executable checks used by the correspondence run --------------- *)
Definition close (bound a b : Qc) : bool := qleb (Qcabs (a - b)) bound.
Definition qlist_eqb (a b : list Qc) : bool :=
  Nat.eqb (length a) (length b) && forallb (fun ab => qeqb (fst ab) (snd ab)) (combine a b).

(* entries of an r x c matrix all within bound of the model's *)
Definition mat_close (bound : Qc) (A B : list (list Qc)) (r c : nat) : bool :=
  forallb (fun j => forallb (fun i => close bound (get2 A j i) (get2 B j i)) (seq 0 c)) (seq 0 r).

(* function preservation, evaluated at a point with the Cox-de Boor reference *)
Definition preserves_at (kv1 kv2 : list Qc) (p : nat) (P : list (list Qc)) (x : Qc) : bool :=
  let n2 := numdofs kv2 p in
  let v2 := map (fun j => Nref kv2 p j x) (seq 0 n2) in      (* fine basis values, computed once *)
  forallb (fun i => qeqb (Nref kv1 p i x)
                         (bigsum n2 (fun j => get2 P j i * nth j v2 0)))
          (seq 0 (numdofs kv1 p)).

Definition rows_sum_one (P : list (list Qc)) (r c : nat) : bool :=
  forallb (fun j => qeqb (bigsum c (fun i => get2 P j i)) 1) (seq 0 r).
Definition nonneg (P : list (list Qc)) (r c : nat) : bool :=
  forallb (fun j => forallb (fun i => qleb 0 (get2 P j i)) (seq 0 c)) (seq 0 r).

(* one knot insertion case: (kv, p, u, k_impl, impl matrix, bound, sample points) *)
Definition check_ki (kv : list Qc) (p : nat) (u : Qc) (kimpl : nat)
                    (impl : list (list Qc)) (bound : Qc) (xs : list Qc) : bool :=
  let n := numdofs kv p in
  let M := dense (knot_insertion kv p u) (S n) n in
  let kv' := insert_knot kv p u in
  Nat.eqb kimpl (findspan kv p u)
  && mat_close bound impl M (S n) n
  && forallb (fun j => forallb (fun i => qeqb (get2 M j i) (ki_entry kv p (findspan kv p u) u j i))
                                (seq 0 n)) (seq 0 (S n))
  && sortedb kv'
  && forallb (preserves_at kv kv' p M) xs
  && rows_sum_one M (S n) n && nonneg M (S n) n.

(* one prolongation case: kv1, p, inserted knots, kv2 as the implementation has it,
   the implementation's matrix, bound, sample points *)
Definition check_prol (kv1 : list Qc) (p : nat) (us : list Qc) (kv2 : list Qc)
                      (impl : list (list Qc)) (bound : Qc) (xs : list Qc) : bool :=
  let n1 := numdofs kv1 p in
  let n2 := numdofs kv2 p in
  let M := prolongation_spec kv1 p us in
  qlist_eqb (refine_kv kv1 p us) kv2
  && mat_close bound impl M n2 n1
  && forallb (preserves_at kv1 kv2 p M) xs
  && rows_sum_one M n2 n1 && nonneg M n2 n1.

Fixpoint bad_cases (k : nat) (rs : list bool) : list nat :=
  match rs with
  | [] => []
  | true :: rs' => bad_cases (S k) rs'
  | false :: rs' => k :: bad_cases (S k) rs'
  end.
