(* C13 -- non-vacuity of Props3.v: a read table that is within a key table, a tree with an attribute the
   generator does not read, and a generator (here: restrict itself) that meets the reads-only hypothesis. *)
From Coq Require Import String.
From Coq Require Import List ZArith Bool.
From Verif.C13 Require Import Model Spec Proofs ReadSets.
Import ListNotations.
Open Scope string_scope.

Definition T0 : table := [("BuiltinFuncExpr", mk_cspec [("funcname", EHash)] [("funcname", TStr)]);
                          ("ConstExpr", mk_cspec [("value", ERepr)] [("value", TFloat)])].
Definition R0 : rtable := [("BuiltinFuncExpr", ["children"; "funcname"; "shape"]); ("ConstExpr", ["children"; "shape"; "value"])].
Example ex_covers : covers T0 = true. Proof. vm_compute. reflexivity. Qed.
Example ex_reads_within : reads_within R0 T0 = true. Proof. vm_compute. reflexivity. Qed.
Example ex_same_classes : same_classes R0 T0 = true. Proof. vm_compute. reflexivity. Qed.
(* a read of an attribute that is not code-relevant in the key table is rejected *)
Example ex_reads_rejected : reads_within [("ConstExpr", ["value"; "comment"])] T0 = false. Proof. vm_compute. reflexivity. Qed.
(* a missing / extra class is rejected *)
Example ex_classes_rejected : same_classes [("ConstExpr", ["value"])] T0 = false. Proof. vm_compute. reflexivity. Qed.

Definition n0 : node := Node "BuiltinFuncExpr" (ATup []) [("funcname", AStr "sin"); ("cache", AInt 7)]
                             [Node "ConstExpr" (ATup []) [("value", AFloat 4607182418800017408)] []].
(* the generator g := restrict R0 satisfies the hypothesis of the theorems (restrict is idempotent here) and is not constant *)
Example ex_reads_only : restrict R0 n0 = restrict R0 (restrict R0 n0). Proof. vm_compute. reflexivity. Qed.
Example ex_drops_unread : restrict R0 n0 <> n0. Proof. vm_compute. discriminate. Qed.
Example ex_not_constant : restrict R0 n0 <> restrict R0 (Node "ConstExpr" (ATup []) [] []). Proof. vm_compute. discriminate. Qed.
Example ex_well_typed : well_typed T0 n0 = true. Proof. vm_compute. reflexivity. Qed.
(* record level: reads of BasisFun inside key ++ derived *)
Example ex_subset : subset ["name"; "scope"; "space"] (model_bf_key ++ ["scope"; "vform"]) = true. Proof. vm_compute. reflexivity. Qed.
Example ex_subset_rejected : subset ["name"; "tag"] (model_bf_key ++ ["scope"; "vform"]) = false. Proof. vm_compute. reflexivity. Qed.
