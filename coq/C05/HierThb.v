(* C05 -- THB level-wise evaluation for any number of levels: thb_to_hb (the product of the
   truncate_one_level matrices, hierarchical.py:1148-1186) followed by the HB finest-level
   representation equals represent_fine(truncate=True) (rows of the active functions zeroed level
   by level, :1135-1136).  Pure matrix algebra over the multilevel setting of Hier.v. *)
From Coq Require Import QArith Qcanon List Bool Arith Lia.
From Verif.lib Require Import Bsp.
From Verif.C05 Require Import Model Proofs Hier.
Import ListNotations.
Open Scope Qc_scope.

Lemma bigsum_S k f : bigsum (S k) f = bigsum k f + f k.
Proof. reflexivity. Qed.

Section ThbLevels.
  Variable n : nat -> nat.
  Variable P : nat -> nat -> nat -> Qc.

  (* the last prolongator can be split off on the fine side (associativity of the product) *)
  Lemma RF_peel_fine Z T : forall m J i, (J < n T)%nat -> (i < n (T - S m))%nat ->
    RF n P Z T (S m) J i
    = bigsum (n (T - 1)%nat) (fun l => (if Z T J then 0 else P (T - 1)%nat J l) * RF n P Z (T - 1)%nat m l i).
  Proof.
    induction m as [|m IH]; intros J i HJ Hi.
    - cbn [RF]. replace (T - 0)%nat with T by lia.
      rewrite (bigsum_one _ _ J HJ).
      2:{ intros j Hj Nj. destruct (Nat.eqb_spec J j); [lia|ring]. }
      rewrite Nat.eqb_refl.
      rewrite (bigsum_one _ _ i Hi).
      2:{ intros j Hj Nj. destruct (Nat.eqb_spec j i); [lia|ring]. }
      rewrite Nat.eqb_refl. ring.
    - change (RF n P Z T (S (S m)) J i)
        with (bigsum (n (T - S m)%nat) (fun l => RF n P Z T (S m) J l * (if Z (T - S m)%nat l then 0 else P (T - S (S m))%nat l i))).
      rewrite (bigsum_ext (n (T - S m)%nat) _
                 (fun l => bigsum (n (T - 1)%nat) (fun l' =>
                    (if Z T J then 0 else P (T - 1)%nat J l') * (RF n P Z (T - 1)%nat m l' l
                      * (if Z (T - S m)%nat l then 0 else P (T - S (S m))%nat l i))))).
      2:{ intros l Hl. rewrite (IH J l HJ Hl). rewrite <- bigsum_scale_r. apply bigsum_ext. intros l' _. ring. }
      rewrite bigsum_swap. apply bigsum_ext. intros l' Hl'.
      rewrite bigsum_scale. f_equal.
      change (RF n P Z (T - 1)%nat (S m) l' i)
        with (bigsum (n (T - 1 - m)%nat) (fun l => RF n P Z (T - 1)%nat m l' l * (if Z (T - 1 - m)%nat l then 0 else P (T - 1 - S m)%nat l i))).
      replace (T - 1 - m)%nat with (T - S m)%nat by lia.
      replace (T - 1 - S m)%nat with (T - S (S m))%nat by lia. reflexivity.
  Qed.

  (* finest-level coefficients, split into the top level and the contribution of the lower levels *)
  Lemma fine_coeff_step Z T' u J : (J < n (S T'))%nat ->
    fine_coeff n P Z (S T') u J
    = u (S T') J + bigsum (n T') (fun l => (if Z (S T') J then 0 else P T' J l) * fine_coeff n P Z T' u l).
  Proof.
    intros HJ. unfold fine_coeff at 1. rewrite (bigsum_S (S T')).
    replace (S T' - S T')%nat with 0%nat by lia.
    assert (Top : bigsum (n (S T')) (fun i => RF n P Z (S T') 0 J i * u (S T') i) = u (S T') J).
    { cbn [RF]. rewrite (bigsum_one _ _ J HJ).
      - rewrite Nat.eqb_refl. ring.
      - intros j Hj Nj. destruct (Nat.eqb_spec J j); [lia|ring]. }
    rewrite Top. rewrite Qcplus_comm. f_equal.
    rewrite (bigsum_ext (S T') _ (fun l => bigsum (n T') (fun l2 =>
               (if Z (S T') J then 0 else P T' J l2) * bigsum (n l) (fun i => RF n P Z T' (T' - l) l2 i * u l i)))).
    2:{ intros l Hl. replace (S T' - l)%nat with (S (T' - l)) by lia.
        rewrite (bigsum_ext (n l) _ (fun i => bigsum (n T') (fun l2 =>
                   (if Z (S T') J then 0 else P T' J l2) * RF n P Z T' (T' - l) l2 i * u l i))).
        2:{ intros i Hi. rewrite RF_peel_fine.
            - replace (S T' - 1)%nat with T' by lia. rewrite <- bigsum_scale_r. reflexivity.
            - exact HJ.
            - replace (S T' - S (T' - l))%nat with l by lia. exact Hi. }
        rewrite bigsum_swap. apply bigsum_ext. intros l2 _. rewrite <- bigsum_scale. apply bigsum_ext. intros i _. ring. }
    rewrite bigsum_swap. apply bigsum_ext. intros l2 _. unfold fine_coeff. rewrite <- bigsum_scale. reflexivity.
  Qed.

  Lemma fine_coeff_ext Z T u v J :
    (forall l i, (l <= T)%nat -> u l i = v l i) -> fine_coeff n P Z T u J = fine_coeff n P Z T v J.
  Proof.
    intros H. unfold fine_coeff. apply bigsum_ext. intros l Hl. apply bigsum_ext. intros i _. rewrite H by lia. reflexivity.
  Qed.

  (* thb_to_hb = truncate_one_level(T-1) @ ... @ truncate_one_level(0) on coefficient arrays
     (zero outside the active functions): truncate_one_level(k) = I - A changes only level k+1,
     subtracting from the coefficient of an ACTIVE function j of level k+1 the level-(k+1)
     HB representation (represent_fine(lv=k+1, truncate=False), row j) of the levels <= k *)
  Variable actb : nat -> nat -> bool.
  Fixpoint t2h (T : nat) (u : nat -> nat -> Qc) : nat -> nat -> Qc :=
    match T with
    | O => u
    | S T' =>
        let w := t2h T' u in
        fun l j => if Nat.eqb l (S T')
                   then w (S T') j - (if actb (S T') j
                                      then bigsum (S T') (fun l' => bigsum (n l') (fun i => RF n P noZ (S T') (S T' - l') j i * w l' i))
                                      else 0)
                   else w l j
    end.

  Lemma t2h_above : forall T u l j, (T < l)%nat -> t2h T u l j = u l j.
  Proof.
    induction T as [|T IH]; intros u l j Hl; [reflexivity|].
    cbn [t2h]. destruct (Nat.eqb_spec l (S T)); [lia|]. apply IH. lia.
  Qed.

  Lemma lower_sum T' w J : (J < n (S T'))%nat ->
    bigsum (S T') (fun l' => bigsum (n l') (fun i => RF n P noZ (S T') (S T' - l') J i * w l' i))
    = bigsum (n T') (fun l => P T' J l * fine_coeff n P noZ T' w l).
  Proof.
    intros HJ. pose proof (fine_coeff_step noZ T' w J HJ) as E. unfold fine_coeff at 1 in E. rewrite (bigsum_S (S T')) in E.
    replace (S T' - S T')%nat with 0%nat in E by lia.
    assert (Top : bigsum (n (S T')) (fun i => RF n P noZ (S T') 0 J i * w (S T') i) = w (S T') J).
    { cbn [RF]. rewrite (bigsum_one _ _ J HJ).
      - rewrite Nat.eqb_refl. ring.
      - intros j Hj Nj. destruct (Nat.eqb_spec J j); [lia|ring]. }
    rewrite Top in E. unfold noZ at 2 in E.
    assert (E2 : forall a b c : Qc, a + b = b + c -> a = c).
    { intros a b c H. replace a with (a + b - b) by ring. rewrite H. ring. }
    apply (E2 _ (w (S T') J)). rewrite E. reflexivity.
  Qed.

  (* the heart: for every number of levels, the HB finest-level coefficients of thb_to_hb(u) are the
     coefficients represent_fine(truncate=True) assigns to u *)
  Lemma thb_coeffs_l : forall T u J, (J < n T)%nat ->
    fine_coeff n P noZ T (t2h T u) J = fine_coeff n P actb T u J.
  Proof.
    induction T as [|T IH]; intros u J HJ; [reflexivity|].
    rewrite !fine_coeff_step by exact HJ. unfold noZ at 1.
    assert (Hlow : forall l, (l < n T)%nat -> fine_coeff n P noZ T (t2h (S T) u) l = fine_coeff n P actb T u l).
    { intros l Hl. rewrite <- (IH u l Hl). apply fine_coeff_ext. intros l0 i Hl0. cbn [t2h].
      destruct (Nat.eqb_spec l0 (S T)); [lia|reflexivity]. }
    rewrite (bigsum_ext (n T) (fun l => P T J l * fine_coeff n P noZ T (t2h (S T) u) l)
                              (fun l => P T J l * fine_coeff n P actb T u l))
      by (intros l Hl; rewrite Hlow by exact Hl; reflexivity).
    cbn [t2h]. rewrite Nat.eqb_refl. rewrite (t2h_above T u (S T) J) by lia.
    rewrite lower_sum by exact HJ.
    rewrite (bigsum_ext (n T) (fun l => P T J l * fine_coeff n P noZ T (t2h T u) l)
                              (fun l => P T J l * fine_coeff n P actb T u l))
      by (intros l Hl; rewrite IH by exact Hl; reflexivity).
    destruct (actb (S T) J).
    - rewrite (bigsum_zero (n T) (fun l => 0 * fine_coeff n P actb T u l)) by (intros; ring). ring.
    - ring.
  Qed.
End ThbLevels.

(* level-wise evaluation of THB coefficients = evaluation of represent_fine(truncate=True) * u,
   any number of levels, any dimension *)
Lemma levelwise_thb_l {X} n (B : nat -> nat -> X -> Qc) P Lmax (actb : nat -> nat -> bool) :
  two_scale_hyp n B P Lmax ->
  forall T u x, (T <= Lmax)%nat ->
    levelwise X n B T (t2h n P actb T u) x = bigsum (n T) (fun J => fine_coeff n P actb T u J * B T J x).
Proof.
  intros H T u x HT. rewrite (levelwise_l n B P Lmax H T _ x HT).
  apply bigsum_ext. intros J HJ. rewrite thb_coeffs_l by exact HJ. reflexivity.
Qed.
