(* C03 -- lemmas, part 9: multi_kron_sparse of the 1-D prolongators (Model.multi_kron, the matrix kronP of
   represent_fine) has the entries kron_entry (the product of the 1-D entries) at the raveled multi-indices. *)
From Coq Require Import List Arith Bool Lia NArith Ring.
From Verif.C03 Require Import Model Proofs Proofs2 Proofs3 Proofs5 Proofs6 Proofs8.
Import ListNotations.

Lemma F2len : forall (A B : Type) (P : A -> B -> Prop) l1 l2, Forall2 P l1 l2 -> length l1 = length l2.
Proof. intros A B P l1 l2 H. induction H; simpl; auto. Qed.

Lemma ravel_acc_lin : forall s t acc, length s = length t ->
  ravel_acc s t acc = (acc * N.of_nat (nprod s) + ravel_acc s t 0)%N.
Proof.
  induction s as [|n s IH]; intros t acc H; destruct t as [|i t]; simpl in H; try discriminate.
  - simpl. lia.
  - simpl ravel_acc. rewrite (IH t (acc * N.of_nat n + N.of_nat i)%N) by lia.
    rewrite (IH t (N.of_nat i)) by lia.
    unfold nprod. simpl fold_right. fold (nprod s). rewrite Nnat.Nat2N.inj_mul. lia.
Qed.

Lemma ravel_cons : forall n s i t, length s = length t ->
  ravel (n :: s) (i :: t) = (N.of_nat i * N.of_nat (nprod s) + ravel s t)%N.
Proof.
  intros n s i t H. unfold ravel. simpl ravel_acc. rewrite (ravel_acc_lin s t _ H). lia.
Qed.

Lemma ravel_lt : forall s t, Forall2 (fun n x => x < n) s t -> (ravel s t < N.of_nat (nprod s))%N.
Proof.
  intros s t H. induction H as [|n i s t Hi H IH].
  - unfold ravel, nprod. simpl. lia.
  - rewrite ravel_cons by (eapply F2len; eauto).
    unfold nprod. simpl fold_right. fold (nprod s). rewrite Nnat.Nat2N.inj_mul. nia.
Qed.

Section MKron.
Variable R : Type.
Variables (r0 r1 : R) (radd rmul rsub : R -> R -> R) (ropp : R -> R).
Hypothesis Rth : ring_theory r0 r1 radd rmul rsub ropp eq.
Add Ring Rring9 : Rth.
Variable pmat : nat -> nat -> smat R.

Notation mk := (multi_kron R r1 rmul pmat).
Notation kent := (kron_entry R r0 r1 rmul pmat).

(* number of rows of the 1-D prolongators of level lv, axes d, d+1, .., d+n-1 *)
Definition rowdims (lv d n : nat) : list nat := map (fun t => length (pmat lv t)) (seq d n).

(* the columns stored in the prolongator of axis d + t lie below the t-th coarse dimension *)
Definition cols_ok (lv d : nat) (dims : list nat) : Prop :=
  forall t row x, t < length dims -> In row (pmat lv (d + t)) -> In x (keys R row) -> (x < N.of_nat (nth t dims 0%nat))%N.

Lemma cols_ok_tail : forall lv d n dims, cols_ok lv d (n :: dims) -> cols_ok lv (S d) dims.
Proof.
  intros lv d n dims H t row x Ht Hr Hx. apply (H (S t) row x); simpl; auto; [lia|].
  replace (d + S t) with (S d + t) by lia. exact Hr.
Qed.

Lemma kron2_length : forall (A B : smat R) mB, length (kron2 R rmul A B mB) = length A * length B.
Proof.
  intros A B mB. unfold kron2. induction A as [|ra A IH]; simpl; [reflexivity|].
  rewrite app_length, map_length. f_equal. exact IH.
Qed.

Lemma mk_length : forall lv dims d, dims <> [] -> length (mk lv d dims) = nprod (rowdims lv d (length dims)).
Proof.
  intros lv. induction dims as [|n dims IH]; intros d H; [contradiction|].
  destruct dims as [|n2 dims].
  - simpl. unfold rowdims, nprod. simpl. lia.
  - change (mk lv d (n :: n2 :: dims)) with
      (kron2 R rmul (pmat lv d) (mk lv (S d) (n2 :: dims)) (N.of_nat (nprod (n2 :: dims)))).
    rewrite kron2_length. rewrite IH by discriminate.
    unfold rowdims. simpl length. simpl seq. simpl map. unfold nprod. simpl fold_right. reflexivity.
Qed.

Lemma kron2_keys : forall (A B : smat R) mB row x, In row (kron2 R rmul A B mB) -> In x (keys R row) ->
  exists ra rb xa xb, In ra A /\ In rb B /\ In xa (keys R ra) /\ In xb (keys R rb) /\ x = (xa * mB + xb)%N.
Proof.
  intros A B mB row x Hrow Hx. unfold kron2 in Hrow. apply in_flat_map in Hrow. destruct Hrow as [ra [Hra Hrow]].
  apply in_map_iff in Hrow. destruct Hrow as [rb [<- Hrb]].
  unfold Proofs5.keys in Hx. apply in_map_iff in Hx. destruct Hx as [e [<- He]].
  apply in_flat_map in He. destruct He as [ea [Hea He]]. apply in_map_iff in He. destruct He as [eb [<- Heb]].
  exists ra, rb, (fst ea), (fst eb). repeat split; auto; apply in_map; auto.
Qed.

Lemma mk_cols : forall lv dims d, dims <> [] -> cols_ok lv d dims ->
  forall row x, In row (mk lv d dims) -> In x (keys R row) -> (x < N.of_nat (nprod dims))%N.
Proof.
  intros lv. induction dims as [|n dims IH]; intros d H HC row x Hrow Hx; [contradiction|].
  destruct dims as [|n2 dims].
  - simpl in Hrow. specialize (HC 0 row x ltac:(simpl; lia)). rewrite Nat.add_0_r in HC. specialize (HC Hrow Hx).
    simpl in HC. unfold nprod. simpl. lia.
  - change (mk lv d (n :: n2 :: dims)) with
      (kron2 R rmul (pmat lv d) (mk lv (S d) (n2 :: dims)) (N.of_nat (nprod (n2 :: dims)))) in Hrow.
    destruct (kron2_keys _ _ _ _ _ Hrow Hx) as [ra [rb [xa [xb [Ha [Hb [Hxa [Hxb ->]]]]]]]].
    pose proof (IH (S d) ltac:(discriminate) (cols_ok_tail _ _ _ _ HC) rb xb Hb Hxb) as Hb2.
    pose proof (HC 0 ra xa ltac:(simpl; lia)) as Ha2. rewrite Nat.add_0_r in Ha2. specialize (Ha2 Ha Hxa). simpl in Ha2.
    change (nprod (n :: n2 :: dims)) with (n * nprod (n2 :: dims)). rewrite Nnat.Nat2N.inj_mul. nia.
Qed.

(* entry (ravel r', ravel r) of the Kronecker product of the 1-D prolongators is the product of their entries *)
Lemma multi_kron_entry_l : forall lv dims d r r',
  cols_ok lv d dims ->
  Forall2 (fun n x => x < n) dims r ->
  Forall2 (fun n x => x < n) (rowdims lv d (length dims)) r' ->
  sm_get R r0 (mk lv d dims) (ravel (rowdims lv d (length dims)) r') (ravel dims r) = kent lv d r' r.
Proof.
  intros lv. induction dims as [|n dims IH]; intros d r r' HC Hr Hr'.
  - inversion Hr; subst. simpl in Hr'. inversion Hr'; subst. simpl. unfold sm_get, sm_row, ravel. simpl.
    unfold sv_get. simpl. reflexivity.
  - inversion Hr as [|n0 j s rt Hj Hrt]; subst.
    unfold rowdims in Hr'. simpl length in Hr'. simpl seq in Hr'. simpl map in Hr'.
    inversion Hr' as [|n0 i s r't Hi Hr't]; subst.
    destruct dims as [|n2 dims].
    + inversion Hrt; subst. simpl in Hr't. inversion Hr't; subst.
      simpl. unfold rowdims, ravel. simpl. unfold sm_get, sm_row. rewrite Nnat.Nat2N.id. unfold p1. ring.
    + fold (rowdims lv (S d) (length (n2 :: dims))) in Hr't.
      change (mk lv d (n :: n2 :: dims)) with
        (kron2 R rmul (pmat lv d) (mk lv (S d) (n2 :: dims)) (N.of_nat (nprod (n2 :: dims)))).
      change (rowdims lv d (length (n :: n2 :: dims))) with
        (length (pmat lv d) :: rowdims lv (S d) (length (n2 :: dims))).
      rewrite (ravel_cons (length (pmat lv d))) by (eapply F2len; eauto).
      rewrite (ravel_cons n) by (eapply F2len; eauto).
      pose proof (mk_length lv (n2 :: dims) (S d) ltac:(discriminate)) as HL.
      pose proof (ravel_lt _ _ Hr't) as Hlt'. pose proof (ravel_lt _ _ Hrt) as Hlt.
      rewrite <- HL in Hlt' |- *.
      set (B := mk lv (S d) (n2 :: dims)) in *.
      set (i2 := N.to_nat (ravel (rowdims lv (S d) (length (n2 :: dims))) r't)).
      replace (N.of_nat i * N.of_nat (length B) + ravel (rowdims lv (S d) (length (n2 :: dims))) r't)%N
        with (N.of_nat (i * length B + i2)) by (unfold i2; lia).
      rewrite (kron2_entry_l R r0 r1 radd rmul rsub ropp Rth) ; auto.
      * simpl kron_entry. unfold p1. f_equal.
        -- unfold sm_get, sm_row. rewrite Nnat.Nat2N.id. reflexivity.
        -- unfold i2. rewrite Nnat.N2Nat.id. unfold B. apply IH; auto. apply (cols_ok_tail _ _ _ _ HC).
      * unfold i2. lia.
      * intros rb x Hrb Hx.
        apply (mk_cols lv (n2 :: dims) (S d) ltac:(discriminate) (cols_ok_tail _ _ _ _ HC) rb x Hrb Hx).
Qed.

End MKron.
