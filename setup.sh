#!/bin/bash
# MANIFEST.setup_cmd: offline build of the framework (full .vo build of every theory,
# extension cache for /repo's current tree).
set -e
cd "$(dirname "$0")"
mkdir -p .cache coq/gen evidence/replay
/venv/bin/python - <<'PY'
from harness import core
ok, out, cmd, dt = core.coq_make([])
print(out[-3000:])
print('coq build ok=%s in %.0fs' % (ok, dt))
import sys
bad = core.grep_gate(core.all_v_files())
if bad:
    print('forbidden vernacular:', bad)
impl = core.Impl('setup')
try:
    impl.build()
finally:
    impl.cleanup()
sys.exit(0 if ok and not bad else 1)
PY
if [ -d coq/extract ] && [ -f coq/extract/build.sh ]; then bash coq/extract/build.sh; fi
