(* C19 -- Spline.derivative returns a well-formed spline: its knot vector kv[1:-1] is an open knot
   vector of degree p-1 and the coefficient vector has exactly its numdofs entries (the assertion
   of Spline.__init__, spline.py:9). *)
From Coq Require Import QArith Qcanon ZArith List Arith Bool Lia Lqa.
From Verif.lib Require Import Bsp NpCore NpQ.
From Verif.C02 Require Import Proofs.
From Verif.C19 Require Import Model Proofs Proofs2 Proofs3.
Import ListNotations.
Open Scope Qc_scope.

Lemma derivative_kv_ok_l kv q : let p := S q in kv_ok kv p -> kv_ok (derivative_kv kv) q.
Proof.
  intros p [Hlen Hs Hf Hl Hls]. unfold derivative_kv.
  assert (HL : length (sl_1_m1 kv) = (length kv - 2)%nat) by apply sl_1_m1_length.
  assert (Hp : p = S q) by reflexivity.
  constructor.
  - rewrite HL. lia.
  - intros i j Hij Hj. rewrite HL in Hj. rewrite !kn_inner by lia. apply Hs; lia.
  - rewrite !kn_inner by lia.
    assert (E : forall t, (t <= p)%nat -> kn kv t = kn kv 0).
    { intros t Ht. apply Qcle_antisym; [rewrite <- Hf; apply Hs; lia|apply Hs; lia]. }
    rewrite (E (S q)) by lia. rewrite (E 1%nat) by lia. reflexivity.
  - rewrite HL. rewrite !kn_inner by lia.
    assert (E : forall t, (length kv - p - 1 <= t)%nat -> (t < length kv)%nat -> kn kv t = kn kv (length kv - 1)).
    { intros t H1 H2. apply Qcle_antisym; [apply Hs; lia|rewrite <- Hl; apply Hs; lia]. }
    rewrite (E (S (length kv - 2 - q - 1))) by lia. rewrite (E (S (length kv - 2 - 1))) by lia. reflexivity.
  - rewrite HL. rewrite !kn_inner by lia.
    replace (S (length kv - 2 - q - 2)) with (length kv - p - 2)%nat by lia.
    replace (S (length kv - 2 - q - 1)) with (length kv - p - 1)%nat by lia. exact Hls.
Qed.

Lemma derivative_wellformed_l kv q c : let p := S q in kv_ok kv p -> length c = numdofs kv p ->
  kv_ok (derivative_kv kv) q /\
  length (derivative_coeffs kv p c) = numdofs (derivative_kv kv) q /\
  numdofs (derivative_kv kv) q = (numdofs kv p - 1)%nat.
Proof.
  intros p Hok Hc. split; [apply derivative_kv_ok_l; exact Hok|].
  destruct Hok as [Hlen _ _ _ _].
  assert (Hp : p = S q) by reflexivity.
  rewrite derivative_coeffs_length by (try exact Hc; lia).
  unfold numdofs in *. unfold derivative_kv. rewrite sl_1_m1_length. lia.
Qed.
