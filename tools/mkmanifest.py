"""Regenerate MANIFEST.json from the META dict of every harness/props/cNN.py."""
import importlib
import json
import os
import sys

V = os.path.dirname(os.path.dirname(os.path.abspath(__file__)))
sys.path.insert(0, V)
props = [json.loads(l)['id'] for l in open(os.path.join(V, 'properties.jsonl'))]
checks = []
na = []
unfinished = set(open(os.path.join(V, 'tools', 'unfinished.txt')).read().split()) if os.path.exists(os.path.join(V, 'tools', 'unfinished.txt')) else set()
for pid in props:
    try:
        if pid in unfinished:
            raise RuntimeError('unfinished')
        mod = importlib.import_module('harness.props.' + pid.lower())
        meta = mod.META
    except Exception as e:  # not built yet
        na.append({'property_id': pid, 'reason': 'check not built yet in this round (planned in DESIGN.md section 4); not a claim that proof is inapplicable'})
        continue
    addenda = json.load(open(os.path.join(V, 'tools', 'level_addenda.json'))) if os.path.exists(os.path.join(V, 'tools', 'level_addenda.json')) else {}
    if pid in addenda and addenda[pid].strip()[:40] not in meta['level_text']:
        meta = dict(meta, level_text=meta['level_text'] + addenda[pid])
    checks.append({
        'property_id': pid,
        'quick_cmd': './check %s --tier quick' % pid,
        'thorough_cmd': './check %s --tier thorough' % pid,
        'evidence_file': '/verif/evidence/%s.json' % pid,
        'replay_cmd_template': './check %s --replay {path}' % pid,
        'engine': 'rocq-proof+correspondence',
        'level_claimed': {'category': 'proof', 'text': meta['level_text'], 'design_ref': meta.get('design_ref', 'DESIGN.md section 4 ' + pid)},
        'level_note': meta['level_note'],
        'technique': meta['technique'],
    })
m = {
    'version': 1,
    'setup_cmd': './setup.sh',
    'hooks': {'guard': 'PYIGA_VERIF', 'enable': 'no hooks in /repo: checks copy the working tree to a scratch directory, rebuild the extensions there and drive it from outside (PYIGA_VERIF=1 is set for the drivers but nothing in /repo reads it)',
              'baseline_off_cmd': 'cd /repo && /venv/bin/python -m pytest -ra -q -p no:cacheprovider --timeout=900 --continue-on-collection-errors',
              'source_commits': [], 'add_only': True},
    'engines': [{'name': 'rocq-proof+correspondence', 'path': '/verif/check', 'serves_properties': [c['property_id'] for c in checks],
                 'kind_free_text': 'Coq 8.16.1 theories under /verif/coq (Model/Spec/Proofs/Props per property, full .vo build, Print Assumptions gate) + translators/correspondence harness under /verif/harness that rebuilds /repo in a scratch copy and compares it with the model evaluated by vm_compute'}],
    'checks': checks,
    'not_applicable': na,
    'notes': 'See DESIGN.md. known_findings.json lists repaired defects (fix: commits in /repo) and open findings.',
}
json.dump(m, open(os.path.join(V, 'MANIFEST.json'), 'w'), indent=1)
print('checks:', [c['property_id'] for c in checks], 'not built:', [n['property_id'] for n in na])
