(* C19 -- bounded binary64 statement, part 2 of 4 (computed): for the intervals
   [0.3333333333333333,0.6666666666666666], [0.0,0.3], [2.0,3.0], [-0.5,0.25] (nearest doubles) and every n = 1..2000 the break points of the repaired
   make_knots pass NpF.bp_ok. *)
From Coq Require Import PrimFloat List Arith Bool.
From Verif.lib Require Import NpCore NpF.
Import ListNotations.
Open Scope float_scope.

Definition grid2 : list (float * float) :=
  [(0x1.5555555555555p-2, 0x1.5555555555555p-1);
   (0x0.0p+0, 0x1.3333333333333p-2);
   (0x1.0000000000000p+1, 0x1.8000000000000p+1);
   ((-0x1.0000000000000p-1), 0x1.0000000000000p-2)].

Lemma grid2_ok : grid_check 2000 grid2 = true.
Proof. vm_compute. reflexivity. Qed.
