(* C19 -- the mesh cells of a support: between two knot indices s <= k the non-empty knot spans map, in
   order, onto the mesh cells k2m[s] .. k2m[k]-1; for the support of B-spline j this is the range
   given by mesh_support_idx. *)
From Coq Require Import QArith Qcanon ZArith List Arith Bool Lia Lqa.
From Verif.lib Require Import Bsp NpCore NpQ.
From Verif.C02 Require Import Proofs.
From Verif.C19 Require Import Model Proofs Proofs2 Proofs8.
Import ListNotations.
Open Scope Qc_scope.

Definition nonempty_span (kv : list Qc) (i : nat) : bool := qltb (kn kv i) (kn kv (S i)).

Lemma range_cells kv s : kv_valid kv = true -> forall d, (s + d < length kv)%nat ->
  map (k2m kv) (filter (nonempty_span kv) (seq s d)) = seq (k2m kv s) (k2m kv (s + d) - k2m kv s).
Proof.
  intros Hv. pose proof (sortedb_idx kv Hv) as Hs.
  induction d as [|d IH]; intros Hd.
  - replace (s + 0)%nat with s by lia. rewrite Nat.sub_diag. reflexivity.
  - rewrite seq_S, filter_app, map_app, IH by lia. cbn [filter].
    pose proof (k2m_monotone_l kv s (s + d) Hv ltac:(lia) ltac:(lia)) as Hm.
    replace (s + S d)%nat with (S (s + d)) by lia.
    unfold nonempty_span at 1. destruct (qltb (kn kv (s + d)) (kn kv (S (s + d)))) eqn:E; cbn [map].
    + apply NpQ.qltb_iff in E. rewrite (k2m_step_l kv (s + d) Hv ltac:(lia) E).
      replace (S (k2m kv (s + d)) - k2m kv s)%nat with (S (k2m kv (s + d) - k2m kv s)) by lia.
      rewrite seq_S. f_equal. f_equal. lia.
    + assert (Eq : kn kv (s + d) = kn kv (S (s + d))).
      { apply Qcle_antisym; [apply Hs; lia|]. apply qltb_false_iff. exact E. }
      rewrite (k2m_same_l kv (s + d) ltac:(lia) Eq). rewrite app_nil_r. reflexivity.
Qed.

(* the non-empty spans inside the support of B-spline j are, in order, the mesh cells lo .. hi-1 of
   mesh_support_idx j = (lo, hi); in particular there are hi - lo of them, and they are exactly the
   entries of mesh_span_indices that lie in j .. j+p *)
Lemma support_cells_l kv p j : kv_valid kv = true -> (j + p + 1 < length kv)%nat ->
  let '(lo, hi) := mesh_support_idx kv p j in
  let spans := filter (nonempty_span kv) (seq j (p + 1)) in
  map (k2m kv) spans = seq lo (hi - lo) /\ length spans = (hi - lo)%nat /\
  (forall i, In i spans <-> (In i (mesh_span_indices kv) /\ (j <= i < j + p + 1)%nat)).
Proof.
  intros Hv Hj. unfold mesh_support_idx, support_idx. cbn [fst snd].
  fold (k2m kv j). fold (k2m kv (j + p + 1)).
  pose proof (range_cells kv j Hv (p + 1) ltac:(lia)) as R.
  replace (j + (p + 1))%nat with (j + p + 1)%nat in R by lia.
  split; [exact R|]. split.
  - rewrite <- (map_length (k2m kv)), R, seq_length. reflexivity.
  - intros i. rewrite filter_In, in_seq, (span_indices_sorted_In kv i Hv). unfold nonempty_span.
    rewrite NpQ.qltb_iff. split.
    + intros [Hr Hlt]. split; [split; [lia|exact Hlt]|lia].
    + intros [[_ Hlt] Hr]. split; [lia|exact Hlt].
Qed.
