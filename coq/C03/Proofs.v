(* C03 -- lemmas.  Theorem statements are repeated (and explained) in Props.v. *)
From Coq Require Import List Arith Bool Lia NArith Ring.
From Verif.lib Require Import FinSet.
From Verif.C04 Require Import Model Proofs ProofsFun.
From Verif.C03 Require Import Model.
Import ListNotations.

(* ------------------------------------------------------------------------- *)
(* Dirichlet specification                                                     *)

Lemma neighbors_bds : forall st b1 b2 k i, neighbors st b1 k i = neighbors st b2 k i.
Proof.
  intros st b1 b2 k i. unfold neighbors. destruct (i =? k) eqn:E; auto.
  unfold cell_supp_d. destruct (in_window None k i); auto.
  rewrite E. reflexivity.
Qed.

Lemma in_window_lt : forall d k i, in_window d k i = true -> i < k.
Proof. intros d k i H. unfold in_window in H. apply andb_prop in H. destruct H as [H _]. apply Nat.ltb_lt in H; auto. Qed.

Lemma cell_supp_offdiag_bds : forall st b1 b2 lv i, i <> lv -> cell_supp st b1 lv i = cell_supp st b2 lv i.
Proof.
  intros st b1 b2 lv i H. unfold cell_supp, cell_supp_d. destruct (in_window (hs_disparity st) lv i); auto.
  destruct (i =? lv) eqn:E; auto. apply Nat.eqb_eq in E. contradiction.
Qed.

(* ------------------------------------------------------------------------- *)
(* sets: neighbours are complete                                               *)

Lemma In_support : forall ms fs c, In c (support ms fs) <-> exists f, In f fs /\ In c (support1 ms f).
Proof.
  intros ms fs c. unfold support.
  assert (G : forall acc, In c (fold_left (fun acc f => union acc (support1 ms f)) fs acc) <->
                          In c acc \/ exists f, In f fs /\ In c (support1 ms f)).
  { induction fs as [|f fs IH]; intros acc; simpl.
    - split; [auto | intros [H|[f [[] _]]]; auto].
    - rewrite IH, union_In. split.
      + intros [[H|H]|[f' [H1 H2]]]; auto.
        * right; exists f; auto.
        * right; exists f'; auto.
      + intros [H|[f' [[->|H1] H2]]]; auto. right; exists f'; auto. }
  rewrite G. simpl. split; [intros [[]|H]; auto | auto].
Qed.

Lemma anc_parent_comm : forall n c, anc n (parent1 c) = parent1 (anc n c).
Proof. induction n as [|n IH]; intros c; [reflexivity|]. rewrite !anc_S. rewrite IH. reflexivity. Qed.

Lemma In_cell_grandparent : forall n cells c, In c cells -> In (anc n c) (cell_grandparent n cells).
Proof.
  induction n as [|n IH]; intros cells c H; [simpl; auto|].
  change (cell_grandparent (S n) cells) with (cell_grandparent n (cell_parent cells)).
  rewrite anc_S, <- anc_parent_comm.
  apply IH. unfold cell_parent. apply of_list_In. apply in_map; auto.
Qed.

(* An active function f of level i < k (within the disparity window) that does not vanish on the level-i
   ancestor of a cell c in the support of an active level-k function g is in neighbors[k][i]. *)
Lemma neighbors_complete_l : forall st b k i f g c,
  i < k ->
  mesh_ok (msh st i) ->
  In f (AFm st i) -> In f (tp_functions (msh st i)) ->
  In g (AFm st k) ->
  In c (support1 (msh st k) g) ->
  length (anc (k - i) c) = dim (msh st i) ->
  In (anc (k - i) c) (support1 (msh st i) f) ->
  In f (neighbors st b k i).
Proof.
  intros st b k i f g c Hlt Hm Hf HfT Hg Hc Hlen Hs.
  assert (Hw : in_window None k i = true) by (unfold in_window; rewrite andb_true_r; apply Nat.ltb_lt; auto).
  unfold neighbors. replace (i =? k) with false by (symmetry; apply Nat.eqb_neq; lia).
  unfold cell_supp_d. rewrite Hw. apply inter_In. split; auto.
  apply In_supported_in. exists (anc (k - i) c). split.
  - apply In_cell_grandparent. apply In_support. exists g. split; auto.
  - apply (mo_dual _ Hm); auto.
Qed.

(* ------------------------------------------------------------------------- *)
(* the window of the unpatched assembly is not sufficient (witness by evaluation) *)
Lemma window_old_witness : exists axes d ops k i f,
  let st := run (hs_init axes (Some d)) ops in
  In f (neighbors st None k i) /\ ~ In f (neighbors_old st None k i) /\ admissible_b st d = false.
Proof.
  exists [mk_axis 2 [3; 1; 1; 3]], 1,
    [Refine [(0, (CSet, [[0]]))] false; Refine [(1, (CTuple, [[0]]))] false;
     Refine [(2, (CList, [[0]; [1]])); (1, (CList, [[3]; [5]]))] true], 3, 1, [2].
  vm_compute. split; [left; reflexivity | split; [intros [] | reflexivity]].
Qed.

(* ------------------------------------------------------------------------- *)
(* algebra over an arbitrary commutative ring                                  *)
Section Alg.
Variable R : Type.
Variables (r0 r1 : R) (radd rmul rsub : R -> R -> R) (ropp : R -> R).
Hypothesis Rth : ring_theory r0 r1 radd rmul rsub ropp eq.
Add Ring Rring : Rth.

Notation "x + y" := (radd x y).
Notation "x * y" := (rmul x y).
Notation sum := (sumf R r0 radd).

Lemma sum_ext : forall (A : Type) (f g : A -> R) l, (forall x, In x l -> f x = g x) -> sum f l = sum g l.
Proof.
  intros A f g l. induction l as [|x l IH]; intros H; simpl; auto.
  rewrite H by (left; auto). rewrite IH; auto. intros y Hy. apply H. right; auto.
Qed.

Lemma sum_zero : forall (A : Type) (f : A -> R) l, (forall x, In x l -> f x = r0) -> sum f l = r0.
Proof.
  intros A f l. induction l as [|x l IH]; intros H; simpl; auto.
  rewrite H by (left; auto). rewrite IH by (intros; apply H; right; auto). ring.
Qed.

Lemma sum_add : forall (A : Type) (f g : A -> R) l, sum (fun x => f x + g x) l = sum f l + sum g l.
Proof. intros A f g l. induction l as [|x l IH]; simpl; [ring | rewrite IH; ring]. Qed.

Lemma sum_mul_l : forall (A : Type) (c : R) (f : A -> R) l, sum (fun x => c * f x) l = c * sum f l.
Proof. intros A c f l. induction l as [|x l IH]; simpl; [ring | rewrite IH; ring]. Qed.

Lemma sum_mul_r : forall (A : Type) (c : R) (f : A -> R) l, sum (fun x => f x * c) l = sum f l * c.
Proof. intros A c f l. induction l as [|x l IH]; simpl; [ring | rewrite IH; ring]. Qed.

Lemma sum_swap : forall (A B : Type) (f : A -> B -> R) la lb,
  sum (fun x => sum (fun y => f x y) lb) la = sum (fun y => sum (fun x => f x y) la) lb.
Proof.
  intros A B f la lb. induction la as [|x la IH]; simpl.
  - symmetry. apply sum_zero. auto.
  - rewrite IH. rewrite <- sum_add. reflexivity.
Qed.

Lemma sum_app : forall (A : Type) (f : A -> R) l1 l2, sum f (l1 ++ l2) = sum f l1 + sum f l2.
Proof. intros A f l1 l2. induction l1 as [|x l IH]; simpl; [ring | rewrite IH; ring]. Qed.

(* sum of a function that vanishes outside a duplicate-free sublist *)
Lemma sum_delta : forall (f : mi -> R) (l : list mi) (x : mi), NoDup l -> In x l ->
  sum (fun y => if mi_eqb y x then f y else r0) l = f x.
Proof.
  intros f l x Hnd. induction Hnd as [|y l Hny Hnd IH]; intros Hin; [destruct Hin|]. simpl.
  destruct Hin as [->|Hin].
  - replace (mi_eqb x x) with true by (symmetry; apply mi_eqb_eq; auto).
    rewrite sum_zero; [ring|]. intros z Hz. destruct (mi_eqb z x) eqn:E; auto.
    apply mi_eqb_eq in E. subst. contradiction.
  - destruct (mi_eqb y x) eqn:E.
    + apply mi_eqb_eq in E. subst. contradiction.
    + rewrite IH by auto. ring.
Qed.

Lemma sum_restrict : forall (f : mi -> R) (big small : list mi),
  NoDup big -> NoDup small -> (forall x, In x small -> In x big) ->
  (forall x, In x big -> ~ In x small -> f x = r0) ->
  sum f big = sum f small.
Proof.
  intros f big small Hb. revert small. induction Hb as [|y big Hny Hb IH]; intros small Hs Hsub Hz.
  - destruct small as [|x s]; auto. destruct (Hsub x (or_introl eq_refl)).
  - simpl. destruct (In_dec_mi y small) as [Hin|Hnin].
    + destruct (in_split _ _ Hin) as [s1 [s2 ->]].
      assert (Hs' : NoDup (s1 ++ s2)) by (eapply NoDup_remove_1; eauto).
      assert (Hny' : ~ In y (s1 ++ s2)) by (eapply NoDup_remove_2; eauto).
      rewrite (IH (s1 ++ s2)); auto.
      * rewrite !sum_app. simpl. ring.
      * intros x Hx. assert (Hx' : In x (s1 ++ y :: s2)).
        { apply in_app_or in Hx. apply in_or_app. destruct Hx; auto. right; right; auto. }
        destruct (Hsub x Hx') as [<-|H]; auto. contradiction.
      * intros x Hx Hn. apply Hz; [right; auto|]. intros Hx'.
        apply in_app_or in Hx'. apply Hn. apply in_or_app. destruct Hx' as [H|[<-|H]]; auto. contradiction.
    + rewrite (Hz y (or_introl eq_refl) Hnin). rewrite (IH small); auto; [ring| |].
      * intros x Hx. destruct (Hsub x Hx) as [<-|H]; auto. contradiction.
      * intros x Hx Hn. apply Hz; auto. right; auto.
Qed.

(* ---- the blocks in entry form -------------------------------------------------------- *)
Section Blocks.
Variable a : nat -> mi -> mi -> R.
Variable rep : nat -> nat -> mi -> mi -> R.
Variable nb : nat -> nat -> list mi.
Variable il : nat -> list mi.
Variable ta : nat -> list mi.

Notation blk := (blk_entry R r0 radd rmul a rep nb il ta).
Notation amk := (am R r0 a ta).
Notation imk := (im R r0 rep ta).

(* symmetric assembly of a symmetric form = general assembly *)
Lemma symmetric_equals_general_l :
  (forall k r c, a k r c = a k c r) ->
  (forall k r, In r (il k) -> In r (ta k)) ->
  forall li fi lj fj, In fi (ta li) -> In fj (ta lj) ->
  blk true li fi lj fj = blk false li fi lj fj.
Proof.
  intros Hsym Hil li fi lj fj Hfi Hfj. unfold blk_entry.
  destruct (li =? lj); auto. destruct (li <? lj); auto.
  destruct (mem fj (nb li lj)); auto.
  apply sum_ext. intros r Hr. unfold am, im.
  assert (Hm : mem r (ta li) = true) by (apply mem_In; apply Hil; auto).
  assert (Hf : mem fi (ta li) = true) by (apply mem_In; auto).
  rewrite Hm, Hf. rewrite (Hsym li r fi). ring.
Qed.

(* the specification: the form applied to the two hierarchical basis functions represented on the finer
   of their two levels, all functions of that level *)
Variable fns : nat -> list mi.
Definition spec_entry (li : nat) (fi : mi) (lj : nat) (fj : mi) : R :=
  let k := Nat.max li lj in
  sum (fun r => sum (fun c => rep li k fi r * a k r c * rep lj k fj c) (fns k)) (fns k).

Hypothesis fns_nodup : forall k, NoDup (fns k).
Hypothesis il_nodup : forall k, NoDup (il k).
Hypothesis il_fns : forall k r, In r (il k) -> In r (fns k).
Hypothesis il_ta : forall k r, In r (il k) -> In r (ta k).
Hypothesis rep_diag : forall k f r, rep k k f r = if mi_eqb r f then r1 else r0.

Lemma spec_row_delta : forall k f (g : mi -> R), In f (fns k) ->
  sum (fun r => rep k k f r * g r) (fns k) = g f.
Proof.
  intros k f g Hf.
  rewrite (sum_ext _ _ (fun r => if mi_eqb r f then g r else r0)).
  - apply sum_delta; auto.
  - intros r _. rewrite rep_diag. destruct (mi_eqb r f); ring.
Qed.

Lemma spec_same_level : forall k fi fj, In fi (fns k) -> In fj (fns k) ->
  spec_entry k fi k fj = a k fi fj.
Proof.
  intros k fi fj Hi Hj. unfold spec_entry. rewrite Nat.max_id.
  rewrite (sum_ext _ _ (fun r => rep k k fi r * sum (fun c => a k r c * rep k k fj c) (fns k))).
  - rewrite spec_row_delta by auto.
    rewrite (sum_ext _ _ (fun c => rep k k fj c * a k fi c)) by (intros; ring).
    apply spec_row_delta; auto.
  - intros r _. rewrite <- sum_mul_l. apply sum_ext. intros; ring.
Qed.

(* entry characterisation, HB, general assembly.
   For the pair (coarse function fi of level li, fine function fj of level lj > li), and symmetrically:
     rep_in_il   the level-lj representation of a NEIGHBOUR vanishes outside interlevel_ix[lj]
                 (interlevel_ix contains all its grandchildren);
     non_nb_zero a coarse active function that is not in neighbors[lj][li] has no interaction with fj:
                 every term rep * a vanishes (locality of the form + the disparity window). *)
Lemma hassemble_entry_lower : forall li fi lj fj,
  li < lj -> In fj (fns lj) -> In fj (ta lj) ->
  (In fi (nb lj li) -> forall r, In r (fns lj) -> ~ In r (il lj) -> rep li lj fi r = r0) ->
  (~ In fi (nb lj li) -> forall r, In r (fns lj) -> rep li lj fi r * a lj r fj = r0) ->
  blk false li fi lj fj = spec_entry li fi lj fj.
Proof.
  intros li fi lj fj Hlt Hj Hjt Hnb Hnn.
  unfold spec_entry. replace (Nat.max li lj) with lj by lia.
  assert (E : sum (fun r => sum (fun c => rep li lj fi r * a lj r c * rep lj lj fj c) (fns lj)) (fns lj)
              = sum (fun r => rep li lj fi r * a lj r fj) (fns lj)).
  { apply sum_ext. intros r _.
    rewrite (sum_ext _ _ (fun c => rep lj lj fj c * (rep li lj fi r * a lj r c))) by (intros; ring).
    apply spec_row_delta; auto. }
  rewrite E. unfold blk_entry.
  replace (li =? lj) with false by (symmetry; apply Nat.eqb_neq; lia).
  replace (li <? lj) with true by (symmetry; apply Nat.ltb_lt; lia).
  destruct (mem fi (nb lj li)) eqn:M.
  - apply mem_In in M. symmetry.
    rewrite (sum_restrict _ (fns lj) (il lj)); auto.
    + apply sum_ext. intros r Hr. unfold am, im.
      replace (mem r (ta lj)) with true by (symmetry; apply mem_In; auto). reflexivity.
    + intros r Hr Hn. rewrite (Hnb M r Hr Hn). ring.
  - apply mem_false_In in M. symmetry. apply sum_zero. intros r Hr. apply Hnn; auto.
Qed.

Lemma hassemble_entry_upper : forall li fi lj fj,
  lj < li -> In fi (fns li) -> In fi (ta li) ->
  (In fj (nb li lj) -> forall c, In c (fns li) -> ~ In c (il li) -> rep lj li fj c = r0) ->
  (~ In fj (nb li lj) -> forall c, In c (fns li) -> a li fi c * rep lj li fj c = r0) ->
  blk false li fi lj fj = spec_entry li fi lj fj.
Proof.
  intros li fi lj fj Hlt Hi Hit Hnb Hnn.
  unfold spec_entry. replace (Nat.max li lj) with li by lia.
  assert (E : sum (fun r => sum (fun c => rep li li fi r * a li r c * rep lj li fj c) (fns li)) (fns li)
              = sum (fun c => a li fi c * rep lj li fj c) (fns li)).
  { rewrite (sum_ext _ _ (fun r => rep li li fi r * sum (fun c => a li r c * rep lj li fj c) (fns li))).
    - apply spec_row_delta; auto.
    - intros r _. rewrite <- sum_mul_l. apply sum_ext. intros; ring. }
  rewrite E. unfold blk_entry.
  replace (li =? lj) with false by (symmetry; apply Nat.eqb_neq; lia).
  replace (li <? lj) with false by (symmetry; apply Nat.ltb_ge; lia).
  destruct (mem fj (nb li lj)) eqn:M.
  - apply mem_In in M. symmetry.
    rewrite (sum_restrict _ (fns li) (il li)); auto.
    + apply sum_ext. intros c Hc. unfold am, im.
      replace (mem c (ta li)) with true by (symmetry; apply mem_In; auto).
      replace (mem fi (ta li)) with true by (symmetry; apply mem_In; auto). reflexivity.
    + intros c Hc Hn. rewrite (Hnb M c Hc Hn). ring.
  - apply mem_false_In in M. symmetry. apply sum_zero. intros c Hc. apply Hnn; auto.
Qed.

Lemma hassemble_entry_diag : forall k fi fj,
  In fi (fns k) -> In fj (fns k) -> In fi (ta k) ->
  blk false k fi k fj = spec_entry k fi k fj.
Proof.
  intros k fi fj Hi Hj Hit. rewrite spec_same_level by auto.
  unfold blk_entry. rewrite Nat.eqb_refl. unfold am.
  replace (mem fi (ta k)) with true by (symmetry; apply mem_In; auto). reflexivity.
Qed.

End Blocks.

(* ---- bilinear forms on coefficient vectors: Galerkin projection and THB congruence ---- *)
Lemma sum_swap4 : forall (A B C D : Type) (f : A -> B -> C -> D -> R) la lb lc ld,
  sum (fun x => sum (fun y => sum (fun z => sum (fun w => f x y z w) ld) lc) lb) la
  = sum (fun z => sum (fun w => sum (fun x => sum (fun y => f x y z w) lb) la) ld) lc.
Proof.
  intros A B C D f la lb lc ld.
  transitivity (sum (fun x => sum (fun z => sum (fun y => sum (fun w => f x y z w) ld) lb) lc) la).
  { apply sum_ext. intros x _. apply sum_swap. }
  rewrite sum_swap. apply sum_ext. intros z _.
  transitivity (sum (fun x => sum (fun w => sum (fun y => f x y z w) lb) ld) la).
  { apply sum_ext. intros x _. apply sum_swap. }
  apply sum_swap.
Qed.

Section Forms.
Variable fns : nat -> list mi.
Variable a : nat -> mi -> mi -> R.

(* x^T A_k y *)
Definition form (k : nat) (x y : mi -> R) : R :=
  sum (fun r => sum (fun c => x r * a k r c * y c) (fns k)) (fns k).

Lemma form_bilinear : forall (I J : Type) (li : list I) (lj : list J) k (al : I -> R) (be : J -> R)
    (x : I -> mi -> R) (y : J -> mi -> R),
  form k (fun r => sum (fun i => al i * x i r) li) (fun c => sum (fun j => be j * y j c) lj)
  = sum (fun i => sum (fun j => al i * form k (x i) (y j) * be j) lj) li.
Proof.
  intros I J li lj k al be x y. unfold form.
  transitivity (sum (fun r => sum (fun c => sum (fun i => sum (fun j =>
                  al i * (x i r * a k r c * y j c) * be j) lj) li) (fns k)) (fns k)).
  { apply sum_ext. intros r _. apply sum_ext. intros c _.
    rewrite <- sum_mul_r. rewrite <- sum_mul_r.
    apply sum_ext. intros i _. rewrite <- sum_mul_l. apply sum_ext. intros j _. ring. }
  rewrite sum_swap4. apply sum_ext. intros i _. apply sum_ext. intros j _.
  rewrite <- sum_mul_l. rewrite <- sum_mul_r. apply sum_ext. intros r _.
  rewrite <- sum_mul_l. rewrite <- sum_mul_r. apply sum_ext. intros c _. ring.
Qed.

(* tensor-product prolongation of a coefficient vector, level k -> k+1 *)
Variable P : nat -> mi -> mi -> R.
Definition prol (k : nat) (x : mi -> R) : mi -> R := fun r' => sum (fun r => x r * P k r' r) (fns k).

(* nestedness of the level forms: A_k = P_k^T A_{k+1} P_k (true when the quadrature of both levels
   integrates the integrand exactly) *)
Definition nested (k : nat) : Prop :=
  forall r c, a k r c = form (S k) (fun r' => P k r' r) (fun c' => P k c' c).

Lemma form_nested : forall k x y, nested k -> form k x y = form (S k) (prol k x) (prol k y).
Proof.
  intros k x y Hn. unfold prol. rewrite form_bilinear. unfold form at 1.
  apply sum_ext. intros r _. apply sum_ext. intros c _. rewrite (Hn r c). reflexivity.
Qed.

Fixpoint prol_to (n k : nat) (x : mi -> R) : mi -> R :=      (* level k -> k+n *)
  match n with 0 => x | S n' => prol (Nat.add n' k) (prol_to n' k x) end.

Lemma form_nested_n : forall n k x y, (forall j, k <= j < Nat.add n k -> nested j) ->
  form k x y = form (Nat.add n k) (prol_to n k x) (prol_to n k y).
Proof.
  induction n as [|n IH]; intros k x y Hn; [reflexivity|].
  rewrite IH by (intros j Hj; apply Hn; lia). simpl.
  apply form_nested. apply Hn. lia.
Qed.

(* Galerkin: if entry (i, j) is the level-k form of the two representations (entry characterisation) and
   the forms of levels k .. K-1 are nested, the entry is the finest-level form of the finest-level
   representations: (I^T A_fine I)[i, j] *)
Lemma hassemble_galerkin_l : forall (rep : nat -> nat -> mi -> mi -> R) li fi lj fj n,
  let k := Nat.max li lj in
  (forall j, k <= j < Nat.add n k -> nested j) ->
  (forall j r, k <= j < Nat.add n k -> rep li (S j) fi r = prol j (rep li j fi) r) ->
  (forall j r, k <= j < Nat.add n k -> rep lj (S j) fj r = prol j (rep lj j fj) r) ->
  spec_entry a rep fns li fi lj fj = form (Nat.add n k) (rep li (Nat.add n k) fi) (rep lj (Nat.add n k) fj).
Proof.
  intros rep li fi lj fj n k Hn Hi Hj.
  assert (E : spec_entry a rep fns li fi lj fj = form k (rep li k fi) (rep lj k fj)) by reflexivity.
  rewrite E. rewrite (form_nested_n n k) by auto.
  assert (G : forall (l : nat) (f : mi), (forall j r, k <= j < Nat.add n k -> rep l (S j) f r = prol j (rep l j f) r) ->
              forall m, m <= n -> forall r, prol_to m k (rep l k f) r = rep l (Nat.add m k) f r).
  { intros l f H. induction m as [|m IHm]; intros Hm r; [reflexivity|].
    simpl. rewrite (H (Nat.add m k) r) by lia. unfold prol. apply sum_ext. intros q _.
    rewrite IHm by lia. reflexivity. }
  unfold form. apply sum_ext. intros r _. apply sum_ext. intros c _.
  rewrite (G li fi Hi n (le_n _) r), (G lj fj Hj n (le_n _) c). reflexivity.
Qed.

(* THB: the congruence T^T M T of a matrix whose entries are a bilinear form of the columns of a
   representation matrix RH is the same form of the columns of RH * T *)
Lemma thb_congruence_l : forall (I : Type) (idx : list I) (T : I -> I -> R) (RH : I -> mi -> R) (M : I -> I -> R) K,
  (forall i j, M i j = form K (RH i) (RH j)) ->
  forall i j,
  sum (fun i' => sum (fun j' => T i' i * M i' j' * T j' j) idx) idx
  = form K (fun r => sum (fun i' => T i' i * RH i' r) idx) (fun c => sum (fun j' => T j' j * RH j' c) idx).
Proof.
  intros I idx T RH M K HM i j. rewrite form_bilinear.
  apply sum_ext. intros i' _. apply sum_ext. intros j' _. rewrite HM. reflexivity.
Qed.

End Forms.

End Alg.
