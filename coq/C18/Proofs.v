(* C18 -- proofs. *)
From Coq Require Import List Arith Bool ZArith Lia Ring.
From Verif.C18 Require Import Model.
Import ListNotations.

Lemma wrap_in_range n i k : wrap n i = Some k -> k < n.
Proof.
  unfold wrap. intros H.
  destruct ((0 <=? i)%Z && (i <? Z.of_nat n)%Z) eqn:E1.
  - inversion H; subst. apply andb_true_iff in E1. destruct E1 as [A B].
    apply Z.leb_le in A. apply Z.ltb_lt in B. lia.
  - destruct ((- Z.of_nat n <=? i)%Z && (i <? 0)%Z) eqn:E2; [|discriminate].
    inversion H; subst. apply andb_true_iff in E2. destruct E2 as [A B].
    apply Z.leb_le in A. apply Z.ltb_lt in B. lia.
Qed.
