(* C06 -- replace_physical_derivs + _geo_hess_trf of the MODEL: the emitted formulas are the
   physical gradient / Hessian whenever the parametric jets are the composition of the physical
   jets with the geometry 2-jet (dims 1, 2; dim 3 gradient here, dim 3 Hessian in Phys3.v). *)
From Coq Require Import List String Bool Arith Lia Field Ring.
From Verif.C06 Require Import Model.
Import ListNotations.

Section Phys.
Variable F : Type.
Variables (f0 f1 : F) (fadd fmul fsub fdiv : F -> F -> F) (fopp finv : F -> F).
Hypothesis Fth : field_theory f0 f1 fadd fmul fsub fopp fdiv finv (@eq F).
Add Field Ffield3 : Fth.
Infix "+" := fadd. Infix "*" := fmul. Infix "-" := fsub. Infix "/" := fdiv.
Notation "- x" := (fopp x).
Notation eval := (eval F fadd fmul fsub fdiv fopp).
Notation eval_defs := (eval_defs F f0 fadd fmul fsub fdiv fopp).
Notation expr := (expr F).
Notation env := (env F).
Notation rpd_bf := (rpd_bf F f0).

(* the geometry 2-jet (J = dG/dxi, HG m = Hessian of G_m), the physical jets of the function
   (gu = gradient, Hu = Hessian, both indexed with sorted pairs) and its value *)
Variable J : nat -> nat -> F.
Variable HG : nat -> nat -> nat -> F.
Variable gu : nat -> F.
Variable Hu : nat -> nat -> F.
Variable u0 : F.

Definition fsum (n : nat) (f : nat -> F) : F := fold_right (fun k acc => f k + acc) f0 (seq 0 n).
Definition sHu (k l : nat) : F := Hu (Nat.min k l) (Nat.max k l).
Definition sHG (m a b : nat) : F := HG m (Nat.min a b) (Nat.max a b).

(* parametric jets DEFINED by composition of 2-jets: u = u~ o G *)
Definition par_jet (d : nat) (D : list nat) : F :=
  match D_to_indices D with
  | [] => u0
  | [a] => fsum d (fun k => J k a * gu k)
  | [a; b] => fsum d (fun k => fsum d (fun l => J k a * sHu k l * J l b)) + fsum d (fun m => gu m * sHG m a b)
  | _ => f0
  end.

Definition Jm (d : nat) : list (list expr) :=
  map (fun a => map (fun b => Const (J a b)) (seq 0 d)) (seq 0 d).

Definition dummy : env := mkEnv (fun _ _ _ _ => f0) (fun _ _ _ _ => f0) (fun _ => f0) f0 f0 (fun _ x => x).

Definition detJ (d : nat) : F :=
  match e_det F f1 fopp (S d) (Jm d) with Some e => eval dummy e | None => f0 end.

(* the environment: basis function jets by composition, JacInv = the model's inv of J,
   derivatives of the geometry = J and HG *)
Definition phys_env (d : nat) : env :=
  mkEnv (fun _ _ D _ => par_jet d D)
        (fun n Ix D _ =>
           if String.eqb n "JacInv" then eval dummy (inv_entry F f0 f1 fopp (Jm d) (nth 0 Ix 0) (nth 1 Ix 0))
           else if String.eqb n "geo_a" then
             match D_to_indices D with
             | [a] => J (nth 0 Ix 0) a
             | [a; b] => sHG (nth 0 Ix 0) a b
             | _ => f0 end
           else f0)
        (fun _ => f0) f0 f0 (fun _ x => x).

Definition grad_ok (d k : nat) : Prop :=
  match rpd_bf false d "u" None (unitD d k) true with
  | RNew e ds => eval (eval_defs (phys_env d) ds) e = gu k
  | _ => False
  end.

Definition hess_ok (d i j : nat) : Prop :=
  match rpd_bf false d "u" None (bump (unitD d i) j 1) true with
  | RNew e ds => eval (eval_defs (phys_env d) ds) e = sHu i j
  | _ => False
  end.

Ltac small i := destruct i as [|[|[|i]]]; try lia.
Ltac fin Hd := cbv; field; let H := fresh "H" in (intro H; apply Hd; rewrite <- H; ring).

Lemma physical_grad_1_l : detJ 1 <> f0 -> forall k, k < 1 -> grad_ok 1 k.
Proof. intros Hd k Hk. cbv in Hd. small k. fin Hd. Qed.

Lemma physical_grad_2_l : detJ 2 <> f0 -> forall k, k < 2 -> grad_ok 2 k.
Proof. intros Hd k Hk. cbv in Hd. small k; fin Hd. Qed.

Lemma physical_grad_3_l : detJ 3 <> f0 -> forall k, k < 3 -> grad_ok 3 k.
Proof. intros Hd k Hk. cbv in Hd. small k; fin Hd. Qed.

Lemma physical_hess_1_l : detJ 1 <> f0 -> forall i j, i < 1 -> j < 1 -> hess_ok 1 i j.
Proof. intros Hd i j Hi Hj. cbv in Hd. small i; small j; fin Hd. Qed.

Lemma physical_hess_2_l : detJ 2 <> f0 -> forall i j, i < 2 -> j < 2 -> hess_ok 2 i j.
Proof. intros Hd i j Hi Hj. cbv in Hd. small i; small j; fin Hd. Qed.

End Phys.
